import YaqsModel.Props.C01
import YaqsModel.Lemmas.Dissipation
import YaqsModel.Lemmas.AccumulateEnsemble
import YaqsModel.Lemmas.AccumulateCircuit
import YaqsModel.Lemmas.FlowStability
import YaqsModel.Lemmas.LocalUniform

/-!
# C03 — noisy circuit trajectories average to ideal gates plus local Lindblad noise  (placement + lottery part)

Property text: "the observables averaged over all random choices of a trajectory equal those of the density
matrix obtained by applying each gate exactly and, after every two-qubit gate, the Lindblad channel (unit
duration) of the processes located on that gate's qubits, up to an error that shrinks quadratically when all
strengths are scaled down.  Processes on other qubits, and one-qubit gates, add no noise."

Proved here, for every global process list (any order, any sites, any strengths) and every gate sequence:

* `c03_localNoise_mem`, `c03_localNoise_sublist`, `c03_localNoise_perm`, `c03_local_sum` — the local noise model of a
  gate on `(a,b)` consists of exactly the processes sited on `[a]`, `[b]` or `[a,b]`, in the order of the global list;
* `c03_one_qubit_no_noise`, `c03_two_qubit_noise`, `c03_noise_only_after_2q` — noise operations occur only directly
  after two-qubit gates, once per gate, with unit time step and exactly the local processes;
* `c03_local_probVector_aligned`, `c03_local_lottery_mass`, `c03_local_lottery_perm`, `c03_local_expectation` — the
  C01 lemmas instantiated at `dt = 1` on the local list;
* the capstone `c03_partial`.

```
c03_full (NOT proved — shares C01's analytic limit):
  for every nearest-neighbour circuit g_1 … g_m, noise list procs, observable O:
    | E_tree[⟨O⟩] − tr(O · (𝓝_m ∘ 𝓤_m ∘ … ∘ 𝓝_1 ∘ 𝓤_1)(ρ₀)) | ≤ C · m · γ_max²
  with 𝓤_i the exact gate and 𝓝_i = exp(𝓛_{local(g_i)}) for two-qubit gates (identity for one-qubit gates).
  Missing: `exp` of the dissipator and of the Lindbladian are transcendental in γ; the one-step identity
  `c03_local_expectation` agrees with `exp(𝓛)` to first order in γ, the remainder is the cited estimate.  The harness
  measures the quadratic scaling on the real code on every run.
```
-/
namespace Yaqs.Lottery
open Yaqs Yaqs.Dist

/-- the filter predicate of `create_local_noise_model` as a proposition -/
def IsLocal (a b : Nat) (p : Proc) : Prop := p.sites = [a, b] ∨ p.sites = [a] ∨ p.sites = [b]

instance (a b : Nat) (p : Proc) : Decidable (IsLocal a b p) := by unfold IsLocal; infer_instance

/-! ### the filter -/

/-- **C03 (local noise model)** A process belongs to the local noise model of a gate on `(a,b)` iff it is in the
    global list and sits on `[a,b]`, `[a]` or `[b]` — nothing on other qubits, nothing on a neighbour's pair. -/
theorem c03_localNoise_mem (procs : List Proc) (a b : Nat) (p : Proc) :
    p ∈ localNoise procs a b ↔ p ∈ procs ∧ IsLocal a b p := by
  unfold localNoise IsLocal
  simp only [List.mem_filter, Bool.or_eq_true, beq_iff_eq, or_assoc]

example : exX 2 (1/10) ∉ localNoise [exX 0 (1/10), exX 2 (1/10), exXX 1 (3/10), exXX 0 (7/10)] 0 1 := by decide +kernel
example : localNoise [exX 0 (1/10), exX 2 (1/10), exXX 1 (3/10), exXX 0 (7/10), exLow 1 (1/5)] 0 1 =
    [exX 0 (1/10), exXX 0 (7/10), exLow 1 (1/5)] := by decide +kernel

/-- **C03** The local list is a sublist of the global list: relative order (and multiplicity) is kept, so every
    C01 statement about "the process list in the order given" applies to it. -/
theorem c03_localNoise_sublist (procs : List Proc) (a b : Nat) : (localNoise procs a b).Sublist procs := by
  unfold localNoise
  exact List.filter_sublist

/-- **C03** Reordering the global list reorders the local list and changes nothing else. -/
theorem c03_localNoise_perm (procs procs' : List Proc) (h : procs.Perm procs') (a b : Nat) :
    (localNoise procs a b).Perm (localNoise procs' a b) := by
  unfold localNoise
  exact h.filter _

/-- **C03 ("processes on other qubits add no noise")** Any sum over the local list is the sum over the global list
    with every non-local process contributing zero. -/
theorem c03_local_sum (procs : List Proc) (a b : Nat) (f : Proc → Rat) :
    ((localNoise procs a b).map f).sum = (procs.map (fun p => if IsLocal a b p then f p else 0)).sum := by
  induction procs with
  | nil => rfl
  | cons p ps ih =>
    unfold localNoise at *
    by_cases hp : IsLocal a b p
    · have hb : (p.sites == [a, b] || p.sites == [a] || p.sites == [b]) = true := by
        unfold IsLocal at hp
        simpa [or_assoc] using hp
      rw [List.filter_cons, if_pos hb]
      simp only [List.map_cons, List.sum_cons, ih, if_pos hp]
    · have hb : ¬ (p.sites == [a, b] || p.sites == [a] || p.sites == [b]) = true := by
        unfold IsLocal at hp
        simpa [or_assoc] using hp
      rw [List.filter_cons, if_neg hb, ih]
      simp only [List.map_cons, List.sum_cons, if_neg hp]
      grind

/-! ### placement of the noise operations -/

/-- **C03 ("one-qubit gates add no noise")** -/
theorem c03_one_qubit_no_noise (nm : Option (List Proc)) (q : Nat) : afterGate nm (Gate.one q) = [] := rfl

/-- **C03** After a two-qubit gate on qubits `q0, q1` (either orientation) of a noisy run: one dissipation sweep and
    one jump lottery, both with `dt = 1`, both with the local noise model of `(min, max)`. -/
theorem c03_two_qubit_noise (procs : List Proc) (hn : isNoisy (some procs) = true) (q0 q1 : Nat) :
    afterGate (some procs) (Gate.two q0 q1) =
      [DOp.diss 1 (localNoise procs (min q0 q1) (max q0 q1)), DOp.lot 1 (localNoise procs (min q0 q1) (max q0 q1))] := by
  simp [afterGate, hn]

/-- without noise (no model, or all strengths zero) a two-qubit gate is followed by a normalisation only -/
theorem c03_two_qubit_noise_free (nm : Option (List Proc)) (hn : isNoisy nm = false) (q0 q1 : Nat) :
    afterGate nm (Gate.two q0 q1) = [DOp.normalize] := by
  simp [afterGate, hn]

/-- the lottery calls in an operation list, with their arguments -/
def lotCalls : List DOp → List (Rat × List Proc)
  | [] => []
  | .lot dt ps :: r => (dt, ps) :: lotCalls r
  | _ :: r => lotCalls r

/-- the gates in an operation list -/
def gateCalls : List DOp → List Gate
  | [] => []
  | .gate g :: r => g :: gateCalls r
  | _ :: r => gateCalls r

private theorem lotCalls_append (x y : List DOp) : lotCalls (x ++ y) = lotCalls x ++ lotCalls y := by
  induction x with
  | nil => rfl
  | cons o x ih => cases o <;> simp [lotCalls, ih]

private theorem gateCalls_append (x y : List DOp) : gateCalls (x ++ y) = gateCalls x ++ gateCalls y := by
  induction x with
  | nil => rfl
  | cons o x ih => cases o <;> simp [gateCalls, ih]

/-- the lottery call a gate causes in a noisy run: none for a one-qubit gate, `(dt = 1, local processes)` for a
    two-qubit gate -/
def lotOfGate (procs : List Proc) : Gate → Option (Rat × List Proc)
  | .one _ => none
  | .two q0 q1 => some (1, localNoise procs (min q0 q1) (max q0 q1))

/-- **C03 (`noise_only_after_2q`)** For every sequence of applied gates: the operation list is the gates in order,
    each immediately followed by its own `afterGate` block and nothing else; hence the gates are all applied in
    order, and — in a noisy run — the lottery calls are in bijection with the two-qubit gates, in order, each with
    unit time step and the local processes of its gate. -/
theorem c03_noise_only_after_2q (nm : Option (List Proc)) (gs : List Gate) :
    digitalOps nm gs = gs.flatMap (fun g => DOp.gate g :: afterGate nm g) ∧
    gateCalls (digitalOps nm gs) = gs ∧
    (∀ procs, nm = some procs → isNoisy nm = true →
      lotCalls (digitalOps nm gs) = gs.filterMap (lotOfGate procs)) := by
  refine ⟨?_, ?_, ?_⟩
  · induction gs with
    | nil => rfl
    | cons g gs ih => simp only [digitalOps, List.flatMap_cons, ih, List.cons_append]
  · induction gs with
    | nil => rfl
    | cons g gs ih =>
      simp only [digitalOps, gateCalls, gateCalls_append, ih]
      cases g with
      | one q => simp [afterGate, gateCalls]
      | two q0 q1 => by_cases hn : isNoisy nm = true <;> simp [afterGate, hn, gateCalls]
  · intro procs hnm hn
    subst hnm
    induction gs with
    | nil => rfl
    | cons g gs ih =>
      simp only [digitalOps, lotCalls, lotCalls_append, ih]
      cases g with
      | one q =>
        have : lotOfGate procs (Gate.one q) = none := rfl
        simp [afterGate, lotCalls, this]
      | two q0 q1 =>
        have : lotOfGate procs (Gate.two q0 q1) = some (1, localNoise procs (min q0 q1) (max q0 q1)) := rfl
        simp [afterGate, hn, lotCalls, this]

example : digitalOps (some [exX 0 (1/10), exX 2 (1/10), exXX 0 (7/10)]) [Gate.one 1, Gate.two 1 0, Gate.one 0] =
    [DOp.gate (Gate.one 1), DOp.gate (Gate.two 1 0),
     DOp.diss 1 [exX 0 (1/10), exXX 0 (7/10)], DOp.lot 1 [exX 0 (1/10), exXX 0 (7/10)],
     DOp.gate (Gate.one 0)] := by decide +kernel

/-! ### C01 at `dt = 1` on the local list -/

/-- **C03 / C01.1 at dt = 1** The probability vector of the per-gate lottery is aligned with the local list: entry
    `k` is the weight of the `k`-th *local* process over the local total. -/
theorem c03_local_probVector_aligned (L : Nat) (procs : List Proc) (a b : Nat) (nrm : Proc → Rat) (n : Rat) :
    probVector L (localNoise procs a b) 1 nrm n =
      if totalW L (localNoise procs a b) 1 nrm n = 0 then none
      else some ((localNoise procs a b).map
        (fun p => slotOf L 1 nrm n p / totalW L (localNoise procs a b) 1 nrm n)) :=
  c01_probVector_aligned L (localNoise procs a b) 1 nrm n

example : probVector 3 (localNoise [exX 1 (2/10), exX 2 (5/10), exXX 0 (7/10), exX 0 (1/10)] 0 1) 1 (fun _ => 1) 1 =
    some [2/10, 7/10, 1/10] := by decide +kernel

/-- **C03 / C01.2 at dt = 1** -/
theorem c03_local_lottery_mass (L : Nat) (procs : List Proc) (a b : Nat) (nrm : Proc → Rat) (n : Rat)
    (d : Dist Branch) (hd : stepLottery L (localNoise procs a b) 1 nrm n = some d) : mass d = 1 :=
  c01_lottery_mass L (localNoise procs a b) 1 nrm n d hd

/-- **C03 / C01.4 at dt = 1** The per-gate outcome distribution over processes does not depend on the order of the
    global list. -/
theorem c03_local_lottery_perm (L : Nat) (procs procs' : List Proc) (hperm : procs.Perm procs') (a b : Nat)
    (nrm : Proc → Rat) (n : Rat) (o : List (Rat × Proc))
    (ho : outcomes L (localNoise procs a b) 1 nrm n = some o) :
    ∃ o', outcomes L (localNoise procs' a b) 1 nrm n = some o' ∧ o.Perm o' :=
  c01_lottery_perm L _ _ (c03_localNoise_perm procs procs' hperm a b) 1 nrm n o ho

/-- a local process of a gate on `a < b` inside an `L`-site register is reached by the sweep -/
private theorem local_visited (L : Nat) (a b : Nat) (hab : a < b) (hb : b < L) (p : Proc) (hl : IsLocal a b p)
    (hadj : p.sites = [a, b] → p.pauli = true ∨ b = a + 1) : visited L p = true := by
  unfold IsLocal at hl
  rcases hl with h | h | h
  · have := hadj h
    simp only [visited, h, Bool.and_eq_true, decide_eq_true_eq, Bool.or_eq_true, beq_iff_eq]
    exact ⟨by omega, this⟩
  · simp only [visited, h, decide_eq_true_eq]; omega
  · simp only [visited, h, decide_eq_true_eq]; exact hb

/-- **C03 / C01.3 at dt = 1** Exact one-gate identity: after a two-qubit gate on `a < b < L` the branch average of
    any observable is `a₀ + ((1-n)/W)·Σ γ_p a_p`, both sums over the *global* list restricted to the processes on
    `[a]`, `[b]`, `[a,b]` — every other process contributes zero to the weights and to the average. -/
theorem c03_local_expectation (L : Nat) (procs : List Proc) (a b : Nat) (hab : a < b) (hb : b < L)
    (nrm : Proc → Rat) (n : Rat) (a0 : Rat) (av : Proc → Rat) (v0 : Rat) (v : Nat → Rat)
    (hn0 : 0 ≤ n) (hn1 : n ≤ 1)
    (hadj : ∀ p ∈ procs, p.sites = [a, b] → p.pauli = true ∨ b = a + 1)
    (hP : ∀ p ∈ procs, p.pauli = true → p.sites.length = 2 → nrm p = n)
    (hv0 : n ≠ 0 → v0 = a0 / n) (ha0 : n = 0 → a0 = 0)
    (hv : ∀ k (h : k < (localNoise procs a b).length), nrm (localNoise procs a b)[k] ≠ 0 →
      v k = av (localNoise procs a b)[k] / nrm (localNoise procs a b)[k])
    (ha : ∀ p ∈ procs, nrm p = 0 → av p = 0)
    (d : Dist Branch) (hd : stepLottery L (localNoise procs a b) 1 nrm n = some d) :
    expect d (branchVal v0 v) =
      a0 + (1 - n) / (procs.map (fun p => if IsLocal a b p then p.gamma * nrm p else 0)).sum *
        (procs.map (fun p => if IsLocal a b p then p.gamma * av p else 0)).sum := by
  have hmem : ∀ p ∈ localNoise procs a b, p ∈ procs ∧ IsLocal a b p :=
    fun p hp => (c03_localNoise_mem procs a b p).mp hp
  have h := c01_lottery_expectation_wellsited L (localNoise procs a b) 1 nrm n a0 av v0 v hn0 hn1
    (fun p hp => local_visited L a b hab hb p (hmem p hp).2 (hadj p (hmem p hp).1))
    (fun p hp => hP p (hmem p hp).1) hv0 ha0 hv (fun p hp => ha p (hmem p hp).1) d hd
  rw [h, c03_local_sum, c03_local_sum]
  have e1 : (procs.map (fun p => if IsLocal a b p then 1 * p.gamma * nrm p else 0)) =
      (procs.map (fun p => if IsLocal a b p then p.gamma * nrm p else 0)) := by
    apply List.map_congr_left; intro p _; split <;> grind
  have e2 : (procs.map (fun p => if IsLocal a b p then 1 * p.gamma * av p else 0)) =
      (procs.map (fun p => if IsLocal a b p then p.gamma * av p else 0)) := by
    apply List.map_congr_left; intro p _; split <;> grind
  rw [e1, e2]

/-- non-vacuity of `c03_local_expectation`: 3 sites, gate on (0,1), global list with a process on qubit 2 and
    unequal strengths in non-sweep order; squared norm 1/2 everywhere -/
example : (stepLottery 3 (localNoise [exX 1 (2/10), exX 2 (5/10), exXX 0 (7/10), exX 0 (1/10)] 0 1) 1
      (fun _ => 1/2) (1/2)).map (fun d => expect d (branchVal 1 (fun k => (k : Rat)))) =
    some (1/2 + (1 - 1/2) / ((2/10 + 7/10 + 1/10) * (1/2)) * ((2/10) * 0 + (7/10) * (1/2) + (1/10) * 1)) := by
  decide +kernel

/-! ### capstone -/

/-- **c03_partial** — placement and lottery in one statement.  For every gate sequence and every global process list
    (any order) of a noisy run, the operations are the gates in order with, after each two-qubit gate and nowhere
    else, `diss 1 local; lot 1 local`; and for each such lottery on a gate `(a,b)`, `a < b < L`, with a usable jump
    branch, the step is a probability distribution whose branch average is the first-order Kraus form of exactly the
    processes on `[a]`, `[b]`, `[a,b]` with unit duration.  (The comparison with `exp(𝓛_local)` to second order in the
    strengths is `c03_full`, cited.) -/
theorem c03_partial (L : Nat) (procs : List Proc) (hnoisy : isNoisy (some procs) = true) (gs : List Gate) :
    digitalOps (some procs) gs = gs.flatMap (fun g => DOp.gate g :: afterGate (some procs) g) ∧
    (∀ q, afterGate (some procs) (Gate.one q) = []) ∧
    (∀ q0 q1, afterGate (some procs) (Gate.two q0 q1) =
      [DOp.diss 1 (localNoise procs (min q0 q1) (max q0 q1)), DOp.lot 1 (localNoise procs (min q0 q1) (max q0 q1))]) ∧
    (∀ (a b : Nat) (nrm : Proc → Rat) (n a0 : Rat) (av : Proc → Rat) (v0 : Rat) (v : Nat → Rat) (d : Dist Branch),
      a < b → b < L → 0 ≤ n → n ≤ 1 →
      (∀ p ∈ procs, p.sites = [a, b] → p.pauli = true ∨ b = a + 1) →
      (∀ p ∈ procs, p.pauli = true → p.sites.length = 2 → nrm p = n) →
      (n ≠ 0 → v0 = a0 / n) → (n = 0 → a0 = 0) →
      (∀ k (h : k < (localNoise procs a b).length), nrm (localNoise procs a b)[k] ≠ 0 →
        v k = av (localNoise procs a b)[k] / nrm (localNoise procs a b)[k]) →
      (∀ p ∈ procs, nrm p = 0 → av p = 0) →
      stepLottery L (localNoise procs a b) 1 nrm n = some d →
      mass d = 1 ∧
      expect d (branchVal v0 v) =
        a0 + (1 - n) / (procs.map (fun p => if IsLocal a b p then p.gamma * nrm p else 0)).sum *
          (procs.map (fun p => if IsLocal a b p then p.gamma * av p else 0)).sum) := by
  refine ⟨(c03_noise_only_after_2q (some procs) gs).1, fun q => rfl,
    fun q0 q1 => c03_two_qubit_noise procs hnoisy q0 q1, ?_⟩
  intro a b nrm n a0 av v0 v d hab hb hn0 hn1 hadj hP hv0 ha0 hv ha hd
  exact ⟨c03_local_lottery_mass L procs a b nrm n d hd,
    c03_local_expectation L procs a b hab hb nrm n a0 av v0 v hn0 hn1 hadj hP hv0 ha0 hv ha d hd⟩

end Yaqs.Lottery

/-!
# C03 / C01 extension — the dissipation sweep `apply_dissipation` and the whole noisy `digital_tjm` pipeline

The clause "after every two-qubit gate, the Lindblad channel (unit duration) of the processes located on that gate's
qubits" (C03) and the mechanism "non-unitary dissipation sweep exp(-dt/2 · Σ γ L†L), site by site" (C01) were until
here only *placed* (`DOp.diss dt ps` is one opaque operation).  `Model.Dissipation.dissipationOps` opens that
operation: it is the list of state-changing steps the real `apply_dissipation` performs (trace-tied on every run by
`harness/impl/C03.py`, kinds `dissip` / `dpipe`), and `noisyDigitalTjm` is the whole event list of a noisy run —
layer schedule of C02/C16 (`Model.Layers`), gate applications, sweep steps, lotteries, normalisations, evaluations.

Proved below, for every chain length `L`, every process list in any order, every `dt`:

* `dissipation_each_once`, `dissipation_zero_not_skipped` — every process contributes exactly one operation, on its own
  site(s), with coefficient `dt·γ_k/2`; nothing else is applied; the centre shifts are `SVD` at `L-1 … 1`;
* `dissipation_order` — the operations are strictly sorted: decreasing sweep position; per position one-site processes,
  then the pairs ending there, then the shift; list order inside a group;
* `dissipation_all_zero_iff`, `dissipation_any_variant_wrong` — the early return is taken iff there is no model or every
  strength is zero (then only `QR` shifts happen); `any` instead of `all` would drop non-zero processes;
* `dissipation_raises_iff` — `NotImplementedError` iff a non-Pauli long-range pair is reached, and the sweep stops there;
* `dissipation_product`, `dissipation_product_comm` — in any monoid in which the per-process factors commute, the sweep is
  `Π_k f_k(dt·γ_k/2)`, whatever the order of the list;
* `local_dissipation` — on the local noise model of a gate only that gate's processes act, on that gate's qubits;
* `digital_pipeline` — the event list of a noisy trajectory is the C02 schedule with the noise block after every
  two-qubit gate and nothing after one-qubit gates; erasing the noise gives back the noise-free event list of C02/C16.

Not proved (as before): that `exp(-dt/2 Σ γ L†L)` followed by the jump lottery agrees with `exp(dt·𝓛)` to second order
(`c03_full`, analytic).  The numeric content of one operation (`expm`, SVD split, centre shifts preserve the state) is
checked on the real code by the dense oracle of the `dissip` kind.
-/
namespace Yaqs.Dissipation
open Yaqs Yaqs.Lottery

/-- a process list of the example kind: one-site Pauli / non-Pauli, adjacent pair (Pauli and not), long-range Pauli pair,
    zero strengths mixed in, not in sweep order -/
def exProcs : List Proc :=
  [exX 1 (2/10), exLow 2 0, exXX 0 (7/10), exXXlr 0 2 (3/10), exLowLow 1 (1/2), exLow 0 (1/10), exX 2 0]

/-- **C01/C03 (dissipation sweep: each process exactly once)**  For a model that is not all-zero and whose processes are
    one-site, adjacent pairs or Pauli pairs inside the chain (any order, duplicates and zero strengths allowed), the
    process applications performed by `apply_dissipation` are — up to order — exactly one per list position `k`: on the
    process's own site (one-site), on its second site as a scalar (Pauli pair, adjacent or long-range), or on its two
    sites (adjacent non-Pauli pair), with exponent coefficient `dt·γ_k/2` (not `dt·γ_k`).  Besides them the function
    performs only the SVD centre shifts at `L-1, …, 1`, and it does not raise. -/
theorem dissipation_each_once (L : Nat) (procs : List Proc) (dt : Rat)
    (hne : earlyReturn (some procs) = false) (hw : ∀ p ∈ procs, wellSited L p = true) :
    (apps (dissipationOps L (some procs) dt)).Perm
      ((indexed 0 procs).map (fun kp => Op.app kp.1 (targetOf kp.2) (dt * kp.2.gamma / 2) (kindOf kp.2))) ∧
    shifts (dissipationOps L (some procs) dt) = ((sitesDown L).filter (fun i => i != 0)).map Op.svd ∧
    (∀ o ∈ dissipationOps L (some procs) dt, o.isRaise = false) := by
  rw [dissipationOps_main L procs dt hne, fullOps_wellSited L dt procs hw]
  exact ⟨apps_sweep_perm L dt procs hw, shifts_sweep L dt _, sweep_no_raise L dt _⟩

example : earlyReturn (some exProcs) = false ∧ ∀ p ∈ exProcs, wellSited 3 p = true := by decide +kernel
example : dissipationOps 3 (some exProcs) (1/2) =
    [.app 1 [2] 0 .site, .app 6 [2] 0 .scalar, .app 3 [2] (3/40) .scalar, .app 4 [1, 2] (1/8) .pair, .svd 2,
     .app 0 [1] (1/20) .scalar, .app 2 [1] (7/40) .scalar, .svd 1, .app 5 [0] (1/40) .site] := by decide +kernel

/-- **C01/C03 (zero strengths are not skipped)**  In a model with at least one non-zero strength a process of strength
    zero still gets its operation (the identity factor `exp(0)`, resp. `expm(0)`): the code filters on sites only. -/
theorem dissipation_zero_not_skipped (L : Nat) (procs : List Proc) (dt : Rat)
    (hne : earlyReturn (some procs) = false) (hw : ∀ p ∈ procs, wellSited L p = true)
    (k : Nat) (p : Proc) (hk : procs[k]? = some p) (hz : p.gamma = 0) :
    Op.app k (targetOf p) 0 (kindOf p) ∈ dissipationOps L (some procs) dt := by
  have hperm := (dissipation_each_once L procs dt hne hw).1
  have hm : (k, p) ∈ indexed 0 procs := by simpa using indexed_mem_of_lookup 0 procs k p hk
  have hz' : dt * p.gamma / 2 = 0 := by rw [hz, Rat.mul_zero, Rat.div_def, Rat.zero_mul]
  have : Op.app k (targetOf p) 0 (kindOf p) ∈
      (indexed 0 procs).map (fun kp => Op.app kp.1 (targetOf kp.2) (dt * kp.2.gamma / 2) (kindOf kp.2)) := by
    refine List.mem_map.mpr ⟨(k, p), hm, ?_⟩
    simp only [hz']
  exact mem_of_mem_apps _ _ (hperm.mem_iff.mpr this)

example : Op.app 1 (targetOf (exLow 2 0)) 0 (kindOf (exLow 2 0)) ∈ dissipationOps 3 (some exProcs) (1/2) := by decide +kernel

/-- **C01/C03 (dissipation sweep: order)**  Under the hypotheses of `dissipation_each_once` the operation list is strictly
    sorted by `Before`: sweep position decreasing from `L-1`; at one position first the one-site processes in list order,
    then the pairs whose second site is that position in list order, then the SVD shift.  Together with
    `dissipation_each_once` this determines the list. -/
theorem dissipation_order (L : Nat) (procs : List Proc) (dt : Rat)
    (hne : earlyReturn (some procs) = false) (hw : ∀ p ∈ procs, wellSited L p = true) :
    (dissipationOps L (some procs) dt).Pairwise (Before procs) := by
  rw [dissipationOps_main L procs dt hne, fullOps_wellSited L dt procs hw]
  exact sweep_sorted L dt procs hw

example : Before exProcs (.app 6 [2] 0 .scalar) (.app 3 [2] (3/40) .scalar) ∧ Before exProcs (.app 4 [1, 2] (1/8) .pair) (.svd 2) ∧
    Before exProcs (.svd 2) (.app 0 [1] (1/20) .scalar) := by
  refine ⟨?_, ?_, ?_⟩ <;> unfold Before <;> decide +kernel

/-- **C01/C03 (early return)**  The early-return branch is taken iff the model is `None` or *every* strength is zero
    (an empty model included); it is the same predicate as the noise-free branch of `digital_tjm` (`!isNoisy`); in it
    `apply_dissipation` performs the QR centre shifts `L-1, …, 0` and nothing else; outside it no QR shift happens. -/
theorem dissipation_all_zero_iff (L : Nat) (nm : Option (List Proc)) (dt : Rat) :
    (earlyReturn nm = true ↔ nm = none ∨ ∃ ps, nm = some ps ∧ ∀ p ∈ ps, p.gamma = 0) ∧
    earlyReturn nm = !isNoisy nm ∧
    (earlyReturn nm = true → dissipationOps L nm dt = (sitesDown L).map Op.qr) ∧
    (earlyReturn nm = false → ∀ i, Op.qr i ∉ dissipationOps L nm dt) := by
  refine ⟨earlyReturn_iff nm, earlyReturn_eq_not_isNoisy nm, dissipationOps_early L nm dt, ?_⟩
  intro hne i hmem
  cases nm with
  | none => simp [earlyReturn] at hne
  | some procs =>
    rw [dissipationOps_main L procs dt hne] at hmem
    exact qr_not_mem_fullOps L dt procs i ((cutAtRaise_prefix _).subset hmem)

example : dissipationOps 3 (some [exX 1 0, exLowLow 0 0]) (1/2) = [.qr 2, .qr 1, .qr 0] := by decide +kernel
example : dissipationOps 3 none (1/2) = [.qr 2, .qr 1, .qr 0] := by decide +kernel

/-- **C01/C03 (why `all`)**  Counterexample for the variant with `any(strength == 0)`: one zero strength in the list would
    switch the whole sweep off, although another process has strength `1/2` — the real function (`all`) applies it. -/
theorem dissipation_any_variant_wrong :
    earlyReturnAny (some [exX 0 0, exLow 1 (1/2)]) = true ∧ earlyReturn (some [exX 0 0, exLow 1 (1/2)]) = false ∧
    dissipationOpsAny 2 (some [exX 0 0, exLow 1 (1/2)]) 1 = [.qr 1, .qr 0] ∧
    dissipationOps 2 (some [exX 0 0, exLow 1 (1/2)]) 1 = [.app 1 [1] (1/4) .site, .svd 1, .app 0 [0] 0 .scalar] := by
  decide +kernel

/-- **C01/C03 (exception branch)**  `apply_dissipation` raises `NotImplementedError` iff the model is not all-zero and
    contains a pair that is neither Pauli nor adjacent and whose second site is a sweep position `1 … L-1`; what has been
    executed then is a prefix of the exception-free sweep ending with the exception (the state is left half-swept). -/
theorem dissipation_raises_iff (L : Nat) (procs : List Proc) (dt : Rat) :
    ((∃ k, Op.raise k ∈ dissipationOps L (some procs) dt) ↔
      (earlyReturn (some procs) = false ∧ ∃ p ∈ procs, raisesAt L p = true)) ∧
    (∀ k, Op.raise k ∈ dissipationOps L (some procs) dt →
      (dissipationOps L (some procs) dt).getLast? = some (Op.raise k) ∧
      dissipationOps L (some procs) dt <+: fullOps L dt procs) := by
  by_cases he : earlyReturn (some procs) = true
  · rw [dissipationOps_early L _ dt he]
    constructor
    · simp [he]
    · intro k hk; simp at hk
  · have hne : earlyReturn (some procs) = false := by simpa using he
    rw [dissipationOps_main L procs dt hne]
    constructor
    · rw [cutAtRaise_raise_mem]
      constructor
      · rintro ⟨k, hk⟩
        obtain ⟨p, hm, hr⟩ := (raise_mem_fullOps L dt procs k).mp hk
        exact ⟨hne, p, indexed_mem_snd 0 procs (k, p) hm, hr⟩
      · rintro ⟨_, p, hp, hr⟩
        obtain ⟨k, hk⟩ := List.getElem?_of_mem hp
        refine ⟨k, (raise_mem_fullOps L dt procs k).mpr ⟨p, ?_, hr⟩⟩
        simpa using indexed_mem_of_lookup 0 procs k p hk
    · intro k hk
      exact ⟨cutAtRaise_last _ k hk, cutAtRaise_prefix _⟩

example : dissipationOps 4 (some [exX 3 (1/5), ⟨[0, 2], 1/2, false, .factors mLow mLow⟩, exLow 0 (1/10)]) 1 =
    [.app 0 [3] (1/10) .scalar, .svd 3, .raise 1] := by decide +kernel

/-- **C01/C03 (the sweep is `Π_k exp(-dt·γ_k/2 · L_k†L_k)`)**  Interpret the application of process `p` with coefficient `c`
    as `F p c` in any monoid (operators on the state space, say, with `F p c = exp(-c·L_p†L_p)`), centre shifts as the
    identity.  If the factors of the listed processes commute pairwise — scalars, simultaneously diagonal operators,
    processes on disjoint sites — the whole sweep is the product over the list of `F p (dt·γ_p/2)`, and that product
    does not depend on the order of the list.  (Without commutation the value is the product in `dissipation_order`'s
    order; the harness checks both cases on the dense vector.) -/
theorem dissipation_product {M : Type*} [Monoid M] (L : Nat) (procs : List Proc) (dt : Rat)
    (hne : earlyReturn (some procs) = false) (hw : ∀ p ∈ procs, wellSited L p = true) (F : Proc → Rat → M)
    (hc : ∀ p ∈ procs, ∀ q ∈ procs, Commute (F p (dt * p.gamma / 2)) (F q (dt * q.gamma / 2))) :
    ((dissipationOps L (some procs) dt).map (interp procs F)).prod = (procs.map (fun p => F p (dt * p.gamma / 2))).prod ∧
    ∀ procs', procs.Perm procs' →
      (procs.map (fun p => F p (dt * p.gamma / 2))).prod = (procs'.map (fun p => F p (dt * p.gamma / 2))).prod := by
  refine ⟨?_, fun procs' hp => prod_perm_of_commute dt procs procs' hp F hc⟩
  rw [dissipationOps_main L procs dt hne]
  exact sweep_prod L dt procs hw F hc

/-- **C01/C03** the commutative case (scalar factors, e.g. an all-Pauli model: every factor is `exp(-dt·γ_k/2)`):
    no hypothesis on the factors is needed, and reordering the list changes nothing. -/
theorem dissipation_product_comm {M : Type*} [CommMonoid M] (L : Nat) (procs procs' : List Proc) (dt : Rat)
    (hperm : procs.Perm procs')
    (hne : earlyReturn (some procs) = false) (hw : ∀ p ∈ procs, wellSited L p = true) (F : Proc → Rat → M) :
    ((dissipationOps L (some procs) dt).map (interp procs F)).prod = (procs.map (fun p => F p (dt * p.gamma / 2))).prod ∧
    ((dissipationOps L (some procs') dt).map (interp procs' F)).prod =
      ((dissipationOps L (some procs) dt).map (interp procs F)).prod := by
  have hne' : earlyReturn (some procs') = false := by
    have h1 := earlyReturn_eq_not_isNoisy (some procs)
    have h2 := earlyReturn_eq_not_isNoisy (some procs')
    have : isNoisy (some procs') = isNoisy (some procs) := by
      simp only [isNoisy]
      exact (hperm.symm.any_eq)
    rw [h2, this, ← h1]; exact hne
  have hw' : ∀ p ∈ procs', wellSited L p = true := fun p hp => hw p (hperm.mem_iff.mpr hp)
  have a := dissipation_product L procs dt hne hw F (fun _ _ _ _ => Commute.all _ _)
  have b := dissipation_product L procs' dt hne' hw' F (fun _ _ _ _ => Commute.all _ _)
  exact ⟨a.1, by rw [b.1, a.1, a.2 procs' hperm]⟩

/-- non-vacuity: the example list (seven processes of all kinds, zero strengths included) meets the hypotheses -/
example := dissipation_product (M := ℕ) 3 exProcs (1/2) (by decide +kernel) (by decide +kernel)
  (fun p _ => p.sites.length + 1) (fun _ _ _ _ => Commute.all _ _)

/-- **C03 (local dissipation)**  For a two-qubit gate on neighbouring qubits `(a, a+1)` inside the chain and *any* global
    process list: every process of the local noise model is well-sited, so the sweep never raises; if the local model is
    empty or all-zero only QR shifts happen; otherwise each local process is applied exactly once, and every process
    application of the sweep belongs to a process of the global list that sits on `[a]`, `[a+1]` or `[a, a+1]`, touches
    only the tensors `a`, `a+1`, and has coefficient `dt·γ/2` — processes on other qubits do not appear.  (The centre
    shifts still run over the whole chain.) -/
theorem local_dissipation (L a : Nat) (h : a + 1 < L) (procs : List Proc) (dt : Rat) :
    (earlyReturn (some (localNoise procs a (a + 1))) = true →
      dissipationOps L (some (localNoise procs a (a + 1))) dt = (sitesDown L).map Op.qr) ∧
    (earlyReturn (some (localNoise procs a (a + 1))) = false →
      (apps (dissipationOps L (some (localNoise procs a (a + 1))) dt)).Perm
        ((indexed 0 (localNoise procs a (a + 1))).map
          (fun kp => Op.app kp.1 (targetOf kp.2) (dt * kp.2.gamma / 2) (kindOf kp.2))) ∧
      (∀ o ∈ dissipationOps L (some (localNoise procs a (a + 1))) dt, o.isRaise = false) ∧
      (∀ k t c kd, Op.app k t c kd ∈ dissipationOps L (some (localNoise procs a (a + 1))) dt →
        ∃ p, (localNoise procs a (a + 1))[k]? = some p ∧ p ∈ procs ∧ IsLocal a (a + 1) p ∧
          (∀ x ∈ t, x = a ∨ x = a + 1) ∧ c = dt * p.gamma / 2)) := by
  refine ⟨dissipationOps_early L _ dt, ?_⟩
  intro hne
  have hw := local_wellSited L a h procs
  have ho := dissipation_each_once L (localNoise procs a (a + 1)) dt hne hw
  refine ⟨ho.1, ho.2.2, ?_⟩
  intro k t c kd hmem
  have h1 := ho.1.mem_iff.mp (mem_apps_of_app _ k t c kd hmem)
  obtain ⟨kp, hkp, heq⟩ := List.mem_map.mp h1
  simp only [Op.app.injEq] at heq
  obtain ⟨hk, ht, hc, _⟩ := heq
  have hl := indexed_lookup0 _ kp hkp
  have hp := indexed_mem_snd 0 _ kp hkp
  have hmem' := (c03_localNoise_mem procs a (a + 1) kp.2).mp hp
  refine ⟨kp.2, by rw [← hk]; exact hl, hmem'.1, hmem'.2, ?_, hc.symm⟩
  rw [← ht]
  exact local_target_subset a procs kp.2 hp

example : dissipationOps 4 (some (localNoise [exX 1 (2/10), exX 3 (5/10), exXX 1 (7/10), exLow 2 (1/10), exXX 0 (1/3), exXXlr 0 2 (1/7)] 1 2)) 1 =
    [.svd 3, .app 2 [2] (1/20) .site, .app 1 [2] (7/20) .scalar, .svd 2, .app 0 [1] (1/10) .scalar, .svd 1] := by decide +kernel

/-- **C03 (`digital_pipeline`)**  For every circuit (as an instruction list), every noise model, every mode and chain
    length, the run of `digital_tjm` terminates with an event list `evs` such that
    1. erasing the noise events gives exactly the event list of the noise-free model of C02/C16 — in particular the gate
       applications are `Layers.schedule` (so `schedule_perm`, `schedule_respects_wires`, `schedule_sound` apply), and
       the evaluation columns are those of C16;
    2. the gate and noise events are, in schedule order, one block per gate: the application alone for a one-qubit gate;
       for a two-qubit gate on qargs `(a, b)` the application followed — in a noisy run — by the operations of
       `apply_dissipation` on the local noise model of `(min a b, max a b)` at `dt = 1` (the sweep of
       `dissipation_each_once` / `local_dissipation`, or its QR early return when the local model is empty or all-zero)
       and then one jump lottery on that same local list at `dt = 1`, or — without a model / with all strengths zero —
       by `normalize` alone; after the loop one more `normalize` in the strong modes iff the node handled last was a
       one-qubit gate;
    3. the noise events alone are the expansion of the placement model `Lottery.digitalOps` (theorems `c03_*`) on the
       scheduled gates: every `DOp.diss 1 ps` replaced by `dissipationOps L (some ps) 1`. -/
theorem digital_pipeline (nm : Option (List Proc)) (L : Nat) (mode : Layers.Mode) (numMid : Nat) (c : List Layers.Instr) :
    ∃ evs, noisyDigitalTjm nm L mode numMid c = some evs ∧
      Layers.digitalTjm mode numMid c = some (evs.filterMap PEv.toEvent) ∧
      evs.filter (fun e => e.isGate || e.isNoise) =
        (Layers.schedule c).flatMap (gateBlock nm L) ++
          (if mode ≠ .weak ∧ canonicalFormLost (Layers.visit c) = true then [PEv.normalize] else []) ∧
      evs.filter PEv.isNoise =
        (digitalOps nm ((Layers.schedule c).filterMap toGate)).flatMap (expandDOp L) ++
          (if mode ≠ .weak ∧ canonicalFormLost (Layers.visit c) = true then [PEv.normalize] else []) ∧
      (∀ t q, gateBlock nm L (.gate1 t q) = [PEv.app1 t q]) ∧
      (∀ t a b, earlyReturn nm = true → gateBlock nm L (.gate2 t a b) = [PEv.app2 t a b, PEv.normalize]) ∧
      (∀ t a b procs, nm = some procs → earlyReturn nm = false →
        gateBlock nm L (.gate2 t a b) =
          PEv.app2 t a b :: ((dissipationOps L (some (localNoise procs (min a b) (max a b))) 1).map PEv.dop ++
            [PEv.lot 1 (localNoise procs (min a b) (max a b))])) := by
  have hv := Layers.visit_eq c
  have hfin : ∀ (b : Bool), (if b = true then [PEv.normalize] else []).filterMap PEv.toEvent = [] := by
    intro b; cases b <;> rfl
  have hfin3 : ∀ (b : Bool), (if b = true then [PEv.normalize] else []).filter PEv.isNoise =
      (if b = true then [PEv.normalize] else []) := by
    intro b; cases b <;> rfl
  have hb := noisyEmit_blocks nm L mode.sampling 0 (Layers.visit c)
  have hn := noisyEmit_noise nm L mode.sampling 0 (Layers.visit c)
  have ht := noisyEmit_toEvent nm L mode.sampling 0 (Layers.visit c)
  refine ⟨(noisyDigitalTjm nm L mode numMid c).getD [], ?_, ?_, ?_, ?_, fun _ _ => rfl, ?_, ?_⟩
  · unfold noisyDigitalTjm; rw [hv]; cases mode <;> rfl
  · unfold noisyDigitalTjm Layers.digitalTjm Layers.digitalTjmWith
    rw [hv]
    cases mode <;>
      simp only [Option.getD_some, List.filterMap_cons, List.filterMap_append, PEv.toEvent, ht, hfin, List.append_nil,
        List.filterMap_nil, Layers.Mode.sampling] at ht ⊢
  · unfold noisyDigitalTjm
    rw [hv]
    unfold Layers.schedule
    cases mode <;>
      simp [List.filter_append, hb, PEv.isGate, PEv.isNoise, Layers.Mode.sampling] at hb ⊢
  · unfold noisyDigitalTjm
    rw [hv]
    unfold Layers.schedule
    cases mode <;>
      simp [List.filter_append, hn, hfin3, PEv.isNoise, Layers.Mode.sampling] at hn ⊢
  · intro t a b he
    simp [gateBlock, noiseBlock, he]
  · intro t a b procs hnm he
    subst hnm
    simp [gateBlock, noiseBlock, he]

example : noisyDigitalTjm (some [exX 0 (1/10), exX 2 (1/10), exXX 0 (7/10), exLow 1 0]) 3 .strongPlain 0
      [.gate1 1 1, .gate2 2 1 0, .barrier [0, 1], .gate1 3 0] =
    some [.app1 1 1, .app2 2 1 0,
      .dop (.svd 2), .dop (.app 2 [1] 0 .site), .dop (.app 1 [1] (7/20) .scalar), .dop (.svd 1), .dop (.app 0 [0] (1/20) .scalar),
      .lot 1 [exX 0 (1/10), exXX 0 (7/10), exLow 1 0],
      .app1 3 0, .normalize, .eval 0] := by decide +kernel

example : noisyDigitalTjm (some [exX 0 0]) 2 .strongSample 1 [.gate2 1 0 1, .sbarrier [0, 1], .measure 0 0] =
    some [.eval 0, .app2 1 0 1, .normalize, .eval 1, .eval 2] := by decide +kernel

end Yaqs.Dissipation

/-!
# C03, extension — "up to an error that shrinks quadratically when all strengths are scaled down", as a theorem

After a two-qubit gate `digital_tjm` calls `apply_dissipation(state, local_noise, dt = 1, …)` and
`stochastic_process(state, local_noise, dt = 1, …)`.  Multiply every strength by `s ≥ 0`:
`digitalDiss Ls s = Π_k expm(-0.5·1·(s·γ_k)·L_k†L_k)` is the dissipation sweep, the lottery weights are `1·(s·γ_k)‖L_kφ‖²`
(`stepAverage Ls s φ`: the factor `s` sits where C01 has the time step, and cancels in the same way).  Scaling the
strengths at unit time step *is* the analog step of C01 at time step `s` with Hamiltonian `0` on the post-gate state
(`c03_noise_step_is_c01_step`), so the first-order consistency and the quadratic local error of `Props/C01.lean` apply:
the averaged state after gate + noise is `GρG†` at `s = 0` (ideal gate, no noise), its derivative in `s` is the pure
dissipator `Σ_k γ_k (L_kρ'L_k† − ½{L_k†L_k, ρ'})` on `ρ' = GρG†`, and it differs from the unit-duration Lindblad channel
`exp(1·(s𝓓))ρ' = lindFlow 0 Ls s ρ'` of the scaled strengths by `O(s²)`.
-/
namespace Yaqs.Consistency

open Matrix NormedSpace Yaqs.MasterEq

variable {n : Type} [Fintype n] [DecidableEq n]

/-- **C03.5a `c03_noise_step_is_c01_step`** (`digital_tjm`: `apply_dissipation(…, dt=1)`, `stochastic_process(…, dt=1)`) With all
    strengths scaled by `s`, the unit-time dissipation sweep equals the analog sweep at time step `s`; it is a twice
    continuously differentiable no-jump family for the Hamiltonian `0`; and the lottery average with the scaled weights
    `1·(s·γ_k)‖L_kφ‖²` is the same matrix `pureAverage Ls φ` for every `s ≠ 0` (the scale cancels against the total). -/
theorem c03_noise_step_is_c01_step (Ls : List (Proc (Matrix n n ℂ))) :
    (∀ s, digitalDiss Ls s = dissStep Ls s)
    ∧ IsNoJumpFamily 0 Ls (digitalDiss Ls)
    ∧ SmoothFamily (digitalDiss Ls)
    ∧ ∀ (s : ℝ) (φ : n → ℂ), s ≠ 0 → stepAverage Ls s φ = pureAverage Ls φ :=
  ⟨digitalDiss_eq Ls, noJump_digital Ls, smooth_digital Ls, fun s φ hs => stepAverage_eq Ls s hs φ⟩

/-- **C03.5 `c03_consistency`** For every gate matrix `G` and input vector `ψ` with `Gψ` a unit vector (`G` unitary, `ψ` unit),
    every list of local processes with strengths `γ_k ≥ 0` in any order: the trajectory average after gate and noise
    step, as a function of the common scale `s` of the strengths, equals the ideal post-gate state `(Gψ)(Gψ)†` at `s = 0`
    and has derivative `𝓓ρ' = Σ_k γ_k (L_kρ'L_k† − ½{L_k†L_k, ρ'})` there (`lind 0 Ls`: no Hamiltonian term — the gate is
    applied exactly and separately), which is the generator of the Lindblad channel of the listed processes. -/
theorem c03_consistency (G : Matrix n n ℂ) (Ls : List (Proc (Matrix n n ℂ))) (hγ : ∀ p ∈ Ls, 0 ≤ p.gamma)
    (ψ : n → ℂ) (hψ : star (G *ᵥ ψ) ⬝ᵥ (G *ᵥ ψ) = 1) :
    pureAverage Ls (digitalDiss Ls 0 *ᵥ (G *ᵥ ψ)) = vecMulVec (G *ᵥ ψ) (star (G *ᵥ ψ))
    ∧ HasDerivAt (fun s => pureAverage Ls (digitalDiss Ls s *ᵥ (G *ᵥ ψ)))
        (lind 0 Ls (vecMulVec (G *ᵥ ψ) (star (G *ᵥ ψ)))) 0
    ∧ lind 0 Ls (vecMulVec (G *ᵥ ψ) (star (G *ᵥ ψ)))
        = (Ls.map fun p => rateC p.gamma • dissipator (1 / 2 : ℂ) p.op (vecMulVec (G *ᵥ ψ) (star (G *ᵥ ψ)))).sum := by
  obtain ⟨h0, hd, -⟩ := c01_consistency (noJump_digital Ls) (by simp) hγ (G *ᵥ ψ) hψ
  refine ⟨h0, hd, ?_⟩
  unfold lind lindbladian
  simp

/-- **C03.6 `c03_local_error_quadratic`** ("shrinks quadratically when all strengths are scaled down") Under the same
    hypotheses there are `C` and `δ > 0` such that for every scale `0 ≤ s ≤ δ` every entry of
        (trajectory average after gate + noise step)  −  `exp(1·(s𝓓)) (GρG†)`
    is bounded by `C·s²`; `lindFlow 0 Ls s` is the unit-duration Lindblad channel of the processes with strengths `s·γ_k`. -/
theorem c03_local_error_quadratic (G : Matrix n n ℂ) (Ls : List (Proc (Matrix n n ℂ))) (hγ : ∀ p ∈ Ls, 0 ≤ p.gamma)
    (ψ : n → ℂ) (hψ : star (G *ᵥ ψ) ⬝ᵥ (G *ᵥ ψ) = 1) :
    ∃ C δ : ℝ, 0 < δ ∧ ∀ s, 0 ≤ s → s ≤ δ → ∀ i j,
      ‖(pureAverage Ls (digitalDiss Ls s *ᵥ (G *ᵥ ψ))
          - lindFlow 0 Ls s (vecMulVec (G *ᵥ ψ) (star (G *ᵥ ψ)))) i j‖ ≤ C * s ^ 2 :=
  c01_local_error_quadratic (noJump_digital Ls) (smooth_digital Ls) (by simp) hγ (G *ᵥ ψ) hψ

/-- non-vacuity: `G = X` on one qubit, `ψ = |0⟩`, the processes of the C01 example -/
example : star (cxX *ᵥ (![1, 0] : Fin 2 → ℂ)) ⬝ᵥ (cxX *ᵥ ![1, 0]) = 1 ∧ ∀ p ∈ cxProcs, 0 ≤ p.gamma := by
  constructor
  · simp [cxX, dotProduct, Matrix.mulVec, Fin.sum_univ_two]
  · intro p hp
    simp only [cxProcs, List.mem_cons, List.not_mem_nil, or_false] at hp
    rcases hp with rfl | rfl <;> norm_num

end Yaqs.Consistency

/-!
# C03/C01, extension 2 — accumulation of the local errors over the time grid (Lady Windermere's fan), as a theorem

`c01_local_error_quadratic` / `c03_local_error_quadratic` bound the error of ONE step by `C·dt²` (`C·s²`).  What `c01_full` /
`c03_full` still listed as cited is the step from there to the global error `O(m·dt²) = O(T·dt)` after `m = T/dt` steps.
This section proves it.

* Abstract (`Lemmas/Accumulate.lean`, any seminormed group): `global_error_accumulation` (stability of the scheme, local
  error along the exact solution), its contractive (`K = 0`) and exponential (`K > 0`) corollaries, and `c03_halving`.
* Instantiation (`Lemmas/AccumulateEnsemble.lean`): the trajectory average after `k` steps is the state
  `ensState (ens k) = Σ w_i ψ_iψ_i†` of a finite ensemble of weighted unit vectors; one step maps it to
  `ensStep Ls (A dt) (ens k) = Σ w_i · pureAverage Ls (A dt ψ_i)` (each member replaced by its branch average, the matrix of
  `c01_average_is_lottery_expectation`).  The averaged one-step map is *not* a function of the averaged state
  (`pureAverage` is nonlinear in `ψ`), so the fan is used in its flow-stable form (`accumulate_flow_seminorm`): the exact
  flow `exp(dt𝓛)` is linear, hence the one-step defect of the ensemble is the weighted mean of the members' local errors
  (`ens_local`), and stability is needed for `exp(dt𝓛)` only.

Status of the hypotheses of `c03_first_order_global`:
  THEOREMS   — the shape of the local bound (`C·dt²` per unit vector: `c01_local_error_quadratic`, restated in the
               max-entry seminorm as `c03_local_bound_pointwise`); linearity and the semigroup law of the exact flow
               (`lindFlow_add`, `lindFlow_grid`); the accumulation itself.
  ASSUMPTIONS — (a) *uniformity* of the local constant `C` over the unit vectors met along the grid (xa01's theorem gives
               `C`, `δ` per vector; uniformity over the compact unit sphere is not proved); (b) the stability constant
               `K` of `exp(dt𝓛)` in the chosen seminorm (`K = 0` in trace norm because `exp(dt𝓛)` is CPTP; not proved
               here, and in the max-entry norm `K` is some finite constant of `𝓛`); (c) that the ensemble after a step is
               the branch ensemble, i.e. `ensState (ens (k+1)) = ensStep …` (this is `c01_lottery_expectation` member by
               member; it is taken as the definition of the sequence).
-/
namespace Yaqs.Accumulate

open Finset

/-- **C03.7 `global_error_accumulation`** (Lady Windermere's fan; pure mathematics) In any seminormed group: scheme
    `x (k+1) = Φ (x k)`, exact grid solution `y (k+1) = E (y k)`, stability `‖Φ a − Φ b‖ ≤ (1+K·dt)‖a − b‖` and local error
    `‖Φ (y k) − E (y k)‖ ≤ C·dt²` along the exact solution  ⇒
    `‖x n − y n‖ ≤ (1+K·dt)ⁿ‖x 0 − y 0‖ + C·dt²·Σ_{j<n}(1+K·dt)ʲ`. -/
theorem global_error_accumulation {E : Type*} [SeminormedAddCommGroup E] (Φ Ex : E → E) (x y : ℕ → E)
    (K C dt : ℝ) (hK : 0 ≤ K) (hdt : 0 ≤ dt) (n : ℕ)
    (hx : ∀ k < n, x (k + 1) = Φ (x k)) (hy : ∀ k < n, y (k + 1) = Ex (y k))
    (hstab : ∀ a b, ‖Φ a - Φ b‖ ≤ (1 + K * dt) * ‖a - b‖)
    (hloc : ∀ k < n, ‖Φ (y k) - Ex (y k)‖ ≤ C * dt ^ 2) :
    ‖x n - y n‖ ≤ (1 + K * dt) ^ n * ‖x 0 - y 0‖ + C * dt ^ 2 * ∑ j ∈ range n, (1 + K * dt) ^ j :=
  accumulate_scheme Φ Ex x y _ _ (by nlinarith [mul_nonneg hK hdt]) n hx hy hstab hloc

/-- **C03.7a `global_error_accumulation_contractive`** (`K = 0`: non-expansive scheme, e.g. a CPTP map in trace norm) the
    global error is at most the initial error plus `n` local errors, and on a grid `n·dt = T` that is
    `‖x 0 − y 0‖ + C·T·dt` — first order. -/
theorem global_error_accumulation_contractive {E : Type*} [SeminormedAddCommGroup E] (Φ Ex : E → E) (x y : ℕ → E)
    (C dt T : ℝ) (n : ℕ) (hT : n * dt = T)
    (hx : ∀ k < n, x (k + 1) = Φ (x k)) (hy : ∀ k < n, y (k + 1) = Ex (y k))
    (hstab : ∀ a b, ‖Φ a - Φ b‖ ≤ ‖a - b‖)
    (hloc : ∀ k < n, ‖Φ (y k) - Ex (y k)‖ ≤ C * dt ^ 2) :
    ‖x n - y n‖ ≤ ‖x 0 - y 0‖ + n * (C * dt ^ 2) ∧ ‖x 0 - y 0‖ + n * (C * dt ^ 2) = ‖x 0 - y 0‖ + C * T * dt := by
  have h := accumulate_scheme Φ Ex x y 1 (C * dt ^ 2) zero_le_one n hx hy (by simpa using hstab) hloc
  constructor
  · simpa [mul_comm] using h
  · rw [← hT]; ring

/-- **C03.7b `global_error_accumulation_exp`** (`K ≥ 0`) with `(1+K·dt)ⁿ ≤ e^{K·n·dt}`: for `n·dt = T`, `C ≥ 0`
    the global error is at most `e^{K·T}(‖x 0 − y 0‖ + C·T·dt)`. -/
theorem global_error_accumulation_exp {E : Type*} [SeminormedAddCommGroup E] (Φ Ex : E → E) (x y : ℕ → E)
    (K C dt T : ℝ) (hK : 0 ≤ K) (hdt : 0 ≤ dt) (hC : 0 ≤ C) (n : ℕ) (hT : n * dt = T)
    (hx : ∀ k < n, x (k + 1) = Φ (x k)) (hy : ∀ k < n, y (k + 1) = Ex (y k))
    (hstab : ∀ a b, ‖Φ a - Φ b‖ ≤ (1 + K * dt) * ‖a - b‖)
    (hloc : ∀ k < n, ‖Φ (y k) - Ex (y k)‖ ≤ C * dt ^ 2) :
    ‖x n - y n‖ ≤ Real.exp (K * T) * (‖x 0 - y 0‖ + C * T * dt) := by
  have h1 := global_error_accumulation Φ Ex x y K C dt hK hdt n hx hy hstab hloc
  have h2 := fan_le_exp (K * dt) ‖x 0 - y 0‖ (C * dt ^ 2) (mul_nonneg hK hdt) (norm_nonneg _) (by positivity) n
  refine (h1.trans h2).trans (le_of_eq ?_)
  rw [← hT]
  have e1 : (n : ℝ) * (K * dt) = K * (n * dt) := by ring
  have e2 : (n : ℝ) * (C * dt ^ 2) = C * (n * dt) * dt := by ring
  rw [e1, e2]

/-- **C03.7c `c03_halving`** (halving the step halves the bound) Same final time `T = n·dt = (2n)·(dt/2)`, same local
    constant `C`, `x 0 = y 0`, `K = 0`: the bound `(2n)·C·(dt/2)²` for the fine grid is exactly half the bound `n·C·dt² = C·T·dt`
    of the coarse grid, and the fine-grid error obeys it. -/
theorem c03_halving {E : Type*} [SeminormedAddCommGroup E] (Φ Ex : E → E) (x y : ℕ → E) (C dt T : ℝ) (n : ℕ)
    (hT : n * dt = T) (h0 : x 0 = y 0)
    (hx : ∀ k < 2 * n, x (k + 1) = Φ (x k)) (hy : ∀ k < 2 * n, y (k + 1) = Ex (y k))
    (hstab : ∀ a b, ‖Φ a - Φ b‖ ≤ ‖a - b‖)
    (hloc : ∀ k < 2 * n, ‖Φ (y k) - Ex (y k)‖ ≤ C * (dt / 2) ^ 2) :
    ((2 * n : ℕ) : ℝ) * (C * (dt / 2) ^ 2) = (n * (C * dt ^ 2)) / 2
    ∧ (n : ℝ) * (C * dt ^ 2) = C * T * dt
    ∧ ‖x (2 * n) - y (2 * n)‖ ≤ (C * T * dt) / 2 := by
  have hT2 : ((2 * n : ℕ) : ℝ) * (dt / 2) = T := by push_cast; rw [← hT]; ring
  obtain ⟨h1, h2⟩ := global_error_accumulation_contractive Φ Ex x y C (dt / 2) T (2 * n) hT2 hx hy hstab hloc
  refine ⟨by push_cast; ring, by rw [← hT]; ring, ?_⟩
  rw [h2, h0, sub_self, norm_zero, zero_add] at h1
  refine h1.trans (le_of_eq ?_)
  ring

/-- non-vacuity with concrete numbers (`C = 1/2 > 0`): test equation `x' = −x`, `dt = 1/10`, scheme `Φ x = (1 − dt)x = (9/10)x`,
    stand-in for the exact flow `E x = (1 − dt + dt²/2)x = (181/200)x`, `x 0 = y 0 = 1`.  The hypotheses of
    `global_error_accumulation_contractive` hold (`|Φ a − Φ b| = (9/10)|a − b|`, local error `(1/200)(181/200)ᵏ ≤ ½·dt²`), so the
    theorem gives `|(9/10)ⁿ − (181/200)ⁿ| ≤ n/200`. -/
example (n : ℕ) : |(9 / 10 : ℝ) ^ n - (181 / 200) ^ n| ≤ n * (1 / 2 * (1 / 10) ^ 2) := by
  have h := (global_error_accumulation_contractive (fun x : ℝ => 9 / 10 * x) (fun x : ℝ => 181 / 200 * x)
    (fun k => (9 / 10 : ℝ) ^ k) (fun k => (181 / 200 : ℝ) ^ k) (1 / 2) (1 / 10) (n * (1 / 10)) n rfl
    (fun k _ => by ring) (fun k _ => by ring)
    (fun a b => by
      rw [← mul_sub, Real.norm_eq_abs, Real.norm_eq_abs, abs_mul]
      have : |(9 / 10 : ℝ)| = 9 / 10 := abs_of_nonneg (by norm_num)
      rw [this]
      nlinarith [abs_nonneg (a - b)])
    (fun k _ => by
      have e : (9 / 10 : ℝ) * (181 / 200) ^ k - 181 / 200 * (181 / 200) ^ k = -(1 / 200) * (181 / 200) ^ k := by ring
      have hp : (181 / 200 : ℝ) ^ k ≤ 1 := pow_le_one₀ (by norm_num) (by norm_num)
      have hp0 : (0 : ℝ) ≤ (181 / 200) ^ k := by positivity
      show ‖(9 / 10 : ℝ) * (181 / 200) ^ k - 181 / 200 * (181 / 200) ^ k‖ ≤ 1 / 2 * (1 / 10) ^ 2
      rw [e, Real.norm_eq_abs, abs_mul, abs_of_nonneg hp0]
      have : |(-(1 / 200) : ℝ)| = 1 / 200 := by rw [abs_neg]; exact abs_of_nonneg (by norm_num)
      rw [this]
      nlinarith)).1
  simpa using h

end Yaqs.Accumulate

namespace Yaqs.Consistency

open Matrix NormedSpace Yaqs.MasterEq

variable {n : Type} [Fintype n] [DecidableEq n]

/-- **C03.8a `c03_local_bound_pointwise`** (what xa01's theorems supply for the local-error hypothesis of the next theorem)
    In the max-entry seminorm `entrySeminorm M = max_{ij}|M i j|`: for every unit vector `ψ` there are `C ≥ 0`, `δ > 0` with
    `entrySeminorm (E(t) − exp(t𝓛)ψψ†) ≤ C·t²` on `[0, δ]`, for every smooth no-jump family (analog step), in particular for the
    digital noise step `A = digitalDiss Ls`, `H = 0`, `t = s` the strength scale.  The constants depend on `ψ`. -/
theorem c03_local_bound_pointwise {H : Matrix n n ℂ} {Ls : List (Proc (Matrix n n ℂ))} {A : ℝ → Matrix n n ℂ}
    (hA : IsNoJumpFamily H Ls A) (hS : SmoothFamily A) (hH : Hᴴ = H) (hγ : ∀ p ∈ Ls, 0 ≤ p.gamma) (ψ : n → ℂ)
    (hψ : star ψ ⬝ᵥ ψ = 1) :
    (∃ C δ : ℝ, 0 ≤ C ∧ 0 < δ ∧ ∀ t, 0 ≤ t → t ≤ δ →
      entrySeminorm (pureAverage Ls (A t *ᵥ ψ) - lindFlow H Ls t (vecMulVec ψ (star ψ))) ≤ C * t ^ 2)
    ∧ ∃ C δ : ℝ, 0 ≤ C ∧ 0 < δ ∧ ∀ s, 0 ≤ s → s ≤ δ →
      entrySeminorm (pureAverage Ls (digitalDiss Ls s *ᵥ ψ) - lindFlow 0 Ls s (vecMulVec ψ (star ψ))) ≤ C * s ^ 2 := by
  have key : ∀ {H' : Matrix n n ℂ} {A' : ℝ → Matrix n n ℂ}, IsNoJumpFamily H' Ls A' → SmoothFamily A' → H'ᴴ = H' →
      ∃ C δ : ℝ, 0 ≤ C ∧ 0 < δ ∧ ∀ t, 0 ≤ t → t ≤ δ →
        entrySeminorm (pureAverage Ls (A' t *ᵥ ψ) - lindFlow H' Ls t (vecMulVec ψ (star ψ))) ≤ C * t ^ 2 := by
    intro H' A' hA' hS' hH'
    obtain ⟨C, δ, hδ, hb⟩ := c01_local_error_quadratic hA' hS' hH' hγ ψ hψ
    refine ⟨max C 0, δ, le_max_right _ _, hδ, fun t ht0 htδ => ?_⟩
    have hn : 0 ≤ max C 0 * t ^ 2 := mul_nonneg (le_max_right _ _) (sq_nonneg t)
    rw [entrySeminorm_le_iff _ hn]
    intro i j
    exact (hb t ht0 htδ i j).trans (mul_le_mul_of_nonneg_right (le_max_left _ _) (sq_nonneg t))
  exact ⟨key hA hS hH, key (noJump_digital Ls) (smooth_digital Ls) (by simp)⟩

omit [DecidableEq n] in
/-- **C03.8 `c03_first_order_global`** (the trajectory average on the whole grid is first-order accurate) `N` any seminorm on
    matrices (trace norm, max-entry norm …), `A` the no-jump propagator family of the solver (`c01_noJump_families`; for the
    digital noise step `H = 0`, `A = digitalDiss Ls`, `dt = s`), `ens k` the trajectory ensemble after `k` steps:
    finitely many weighted unit vectors, `ensState (ens (k+1)) = Σ_i w_i · pureAverage Ls (A dt ψ_i)`.
    If the local error of one step is `≤ C·dt²` in `N` for every unit vector (shape: theorem `c03_local_bound_pointwise`;
    uniformity of `C`: assumption) and `exp(dt𝓛)` is `(1+K·dt)`-stable in `N` (assumption; `K = 0` in trace norm), then after
    `m` steps, `T = m·dt`, the trajectory average is within `e^{K·T}·C·T·dt` of the Lindblad solution `exp(T𝓛)ρ₀`
    (plus `e^{K·T}` times the initial discrepancy, zero when `ensState (ens 0) = ρ₀`). -/
theorem c03_first_order_global (N : Seminorm ℝ (Matrix n n ℂ)) (H : Matrix n n ℂ) (Ls : List (Proc (Matrix n n ℂ)))
    (A : ℝ → Matrix n n ℂ) (dt K C T : ℝ) (hK : 0 ≤ K) (hdt : 0 ≤ dt) (hC : 0 ≤ C) (m : ℕ) (hT : m * dt = T)
    (ens : ℕ → Ens n) (ρ₀ : Matrix n n ℂ)
    (hens : ∀ k < m, IsEnsemble (ens k))
    (hstep : ∀ k < m, ensState (ens (k + 1)) = ensStep Ls (A dt) (ens k))
    (hloc : ∀ ψ : n → ℂ, star ψ ⬝ᵥ ψ = 1 →
      N (pureAverage Ls (A dt *ᵥ ψ) - lindFlow H Ls dt (vecMulVec ψ (star ψ))) ≤ C * dt ^ 2)
    (hstab : ∀ M, N (lindFlow H Ls dt M) ≤ (1 + K * dt) * N M) :
    N (ensState (ens m) - lindFlow H Ls T ρ₀)
      ≤ Real.exp (K * T) * (N (ensState (ens 0) - ρ₀) + C * T * dt)
    ∧ (ensState (ens 0) = ρ₀ → N (ensState (ens m) - lindFlow H Ls T ρ₀) ≤ (Real.exp (K * T) * C * T) * dt) := by
  have hy : ∀ k < m, (fun k : ℕ => lindFlow H Ls (k * dt) ρ₀) (k + 1)
      = (lindFlow H Ls dt : Matrix n n ℂ →ₗ[ℝ] Matrix n n ℂ) ((fun k : ℕ => lindFlow H Ls (k * dt) ρ₀) k) := by
    intro k _
    show lindFlow H Ls ((k + 1 : ℕ) * dt) ρ₀ = lindFlow H Ls dt (lindFlow H Ls (k * dt) ρ₀)
    rw [← lindFlow_add]
    congr 2
    push_cast
    ring
  have h := ens_global N (lindFlow H Ls dt : Matrix n n ℂ →ₗ[ℝ] Matrix n n ℂ) Ls (A dt) dt K C hK hdt hC m ens
    (fun k : ℕ => lindFlow H Ls (k * dt) ρ₀) hens hstep hy hloc hstab
  have h' : N (ensState (ens m) - lindFlow H Ls T ρ₀)
      ≤ Real.exp (K * T) * (N (ensState (ens 0) - ρ₀) + C * T * dt) := by
    have := h
    simp only [Nat.cast_zero, zero_mul, lindFlow_zero, hT] at this
    exact this
  refine ⟨h', fun h0 => ?_⟩
  rw [h0, sub_self, map_zero, zero_add] at h'
  refine h'.trans (le_of_eq ?_)
  ring

omit [DecidableEq n] in
/-- **C03.8b `c03_first_order_global_entry`** the same with both hypotheses and conclusion written entry by entry — the form of
    `c01_local_error_quadratic` / `c03_local_error_quadratic`: if every entry of every unit vector's one-step error is `≤ C·dt²`,
    and `exp(dt𝓛)` is `(1+K·dt)`-stable in the max-entry norm, then every entry of
    (trajectory average after `m` steps) − `exp(T𝓛)ρ₀` is `≤ e^{K·T}·C·T·dt`. -/
theorem c03_first_order_global_entry (H : Matrix n n ℂ) (Ls : List (Proc (Matrix n n ℂ)))
    (A : ℝ → Matrix n n ℂ) (dt K C T : ℝ) (hK : 0 ≤ K) (hdt : 0 ≤ dt) (hC : 0 ≤ C) (m : ℕ) (hT : m * dt = T)
    (ens : ℕ → Ens n)
    (hens : ∀ k < m, IsEnsemble (ens k))
    (hstep : ∀ k < m, ensState (ens (k + 1)) = ensStep Ls (A dt) (ens k))
    (hloc : ∀ ψ : n → ℂ, star ψ ⬝ᵥ ψ = 1 → ∀ i j,
      ‖(pureAverage Ls (A dt *ᵥ ψ) - lindFlow H Ls dt (vecMulVec ψ (star ψ))) i j‖ ≤ C * dt ^ 2)
    (hstab : ∀ M, entrySeminorm (lindFlow H Ls dt M) ≤ (1 + K * dt) * entrySeminorm M) :
    ∀ i j, ‖(ensState (ens m) - lindFlow H Ls T (ensState (ens 0))) i j‖ ≤ (Real.exp (K * T) * C * T) * dt := by
  intro i j
  have h := (c03_first_order_global entrySeminorm H Ls A dt K C T hK hdt hC m hT ens (ensState (ens 0)) hens hstep
    (fun ψ hψ => (entrySeminorm_le_iff _ (by positivity)).mpr (hloc ψ hψ)) hstab).2 rfl
  exact (entry_le_entrySeminorm _ i j).trans h

/-- non-vacuity of the ensemble hypotheses: the one-member ensemble `{(1, |1⟩)}` of the C01 example is an ensemble, its state is
    `|1⟩⟨1|`, and with `m = 0` steps the theorem's conclusion is the trivial `0 ≤ 0` -/
example : IsEnsemble ([(1, cxPsi)] : Ens (Fin 2)) ∧ ensState ([(1, cxPsi)] : Ens (Fin 2)) = vecMulVec cxPsi (star cxPsi) := by
  refine ⟨⟨?_, by simp⟩, by simp [ensState]⟩
  intro e he
  simp only [List.mem_singleton] at he
  subst he
  exact ⟨zero_le_one, by simp [cxPsi, dotProduct, Fin.sum_univ_two]⟩

end Yaqs.Consistency

/-!
# C03, extension 3 — accumulation through a circuit: an ideal gate layer `G_k` before every noise step

`c03_first_order_global` has one fixed exact one-step map.  In `digital_tjm` the state is conjugated by the ideal gate layer
between two noise steps, and the layer changes from step to step: exact reference `ρ_{k+1} = exp(s𝓛)(G_k ρ_k G_k†)`
(`circuitRef`), scheme: apply `G_k` to every ensemble member (`ensGate`), then the noise lottery (`ensStep`).  The fan is used
with the step-dependent linear maps `F_k = exp(s𝓛) ∘ (G_k · G_k†)` (`Lemmas/AccumulateCircuit.lean::ens_global_circuit`).  The
gate conjugation must not expand the seminorm; in the Frobenius seminorm it is an isometry (`c03_frob_gate_invariant`).

Status of the hypotheses of `c03_first_order_global_circuit`:
  THEOREMS    — `‖X‖_F² = Σ|x_ij|² = re tr(X†X)` and `‖UXU†‖_F = ‖X‖_F` for `U†U = 1` (`c03_frob_gate_invariant`); the state of the
                gate-conjugated ensemble is the conjugated state and the gate keeps it an ensemble (`c03_gate_on_ensemble`);
                linearity of the one-layer exact map; the accumulation itself.  The gate layers enter neither the growth
                factor nor the local error: the bound is the one of `c03_first_order_global`.
  ASSUMPTIONS — (a) every `G_k` is unitary (`G_k†G_k = 1`; a hypothesis on the input, met by every gate layer of a circuit);
                (b) *uniformity* of the local constant `C` over all unit vectors, now in the Frobenius seminorm (the pointwise
                shape `C·s²` is `c03_local_error_quadratic`; max-entry and Frobenius norms differ by at most the factor `d`);
                (c) the stability constant `K` of `exp(s𝓛)` in the Frobenius seminorm (finite for every `𝓛`; `K = 0` for unital
                noise such as Pauli channels — not proved here); (d) `ensState (ens (k+1)) = ensStep … (ensGate (G_k) (ens k))`
                is taken as the definition of the ensemble sequence (`c01_lottery_expectation` member by member).
-/
namespace Yaqs.Consistency

open Matrix NormedSpace Yaqs.MasterEq

variable {n : Type} [Fintype n] [DecidableEq n]

/-- **C03.9a `c03_frob_gate_invariant`** (the norm in which ideal gate layers are free) `frobSeminorm` is a seminorm on matrices
    with `‖X‖_F² = Σ_{ij}|x_ij|² = re tr(X†X)`, and conjugation by any `U` with `U†U = 1` preserves it: `‖U X U†‖_F = ‖X‖_F`
    (trace cyclicity).  On a finite index type `U†U = 1` is the same as `UU† = 1`; only the former is used. -/
theorem c03_frob_gate_invariant (X : Matrix n n ℂ) :
    frobSeminorm X ^ 2 = ∑ i, ∑ j, ‖X i j‖ ^ 2
    ∧ frobSeminorm X ^ 2 = (trace (Xᴴ * X)).re
    ∧ ∀ U : Matrix n n ℂ, Uᴴ * U = 1 → frobSeminorm (U * X * Uᴴ) = frobSeminorm X :=
  ⟨frobSeminorm_sq X, frobSeminorm_sq_trace X, fun U hU => frob_conj_unitary U X hU⟩

/-- **C03.9b `c03_gate_on_ensemble`** (the gate layer on the trajectory ensemble) applying `G` to every member, `ψ_i ↦ Gψ_i`
    with unchanged weights, gives the ensemble of the conjugated state, `Σ w_i (Gψ_i)(Gψ_i)† = G (Σ w_i ψ_iψ_i†) G†` (any `G`),
    and for `G†G = 1` it is again an ensemble of unit vectors with weights summing to one. -/
theorem c03_gate_on_ensemble (G : Matrix n n ℂ) (ens : Ens n) :
    ensState (ensGate G ens) = G * ensState ens * Gᴴ
    ∧ (Gᴴ * G = 1 → IsEnsemble ens → IsEnsemble (ensGate G ens)) :=
  ⟨ensState_gate G ens, fun hG h => isEnsemble_gate G hG ens h⟩

/-- **C03.9c `c03_first_order_global_circuit_of_invariant`** (circuit form, any unitarily invariant seminorm) `N` a seminorm in
    which conjugation by the gate layers does not expand (`N (G_k M G_k†) ≤ N M`: Frobenius — next theorem —, trace norm,
    operator norm).  Ensemble sequence: `ensState (ens (k+1)) = ensStep Ls (A s) (ensGate (G_k) (ens k))` (gate on every member,
    then noise lottery); exact reference `circuitRef`: `ρ_0 = ρ₀`, `ρ_{k+1} = exp(s𝓛)(G_k ρ_k G_k†)`.  If every `G_k` is
    unitary, the one-step local error is `≤ C·s²` in `N` for every unit vector and `exp(s𝓛)` is `(1+K·s)`-stable in `N`, then after
    `m` layers, `T = m·s` the total noise time, the trajectory average is within `e^{K·T}(N(initial discrepancy) + C·T·s)` of
    the exact reference — `O(s)` for fixed `T`. -/
theorem c03_first_order_global_circuit_of_invariant (N : Seminorm ℝ (Matrix n n ℂ)) (H : Matrix n n ℂ)
    (Ls : List (Proc (Matrix n n ℂ))) (A : ℝ → Matrix n n ℂ) (G : ℕ → Matrix n n ℂ) (s K C T : ℝ)
    (hK : 0 ≤ K) (hs : 0 ≤ s) (hC : 0 ≤ C) (m : ℕ) (hT : m * s = T)
    (ens : ℕ → Ens n) (ρ₀ : Matrix n n ℂ)
    (hG : ∀ k < m, (G k)ᴴ * G k = 1)
    (hinv : ∀ k < m, ∀ M, N (G k * M * (G k)ᴴ) ≤ N M)
    (hens : ∀ k < m, IsEnsemble (ens k))
    (hstep : ∀ k < m, ensState (ens (k + 1)) = ensStep Ls (A s) (ensGate (G k) (ens k)))
    (hloc : ∀ ψ : n → ℂ, star ψ ⬝ᵥ ψ = 1 →
      N (pureAverage Ls (A s *ᵥ ψ) - lindFlow H Ls s (vecMulVec ψ (star ψ))) ≤ C * s ^ 2)
    (hstab : ∀ M, N (lindFlow H Ls s M) ≤ (1 + K * s) * N M) :
    N (ensState (ens m) - circuitRef H Ls s G ρ₀ m)
      ≤ Real.exp (K * T) * (N (ensState (ens 0) - ρ₀) + C * T * s)
    ∧ (ensState (ens 0) = ρ₀ → N (ensState (ens m) - circuitRef H Ls s G ρ₀ m) ≤ (Real.exp (K * T) * C * T) * s) := by
  have h := ens_global_circuit N (lindFlow H Ls s : Matrix n n ℂ →ₗ[ℝ] Matrix n n ℂ) Ls (A s) G s K C hK hs hC m ens
    (circuitRef H Ls s G ρ₀) hG hinv hens hstep (fun k _ => rfl) hloc hstab
  have h' : N (ensState (ens m) - circuitRef H Ls s G ρ₀ m)
      ≤ Real.exp (K * T) * (N (ensState (ens 0) - ρ₀) + C * T * s) := by
    have := h
    simp only [hT] at this
    exact this
  refine ⟨h', fun h0 => ?_⟩
  rw [h0, sub_self, map_zero, zero_add] at h'
  refine h'.trans (le_of_eq ?_)
  ring

/-- **C03.9 `c03_first_order_global_circuit`** (the trajectory average through a whole circuit is first-order accurate, Frobenius
    norm) The previous theorem with `N = ‖·‖_F`: the invariance hypothesis is discharged by `c03_frob_gate_invariant`, so what
    remains is: every gate layer `G_k` unitary, local error `≤ C·s²` in `‖·‖_F` for every unit vector, `exp(s𝓛)`
    `(1+K·s)`-stable in `‖·‖_F`.  Conclusion: after `m` layers `‖(trajectory average) − ρ_m‖_F ≤ e^{K·m·s}(‖initial discrepancy‖_F +
    C·m·s²)`, i.e. `≤ e^{K·T}·C·T·s = O(s)` at fixed total noise time `T = m·s` when the ensemble starts at `ρ₀`.  The gate
    layers appear nowhere in the bound. -/
theorem c03_first_order_global_circuit (H : Matrix n n ℂ) (Ls : List (Proc (Matrix n n ℂ))) (A : ℝ → Matrix n n ℂ)
    (G : ℕ → Matrix n n ℂ) (s K C T : ℝ) (hK : 0 ≤ K) (hs : 0 ≤ s) (hC : 0 ≤ C) (m : ℕ) (hT : m * s = T)
    (ens : ℕ → Ens n) (ρ₀ : Matrix n n ℂ)
    (hG : ∀ k < m, (G k)ᴴ * G k = 1)
    (hens : ∀ k < m, IsEnsemble (ens k))
    (hstep : ∀ k < m, ensState (ens (k + 1)) = ensStep Ls (A s) (ensGate (G k) (ens k)))
    (hloc : ∀ ψ : n → ℂ, star ψ ⬝ᵥ ψ = 1 →
      frobSeminorm (pureAverage Ls (A s *ᵥ ψ) - lindFlow H Ls s (vecMulVec ψ (star ψ))) ≤ C * s ^ 2)
    (hstab : ∀ M, frobSeminorm (lindFlow H Ls s M) ≤ (1 + K * s) * frobSeminorm M) :
    frobSeminorm (ensState (ens m) - circuitRef H Ls s G ρ₀ m)
      ≤ Real.exp (K * T) * (frobSeminorm (ensState (ens 0) - ρ₀) + C * T * s)
    ∧ (ensState (ens 0) = ρ₀ →
        frobSeminorm (ensState (ens m) - circuitRef H Ls s G ρ₀ m) ≤ (Real.exp (K * T) * C * T) * s) :=
  c03_first_order_global_circuit_of_invariant frobSeminorm H Ls A G s K C T hK hs hC m hT ens ρ₀ hG
    (fun k hk M => le_of_eq (frob_conj_unitary (G k) M (hG k hk))) hens hstep hloc hstab

/-- **C03.9e `c03_circuit_ref_no_gates`** (consistency with `c03_first_order_global`) with identity gate layers the exact circuit
    reference is the Lindblad solution sampled on the grid, `ρ_m = exp((m·s)𝓛)ρ₀`, so `c03_first_order_global_circuit` with
    `G_k = 1` is `c03_first_order_global` in the Frobenius seminorm. -/
theorem c03_circuit_ref_no_gates (H : Matrix n n ℂ) (Ls : List (Proc (Matrix n n ℂ))) (s : ℝ) (ρ₀ : Matrix n n ℂ) (m : ℕ) :
    circuitRef H Ls s (fun _ => 1) ρ₀ m = lindFlow H Ls (m * s) ρ₀ :=
  lindFlow_grid H Ls s (circuitRef H Ls s (fun _ => 1) ρ₀) m (fun k _ => by simp [circuitRef])

/-- instance: two identity layers over the noise processes of the C01 example, scale `1/10` -/
example (ρ : Matrix (Fin 2) (Fin 2) ℂ) :
    circuitRef 0 cxProcs (1 / 10) (fun _ => 1) ρ 2 = lindFlow 0 cxProcs ((2 : ℕ) * (1 / 10)) ρ :=
  c03_circuit_ref_no_gates 0 cxProcs (1 / 10) ρ 2

/-! non-vacuity: one qubit, gate layers alternating `X` (even `k`) and the Hadamard gate `H = (1/√2)[[1,1],[1,−1]]` (odd `k`) -/

/-- `1/√2` as a complex number -/
noncomputable def cxR : ℂ := (((Real.sqrt 2)⁻¹ : ℝ) : ℂ)
/-- the Hadamard gate -/
noncomputable def cxHad : Matrix (Fin 2) (Fin 2) ℂ := !![cxR, cxR; cxR, -cxR]
/-- the gate layers `X, H, X, H, …` -/
noncomputable def cxGate (k : ℕ) : Matrix (Fin 2) (Fin 2) ℂ := if k % 2 = 0 then cxX else cxHad
/-- the ensemble that starts as `{(1, |1⟩)}` and receives the gate layers -/
noncomputable def cxEns : ℕ → Ens (Fin 2)
  | 0 => [(1, cxPsi)]
  | k + 1 => ensGate (cxGate k) (cxEns k)

/-- **C03.9d `c03_example_gates_unitary`** (non-vacuity of hypothesis (a); a named theorem only so that the instance below can
    use it) every layer of the example sequence `X, H, X, H, …` is unitary: `G_k†G_k = 1 = G_kG_k†` for all `k`. -/
theorem c03_example_gates_unitary (k : ℕ) : (cxGate k)ᴴ * cxGate k = 1 ∧ cxGate k * (cxGate k)ᴴ = 1 := by
  have hr : cxR * cxR = 1 / 2 := by
    unfold cxR
    rw [← Complex.ofReal_mul, ← mul_inv, Real.mul_self_sqrt (by norm_num)]
    norm_num
  have hs : star cxR = cxR := by unfold cxR; exact Complex.conj_ofReal _
  have hX : cxXᴴ = cxX := by ext i j; fin_cases i <;> fin_cases j <;> simp [cxX, conjTranspose_apply]
  have hH : cxHadᴴ = cxHad := by
    ext i j; fin_cases i <;> fin_cases j <;> simp [cxHad, conjTranspose_apply, hs]
  have hXX : cxX * cxX = 1 := by
    ext i j; fin_cases i <;> fin_cases j <;> simp [cxX, Matrix.mul_apply, Fin.sum_univ_two]
  have hHH : cxHad * cxHad = 1 := by
    ext i j; fin_cases i <;> fin_cases j <;> simp [cxHad, Matrix.mul_apply, Fin.sum_univ_two, hr] <;> norm_num
  unfold cxGate
  split <;> simp [hX, hH, hXX, hHH]

/-- the gate layer `X` on the one-member ensemble `{(1, |1⟩)}`: again an ensemble, with state `X|1⟩⟨1|X† = |0⟩⟨0|`, and the
    Frobenius distance to any matrix is unchanged by the layer -/
example (M : Matrix (Fin 2) (Fin 2) ℂ) :
    ensState (ensGate cxX [(1, cxPsi)]) = vecMulVec ![1, 0] (star ![1, 0])
    ∧ frobSeminorm (cxX * M * cxXᴴ) = frobSeminorm M := by
  have hXX : cxXᴴ * cxX = 1 := by
    ext i j; fin_cases i <;> fin_cases j <;> simp [cxX, Matrix.mul_apply, Fin.sum_univ_two, conjTranspose_apply]
  refine ⟨?_, frob_conj_unitary cxX M hXX⟩
  have hv : cxX *ᵥ cxPsi = ![1, 0] := by
    ext i; fin_cases i <;> simp [cxX, cxPsi, Matrix.mulVec, dotProduct, Fin.sum_univ_two]
  simp only [ensState, ensGate, List.map_cons, List.map_nil, List.sum_cons, List.sum_nil, add_zero, hv]
  exact one_smul ℝ _

/-- all hypotheses of `c03_first_order_global_circuit` met at once, for every number of layers `m` and every scale `s ≥ 0`, with
    the non-trivial gate sequence `X, H, X, H, …`: the noise-free instance (`H = 0`, no processes, no-jump propagator `1`, so the
    local-error and stability hypotheses hold with `C = K = 0`).  The theorem then says that the ensemble `cxEns` follows the
    ideal circuit exactly: its Frobenius distance to `circuitRef` (= `G_{m-1}…G_0 |1⟩⟨1| G_0†…G_{m-1}†`) is `0`. -/
example (m : ℕ) (s : ℝ) (hs : 0 ≤ s) :
    frobSeminorm (ensState (cxEns m) - circuitRef 0 [] s cxGate (vecMulVec cxPsi (star cxPsi)) m) ≤ 0 := by
  have hG : ∀ k, (cxGate k)ᴴ * cxGate k = 1 := fun k => (c03_example_gates_unitary k).1
  have h0 : IsEnsemble ([(1, cxPsi)] : Ens (Fin 2)) := by
    refine ⟨?_, by simp⟩
    intro e he
    simp only [List.mem_singleton] at he
    subst he
    exact ⟨zero_le_one, by simp [cxPsi, dotProduct, Fin.sum_univ_two]⟩
  have hens : ∀ k, IsEnsemble (cxEns k) := by
    intro k
    induction k with
    | zero => exact h0
    | succ k ih => exact isEnsemble_gate _ (hG k) _ ih
  have h := (c03_first_order_global_circuit 0 [] (fun _ => 1) cxGate s 0 0 (m * s) le_rfl hs le_rfl m rfl cxEns
    (vecMulVec cxPsi (star cxPsi)) (fun k _ => hG k) (fun k _ => hens k)
    (fun k _ => by rw [ensStep_nil]; rfl)
    (fun ψ _ => by rw [pureAverage_nil, lindFlow_nil]; simp)
    (fun M => by rw [lindFlow_nil]; simp)).2 (by simp [cxEns, ensState])
  simpa using h

end Yaqs.Consistency


/-!
# C03/C01, extension 4 — the stability hypothesis discharged in the operator norm

`c03_first_order_global` asks for a stability constant `K` of the exact flow `exp(dt𝓛)` in the chosen seminorm (assumption (b) of
extension 2).  In the operator norm of matrices (`Matrix.Norms.Operator`, the norm in which `lindFlow` is defined as an exponential
of bounded operators) it is a theorem: `‖exp X‖ ≤ e^{‖X‖}` term by term in the power series (`norm_exp_le_exp_norm`), hence
`‖exp(dt𝓛)M‖ ≤ e^{dt‖𝓛‖}‖M‖ ≤ (1 + 2‖𝓛‖·dt)‖M‖` whenever `dt·‖𝓛‖ ≤ 1` (`lindFlow_stable`), i.e. `K = 2‖𝓛‖`.
What is left as an assumption is (a) the uniformity of the local constant `C` over the unit vectors and (c) the definition of the
ensemble sequence.
-/
namespace Yaqs.Accumulate

open Matrix Yaqs.MasterEq Yaqs.Consistency
open scoped Matrix.Norms.Operator

variable {n : Type} [Fintype n] [DecidableEq n]

set_option backward.isDefEq.respectTransparency false in
/-- **C03.10 `c03_flow_stable`** the exact Lindblad flow is stable with the explicit constant `2‖𝓛‖`: for `0 ≤ dt`, `dt·‖𝓛‖ ≤ 1`,
    `‖exp(dt𝓛)M‖ ≤ (1 + 2‖𝓛‖·dt)·‖M‖`, and for every `t ≥ 0` `‖exp(t𝓛)M‖ ≤ e^{t‖𝓛‖}·‖M‖` (operator norm of matrices). -/
theorem c03_flow_stable (H : Matrix n n ℂ) (Ls : List (Proc (Matrix n n ℂ))) (M : Matrix n n ℂ) :
    (∀ t : ℝ, 0 ≤ t → ‖lindFlow H Ls t M‖ ≤ Real.exp (t * ‖lindCLM H Ls‖) * ‖M‖) ∧
    (∀ dt : ℝ, 0 ≤ dt → dt * ‖lindCLM H Ls‖ ≤ 1 → ‖lindFlow H Ls dt M‖ ≤ (1 + (2 * ‖lindCLM H Ls‖) * dt) * ‖M‖) :=
  ⟨fun t ht => lindFlow_norm_le H Ls t ht M, fun dt hdt hs => lindFlow_stable H Ls dt hdt hs M⟩

set_option backward.isDefEq.respectTransparency false in
/-- **C03.10a `c03_first_order_global_opnorm`** `c03_first_order_global` in the operator norm with the stability hypothesis
    discharged (`K = 2‖𝓛‖`): under a local error `≤ C·dt²` for every unit vector and `dt·‖𝓛‖ ≤ 1`, the trajectory average after
    `m` steps, `T = m·dt`, is within `e^{2‖𝓛‖T}·(‖initial discrepancy‖ + C·T·dt)` of the Lindblad solution `exp(T𝓛)ρ₀`. -/
theorem c03_first_order_global_opnorm (H : Matrix n n ℂ) (Ls : List (Proc (Matrix n n ℂ)))
    (A : ℝ → Matrix n n ℂ) (dt C T : ℝ) (hdt : 0 ≤ dt) (hC : 0 ≤ C) (m : ℕ) (hT : m * dt = T)
    (hsmall : dt * ‖lindCLM H Ls‖ ≤ 1)
    (ens : ℕ → Ens n) (ρ₀ : Matrix n n ℂ)
    (hens : ∀ k < m, IsEnsemble (ens k))
    (hstep : ∀ k < m, ensState (ens (k + 1)) = ensStep Ls (A dt) (ens k))
    (hloc : ∀ ψ : n → ℂ, star ψ ⬝ᵥ ψ = 1 →
      ‖pureAverage Ls (A dt *ᵥ ψ) - lindFlow H Ls dt (vecMulVec ψ (star ψ))‖ ≤ C * dt ^ 2) :
    ‖ensState (ens m) - lindFlow H Ls T ρ₀‖
      ≤ Real.exp (2 * ‖lindCLM H Ls‖ * T) * (‖ensState (ens 0) - ρ₀‖ + C * T * dt) :=
  (c03_first_order_global (normSeminorm ℝ (Matrix n n ℂ)) H Ls A dt (2 * ‖lindCLM H Ls‖) C T
    (mul_nonneg zero_le_two (norm_nonneg _)) hdt hC m hT ens ρ₀ hens hstep hloc
    (fun M => lindFlow_stable H Ls dt hdt hsmall M)).1

set_option backward.isDefEq.respectTransparency false in
/-- non-vacuity: with no Hamiltonian and no processes the Lindbladian is `0`, every `dt ≥ 0` meets `dt·‖𝓛‖ ≤ 1`, and the stability
    bound reads `‖M‖ ≤ ‖M‖` -/
example (M : Matrix (Fin 2) (Fin 2) ℂ) (dt : ℝ) (hdt : 0 ≤ dt) :
    ‖lindFlow (0 : Matrix (Fin 2) (Fin 2) ℂ) [] dt M‖ ≤ ‖M‖ := by
  have hz : lindCLM (0 : Matrix (Fin 2) (Fin 2) ℂ) [] = 0 := by
    ext ρ i j
    rw [lindCLM_apply, lind_eq]
    simp [genK, jumpSum, gammaSum]
  have h0 : ‖lindCLM (0 : Matrix (Fin 2) (Fin 2) ℂ) []‖ = 0 := by rw [hz, norm_zero]
  have h := (c03_flow_stable (0 : Matrix (Fin 2) (Fin 2) ℂ) [] M).2 dt hdt (by rw [h0]; simp)
  simpa [h0] using h

end Yaqs.Accumulate


/-!
# C03/C01, extension 5 (xu03) — the local error hypothesis discharged: an explicit constant, uniform over the unit vectors

`c03_first_order_global_opnorm` still assumed (a) ONE local constant `C` for all unit vectors.  For the exponential no-jump family
`A(t) = exp(t·G)`, `G = −iH − ½K`, `K = Σ_k γ_k L_k†L_k` (`expFamily`, an `IsNoJumpFamily` — `noJump_expFamily`; it is the MCWF
propagator `exp(−i t H_eff)` and the single-exponential form of the code's dissipation + exact unitary step), `H` Hermitian and
`γ_k ≥ 0`, this is now a theorem in the `ℓ∞` operator norm of matrices with the closed-form constant
`explicitC = N(15N²+17)·Λ²`, `Λ = 2‖H‖ + 2Σ_k|γ_k|‖L_k‖‖L_k†‖`, `N = card n`, valid for `0 ≤ t`, `t·Λ ≤ 1`
(sharper: `localC`, in `‖G‖+‖G†‖`, `‖K‖`, `Σ|γ|‖L‖‖L†‖`, `‖𝓛‖`).  The uniformity in `ψ` rests on `γ_k ≥ 0`: the jump state
`Σ_k γ_k (L_kφ)(L_kφ)†` is positive, so its norm is at most `N` times its trace, which is exactly the denominator `tr(Kφφ†)` of the
lottery — the normalised jump state stays bounded however small the total jump rate is, and the case of a vanishing rate (where the
model's division returns `0`, the code never draws a jump) is covered by the same bound.
The same holds (C03.15/16) for every product family `Π_k exp(t·X_k)` whose generators sum to `G` — in particular the code's order-1 step
`dissStep Ls t * unitaryStep H t` of `analog_tjm_1` (exact unitary step, then one factor `exp(−(tγ_k/2)L_k†L_k)` per process, in list
order) and the order-2 Strang step `dissStep Ls (t/2) * unitaryStep H t * dissStep Ls (t/2)` of `analog_tjm_2` (C03.17) — with
`g = Σ_k(‖X_k‖ + ‖X_k†‖)` in place of `‖G‖+‖G†‖`.
Not covered: the TDVP approximation of the unitary step (C10/C11), and norms other than the `ℓ∞` operator norm.
-/
namespace Yaqs.Accumulate

open Matrix NormedSpace Yaqs.MasterEq Yaqs.Consistency
open scoped Matrix.Norms.Operator

variable {n : Type} [Fintype n] [DecidableEq n]

set_option backward.isDefEq.respectTransparency false in
/-- **C03.11 `c03_taylor_remainders`** (item 1) second-order Taylor remainders with explicit constants, `t ≥ 0`:
    `‖exp(tG) − 1 − tG‖ ≤ (t‖G‖)²e^{t‖G‖}/2` for every matrix `G` (the no-jump propagator), and for the exact Lindblad flow
    `‖exp(t𝓛)ρ − ρ − t·𝓛ρ‖ ≤ (t‖𝓛‖)²e^{t‖𝓛‖}/2·‖ρ‖` (real Banach algebra of bounded operators on matrices). -/
theorem c03_taylor_remainders (H : Matrix n n ℂ) (Ls : List (Proc (Matrix n n ℂ))) (G ρ : Matrix n n ℂ) (t : ℝ) (ht : 0 ≤ t) :
    ‖exp (t • G) - 1 - t • G‖ ≤ (t * ‖G‖) ^ 2 * Real.exp (t * ‖G‖) / 2 ∧
    ‖lindFlow H Ls t ρ - ρ - t • lind H Ls ρ‖
      ≤ (t * ‖lindCLM H Ls‖) ^ 2 * Real.exp (t * ‖lindCLM H Ls‖) / 2 * ‖ρ‖ := by
  constructor
  · have h := Yaqs.TrotterLimit.norm_exp_sub_one_sub_le (t • G)
    rw [norm_smul, Real.norm_of_nonneg ht] at h
    have h2 := Yaqs.TrotterLimit.two_mul_exp_sub_le (mul_nonneg ht (norm_nonneg G))
    linarith
  · have h := lindFlow_taylor2_exp H Ls t ht ρ
    have h2 := Yaqs.TrotterLimit.two_mul_exp_sub_le (mul_nonneg ht (norm_nonneg (lindCLM H Ls)))
    refine h.trans (mul_le_mul_of_nonneg_right ?_ (norm_nonneg _))
    linarith

set_option backward.isDefEq.respectTransparency false in
/-- **C03.12 `c03_average_expansion_uniform`** (item 2) the one-step trajectory average expanded to first order with a remainder
    that is uniform in the state: `H` Hermitian, `γ_k ≥ 0`, `ψ` a unit vector, `0 ≤ t`, `t(‖G‖+‖G†‖) ≤ 1`:
    `‖pureAverage Ls (e^{tG}ψ) − (ψψ† + t·𝓛(ψψ†))‖ ≤ localC1·t²`, `localC1 = N(7g²(1+N²) + 8N²‖K‖g + 8·jB·g)`,
    `g = ‖G‖+‖G†‖`, `jB = Σ|γ_k|‖L_k‖‖L_k†‖` — no-jump branch, jump branches, both normalisations and the
    vanishing-rate case of `pureAverage` included. -/
theorem c03_average_expansion_uniform (H : Matrix n n ℂ) (hH : Hᴴ = H) (Ls : List (Proc (Matrix n n ℂ)))
    (hγ : ∀ p ∈ Ls, 0 ≤ p.gamma) (ψ : n → ℂ) (hψ : star ψ ⬝ᵥ ψ = 1) (t : ℝ) (ht : 0 ≤ t)
    (hg : t * gB H Ls ≤ 1) :
    ‖pureAverage Ls (expFamily H Ls t *ᵥ ψ) - (vecMulVec ψ (star ψ) + t • lind H Ls (vecMulVec ψ (star ψ)))‖
      ≤ localC1 H Ls * t ^ 2 ∧
    localC1 H Ls = Fintype.card n * (7 * (‖genG H Ls‖ + ‖(genG H Ls)ᴴ‖) ^ 2 * (1 + (Fintype.card n : ℝ) ^ 2)
      + 8 * (Fintype.card n : ℝ) ^ 2 * ‖genK Ls‖ * (‖genG H Ls‖ + ‖(genG H Ls)ᴴ‖)
      + 8 * jumpBound Ls * (‖genG H Ls‖ + ‖(genG H Ls)ᴴ‖)) :=
  ⟨average_expand_uniform H hH Ls hγ ψ hψ t ht hg, rfl⟩

set_option backward.isDefEq.respectTransparency false in
/-- **C03.13 `c03_local_error_uniform`** (item 3) ONE explicit constant for all unit vectors: `H` Hermitian, `γ_k ≥ 0`,
    `Λ = 2‖H‖ + 2Σ_k|γ_k|‖L_k‖‖L_k†‖`, `C = N(15N²+17)Λ²`; for every unit `ψ` and every `0 ≤ t` with `t·Λ ≤ 1`
    `‖pureAverage Ls (e^{tG}ψ) − exp(t𝓛)(ψψ†)‖ ≤ C·t²`.  (Second conjunct: the closed formula of `C`; third: the sharper
    constant `localC` under `t(‖G‖+‖G†‖) ≤ 1`, `t‖𝓛‖ ≤ 1`.) -/
theorem c03_local_error_uniform (H : Matrix n n ℂ) (hH : Hᴴ = H) (Ls : List (Proc (Matrix n n ℂ)))
    (hγ : ∀ p ∈ Ls, 0 ≤ p.gamma) :
    (∀ ψ : n → ℂ, star ψ ⬝ᵥ ψ = 1 → ∀ t : ℝ, 0 ≤ t → t * lamB H Ls ≤ 1 →
      ‖pureAverage Ls (expFamily H Ls t *ᵥ ψ) - lindFlow H Ls t (vecMulVec ψ (star ψ))‖ ≤ explicitC H Ls * t ^ 2) ∧
    explicitC H Ls = Fintype.card n * (15 * (Fintype.card n : ℝ) ^ 2 + 17)
      * (2 * ‖H‖ + 2 * (Ls.map fun p => ‖rateC p.gamma‖ * (‖p.op‖ * ‖p.opᴴ‖)).sum) ^ 2 ∧
    (∀ ψ : n → ℂ, star ψ ⬝ᵥ ψ = 1 → ∀ t : ℝ, 0 ≤ t → t * gB H Ls ≤ 1 → t * ‖lindCLM H Ls‖ ≤ 1 →
      ‖pureAverage Ls (expFamily H Ls t *ᵥ ψ) - lindFlow H Ls t (vecMulVec ψ (star ψ))‖ ≤ localC H Ls * t ^ 2) :=
  ⟨fun ψ hψ t ht hΛ => local_error_explicit H hH Ls hγ ψ hψ t ht hΛ, rfl,
   fun ψ hψ t ht hg hL => local_error_uniform H hH Ls hγ ψ hψ t ht hg hL⟩

set_option backward.isDefEq.respectTransparency false in
/-- **C03.14 `c03_first_order_global_unconditional`** `c03_first_order_global_opnorm` with no analytic hypothesis left: for the
    exponential no-jump family, `H` Hermitian, `γ_k ≥ 0`, `0 ≤ dt`, `dt·Λ ≤ 1`, the trajectory average after `m` steps,
    `T = m·dt`, is within `e^{2‖𝓛‖T}·(‖initial discrepancy‖ + N(15N²+17)Λ²·T·dt)` of the Lindblad solution `exp(T𝓛)ρ₀`.
    What remains assumed is only the definition of the ensemble sequence (`hens`, `hstep`). -/
theorem c03_first_order_global_unconditional (H : Matrix n n ℂ) (hH : Hᴴ = H) (Ls : List (Proc (Matrix n n ℂ)))
    (hγ : ∀ p ∈ Ls, 0 ≤ p.gamma) (dt T : ℝ) (hdt : 0 ≤ dt) (m : ℕ) (hT : m * dt = T)
    (hsmall : dt * lamB H Ls ≤ 1)
    (ens : ℕ → Ens n) (ρ₀ : Matrix n n ℂ)
    (hens : ∀ k < m, IsEnsemble (ens k))
    (hstep : ∀ k < m, ensState (ens (k + 1)) = ensStep Ls (expFamily H Ls dt) (ens k)) :
    ‖ensState (ens m) - lindFlow H Ls T ρ₀‖
      ≤ Real.exp (2 * ‖lindCLM H Ls‖ * T) * (‖ensState (ens 0) - ρ₀‖ + explicitC H Ls * T * dt) := by
  have hC : 0 ≤ explicitC H Ls := by unfold explicitC; positivity
  have hL : dt * ‖lindCLM H Ls‖ ≤ 1 := (mul_le_mul_of_nonneg_left (norm_lindCLM_le H Ls) hdt).trans hsmall
  exact c03_first_order_global_opnorm H Ls (expFamily H Ls) dt (explicitC H Ls) T hdt hC m hT hL ens ρ₀ hens hstep
    (fun ψ hψ => local_error_explicit H hH Ls hγ ψ hψ dt hdt hsmall)

/-- non-vacuity: the admissible step range `[0, t₀]` is a proper interval for every model (`t₀ = 1/(Λ+1)`) -/
example (H : Matrix n n ℂ) (Ls : List (Proc (Matrix n n ℂ))) :
    ∃ t₀ : ℝ, 0 < t₀ ∧ ∀ t : ℝ, 0 ≤ t → t ≤ t₀ → t * lamB H Ls ≤ 1 := by
  have hΛ : 0 ≤ lamB H Ls := by
    have := jumpBound_nonneg Ls
    unfold lamB; positivity
  refine ⟨1 / (lamB H Ls + 1), by positivity, fun t _ htt => ?_⟩
  calc t * lamB H Ls ≤ 1 / (lamB H Ls + 1) * lamB H Ls := mul_le_mul_of_nonneg_right htt hΛ
    _ = lamB H Ls / (lamB H Ls + 1) := by ring
    _ ≤ 1 := by rw [div_le_one (by positivity)]; linarith

set_option backward.isDefEq.respectTransparency false in
/-- non-vacuity: one qubit, `H = σ_z`, amplitude damping `L = σ₋` with `γ = 1/10`, `ψ = |0⟩` meet all hypotheses of
    `c03_local_error_uniform` -/
example (t : ℝ) (ht : 0 ≤ t)
    (hΛ : t * lamB (!![1, 0; 0, -1] : Matrix (Fin 2) (Fin 2) ℂ) [⟨1 / 10, !![0, 1; 0, 0]⟩] ≤ 1) :
    ‖pureAverage [⟨1 / 10, !![0, 1; 0, 0]⟩]
        (expFamily (!![1, 0; 0, -1] : Matrix (Fin 2) (Fin 2) ℂ) [⟨1 / 10, !![0, 1; 0, 0]⟩] t *ᵥ ![1, 0])
      - lindFlow (!![1, 0; 0, -1] : Matrix (Fin 2) (Fin 2) ℂ) [⟨1 / 10, !![0, 1; 0, 0]⟩] t (vecMulVec ![1, 0] (star ![1, 0]))‖
      ≤ explicitC (!![1, 0; 0, -1] : Matrix (Fin 2) (Fin 2) ℂ) [⟨1 / 10, !![0, 1; 0, 0]⟩] * t ^ 2 := by
  refine (c03_local_error_uniform (!![1, 0; 0, -1] : Matrix (Fin 2) (Fin 2) ℂ) ?_ [⟨1 / 10, !![0, 1; 0, 0]⟩] ?_).1
    ![1, 0] ?_ t ht hΛ
  · ext i j
    fin_cases i <;> fin_cases j <;> simp
  · intro p hp
    simp only [List.mem_singleton] at hp
    subst hp
    norm_num
  · simp [dotProduct, Fin.sum_univ_two]

set_option backward.isDefEq.respectTransparency false in
/-- **C03.15 `c03_local_error_order1`** the uniform local error for the step the code actually takes at order 1
    (`analog_tjm_1`): no-jump propagator `dissStep Ls t * unitaryStep H t` = exact unitary step followed by the per-process
    dissipation factors `exp(−(tγ_k/2)L_k†L_k)` in list order (NOT assumed to commute).  `H` Hermitian, `γ_k ≥ 0`, `ψ` unit,
    `0 ≤ t`, `t·g₁ ≤ 1`, `t‖𝓛‖ ≤ 1`, `g₁ = gP (order1Gens H Ls) = Σ_k(‖X_k‖+‖X_k†‖)` over the generators
    `X_k = −(γ_k/2)L_k†L_k`, `−iH`:  `‖pureAverage Ls (A(t)ψ) − exp(t𝓛)(ψψ†)‖ ≤ (famC g₁ + N(3/2)‖𝓛‖²)·t²`.
    Second conjunct: the same for ANY list of generators with sum `G` (any splitting, any order — e.g. the Strang arrangement). -/
theorem c03_local_error_order1 (H : Matrix n n ℂ) (hH : Hᴴ = H) (Ls : List (Proc (Matrix n n ℂ)))
    (hγ : ∀ p ∈ Ls, 0 ≤ p.gamma) :
    (∀ ψ : n → ℂ, star ψ ⬝ᵥ ψ = 1 → ∀ t : ℝ, 0 ≤ t → t * gP (order1Gens H Ls) ≤ 1 → t * ‖lindCLM H Ls‖ ≤ 1 →
      ‖pureAverage Ls ((dissStep Ls t * unitaryStep H t) *ᵥ ψ) - lindFlow H Ls t (vecMulVec ψ (star ψ))‖
        ≤ (famC (gP (order1Gens H Ls)) Ls + Fintype.card n * (3 / 2 * ‖lindCLM H Ls‖ ^ 2)) * t ^ 2) ∧
    (∀ Xs : List (Matrix n n ℂ), Xs.sum = genG H Ls →
      ∀ ψ : n → ℂ, star ψ ⬝ᵥ ψ = 1 → ∀ t : ℝ, 0 ≤ t → t * gP Xs ≤ 1 → t * ‖lindCLM H Ls‖ ≤ 1 →
      ‖pureAverage Ls (prodFamily Xs t *ᵥ ψ) - lindFlow H Ls t (vecMulVec ψ (star ψ))‖
        ≤ (famC (gP Xs) Ls + Fintype.card n * (3 / 2 * ‖lindCLM H Ls‖ ^ 2)) * t ^ 2) :=
  ⟨fun ψ hψ t ht hg hL => local_error_order1 H hH Ls hγ ψ hψ t ht hg hL,
   fun Xs hs ψ hψ t ht hg hL => local_error_prodFamily H hH Ls hγ Xs hs ψ hψ t ht hg hL⟩

set_option backward.isDefEq.respectTransparency false in
/-- **C03.16 `c03_first_order_global_order1`** the global first-order bound for the code's order-1 step with no analytic
    hypothesis: `H` Hermitian, `γ_k ≥ 0`, `0 ≤ dt`, `dt·g₁ ≤ 1`, `dt·‖𝓛‖ ≤ 1`; after `m` steps, `T = m·dt`,
    `‖trajectory average − exp(T𝓛)ρ₀‖ ≤ e^{2‖𝓛‖T}·(‖initial discrepancy‖ + C·T·dt)`, `C = famC g₁ + N(3/2)‖𝓛‖²`. -/
theorem c03_first_order_global_order1 (H : Matrix n n ℂ) (hH : Hᴴ = H) (Ls : List (Proc (Matrix n n ℂ)))
    (hγ : ∀ p ∈ Ls, 0 ≤ p.gamma) (dt T : ℝ) (hdt : 0 ≤ dt) (m : ℕ) (hT : m * dt = T)
    (hg : dt * gP (order1Gens H Ls) ≤ 1) (hsmall : dt * ‖lindCLM H Ls‖ ≤ 1)
    (ens : ℕ → Ens n) (ρ₀ : Matrix n n ℂ)
    (hens : ∀ k < m, IsEnsemble (ens k))
    (hstep : ∀ k < m, ensState (ens (k + 1)) = ensStep Ls (dissStep Ls dt * unitaryStep H dt) (ens k)) :
    ‖ensState (ens m) - lindFlow H Ls T ρ₀‖
      ≤ Real.exp (2 * ‖lindCLM H Ls‖ * T)
        * (‖ensState (ens 0) - ρ₀‖
          + (famC (gP (order1Gens H Ls)) Ls + Fintype.card n * (3 / 2 * ‖lindCLM H Ls‖ ^ 2)) * T * dt) := by
  have hg0 : 0 ≤ gP (order1Gens H Ls) :=
    add_nonneg (Yaqs.TrotterLimit.list_sum_norm_nonneg _) (Yaqs.TrotterLimit.list_sum_norm_nonneg _)
  have hj := jumpBound_nonneg Ls
  have hC : 0 ≤ famC (gP (order1Gens H Ls)) Ls + Fintype.card n * (3 / 2 * ‖lindCLM H Ls‖ ^ 2) := by
    unfold famC; positivity
  exact c03_first_order_global_opnorm H Ls (fun t => dissStep Ls t * unitaryStep H t) dt _ T hdt hC m hT hsmall ens ρ₀
    hens hstep (fun ψ hψ => local_error_order1 H hH Ls hγ ψ hψ dt hdt hg hsmall)

set_option backward.isDefEq.respectTransparency false in
/-- non-vacuity: `H = σ_z`, `L = σ₋`, `γ = 1/10`, `ψ = |0⟩` meet the hypotheses of `c03_local_error_order1` -/
example (t : ℝ) (ht : 0 ≤ t)
    (hg : t * gP (order1Gens (!![1, 0; 0, -1] : Matrix (Fin 2) (Fin 2) ℂ) [⟨1 / 10, !![0, 1; 0, 0]⟩]) ≤ 1)
    (hL : t * ‖lindCLM (!![1, 0; 0, -1] : Matrix (Fin 2) (Fin 2) ℂ) [⟨1 / 10, !![0, 1; 0, 0]⟩]‖ ≤ 1) :
    ‖pureAverage [⟨1 / 10, !![0, 1; 0, 0]⟩]
        ((dissStep [⟨1 / 10, !![0, 1; 0, 0]⟩] t * unitaryStep (!![1, 0; 0, -1] : Matrix (Fin 2) (Fin 2) ℂ) t) *ᵥ ![1, 0])
      - lindFlow (!![1, 0; 0, -1] : Matrix (Fin 2) (Fin 2) ℂ) [⟨1 / 10, !![0, 1; 0, 0]⟩] t (vecMulVec ![1, 0] (star ![1, 0]))‖
      ≤ (famC (gP (order1Gens (!![1, 0; 0, -1] : Matrix (Fin 2) (Fin 2) ℂ) [⟨1 / 10, !![0, 1; 0, 0]⟩]))
            [⟨1 / 10, !![0, 1; 0, 0]⟩]
          + Fintype.card (Fin 2)
            * (3 / 2 * ‖lindCLM (!![1, 0; 0, -1] : Matrix (Fin 2) (Fin 2) ℂ) [⟨1 / 10, !![0, 1; 0, 0]⟩]‖ ^ 2)) * t ^ 2 := by
  refine (c03_local_error_order1 (!![1, 0; 0, -1] : Matrix (Fin 2) (Fin 2) ℂ) ?_ [⟨1 / 10, !![0, 1; 0, 0]⟩] ?_).1
    ![1, 0] ?_ t ht hg hL
  · ext i j
    fin_cases i <;> fin_cases j <;> simp
  · intro p hp
    simp only [List.mem_singleton] at hp
    subst hp
    norm_num
  · simp [dotProduct, Fin.sum_univ_two]

set_option backward.isDefEq.respectTransparency false in
/-- **C03.17 `c03_local_error_order2`** the uniform local error and the global first-order bound for the order-2 (Strang) step of
    `analog_tjm_2`, `A(t) = dissStep Ls (t/2) * unitaryStep H t * dissStep Ls (t/2)` (half dissipation sweep, exact unitary step,
    half dissipation sweep; factors not assumed to commute): `H` Hermitian, `γ_k ≥ 0`, `g₂ = gP (order2Gens H Ls)`,
    `C = famC g₂ + N(3/2)‖𝓛‖²`; (1) for every unit `ψ`, `0 ≤ t`, `t·g₂ ≤ 1`, `t‖𝓛‖ ≤ 1`:
    `‖pureAverage Ls (A(t)ψ) − exp(t𝓛)(ψψ†)‖ ≤ C·t²`; (2) after `m` steps of size `dt` (same smallness), `T = m·dt`:
    `‖trajectory average − exp(T𝓛)ρ₀‖ ≤ e^{2‖𝓛‖T}(‖initial discrepancy‖ + C·T·dt)`.
    (Only first order is claimed; the second-order accuracy of the Strang arrangement is not proved here.) -/
theorem c03_local_error_order2 (H : Matrix n n ℂ) (hH : Hᴴ = H) (Ls : List (Proc (Matrix n n ℂ)))
    (hγ : ∀ p ∈ Ls, 0 ≤ p.gamma) :
    (∀ ψ : n → ℂ, star ψ ⬝ᵥ ψ = 1 → ∀ t : ℝ, 0 ≤ t → t * gP (order2Gens H Ls) ≤ 1 → t * ‖lindCLM H Ls‖ ≤ 1 →
      ‖pureAverage Ls ((dissStep Ls (t / 2) * unitaryStep H t * dissStep Ls (t / 2)) *ᵥ ψ)
          - lindFlow H Ls t (vecMulVec ψ (star ψ))‖
        ≤ (famC (gP (order2Gens H Ls)) Ls + Fintype.card n * (3 / 2 * ‖lindCLM H Ls‖ ^ 2)) * t ^ 2) ∧
    (∀ (dt T : ℝ) (m : ℕ) (ens : ℕ → Ens n) (ρ₀ : Matrix n n ℂ), 0 ≤ dt → m * dt = T →
      dt * gP (order2Gens H Ls) ≤ 1 → dt * ‖lindCLM H Ls‖ ≤ 1 →
      (∀ k < m, IsEnsemble (ens k)) →
      (∀ k < m, ensState (ens (k + 1))
        = ensStep Ls (dissStep Ls (dt / 2) * unitaryStep H dt * dissStep Ls (dt / 2)) (ens k)) →
      ‖ensState (ens m) - lindFlow H Ls T ρ₀‖
        ≤ Real.exp (2 * ‖lindCLM H Ls‖ * T)
          * (‖ensState (ens 0) - ρ₀‖
            + (famC (gP (order2Gens H Ls)) Ls + Fintype.card n * (3 / 2 * ‖lindCLM H Ls‖ ^ 2)) * T * dt)) := by
  refine ⟨fun ψ hψ t ht hg hL => local_error_order2 H hH Ls hγ ψ hψ t ht hg hL, ?_⟩
  intro dt T m ens ρ₀ hdt hT hg hsmall hens hstep
  have hg0 : 0 ≤ gP (order2Gens H Ls) :=
    add_nonneg (Yaqs.TrotterLimit.list_sum_norm_nonneg _) (Yaqs.TrotterLimit.list_sum_norm_nonneg _)
  have hj := jumpBound_nonneg Ls
  have hC : 0 ≤ famC (gP (order2Gens H Ls)) Ls + Fintype.card n * (3 / 2 * ‖lindCLM H Ls‖ ^ 2) := by
    unfold famC; positivity
  exact c03_first_order_global_opnorm H Ls (fun t => dissStep Ls (t / 2) * unitaryStep H t * dissStep Ls (t / 2)) dt _ T
    hdt hC m hT hsmall ens ρ₀ hens hstep (fun ψ hψ => local_error_order2 H hH Ls hγ ψ hψ dt hdt hg hsmall)

set_option backward.isDefEq.respectTransparency false in
/-- non-vacuity: `H = σ_z`, `L = σ₋`, `γ = 1/10`, `ψ = |0⟩` meet the hypotheses of `c03_local_error_order2`; at `t = 0` the
    smallness conditions hold and the statement reads `‖pureAverage Ls ψ − ψψ†‖ ≤ 0` -/
example :
    ‖pureAverage [⟨1 / 10, !![0, 1; 0, 0]⟩]
        ((dissStep [⟨1 / 10, !![0, 1; 0, 0]⟩] ((0 : ℝ) / 2) * unitaryStep (!![1, 0; 0, -1] : Matrix (Fin 2) (Fin 2) ℂ) 0
          * dissStep [⟨1 / 10, !![0, 1; 0, 0]⟩] ((0 : ℝ) / 2)) *ᵥ ![1, 0])
      - lindFlow (!![1, 0; 0, -1] : Matrix (Fin 2) (Fin 2) ℂ) [⟨1 / 10, !![0, 1; 0, 0]⟩] 0 (vecMulVec ![1, 0] (star ![1, 0]))‖
      ≤ 0 := by
  have h := (c03_local_error_order2 (!![1, 0; 0, -1] : Matrix (Fin 2) (Fin 2) ℂ) ?_ [⟨1 / 10, !![0, 1; 0, 0]⟩] ?_).1
    ![1, 0] ?_ 0 le_rfl (by simp) (by simp)
  · simpa using h
  · ext i j
    fin_cases i <;> fin_cases j <;> simp
  · intro p hp
    simp only [List.mem_singleton] at hp
    subst hp
    norm_num
  · simp [dotProduct, Fin.sum_univ_two]

end Yaqs.Accumulate
