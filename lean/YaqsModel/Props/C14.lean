import YaqsModel.Lemmas.PipelineJump
import YaqsModel.Lemmas.SJump
import YaqsModel.Lemmas.GridFl

/-!
# C14 — a scheduled jump acts exactly once, at its scheduled time

Property theorems only (helper lemmas: `Lemmas/Pipeline.lean`, `Lemmas/PipelineJump.lean`, `Lemmas/SJump.lean`).

Reading.  `tjm2Out J samp n` / `tjm1Out J samp noise n` are the arrays `analog_tjm_2` / `analog_tjm_1` return for a
grid of `n` points when `has_scheduled_jump` fires at the grid indices in `J` (any list: several jumps, repeated
indices = several jumps at the same time).  Entry `j` is the list of operations that were applied, in order, to the
state whose expectation values are stored in column `j`.  `SJ m` is `apply_scheduled_jumps(…, times[m], …)`, which
applies every operator scheduled for that time (in list order) and renormalises; `Lot` is the random-jump lottery that
runs instead when nothing is scheduled.  "Values before `t_m` equal the run without the jump" is equality of the
histories of the columns `j < m`; "from `t_m` on the operator was applied once at that time and the evolution
continued" is: the history of column `j ≥ m` is the history of the run without the jump, with the lottery of grid
index `m` — which sits after exactly `m` unitary steps and before the remaining `j - m` — replaced by the operator.

The second half ties grid indices to times: on the grid `t_k = k·dt` the matching rule of `has_scheduled_jump`
selects `k = m` and nothing else, for every `k` and `m` (no bound — the repaired rule has `rtol = 0`).
-/
namespace Yaqs.Pipeline
open Frac Op

/-- **C14.1 (order 2)**  For every grid length `n ≥ 2`, every jump list `J` containing `m ≥ 1`, every column `j < n`
    of the second-order pipeline with sampling on:
    * `j < m`: the column is the same as in the run without the jump at `m`;
    * `m ≤ j`: the column's history is `pre ++ SJ m :: post`, the run without that jump has `pre ++ Lot :: post`
      with the *same* `pre`, `post`; `SJ m` occurs nowhere else; `pre` contains exactly `m` unitary steps and
      `post` exactly `j - m`. -/
theorem sjump_once_order2 (J : List Nat) (n j m : Nat) (hn : 2 ≤ n) (hj : j < n) (hm : 1 ≤ m) (hJ : m ∈ J) :
    (j < m → (tjm2Out J true n)[j]? = (tjm2Out (J.filter (· ≠ m)) true n)[j]?) ∧
    (m ≤ j → ∃ pre post,
      (tjm2Out J true n)[j]? = some (some (pre ++ SJ m :: post)) ∧
      (tjm2Out (J.filter (· ≠ m)) true n)[j]? = some (some (pre ++ Lot :: post)) ∧
      SJ m ∉ pre ∧ SJ m ∉ post ∧ pre.count U = m ∧ post.count U = j - m) := by
  rw [tjm2Out_samp J n hn, tjm2Out_samp _ n hn]
  simp only [List.getElem?_map, List.getElem?_range hj, Option.map_some]
  constructor
  · intro hlt
    congr 2
    exact (strangW_congr _ _ j (fun k hk => noiseOp_filter J m k (by omega))).symm
  · intro hle
    obtain ⟨pre, post, h1, h2, h3, h4⟩ := strangW_split (noiseOp J) (noiseOp_ne_U J) m j (by omega) hle
    refine ⟨pre, post, ?_, ?_, ?_, ?_, h1, h2⟩
    · have := h4 (noiseOp J) (fun _ _ => rfl)
      have hs : noiseOp J m = SJ m := by simp [noiseOp, hJ]
      rw [hs] at this
      exact congrArg (fun x => some (some x)) this
    · have := h4 (noiseOp (J.filter (· ≠ m))) (fun k hk => noiseOp_filter J m k hk)
      rw [noiseOp_filter_self] at this
      exact congrArg (fun x => some (some x)) this
    · intro hmem; exact plain_ne_SJ J m _ (h3 _ (List.mem_append.mpr (Or.inl hmem))) rfl
    · intro hmem; exact plain_ne_SJ J m _ (h3 _ (List.mem_append.mpr (Or.inr hmem))) rfl

/-- **C14.1 (order 1)**  The same statement for the first-order pipeline (with a noise model present). -/
theorem sjump_once_order1 (J : List Nat) (n j m : Nat) (hn : 1 ≤ n) (hj : j < n) (hm : 1 ≤ m) (hJ : m ∈ J) :
    (j < m → (tjm1Out J true true n)[j]? = (tjm1Out (J.filter (· ≠ m)) true true n)[j]?) ∧
    (m ≤ j → ∃ pre post,
      (tjm1Out J true true n)[j]? = some (some (pre ++ SJ m :: post)) ∧
      (tjm1Out (J.filter (· ≠ m)) true true n)[j]? = some (some (pre ++ Lot :: post)) ∧
      SJ m ∉ pre ∧ SJ m ∉ post ∧ pre.count U = m ∧ post.count U = j - m) := by
  rw [tjm1Out_samp J n hn, tjm1Out_samp _ n hn]
  simp only [List.getElem?_map, List.getElem?_range hj, Option.map_some]
  constructor
  · intro hlt
    congr 2
    exact (lieW_congr _ _ j (fun k hk => noiseOp_filter J m k (by omega))).symm
  · intro hle
    obtain ⟨pre, post, h1, h2, h3, h4⟩ := lieW_split (noiseOp J) (noiseOp_ne_U J) m hm j hle
    refine ⟨pre, post, ?_, ?_, ?_, ?_, h1, h2⟩
    · have := h4 (noiseOp J) (fun _ _ => rfl)
      have hs : noiseOp J m = SJ m := by simp [noiseOp, hJ]
      rw [hs] at this
      exact congrArg (fun x => some (some x)) this
    · have := h4 (noiseOp (J.filter (· ≠ m))) (fun k hk => noiseOp_filter J m k hk)
      rw [noiseOp_filter_self] at this
      exact congrArg (fun x => some (some x)) this
    · intro hmem; exact plain_ne_SJ J m _ (h3 _ (List.mem_append.mpr (Or.inl hmem))) rfl
    · intro hmem; exact plain_ne_SJ J m _ (h3 _ (List.mem_append.mpr (Or.inr hmem))) rfl

/-- **C14.1 (sampling off)**  With `sample_timesteps=False` both orders return the single column of the final time
    `t_{n-1}`; a jump at `1 ≤ m ≤ n-1` occurs in it exactly once, after `m` unitary steps. -/
theorem sjump_once_nosample (J : List Nat) (n m : Nat) (hn : 2 ≤ n) (hm : 1 ≤ m) (hmn : m ≤ n - 1) (hJ : m ∈ J) :
    (∃ pre post, tjm2Out J false n = [some (pre ++ SJ m :: post)] ∧
      SJ m ∉ pre ∧ SJ m ∉ post ∧ pre.count U = m ∧ post.count U = n - 1 - m) ∧
    (∃ pre post, tjm1Out J false true n = [some (pre ++ SJ m :: post)] ∧
      SJ m ∉ pre ∧ SJ m ∉ post ∧ pre.count U = m ∧ post.count U = n - 1 - m) := by
  have hs : noiseOp J m = SJ m := by simp [noiseOp, hJ]
  constructor
  · rw [tjm2Out_nosamp J n hn]
    obtain ⟨pre, post, h1, h2, h3, h4⟩ := strangW_split (noiseOp J) (noiseOp_ne_U J) m (n - 1) (by omega) hmn
    refine ⟨pre, post, ?_, ?_, ?_, h1, h2⟩
    · have := h4 (noiseOp J) (fun _ _ => rfl)
      rw [hs] at this
      simp [strang, this]
    · intro hmem; exact plain_ne_SJ J m _ (h3 _ (List.mem_append.mpr (Or.inl hmem))) rfl
    · intro hmem; exact plain_ne_SJ J m _ (h3 _ (List.mem_append.mpr (Or.inr hmem))) rfl
  · rw [tjm1Out_nosamp J n hn]
    obtain ⟨pre, post, h1, h2, h3, h4⟩ := lieW_split (noiseOp J) (noiseOp_ne_U J) m hm (n - 1) hmn
    refine ⟨pre, post, ?_, ?_, ?_, h1, h2⟩
    · have := h4 (noiseOp J) (fun _ _ => rfl)
      rw [hs] at this
      simp [lie, this]
    · intro hmem; exact plain_ne_SJ J m _ (h3 _ (List.mem_append.mpr (Or.inl hmem))) rfl
    · intro hmem; exact plain_ne_SJ J m _ (h3 _ (List.mem_append.mpr (Or.inr hmem))) rfl

/-- non-vacuity / concrete reading: three jumps, two of them at the same grid index, `n = 5`, order 2.  Column 1 is
    untouched by the jump at 2, columns 2, 3, 4 contain `SJ 2` once. -/
example : tjm2Out [2, 4, 2] true 5 =
    [some [],
     some [D half, Lot, U, D half, Lot],
     some [D half, Lot, U, D full, Lot, U, D half, SJ 2],
     some [D half, Lot, U, D full, Lot, U, D full, SJ 2, U, D half, Lot],
     some [D half, Lot, U, D full, Lot, U, D full, SJ 2, U, D full, Lot, U, D half, SJ 4]] := by
  decide +kernel

example : tjm1Out [2, 4, 2] true true 4 =
    [some [], some [U, D full, Lot], some [U, D full, Lot, U, D full, SJ 2],
     some [U, D full, Lot, U, D full, SJ 2, U, D full, Lot]] := by
  decide +kernel

/-- **C14.1, why `m ≥ 1`**  A jump scheduled at `t_0` is outside the property (`k ≥ 1`) and the two orders indeed
    treat it differently: order 1 never looks at `times[0]`, order 2 applies it inside `initialize`, after column 0
    was written. -/
theorem sjump_at_zero_differs :
    tjm1Out [0] true true 3 = [some [], some [U, D full, Lot], some [U, D full, Lot, U, D full, Lot]] ∧
    tjm2Out [0] true 3 = [some [], some [D half, SJ 0, U, D half, Lot],
                          some [D half, SJ 0, U, D full, Lot, U, D half, Lot]] := by
  decide +kernel

/-- **C14 (code as found, D9)**  Before the repair `step_through` was given `times[j]`:
    a jump at `t_1` is visible in column 1 and gone from column 2 on; a jump at `t_2` is applied twice in column 2
    and enters the propagated state after one unitary step instead of two. -/
theorem tjm2_sjump_old_counterexample :
    tjm2OutOld [1] true 4 =
      [some [],
       some [D half, Lot, U, D half, SJ 1],
       some [D half, Lot, U, D full, Lot, U, D half, Lot],
       some [D half, Lot, U, D full, Lot, U, D full, Lot, U, D half, Lot]] ∧
    tjm2OutOld [2] true 4 =
      [some [],
       some [D half, Lot, U, D half, Lot],
       some [D half, Lot, U, D full, SJ 2, U, D half, SJ 2],
       some [D half, Lot, U, D full, SJ 2, U, D full, Lot, U, D half, Lot]] := by
  decide +kernel

end Yaqs.Pipeline

namespace Yaqs.SJump

/-- **C14.2**  On the grid `t_k = k·dt` the matching rule `|t_m - t_k| ≤ dt·10⁻³` selects `k = m` and nothing else —
    for every step `dt > 0` and all `k`, `m`, however large. -/
theorem match_unique (dt : Rat) (hdt : 0 < dt) (m k : Nat) :
    jmatch (gridTime dt m) (gridTime dt k) dt = true ↔ k = m := by
  rw [jmatch_iff]
  constructor
  · intro ⟨h1, h2⟩
    rcases Nat.lt_trichotomy k m with h | h | h
    · have := grid_gap dt hdt m k h; linarith
    · exact h
    · have := grid_gap dt hdt k m h; linarith
  · rintro rfl
    constructor <;> linarith

/-- **C14.2 (floating-point grid)**  The same when the jump time and the grid time are only *close* to the exact grid:
    both within `dt/2000` of it (the binary64 grid of C15 is within `k·dt·2⁻⁵⁰`).  The jump is found at its own index,
    and at no other. -/
theorem match_unique_perturbed (dt tj t : Rat) (hdt : 0 < dt) (m k : Nat)
    (hj : absQ (tj - gridTime dt m) ≤ dt / 2000) (ht : absQ (t - gridTime dt k) ≤ dt / 2000) :
    jmatch tj t dt = true ↔ k = m := by
  rw [jmatch_iff]
  rw [absQ_le_iff] at hj ht
  constructor
  · intro ⟨h1, h2⟩
    rcases Nat.lt_trichotomy k m with h | h | h
    · have := grid_gap dt hdt m k h; linarith [hj.1, hj.2, ht.1, ht.2]
    · exact h
    · have := grid_gap dt hdt k m h; linarith [hj.1, hj.2, ht.1, ht.2]
  · rintro rfl
    constructor <;> linarith [hj.1, hj.2, ht.1, ht.2]

/-- **C14.2 (binary64 grid, end to end)**  On the grid the code actually builds — `timesQ T dt`, the exact-binary64
    model of `AnalogSimParams.times` (C15), with `elapsed_time = k·dt·(1+δ₀)`, `|δ₀| ≤ 2⁻⁵²`, `1 ≤ k < 2⁴⁰` — a jump whose
    time is within `dt/2000` of `m·dt` (the grid's own `times[m]`, the product `m*dt`, a decimal literal of it) is
    matched at grid point `m` and at no other grid point. -/
theorem match_on_float_grid (T dt tj : Rat) (k m i : Nat) (hdt : 0 < dt) (hk1 : 1 ≤ k) (hk : k < 2 ^ 40)
    (hT : Grid.Rounds (1 / 2 ^ 52) T ((k : Rat) * dt)) (hi : i ≤ k)
    (hj : absQ (tj - gridTime dt m) ≤ dt / 2000) :
    jmatch tj (Grid.pointQ k dt i) dt = true ↔ i = m := by
  have hp := (Grid.grid_exec_aux T dt k hdt hk1 hk hT).2.2.1 i hi
  apply match_unique_perturbed dt tj _ hdt m i hj
  have hi' : (i : Rat) ≤ 2 ^ 40 := by
    have : i < 2 ^ 40 := by omega
    exact_mod_cast Nat.le_of_lt this
  have hb : (i : Rat) * dt / 2 ^ 51 ≤ dt / 2000 := by
    have : (i : Rat) * dt ≤ 2 ^ 40 * dt := mul_le_mul_of_nonneg_right hi' (le_of_lt hdt)
    have h2 : (2 : Rat) ^ 40 * dt / 2 ^ 51 ≤ dt / 2000 := by
      have : (2 : Rat) ^ 40 * dt / 2 ^ 51 = dt / 2048 := by ring
      rw [this]
      apply div_le_div_of_nonneg_left (le_of_lt hdt) (by norm_num) (by norm_num)
    have h3 : (i : Rat) * dt / 2 ^ 51 ≤ 2 ^ 40 * dt / 2 ^ 51 := div_le_div_of_nonneg_right this (by norm_num)
    linarith
  exact le_trans hp hb

/-- the grid's own point `times[m]` is such a jump time -/
theorem grid_point_is_valid_jump_time (T dt : Rat) (k m : Nat) (hdt : 0 < dt) (hk1 : 1 ≤ k) (hk : k < 2 ^ 40)
    (hT : Grid.Rounds (1 / 2 ^ 52) T ((k : Rat) * dt)) (hm : m ≤ k) :
    absQ (Grid.pointQ k dt m - gridTime dt m) ≤ dt / 2000 := by
  have hp := (Grid.grid_exec_aux T dt k hdt hk1 hk hT).2.2.1 m hm
  have hm' : (m : Rat) ≤ 2 ^ 40 := by
    have : m < 2 ^ 40 := by omega
    exact_mod_cast Nat.le_of_lt this
  have : (m : Rat) * dt ≤ 2 ^ 40 * dt := mul_le_mul_of_nonneg_right hm' (le_of_lt hdt)
  have h2 : (2 : Rat) ^ 40 * dt / 2 ^ 51 ≤ dt / 2000 := by
    have : (2 : Rat) ^ 40 * dt / 2 ^ 51 = dt / 2048 := by ring
    rw [this]
    apply div_le_div_of_nonneg_left (le_of_lt hdt) (by norm_num) (by norm_num)
  have h3 : (m : Rat) * dt / 2 ^ 51 ≤ 2 ^ 40 * dt / 2 ^ 51 := div_le_div_of_nonneg_right this (by norm_num)
  exact le_trans hp (by linarith)

/-- **C14.2 (index set)**  For jumps scheduled at grid times `t_m, m ∈ ms` (repetitions allowed),
    `has_scheduled_jump` at `t_k` is exactly `k ∈ ms` — this is the list `J` of the pipeline theorems. -/
theorem hasJump_grid (dt : Rat) (hdt : 0 < dt) (ms : List Nat) (k : Nat) :
    hasJump (ms.map (gridTime dt)) (gridTime dt k) dt = decide (k ∈ ms) := by
  unfold hasJump
  rw [Bool.eq_iff_iff]
  simp only [List.any_map, List.any_eq_true, Function.comp, decide_eq_true_iff]
  constructor
  · rintro ⟨m, hm, h⟩
    rw [match_unique dt hdt] at h
    exact h ▸ hm
  · intro h
    exact ⟨k, h, (match_unique dt hdt k k).mpr rfl⟩

/-- **C14.2 (equal times)**  `apply_scheduled_jumps` at `t_k` applies exactly the list positions scheduled for index
    `k`, each once, in list order. -/
theorem applied_grid (dt : Rat) (hdt : 0 < dt) (ms : List Nat) (k : Nat) :
    applied (ms.map (gridTime dt)) (gridTime dt k) dt
      = (List.range ms.length).filter (fun i => ms[i]? == some k) := by
  unfold applied
  rw [List.length_map]
  apply List.filter_congr
  intro i hi
  have hi' : i < ms.length := List.mem_range.mp hi
  simp only [List.getElem?_map, List.getElem?_eq_getElem hi', Option.map_some]
  rw [Bool.eq_iff_iff, match_unique dt hdt]
  simp only [beq_iff_eq, Option.some.injEq]
  exact eq_comm

example : applied [(2 : Rat) / 10, 5 / 10, 2 / 10] (2 / 10) (1 / 10) = [0, 2] := by decide +kernel

/-- **C14.2 (code as found, D17)**  With numpy's default `rtol = 10⁻⁵` the rule was unique only below about
    `10⁵` steps … -/
theorem matchOld_unique_small (dt : Rat) (hdt : 0 < dt) (m k : Nat) (hk : k < 99900) :
    jmatchOld (gridTime dt m) (gridTime dt k) dt = true ↔ k = m := by
  rw [jmatchOld_iff]
  have habs : absQ (gridTime dt k) = (k : Rat) * dt := by
    unfold absQ gridTime
    have : ¬ ((k : Rat) * dt < 0) := not_lt.mpr (mul_nonneg (Nat.cast_nonneg k) (le_of_lt hdt))
    rw [if_neg this]
  rw [habs]
  have hk' : (k : Rat) ≤ 99899 := by exact_mod_cast Nat.le_of_lt_succ hk
  have hkd : (k : Rat) * dt ≤ 99899 * dt := mul_le_mul_of_nonneg_right hk' (le_of_lt hdt)
  have hkd0 : 0 ≤ (k : Rat) * dt := mul_nonneg (Nat.cast_nonneg k) (le_of_lt hdt)
  constructor
  · intro ⟨h1, h2⟩
    rcases Nat.lt_trichotomy k m with h | h | h
    · have := grid_gap dt hdt m k h; linarith
    · exact h
    · have := grid_gap dt hdt k m h; linarith
  · rintro rfl
    constructor <;> linarith

/-- … **and failed beyond**: a jump at `t_100000` (`dt = 10⁻³`) also matched both neighbouring grid times, so it was
    applied three times.  The repaired rule matches neither. -/
theorem matchOld_far_counterexample :
    jmatchOld (gridTime (1 / 1000) 100000) (gridTime (1 / 1000) 99999) (1 / 1000) = true ∧
    jmatchOld (gridTime (1 / 1000) 100000) (gridTime (1 / 1000) 100001) (1 / 1000) = true ∧
    jmatch (gridTime (1 / 1000) 100000) (gridTime (1 / 1000) 99999) (1 / 1000) = false ∧
    jmatch (gridTime (1 / 1000) 100000) (gridTime (1 / 1000) 100001) (1 / 1000) = false := by
  decide +kernel

example : jmatch (gridTime (1 / 10) 5) (gridTime (1 / 10) 5) (1 / 10) = true := by decide +kernel

/-- **C14.2 (firing indices)**  on the grid `t_0 … t_{n-1}` the indices at which `has_scheduled_jump` is true — the list the
    pipeline tie feeds into the trace model — are exactly the scheduled indices below `n`, in increasing order -/
theorem firing_grid (dt : Rat) (hdt : 0 < dt) (ms : List Nat) (n : Nat) :
    firing (ms.map (gridTime dt)) ((List.range n).map (gridTime dt)) dt = (List.range n).filter (fun k => decide (k ∈ ms)) := by
  unfold firing
  rw [List.length_map, List.length_range]
  apply List.filter_congr
  intro k hk
  have hk' : k < n := List.mem_range.mp hk
  have : ((List.range n).map (gridTime dt))[k]? = some (gridTime dt k) := by
    simp [hk']
  rw [this]
  exact hasJump_grid dt hdt ms k

example : firing ([2, 2, 0].map (gridTime (1/10))) ((List.range 4).map (gridTime (1/10))) (1/10) = [0, 2] := by
  decide +kernel

end Yaqs.SJump
