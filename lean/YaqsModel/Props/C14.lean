import YaqsModel.Lemmas.PipelineJump
import YaqsModel.Lemmas.SJump
import YaqsModel.Lemmas.GridFl
import YaqsModel.Lemmas.LocalOp
import YaqsModel.Lemmas.LocalOpLinks

/-!
# C14 — a scheduled jump acts exactly once, at its scheduled time

Property theorems only (helper lemmas: `Lemmas/Pipeline.lean`, `Lemmas/PipelineJump.lean`, `Lemmas/SJump.lean`).

Reading.  `tjm2Out J samp n` / `tjm1Out J samp noise n` are the arrays `analog_tjm_2` / `analog_tjm_1` return for a
grid of `n` points when `has_scheduled_jump` fires at the grid indices in `J` (any list: several jumps, repeated
indices = several jumps at the same time).  Entry `j` is the list of operations that were applied, in order, to the
state whose expectation values are stored in column `j`.  `SJ m` is `apply_scheduled_jumps(…, times[m], …)`, which
applies every operator scheduled for that time (in list order) and renormalises; `Lot` is the random-jump lottery that
runs instead when nothing is scheduled.  "Values before `t_m` equal the run without the jump" is equality of the
histories of the columns `j < m`; "from `t_m` on the operator was applied once at that time and the evolution
continued" is: the history of column `j ≥ m` is the history of the run without the jump, with the lottery of grid
index `m` — which sits after exactly `m` unitary steps and before the remaining `j - m` — replaced by the operator.

The second half ties grid indices to times: on the grid `t_k = k·dt` the matching rule of `has_scheduled_jump`
selects `k = m` and nothing else, for every `k` and `m` (no bound — the repaired rule has `rtol = 0`).
-/
namespace Yaqs.Pipeline
open Frac Op

/-- **C14.1 (order 2)**  For every grid length `n ≥ 2`, every jump list `J` containing `m ≥ 1`, every column `j < n`
    of the second-order pipeline with sampling on:
    * `j < m`: the column is the same as in the run without the jump at `m`;
    * `m ≤ j`: the column's history is `pre ++ SJ m :: post`, the run without that jump has `pre ++ Lot :: post`
      with the *same* `pre`, `post`; `SJ m` occurs nowhere else; `pre` contains exactly `m` unitary steps and
      `post` exactly `j - m`. -/
theorem sjump_once_order2 (J : List Nat) (n j m : Nat) (hn : 2 ≤ n) (hj : j < n) (hm : 1 ≤ m) (hJ : m ∈ J) :
    (j < m → (tjm2Out J true n)[j]? = (tjm2Out (J.filter (· ≠ m)) true n)[j]?) ∧
    (m ≤ j → ∃ pre post,
      (tjm2Out J true n)[j]? = some (some (pre ++ SJ m :: post)) ∧
      (tjm2Out (J.filter (· ≠ m)) true n)[j]? = some (some (pre ++ Lot :: post)) ∧
      SJ m ∉ pre ∧ SJ m ∉ post ∧ pre.count U = m ∧ post.count U = j - m) := by
  rw [tjm2Out_samp J n hn, tjm2Out_samp _ n hn]
  simp only [List.getElem?_map, List.getElem?_range hj, Option.map_some]
  constructor
  · intro hlt
    congr 2
    exact (strangW_congr _ _ j (fun k hk => noiseOp_filter J m k (by omega))).symm
  · intro hle
    obtain ⟨pre, post, h1, h2, h3, h4⟩ := strangW_split (noiseOp J) (noiseOp_ne_U J) m j (by omega) hle
    refine ⟨pre, post, ?_, ?_, ?_, ?_, h1, h2⟩
    · have := h4 (noiseOp J) (fun _ _ => rfl)
      have hs : noiseOp J m = SJ m := by simp [noiseOp, hJ]
      rw [hs] at this
      exact congrArg (fun x => some (some x)) this
    · have := h4 (noiseOp (J.filter (· ≠ m))) (fun k hk => noiseOp_filter J m k hk)
      rw [noiseOp_filter_self] at this
      exact congrArg (fun x => some (some x)) this
    · intro hmem; exact plain_ne_SJ J m _ (h3 _ (List.mem_append.mpr (Or.inl hmem))) rfl
    · intro hmem; exact plain_ne_SJ J m _ (h3 _ (List.mem_append.mpr (Or.inr hmem))) rfl

/-- **C14.1 (order 1)**  The same statement for the first-order pipeline (with a noise model present). -/
theorem sjump_once_order1 (J : List Nat) (n j m : Nat) (hn : 1 ≤ n) (hj : j < n) (hm : 1 ≤ m) (hJ : m ∈ J) :
    (j < m → (tjm1Out J true true n)[j]? = (tjm1Out (J.filter (· ≠ m)) true true n)[j]?) ∧
    (m ≤ j → ∃ pre post,
      (tjm1Out J true true n)[j]? = some (some (pre ++ SJ m :: post)) ∧
      (tjm1Out (J.filter (· ≠ m)) true true n)[j]? = some (some (pre ++ Lot :: post)) ∧
      SJ m ∉ pre ∧ SJ m ∉ post ∧ pre.count U = m ∧ post.count U = j - m) := by
  rw [tjm1Out_samp J n hn, tjm1Out_samp _ n hn]
  simp only [List.getElem?_map, List.getElem?_range hj, Option.map_some]
  constructor
  · intro hlt
    congr 2
    exact (lieW_congr _ _ j (fun k hk => noiseOp_filter J m k (by omega))).symm
  · intro hle
    obtain ⟨pre, post, h1, h2, h3, h4⟩ := lieW_split (noiseOp J) (noiseOp_ne_U J) m hm j hle
    refine ⟨pre, post, ?_, ?_, ?_, ?_, h1, h2⟩
    · have := h4 (noiseOp J) (fun _ _ => rfl)
      have hs : noiseOp J m = SJ m := by simp [noiseOp, hJ]
      rw [hs] at this
      exact congrArg (fun x => some (some x)) this
    · have := h4 (noiseOp (J.filter (· ≠ m))) (fun k hk => noiseOp_filter J m k hk)
      rw [noiseOp_filter_self] at this
      exact congrArg (fun x => some (some x)) this
    · intro hmem; exact plain_ne_SJ J m _ (h3 _ (List.mem_append.mpr (Or.inl hmem))) rfl
    · intro hmem; exact plain_ne_SJ J m _ (h3 _ (List.mem_append.mpr (Or.inr hmem))) rfl

/-- **C14.1 (sampling off)**  With `sample_timesteps=False` both orders return the single column of the final time
    `t_{n-1}`; a jump at `1 ≤ m ≤ n-1` occurs in it exactly once, after `m` unitary steps. -/
theorem sjump_once_nosample (J : List Nat) (n m : Nat) (hn : 2 ≤ n) (hm : 1 ≤ m) (hmn : m ≤ n - 1) (hJ : m ∈ J) :
    (∃ pre post, tjm2Out J false n = [some (pre ++ SJ m :: post)] ∧
      SJ m ∉ pre ∧ SJ m ∉ post ∧ pre.count U = m ∧ post.count U = n - 1 - m) ∧
    (∃ pre post, tjm1Out J false true n = [some (pre ++ SJ m :: post)] ∧
      SJ m ∉ pre ∧ SJ m ∉ post ∧ pre.count U = m ∧ post.count U = n - 1 - m) := by
  have hs : noiseOp J m = SJ m := by simp [noiseOp, hJ]
  constructor
  · rw [tjm2Out_nosamp J n hn]
    obtain ⟨pre, post, h1, h2, h3, h4⟩ := strangW_split (noiseOp J) (noiseOp_ne_U J) m (n - 1) (by omega) hmn
    refine ⟨pre, post, ?_, ?_, ?_, h1, h2⟩
    · have := h4 (noiseOp J) (fun _ _ => rfl)
      rw [hs] at this
      simp [strang, this]
    · intro hmem; exact plain_ne_SJ J m _ (h3 _ (List.mem_append.mpr (Or.inl hmem))) rfl
    · intro hmem; exact plain_ne_SJ J m _ (h3 _ (List.mem_append.mpr (Or.inr hmem))) rfl
  · rw [tjm1Out_nosamp J n hn]
    obtain ⟨pre, post, h1, h2, h3, h4⟩ := lieW_split (noiseOp J) (noiseOp_ne_U J) m hm (n - 1) hmn
    refine ⟨pre, post, ?_, ?_, ?_, h1, h2⟩
    · have := h4 (noiseOp J) (fun _ _ => rfl)
      rw [hs] at this
      simp [lie, this]
    · intro hmem; exact plain_ne_SJ J m _ (h3 _ (List.mem_append.mpr (Or.inl hmem))) rfl
    · intro hmem; exact plain_ne_SJ J m _ (h3 _ (List.mem_append.mpr (Or.inr hmem))) rfl

/-- non-vacuity / concrete reading: three jumps, two of them at the same grid index, `n = 5`, order 2.  Column 1 is
    untouched by the jump at 2, columns 2, 3, 4 contain `SJ 2` once. -/
example : tjm2Out [2, 4, 2] true 5 =
    [some [],
     some [D half, Lot, U, D half, Lot],
     some [D half, Lot, U, D full, Lot, U, D half, SJ 2],
     some [D half, Lot, U, D full, Lot, U, D full, SJ 2, U, D half, Lot],
     some [D half, Lot, U, D full, Lot, U, D full, SJ 2, U, D full, Lot, U, D half, SJ 4]] := by
  decide +kernel

example : tjm1Out [2, 4, 2] true true 4 =
    [some [], some [U, D full, Lot], some [U, D full, Lot, U, D full, SJ 2],
     some [U, D full, Lot, U, D full, SJ 2, U, D full, Lot]] := by
  decide +kernel

/-- **C14.1, why `m ≥ 1`**  A jump scheduled at `t_0` is outside the property (`k ≥ 1`) and the two orders indeed
    treat it differently: order 1 never looks at `times[0]`, order 2 applies it inside `initialize`, after column 0
    was written. -/
theorem sjump_at_zero_differs :
    tjm1Out [0] true true 3 = [some [], some [U, D full, Lot], some [U, D full, Lot, U, D full, Lot]] ∧
    tjm2Out [0] true 3 = [some [], some [D half, SJ 0, U, D half, Lot],
                          some [D half, SJ 0, U, D full, Lot, U, D half, Lot]] := by
  decide +kernel

/-- **C14 (code as found, D9)**  Before the repair `step_through` was given `times[j]`:
    a jump at `t_1` is visible in column 1 and gone from column 2 on; a jump at `t_2` is applied twice in column 2
    and enters the propagated state after one unitary step instead of two. -/
theorem tjm2_sjump_old_counterexample :
    tjm2OutOld [1] true 4 =
      [some [],
       some [D half, Lot, U, D half, SJ 1],
       some [D half, Lot, U, D full, Lot, U, D half, Lot],
       some [D half, Lot, U, D full, Lot, U, D full, Lot, U, D half, Lot]] ∧
    tjm2OutOld [2] true 4 =
      [some [],
       some [D half, Lot, U, D half, Lot],
       some [D half, Lot, U, D full, SJ 2, U, D half, SJ 2],
       some [D half, Lot, U, D full, SJ 2, U, D full, Lot, U, D half, Lot]] := by
  decide +kernel

end Yaqs.Pipeline

namespace Yaqs.SJump

/-- **C14.2**  On the grid `t_k = k·dt` the matching rule `|t_m - t_k| ≤ dt·10⁻³` selects `k = m` and nothing else —
    for every step `dt > 0` and all `k`, `m`, however large. -/
theorem match_unique (dt : Rat) (hdt : 0 < dt) (m k : Nat) :
    jmatch (gridTime dt m) (gridTime dt k) dt = true ↔ k = m := by
  rw [jmatch_iff]
  constructor
  · intro ⟨h1, h2⟩
    rcases Nat.lt_trichotomy k m with h | h | h
    · have := grid_gap dt hdt m k h; linarith
    · exact h
    · have := grid_gap dt hdt k m h; linarith
  · rintro rfl
    constructor <;> linarith

/-- **C14.2 (floating-point grid)**  The same when the jump time and the grid time are only *close* to the exact grid:
    both within `dt/2000` of it (the binary64 grid of C15 is within `k·dt·2⁻⁵⁰`).  The jump is found at its own index,
    and at no other. -/
theorem match_unique_perturbed (dt tj t : Rat) (hdt : 0 < dt) (m k : Nat)
    (hj : absQ (tj - gridTime dt m) ≤ dt / 2000) (ht : absQ (t - gridTime dt k) ≤ dt / 2000) :
    jmatch tj t dt = true ↔ k = m := by
  rw [jmatch_iff]
  rw [absQ_le_iff] at hj ht
  constructor
  · intro ⟨h1, h2⟩
    rcases Nat.lt_trichotomy k m with h | h | h
    · have := grid_gap dt hdt m k h; linarith [hj.1, hj.2, ht.1, ht.2]
    · exact h
    · have := grid_gap dt hdt k m h; linarith [hj.1, hj.2, ht.1, ht.2]
  · rintro rfl
    constructor <;> linarith [hj.1, hj.2, ht.1, ht.2]

/-- **C14.2 (binary64 grid, end to end)**  On the grid the code actually builds — `timesQ T dt`, the exact-binary64
    model of `AnalogSimParams.times` (C15), with `elapsed_time = k·dt·(1+δ₀)`, `|δ₀| ≤ 2⁻⁵²`, `1 ≤ k < 2⁴⁰` — a jump whose
    time is within `dt/2000` of `m·dt` (the grid's own `times[m]`, the product `m*dt`, a decimal literal of it) is
    matched at grid point `m` and at no other grid point. -/
theorem match_on_float_grid (T dt tj : Rat) (k m i : Nat) (hdt : 0 < dt) (hk1 : 1 ≤ k) (hk : k < 2 ^ 40)
    (hT : Grid.Rounds (1 / 2 ^ 52) T ((k : Rat) * dt)) (hi : i ≤ k)
    (hj : absQ (tj - gridTime dt m) ≤ dt / 2000) :
    jmatch tj (Grid.pointQ k dt i) dt = true ↔ i = m := by
  have hp := (Grid.grid_exec_aux T dt k hdt hk1 hk hT).2.2.1 i hi
  apply match_unique_perturbed dt tj _ hdt m i hj
  have hi' : (i : Rat) ≤ 2 ^ 40 := by
    have : i < 2 ^ 40 := by omega
    exact_mod_cast Nat.le_of_lt this
  have hb : (i : Rat) * dt / 2 ^ 51 ≤ dt / 2000 := by
    have : (i : Rat) * dt ≤ 2 ^ 40 * dt := mul_le_mul_of_nonneg_right hi' (le_of_lt hdt)
    have h2 : (2 : Rat) ^ 40 * dt / 2 ^ 51 ≤ dt / 2000 := by
      have : (2 : Rat) ^ 40 * dt / 2 ^ 51 = dt / 2048 := by ring
      rw [this]
      apply div_le_div_of_nonneg_left (le_of_lt hdt) (by norm_num) (by norm_num)
    have h3 : (i : Rat) * dt / 2 ^ 51 ≤ 2 ^ 40 * dt / 2 ^ 51 := div_le_div_of_nonneg_right this (by norm_num)
    linarith
  exact le_trans hp hb

/-- the grid's own point `times[m]` is such a jump time -/
theorem grid_point_is_valid_jump_time (T dt : Rat) (k m : Nat) (hdt : 0 < dt) (hk1 : 1 ≤ k) (hk : k < 2 ^ 40)
    (hT : Grid.Rounds (1 / 2 ^ 52) T ((k : Rat) * dt)) (hm : m ≤ k) :
    absQ (Grid.pointQ k dt m - gridTime dt m) ≤ dt / 2000 := by
  have hp := (Grid.grid_exec_aux T dt k hdt hk1 hk hT).2.2.1 m hm
  have hm' : (m : Rat) ≤ 2 ^ 40 := by
    have : m < 2 ^ 40 := by omega
    exact_mod_cast Nat.le_of_lt this
  have : (m : Rat) * dt ≤ 2 ^ 40 * dt := mul_le_mul_of_nonneg_right hm' (le_of_lt hdt)
  have h2 : (2 : Rat) ^ 40 * dt / 2 ^ 51 ≤ dt / 2000 := by
    have : (2 : Rat) ^ 40 * dt / 2 ^ 51 = dt / 2048 := by ring
    rw [this]
    apply div_le_div_of_nonneg_left (le_of_lt hdt) (by norm_num) (by norm_num)
  have h3 : (m : Rat) * dt / 2 ^ 51 ≤ 2 ^ 40 * dt / 2 ^ 51 := div_le_div_of_nonneg_right this (by norm_num)
  exact le_trans hp (by linarith)

/-- **C14.2 (index set)**  For jumps scheduled at grid times `t_m, m ∈ ms` (repetitions allowed),
    `has_scheduled_jump` at `t_k` is exactly `k ∈ ms` — this is the list `J` of the pipeline theorems. -/
theorem hasJump_grid (dt : Rat) (hdt : 0 < dt) (ms : List Nat) (k : Nat) :
    hasJump (ms.map (gridTime dt)) (gridTime dt k) dt = decide (k ∈ ms) := by
  unfold hasJump
  rw [Bool.eq_iff_iff]
  simp only [List.any_map, List.any_eq_true, Function.comp, decide_eq_true_iff]
  constructor
  · rintro ⟨m, hm, h⟩
    rw [match_unique dt hdt] at h
    exact h ▸ hm
  · intro h
    exact ⟨k, h, (match_unique dt hdt k k).mpr rfl⟩

/-- **C14.2 (equal times)**  `apply_scheduled_jumps` at `t_k` applies exactly the list positions scheduled for index
    `k`, each once, in list order. -/
theorem applied_grid (dt : Rat) (hdt : 0 < dt) (ms : List Nat) (k : Nat) :
    applied (ms.map (gridTime dt)) (gridTime dt k) dt
      = (List.range ms.length).filter (fun i => ms[i]? == some k) := by
  unfold applied
  rw [List.length_map]
  apply List.filter_congr
  intro i hi
  have hi' : i < ms.length := List.mem_range.mp hi
  simp only [List.getElem?_map, List.getElem?_eq_getElem hi', Option.map_some]
  rw [Bool.eq_iff_iff, match_unique dt hdt]
  simp only [beq_iff_eq, Option.some.injEq]
  exact eq_comm

example : applied [(2 : Rat) / 10, 5 / 10, 2 / 10] (2 / 10) (1 / 10) = [0, 2] := by decide +kernel

/-- **C14.2 (code as found, D17)**  With numpy's default `rtol = 10⁻⁵` the rule was unique only below about
    `10⁵` steps … -/
theorem matchOld_unique_small (dt : Rat) (hdt : 0 < dt) (m k : Nat) (hk : k < 99900) :
    jmatchOld (gridTime dt m) (gridTime dt k) dt = true ↔ k = m := by
  rw [jmatchOld_iff]
  have habs : absQ (gridTime dt k) = (k : Rat) * dt := by
    unfold absQ gridTime
    have : ¬ ((k : Rat) * dt < 0) := not_lt.mpr (mul_nonneg (Nat.cast_nonneg k) (le_of_lt hdt))
    rw [if_neg this]
  rw [habs]
  have hk' : (k : Rat) ≤ 99899 := by exact_mod_cast Nat.le_of_lt_succ hk
  have hkd : (k : Rat) * dt ≤ 99899 * dt := mul_le_mul_of_nonneg_right hk' (le_of_lt hdt)
  have hkd0 : 0 ≤ (k : Rat) * dt := mul_nonneg (Nat.cast_nonneg k) (le_of_lt hdt)
  constructor
  · intro ⟨h1, h2⟩
    rcases Nat.lt_trichotomy k m with h | h | h
    · have := grid_gap dt hdt m k h; linarith
    · exact h
    · have := grid_gap dt hdt k m h; linarith
  · rintro rfl
    constructor <;> linarith

/-- … **and failed beyond**: a jump at `t_100000` (`dt = 10⁻³`) also matched both neighbouring grid times, so it was
    applied three times.  The repaired rule matches neither. -/
theorem matchOld_far_counterexample :
    jmatchOld (gridTime (1 / 1000) 100000) (gridTime (1 / 1000) 99999) (1 / 1000) = true ∧
    jmatchOld (gridTime (1 / 1000) 100000) (gridTime (1 / 1000) 100001) (1 / 1000) = true ∧
    jmatch (gridTime (1 / 1000) 100000) (gridTime (1 / 1000) 99999) (1 / 1000) = false ∧
    jmatch (gridTime (1 / 1000) 100000) (gridTime (1 / 1000) 100001) (1 / 1000) = false := by
  decide +kernel

example : jmatch (gridTime (1 / 10) 5) (gridTime (1 / 10) 5) (1 / 10) = true := by decide +kernel

/-- **C14.2 (firing indices)**  on the grid `t_0 … t_{n-1}` the indices at which `has_scheduled_jump` is true — the list the
    pipeline tie feeds into the trace model — are exactly the scheduled indices below `n`, in increasing order -/
theorem firing_grid (dt : Rat) (hdt : 0 < dt) (ms : List Nat) (n : Nat) :
    firing (ms.map (gridTime dt)) ((List.range n).map (gridTime dt)) dt = (List.range n).filter (fun k => decide (k ∈ ms)) := by
  unfold firing
  rw [List.length_map, List.length_range]
  apply List.filter_congr
  intro k hk
  have hk' : k < n := List.mem_range.mp hk
  have : ((List.range n).map (gridTime dt))[k]? = some (gridTime dt k) := by
    simp [hk']
  rw [this]
  exact hasJump_grid dt hdt ms k

example : firing ([2, 2, 0].map (gridTime (1/10))) ((List.range 4).map (gridTime (1/10))) (1/10) = [0, 2] := by
  decide +kernel

end Yaqs.SJump

/-!
# C14 extension — "applying the operator once at that time, renormalising": the contraction IS the dense operator

The theorems above decide WHEN `apply_scheduled_jumps` runs (`SJ m` in the history of a column, once, after `m` steps).  What
`SJ m` does to the state — and what the jump branch of C01/C03's lottery, a gate of C02's schedule and a dissipation factor
of C03 do — is a tensor contraction on one site (`oe.contract("ab, bcd->acd", X, T[i])`), on two merged adjacent sites
(`merge_mps_tensors`, the same contraction, `split_mps_tensor`) or on two far sites (two one-site contractions), followed by
`normalize("B")`.  This part proves that these contractions are the dense operator `1 ⊗ … ⊗ X ⊗ … ⊗ 1` applied to the dense
vector, with the index conventions read off the code, for every chain length, site, bond dimension and physical dimension.

Setting (that of C10): a site tensor is `σ → Matrix ι ι K`, the amplitude of a configuration is an entry of `chain ts cfg`;
`Psi n ts c = chain ts (List.ofFn c)` is the dense vector indexed by configurations `c : Fin n → σ`, `act E V` a dense operator
acting on it.  The embedded operator is `Yaqs.Embed.embedL (siteLens p) X` — entry `X[c_p, c'_p]` if `c`, `c'` agree elsewhere,
else `0` — which is literally what C04's `embed1 d n p X` unfolds to and what C06's `embed_site_one` proves `_embed_generic` to
be at Kronecker positions; a configuration `c` sits at position `toVecIdx` (site 0 least significant) of `MPS.to_vec()`
(`apply_one_site_to_vec`, C06 `toVec_is_reversed`).  The executable list model (`Model/LocalOp.lean`: `applyOne`, `mergeKet2`,
`applyTwoMerged`, `splitTheta`), which the correspondence check runs against the real contractions, satisfies the same
identities (`…_exec`).
-/
set_option linter.unusedSectionVars false

namespace Yaqs.LocalOp

open Matrix Yaqs.Mps.Alg Yaqs.Embed

section dense
variable {K : Type*} [CommRing K] {ι σ : Type*} [Fintype ι] [DecidableEq ι] [Fintype σ]

/-- **C14.3a `apply_one_site_dense` (amplitudes)**  For every chain, every site `i = |pre|`, every operator `X` on the physical
    index and every configuration: the amplitude of the chain with `oe.contract("ab, bcd->acd", X, T[i])` in place of `T[i]`
    is `Σ_b X[σ_i, b] · amp(old, σ[i := b])` — the ROW index of `X` is the new physical index. -/
theorem apply_one_site_amplitudes (pre post : List (Site σ ι K)) (A : Site σ ι K) (X : Matrix σ σ K) (cfg : List σ)
    (h : pre.length < cfg.length) :
    chain (pre ++ applySite X A :: post) cfg =
      ∑ b, X cfg[pre.length] b • chain (pre ++ A :: post) (cfg.set pre.length b) :=
  chain_applySite_set pre post A X cfg h

variable [DecidableEq σ]

/-- **C14.3b `apply_one_site_dense`**  … i.e. the new dense vector is `embed_p(X) · old`, with `embed_p(X) = 1 ⊗ … ⊗ X ⊗ … ⊗ 1`
    the operator whose entry between configurations `c`, `c'` is `X[c_p, c'_p]` when they agree off site `p` and `0` otherwise
    (C04 `embed1` / C06 `embed_site_one`).  Second component: entrywise it is an ordinary matrix–vector product. -/
theorem apply_one_site_dense (n : Nat) (pre post : List (Site σ ι K)) (A : Site σ ι K) (X : Matrix σ σ K) (p : Fin n)
    (hp : (p : Nat) = pre.length) :
    Psi n (pre ++ applySite X A :: post) = act (embedL (siteLens p) X) (Psi n (pre ++ A :: post)) ∧
    ∀ a b, psi n (pre ++ applySite X A :: post) a b = embedL (siteLens p) X *ᵥ psi n (pre ++ A :: post) a b := by
  have h := Psi_applySite n pre post A X p hp
  refine ⟨h, fun a b => ?_⟩
  rw [← act_psi]
  funext c
  simp only [psi, h]

/-- **C14.3c (what the embedded operator is)**  its entries: `X[c_p, c'_p]` if `c` and `c'` agree on every other site, else `0` -/
theorem embedded_operator_entries (n : Nat) (p : Fin n) (X : Matrix σ σ K) (c c' : Fin n → σ) :
    embedL (siteLens p) X c c' = if (∀ k, k ≠ p → c k = c' k) then X (c p) (c' p) else 0 := by
  show (if Function.update c p (c' p) = c' then X (c p) (c' p) else 0) = _
  have key : Function.update c p (c' p) = c' ↔ ∀ k, k ≠ p → c k = c' k := by
    constructor
    · intro h k hk
      have := congrFun h k
      rwa [Function.update_of_ne hk] at this
    · intro h
      funext k
      by_cases hk : k = p
      · subst hk; simp
      · rw [Function.update_of_ne hk]; exact h k hk
  by_cases hc : Function.update c p (c' p) = c'
  · rw [if_pos hc, if_pos (key.mp hc)]
  · rw [if_neg hc, if_neg (fun h => hc (key.mpr h))]

/-- **C14.4a `apply_two_site_dense` (amplitudes)**  Two adjacent sites: `mergeSite A B (s, t) = A[s]·B[t]` is
    `merge_mps_tensors` with the LEFT site as the major index.  For ANY pair `(A', B')` whose two-site block is the merged
    tensor with `M` contracted in (what `split_mps_tensor` returns when nothing is truncated, whatever the distribution of the
    singular values) the new amplitudes are `Σ_{b,c} M[(σ_i, σ_{i+1}), (b, c)] · amp(old, σ[i := b, i+1 := c])`. -/
theorem apply_two_site_amplitudes (pre post : List (Site σ ι K)) (A B A' B' : Site σ ι K) (M : Matrix (σ × σ) (σ × σ) K)
    (hsplit : ∀ s t, A' s * B' t = applySite M (mergeSite A B) (s, t)) (c1 c2 : List σ) (s t : σ)
    (h : c1.length = pre.length) :
    chain (pre ++ A' :: B' :: post) (c1 ++ s :: t :: c2)
      = ∑ x : σ × σ, M (s, t) x • chain (pre ++ A :: B :: post) (c1 ++ x.1 :: x.2 :: c2) :=
  chain_applyPair pre post A B A' B' M hsplit c1 c2 s t h

/-- **C14.4b `apply_two_site_dense`**  … i.e. the new dense vector is `embed_{p,p+1}(M) · old`, rows and columns of `M` indexed by
    `(σ_p, σ_{p+1})` (C04 `embed2`; in the flat convention of the code `M[2σ_p + σ_{p+1}, …]`, C06 `embed_site_adjacent`). -/
theorem apply_two_site_dense (n : Nat) (pre post : List (Site σ ι K)) (A B A' B' : Site σ ι K)
    (M : Matrix (σ × σ) (σ × σ) K) (hsplit : ∀ s t, A' s * B' t = applySite M (mergeSite A B) (s, t)) (p q : Fin n)
    (hp : (p : Nat) = pre.length) (hq : (q : Nat) = pre.length + 1) (hpq : p ≠ q) :
    Psi n (pre ++ A' :: B' :: post) = act (embedL (pairLens p q hpq) M) (Psi n (pre ++ A :: B :: post)) :=
  Psi_applyPair n pre post A B A' B' M hsplit p q hp hq hpq

section trunc
open Yaqs.Split
variable [StarRing K] {κ : Type*} [Fintype κ] [DecidableEq κ]

/-- **C14.4c `apply_two_site_dense` (truncating split)**  From the SVD spec of the matrix `split_mps_tensor` decomposes
    (`thetaOf`: rows `(s, l)`, columns `(t, r)`): with nothing discarded the returned pair satisfies the hypothesis `hsplit` of
    C14.4a/b exactly; with a kept set `kept` the two-site block written back differs from `M · merged` by exactly the discarded
    singular weight `Σ_{j dropped} |s_j|²` (squared Frobenius norm) — C09 `c09_split_error` through the reshape. -/
theorem apply_two_site_split (A B : Site σ ι K) (M : Matrix (σ × σ) (σ × σ) K)
    (U : Matrix (σ × ι) κ K) (sv : κ → K) (V : Matrix κ (σ × ι) K)
    (hspec : thetaOf (applySite M (mergeSite A B)) = U * diagonal sv * V) (hU : Uᴴ * U = 1) (hV : V * Vᴴ = 1) :
    (∀ s t, splitLeft U s * splitRight sv V t = applySite M (mergeSite A B) (s, t)) ∧
    ∀ (kept : κ → Prop) [DecidablePred kept],
      frobSq (thetaOf (applySite M (mergeSite A B)) - blockOf (splitLeft U) (splitRight (maskKept kept sv) V))
        = ∑ j, if kept j then 0 else star (sv j) * sv j :=
  ⟨applyPair_exact_split A B M U sv V hspec, fun kept _ => applyPair_truncation_error A B M U sv V hspec hU hV kept⟩

end trunc

/-- **C14.5 `long_range_pair_dense`**  A long-range Pauli pair is two one-site contractions (`factors[0]` on site `p`,
    `factors[1]` on site `q > p`): the new dense vector is `embed_p(X) · embed_q(Y) · old`. -/
theorem long_range_pair_dense (n : Nat) (pre mid post : List (Site σ ι K)) (A B : Site σ ι K) (X Y : Matrix σ σ K)
    (p q : Fin n) (hp : (p : Nat) = pre.length) (hq : (q : Nat) = pre.length + 1 + mid.length) :
    Psi n (pre ++ applySite X A :: (mid ++ applySite Y B :: post))
      = act (embedL (siteLens p) X * embedL (siteLens q) Y) (Psi n (pre ++ A :: (mid ++ B :: post))) :=
  Psi_applyFactors n pre mid post A B X Y p q hp hq

/-- **C14.5b**  the two applications commute — as dense operators and as functions on the tensor list — and their product is
    `X ⊗ Y` on the pair of sites `(p, q)`. -/
theorem long_range_pair_commutes (n : Nat) (p q : Fin n) (hpq : p ≠ q) (X Y : Matrix σ σ K) :
    Commute (embedL (siteLens p : Lens (Fin n → σ) σ) X) (embedL (siteLens q) Y) ∧
    embedL (pairLens p q hpq : Lens (Fin n → σ) (σ × σ)) (Matrix.kroneckerMap (· * ·) X Y)
      = embedL (siteLens p) X * embedL (siteLens q) Y ∧
    ∀ ts : List (Site σ ι K), applyAt X p (applyAt Y q ts) = applyAt Y q (applyAt X p ts) :=
  ⟨(embed_factors n p q hpq X Y).1, (embed_factors n p q hpq X Y).2,
   fun ts => applyAt_comm X Y p q (fun h => hpq (Fin.ext h)) ts⟩

/-- **C14.6a (the applications as operations on the state)**  `applyAt X i` (one site), `applyPairAt sp M i` (merge, contract,
    untruncated split `sp`) act on the dense vector of every chain of `n` sites as `embed_i(X)` resp. `embed_{i,i+1}(M)`, and
    compositions act as the product (later operation to the left). -/
theorem applications_represent (n : Nat) :
    (∀ (i : Nat) (hi : i < n) (X : Matrix σ σ K), Represents n (applyAt (ι := ι) X i) (embedL (siteLens (⟨i, hi⟩ : Fin n)) X)) ∧
    (∀ (i : Nat) (hi : i + 1 < n) (sp : Splitter σ ι K) (M : Matrix (σ × σ) (σ × σ) K),
      Represents n (applyPairAt sp M i) (embedL (pairLens (⟨i, by omega⟩ : Fin n) ⟨i + 1, hi⟩ (by simp)) M)) ∧
    (∀ (f g : List (Site σ ι K) → List (Site σ ι K)) (E F : Matrix (Fin n → σ) (Fin n → σ) K),
      Represents n f E → Represents n g F → Represents n (g ∘ f) (F * E)) :=
  ⟨fun i hi X => represents_applyAt n i hi X, fun i hi sp M => represents_applyPairAt n i hi sp M,
   fun _ _ _ _ hf hg => hf.comp hg⟩

section norm
variable [StarRing K]

/-- **C14.6b `jump_then_normalize`**  Let `f` be any application represented by the dense operator `E` (C14.6a) and let the state
    be renormalised by `normalize("B")` (QR or SVD shifts, `u`).  Then `E|ψ⟩ = Rᵀ · |ψ_new⟩` where `R` is the factor the last
    QR of `normalize` throws away; the new chain has unit norm (decompositions returning isometries, their documented and
    spec-tied behaviour), and consequently `⟨Eψ|Eψ⟩ = Rᵀ (Rᵀ)ᴴ`. -/
theorem jump_then_normalize (n : Nat) (hpos : 0 < n) (d : Dec σ ι K) (u : Bool)
    (hq : ∀ A, LeftIso (d.qr A).1) (hs : ∀ A B, LeftIso (d.svd A B).1)
    (f : List (Site σ ι K) → List (Site σ ι K)) (E : Matrix (Fin n → σ) (Fin n → σ) K) (hf : Represents n f E)
    (ts : List (Site σ ι K)) (hn : ts.length = n) :
    ∃ A : Site σ ι K,
      (∀ c, act E (Psi n ts) c = ((d.qr A).2)ᵀ * Psi n (normalize d u true (f ts)) c) ∧
      ∑ c : Fin n → σ, Psi n (normalize d u true (f ts)) c * (Psi n (normalize d u true (f ts)) c)ᴴ = 1 ∧
      ∑ c : Fin n → σ, act E (Psi n ts) c * (act E (Psi n ts) c)ᴴ = ((d.qr A).2)ᵀ * (((d.qr A).2)ᵀ)ᴴ := by
  obtain ⟨A, hA⟩ := normalize_after n hpos d u f E hf ts hn
  have hunit := normalize_B_unit_norm n d u hq hs (f ts) (hf ts hn).1
  refine ⟨A, hA, hunit, ?_⟩
  simp only [hA, Matrix.conjTranspose_mul]
  have : ∀ c : Fin n → σ, ((d.qr A).2)ᵀ * Psi n (normalize d u true (f ts)) c *
      ((Psi n (normalize d u true (f ts)) c)ᴴ * (((d.qr A).2)ᵀ)ᴴ)
      = ((d.qr A).2)ᵀ * (Psi n (normalize d u true (f ts)) c * (Psi n (normalize d u true (f ts)) c)ᴴ) * (((d.qr A).2)ᵀ)ᴴ := by
    intro c; simp only [Matrix.mul_assoc]
  simp only [this]
  rw [← Finset.sum_mul, ← Finset.mul_sum, hunit, Matrix.mul_one]

/-- **C14.6c `jump_then_normalize` (scalar form)**  With the left boundary bond of dimension one (index `a0`; the `R` of a QR is
    upper triangular, so its column `a0` is `r·e_{a0}`): the new vector is the applied-to vector divided by the scalar `r`,
    `E|ψ⟩ = r · |ψ_new⟩` — "the operator applied once, renormalised" (`X|ψ⟩/‖X|ψ⟩‖` up to the phase of `r`). -/
theorem jump_then_normalize_scalar (n : Nat) (hpos : 0 < n) (d : Dec σ ι K) (u : Bool) (a0 : ι)
    (hR : ∀ A j, j ≠ a0 → (d.qr A).2 j a0 = 0)
    (f : List (Site σ ι K) → List (Site σ ι K)) (E : Matrix (Fin n → σ) (Fin n → σ) K) (hf : Represents n f E)
    (ts : List (Site σ ι K)) (hn : ts.length = n) :
    ∃ r : K, ∀ b, E *ᵥ psi n ts a0 b = r • psi n (normalize d u true (f ts)) a0 b := by
  obtain ⟨A, hA⟩ := normalize_after n hpos d u f E hf ts hn
  refine ⟨(d.qr A).2 a0 a0, fun b => ?_⟩
  rw [← act_psi]
  funext c
  rw [hA c, dropped_RT_is_a_scalar _ _ a0 b (hR A)]
  rfl

end norm

end dense

/-! ## the scheduled-jump operation `SJ m` of the pipeline model and the jump branch of the lottery -/

section sj
variable {K : Type*} [CommRing K] [StarRing K] {ι σ : Type*} [Fintype ι] [DecidableEq ι] [Fintype σ] [DecidableEq σ]
open Yaqs.SJump Yaqs.Pipeline

/-- **C14.7 `scheduled_jump_dense`**  Semantics of the operation `SJ k` of `Model/Pipeline.lean`.  Let the scheduled jumps sit at the
    grid times `t_m, m ∈ ms` (repetitions allowed), each represented by its dense operator (C14.6a: one-site, adjacent
    two-site or long-range user operators), and let `k ∈ ms`.  Then at grid index `k` the pipeline's noise step is `SJ k`
    (`has_scheduled_jump` is true), and `apply_scheduled_jumps(state, nm, t_k)` produces a unit-norm state `|ψ_new⟩` with
    `(Π_{i : ms[i] = k} X_i)|ψ⟩ = Rᵀ · |ψ_new⟩`: exactly the operators scheduled for `t_k`, each once, in list order (the later
    one to the left), and nothing scheduled for another time — then renormalised. -/
theorem scheduled_jump_dense (n : Nat) (hpos : 0 < n) (d : Dec σ ι K)
    (hq : ∀ A, LeftIso (d.qr A).1) (hs : ∀ A B, LeftIso (d.svd A B).1)
    (jumps : List (SchedJump n σ ι K)) (hj : ∀ j ∈ jumps, Represents n j.run j.op)
    (dt : Rat) (hdt : 0 < dt) (ms : List Nat) (hms : jumps.map (·.time) = ms.map (gridTime dt)) (k : Nat) (hk : k ∈ ms)
    (ts : List (Site σ ι K)) (hn : ts.length = n) :
    noiseOp ms k = Op.SJ k ∧
    hasJump (jumps.map (·.time)) (gridTime dt k) dt = true ∧
    ∃ A : Site σ ι K,
      (∀ c, act (prodOps jumps ((List.range ms.length).filter (fun i => ms[i]? == some k))) (Psi n ts) c
        = ((d.qr A).2)ᵀ * Psi n (applyScheduledJumps d jumps (gridTime dt k) dt ts) c) ∧
      ∑ c : Fin n → σ, Psi n (applyScheduledJumps d jumps (gridTime dt k) dt ts) c *
        (Psi n (applyScheduledJumps d jumps (gridTime dt k) dt ts) c)ᴴ = 1 := by
  refine ⟨by simp [noiseOp, hk], by rw [hms, hasJump_grid dt hdt ms k]; simp [hk], ?_⟩
  have hne : jumps.isEmpty = false := by
    cases jumps with
    | nil =>
      simp only [List.map_nil] at hms
      have : ms = [] := by simpa using hms.symm
      rw [this] at hk; simp at hk
    | cons j js => rfl
  have hrep := sjBody_represents jumps hj (gridTime dt k) dt
  have hop : sjOp jumps (gridTime dt k) dt = prodOps jumps ((List.range ms.length).filter (fun i => ms[i]? == some k)) := by
    unfold sjOp
    rw [hms, applied_grid dt hdt ms k]
  rw [hop] at hrep
  obtain ⟨A, h1, h2, _⟩ := jump_then_normalize n hpos d false hq hs _ _ hrep ts hn
  refine ⟨A, ?_, ?_⟩
  · intro c
    simp only [applyScheduledJumps, hne]
    exact h1 c
  · simp only [applyScheduledJumps, hne]
    exact h2

/-- **C14.7b (one jump at `t_k`)**  if exactly one list position `i` is scheduled for `t_k`, the product is that one operator:
    "the operator was applied once". -/
theorem scheduled_single_jump (n : Nat) (jumps : List (SchedJump n σ ι K)) (ms : List Nat) (k i : Nat)
    (j : SchedJump n σ ι K) (hi : jumps[i]? = some j)
    (hone : (List.range ms.length).filter (fun i => ms[i]? == some k) = [i]) :
    prodOps jumps ((List.range ms.length).filter (fun i => ms[i]? == some k)) = j.op := by
  rw [hone]; exact prodOps_single jumps i j hi

end sj

section value
variable {K : Type*} [Field K] [StarRing K] {C : Type*} [Fintype C]

/-- **C14.8 `jump_branch_value`** (what C01's `c01_lottery_expectation` assumes of a jump branch, hypothesis `hv`): if the jumped
    vector is a scalar multiple of the renormalised one, `L_kψ̃ = r · ψ_new` (C14.6c), and `ψ_new` has unit norm, then the value
    of any observable on the branch state is `⟨ψ_new|O|ψ_new⟩ = a_k / ‖L_kψ̃‖²` with `a_k = ⟨L_kψ̃|O|L_kψ̃⟩` — whenever
    `‖L_kψ̃‖² ≠ 0` (the excluded branch has probability zero, C01 `c01_zero_weight_never_chosen`). -/
theorem jump_branch_value (O : Matrix C C K) (φ ψ' : C → K) (r : K) (h : φ = r • ψ') (hunit : star ψ' ⬝ᵥ ψ' = 1)
    (hne : star φ ⬝ᵥ φ ≠ 0) :
    star ψ' ⬝ᵥ O *ᵥ ψ' = (star φ ⬝ᵥ O *ᵥ φ) / (star φ ⬝ᵥ φ) := by
  obtain ⟨h1, h2⟩ := scaled_forms O φ ψ' r h
  rw [hunit, mul_one] at h2
  rw [h2] at hne
  rw [h1, h2, mul_div_cancel_left₀ _ hne]

end value

/-! ## the executable list model does the same (what the correspondence check runs) -/

section exec
open Yaqs.Mps

/-- **C14.9a `apply_one_site_exec`**  `Model.LocalOp.applyOne` inside a well-shaped chain of any length: the amplitude of the list
    model after the contraction is `Σ_k op[σ_i][k] · amp(old, σ[i := k])`. -/
theorem apply_one_site_exec (n : Nat) (hn : 0 < n) (pre post : List Tensor) (t : Tensor) (op : Mat)
    (hws : wellShapedChain n (pre ++ t :: post) = true) (hop : op.length = t.length) (c1 c2 : List Nat) (s : Nat)
    (hc1 : cfgOK pre c1 = true) (hs : s < t.length) (hc2 : cfgOK post c2 = true) :
    amp (pre ++ applyOne op t :: post) (c1 ++ s :: c2) =
      some (∑ k ∈ Finset.range t.length, entry op s k * (amp (pre ++ t :: post) (c1 ++ k :: c2)).getD 0) :=
  amp_applyOne n hn pre post t op hws hop c1 c2 s hc1 hs hc2

/-- **C14.9b `apply_one_site_to_vec`**  where these amplitudes sit in `MPS.to_vec()`: the entry of `toVec` at position
    `toVecIdx` (C06: site 0 least significant, `= kronIdx` of the reversed chain by `toVec_is_reversed`) is the amplitude of
    the configuration; and the Matrix reading of `applyOne` is `applySite` (slice `s` is `Σ_k op[s][k] · old slice k`). -/
theorem apply_one_site_to_vec (ts : List Tensor) (cfg : List Nat) (h : cfgOK ts cfg = true) :
    (toVec ts)[Yaqs.Index.toVecIdx (ts.map physDim) cfg]? = some (amp ts cfg) ∧
    Yaqs.Index.toVecIdx (ts.map physDim) cfg = vecIndex (ts.map physDim) cfg ∧
    ∀ (n : Nat) (op : Mat) (t : Tensor), wellShaped t = true → ∀ s, s < op.length →
      toSite n (applyOne op t) s = ∑ k ∈ Finset.range t.length, entry op s k • toSite n t k :=
  ⟨toVec_at ts cfg h, (vecIndex_eq_toVecIdx _ _).symm, fun n op t ht s hs => toSite_applyOne n op t ht s hs⟩

/-- **C14.10a `merge_convention`**  `merge_mps_tensors(A, B)` (`"abc,dce->adbe"`, C-order reshape): the merged tensor has
    `d_i·d_j` slices, slice `s·d_j + t` is `A[s] @ B[t]` — the physical index of the LEFT tensor is the major one —, entry by
    entry `merged[s·d_j + t][l][r] = Σ_k A[s][l][k]·B[t][k][r]`; in the Matrix reading it is the two-site block
    `toSite A s * toSite B t` (the `mergeSite` of C14.4). -/
theorem merge_convention (a b : Tensor) (ha : wellShaped a = true) (hb : wellShaped b = true) (s t : Nat)
    (hs : s < a.length) (ht : t < b.length) :
    (mergeKet2 a b).length = a.length * b.length ∧
    (mergeKet2 a b).getD (s * b.length + t) [] = matMul (a.getD s []) (b.getD t []) ∧
    (∀ l r N, rightDim a ≤ N → entry ((mergeKet2 a b).getD (s * b.length + t) []) l r
        = ∑ k ∈ Finset.range N, entry (a.getD s []) l k * entry (b.getD t []) k r) ∧
    (∀ n, rightDim a ≤ n → toSite n (mergeKet2 a b) (s * b.length + t) = toSite n a s * toSite n b t) :=
  ⟨mergeKet2_length a b, mergeKet2_getD a b s t hs ht, fun l r N hN => entry_mergeKet2 a b ha hb s t l r hs ht N hN,
   fun n hn => toSite_mergeKet2 n a b ha hb hn s t hs ht⟩

/-- **C14.10b `apply_two_site_exec`**  `Model.LocalOp.applyTwoMerged` + an exact split inside a well-shaped chain: if the pair written
    back has the frame of the old pair and its slices multiply to the slices of the merged-and-operated tensor, the new
    amplitudes are `Σ_{x,y} op[σ_i·d_j + σ_{i+1}][x·d_j + y] · amp(old, σ[i := x, i+1 := y])`. -/
theorem apply_two_site_exec (n : Nat) (hn : 0 < n) (pre post : List Tensor) (a b a' b' : Tensor) (op : Mat)
    (hws : wellShapedChain n (pre ++ a :: b :: post) = true) (hf : sameFrame n a b a' b' = true)
    (hop : op.length = a.length * b.length)
    (hsplit : ∀ s t, s < a.length → t < b.length →
      matMul (a'.getD s []) (b'.getD t []) = (applyTwoMerged op a b).getD (s * b.length + t) [])
    (c1 c2 : List Nat) (s t : Nat) (hc1 : cfgOK pre c1 = true) (hs : s < a.length) (ht : t < b.length)
    (hc2 : cfgOK post c2 = true) :
    amp (pre ++ a' :: b' :: post) (c1 ++ s :: t :: c2) =
      some (∑ x ∈ Finset.range a.length, ∑ y ∈ Finset.range b.length,
        entry op (s * b.length + t) (x * b.length + y) * (amp (pre ++ a :: b :: post) (c1 ++ x :: y :: c2)).getD 0) :=
  amp_applyTwo n hn pre post a b a' b' op hws hf hop hsplit c1 c2 s t hc1 hs ht hc2

/-- **C14.10c `split_input_is_theta`**  the matrix `split_mps_tensor` hands to the SVD (`splitTheta`: row `s·D0 + l`, column
    `t·D2 + r` holds `merged[s·d_j + t][l][r]`) is, for the merged tensor of `(A, B)`, C10's `thetaMat A B` — so the exact and
    truncated SVD theorems `c10_exec_svd_*` (change = discarded weight, `c09_split_error`) apply to this split as they stand. -/
theorem split_input_is_theta (a b : Tensor) (ha : wellShaped a = true) (hb : wellShaped b = true) (s l t r : Nat)
    (hs : s < a.length) (hl : l < leftDim a) (ht : t < b.length) (hr : r < rightDim b) :
    entry (splitTheta a.length b.length (mergeKet2 a b)) (s * leftDim a + l) (t * rightDim b + r)
      = entry (thetaMat a b) (s * leftDim a + l) (t * rightDim b + r) ∧
    ∀ (T : Tensor) (dL dR : Nat), s < dL → t < dR → l < leftDim T → r < rightDim T →
      entry (splitTheta dL dR T) (s * leftDim T + l) (t * rightDim T + r) = entry (T.getD (s * dR + t) []) l r :=
  ⟨splitTheta_mergeKet2 a b ha hb s l t r hs hl ht hr,
   fun T dL dR h1 h2 h3 h4 => entry_splitTheta dL dR T s l t r h1 h3 h2 h4⟩

/-- **C14.10d (long-range pair, executable)**  `applyFactors` is two `applyOne`s, so C14.9a applies to each factor in turn. -/
theorem apply_factors_exec (op0 op1 : Mat) (a b : Tensor) :
    applyFactors op0 op1 a b = (applyOne op0 a, applyOne op1 b) := rfl

end exec

/-! ## the same embedded operator as in C04, C06 and C01's dense lottery model -/

section links
open Yaqs.Index

/-- **C14.11a `embedding_is_c04_c06`**  The embedded operators of C14.3–C14.5 are the ones the other properties use: C04's `embed1` /
    `embed2` unfold to them, and at Kronecker positions (`kronIdx`: site 0 most significant — the convention of `np.kron`,
    `_embed_generic`, `MPO.to_matrix`) the lens embedding has exactly the entries of the matrix `_embed_generic(sites=[i],
    op_matrix=A)` builds (C06 `embed_site_one`; C06 `kron_entry` is the general product form).  `MPS.to_vec()` holds the same
    amplitudes at `toVecIdx` (site 0 least significant, C14.9b, C06 `toVec_is_reversed`). -/
theorem embedding_is_c04_c06 :
    (∀ {K : Type} [CommSemiring K] (d n p : Nat) (hp : p < n) (A : Matrix (Fin d) (Fin d) K),
      Yaqs.CheckerE2E.embed1 d n p A = embedL (siteLens (⟨p, hp⟩ : Fin n)) A) ∧
    (∀ {K : Type} [CommSemiring K] (d n p q : Nat) (hp : p < n) (hq : q < n) (hpq : p ≠ q)
      (G : Matrix (Fin d × Fin d) (Fin d × Fin d) K),
      Yaqs.CheckerE2E.embed2 d n p q G = embedL (pairLens (⟨p, hp⟩ : Fin n) ⟨q, hq⟩ (Fin.ne_of_val_ne hpq)) G) ∧
    (∀ {α : Type} [MulZeroOneClass α] (A : Index.Mat α) (pre pre' post post' : List Nat) (x x' : Nat),
      pre'.length = pre.length → post'.length = post.length → (A.rows = 2 ∧ A.cols = 2) →
      (∀ z ∈ pre ++ x :: post, z < 2) → (∀ z ∈ pre' ++ x' :: post', z < 2) →
      ∃ M, Index.embed1 (pre.length + 1 + post.length) pre.length A = some M ∧
        M.e (kronIdx (List.replicate (pre.length + 1 + post.length) 2) (pre ++ x :: post))
            (kronIdx (List.replicate (pre.length + 1 + post.length) 2) (pre' ++ x' :: post'))
          = embedL (siteLens (⟨pre.length, by omega⟩ : Fin (pre.length + 1 + post.length))) (fun i j => A.e i j)
              (cfgFn _ (pre ++ x :: post)) (cfgFn _ (pre' ++ x' :: post'))) :=
  ⟨fun d n p hp A => embed_is_c04 d n p hp A, fun d n p q hp hq hpq G => embed2_is_c04 d n p q hp hq hpq G,
   fun A pre pre' post post' x x' hp hq hA hb hb' => embed_is_c06 A pre pre' post post' x x' hp hq hA hb hb'⟩

/-- **C14.11b `lottery_jump_dense`**  The jump branch of C01 / C03's lottery.  In the dense model the lottery driver runs
    (`Model/Lottery.lean`), a one-site process with matrix `m` on site `s` is applied by `applyProc = apply1`, and `apply1`
    computes — at the Kronecker position of every basis state `pre ++ x :: post`, `s = |pre|` — the sum
    `Σ_c m[x][c] · v[pre ++ c :: post]`: the dense operator `embed_s(m)` of C14.3, i.e. what the MPS contraction of
    `stochastic_process` produces (C14.3b), after which `normalize("B", "SVD")` divides by the norm (C14.6b/c with `u = true`).
    So the `a_k = ⟨L_kψ̃|O|L_kψ̃⟩`, `‖L_kψ̃‖²` of `c01_lottery_expectation` are those of the state the code holds (C14.8). -/
theorem lottery_jump_dense (pre post : List Nat) (x : Nat) (m : Lottery.Mat) (v : Lottery.Vec) (γ : Rat) (pauli : Bool)
    (hb : ∀ z ∈ pre ++ x :: post, z < 2) (hv : v.length = 2 ^ (pre.length + 1 + post.length)) :
    Lottery.applyProc (pre.length + 1 + post.length) ⟨[pre.length], γ, pauli, .mat m⟩ v
      = some (Lottery.apply1 (pre.length + 1 + post.length) pre.length m v) ∧
    Lottery.vecGet (Lottery.apply1 (pre.length + 1 + post.length) pre.length m v)
        (kronIdx (List.replicate (pre.length + 1 + post.length) 2) (pre ++ x :: post))
      = Lottery.CR.add
          (Lottery.CR.mul (Lottery.matGet m x 0)
            (Lottery.vecGet v (kronIdx (List.replicate (pre.length + 1 + post.length) 2) (pre ++ 0 :: post))))
          (Lottery.CR.mul (Lottery.matGet m x 1)
            (Lottery.vecGet v (kronIdx (List.replicate (pre.length + 1 + post.length) 2) (pre ++ 1 :: post)))) :=
  ⟨rfl, lottery_apply1_dense pre post x m v hb hv⟩

end links

/-! ## the conventions matter: the neighbouring (wrong) contractions are different functions -/

section differs
open Yaqs.Mps

/-- **C14.12a**  the transposed contraction `"ba, bcd->acd"` is a different function of (operator, tensor) -/
theorem applyOne_transposed_differs :
    ∃ (op : Mat) (t : Tensor), wellShaped t = true ∧ applyOne op t ≠ applyOneT op t :=
  ⟨[[⟨0, 0⟩, ⟨1, 0⟩], [⟨2, 0⟩, ⟨3, 0⟩]], [[[⟨1, 0⟩, ⟨2, 0⟩]], [[⟨0, 1⟩, ⟨5, 0⟩]]], by decide +kernel, by decide +kernel⟩

/-- **C14.12b**  the merged index with the two sites exchanged (`t·d_i + s`) is a different tensor -/
theorem mergeKet2_swapped_differs :
    ∃ (a b : Tensor), wellShaped a = true ∧ wellShaped b = true ∧ mergeKet2 a b ≠ mergeKet2Swapped a b :=
  ⟨[[[⟨1, 0⟩, ⟨2, 0⟩]], [[⟨0, 1⟩, ⟨5, 0⟩]]], [[[⟨1, 0⟩], [⟨1, 0⟩]], [[⟨0, 0⟩], [⟨3, 0⟩]]],
   by decide +kernel, by decide +kernel, by decide +kernel⟩

end differs

/-! ## non-vacuity: concrete instances (asymmetric operators, so that every index convention matters) -/

section examples
open Yaqs.Mps

/-- an asymmetric one-site operator and an asymmetric two-site operator over ℤ -/
def exX : Matrix (Fin 2) (Fin 2) ℤ := !![0, 1; 2, 3]
def exM : Matrix (Fin 2 × Fin 2) (Fin 2 × Fin 2) ℤ := fun r c => ((2 * r.1.val + r.2.val) * 5 + (2 * c.1.val + c.2.val) : ℕ)

/-- C14.3a on a three-site chain of C10's example tensors: an instance of the theorem … -/
example : chain ([exB] ++ applySite exX exA :: [exB]) [1, 0, 1]
    = ∑ b, exX ([1, 0, 1] : List (Fin 2))[([exB] : List (Site (Fin 2) (Fin 2) ℤ)).length] b
        • chain ([exB] ++ exA :: [exB]) (([1, 0, 1] : List (Fin 2)).set ([exB] : List (Site (Fin 2) (Fin 2) ℤ)).length b) :=
  apply_one_site_amplitudes [exB] [exB] exA exX [1, 0, 1] (by decide)

/-- … the contraction really changes the tensor, and it is not the transposed contraction -/
example : applySite exX exA 0 = exA 1 ∧ applySite exX exA ≠ applySiteT exX exA ∧ applySite exX exA ≠ exA := by decide

/-- the merged index: the left site is the major one, and the swapped convention is a different tensor -/
example : mergeSite exA exB (1, 0) = exA 1 * exB 0 ∧ mergeSite exA exB ≠ mergeSiteSwapped exA exB := by decide

/-- C14.4: the trivial exact split `(A', B') = (M·merged as a one-site tensor pair)` exists for a product operator `X ⊗ 1` -/
example : ∀ s t, applySite exX exA s * exB t
    = applySite (Matrix.kroneckerMap (· * ·) exX (1 : Matrix (Fin 2) (Fin 2) ℤ)) (mergeSite exA exB) (s, t) := by decide

/-- C14.6a/6b: the hypotheses are met (C10's isometric decomposition oracle; a one-site application on a one-site chain) -/
example : Represents 1 (applyAt (ι := Unit) (1 : Matrix Unit Unit ℚ) 0) (embedL (siteLens (⟨0, by omega⟩ : Fin 1)) 1) :=
  represents_applyAt 1 0 (by omega) 1

private theorem exDecIso_iso : (∀ A, LeftIso (exDecIso.qr A).1) ∧ (∀ A B, LeftIso (exDecIso.svd A B).1) := by
  constructor
  · intro A
    unfold LeftIso
    ext i j
    by_cases h : A () () () < 0 <;> simp [exDecIso, Matrix.mul_apply, h]
  · intro A B
    unfold LeftIso
    simp [exDecIso]

/-- C14.6b/c, C14.7: every hypothesis is met by a concrete instance — C10's isometric decomposition oracle (1×1 bonds over ℚ,
    whose `R` is trivially "upper triangular"), the operator `3` on the single site of a one-site chain holding the amplitude `2`,
    scheduled at `t_2` of the grid `dt = 1/10` -/
example :=
  jump_then_normalize 1 (by omega) exDecIso false exDecIso_iso.1 exDecIso_iso.2 _ _
    (represents_applyAt 1 0 (by omega) (fun _ _ => (3 : ℚ))) [fun _ => fun _ _ => (2 : ℚ)] rfl

example : ∃ r : ℚ, ∀ b, embedL (siteLens (⟨0, by omega⟩ : Fin 1)) (fun _ _ => (3 : ℚ)) *ᵥ psi 1 [fun _ => fun _ _ => (2 : ℚ)] () b
    = r • psi 1 (normalize exDecIso true true (applyAt (fun _ _ => (3 : ℚ)) 0 [fun _ => fun _ _ => (2 : ℚ)])) () b :=
  jump_then_normalize_scalar 1 (by omega) exDecIso true () (fun _ j hj => absurd rfl hj) _ _
    (represents_applyAt 1 0 (by omega) (fun _ _ => (3 : ℚ))) [fun _ => fun _ _ => (2 : ℚ)] rfl

example :=
  scheduled_jump_dense 1 (by omega) exDecIso exDecIso_iso.1 exDecIso_iso.2
    [⟨2 / 10, applyAt (fun _ _ => (3 : ℚ)) 0, embedL (siteLens (⟨0, by omega⟩ : Fin 1)) (fun _ _ => (3 : ℚ))⟩]
    (by
      intro j hj
      simp only [List.mem_cons, List.mem_nil_iff, or_false] at hj
      subst hj
      exact represents_applyAt 1 0 (by omega) _)
    (1 / 10) (by norm_num) [2] (by simp [Yaqs.SJump.gridTime]; norm_num) 2 (by simp) [fun _ => fun _ _ => (2 : ℚ)] rfl

/-- C14.8: `φ = 3·ψ'`, `ψ' = e₀` of unit norm, an asymmetric observable matrix -/
example : star ![(1 : ℚ), 0] ⬝ᵥ !![(5 : ℚ), 1; 2, 7] *ᵥ ![(1 : ℚ), 0]
    = (star ![(3 : ℚ), 0] ⬝ᵥ !![(5 : ℚ), 1; 2, 7] *ᵥ ![(3 : ℚ), 0]) / (star ![(3 : ℚ), 0] ⬝ᵥ ![(3 : ℚ), 0]) :=
  jump_branch_value _ _ _ 3 (by ext i; fin_cases i <;> simp) (by simp [dotProduct, Fin.sum_univ_two])
    (by simp [dotProduct, Fin.sum_univ_two])

/-- executable model: the lowering-type asymmetric operator `[[0,1],[2,3]]` on a `(2,1,2)` tensor -/
def exOp : Mat := [[⟨0, 0⟩, ⟨1, 0⟩], [⟨2, 0⟩, ⟨3, 0⟩]]
def exT : Tensor := [[[⟨1, 0⟩, ⟨2, 0⟩]], [[⟨0, 1⟩, ⟨5, 0⟩]]]
def exT2 : Tensor := [[[⟨1, 0⟩], [⟨1, 0⟩]], [[⟨0, 0⟩], [⟨3, 0⟩]]]

example : applyOne exOp exT = [[[⟨0, 1⟩, ⟨5, 0⟩]], [[⟨2, 3⟩, ⟨19, 0⟩]]] ∧ applyOne exOp exT ≠ applyOneT exOp exT := by
  decide +kernel

example : mergeKet2 exT exT2 = [[[⟨3, 0⟩]], [[⟨6, 0⟩]], [[⟨5, 1⟩]], [[⟨15, 0⟩]]] ∧
    mergeKet2 exT exT2 ≠ mergeKet2Swapped exT exT2 := by decide +kernel

/-- C14.9a on the two-site chain `[exT, exT2]`: well-shaped, and the amplitudes after `applyOne` are the predicted sums -/
example : wellShapedChain 2 ([] ++ exT :: [exT2]) = true ∧
    amp ([] ++ applyOne exOp exT :: [exT2]) ([] ++ 1 :: [1]) = some ⟨57, 0⟩ ∧
    (amp ([] ++ exT :: [exT2]) ([] ++ 0 :: [1])).getD 0 = ⟨6, 0⟩ ∧
    (amp ([] ++ exT :: [exT2]) ([] ++ 1 :: [1])).getD 0 = ⟨15, 0⟩ := by decide +kernel

example : splitTheta 2 2 (mergeKet2 exT exT2) = thetaMat exT exT2 := by decide +kernel

/-- C14.11a/b on three qubits: the lowering-type matrix on site 1 of `|0 1 1⟩` (Kronecker position 3) -/
example : Yaqs.Lottery.vecGet (Yaqs.Lottery.apply1 3 1 [[⟨0, 0⟩, ⟨1, 0⟩], [⟨2, 0⟩, ⟨3, 0⟩]]
    ((List.range 8).map fun i => (⟨i, 0⟩ : Yaqs.Lottery.CR))) (Yaqs.Index.kronIdx [2, 2, 2] [0, 1, 1]) = ⟨2 * 1 + 3 * 3, 0⟩ := by
  decide +kernel

/-- C14.7: one jump scheduled at `t_2` among jumps at `t_2, t_5`: position `0` is the only one applied at grid index 2 -/
example : (List.range 2).filter (fun i => ([2, 5] : List Nat)[i]? == some 2) = [0] := by decide

end examples

end Yaqs.LocalOp
