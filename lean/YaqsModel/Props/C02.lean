import YaqsModel.Lemmas.Layers
import YaqsModel.Lemmas.GateExact
import YaqsModel.Lemmas.GateWindow
import YaqsModel.Lemmas.GateSweep
import YaqsModel.Props.C18

/-!
# C02 — noise-free circuit simulation equals the exact unitary semantics of the circuit

Property theorems only (helper lemmas: `Lemmas/Layers.lean`; model: `Model/Layers.lean`).

What is decided here, for **every** circuit (any width, depth, gate placement, orientation, any sprinkling of
barriers / labelled barriers / measurements): the order in which `digital_tjm` applies the gates — layer by
layer, singles, then even pairs, then odd pairs, each sorted by qubit — is a dependency-respecting
linearisation of the program, hence the product of the applied gates equals the product of the program in
*any* monoid in which gates on disjoint qubits commute (`schedule_sound`).  Instantiated with the unitary
matrices of the gates this is "the simulated state is the exact state vector".

Not proved here (by design): that one `apply_two_qubit_gate` call realises the gate's matrix
(`Matrix.exp (-i • A ⊗ B) = matrix` for cx, cz, cp, rxx, ryy, rzz at every angle) — this is C18
(`Props/C18.lean`: `c18_generator_exp`, `c18_generator_exp_reversed`, `c18_generator_slots`); that a noise-free run executes exactly one trajectory whatever
`num_traj` was — this is C20 (`noise_free_single_traj`).  Both are checked on the real code by the C02 oracle
(`simulator.run` vs qiskit `Statevector`, independence of `num_traj`).
-/
namespace Yaqs.Layers

open List

/-- **C02.1** The gate schedule of `digital_tjm` is a permutation of the gate instructions of the circuit:
    every gate is applied exactly once and nothing else is applied — for every circuit. -/
theorem schedule_perm (c : List Instr) : (schedule c).Perm (gates c) :=
  schedule_perm_gates c

example : schedule [.gate1 1 0, .gate2 2 1 0, .barrier [0], .measure 1 0, .gate1 3 1, .gate2 4 2 1, .gate1 5 0]
    = [.gate1 1 0, .gate2 2 1 0, .gate1 5 0, .gate1 3 1, .gate2 4 2 1] := by decide

/-- **C02.2** (wire order) On every qubit, the gates touching that qubit are applied in program order:
    the schedule restricted to a qubit *is* the program restricted to that qubit.  Holds whatever the
    even/odd grouping and the sorting inside a layer do, for every circuit. -/
theorem schedule_respects_wires (c : List Instr) (q : Nat) :
    (schedule c).filter (fun g => g.qubits.contains q) = (gates c).filter (fun g => g.qubits.contains q) := by
  rw [← onWire_q, ← onWire_q]
  exact schedule_onWire c (Wire.q q)

/-- **C02.2'** (pairwise form) Two gates that share a qubit are applied in the order in which they stand in
    the program (`[g, h] <+ l` : `g` occurs before `h` in `l`). -/
theorem schedule_keeps_order (c : List Instr) (g h : Instr) (q : Nat) (hg : q ∈ g.qubits) (hh : q ∈ h.qubits) :
    [g, h] <+ gates c ↔ [g, h] <+ schedule c := by
  have key : ∀ l₁ l₂ : List Instr,
      l₁.filter (fun g => g.qubits.contains q) = l₂.filter (fun g => g.qubits.contains q) →
      [g, h] <+ l₁ → [g, h] <+ l₂ := by
    intro l₁ l₂ he hs
    have h1 : [g, h].filter (fun g => g.qubits.contains q) <+ l₁.filter (fun g => g.qubits.contains q) :=
      hs.filter _
    have h2 : [g, h].filter (fun g => g.qubits.contains q) = [g, h] := by
      simp [hg, hh]
    rw [h2, he] at h1
    exact h1.trans (List.filter_sublist)
  exact ⟨key _ _ (schedule_respects_wires c q).symm, key _ _ (schedule_respects_wires c q)⟩

example : [Instr.gate2 2 1 0, .gate1 5 0] <+
    schedule [.gate1 1 0, .gate2 2 1 0, .barrier [0], .measure 1 0, .gate1 3 1, .gate2 4 2 1, .gate1 5 0] := by
  decide

/-- **C02.3** (soundness of the schedule) In any monoid `M` with an interpretation `sem` of gates in which
    gates on disjoint qubits commute, the product of the gates in the order `digital_tjm` applies them equals
    the product in program order — in both multiplication conventions (`reverse` = operator composition,
    the later gate on the left).  No bound on width, depth or the placement of non-gate instructions. -/
theorem schedule_sound {M : Type*} [Monoid M] (sem : Instr → M)
    (hcomm : ∀ g h, g.isGate = true → h.isGate = true → (∀ q, ¬(q ∈ g.qubits ∧ q ∈ h.qubits)) →
      Commute (sem g) (sem h))
    (c : List Instr) :
    ((schedule c).map sem).prod = ((gates c).map sem).prod ∧
    ((schedule c).map sem).reverse.prod = ((gates c).map sem).reverse.prod :=
  gate_prod_eq sem hcomm (schedule c) (gates c) (fun _ h => mem_gates h) (fun _ h => mem_gates h)
    (schedule_perm c) (schedule_onWire c)

/-- non-vacuity of `schedule_sound`: a non-commutative interpretation that meets the hypothesis.
    `M` = pairs of words over ℕ (free monoid × free monoid); a gate on qubit 0 writes its tag into the first
    word, a gate on qubit 1 into the second, everything else is the unit.  Gates on the same qubit do not
    commute, gates on different qubits do. -/
example :
    let sem : Instr → FreeMonoid Nat × FreeMonoid Nat := fun i =>
      match i with
      | .gate1 t 0 => (FreeMonoid.of t, 1)
      | .gate1 t 1 => (1, FreeMonoid.of t)
      | _ => 1
    (∀ g h, g.isGate = true → h.isGate = true → (∀ q, ¬(q ∈ g.qubits ∧ q ∈ h.qubits)) →
      Commute (sem g) (sem h)) ∧ ¬ Commute (sem (.gate1 1 0)) (sem (.gate1 2 0)) := by
  intro sem
  constructor
  · intro g h _ _ hd
    have comm1 : ∀ x : FreeMonoid Nat × FreeMonoid Nat, Commute (1 : FreeMonoid Nat × FreeMonoid Nat) x :=
      fun x => Commute.one_left x
    rcases g with ⟨t, q⟩ | _ | _ | _ | _ <;> rcases h with ⟨t', q'⟩ | _ | _ | _ | _ <;>
      try exact Commute.one_left _
    all_goals try exact Commute.one_right _
    -- both single-qubit gates
    match q, q' with
    | 0, 0 => exact absurd ⟨by simp [Instr.qubits], by simp [Instr.qubits]⟩ (hd 0)
    | 1, 1 => exact absurd ⟨by simp [Instr.qubits], by simp [Instr.qubits]⟩ (hd 1)
    | 0, 1 => simp [sem, Commute, SemiconjBy]
    | 1, 0 => simp [sem, Commute, SemiconjBy]
    | 0, (_ + 2) => exact Commute.one_right _
    | 1, (_ + 2) => exact Commute.one_right _
    | (_ + 2), _ => exact Commute.one_left _
  · intro hc
    have := congrArg Prod.fst hc.eq
    simp only [sem, Prod.fst_mul] at this
    have h2 := congrArg FreeMonoid.toList this
    simp at h2

/-- **C02.3'** (what the simulator actually does) In every mode — strong with or without layer sampling,
    weak — the sequence of `apply_single_qubit_gate` / `apply_two_qubit_gate` calls of `digital_tjm` is the
    schedule; in particular it does not depend on the mode, on `num_mid_measurements`, or on where
    barriers / measurements stand beyond what C02.2 allows. -/
theorem events_are_schedule (mode : Mode) (numMid : Nat) (c : List Instr) (evs : List Event)
    (h : digitalTjm mode numMid c = some evs) :
    evs.filter Event.isApp = (schedule c).filterMap Event.ofInstr := by
  unfold digitalTjm digitalTjmWith at h
  rw [visit_eq c] at h
  simp only at h
  have ha := apps_emit mode.sampling 0 (visit c)
  cases mode <;> simp only [Option.some.injEq] at h <;> subst h <;>
    simp [List.filter_append, Event.isApp, ha, schedule]

example : digitalTjm .strongPlain 0 [.gate1 1 0, .sbarrier [0, 1], .gate2 2 1 0, .measure 0 0, .gate1 3 1] =
    some [.app1 1 0, .app2 2 1 0, .app1 3 1, .eval 0] := by decide

/-- **C02.4a** `construct_generator_mpo` puts generator factor `k` on `gate.sites[k]`, whatever the
    orientation: with `sites = [a, b]`, `a ≠ b`, the returned `(first_site, last_site)` are `(min, max)`
    and the factor index stored with each site is the position of that site in `sites`.
    (That `exp(-i · factor₀ ⊗ factor₁)` is the gate's matrix is C18.) -/
theorem generator_on_own_site (a b : Nat) (hab : a ≠ b) :
    let p := genPlacement a b
    p.1.1 = min a b ∧ p.2.1 = max a b ∧ p.1.1 < p.2.1 ∧
    [a, b][p.1.2]? = some p.1.1 ∧ [a, b][p.2.2]? = some p.2.1 := by
  unfold genPlacement
  by_cases h : a < b
  · rw [if_pos h]
    refine ⟨by simp only; omega, by simp only; omega, by simp only; omega, by simp, by simp⟩
  · rw [if_neg h]
    refine ⟨by simp only; omega, by simp only; omega, by simp only; omega, by simp, by simp⟩

example : genPlacement 3 2 = ((2, 1), (3, 0)) := by decide

/-- **C02.4b** The window handed to the two-site TDVP sweep contains both sites of the gate, lies inside the
    chain and has at least two sites (the `assert` of `apply_window` never fires for a two-qubit gate). -/
theorem window_ok (L first last : Nat) (h1 : first < last) (h2 : last < L) :
    let w := window L first last
    w.1 ≤ first ∧ last ≤ w.2 ∧ w.2 < L ∧ 1 < w.2 - w.1 + 1 := by
  unfold window
  simp only
  omega

example : window 5 0 1 = (0, 2) ∧ window 5 3 4 = (2, 4) ∧ window 2 0 1 = (0, 1) := by decide

/-- **C02.1c** (`dag.front_layer()`, the function the front-layer tie compares with qiskit on every run) the model's
    front of a remaining-instruction list holds, for every wire, at most one instruction, and that instruction is the
    first one on the wire (the remaining ones keep their order behind it); it is empty only when nothing remains. -/
theorem front_layer_spec (rem : List Instr) (w : Wire) :
    (onWire w (front rem)).length ≤ 1 ∧
    onWire w rem = onWire w (front rem) ++ onWire w (splitFront stayNew [] rem).2 ∧
    (rem ≠ [] → front rem ≠ []) := by
  refine ⟨onWire_front_le_one stayNew [] rem w, split_onWire [] rem w, ?_⟩
  intro hne
  cases rem with
  | nil => exact absurd rfl hne
  | cons i rest =>
    have h := split_length [] (i :: rest)
    have h2 := split_rest_lt i rest
    intro hc
    unfold front at hc
    rw [hc] at h
    simp only [List.length_nil, List.length_cons] at h h2
    omega

end Yaqs.Layers

/-!
# C02 extension (xg02) — one `apply_two_qubit_gate` call is exact: generator MPO + window + one digital two-site sweep

`schedule_sound` gives the gate *order*, C18 gives `exp(-i·A⊗B) = gate matrix`.  The theorems below close the step in
between, for `digital_tjm.apply_two_qubit_gate` on neighbouring sites: the generator MPO (`construct_generator_mpo`: `A` and
`B` on the gate's sites, bond-dimension-1 identity tensors elsewhere), the window of `apply_window` (one extra site on each
side where the chain has one) and ONE left-to-right sweep of `two_site_tdvp` in digital mode (`Model/Conserve.lean`,
`twoSiteFull n true`: merge, pair step `+1`, split, site step `-1`, …, last pair step `+1`).  Three layers:

1. **index model** (`Model/Heff.lean` contraction orders of `project_site`, `Model/GateWindow.lean` those of
   `merge_mps_tensors` / `merge_mpo_tensors`; any commutative semiring) — `heff_site_identity_left/right`,
   `heff_pair_identity_left/right`, `heff_gate_pair`, `window_blocks_identity`: with the identity block and an identity MPO
   tensor on one side, the effective Hamiltonian of the pair is `1 ⊗ (that of the other site)`, with the *same* kernel as the
   single-site problem after the split; on the gate's own pair it is `A ⊗ B` on the two physical legs.
2. **exponential** (Mathlib's `NormedSpace.exp` over ℂ) — `flow_spectator`, `site_step_identity_left/right`, `pair_step_gate`:
   the exponential of `1 ⊗ K` is `1 ⊗ exp K`, so `update_site` with such an effective Hamiltonian applies `exp(-(t·i)•K)` to part
   of the legs and leaves the others alone.
3. **sweep** (MPS tensors as families of rectangular complex matrices, new bond types after every split) —
   `gate_sweep_cancel_left/right`, `gate_sweep_exact_2`, `…_3_left`, `…_3_right`, `…_4`: with the times of the model's step list
   (`gate_sweep_times`: `+1, -1, …, +1` for every window length) the product of the final tensors is
   `exp(-i·Gen)` on the gate's two physical legs applied to the product of the initial tensors — for the four window shapes
   `apply_window` can produce (`gate_window_shapes`).  `gate_sweep_gate_matrix` identifies `exp(-i·Gen)` with the gate table
   (C18), `c02_trajectory_is_circuit_unitary` composes the gates along the schedule (`schedule_sound`).

**What remains a hypothesis** (named again at each theorem): exact arithmetic; `expm_krylov` returns `exp(-i·t·H_eff)·v`
(C19); the split does not truncate and its left factor has orthonormal columns (SVD spec, C09; thresholds below the smallest
singular value); the window's tensors to the right of the gate's lower site are right-canonical (what `MPS.normalize("B")`
after every gate establishes, C10) — nothing is needed about the tensors outside the window nor about the window's first
tensor: the centre shift of `apply_window` serves the optimality of a *truncating* split (C09), not exactness; and, between
layer 2 and layer 3, the re-indexing of numpy's flattened `(phys, left, right)` index as a triple (layer 2 is stated over
triples, `site_step_index_model` joins it to the index model's `h6` over `Fin` triples).  The tie runs the real `apply_two_qubit_gate` with these
hypotheses *checked at every `update_site` call* (identity blocks, MPO factors) and the dense window state compared after every
step (kinds `gate-plan`, `gate-apply`, `gate-cancel`, `merge-*`, `pair-apply` of `harness/impl/C02.py`).
-/

namespace Yaqs.Heff

open Finset

/-- **C02.5a `heff_site_identity_left`** (lemma 1, single site).  Index model of `project_site` / `build_dense_heff_site`.
    If the left MPO bond of the site has dimension 1 and the left block is the identity (`left_blocks[i]` after a
    left-canonical prefix carrying identity MPO tensors — `window_blocks_identity`), then for every MPO tensor `W` and every
    right block `R` the effective Hamiltonian acts on the legs `(phys, right bond)` only, with kernel
    `opR d W R o p b B 0 = Σ_r W[o,p,0,r]·R[b,r,B]`, and the left bond index is a spectator: (i) matrix-free form, (ii) dense form
    `h6[o,A',B,p,a,b] = δ_{a A'}·kernel`.  The kernel depends on `W`, `R` and `d.r` only — not on the left bond — which is why the
    pair step and the backward site step of the sweep use the same generator. -/
theorem heff_site_identity_left {K : Type*} [CommSemiring K] (d : SiteDims) (hl : d.l = 1) (ha : d.a = d.aa)
    (L R : ℕ → ℕ → ℕ → K) (W : ℕ → ℕ → ℕ → ℕ → K) (hL : IsIdEnv d.a L) (X : ℕ → ℕ → ℕ → K) (o A' B : ℕ)
    (hA : A' < d.aa) :
    projectSite d L R W X o A' B = ∑ p ∈ range d.p, ∑ b ∈ range d.b, opR d W R o p b B 0 * X p A' b ∧
    ∀ p a b, a < d.a → h6 d L R W o A' B p a b = if a = A' then opR d W R o p b B 0 else 0 :=
  ⟨site_heff_idleft d hl ha L R W hL X o A' B hA,
    fun p a b ha' => dense_heff_idleft d hl L R W hL o A' B p a b ha' (ha ▸ hA)⟩

/-- non-vacuity: the boundary block of the sweep is an identity block, and a concrete instance over ℤ
    (`W = [[1,2],[3,4]]`, `R = 1`, bond dimensions 2) evaluates as the right-hand side says -/
example : IsIdEnv 2 (idEnv : ℕ → ℕ → ℕ → ℤ) := isIdEnv_idEnv 2
example :
    projectSite ⟨2, 2, 2, 2, 2, 2, 1, 1⟩ (idEnv : ℕ → ℕ → ℕ → ℤ) idEnv
      (genOp fun o p => (2 * o + p + 1 : ℕ)) (fun p a b => (p + 2 * a + 4 * b + 1 : ℕ)) 1 1 0 = 3 * 3 + 4 * 4 := by
  decide +kernel

/-- **C02.5b `heff_pair_identity_left`** (lemma 1, merged pair).  Sites `i, i+1` of the window, `W_i` the bond-dimension-1
    identity tensor, the left block the identity; `θ` any merged tensor (`merge_mps_tensors`), the merged MPO tensor as
    `merge_mpo_tensors` builds it.  Then `project_site` on the pair equals (i) `project_site` of the *single-site problem of
    site `i+1`* (same left block, same `W_{i+1}`, same right block) applied to every slice `θ[(o0, ·), ·, ·]` of the merged
    tensor — i.e. `H_eff(pair) = 1 ⊗ H_eff(site i+1)` — and (ii) the kernel form of `heff_site_identity_left`. -/
theorem heff_pair_identity_left {K : Type*} [CommSemiring K] (d0 d1 : SiteDims) (hop : d0.o = d0.p) (hl : d0.l = 1)
    (ha : d0.a = d0.aa) (L R : ℕ → ℕ → ℕ → K) (W1 : ℕ → ℕ → ℕ → ℕ → K) (hL : IsIdEnv d0.a L) (θ : ℕ → ℕ → ℕ → K)
    (o0 o1 A' B : ℕ) (ho0 : o0 < d0.o) (ho1 : o1 < d1.o) (hA : A' < d0.aa) :
    projectSite (pairDims d0 d1) L R (mergeOp d1.o d1.p 1 idOp W1) θ (flat2 d1.o o0 o1) A' B =
      projectSite ⟨d1.o, d1.p, d0.a, d0.aa, d1.b, d1.bb, 1, d1.r⟩ L R W1 (fun p a b => θ (flat2 d1.p o0 p) a b) o1 A' B ∧
    projectSite (pairDims d0 d1) L R (mergeOp d1.o d1.p 1 idOp W1) θ (flat2 d1.o o0 o1) A' B =
      ∑ p ∈ range d1.p, ∑ b ∈ range d1.b, opR d1 W1 R o1 p b B 0 * θ (flat2 d1.p o0 p) A' b := by
  have h2 := pair_heff_idleft d0 d1 hop hl ha L R W1 hL θ o0 o1 A' B ho0 ho1 hA
  refine ⟨?_, h2⟩
  rw [h2, site_heff_idleft ⟨d1.o, d1.p, d0.a, d0.aa, d1.b, d1.bb, 1, d1.r⟩ rfl ha L R W1 hL _ o1 A' B hA]
  rfl

/-- non-vacuity: identity ⊗ `[[1,2],[3,4]]` on a merged tensor over ℤ, evaluated -/
example :
    projectSite (pairDims ⟨2, 2, 1, 1, 2, 2, 1, 1⟩ ⟨2, 2, 2, 2, 1, 1, 1, 1⟩) (idEnv : ℕ → ℕ → ℕ → ℤ) idEnv
      (mergeOp 2 2 1 idOp (genOp fun o p => (2 * o + p + 1 : ℕ))) (fun st _ _ => (st + 1 : ℕ)) (flat2 2 1 0) 0 0 =
      1 * 3 + 2 * 4 := by
  decide +kernel

/-- **C02.5c `heff_site_identity_right`** mirror image of C02.5a: right MPO bond of dimension 1 and identity right block ⇒ the
    effective Hamiltonian acts on `(phys, left bond)` only, kernel `opL d W L o p a A' 0 = Σ_l W[o,p,l,0]·L[a,l,A']`, the right
    bond a spectator; (i) matrix-free, (ii) dense. -/
theorem heff_site_identity_right {K : Type*} [CommSemiring K] (d : SiteDims) (hr : d.r = 1) (hb : d.b = d.bb)
    (L R : ℕ → ℕ → ℕ → K) (W : ℕ → ℕ → ℕ → ℕ → K) (hR : IsIdEnv d.b R) (X : ℕ → ℕ → ℕ → K) (o A' B : ℕ)
    (hB : B < d.bb) :
    projectSite d L R W X o A' B = ∑ p ∈ range d.p, ∑ a ∈ range d.a, opL d W L o p a A' 0 * X p a B ∧
    ∀ p a b, b < d.b → h6 d L R W o A' B p a b = if b = B then opL d W L o p a A' 0 else 0 :=
  ⟨site_heff_idright d hr hb L R W hR X o A' B hB,
    fun p a b hb' => dense_heff_idright d hr L R W hR o A' B p a b hb' (hb ▸ hB)⟩

example :
    projectSite ⟨2, 2, 2, 2, 2, 2, 1, 1⟩ (idEnv : ℕ → ℕ → ℕ → ℤ) idEnv
      (genOp fun o p => (2 * o + p + 1 : ℕ)) (fun p a b => (p + 2 * a + 4 * b + 1 : ℕ)) 0 1 1 = 1 * 7 + 2 * 8 := by
  decide +kernel

/-- **C02.5d `heff_pair_identity_right`** the pair `(i, i+1)` with the identity MPO tensor on site `i+1` and the identity block
    to its right (right-canonical tensors carrying identity MPO tensors behind it): `H_eff(pair) = H_eff(site i) ⊗ 1` — the
    single-site problem of site `i` with the same left block `left_blocks[i]`, applied to every slice `θ[(·, o1), ·, B]`.  This
    is the pair that follows the backward step on site `i`: same generator, opposite sign. -/
theorem heff_pair_identity_right {K : Type*} [CommSemiring K] (d0 d1 : SiteDims) (hop : d1.o = d1.p) (hr : d1.r = 1)
    (hb : d1.b = d1.bb) (L R : ℕ → ℕ → ℕ → K) (W0 : ℕ → ℕ → ℕ → ℕ → K) (hR : IsIdEnv d1.b R) (θ : ℕ → ℕ → ℕ → K)
    (o0 o1 A' B : ℕ) (ho1 : o1 < d1.o) (hB : B < d1.bb) :
    projectSite (pairDims d0 d1) L R (mergeOp d1.o d1.p 1 W0 idOp) θ (flat2 d1.o o0 o1) A' B =
      projectSite ⟨d0.o, d0.p, d0.a, d0.aa, d1.b, d1.bb, d0.l, 1⟩ L R W0 (fun p a b => θ (flat2 d1.p p o1) a b) o0 A' B ∧
    projectSite (pairDims d0 d1) L R (mergeOp d1.o d1.p 1 W0 idOp) θ (flat2 d1.o o0 o1) A' B =
      ∑ p ∈ range d0.p, ∑ a ∈ range d0.a, opL d0 W0 L o0 p a A' 0 * θ (flat2 d1.p p o1) a B := by
  have h2 := pair_heff_idright d0 d1 hop hr hb L R W0 hR θ o0 o1 A' B ho1 hB
  refine ⟨?_, h2⟩
  rw [h2, site_heff_idright ⟨d0.o, d0.p, d0.a, d0.aa, d1.b, d1.bb, d0.l, 1⟩ rfl hb L R W0 hR _ o0 A' B hB]
  rfl

example :
    projectSite (pairDims ⟨2, 2, 1, 1, 2, 2, 1, 1⟩ ⟨2, 2, 2, 2, 1, 1, 1, 1⟩) (idEnv : ℕ → ℕ → ℕ → ℤ) idEnv
      (mergeOp 2 2 1 (genOp fun o p => (2 * o + p + 1 : ℕ)) idOp) (fun st _ _ => (st + 1 : ℕ)) (flat2 2 1 0) 0 0 =
      3 * 1 + 4 * 3 := by
  decide +kernel

/-- **C02.5e `heff_gate_pair`** (lemma 2).  The gate's own pair: generator factors `A`, `B` as bond-dimension-1 MPO tensors
    (`construct_generator_mpo`), identity blocks on both sides (left-canonical prefix / right-canonical suffix, identity MPO
    tensors outside the gate).  `project_site` on the merged tensor is the two-site operator `A ⊗ B` on the two physical legs —
    `Σ_{p0,p1} A[o0,p0]·B[o1,p1]·θ[(p0,p1),A',B]` — with both bond indices spectators: the pair step is `exp(-i·A⊗B)` itself. -/
theorem heff_gate_pair {K : Type*} [CommSemiring K] (d0 d1 : SiteDims) (hl : d0.l = 1) (ha : d0.a = d0.aa)
    (hr : d1.r = 1) (hb : d1.b = d1.bb) (L R : ℕ → ℕ → ℕ → K) (GA GB : ℕ → ℕ → K) (hL : IsIdEnv d0.a L)
    (hR : IsIdEnv d1.b R) (θ : ℕ → ℕ → ℕ → K) (o0 o1 A' B : ℕ) (ho1 : o1 < d1.o) (hA : A' < d0.aa) (hB : B < d1.bb) :
    projectSite (pairDims d0 d1) L R (mergeOp d1.o d1.p 1 (genOp GA) (genOp GB)) θ (flat2 d1.o o0 o1) A' B =
      ∑ p0 ∈ range d0.p, ∑ p1 ∈ range d1.p, GA o0 p0 * GB o1 p1 * θ (flat2 d1.p p0 p1) A' B :=
  pair_heff_gate d0 d1 hl ha hr hb L R GA GB hL hR θ o0 o1 A' B ho1 hA hB

/-- non-vacuity: `A = [[1,2],[3,4]]`, `B = [[5,6],[7,8]]`, entry `(1,0)` of `(A⊗B)·θ` over ℤ -/
example :
    projectSite (pairDims ⟨2, 2, 2, 2, 2, 2, 1, 1⟩ ⟨2, 2, 2, 2, 2, 2, 1, 1⟩) (idEnv : ℕ → ℕ → ℕ → ℤ) idEnv
      (mergeOp 2 2 1 (genOp fun o p => (2 * o + p + 1 : ℕ)) (genOp fun o p => (2 * o + p + 5 : ℕ)))
      (fun st a b => (st + 4 * a + 8 * b + 1 : ℕ)) (flat2 2 1 0) 1 1 =
      3 * 5 * 13 + 3 * 6 * 14 + 4 * 5 * 15 + 4 * 6 * 16 := by
  decide +kernel

/-- **C02.5f `window_blocks_identity`** the hypotheses "identity block" of C02.5a–e along the sweep.  (i) After an untruncated
    split the new left tensor `U` has orthonormal columns, and `left_blocks[i+1] = update_left_environment(U, U, 1, left_blocks[i])`
    is again the identity; (ii) `initialize_right_environments` over right-canonical tensors carrying identity MPO tensors gives
    identity blocks (the sites behind the gate); (iii) the same for a left-canonical prefix. -/
theorem window_blocks_identity {K : Type*} [CommSemiring K] (cj : K → K) :
    (∀ (s : Site K), IdSite s → LeftIsoIdx cj s → ∀ L : ℕ → ℕ → ℕ → K, IsIdEnv s.d.a L →
      IsIdEnv s.d.b (updateLeft cj s.d L s.W s.ket s.ket)) ∧
    (∀ (n : ℕ) (rs : List (Site K)), RightCanon cj n rs → ∀ R0 : ℕ → ℕ → ℕ → K, IsIdEnv n R0 →
      IsIdEnv (RightCanon.inDim n rs) (rightEnvChain cj R0 rs)) ∧
    (∀ (n : ℕ) (ls : List (Site K)), LeftCanon cj n ls → ∀ L0 : ℕ → ℕ → ℕ → K, IsIdEnv n L0 →
      IsIdEnv (outDim n ls) (leftEnvChain cj L0 ls)) :=
  ⟨fun s hs hiso L hL => left_block_stays_identity cj s hs hiso L hL,
    fun n rs h R0 h0 => rightEnvChain_isId cj n rs h R0 h0,
    fun n ls h L0 h0 => leftEnvChain_isId cj n ls h L0 h0⟩

/-- non-vacuity: a basis-state site tensor (`A[p,0,0] = δ_{p0}`) with the identity MPO tensor is an identity site with
    orthonormal columns -/
example : IdSite (⟨⟨2, 2, 1, 1, 1, 1, 1, 1⟩, fun p _ _ => if p = 0 then 1 else 0, idOp⟩ : Site ℤ) ∧
    LeftIsoIdx id (⟨⟨2, 2, 1, 1, 1, 1, 1, 1⟩, fun p _ _ => if p = 0 then 1 else 0, idOp⟩ : Site ℤ) := by
  refine ⟨⟨rfl, rfl, rfl, rfl, rfl, rfl⟩, ?_⟩
  intro b B hb hB
  have hb0 : b = 0 := by simpa using hb
  have hB0 : B = 0 := by simpa using hB
  subst hb0 hB0
  decide +kernel

/-- **C02.5g `merged_tensor_is_product`** (bridge between the index model and layer 3).  The merged tensor that
    `merge_mps_tensors` builds, at the combined physical index `s·d₁ + t`, is the matrix product of the two site tensors'
    matrices: `θ[(s,t)] = A₀[s]·A₁[t]` — the `A s * B t` of C02.8–C02.9; an exact split is any factorisation of it. -/
theorem merged_tensor_is_product {K : Type*} [CommSemiring K] (p1 m : ℕ) (A0 A1 : ℕ → ℕ → ℕ → K) (s t a e : ℕ)
    (ht : t < p1) :
    mergeKet p1 m A0 A1 (flat2 p1 s t) a e = ∑ c ∈ range m, A0 s a c * A1 t c e := by
  unfold mergeKet
  rw [unflat2_flat2 _ _ _ ht, sumTo_eq_sum]

example : mergeKet 2 2 (fun s a c => (s + 2 * a + 4 * c + 1 : ℤ)) (fun t c e => (t + 2 * c + 4 * e + 1 : ℤ)) (flat2 2 1 0) 0 1
    = 2 * 5 + 6 * 7 := by decide +kernel

end Yaqs.Heff

namespace Yaqs.GateWindow

open Yaqs.Sweep Yaqs.Layers

/-- **C02.6a `gate_window_shapes`** (`apply_window`, `window_size = 1`).  For a gate on the neighbouring chain sites
    `first, first+1` of a chain of `L` sites the window has `2 + [first > 0] + [first + 2 < L]` sites and the gate's lower site
    is window site `[first > 0]`: exactly the shapes (length, position) = (2,0), (3,0), (3,1), (4,1). -/
theorem gate_window_shapes (L first : Nat) (h : first + 1 < L) :
    windowShape L first (first + 1) =
      (2 + (if first = 0 then 0 else 1) + (if first + 2 = L then 0 else 1), if first = 0 then 0 else 1) :=
  windowShape_adjacent L first h

example : windowShape 2 0 1 = (2, 0) ∧ windowShape 5 0 1 = (3, 0) ∧ windowShape 5 3 4 = (3, 1) ∧
    windowShape 5 1 2 = (4, 1) := by decide

/-- **C02.6b `gate_sweep_times`** (`sim_params.dt = 2` inside the loop, `0.5·dt` forward, `-0.5·dt` backward, `dt = 1` at
    the last pair).  For every window length `n ≥ 2` the forward pair / backward site steps of `twoSiteFull n true`, in order,
    carry the times `+1, -1, +1, -1, …, +1`: each backward step has the negative of the time of the pair step before it, and
    the last pair (which has no backward step) runs a full unit step. -/
theorem gate_sweep_times (n : Nat) (hn : 2 ≤ n) (steps : List Step) (hs : twoSiteFull n true = some steps) :
    stepTimes steps = (List.replicate (n - 2) [(1 : Rat), -1]).flatten ++ [1] :=
  stepTimes_twoSiteFull n hn steps hs

example : (twoSiteFull 4 true).map stepTimes = some [1, -1, 1, -1, 1] := by decide +kernel

/-- **C02.6c `gate_plan_spec`** what the driver request `gplan` (tied to the real `apply_two_qubit_gate` on every run)
    prints: the placement of C02.4a, the window of C02.4b, the shape of C02.6a, the sites `0 … lo-1` through which
    `apply_window` shifts the orthogonality centre (so that it sits on the window's first site) and the step list of the digital
    sweep on a window of that length. -/
theorem gate_plan_spec (L a b : Nat) :
    (gatePlan L a b).placement = genPlacement a b ∧
    (gatePlan L a b).win = window L (genPlacement a b).1.1 (genPlacement a b).2.1 ∧
    ((gatePlan L a b).n, (gatePlan L a b).p) = windowShape L (genPlacement a b).1.1 (genPlacement a b).2.1 ∧
    (gatePlan L a b).shifts = List.range (gatePlan L a b).win.1 ∧
    (gatePlan L a b).steps = twoSiteFull (gatePlan L a b).n true :=
  ⟨rfl, rfl, rfl, rfl, rfl⟩

/-- **C02.6d `gate_plan_roles`** the roles of the forward pair / backward site steps in the four window shapes: everything
    before the gate pair is an identity-left step, everything after it an identity-right step, and they come in the
    cancelling groups (pair, site) resp. (site, pair) of C02.8. -/
theorem gate_plan_roles :
    (twoSiteFull 2 true).map (List.filterMap (stepRole 0)) = some [.gate] ∧
    (twoSiteFull 3 true).map (List.filterMap (stepRole 0)) = some [.gate, .idRight, .idRight] ∧
    (twoSiteFull 3 true).map (List.filterMap (stepRole 1)) = some [.idLeft, .idLeft, .gate] ∧
    (twoSiteFull 4 true).map (List.filterMap (stepRole 1)) = some [.idLeft, .idLeft, .gate, .idRight, .idRight] := by
  decide +kernel

/-- **C02.6e `gate_plan_tokens_spec`** (link theorem for the printer of the `gplan` request).  The token list that is diffed
    against the real trace is the step list of C02.6c mapped through `stepTok`, and a token carries the step's site index,
    its time and — for the two kinds of `update_site` calls — the role `pairRole` / `siteRole` of C02.6d. -/
theorem gate_plan_tokens_spec (L a b : Nat) (steps : List Step) (h : (gatePlan L a b).steps = some steps) (p i : Nat)
    (t : Rat) (r : Bool) :
    planTokens (gatePlan L a b) = steps.map (stepTok (gatePlan L a b).p) ∧
    stepTok p (.merge i) = s!"m:{i}" ∧
    stepTok p (.prim (.pair i t)) = s!"P:{i}:{showRat' t}:{(pairRole p i).tok}" ∧
    stepTok p (.prim (.split i r)) = s!"x:{i}:{if r then "R" else "L"}" ∧
    stepTok p (.prim (.site i t)) = s!"s:{i}:{showRat' t}:{(siteRole p i).tok}" := by
  refine ⟨?_, rfl, rfl, rfl, rfl⟩
  unfold planTokens
  rw [h]

example : planTokens (gatePlan 5 1 2) =
    ["m:0", "P:0:1:idL", "x:0:R", "s:1:-1:idL", "m:1", "P:1:1:gate", "x:1:R", "s:2:-1:idR", "m:2", "P:2:1:idR", "x:2:R"] := by
  decide +kernel

end Yaqs.GateWindow

namespace Yaqs.GateSweep

open Matrix Yaqs.Conserve Yaqs.Sweep Yaqs.GateWindow

/-- **C02.7a `flow_spectator`** Mathlib's matrix exponential of `1 ⊗ K` — `K` on part `ν` of an index set `μ ≃ ν × α`, the
    part `α` a spectator — is `1 ⊗ exp`: `exp(-(t·i)•(1⊗K)) = 1 ⊗ exp(-(t·i)•K)`, for every `K` and every real `t`. -/
theorem flow_spectator {μ ν α : Type*} [Fintype μ] [DecidableEq μ] [Fintype ν] [DecidableEq ν] [Fintype α]
    [DecidableEq α] (e : μ ≃ ν × α) (K : Matrix ν ν ℂ) (t : ℝ) (i j : μ) :
    flow (liftSpec e K) t i j = if (e i).2 = (e j).2 then flow K t (e i).1 (e j).1 else 0 := by
  rw [flow_liftSpec]
  rfl

/-- non-vacuity: the generator `1 ⊗ K` is not a multiple of the identity (entry `((0,0),(1,0))` is `K 0 1`) -/
example : liftSpec (Equiv.refl (Fin 2 × Fin 2)) (!![0, 1; 1, 0] : Matrix (Fin 2) (Fin 2) ℂ) (0, 0) (1, 0) = 1 := by
  simp [liftSpec]

/-- **C02.7b `site_step_identity_left`** from the dense effective Hamiltonian to the action on the tensor.  `H` is indexed by
    the triples `(phys, left, right)` (the order of `reshape(-1)`) and has the form of C02.5a(ii); `X'` is the exact flow
    `exp(-(t·i)•H)` applied to the flattened `X` (what `update_site(L, R, W, X, t)` returns when the Krylov exponential is exact,
    C19).  Then `X' = actR (exp(-(t·i)•K)) X`: the operator acts on `(phys, right bond)`, every left bond index separately.
    Serves the pair step as well (merged physical index as `phys`). -/
theorem site_step_identity_left {σ α β : Type*} [Fintype σ] [DecidableEq σ] [Fintype α] [DecidableEq α] [Fintype β]
    [DecidableEq β] (H : Matrix (σ × α × β) (σ × α × β) ℂ) (K : Matrix (σ × β) (σ × β) ℂ)
    (hH : ∀ s a b s' a' b', H (s, a, b) (s', a', b') = if a = a' then K (s, b) (s', b') else 0) (t : ℝ)
    (X X' : σ → Matrix α β ℂ)
    (hstep : ∀ s a b, X' s a b = (flow H t *ᵥ fun x : σ × α × β => X x.1 x.2.1 x.2.2) (s, a, b)) :
    X' = actR (flow K t) X :=
  site_step_idleft H K hH t X X' hstep

/-- **C02.7c `site_step_identity_right`** the mirror image, from the form of C02.5c(ii): `X' = actL (exp(-(t·i)•K')) X`. -/
theorem site_step_identity_right {σ α β : Type*} [Fintype σ] [DecidableEq σ] [Fintype α] [DecidableEq α] [Fintype β]
    [DecidableEq β] (H : Matrix (σ × α × β) (σ × α × β) ℂ) (K : Matrix (σ × α) (σ × α) ℂ)
    (hH : ∀ s a b s' a' b', H (s, a, b) (s', a', b') = if b = b' then K (s, a) (s', a') else 0) (t : ℝ)
    (X X' : σ → Matrix α β ℂ)
    (hstep : ∀ s a b, X' s a b = (flow H t *ᵥ fun x : σ × α × β => X x.1 x.2.1 x.2.2) (s, a, b)) :
    X' = actL (flow K t) X :=
  site_step_idright H K hH t X X' hstep

/-- **C02.7d `gate_pair_step`** the gate's own pair, from the form of C02.5e: `H = Gen ⊗ 1 ⊗ 1` on `((s,u), left, right)` ⇒ the
    new merged tensor is `Σ exp(-(t·i)•Gen)[(s,u),(s',u')] • θ[s',u']`, both bonds spectators. -/
theorem gate_pair_step {σ π α β : Type*} [Fintype σ] [DecidableEq σ] [Fintype π] [DecidableEq π] [Fintype α]
    [DecidableEq α] [Fintype β] [DecidableEq β] (pr : σ × σ ≃ π)
    (H : Matrix ((σ × σ) × α × β) ((σ × σ) × α × β) ℂ) (Gen : Matrix π π ℂ)
    (hH : ∀ st a b st' a' b', H (st, a, b) (st', a', b') = if a = a' ∧ b = b' then Gen (pr st) (pr st') else 0)
    (t : ℝ) (θ θ' : σ → σ → Matrix α β ℂ)
    (hstep : ∀ s u a b, θ' s u a b =
      (flow H t *ᵥ fun x : (σ × σ) × α × β => θ x.1.1 x.1.2 x.2.1 x.2.2) ((s, u), a, b)) :
    ∀ s u, θ' s u = ∑ s', ∑ u', flow Gen t (pr (s, u)) (pr (s', u')) • θ s' u' :=
  pair_step_gate pr H Gen hH t θ θ' hstep

/-- **C02.7e `site_step_index_model`** (layers 1 and 2 joined for the site step).  For a site of physical dimension `p` and
    bond dimensions `a`, `b` whose left MPO bond has dimension 1 and whose left block is the identity, take the *index model's*
    dense effective Hamiltonian `h6` (`build_dense_heff_site` before its reshape, `Model/Heff.lean`, value-tied to the real
    function by C19) as a matrix over the index triples: the exact flow applied to the flattened tensor is `actR` of the flow of
    the kernel matrix `K[(o,B),(p,b)] = Σ_r W[o,p,0,r]·R[b,r,B]`.  No hypothesis about the form of `H` is left. -/
theorem site_step_index_model (p a b r : ℕ) (L R : ℕ → ℕ → ℕ → ℂ) (W : ℕ → ℕ → ℕ → ℕ → ℂ) (hL : Heff.IsIdEnv a L)
    (t : ℝ) (X X' : Fin p → Matrix (Fin a) (Fin b) ℂ)
    (hstep : ∀ s x y, X' s x y =
      (flow (Matrix.of fun (i j : Fin p × Fin a × Fin b) =>
          Heff.h6 ⟨p, p, a, a, b, b, 1, r⟩ L R W i.1 i.2.1 i.2.2 j.1 j.2.1 j.2.2) t *ᵥ
        fun x : Fin p × Fin a × Fin b => X x.1 x.2.1 x.2.2) (s, x, y)) :
    X' = actR (flow (Matrix.of fun (i j : Fin p × Fin b) =>
      Heff.opR ⟨p, p, a, a, b, b, 1, r⟩ W R i.1 j.1 j.2 i.2 0) t) X := by
  refine site_step_idleft _ _ ?_ t X X' hstep
  intro s x y s' x' y'
  simp only [Matrix.of_apply]
  rw [Heff.dense_heff_idleft ⟨p, p, a, a, b, b, 1, r⟩ rfl L R W hL _ _ _ _ _ _ x'.isLt x.isLt]
  by_cases h : x = x'
  · subst h
    simp
  · have h' : (x' : ℕ) ≠ (x : ℕ) := fun e => h (Fin.ext e.symm)
    simp [h, h']

/-- **C02.7f `site_step_index_model_right`** the mirror image: right MPO bond of dimension 1, identity right block; the exact
    flow of the index model's `h6` is `actL` of the flow of `K'[(o,A),(p,a)] = Σ_l W[o,p,l,0]·L[a,l,A]`. -/
theorem site_step_index_model_right (p a b l : ℕ) (L R : ℕ → ℕ → ℕ → ℂ) (W : ℕ → ℕ → ℕ → ℕ → ℂ)
    (hR : Heff.IsIdEnv b R) (t : ℝ) (X X' : Fin p → Matrix (Fin a) (Fin b) ℂ)
    (hstep : ∀ s x y, X' s x y =
      (flow (Matrix.of fun (i j : Fin p × Fin a × Fin b) =>
          Heff.h6 ⟨p, p, a, a, b, b, l, 1⟩ L R W i.1 i.2.1 i.2.2 j.1 j.2.1 j.2.2) t *ᵥ
        fun x : Fin p × Fin a × Fin b => X x.1 x.2.1 x.2.2) (s, x, y)) :
    X' = actL (flow (Matrix.of fun (i j : Fin p × Fin a) =>
      Heff.opL ⟨p, p, a, a, b, b, l, 1⟩ W L i.1 j.1 j.2 i.2 0) t) X := by
  refine site_step_idright _ _ ?_ t X X' hstep
  intro s x y s' x' y'
  simp only [Matrix.of_apply]
  rw [Heff.dense_heff_idright ⟨p, p, a, a, b, b, l, 1⟩ rfl L R W hR _ _ _ _ _ _ y'.isLt y.isLt]
  by_cases h : y = y'
  · subst h
    simp
  · have h' : (y' : ℕ) ≠ (y : ℕ) := fun e => h (Fin.ext e.symm)
    simp [h, h']

/-- **C02.8a `gate_sweep_cancel_left`** the three steps "forward pair step, split, backward site step" on an identity-left pair
    leave the product of the two tensors — hence the dense state of the window — unchanged: `U·M' = A·B`.  Hypotheses: the
    pair step and the site step are the flows of the same generator `K` with times `t`, `-t` (C02.5a/b, C02.7b, `gate_sweep_times`);
    the split is exact (`U s * M t'` is the updated merged tensor). -/
theorem gate_sweep_cancel_left {σ a m k c : Type*} [Fintype σ] [DecidableEq σ] [Fintype a] [Fintype m] [Fintype k]
    [Fintype c] [DecidableEq c] (A : σ → Matrix a m ℂ) (B : σ → Matrix m c ℂ) (K : Matrix (σ × c) (σ × c) ℂ) (t : ℝ)
    (U : σ → Matrix a k ℂ) (M M' : σ → Matrix k c ℂ)
    (hpair : ∀ s, (fun t' => U s * M t') = actR (flow K t) (fun t' => A s * B t'))
    (hsite : M' = actR (flow K (-t)) M) :
    ∀ s t', U s * M' t' = A s * B t' :=
  cancel_left A B K t U M M' hpair hsite

/-- non-vacuity: for every `A`, `B`, `K`, `t` the split `U = A`, `M = actR (flow K t) B` meets the hypotheses -/
example {σ a m c : Type*} [Fintype σ] [DecidableEq σ] [Fintype a] [Fintype m] [Fintype c] [DecidableEq c]
    (A : σ → Matrix a m ℂ) (B : σ → Matrix m c ℂ) (K : Matrix (σ × c) (σ × c) ℂ) (t : ℝ) :
    ∃ (U : σ → Matrix a m ℂ) (M M' : σ → Matrix m c ℂ),
      (∀ s, (fun t' => U s * M t') = actR (flow K t) (fun t' => A s * B t')) ∧ M' = actR (flow K (-t)) M :=
  ⟨A, actR (flow K t) B, _, fun s => mul_actR (A s) (flow K t) B, rfl⟩

/-- **C02.8b `gate_sweep_cancel_right`** the three steps "backward site step, merge, forward pair step (+ split)" to the right
    of the gate leave the product unchanged: `U·N = M·B`.  Same generator `K'` (C02.5c/d: the site step uses
    `left_blocks[i]`, `W_i` and an identity right block, the pair step the same `left_blocks[i]`, `W_i ⊗ 1` and an identity right
    block), times `-t`, `t`. -/
theorem gate_sweep_cancel_right {σ k m c j : Type*} [Fintype σ] [DecidableEq σ] [Fintype k] [DecidableEq k] [Fintype m]
    [Fintype c] [Fintype j] (M M' : σ → Matrix k m ℂ) (B : σ → Matrix m c ℂ) (K : Matrix (σ × k) (σ × k) ℂ) (t : ℝ)
    (U : σ → Matrix k j ℂ) (N : σ → Matrix j c ℂ)
    (hsite : M' = actL (flow K (-t)) M)
    (hpair : ∀ t', (fun s => U s * N t') = actL (flow K t) (fun s => M' s * B t')) :
    ∀ s t', U s * N t' = M s * B t' :=
  cancel_right M M' B K t U N hsite hpair

example {σ k m c : Type*} [Fintype σ] [DecidableEq σ] [Fintype k] [DecidableEq k] [Fintype m] [Fintype c]
    (M : σ → Matrix k m ℂ) (B : σ → Matrix m c ℂ) (K : Matrix (σ × k) (σ × k) ℂ) (t : ℝ) :
    ∃ (M' : σ → Matrix k m ℂ) (U : σ → Matrix k m ℂ) (N : σ → Matrix m c ℂ),
      M' = actL (flow K (-t)) M ∧ ∀ t', (fun s => U s * N t') = actL (flow K t) (fun s => M' s * B t') :=
  ⟨_, actL (flow K t) (actL (flow K (-t)) M), B, rfl, fun t' => actL_mul (B t') (flow K t) _⟩

private theorem cast_one_neg : ((1 : ℚ) : ℝ) = 1 ∧ ((-1 : ℚ) : ℝ) = -1 := by constructor <;> norm_num

/-- **C02.9a `gate_sweep_exact_2`** (window of two sites — a two-site chain).  The sweep is `merge 0, pair 0 (dt = 1), split`:
    the only pair is the gate's (C02.5e, C02.7d).  With the time read off the model's step list the product of the two new
    tensors is `exp(-i·Gen)` on the two physical legs applied to the product of the old ones. -/
theorem gate_sweep_exact_2 {σ π a m1 b k1 : Type*} [Fintype σ] [DecidableEq σ] [Fintype π] [DecidableEq π]
    [Fintype a] [Fintype m1] [Fintype b] [Fintype k1]
    (steps : List Step) (hsteps : twoSiteFull 2 true = some steps) (tG : ℚ) (htimes : stepTimes steps = [tG])
    (Gen : Matrix π π ℂ) (pr : σ → σ → π) (A0 : σ → Matrix a m1 ℂ) (A1 : σ → Matrix m1 b ℂ)
    (U0 : σ → Matrix a k1 ℂ) (M1 : σ → Matrix k1 b ℂ)
    (hgate : ∀ s t, U0 s * M1 t = ∑ s', ∑ t', flow Gen (tG : ℝ) (pr s t) (pr s' t') • (A0 s' * A1 t')) :
    ∀ s0 s1, U0 s0 * M1 s1 = ∑ s', ∑ t', flow Gen 1 (pr s0 s1) (pr s' t') • (A0 s' * A1 t') := by
  have ht := gate_sweep_times 2 (by omega) steps hsteps
  rw [htimes] at ht
  have e : (List.replicate (2 - 2) [(1 : ℚ), -1]).flatten ++ [1] = [1] := rfl
  rw [e] at ht
  simp only [List.cons.injEq, and_true] at ht
  subst ht
  rw [cast_one_neg.1] at hgate
  exact hgate

/-- **C02.9b `gate_sweep_exact_3_left`** (window of three sites, gate on window sites 0,1 — a gate at the chain's left end).
    Sweep: gate pair `(0,1)` with `+1`, split, backward step on site 1 with `-1`, merge, last pair `(1,2)` with `dt = 1`, split.
    The last three cancel (C02.8b). -/
theorem gate_sweep_exact_3_left {σ π a m1 m2 b k1 k2 : Type*} [Fintype σ] [DecidableEq σ] [Fintype π] [DecidableEq π]
    [Fintype a] [Fintype m1] [Fintype m2] [Fintype b] [Fintype k1] [DecidableEq k1] [Fintype k2]
    (steps : List Step) (hsteps : twoSiteFull 3 true = some steps) (tG tRb tR : ℚ)
    (htimes : stepTimes steps = [tG, tRb, tR])
    (Gen : Matrix π π ℂ) (pr : σ → σ → π) (A0 : σ → Matrix a m1 ℂ) (A1 : σ → Matrix m1 m2 ℂ) (A2 : σ → Matrix m2 b ℂ)
    (K : Matrix (σ × k1) (σ × k1) ℂ)
    (U0 : σ → Matrix a k1 ℂ) (M1 M1' : σ → Matrix k1 m2 ℂ) (U1 : σ → Matrix k1 k2 ℂ) (M2 : σ → Matrix k2 b ℂ)
    (hgate : ∀ s t, U0 s * M1 t = ∑ s', ∑ t', flow Gen (tG : ℝ) (pr s t) (pr s' t') • (A0 s' * A1 t'))
    (hsite : M1' = actL (flow K (tRb : ℝ)) M1)
    (hpair : ∀ t', (fun s => U1 s * M2 t') = actL (flow K (tR : ℝ)) (fun s => M1' s * A2 t')) :
    ∀ s0 s1 s2, U0 s0 * U1 s1 * M2 s2 =
      ∑ s', ∑ t', flow Gen 1 (pr s0 s1) (pr s' t') • (A0 s' * A1 t' * A2 s2) := by
  have ht := gate_sweep_times 3 (by omega) steps hsteps
  rw [htimes] at ht
  have e : (List.replicate (3 - 2) [(1 : ℚ), -1]).flatten ++ [1] = [1, -1, 1] := rfl
  rw [e] at ht
  simp only [List.cons.injEq, and_true] at ht
  obtain ⟨rfl, rfl, rfl⟩ := ht
  rw [cast_one_neg.1] at hgate hpair
  rw [cast_one_neg.2] at hsite
  exact sweep_3_left (fun s t s' t' => flow Gen 1 (pr s t) (pr s' t')) A0 A1 A2 K 1 U0 M1 M1' U1 M2 hgate hsite hpair

/-- **C02.9c `gate_sweep_exact_3_right`** (window of three sites, gate on window sites 1,2 — a gate at the chain's right end).
    Sweep: identity-left pair `(0,1)` with `+1`, split, backward step on site 1 with `-1` (these cancel, C02.8a), merge, the
    gate pair `(1,2)` as last pair with `dt = 1`, split. -/
theorem gate_sweep_exact_3_right {σ π a m1 m2 b k1 k2 : Type*} [Fintype σ] [DecidableEq σ] [Fintype π] [DecidableEq π]
    [Fintype a] [Fintype m1] [Fintype m2] [DecidableEq m2] [Fintype b] [Fintype k1] [Fintype k2]
    (steps : List Step) (hsteps : twoSiteFull 3 true = some steps) (tL tLb tG : ℚ)
    (htimes : stepTimes steps = [tL, tLb, tG])
    (Gen : Matrix π π ℂ) (pr : σ → σ → π) (A0 : σ → Matrix a m1 ℂ) (A1 : σ → Matrix m1 m2 ℂ) (A2 : σ → Matrix m2 b ℂ)
    (K : Matrix (σ × m2) (σ × m2) ℂ)
    (U0 : σ → Matrix a k1 ℂ) (M1 M1' : σ → Matrix k1 m2 ℂ) (U1 : σ → Matrix k1 k2 ℂ) (M2 : σ → Matrix k2 b ℂ)
    (hpair : ∀ s, (fun t' => U0 s * M1 t') = actR (flow K (tL : ℝ)) (fun t' => A0 s * A1 t'))
    (hsite : M1' = actR (flow K (tLb : ℝ)) M1)
    (hgate : ∀ s t, U1 s * M2 t = ∑ s', ∑ t', flow Gen (tG : ℝ) (pr s t) (pr s' t') • (M1' s' * A2 t')) :
    ∀ s0 s1 s2, U0 s0 * U1 s1 * M2 s2 =
      ∑ s', ∑ t', flow Gen 1 (pr s1 s2) (pr s' t') • (A0 s0 * A1 s' * A2 t') := by
  have ht := gate_sweep_times 3 (by omega) steps hsteps
  rw [htimes] at ht
  have e : (List.replicate (3 - 2) [(1 : ℚ), -1]).flatten ++ [1] = [1, -1, 1] := rfl
  rw [e] at ht
  simp only [List.cons.injEq, and_true] at ht
  obtain ⟨rfl, rfl, rfl⟩ := ht
  rw [cast_one_neg.1] at hgate hpair
  rw [cast_one_neg.2] at hsite
  exact sweep_3_right (fun s t s' t' => flow Gen 1 (pr s t) (pr s' t')) A0 A1 A2 K 1 U0 M1 M1' U1 M2 hpair hsite hgate

/-- **C02.9d `gate_sweep_exact_4`** (window of four sites, gate on window sites 1,2 — a gate in the middle of the chain; the
    general case).  Sweep of `twoSiteFull 4 true`: [pair (0,1) `+1`, split, site 1 `-1`] cancel (C02.8a); gate pair (1,2) `+1`,
    split; [site 2 `-1`, merge, last pair (2,3) `dt = 1`] cancel (C02.8b); final split.  The product of the four new tensors is
    `exp(-i·Gen)` on physical legs 1, 2 applied to the product of the four old tensors, outer bonds untouched: the window's new
    state is `(1 ⊗ exp(-i·A⊗B) ⊗ 1)·(old window state)`. -/
theorem gate_sweep_exact_4 {σ π a m1 m2 m3 b k1 k2 k3 : Type*} [Fintype σ] [DecidableEq σ] [Fintype π]
    [DecidableEq π] [Fintype a] [Fintype m1] [Fintype m2] [DecidableEq m2] [Fintype m3] [Fintype b] [Fintype k1]
    [Fintype k2] [DecidableEq k2] [Fintype k3]
    (steps : List Step) (hsteps : twoSiteFull 4 true = some steps) (tL tLb tG tRb tR : ℚ)
    (htimes : stepTimes steps = [tL, tLb, tG, tRb, tR])
    (Gen : Matrix π π ℂ) (pr : σ → σ → π)
    (A0 : σ → Matrix a m1 ℂ) (A1 : σ → Matrix m1 m2 ℂ) (A2 : σ → Matrix m2 m3 ℂ) (A3 : σ → Matrix m3 b ℂ)
    (K1 : Matrix (σ × m2) (σ × m2) ℂ) (K2 : Matrix (σ × k2) (σ × k2) ℂ)
    (U0 : σ → Matrix a k1 ℂ) (M1 M1' : σ → Matrix k1 m2 ℂ) (U1 : σ → Matrix k1 k2 ℂ) (M2 M2' : σ → Matrix k2 m3 ℂ)
    (U2 : σ → Matrix k2 k3 ℂ) (M3 : σ → Matrix k3 b ℂ)
    (hpairL : ∀ s, (fun t' => U0 s * M1 t') = actR (flow K1 (tL : ℝ)) (fun t' => A0 s * A1 t'))
    (hsiteL : M1' = actR (flow K1 (tLb : ℝ)) M1)
    (hgate : ∀ s t, U1 s * M2 t = ∑ s', ∑ t', flow Gen (tG : ℝ) (pr s t) (pr s' t') • (M1' s' * A2 t'))
    (hsiteR : M2' = actL (flow K2 (tRb : ℝ)) M2)
    (hpairR : ∀ t', (fun s => U2 s * M3 t') = actL (flow K2 (tR : ℝ)) (fun s => M2' s * A3 t')) :
    ∀ s0 s1 s2 s3, U0 s0 * U1 s1 * U2 s2 * M3 s3 =
      ∑ s', ∑ t', flow Gen 1 (pr s1 s2) (pr s' t') • (A0 s0 * A1 s' * A2 t' * A3 s3) := by
  have ht := gate_sweep_times 4 (by omega) steps hsteps
  rw [htimes] at ht
  have e : (List.replicate (4 - 2) [(1 : ℚ), -1]).flatten ++ [1] = [1, -1, 1, -1, 1] := rfl
  rw [e] at ht
  simp only [List.cons.injEq, and_true] at ht
  obtain ⟨rfl, rfl, rfl, rfl, rfl⟩ := ht
  rw [cast_one_neg.1] at hgate hpairL hpairR
  rw [cast_one_neg.2] at hsiteL hsiteR
  exact sweep_4 (fun s t s' t' => flow Gen 1 (pr s t) (pr s' t')) A0 A1 A2 A3 K1 K2 1 1 U0 M1 M1' U1 M2 M2' U2 M3
    hpairL hsiteL hgate hsiteR hpairR

/-- non-vacuity of C02.9d (and, by dropping sites, of C02.9a–c): the model's step list exists with the times `1,-1,1,-1,1`, and
    for *arbitrary* site tensors, generators and two-site operator there are exact splits and intermediate tensors meeting
    every hypothesis -/
example : ∃ steps, twoSiteFull 4 true = some steps ∧ stepTimes steps = [1, -1, 1, -1, 1] :=
  ⟨_, rfl, by decide +kernel⟩
example {σ a m1 m2 m3 b : Type*} [Fintype σ] [DecidableEq σ] [Fintype a] [Fintype m1] [DecidableEq m1] [Fintype m2]
    [DecidableEq m2] [Fintype m3] [Fintype b] (G : σ → σ → σ → σ → ℂ)
    (A0 : σ → Matrix a m1 ℂ) (A1 : σ → Matrix m1 m2 ℂ) (A2 : σ → Matrix m2 m3 ℂ) (A3 : σ → Matrix m3 b ℂ)
    (K1 : Matrix (σ × m2) (σ × m2) ℂ) (K2 : Matrix (σ × (σ × m1)) (σ × (σ × m1)) ℂ) :
    ∃ (U0 : σ → Matrix a m1 ℂ) (M1 M1' : σ → Matrix m1 m2 ℂ) (U1 : σ → Matrix m1 (σ × m1) ℂ)
      (M2 M2' : σ → Matrix (σ × m1) m3 ℂ) (U2 : σ → Matrix (σ × m1) m3 ℂ) (M3 : σ → Matrix m3 b ℂ),
      (∀ s, (fun t' => U0 s * M1 t') = actR (flow K1 1) (fun t' => A0 s * A1 t')) ∧
      M1' = actR (flow K1 (-1)) M1 ∧
      (∀ s t, U1 s * M2 t = ∑ s', ∑ t', G s t s' t' • (M1' s' * A2 t')) ∧
      M2' = actL (flow K2 (-1)) M2 ∧
      (∀ t', (fun s => U2 s * M3 t') = actL (flow K2 1) (fun s => M2' s * A3 t')) :=
  sweep_4_hyps_sat G A0 A1 A2 A3 K1 K2 1 1

/-- **C02.10 `gate_sweep_gate_matrix`** (link to C18).  The operator `exp(-(1·i)•Gen)` of C02.9a–d for the generator pair a
    gate class stores is the gate's matrix: for each of `cx cz cp rxx ryy rzz` and every real angle, with `Gen = A ⊗ B` in
    gate-qubit order (lower site = `sites[0]`) the entries are those of the gate table; with `Gen = B ⊗ A` (reversed
    orientation, `sites[1] < sites[0]`: `generator_on_own_site` puts `B` on the lower site) they are those of the gate with
    its qubits exchanged.  The pair index is `2·s + t` (`Gates.pair`), the flattening `merge_mps_tensors` uses. -/
theorem gate_sweep_gate_matrix (g : Gates.GG) (θ : ℝ) (s t s' t' : Fin 2) :
    flow (Gates.toM (Gates.genKron (g.generator Complex.I (g.lamOf θ))) : Matrix (Fin 4) (Fin 4) ℂ) 1
        (Gates.pair s t) (Gates.pair s' t') =
      g.toG2.matrix Complex.I (g.circleOf θ).1 (g.circleOf θ).2 (Gates.pair s t) (Gates.pair s' t') ∧
    flow (Gates.toM (Gates.kron (g.generator Complex.I (g.lamOf θ)).2 (g.generator Complex.I (g.lamOf θ)).1) :
        Matrix (Fin 4) (Fin 4) ℂ) 1 (Gates.pair s t) (Gates.pair s' t') =
      Gates.placed (g.toG2.matrix Complex.I (g.circleOf θ).1 (g.circleOf θ).2) true (Gates.pair s t) (Gates.pair s' t') := by
  have h1 : ∀ K : Matrix (Fin 4) (Fin 4) ℂ, flow K 1 = NormedSpace.exp ((-Complex.I) • K) := by
    intro K
    unfold flow
    congr 2
    simp
  rw [h1, h1, Gates.c18_generator_exp, Gates.c18_generator_exp_reversed]
  exact ⟨rfl, rfl⟩

/-- non-vacuity: the `cx` matrix at `(control, target) = (1, 0) → (1, 1)` is 1 -/
example : (Gates.G2.matrix .cx Complex.I 1 0 : Gates.M4 ℂ) (Gates.pair 1 1) (Gates.pair 1 0) = 1 := by
  simp [Gates.G2.matrix, Gates.cx, Gates.m4, Gates.v4, Gates.pair]

end Yaqs.GateSweep

namespace Yaqs.Layers

open Matrix

/-- **C02.11 `c02_trajectory_is_circuit_unitary`** (corollary of `schedule_sound`).  Let `sem g` be the dense operator of
    gate `g` on the whole register — for a two-qubit gate the gate matrix on its two sites (C02.9 + C02.10: that is what one
    `apply_two_qubit_gate` call applies to the dense state), for a one-qubit gate its 2×2 matrix contracted into the site
    tensor — and assume gates on disjoint qubits commute.  Then applying the gates one after the other *in the order
    `digital_tjm` applies them* to any initial vector gives `U_circuit · ψ₀`, the product of the program's gates in program
    order (later gate on the left), for every circuit. -/
theorem c02_trajectory_is_circuit_unitary {n : Type*} [Fintype n] [DecidableEq n] (sem : Instr → Matrix n n ℂ)
    (hcomm : ∀ g h, g.isGate = true → h.isGate = true → (∀ q, ¬(q ∈ g.qubits ∧ q ∈ h.qubits)) →
      Commute (sem g) (sem h))
    (c : List Instr) (ψ0 : n → ℂ) :
    (schedule c).foldl (fun ψ g => sem g *ᵥ ψ) ψ0 = (((gates c).map sem).reverse.prod) *ᵥ ψ0 := by
  have key : ∀ (l : List Instr) (ψ : n → ℂ), l.foldl (fun ψ g => sem g *ᵥ ψ) ψ = ((l.map sem).reverse.prod) *ᵥ ψ := by
    intro l
    induction l with
    | nil => intro ψ; simp
    | cons g l ih =>
      intro ψ
      rw [List.foldl_cons, ih, List.map_cons, List.reverse_cons, List.prod_append, List.prod_singleton,
        Matrix.mulVec_mulVec]
  rw [key, (schedule_sound sem hcomm c).2]

/-- non-vacuity: two gates on different qubits of a 2-qubit register (`Z ⊗ 1` and `1 ⊗ X` as 4×4 matrices) commute and
    are not scalar -/
example : Commute (Matrix.diagonal ![1, 1, -1, -1] : Matrix (Fin 4) (Fin 4) ℂ)
    (!![0, 1, 0, 0; 1, 0, 0, 0; 0, 0, 0, 1; 0, 0, 1, 0] : Matrix (Fin 4) (Fin 4) ℂ) := by
  unfold Commute SemiconjBy
  ext i j
  fin_cases i <;> fin_cases j <;> simp [Matrix.mul_apply, Matrix.diagonal]

end Yaqs.Layers
