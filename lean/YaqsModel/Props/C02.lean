import YaqsModel.Lemmas.Layers

/-!
# C02 — noise-free circuit simulation equals the exact unitary semantics of the circuit

Property theorems only (helper lemmas: `Lemmas/Layers.lean`; model: `Model/Layers.lean`).

What is decided here, for **every** circuit (any width, depth, gate placement, orientation, any sprinkling of
barriers / labelled barriers / measurements): the order in which `digital_tjm` applies the gates — layer by
layer, singles, then even pairs, then odd pairs, each sorted by qubit — is a dependency-respecting
linearisation of the program, hence the product of the applied gates equals the product of the program in
*any* monoid in which gates on disjoint qubits commute (`schedule_sound`).  Instantiated with the unitary
matrices of the gates this is "the simulated state is the exact state vector".

Not proved here (by design): that one `apply_two_qubit_gate` call realises the gate's matrix
(`Matrix.exp (-i • A ⊗ B) = matrix` for cx, cz, cp, rxx, ryy, rzz at every angle) — this is C18
(`Props/C18.lean`: `c18_generator_exp`, `c18_generator_exp_reversed`, `c18_generator_slots`); that a noise-free run executes exactly one trajectory whatever
`num_traj` was — this is C20 (`noise_free_single_traj`).  Both are checked on the real code by the C02 oracle
(`simulator.run` vs qiskit `Statevector`, independence of `num_traj`).
-/
namespace Yaqs.Layers

open List

/-- **C02.1** The gate schedule of `digital_tjm` is a permutation of the gate instructions of the circuit:
    every gate is applied exactly once and nothing else is applied — for every circuit. -/
theorem schedule_perm (c : List Instr) : (schedule c).Perm (gates c) :=
  schedule_perm_gates c

example : schedule [.gate1 1 0, .gate2 2 1 0, .barrier [0], .measure 1 0, .gate1 3 1, .gate2 4 2 1, .gate1 5 0]
    = [.gate1 1 0, .gate2 2 1 0, .gate1 5 0, .gate1 3 1, .gate2 4 2 1] := by decide

/-- **C02.2** (wire order) On every qubit, the gates touching that qubit are applied in program order:
    the schedule restricted to a qubit *is* the program restricted to that qubit.  Holds whatever the
    even/odd grouping and the sorting inside a layer do, for every circuit. -/
theorem schedule_respects_wires (c : List Instr) (q : Nat) :
    (schedule c).filter (fun g => g.qubits.contains q) = (gates c).filter (fun g => g.qubits.contains q) := by
  rw [← onWire_q, ← onWire_q]
  exact schedule_onWire c (Wire.q q)

/-- **C02.2'** (pairwise form) Two gates that share a qubit are applied in the order in which they stand in
    the program (`[g, h] <+ l` : `g` occurs before `h` in `l`). -/
theorem schedule_keeps_order (c : List Instr) (g h : Instr) (q : Nat) (hg : q ∈ g.qubits) (hh : q ∈ h.qubits) :
    [g, h] <+ gates c ↔ [g, h] <+ schedule c := by
  have key : ∀ l₁ l₂ : List Instr,
      l₁.filter (fun g => g.qubits.contains q) = l₂.filter (fun g => g.qubits.contains q) →
      [g, h] <+ l₁ → [g, h] <+ l₂ := by
    intro l₁ l₂ he hs
    have h1 : [g, h].filter (fun g => g.qubits.contains q) <+ l₁.filter (fun g => g.qubits.contains q) :=
      hs.filter _
    have h2 : [g, h].filter (fun g => g.qubits.contains q) = [g, h] := by
      simp [hg, hh]
    rw [h2, he] at h1
    exact h1.trans (List.filter_sublist)
  exact ⟨key _ _ (schedule_respects_wires c q).symm, key _ _ (schedule_respects_wires c q)⟩

example : [Instr.gate2 2 1 0, .gate1 5 0] <+
    schedule [.gate1 1 0, .gate2 2 1 0, .barrier [0], .measure 1 0, .gate1 3 1, .gate2 4 2 1, .gate1 5 0] := by
  decide

/-- **C02.3** (soundness of the schedule) In any monoid `M` with an interpretation `sem` of gates in which
    gates on disjoint qubits commute, the product of the gates in the order `digital_tjm` applies them equals
    the product in program order — in both multiplication conventions (`reverse` = operator composition,
    the later gate on the left).  No bound on width, depth or the placement of non-gate instructions. -/
theorem schedule_sound {M : Type*} [Monoid M] (sem : Instr → M)
    (hcomm : ∀ g h, g.isGate = true → h.isGate = true → (∀ q, ¬(q ∈ g.qubits ∧ q ∈ h.qubits)) →
      Commute (sem g) (sem h))
    (c : List Instr) :
    ((schedule c).map sem).prod = ((gates c).map sem).prod ∧
    ((schedule c).map sem).reverse.prod = ((gates c).map sem).reverse.prod :=
  gate_prod_eq sem hcomm (schedule c) (gates c) (fun _ h => mem_gates h) (fun _ h => mem_gates h)
    (schedule_perm c) (schedule_onWire c)

/-- non-vacuity of `schedule_sound`: a non-commutative interpretation that meets the hypothesis.
    `M` = pairs of words over ℕ (free monoid × free monoid); a gate on qubit 0 writes its tag into the first
    word, a gate on qubit 1 into the second, everything else is the unit.  Gates on the same qubit do not
    commute, gates on different qubits do. -/
example :
    let sem : Instr → FreeMonoid Nat × FreeMonoid Nat := fun i =>
      match i with
      | .gate1 t 0 => (FreeMonoid.of t, 1)
      | .gate1 t 1 => (1, FreeMonoid.of t)
      | _ => 1
    (∀ g h, g.isGate = true → h.isGate = true → (∀ q, ¬(q ∈ g.qubits ∧ q ∈ h.qubits)) →
      Commute (sem g) (sem h)) ∧ ¬ Commute (sem (.gate1 1 0)) (sem (.gate1 2 0)) := by
  intro sem
  constructor
  · intro g h _ _ hd
    have comm1 : ∀ x : FreeMonoid Nat × FreeMonoid Nat, Commute (1 : FreeMonoid Nat × FreeMonoid Nat) x :=
      fun x => Commute.one_left x
    rcases g with ⟨t, q⟩ | _ | _ | _ | _ <;> rcases h with ⟨t', q'⟩ | _ | _ | _ | _ <;>
      try exact Commute.one_left _
    all_goals try exact Commute.one_right _
    -- both single-qubit gates
    match q, q' with
    | 0, 0 => exact absurd ⟨by simp [Instr.qubits], by simp [Instr.qubits]⟩ (hd 0)
    | 1, 1 => exact absurd ⟨by simp [Instr.qubits], by simp [Instr.qubits]⟩ (hd 1)
    | 0, 1 => simp [sem, Commute, SemiconjBy]
    | 1, 0 => simp [sem, Commute, SemiconjBy]
    | 0, (_ + 2) => exact Commute.one_right _
    | 1, (_ + 2) => exact Commute.one_right _
    | (_ + 2), _ => exact Commute.one_left _
  · intro hc
    have := congrArg Prod.fst hc.eq
    simp only [sem, Prod.fst_mul] at this
    have h2 := congrArg FreeMonoid.toList this
    simp at h2

/-- **C02.3'** (what the simulator actually does) In every mode — strong with or without layer sampling,
    weak — the sequence of `apply_single_qubit_gate` / `apply_two_qubit_gate` calls of `digital_tjm` is the
    schedule; in particular it does not depend on the mode, on `num_mid_measurements`, or on where
    barriers / measurements stand beyond what C02.2 allows. -/
theorem events_are_schedule (mode : Mode) (numMid : Nat) (c : List Instr) (evs : List Event)
    (h : digitalTjm mode numMid c = some evs) :
    evs.filter Event.isApp = (schedule c).filterMap Event.ofInstr := by
  unfold digitalTjm digitalTjmWith at h
  rw [visit_eq c] at h
  simp only at h
  have ha := apps_emit mode.sampling 0 (visit c)
  cases mode <;> simp only [Option.some.injEq] at h <;> subst h <;>
    simp [List.filter_append, Event.isApp, ha, schedule]

example : digitalTjm .strongPlain 0 [.gate1 1 0, .sbarrier [0, 1], .gate2 2 1 0, .measure 0 0, .gate1 3 1] =
    some [.app1 1 0, .app2 2 1 0, .app1 3 1, .eval 0] := by decide

/-- **C02.4a** `construct_generator_mpo` puts generator factor `k` on `gate.sites[k]`, whatever the
    orientation: with `sites = [a, b]`, `a ≠ b`, the returned `(first_site, last_site)` are `(min, max)`
    and the factor index stored with each site is the position of that site in `sites`.
    (That `exp(-i · factor₀ ⊗ factor₁)` is the gate's matrix is C18.) -/
theorem generator_on_own_site (a b : Nat) (hab : a ≠ b) :
    let p := genPlacement a b
    p.1.1 = min a b ∧ p.2.1 = max a b ∧ p.1.1 < p.2.1 ∧
    [a, b][p.1.2]? = some p.1.1 ∧ [a, b][p.2.2]? = some p.2.1 := by
  unfold genPlacement
  by_cases h : a < b
  · rw [if_pos h]
    refine ⟨by simp only; omega, by simp only; omega, by simp only; omega, by simp, by simp⟩
  · rw [if_neg h]
    refine ⟨by simp only; omega, by simp only; omega, by simp only; omega, by simp, by simp⟩

example : genPlacement 3 2 = ((2, 1), (3, 0)) := by decide

/-- **C02.4b** The window handed to the two-site TDVP sweep contains both sites of the gate, lies inside the
    chain and has at least two sites (the `assert` of `apply_window` never fires for a two-qubit gate). -/
theorem window_ok (L first last : Nat) (h1 : first < last) (h2 : last < L) :
    let w := window L first last
    w.1 ≤ first ∧ last ≤ w.2 ∧ w.2 < L ∧ 1 < w.2 - w.1 + 1 := by
  unfold window
  simp only
  omega

example : window 5 0 1 = (0, 2) ∧ window 5 3 4 = (2, 4) ∧ window 2 0 1 = (0, 1) := by decide

/-- **C02.1c** (`dag.front_layer()`, the function the front-layer tie compares with qiskit on every run) the model's
    front of a remaining-instruction list holds, for every wire, at most one instruction, and that instruction is the
    first one on the wire (the remaining ones keep their order behind it); it is empty only when nothing remains. -/
theorem front_layer_spec (rem : List Instr) (w : Wire) :
    (onWire w (front rem)).length ≤ 1 ∧
    onWire w rem = onWire w (front rem) ++ onWire w (splitFront stayNew [] rem).2 ∧
    (rem ≠ [] → front rem ≠ []) := by
  refine ⟨onWire_front_le_one stayNew [] rem w, split_onWire [] rem w, ?_⟩
  intro hne
  cases rem with
  | nil => exact absurd rfl hne
  | cons i rest =>
    have h := split_length [] (i :: rest)
    have h2 := split_rest_lt i rest
    intro hc
    unfold front at hc
    rw [hc] at h
    simp only [List.length_nil, List.length_cons] at h h2
    omega

end Yaqs.Layers
