import YaqsModel.Lemmas.GatesUnitary
import YaqsModel.Lemmas.GatesAlgebra
import YaqsModel.Lemmas.GatesSpectralA
import YaqsModel.Lemmas.GatesSpectralB
import YaqsModel.Lemmas.GatesExp

/-!
# C18 — a gate's matrix, tensor, generator and MPO forms all describe the standard gate

Property theorems only.  The gate table `Model/Gates.lean` is a family of functions of ring elements; every
theorem below holds in an **arbitrary commutative ring** `K` (with a star operation where a conjugate transpose
appears) for **all** parameter values that satisfy the stated polynomial hypotheses
(`i*i = -1`, `c*c + s*s = 1`, `2*hh*hh = 1`, `2*hf = 1`).  `K = ℂ`, `c = cos(θ/2)`, `s = sin(θ/2)` gives every real
angle; `K = CRat` gives the rational unit-circle points the correspondence check runs (see the `example`s).
The generator clause is additionally proved with Mathlib's genuine matrix exponential over ℂ for every real θ
(`c18_generator_exp`).  The MPO clause is proved for every number of identity tensors (every distance), both
orientations and every exact split (every bond dimension).

Which clause of the property each theorem is: `std_…` = "has the unitary matrix of the standard gate";
`generator_…` = "the generator pair exponentiates to it"; `tensor_…` = "the four-index tensor is the matrix placed
on the given qubits in the given orientation"; `mpo_…` = "the MPO form contracts to the gate acting on the two given
qubits with identities in between, for either orientation and any distance".
-/
namespace Yaqs.Gates
open Matrix

variable {K : Type} [CommRing K]

/-! ## std_matrix -/

section unitary
variable [StarRing K]

/-- **std_matrix (unitarity, fixed one-qubit gates)** `X Y Z H SX Id` are unitary. -/
theorem c18_std_unitary_fixed (i hh hf : K) (hi : i * i = -1) (hsi : star i = -i)
    (hhh : 2 * hh * hh = 1) (hsh : star hh = hh) (hhf : 2 * hf = 1) (hshf : star hf = hf) :
    IsUnitary (x : M2 K) ∧ IsUnitary (y i) ∧ IsUnitary (z : M2 K) ∧ IsUnitary (h hh) ∧ IsUnitary (sx i hf)
      ∧ IsUnitary (one2 : M2 K) :=
  ⟨unitary_x, unitary_y i hi hsi, unitary_z, unitary_h hh hhh hsh, unitary_sx i hf hi hsi hhf hshf, unitary_one2⟩

/-- **std_matrix (unitarity, parametrised one-qubit gates)** `Rx Ry Rz Phase` are unitary for every unit-circle
    point `(c, s)` with real coordinates. -/
theorem c18_std_unitary_rot (i c s : K) (hi : i * i = -1) (hsi : star i = -i) (hc : star c = c) (hs : star s = s)
    (h1 : c * c + s * s = 1) :
    IsUnitary (rx i c s) ∧ IsUnitary (ry c s) ∧ IsUnitary (rz i c s) ∧ IsUnitary (phase i c s) :=
  ⟨unitary_rx i c s hi hsi hc hs h1, unitary_ry c s hc hs h1, unitary_rz i c s hi hsi hc hs h1,
    unitary_phase i c s hi hsi hc hs h1⟩

/-- **std_matrix (unitarity, `U` and `U2`)** for every unit-circle point `(c,s)` and unit-modulus `e^{iφ}`, `e^{iλ}`. -/
theorem c18_std_unitary_u (c s hh ephi elam : K) (hc : star c = c) (hs : star s = s) (h1 : c * c + s * s = 1)
    (hhh : 2 * hh * hh = 1) (hsh : star hh = hh) (hphi : ephi * star ephi = 1) (hlam : elam * star elam = 1) :
    IsUnitary (u c s ephi elam) ∧ IsUnitary (u2 hh ephi elam) :=
  ⟨unitary_u c s ephi elam hc hs h1 hphi hlam, unitary_u2 hh ephi elam hhh hsh hphi hlam⟩

/-- **std_matrix (unitarity, two-qubit gates)** every two-qubit gate class `CX CZ CPhase SWAP Rxx Ryy Rzz` is unitary
    for every unit-circle point. -/
theorem c18_std_unitary_2q (g : G2) (i c s : K) (hi : i * i = -1) (hsi : star i = -i) (hc : star c = c)
    (hs : star s = s) (h1 : c * c + s * s = 1) : IsUnitary (g.matrix i c s) := by
  cases g
  · exact unitary_cx
  · exact unitary_cz
  · exact unitary_cp i c s hi hsi hc hs h1
  · exact unitary_swap
  · exact unitary_rxx i c s hi hsi hc hs h1
  · exact unitary_ryy i c s hi hsi hc hs h1
  · exact unitary_rzz i c s hi hsi hc hs h1

/-- **std_matrix (Pauli strings)** `XX YY ZZ` are unitary involutions. -/
theorem c18_std_unitary_pauli2 (i : K) (hi : i * i = -1) (hsi : star i = -i) :
    IsUnitary (xx : M4 K) ∧ IsUnitary (yy i) ∧ IsUnitary (zz : M4 K) :=
  ⟨unitary_xx, unitary_yy i hi hsi, unitary_zz⟩

end unitary

/-- **std_matrix (involutions)** `X² = Y² = Z² = H² = 1`, `SX² = X`, `CX² = CZ² = SWAP² = 1`. -/
theorem c18_std_involutions (i hh hf : K) (hi : i * i = -1) (hhh : 2 * hh * hh = 1) (hhf : 2 * hf = 1) :
    toM (x : M2 K) * toM x = 1 ∧ toM (y i) * toM (y i) = 1 ∧ toM (z : M2 K) * toM z = 1 ∧
    toM (h hh) * toM (h hh) = 1 ∧ toM (sx i hf) * toM (sx i hf) = toM x ∧
    toM (cx : M4 K) * toM cx = 1 ∧ toM (cz : M4 K) * toM cz = 1 ∧ toM (swap : M4 K) * toM swap = 1 :=
  ⟨inv_x, inv_y i hi, inv_z, inv_h hh hhh, sx_sq i hf hi hhf, inv_cx, inv_cz, inv_swap⟩

/-- **std_matrix (Pauli algebra)** `XY = iZ`, `YZ = iX`, `ZX = iY`, and `H = (X+Z)/√2`. -/
theorem c18_std_pauli_algebra (i hh : K) (hi : i * i = -1) :
    toM (x : M2 K) * toM (y i) = i • toM z ∧ toM (y i) * toM (z : M2 K) = i • toM x ∧
    toM (z : M2 K) * toM x = i • toM (y i) ∧ toM (h hh) = hh • (toM x + toM z) :=
  ⟨pauli_xy i hi, pauli_yz i hi, pauli_zx i hi, h_xz hh⟩

/-- **std_matrix (rotations)** each rotation gate is `cos·1 − i sin·σ` for its Pauli (string) `σ` — the closed form of
    `exp(−iθσ/2)`; in particular `rzz` is the diagonal matrix `diag(c−is, c+is, c+is, c−is)`. -/
theorem c18_std_rotations (i c s : K) (hi : i * i = -1) :
    toM (rx i c s) = c • 1 + (-(i * s)) • toM x ∧
    toM (ry c s) = c • 1 + (-(i * s)) • toM (y i) ∧
    toM (rz i c s) = c • 1 + (-(i * s)) • toM z ∧
    toM (rxx i c s) = c • 1 + (-(i * s)) • toM xx ∧
    toM (ryy i c s) = c • 1 + (-(i * s)) • toM (yy i) ∧
    toM (rzz i c s) = c • 1 + (-(i * s)) • toM zz ∧
    rzz i c s = diag4 (c + -(i * s)) (c + i * s) (c + i * s) (c + -(i * s)) := by
  refine ⟨rot_rx i c s, rot_ry i c s hi, rot_rz i c s, rot_rxx i c s, rot_ryy i c s hi, rot_rzz i c s, ?_⟩
  funext r q; fin_cases r <;> fin_cases q <;> simp [rzz, diag4, m4, v4]

/-- **std_matrix (controlled gates)** `CX = |0⟩⟨0|⊗1 + |1⟩⟨1|⊗X`, `CZ = |0⟩⟨0|⊗1 + |1⟩⟨1|⊗Z`,
    `CPhase = |0⟩⟨0|⊗1 + |1⟩⟨1|⊗Phase` (control = first gate qubit = most significant index), `CZ = CPhase(π)`. -/
theorem c18_std_controlled (i c s : K) :
    (cx : M4 K) = add4 (kron p0 one2) (kron p1 x) ∧ (cz : M4 K) = add4 (kron p0 one2) (kron p1 z) ∧
    cp i c s = add4 (kron p0 one2) (kron p1 (phase i c s)) ∧ (cz : M4 K) = cp i (-1) 0 := by
  refine ⟨?_, ?_, ?_, ?_⟩ <;> funext r q <;> fin_cases r <;> fin_cases q <;>
    simp [cx, cz, cp, add4, kron, p0, p1, one2, x, z, phase, m2, v2, m4, v4, hi, lo]

/-- **std_matrix (`U`, `U2`)** `U(θ,φ,λ) = Phase(φ)·Ry(θ)·Phase(λ)` and `U2(φ,λ) = U(π/2,φ,λ)`. -/
theorem c18_std_u_decomposition (i c s hh cp' sp cl sl : K) :
    toM (u c s (cis i cp' sp) (cis i cl sl)) = toM (phase i cp' sp) * toM (ry c s) * toM (phase i cl sl) ∧
    u2 hh (cis i cp' sp) (cis i cl sl) = u hh hh (cis i cp' sp) (cis i cl sl) := by
  refine ⟨u_decomp i c s cp' sp cl sl, ?_⟩
  funext r q; fin_cases r <;> fin_cases q <;> simp [u2, u, m2, v2] <;> ring

/-- **std_matrix (`SWAP`)** `SWAP = CX·CX'·CX` with `CX'` the CX with control and target exchanged. -/
theorem c18_std_swap : toM (swap : M4 K) = toM cx * toM (placed cx true) * toM cx := swap_cx3

/-- **std_matrix (standard circuit identities)** `Rx = H·Rz·H`, `CX = (1⊗H)·CZ·(1⊗H)`, `Rxx = (H⊗H)·Rzz·(H⊗H)`,
    `Rzz = CX·(1⊗Rz)·CX` — the table is the standard one up to these textbook conjugations. -/
theorem c18_std_conjugations (i c s hh : K) (hhh : 2 * hh * hh = 1) :
    toM (rx i c s) = toM (h hh) * toM (rz i c s) * toM (h hh) ∧
    toM (cx : M4 K) = toM (kron one2 (h hh)) * toM cz * toM (kron one2 (h hh)) ∧
    toM (rxx i c s) = toM (kron (h hh) (h hh)) * toM (rzz i c s) * toM (kron (h hh) (h hh)) ∧
    toM (rzz i c s) = toM cx * toM (kron one2 (rz i c s)) * toM cx :=
  ⟨rx_h_rz_h i c s hh hhh, cx_h_cz_h hh hhh, rxx_hh_rzz i c s hh hhh, rzz_cx_rz_cx i c s⟩

/-- **std_matrix (ladder operators, projectors)** `P0 + P1 = 1`, `a a† = P0`, `a† a = P1`, `a† = aᵀ`. -/
theorem c18_std_ladder :
    toM (p0 : M2 K) + toM p1 = 1 ∧ toM (destroy : M2 K) * toM create = toM p0 ∧
    toM (create : M2 K) * toM destroy = toM p1 ∧ (toM (destroy : M2 K))ᵀ = toM create := by
  refine ⟨ladder_sum, ladder_aad, ladder_ada, ?_⟩
  ext r q; fin_cases r <;> fin_cases q <;> simp [toM, destroy, create, m2, v2, Matrix.transpose_apply]

/-! ## tensor_orientation -/

/-- **tensor_orientation** for every two-qubit class, every parameter value and both orientations: all sixteen entries
    of `gate.tensor` after `set_sites` are those of the gate matrix placed on (lower site, higher site) — the matrix
    itself when the first gate qubit is the lower site, its `(1,0,3,2)` transpose otherwise.  For the classes whose
    `set_sites` does not transpose (`CPhase SWAP Rxx Ryy Rzz`) this holds because their matrices are exchange symmetric. -/
theorem c18_tensor_orientation (g : G2) (i c s : K) (rev : Bool) (a b c' d : Fin 2) :
    g.tensor i c s rev a b c' d = tensorOf (placed (g.matrix i c s) rev) a b c' d := by
  cases rev
  · simp [G2.tensor, placed]
  · cases g <;> simp only [G2.tensor, G2.transposesOnReverse, placed, tensorOf, transpose1032, sw_pair, Bool.and_true,
      if_true, Bool.false_eq_true, if_false] <;>
      fin_cases a <;> fin_cases b <;> fin_cases c' <;> fin_cases d <;>
      simp [G2.matrix, cp, swap, rxx, ryy, rzz, m4, v4, pair]

omit [CommRing K] in
/-- **tensor_orientation (index identity)** the `(1,0,3,2)` transpose of the reshaped matrix is the reshaped
    exchange-conjugated matrix, for every 4×4 matrix. -/
theorem c18_tensor_transpose (M : M4 K) (a b c d : Fin 2) :
    transpose1032 (tensorOf M) a b c d = tensorOf (placed M true) a b c d := by
  simp [transpose1032, tensorOf, placed, sw_pair]

/-- **tensor_orientation (operator reading)** placing a gate matrix with its qubits exchanged is conjugation by `SWAP`. -/
theorem c18_placed_swap_conj (M : M4 K) : toM (placed M true) = toM swap * toM M * toM swap := by
  ext r q
  fin_cases r <;> fin_cases q <;>
    simp [toM, placed, sw, pair, hi, lo, swap, m4, v4, Matrix.mul_apply, Fin.sum_univ_four]

/-- **generator orientation** exchanging the two generator factors is the same placement rule:
    `B ⊗ A = SWAP (A ⊗ B) SWAP`, so `exp(−i·B⊗A)` is the gate with its qubits exchanged. -/
theorem c18_generator_orientation (A B : M2 K) : kron B A = placed (kron A B) true := by
  funext r q
  fin_cases r <;> fin_cases q <;> simp [kron, placed, sw, pair, hi, lo, mul_comm]

/-- **generator placement** (`construct_generator_mpo`): for distinct sites inside the chain, factor `A = generator[0]`
    sits on `sites[0]`, `B = generator[1]` on `sites[1]`, identities elsewhere — in either orientation. -/
theorem c18_generator_slots (q0 q1 L : Nat) (hne : q0 ≠ q1) (h0 : q0 < L) (h1 : q1 < L) :
    (generatorSlots q0 q1 L).length = L ∧ (generatorSlots q0 q1 L)[q0]? = some Slot.A ∧
    (generatorSlots q0 q1 L)[q1]? = some Slot.B ∧
    ∀ k, k < L → k ≠ q0 → k ≠ q1 → (generatorSlots q0 q1 L)[k]? = some Slot.I := by
  unfold generatorSlots
  simp only [List.length_map, List.length_range, List.getElem?_map, true_and]
  refine ⟨?_, ?_, ?_⟩
  · rw [List.getElem?_range h0]
    by_cases h : q0 < q1
    · simp [h]
    · simp [h]; omega
  · rw [List.getElem?_range h1]
    by_cases h : q0 < q1
    · simp [h]; omega
    · simp [h]
  · intro k hk hk0 hk1
    rw [List.getElem?_range hk]
    by_cases h : q0 < q1 <;> simp [h, hk0, hk1]

/-! ## generator_exp -/

/-- **generator_exp (spectral form)** for each of `cx cz cp rxx ryy rzz`, every value of the angle parameter and of
    `hf = ½`: the two matrices `P₀, P₁` are complementary orthogonal idempotents and `λ₀P₀ + λ₁P₁ = A ⊗ B`,
    the Kronecker product of the stored generator pair, with eigenvalues linear in the angle parameter. -/
theorem c18_generator_spectral (g : GG) (i hf lam : K) (hi : i * i = -1) (hhf : 2 * hf = 1) :
    toM (g.proj hf).1 + toM (g.proj hf).2 = 1 ∧
    toM (g.proj hf).1 * toM (g.proj hf).1 = toM (g.proj hf).1 ∧
    toM (g.proj hf).2 * toM (g.proj hf).2 = toM (g.proj hf).2 ∧
    toM (g.proj hf).1 * toM (g.proj hf).2 = 0 ∧
    toM (g.proj hf).2 * toM (g.proj hf).1 = 0 ∧
    (g.eig lam).1 • toM (g.proj hf).1 + (g.eig lam).2 • toM (g.proj hf).2 = toM (genKron (g.generator i lam)) := by
  cases g
  · exact ⟨proj_cx_sum hf hhf, proj_cx_pp hf hhf, proj_cx_qq hf hhf, proj_cx_pq hf hhf, proj_cx_qp hf hhf, eig_cx i hf lam hi hhf⟩
  · exact ⟨proj_cz_sum hf hhf, proj_cz_pp hf hhf, proj_cz_qq hf hhf, proj_cz_pq hf hhf, proj_cz_qp hf hhf, eig_cz i hf lam hi hhf⟩
  · exact ⟨proj_cp_sum hf hhf, proj_cp_pp hf hhf, proj_cp_qq hf hhf, proj_cp_pq hf hhf, proj_cp_qp hf hhf, eig_cp i hf lam hi hhf⟩
  · exact ⟨proj_rxx_sum hf hhf, proj_rxx_pp hf hhf, proj_rxx_qq hf hhf, proj_rxx_pq hf hhf, proj_rxx_qp hf hhf, eig_rxx i hf lam hi hhf⟩
  · exact ⟨proj_ryy_sum hf hhf, proj_ryy_pp hf hhf, proj_ryy_qq hf hhf, proj_ryy_pq hf hhf, proj_ryy_qp hf hhf, eig_ryy i hf lam hi hhf⟩
  · exact ⟨proj_rzz_sum hf hhf, proj_rzz_pp hf hhf, proj_rzz_qq hf hhf, proj_rzz_pq hf hhf, proj_rzz_qp hf hhf, eig_rzz i hf lam hi hhf⟩

/-- **generator_exp (spectral form, image)** applying to the eigenvalues any scalar function `f` that takes the values
    of `λ ↦ exp(−iλ)` there — `f(λ₀), f(λ₁)` = the unit-circle points of the gate parameter — gives exactly the gate
    matrix: `f(λ₀)P₀ + f(λ₁)P₁ = matrix`. -/
theorem c18_generator_spectral_matrix (g : GG) (i hf lam c s : K) (f : K → K) (hhf : 2 * hf = 1)
    (h0 : f (g.eig lam).1 = (g.phases i c s).1) (h1 : f (g.eig lam).2 = (g.phases i c s).2) :
    g.spectral hf lam f = g.toG2.matrix i c s := by
  unfold GG.spectral
  rw [h0, h1]
  cases g <;> funext r q <;> fin_cases r <;> fin_cases q <;>
    simp [GG.proj, GG.phases, GG.toG2, G2.matrix, add4, smul4, diag4, projPlus, projMinus, cx, cz, cp, rxx, ryy, rzz,
      m4, v4] <;> grind

/-- **generator_exp (every real angle, Mathlib's matrix exponential over ℂ)** for each of `cx cz cp rxx ryy rzz` and
    every real θ: `exp(−i · A ⊗ B) = matrix(θ)`, where `[A, B]` is the generator pair the class stores for θ
    (`np.pi/4` for cx cz) and the matrix is the gate table at `(cos, sin)` of θ (cp) or θ/2 (rxx ryy rzz). -/
theorem c18_generator_exp (g : GG) (θ : ℝ) :
    NormedSpace.exp ((-Complex.I) • (toM (genKron (g.generator Complex.I (g.lamOf θ))) : Matrix (Fin 4) (Fin 4) ℂ))
      = toM (g.toG2.matrix Complex.I (g.circleOf θ).1 (g.circleOf θ).2) := by
  have hhf : (2 : ℂ) * (1 / 2) = 1 := by norm_num
  obtain ⟨hsum, hPP, hQQ, hPQ, hQP, hgen⟩ :=
    c18_generator_spectral g Complex.I (1 / 2 : ℂ) (g.lamOf θ) Complex.I_mul_I hhf
  obtain ⟨he0, he1⟩ := phases_of_exp g θ
  rw [← hgen, smul_add, smul_smul, smul_smul, exp_two_proj _ _ hPP hQQ hPQ hQP hsum]
  have hm := c18_generator_spectral_matrix g Complex.I (1 / 2 : ℂ) (g.lamOf θ) (g.circleOf θ).1 (g.circleOf θ).2
    (fun l => Complex.exp (-Complex.I * l)) hhf he0 he1
  rw [← hm]
  ext r q
  simp [GG.spectral, add4, smul4, toM]

/-- **generator_exp, reversed orientation** when `sites[1] < sites[0]` the consumer puts `B = generator[1]` on the lower
    site, i.e. exponentiates `B ⊗ A`; for every real θ that is the gate with its qubits exchanged — the same placement
    rule as `c18_tensor_orientation`, so generator and tensor forms agree in both orientations. -/
theorem c18_generator_exp_reversed (g : GG) (θ : ℝ) :
    NormedSpace.exp ((-Complex.I) • (toM (kron (g.generator Complex.I (g.lamOf θ)).2
        (g.generator Complex.I (g.lamOf θ)).1) : Matrix (Fin 4) (Fin 4) ℂ))
      = toM (placed (g.toG2.matrix Complex.I (g.circleOf θ).1 (g.circleOf θ).2) true) := by
  rw [c18_generator_orientation, c18_placed_swap_conj, c18_placed_swap_conj]
  have hS : toM (swap : M4 ℂ) * toM swap = 1 := inv_swap
  have hinv : (toM (swap : M4 ℂ))⁻¹ = toM swap := Matrix.inv_eq_right_inv hS
  have hU : IsUnit (toM (swap : M4 ℂ)) := ⟨⟨toM swap, toM swap, hS, hS⟩, rfl⟩
  have hconj := Matrix.exp_conj (toM (swap : M4 ℂ))
    ((-Complex.I) • (toM (genKron (g.generator Complex.I (g.lamOf θ))) : Matrix (Fin 4) (Fin 4) ℂ)) hU
  rw [hinv, c18_generator_exp g θ] at hconj
  rw [← hconj]
  congr 1
  rw [Matrix.mul_smul, Matrix.smul_mul]
  rfl

/-- **generator_exp fails for the `CZ` generator as found (D3)**: the old pair is the generator of `CX`; its exponential
    is the `CX` matrix, which differs from the `CZ` matrix in entry (2,2) (0 instead of 1). -/
theorem c18_cz_generator_old_wrong :
    NormedSpace.exp ((-Complex.I) • (toM (genKron (czGenOld ((Real.pi / 4 : ℝ) : ℂ))) : Matrix (Fin 4) (Fin 4) ℂ))
      ≠ toM (cz : M4 ℂ) := by
  have hcx := c18_generator_exp GG.cx 0
  simp only [GG.generator, GG.lamOf, GG.toG2, G2.matrix] at hcx
  unfold czGenOld
  rw [hcx]
  intro hEq
  have := congrFun (congrFun hEq 2) 2
  simp [toM, cx, cz, m4, v4] at this

/-- **the old `CZ` pair differs from the repaired one already as a matrix** (entry (2,3) of `A ⊗ B`), in every ring where
    `2·pi4 ≠ 0`. -/
theorem c18_cz_generator_old_differs (pi4 : K) (hne : pi4 * (1 + 1) ≠ 0) :
    genKron (czGenOld pi4) ≠ genKron (czGen pi4) := by
  intro hEq
  have := congrFun (congrFun hEq 2) 3
  simp [genKron, czGenOld, czGen, cxGen, kron, smul2, diag2, two, m2, v2, hi, lo] at this
  exact hne this

/-- **generator_exp fails for the `CPhase` generator as found (D4)**: for every real θ with `e^{iθ} ≠ 1` the old pair
    `[(θ/2)Z, |0⟩⟨0|]` exponentiates to a matrix whose entry (3,3) is 1, not `e^{iθ}`. -/
theorem c18_cp_generator_old_wrong (θ : ℝ) (hθ : Complex.exp (θ * Complex.I) ≠ 1) :
    NormedSpace.exp ((-Complex.I) • (toM (genKron (cpGenOld ((θ / 2 : ℝ) : ℂ))) : Matrix (Fin 4) (Fin 4) ℂ))
      ≠ toM (cp Complex.I (Real.cos θ) (Real.sin θ)) := by
  have hdiag : (-Complex.I) • (toM (genKron (cpGenOld ((θ / 2 : ℝ) : ℂ))) : Matrix (Fin 4) (Fin 4) ℂ)
      = Matrix.diagonal ![-Complex.I * ((θ / 2 : ℝ) : ℂ), 0, Complex.I * ((θ / 2 : ℝ) : ℂ), 0] := by
    ext r q
    fin_cases r <;> fin_cases q <;>
      simp [toM, genKron, cpGenOld, kron, smul2, diag2, z, m2, v2, hi, lo, Matrix.diagonal]
  rw [hdiag, Matrix.exp_diagonal]
  intro hEq
  have h33 := congrFun (congrFun hEq 3) 3
  rw [Matrix.diagonal_apply_eq, Pi.coe_exp, ← Complex.exp_eq_exp_ℂ] at h33
  simp [toM, cp, m4, v4] at h33
  apply hθ
  rw [Complex.exp_mul_I, mul_comm (Complex.sin _)]
  exact h33.symm

/-- **spectral counterpart of D4** in any ring: the old `CPhase` pair has `A ⊗ B = diag(θ/2, 0, −θ/2, 0)`; whatever scalar
    function is applied to its eigenvalues, entry (3,3) of the result is `f(0)`, so with `f(0) = 1` it cannot be
    `e^{iθ} = c + i s` unless that is 1. -/
theorem c18_cp_generator_old_spectral (i th2 c s : K) (f : K → K) (hf0 : f 0 = 1) (hne : c + i * s ≠ 1) :
    genKron (cpGenOld th2) = diag4 th2 0 (-th2) 0 ∧
    diag4 (f th2) (f 0) (f (-th2)) (f 0) ≠ cp i c s := by
  constructor
  · funext r q
    fin_cases r <;> fin_cases q <;> simp [genKron, cpGenOld, kron, smul2, diag2, diag4, z, m2, v2, m4, v4, hi, lo]
  · intro hEq
    have := congrFun (congrFun hEq 3) 3
    simp [diag4, cp, m4, v4, hf0] at this
    exact hne this.symm

/-! ## mpo_identity_chain -/

/-- **mpo_identity_chain** For any bond dimension `χ`, any pair of tensors with `Σ_{k<χ} T₁[a,c,k]·T₂[b,d,k] = G[(a,b),(c,d)]`
    (the only property of `split_tensor` that is used), **any number `n` of identity tensors** (distance `n+1`) and
    **either orientation**: every entry of the MPO built by `extend_gate` is `G` on the two end sites — first gate qubit
    on the left end, or on the right end when `sites[1] < sites[0]` — times `δ(outs, ins)` on the `n` sites in between. -/
theorem c18_mpo_identity_chain (chi : Nat) (t1 t2 : Fin 2 → Fin 2 → Nat → K) (G : M4 K)
    (hsplit : ∀ a b c d : Fin 2, sumTo chi (fun k => t1 a c k * t2 b d k) = G (pair a b) (pair c d))
    (n : Nat) (os is : List (Fin 2)) (ho : os.length = n) (hi : is.length = n) (a b c d : Fin 2) :
    mpoEntry (extendGate chi t1 t2 n false) (a :: (os ++ [b])) (c :: (is ++ [d]))
        = G (pair a b) (pair c d) * (if os = is then 1 else 0) ∧
    mpoEntry (extendGate chi t1 t2 n true) (a :: (os ++ [b])) (c :: (is ++ [d]))
        = G (pair b a) (pair d c) * (if os = is then 1 else 0) := by
  constructor
  · have : extendGate chi t1 t2 n false
        = firstSite chi t1 :: (List.replicate n (idSite chi) ++ [lastSite chi t2]) := by simp [extendGate]
    rw [this, mpoEntry_fwd chi t1 t2 n os is ho hi, hsplit, mul_comm]
  · rw [extendGate_rev, mpoEntry_fwd chi t2 t1 n os is ho hi, ← hsplit b a d c, mul_comm]
    congr 1
    apply sumTo_congr
    intro k _
    ring

/-- **mpo_identity_chain (dense reading)** the same statement against `expectedEntry`, the function the correspondence
    check evaluates: `G` placed on the end sites, identity elsewhere. -/
theorem c18_mpo_expected (chi : Nat) (t1 t2 : Fin 2 → Fin 2 → Nat → K) (G : M4 K)
    (hsplit : ∀ a b c d : Fin 2, sumTo chi (fun k => t1 a c k * t2 b d k) = G (pair a b) (pair c d))
    (rev : Bool) (os is : List (Fin 2)) (hlen : os.length = is.length) (a b c d : Fin 2) :
    mpoEntry (extendGate chi t1 t2 os.length rev) (a :: (os ++ [b])) (c :: (is ++ [d]))
      = expectedEntry G rev (a :: (os ++ [b])) (c :: (is ++ [d])) := by
  have h := c18_mpo_identity_chain chi t1 t2 G hsplit os.length os is rfl hlen.symm a b c d
  have he : expectedEntry G rev (a :: (os ++ [b])) (c :: (is ++ [d]))
      = (if rev then G (pair b a) (pair d c) else G (pair a b) (pair c d)) * (if os = is then 1 else 0) := by
    simp [expectedEntry]
  rw [he]
  cases rev
  · simpa using h.1
  · simpa using h.2

/-- **mpo_identity_chain (a split exists)** the trivial split of bond dimension 4 is exact for every 4×4 matrix, so the
    hypothesis of `c18_mpo_identity_chain` is never vacuous; the SVD split of the code is one more instance
    (checked on every run as a spec tie). -/
theorem c18_mpo_trivial_split (G : M4 K) (a b c d : Fin 2) :
    sumTo 4 (fun k => trivialT1 G a c k * trivialT2 b d k) = G (pair a b) (pair c d) := by
  fin_cases a <;> fin_cases b <;> fin_cases c <;> fin_cases d <;>
    simp [sumTo, trivialT1, trivialT2, pair]

/-! ## non-vacuity: the hypotheses are met by concrete exact instances over ℚ(i) -/

/-- the rational unit-circle point `(3/5, 4/5)`, `i`, `½` satisfy the polynomial hypotheses in `CRat` -/
example : CRat.I * CRat.I = -1 ∧ star CRat.I = -CRat.I ∧
    (⟨3/5, 0⟩ : CRat) * ⟨3/5, 0⟩ + ⟨4/5, 0⟩ * ⟨4/5, 0⟩ = 1 ∧ star (⟨3/5, 0⟩ : CRat) = ⟨3/5, 0⟩ ∧
    (1 + 1 : CRat) * ⟨1/2, 0⟩ = 1 := by decide +kernel

/-- the Hadamard-type hypotheses are met over ℂ: `i = Complex.I`, `hh = 1/√2`, `hf = 1/2` -/
example : IsUnitary (h (((Real.sqrt 2)⁻¹ : ℝ) : ℂ)) ∧ IsUnitary (sx Complex.I (1 / 2 : ℂ)) := by
  have hs : Real.sqrt 2 * Real.sqrt 2 = 2 := Real.mul_self_sqrt (by norm_num)
  have h0 : Real.sqrt 2 ≠ 0 := by positivity
  have hhh : (2 : ℂ) * (((Real.sqrt 2)⁻¹ : ℝ) : ℂ) * (((Real.sqrt 2)⁻¹ : ℝ) : ℂ) = 1 := by
    rw [← Complex.ofReal_ofNat, ← Complex.ofReal_mul, ← Complex.ofReal_mul, ← Complex.ofReal_one]
    congr 1
    field_simp
    linarith
  have hall := c18_std_unitary_fixed Complex.I (((Real.sqrt 2)⁻¹ : ℝ) : ℂ) (1 / 2 : ℂ) Complex.I_mul_I
    (by simp) hhh (by simp) (by norm_num) (by simp)
  exact ⟨hall.2.2.2.1, hall.2.2.2.2.1⟩

/-- unit-modulus phases for `U`/`U2`: `e^{iφ} = cis(3/5, 4/5)` in ℚ(i) satisfies `e·star e = 1` -/
example : cis CRat.I (⟨3/5, 0⟩ : CRat) ⟨4/5, 0⟩ * star (cis CRat.I (⟨3/5, 0⟩ : CRat) ⟨4/5, 0⟩) = 1 := by decide +kernel

/-- `Rxx` at `(3/5, 4/5)` is unitary in ℚ(i) (instance of `c18_std_unitary_2q`) -/
example : IsUnitary (G2.rxx.matrix CRat.I ⟨3/5, 0⟩ ⟨4/5, 0⟩) :=
  c18_std_unitary_2q G2.rxx CRat.I ⟨3/5, 0⟩ ⟨4/5, 0⟩ (by decide +kernel) (by decide +kernel) (by decide +kernel)
    (by decide +kernel) (by decide +kernel)

/-- a concrete entry: `Ryy(3/5,4/5)[0,3] = +4i/5` and `Rxx[0,3] = −4i/5` -/
example : ryy CRat.I ⟨3/5, 0⟩ ⟨4/5, 0⟩ 0 3 = ⟨0, 4/5⟩ ∧ rxx CRat.I ⟨3/5, 0⟩ ⟨4/5, 0⟩ 0 3 = ⟨0, -4/5⟩ := by
  decide +kernel

/-- the reversed `CX` tensor really differs from the forward one (the orientation theorem is not about a symmetric object) -/
example : (G2.cx.tensor (0 : CRat) 0 0 true) 0 1 1 1 = 1 ∧ (G2.cx.tensor (0 : CRat) 0 0 false) 0 1 1 1 = 0 := by
  decide +kernel

/-- spectral data of `rxx` at `θ/2 = 7/10`: the eigenvalues are `±7/10` and the projectors have entries `½` -/
example : GG.rxx.eig (⟨7/10, 0⟩ : CRat) = (⟨7/10, 0⟩, ⟨-7/10, 0⟩) ∧
    (GG.rxx.proj (⟨1/2, 0⟩ : CRat)).1 0 3 = ⟨1/2, 0⟩ := by decide +kernel

/-- the MPO chain theorem on a concrete instance: `CX` through the trivial split, two identity tensors, reversed
    orientation, a non-zero off-diagonal entry: ⟨1 0 1 1| MPO |1 0 1 0⟩ = CX[(1,1),(0,1)]… -/
example : mpoEntry (extendGate 4 (trivialT1 (cx : M4 CRat)) trivialT2 2 true) [1, 0, 1, 1] [0, 0, 1, 1] = 1 ∧
    mpoEntry (extendGate 4 (trivialT1 (cx : M4 CRat)) trivialT2 2 true) [1, 0, 1, 1] [0, 1, 1, 1] = 0 ∧
    mpoEntry (extendGate 4 (trivialT1 (cx : M4 CRat)) trivialT2 2 false) [1, 0, 1, 1] [1, 0, 1, 0] = 1 := by
  decide +kernel

/-- `generatorSlots` on a reversed pair: factor A (= generator[0]) sits on the higher site -/
example : generatorSlots 3 1 5 = [Slot.I, Slot.B, Slot.I, Slot.A, Slot.I] := by decide

/-- **C18.4d** (row / column labelling of the contracted MPO in the tie) `bitsOf L r` lists the `L` binary digits of `r`,
    most significant first — site 0 is the leftmost Kronecker factor —, so it inverts the big-endian index
    `Σ b_i 2^(L-1-i)` on `r < 2^L` -/
theorem bitsOf_spec (L r : Nat) :
    (bitsOf L r).length = L ∧
    (bitsOf L r).foldl (fun acc b => 2 * acc + b.val) 0 = r % 2 ^ L := by
  constructor
  · induction L with
    | zero => rfl
    | succ n ih => simp [bitsOf, ih]
  · have key : ∀ (L acc : Nat), (bitsOf L r).foldl (fun acc b => 2 * acc + b.val) acc = acc * 2 ^ L + r % 2 ^ L := by
      intro L
      induction L with
      | zero => intro acc; simp [bitsOf, Nat.mod_one]
      | succ n ih =>
        intro acc
        simp only [bitsOf, List.foldl_cons]
        rw [ih]
        have h1 : r % 2 ^ (n + 1) = (r / 2 ^ n % 2) * 2 ^ n + r % 2 ^ n := by
          rw [pow_succ, Nat.mod_mul, Nat.mul_comm]
          omega
        rw [h1, pow_succ]
        ring
    simpa using key L 0

example : bitsOf 3 6 = [1, 1, 0] := by decide

end Yaqs.Gates
