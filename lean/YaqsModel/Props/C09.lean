import YaqsModel.Lemmas.Rank
import YaqsModel.Lemmas.SplitAlgebra

/-!
# C09 — truncation discards at most the threshold weight and returns an optimal split

Property theorems only (helper lemmas live in `Lemmas/Rank.lean`).  Every theorem quantifies over
*all* spectra (any length, any values), thresholds and bond bounds.  The spectra handed to the model by
the correspondence check are the binary64 values the implementation obtained from LAPACK, as exact
rationals.
-/
namespace Yaqs.Rank

/-- **C09.1a** When the cap is not binding, the capped rule returns the uncapped rank. -/
theorem c09_dw_cap_not_binding (s : List Rat) (thr : Rat) (mn mx : Nat)
    (hcap : keepDW s thr mn s.length ≤ mx) : keepDW s thr mn mx = keepDW s thr mn s.length := by
  unfold keepDW at *
  simp only at *
  have hd := dropGT_le thr s.reverse 0
  simp only [List.length_reverse] at hd
  by_cases hb : brokeGT thr s.reverse 0 = true
  · simp only [hb, ↓reduceIte] at hcap ⊢; omega
  · have hb' : brokeGT thr s.reverse 0 = false := by simpa using hb
    simp only [hb', Bool.false_eq_true, ↓reduceIte] at hcap ⊢; omega

/-- **C09.1** Discarded-weight mode: the discarded weight never exceeds the threshold unless the bond cap
    forces it (`hcap` says the cap is not binding: the rank chosen without a cap fits under it). -/
theorem c09_dw_weight (s : List Rat) (thr : Rat) (mn mx : Nat) (h0 : 0 ≤ thr)
    (hcap : keepDW s thr mn s.length ≤ mx) : tailWeight s (keepDW s thr mn mx) ≤ thr := by
  rw [c09_dw_cap_not_binding s thr mn mx hcap]
  unfold keepDW
  simp only
  have hd := dropGT_le thr s.reverse 0
  simp only [List.length_reverse] at hd
  have hw := dropGT_weight thr s.reverse 0 h0
  rw [← tailWeight_eq_take_reverse] at hw
  split
  · have : s.length - dropGT thr s.reverse 0 ≤
        max (min (s.length - dropGT thr s.reverse 0) (min s.length s.length)) (min s.length mn) := by omega
    have := tailWeight_anti s this
    linarith
  · rename_i hb
    have hb' : brokeGT thr s.reverse 0 = false := by simpa using hb
    have := brokeGT_false_drop thr s.reverse 0 hb'
    simp only [List.length_reverse] at this
    rw [this] at hw
    simp only [Nat.sub_self, Nat.min_self] at *
    have hm := tailWeight_anti s (Nat.zero_le s.length)
    linarith

/-- **C09.2** (optimal rank) When the loop stopped at a singular value and neither floor nor cap moved the
    result, keeping one value less would discard more than the threshold. -/
theorem c09_dw_maximal (s : List Rat) (thr : Rat) (mn mx : Nat)
    (hb : brokeGT thr s.reverse 0 = true)
    (hk : keepDW s thr mn mx = s.length - dropGT thr s.reverse 0) :
    thr < tailWeight s (keepDW s thr mn mx - 1) := by
  have hm := dropGT_maximal thr s.reverse 0 hb
  rw [← tailWeight_eq_take_reverse] at hm
  rw [hk]
  have : s.length - (dropGT thr s.reverse 0 + 1) = s.length - dropGT thr s.reverse 0 - 1 := by omega
  rw [this] at hm
  linarith

/-- **C09.1c** the rule never asks for more singular values than exist (no reshape error) -/
theorem c09_dw_le_len (s : List Rat) (thr : Rat) (mn mx : Nat) : keepDW s thr mn mx ≤ s.length := by
  unfold keepDW
  simp only
  split <;> omega

/-- everything in a descending list below a failing head fails too -/
private theorem countRel_zero_of_all (smax thr : Rat) (l : List Rat)
    (h : ∀ y ∈ l, ¬ (y / smax ≥ thr)) : countRel smax thr l = 0 := by
  induction l with
  | nil => rfl
  | cons x xs ih =>
    simp only [countRel]
    have hx := h x (by simp)
    simp only [hx, if_false, Nat.zero_add]
    exact ih (fun y hy => h y (by simp [hy]))

/-- **C09.3** Relative mode on a descending spectrum with positive maximum: the count the rule uses is the
    length of the prefix of values at or above `thr * smax`; everything behind that prefix is below. -/
theorem c09_rel_prefix (smax thr : Rat) (hpos : 0 < smax) (l : List Rat)
    (hsorted : l.Pairwise (· ≥ ·)) :
    (∀ x ∈ l.take (countRel smax thr l), x ≥ thr * smax) ∧
    (∀ x ∈ l.drop (countRel smax thr l), x < thr * smax) := by
  have key : ∀ x : Rat, (x / smax ≥ thr) ↔ x ≥ thr * smax := by
    intro x; constructor
    · intro h; exact (le_div_iff₀ hpos).mp h
    · intro h; exact (le_div_iff₀ hpos).mpr h
  induction l with
  | nil => simp [countRel]
  | cons x xs ih =>
    rw [List.pairwise_cons] at hsorted
    obtain ⟨hx, hxs⟩ := hsorted
    have ih' := ih hxs
    simp only [countRel]
    by_cases hp : x / smax ≥ thr
    · simp only [hp, if_true]
      rw [Nat.add_comm, List.take_succ_cons, List.drop_succ_cons]
      refine ⟨?_, ih'.2⟩
      intro y hy
      rcases List.mem_cons.mp hy with rfl | hy
      · exact (key _).mp hp
      · exact ih'.1 y hy
    · simp only [hp, if_false, Nat.zero_add]
      have hall : ∀ y ∈ xs, ¬ (y / smax ≥ thr) := by
        intro y hy hyp
        have h1 := (key y).mp hyp
        have h2 := hx y hy
        exact hp ((key x).mpr (le_trans h1 h2))
      rw [countRel_zero_of_all smax thr xs hall]
      simp only [List.take_zero, List.drop_zero, List.not_mem_nil, false_implies, implies_true, true_and]
      intro y hy
      rcases List.mem_cons.mp hy with rfl | hy
      · exact lt_of_not_ge (fun h => hp ((key _).mpr h))
      · exact lt_of_not_ge (fun h => hall y hy ((key _).mpr h))

/-- **C09.3b** Relative mode: the kept rank is the prefix count clamped to `[minB, maxB]` and to the number
    of singular values; a zero tensor (`smax = 0`) keeps the floor. -/
theorem c09_rel_rule (smax : Rat) (t : List Rat) (thr : Rat) (mn mx : Nat) :
    keepRel (smax :: t) thr mn mx =
      some (min (max (min (if smax = 0 then 0 else countRel smax thr (smax :: t)) mx) mn) (t.length + 1)) := by
  simp [keepRel]

/-- **C09.3c** (repair D8) the relative rule never keeps more values than exist -/
theorem c09_rel_le_len (s : List Rat) (thr : Rat) (mn mx k : Nat) (h : keepRel s thr mn mx = some k) :
    k ≤ s.length := by
  cases s with
  | nil => simp [keepRel] at h
  | cons a t => simp only [keepRel, Option.some.injEq] at h; omega

/-- the code as found: `min_bond_dim = 4` on a two-value spectrum asks for 4 (→ reshape `ValueError`) -/
theorem c09_relOld_overflow : keepRelOld [1, 1/2] (1/10) 4 8 = some 4 := by decide +kernel

/-- **C09.4** two-site SVD (canonicalisation, `MPS.truncate`): without a cap the discarded weight is
    strictly below the threshold -/
theorem c09_twosite_weight (s : List Rat) (thr : Rat) (h0 : 0 < thr) :
    tailWeight s (keepTwoSite s thr none) < thr := by
  unfold keepTwoSite capOpt
  simp only
  have hd := dropGE_le thr s.reverse 0
  simp only [List.length_reverse] at hd
  have hw := dropGE_weight thr s.reverse 0 h0
  rw [← tailWeight_eq_take_reverse] at hw
  split
  · have : s.length - dropGE thr s.reverse 0 ≤ max (s.length - dropGE thr s.reverse 0) 2 := by omega
    have := tailWeight_anti s this
    linarith
  · have : tailWeight s s.length = 0 := by simp [tailWeight, sqsum]
    linarith

/-- **C09.4b** the two-site rule keeps at least two values unless a cap says otherwise -/
theorem c09_twosite_floor (s : List Rat) (thr : Rat) (h2 : 2 ≤ s.length) :
    2 ≤ keepTwoSite s thr none ∧ keepTwoSite s thr none ≤ s.length := by
  unfold keepTwoSite capOpt
  simp only
  have hd := dropGE_le thr s.reverse 0
  simp only [List.length_reverse] at hd
  split <;> omega

/-- **C09.4c** with a cap, the two-site rule obeys it -/
theorem c09_twosite_cap (s : List Rat) (thr : Rat) (m : Nat) : keepTwoSite s thr (some m) ≤ m := by
  unfold keepTwoSite capOpt
  simp only
  omega

/-- **C09.4d** MPO compression keeps at least one value and at most the cap (when the cap is ≥ 1) and never
    more than exist (for a non-empty spectrum) -/
theorem c09_compress_bounds (s : List Rat) (tol : Rat) (mb : Option Nat) :
    1 ≤ keepCompress s tol mb ∧ (∀ m, mb = some m → 1 ≤ m → keepCompress s tol mb ≤ m) ∧
    (s ≠ [] → keepCompress s tol mb ≤ s.length) := by
  have hc := countGT_le tol s
  refine ⟨by unfold keepCompress; omega, ?_, ?_⟩
  · intro m hm h1; subst hm; unfold keepCompress capOpt; simp only; omega
  · intro hne
    have : 1 ≤ s.length := by cases s with | nil => exact absurd rfl hne | cons a t => simp
    unfold keepCompress capOpt
    cases mb <;> simp only <;> omega

/-! ### the remaining kept-rank rules the correspondence ties (`truncated_right_svd`, `MPO.from_matrix._truncate`,
    `decompose_theta`) -/

/-- every value is at or below the tolerance: nothing is counted -/
theorem countGT_eq_zero (tol : Rat) (l : List Rat) (h : ∀ x ∈ l, x ≤ tol) : countGT tol l = 0 := by
  induction l with
  | nil => rfl
  | cons a t ih =>
    have ha : ¬ tol < a := not_lt.mpr (h a (by simp))
    simp [countGT, ha, ih (fun x hx => h x (by simp [hx]))]

/-- on a spectrum in LAPACK order (non-increasing) the values above the tolerance are exactly a prefix, and
    `countGT` is its length: the first `countGT` values are `> tol`, all later ones are `≤ tol` -/
theorem countGT_prefix (tol : Rat) (s : List Rat) (hs : s.Pairwise (· ≥ ·)) :
    (∀ x ∈ s.take (countGT tol s), tol < x) ∧ (∀ x ∈ s.drop (countGT tol s), x ≤ tol) := by
  induction s with
  | nil => simp [countGT]
  | cons a t ih =>
    rw [List.pairwise_cons] at hs
    obtain ⟨hat, ht⟩ := hs
    by_cases ha : tol < a
    · have hc : countGT tol (a :: t) = countGT tol t + 1 := by simp [countGT, ha, Nat.add_comm]
      rw [hc, List.take_succ_cons, List.drop_succ_cons]
      refine ⟨?_, (ih ht).2⟩
      intro x hx
      rcases List.mem_cons.mp hx with rfl | hx
      · exact ha
      · exact (ih ht).1 x hx
    · have hall : ∀ x ∈ t, x ≤ tol := fun x hx => le_trans (hat x hx) (not_lt.mp ha)
      have hc : countGT tol (a :: t) = 0 := by simp [countGT, ha, countGT_eq_zero tol t hall]
      rw [hc]
      refine ⟨by simp, ?_⟩
      intro x hx
      rcases List.mem_cons.mp (by simpa using hx) with rfl | hx
      · exact not_lt.mp ha
      · exact hall x hx

/-- **C09.4e** (`decompose_theta`, equivalence checker) on a spectrum in LAPACK order the kept values are exactly the
    singular values strictly above the threshold — a prefix — and every discarded value is at or below it -/
theorem c09_theta_rule (s : List Rat) (thr : Rat) (hs : s.Pairwise (· ≥ ·)) :
    keepTheta s thr ≤ s.length ∧ (∀ x ∈ s.take (keepTheta s thr), thr < x) ∧
    (∀ x ∈ s.drop (keepTheta s thr), x ≤ thr) :=
  ⟨countGT_le thr s, countGT_prefix thr s hs⟩

/-- **C09.4f** (`MPO.from_matrix._truncate`) without a positive cutoff and without a cap nothing is truncated (the
    factorisation is exact); with a positive cutoff at least one value is kept, never more than exist, and — when the
    cap does not bind — every discarded value is at or below the cutoff; a cap is always obeyed -/
theorem c09_from_matrix_rule (s : List Rat) (cutoff : Rat) (hs : s.Pairwise (· ≥ ·)) :
    (cutoff ≤ 0 → keepFromMatrix s cutoff none = s.length) ∧
    (0 < cutoff → 1 ≤ keepFromMatrix s cutoff none ∧ (s ≠ [] → keepFromMatrix s cutoff none ≤ s.length) ∧
      ∀ x ∈ s.drop (keepFromMatrix s cutoff none), x ≤ cutoff) ∧
    (∀ m, keepFromMatrix s cutoff (some m) ≤ m) := by
  refine ⟨?_, ?_, ?_⟩
  · intro h
    have : ¬ cutoff > 0 := not_lt.mpr h
    simp [keepFromMatrix, capOpt, this]
  · intro h
    have hc := countGT_le cutoff s
    have hk : keepFromMatrix s cutoff none = max (countGT cutoff s) 1 := by simp [keepFromMatrix, capOpt, h]
    rw [hk]
    refine ⟨by omega, ?_, ?_⟩
    · intro hne
      have : 1 ≤ s.length := by cases s with | nil => exact absurd rfl hne | cons a t => simp
      omega
    · intro x hx
      have hsub : x ∈ s.drop (countGT cutoff s) := by
        have hle : countGT cutoff s ≤ max (countGT cutoff s) 1 := by omega
        exact List.mem_of_mem_drop (by
          rw [show max (countGT cutoff s) 1 = countGT cutoff s + (max (countGT cutoff s) 1 - countGT cutoff s) by omega,
            ← List.drop_drop] at hx
          exact hx)
      exact (countGT_prefix cutoff s hs).2 x hsub
  · intro m
    unfold keepFromMatrix capOpt
    simp only
    omega

/-- **C09.4g** (`truncated_right_svd`) without a cap the discarded weight is strictly below the threshold and at least one
    value is kept; a cap is always obeyed -/
theorem c09_right_svd_rule (s : List Rat) (thr : Rat) (h0 : 0 < thr) :
    tailWeight s (keepRightSvd s thr none) < thr ∧ (s ≠ [] → 1 ≤ keepRightSvd s thr none) ∧
    keepRightSvd s thr none ≤ max s.length 1 ∧ (∀ m, keepRightSvd s thr (some m) ≤ m) := by
  have hd := dropGE_le thr s.reverse 0
  simp only [List.length_reverse] at hd
  refine ⟨?_, ?_, ?_, ?_⟩
  · unfold keepRightSvd capOpt
    simp only
    split
    · have hw := dropGE_weight thr s.reverse 0 h0
      rw [← tailWeight_eq_take_reverse] at hw
      linarith
    · rename_i hb
      have htot : sqsum s < thr := by
        by_contra hcon
        have := brokeGE_of_total thr s.reverse 0 h0 (by rw [zero_add, sqsum_reverse]; exact not_lt.mp hcon)
        exact hb this
      have h1 : tailWeight s 1 ≤ tailWeight s 0 := tailWeight_anti s (Nat.zero_le 1)
      have h2 : tailWeight s 0 = sqsum s := by simp [tailWeight]
      linarith
  · intro hne
    unfold keepRightSvd capOpt
    simp only
    split
    · rename_i hb
      have : dropGE thr s.reverse 0 < s.reverse.length := dropGE_lt_of_broke thr s.reverse 0 hb
      simp only [List.length_reverse] at this
      omega
    · exact Nat.le_refl 1
  · unfold keepRightSvd capOpt
    simp only
    split <;> omega
  · intro m
    unfold keepRightSvd capOpt
    simp only
    omega

example : keepTheta [1, 1/2, 1/4, 1/8] (1/4) = 2 ∧ keepFromMatrix [1, 1/2, 1/4, 1/8] (1/4) (some 1) = 1 ∧
    keepFromMatrix [1, 1/2, 1/4, 1/8] 0 none = 4 ∧ keepRightSvd [1, 1/2, 1/4, 1/8] (1/10) none = 2 ∧
    keepRightSvd [1/8, 1/16] 1 none = 1 := by decide +kernel

/-- non-vacuity: a concrete spectrum where threshold, floor and cap all act -/
example : keepDW [1, 1/2, 1/4, 1/8] (1/10) 1 8 = 2 ∧ keepDW [1, 1/2, 1/4, 1/8] (1/10) 3 8 = 3 ∧
    keepDW [1, 1/2, 1/4, 1/8] 0 1 3 = 3 ∧ tailWeight [1, 1/2, 1/4, 1/8] 2 ≤ 1/10 := by decide +kernel

example : keepRel [1, 1/2, 1/4, 1/8] (1/4) 1 8 = some 3 := by decide +kernel
example : keepTwoSite [1, 1/2, 1/4, 1/8] (1/10) none = 2 ∧ keepTwoSite [1, 0, 0, 0] (1/10) none = 2 := by
  decide +kernel

end Yaqs.Rank

namespace Yaqs.Split
open Matrix

variable {m n k k' : Type*} [Fintype m] [Fintype n] [Fintype k] [Fintype k'] [DecidableEq k] [DecidableEq k']
variable {K : Type*} [CommRing K] [StarRing K]

/-- **C09.6 (split error)** From the SVD spec `M = U diag(s) V`, `UᴴU = 1`, `VVᴴ = 1`: the contraction of the two
    returned tensors (`U diag(s restricted to the kept values) V`) differs from the input by exactly the discarded
    singular weight, `‖M − M_kept‖²_F = Σ_{i dropped} |s_i|²` — for every shape, every spectrum and every choice
    of kept set (in particular the prefix the rank rules choose). -/
theorem c09_split_error (U : Matrix m k K) (V : Matrix k n K) (s : k → K)
    (hU : Uᴴ * U = 1) (hV : V * Vᴴ = 1) (kept : k → Prop) [DecidablePred kept] :
    frobSq (U * diagonal s * V - U * diagonal (maskKept kept s) * V)
      = ∑ i, if kept i then 0 else star (s i) * s i := by
  rw [sub_masked, frobSq_UDV U V _ hU hV]
  apply Finset.sum_congr rfl
  intro i _
  simp only [maskDropped]
  split <;> simp

/-- **C09.5 (distributions)** "left", "right" and "sqrt" give the same product: with `r i * r i = s i`,
    `(U diag s) V = U (diag s V) = (U diag r)(diag r V)`. -/
theorem c09_distributions_same_product (U : Matrix m k K) (V : Matrix k n K) (s r : k → K)
    (hr : ∀ i, r i * r i = s i) :
    (U * diagonal s) * V = U * (diagonal s * V) ∧
    (U * diagonal r) * (diagonal r * V) = U * (diagonal s * V) := by
  refine ⟨Matrix.mul_assoc _ _ _, ?_⟩
  rw [Matrix.mul_assoc, ← Matrix.mul_assoc (diagonal r), diagonal_mul_diagonal]
  congr 3
  funext i
  exact hr i

/-- **C09.5b (advertised factor isometric)** the kept columns of `U` (distribution "right") form an isometry; the
    kept rows of `V` (distribution "left") are handled by the same lemma applied to `Vᴴ`. -/
theorem c09_kept_factor_isometric (U : Matrix m k K) (hU : Uᴴ * U = 1) (e : k' → k)
    (he : Function.Injective e) : (U.submatrix id e)ᴴ * (U.submatrix id e) = 1 :=
  isometry_submatrix U hU e he

end Yaqs.Split
