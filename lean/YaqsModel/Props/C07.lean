import YaqsModel.Lemmas.Trotter
import YaqsModel.Lemmas.TrotterBonds
import YaqsModel.Lemmas.TrotterBlk
import YaqsModel.Lemmas.TrotterGRat
import YaqsModel.Lemmas.MpoConv
import YaqsModel.Lemmas.TrotterLimit
import YaqsModel.Lemmas.TrotterMatrix
import YaqsModel.Lemmas.TrotterPauli
import YaqsModel.Lemmas.TrotterKron
import YaqsModel.Lemmas.TrotterHubbardGates
import YaqsModel.Lemmas.TrotterHubbard
import YaqsModel.Lemmas.Strang
import YaqsModel.Lemmas.StrangHubbard

/-!
# C07 — model library: MPO builders equal their definition; Trotter circuits match them

Property theorems only (helper lemmas: `Lemmas/Trotter*.lean`; executable model: `Model/Trotter.lean`).

Proved for every size / length / term list / parameter value:
* `fsm_sum`, `fsm_sum_specs`, `fsm_sum_complex`, `fsm_accepts_iff`, `fsm_tables` — the automaton `from_pauli_sum` builds (before
  compression) has, at every basis configuration pair, the path sum `Σ coeff · Π P_i[σ_i,σ'_i]`;
* `fsm_boson_sum`, `fsm_transmon_sum` — the hand-written `bose_hubbard` and `coupled_transmon` tensors give the documented
  chain for every `L ≥ 1` (old variants before the fixes D20/D21: `transmon_wrong_at_5`, `transmon_even_length_broken_old`,
  `boson_length_one_broken_old`);
* `ising_bonds_cover`, `ising_bonds_match_mpo`, `heisenberg_bonds_cover`, `ising_step_generators`, `heisenberg_step_blocks`,
  `heisenberg_step_generators(_nonzero)` — one Trotter step of the chain circuits is a product of `exp(-i·dt·c·P)` over a
  rearrangement of exactly the terms the MPO builder of the same name emits (signs, boundary condition, `L = 2` periodic
  double bond included);
* `snake_bij`, `grid_edges_once`, `ising2d_step_generators`, `heisenberg2d_step_generators` — 2-D builders;
* `angle_sign`, `angle_sign_hubbard`, `hubbard_time_bookkeeping`, `hubbard_chain_bonds`, `lri_closed_form` — angles of all
  builders against the documented coefficients, 1-D vs 2-D Hubbard on a chain, structure of the hopping block.

Partial (stated, with what is missing):
* "converges as the step shrinks" is an analytic limit: proved is that each step is the first-order product formula of
  exactly the Hamiltonian's terms (Lie–Trotter consistency is cited); the limit is measured by step halving in the check.
  [xt07 extension at the end of this file: for the four spin builders (Ising, Heisenberg, 2-D Ising, 2-D Heisenberg) the limit is
  now a theorem — `product_formula_deriv`, `trotter_converges`, `…_step_consistent`, `…_trotter_converges`; it stays measured
  only for the two Fermi–Hubbard builders.]
* that the CNOT-ladder block of `lri_closed_form` equals `exp(-i α/2 P Z…Z P)`, compression, dense/sparse agreement and the
  `from_matrix` round trip are numeric (oracles of `harness/impl/C07.py`).
-/
namespace Yaqs.Trotter

section fsm
variable {K : Type} [CommSemiring K] {α : Type}

/-- **C07 (from_pauli_sum = its definition)** For every list of parsed terms — any range, repeated terms, identity
    terms, zero or complex coefficients (any commutative semiring `K`) —, every chain length `L ≥ 1`, every table
    `P` of local matrices and every basis configuration pair `(σ, σ')`, the path sum of the automaton built by
    `from_pauli_sum` (before compression) equals `Σ_t coeff_t · Π_{i<L} P_{t,i}[σ_i, σ'_i]`. -/
theorem fsm_sum (P : Op → α → α → K) (terms : List (K × List Op)) (L : Nat) (hL : 1 ≤ L) (σ σ' : Nat → α) :
    fsmPathSum P terms L σ σ' = termSum P terms L σ σ' := by
  cases terms with
  | nil => simp [fsmPathSum, termSum]
  | cons t ts =>
    obtain ⟨n, rfl⟩ : ∃ n, L = n + 1 := ⟨L - 1, by omega⟩
    simp only [fsmPathSum, termSum, Nat.add_sub_cancel]
    generalize t :: ts = terms
    rw [sweep_snd, site0Row, List.map_map, zip_map_self, List.foldl_map]
    simp only [Function.comp_def]
    rw [dot_foldl_addAt terms (fun t => t.1 * P (t.2.getD 0 Op.I) (σ 0) (σ' 0))
      (fun t => stateOf (List.map (fun x => x.2) terms) 1 n t.2) _ _ (by simp),
      dot_replicate_zero, zero_add]
    congr 1
    apply List.map_congr_left
    intro t ht
    rw [vals_state P σ σ' _ n 1 t.2 (List.mem_map.2 ⟨t, ht, rfl⟩)]
    simp only [termProd]
    ring

/-- `fsm_sum` at the coefficient type the driver computes with: complex (Gaussian-rational) coefficients and the Pauli
    matrices `MPO._PAULI_2` — the instance of the statement that the correspondence check exercises. -/
theorem fsm_sum_complex (terms : List (GRat × List Op)) (L : Nat) (hL : 1 ≤ L) (σ σ' : Nat → Nat) :
    fsmPathSum pauli terms L σ σ' = termSum pauli terms L σ σ' :=
  fsm_sum pauli terms L hL σ σ'

/-- `from_pauli_sum` raises on a term iff a site repeats in its spec or lies outside `[0, L)` -/
theorem fsm_accepts_iff (L : Nat) (spec : Spec) :
    (opList L spec).isSome ↔ (spec.map (·.2)).Nodup ∧ ∀ t ∈ spec, t.2 < L :=
  opList_isSome_iff L spec

/-- **C07 (`fsm_sum`, end to end)** For every list of `(coefficient, Pauli spec)` terms that `from_pauli_sum` accepts,
    every `L ≥ 1` and every configuration pair, the path sum of the tensors it builds before compression is
    `Σ_t coeff_t · Π_{i<L} P(label of spec t on site i, identity if absent)[σ_i, σ'_i]` — the matrix element of the
    requested sum of Pauli strings with site 0 as the first tensor factor. -/
theorem fsm_sum_specs (P : Op → α → α → K) (L : Nat) (hL : 1 ≤ L) (terms : List (K × Spec)) (pt : List (K × List Op))
    (h : parseTerms L terms = some pt) (σ σ' : Nat → α) :
    fsmPathSum P pt L σ σ' = (terms.map fun t => t.1 * specProd P t.2 σ σ' 0 L).sum := by
  rw [fsm_sum P pt L hL]
  unfold termSum
  induction terms generalizing pt with
  | nil => simp only [parseTerms, Option.some.injEq] at h; subst h; rfl
  | cons t rest ih =>
    obtain ⟨c, sp⟩ := t
    simp only [parseTerms] at h
    cases ho : opList L sp with
    | none => simp [ho] at h
    | some o =>
      cases hr : parseTerms L rest with
      | none => simp [ho, hr] at h
      | some r =>
        simp only [ho, hr, Option.some.injEq] at h
        subst h
        simp only [List.map_cons, List.sum_cons, ih r hr]
        rw [termProd_eq_specProd P L sp o ho σ σ' L 0 (by omega)]

/-- bond dimensions of the automaton: every state table is duplicate-free (each state has exactly one outgoing
    `(operator, next state)` pair — the determinism the tensor construction relies on) and has at most as many
    states as there are terms. -/
theorem fsm_tables (ops : List (List Op)) (L : Nat) :
    ∀ tbl ∈ (sweep ops 1 (L - 1)).1, tbl.Nodup ∧ tbl.length ≤ ops.length :=
  fun tbl h => ⟨sweep_table_nodup ops (L - 1) 1 tbl h, sweep_table_length_le ops (L - 1) 1 tbl h⟩

-- Ising chain of 3 sites: -Z0Z1 - Z1Z2 - ½(X0 + X1 + X2); ⟨000|H|000⟩ = -2, ⟨100|H|000⟩ = -½ (integers scaled by 2)
example : fsmPathSum (fun o a b => (pauli o a b).re.num) [(-2, [.Z, .Z, .I]), (-2, [.I, .Z, .Z]), (-1, [.X, .I, .I]),
    (-1, [.I, .X, .I]), (-1, [.I, .I, .X])] 3 (fun _ => 0) (fun _ => 0) = (-4 : Int) := by decide +kernel
example : fsmDims [((1 : Int), [Op.Z, .Z, .I]), (1, [.I, .Z, .Z]), (1, [.X, .I, .I]), (1, [.I, .X, .I]), (1, [.I, .I, .X])] 3
    = [1, 5, 3, 1] := by decide +kernel
-- repeated terms, an identity term and a zero coefficient
example : fsmPathSum (fun o a b => (pauli o a b).re.num) [(3, [.Z, .I]), (4, [.Z, .I]), (5, [.I, .I]), (0, [.X, .X])] 2
    (fun _ => 1) (fun _ => 1) = (-2 : Int) := by decide +kernel
example : parseTerms 2 [((1 : Int), [(Op.Z, 1), (Op.X, 0)]), (2, [])] = some [(1, [.X, .Z]), (2, [.I, .I])] := by decide +kernel
example : parseTerms 2 [((1 : Int), [(Op.Z, 1), (Op.X, 1)])] = none ∧ parseTerms 2 [((1 : Int), [(Op.Z, 2)])] = none := by
  decide +kernel

end fsm

/-! ## Chain circuits: bonds and generators -/

/-- **C07 (`ising_bonds_cover`)** For every `L` the `rzz` pairs of one Trotter step of the open chain are exactly
    `{(i, i+1) | i+1 < L}`, each once; the periodic step appends `(0, L-1)` iff `L > 1`, which is a new bond
    (so the whole list is still duplicate-free) iff `L ≥ 3`. -/
theorem ising_bonds_cover (L : Nat) :
    (isingBonds L false).Nodup ∧ (∀ a b, (a, b) ∈ isingBonds L false ↔ (b = a + 1 ∧ b < L)) ∧
    isingBonds L true = isingBonds L false ++ (if 1 < L then [(0, L - 1)] else []) ∧
    (3 ≤ L → (isingBonds L true).Nodup) := by
  refine ⟨?_, ?_, isingBonds_periodic L, ?_⟩
  · rw [isingBonds_open]; exact nodup_openBonds L
  · intro a b; rw [isingBonds_open]; exact mem_openBonds L a b
  · intro h3
    rw [isingBonds_periodic, isingBonds_open]
    have : 1 < L := by omega
    simp only [this, if_true]
    rw [List.nodup_append]
    refine ⟨nodup_openBonds L, by simp, ?_⟩
    rintro ⟨a, b⟩ h1 ⟨a', b'⟩ h2 heq
    rw [mem_openBonds] at h1
    simp only [List.mem_singleton, Prod.mk.injEq] at h2 heq
    omega

/-- the two-body terms `MPO.hamiltonian` emits sit on `hamPairs` (`(i, (i+1) % L)` over the bonds of the boundary condition) -/
theorem mpoTerms_two_body {K : Type} (L : Nat) (per : Bool) (c : K) (a b : Op) :
    mpoTerms L per [(c, a, b)] [] = (hamPairs L per).map fun p => (c, [(a, p.1), (b, p.2)]) := by
  simp [mpoTerms, hamPairs, List.map_map, Function.comp_def]

/-- **C07 (`ising_bonds_cover`, second half)** As multisets, the `rzz` pairs of one step equal the two-body support
    of `mpoTerms` (pairs written smaller site first), for both boundary conditions and every `L` on which
    `MPO.hamiltonian` does not raise (`L = 1` periodic raises: bond `(0,0)`).  For `L = 2` periodic both sides
    contain the bond `(0,1)` twice — see the `example` below. -/
theorem ising_bonds_match_mpo (L : Nat) (per : Bool) (h : L ≠ 1 ∨ per = false) :
    (isingBonds L per).Perm ((hamPairs L per).map normPair) :=
  isingBonds_perm_hamPairs L per h

example : isingBonds 2 true = [(0, 1), (0, 1)] ∧ (hamPairs 2 true).map normPair = [(0, 1), (0, 1)] := by decide
example : isingBonds 5 true = [(0, 1), (2, 3), (1, 2), (3, 4), (0, 4)] := by decide
example : isingBonds 1 true = [] ∧ hamPairs 1 true = [(0, 0)] := by decide

/-- **C07 (Ising circuit ↔ Ising MPO, signs included)** One Trotter step of `create_ising_circuit` is the product of
    `exp(-i·dt·c_k·P_k)` over a rearrangement of exactly the terms `c_k P_k` that `MPO.ising` hands to
    `from_pauli_sum` (same `J`, `g`, boundary condition): the generators of its rotation gates, with
    `rx(θ) = exp(-i θ/2 X)`, `rzz(θ) = exp(-i θ/2 ZZ)` and `θ = -2·dt·g`, `-2·dt·J`, are a permutation of `dt ·` terms. -/
theorem ising_step_generators (L : Nat) (per : Bool) (J g dt : Rat) (h : L ≠ 1 ∨ per = false) :
    (stepGens L (isingStep L per J g dt)).Perm (termGens L dt (isingTerms L per J g)) := by
  unfold isingStep isingTerms
  simp only [stepGens_append, stepGens_flatMap_bar, gateGen_g1_rx, gateGen_g2_rzz, rotCoeff_trotter]
  have ht : termGens L dt (mpoTerms L per [(-J, Op.Z, Op.Z)] [(-g, Op.X)]) =
      (hamPairs L per).filterMap (pairGen L .Z (dt * -J)) ++
      (List.range L).filterMap (fun s => (opList L [(Op.X, s)]).map fun l => (l, dt * -g)) := by
    simp [termGens, mpoTerms, hamPairs, pairGen, List.filterMap_map, Function.comp_def]
  rw [ht]
  exact List.perm_append_comm.trans (List.Perm.append_right _ (pairGens_perm L per .Z _ h))

example : stepGens 2 (isingStep 2 false 1 (1/2) (1/10)) =
    [([.X, .I], -1/20), ([.I, .X], -1/20), ([.Z, .Z], -1/10)] := by decide +kernel

/-- **C07 (`heisenberg_bonds_cover`)** generators of one step of `create_heisenberg_circuit`, block by block: the
    `rzz`, `rxx` and `ryy` layers each run over the same bond list `isingBonds L periodic` as the Ising circuit (so by
    `ising_bonds_cover` / `ising_bonds_match_mpo` each axis covers every bond of the chain exactly once, plus the wrap
    bond iff periodic), with coefficients `dt·(-Jz)`, `dt·(-Jx)`, `dt·(-Jy)`; the `rz` layer is `dt·(-h)·Z_s` on every site. -/
theorem heisenberg_step_blocks (L : Nat) (per : Bool) (Jx Jy Jz h dt : Rat) :
    stepGens L (heisenbergStep L per Jx Jy Jz h dt) =
      fieldGens L (dt * -h)
        ++ (isingBonds L per).filterMap (pairGen L .Z (dt * -Jz))
        ++ (isingBonds L per).filterMap (pairGen L .X (dt * -Jx))
        ++ (isingBonds L per).filterMap (pairGen L .Y (dt * -Jy)) :=
  heisenberg_stepGens L per Jx Jy Jz h dt

/-- **C07 (Heisenberg circuit ↔ Heisenberg MPO, signs included)** One Trotter step of `create_heisenberg_circuit` is
    the product of `exp(-i·dt·c_k·P_k)` over a rearrangement of the terms `MPO.heisenberg` hands to `from_pauli_sum`
    with the same couplings, field `h ≠ 0` and boundary condition. -/
theorem heisenberg_step_generators (L : Nat) (per : Bool) (Jx Jy Jz h dt : Rat) (hl : L ≠ 1 ∨ per = false) (hh : h ≠ 0) :
    (stepGens L (heisenbergStep L per Jx Jy Jz h dt)).Perm (termGens L dt (heisenbergTerms L per Jx Jy Jz h)) := by
  unfold heisenbergTerms
  rw [if_pos hh, termGens_heis]
  exact heis_full L per Jx Jy Jz h dt hl

/-- without a field (`h = 0`) `MPO.heisenberg` emits no one-body terms while the circuit keeps `rz(0)` gates: the
    generators with non-zero coefficient still agree, for every `h`. -/
theorem heisenberg_step_generators_nonzero (L : Nat) (per : Bool) (Jx Jy Jz h dt : Rat) (hl : L ≠ 1 ∨ per = false) :
    ((stepGens L (heisenbergStep L per Jx Jy Jz h dt)).filter fun t => t.2 ≠ 0).Perm
      ((termGens L dt (heisenbergTerms L per Jx Jy Jz h)).filter fun t => t.2 ≠ 0) := by
  by_cases hh : h = 0
  · subst hh
    have := (heis_full L per Jx Jy Jz 0 dt hl).filter (fun t => t.2 ≠ 0)
    rw [List.filter_append, show dt * -(0 : Rat) = 0 by ring, fieldGens_zero_filter, List.append_nil] at this
    unfold heisenbergTerms
    rw [if_neg (by simp), termGens_heis0]
    exact this
  · exact (heisenberg_step_generators L per Jx Jy Jz h dt hl hh).filter _

example : stepGens 2 (heisenbergStep 2 false 1 2 3 (1/2) (1/10)) =
    [([.Z, .I], -1/20), ([.I, .Z], -1/20), ([.Z, .Z], -3/10), ([.X, .X], -1/10), ([.Y, .Y], -1/5)] := by decide +kernel



/-- **C07 (`ising_bonds_cover` / `heisenberg_bonds_cover`, read off the gate lists)** The `rzz` gates of one step of
    `create_ising_circuit` act on exactly the pairs `isingBonds L periodic`, in that order; in `create_heisenberg_circuit`
    the `rzz`, the `rxx` and the `ryy` gates of one step each act on exactly `isingBonds L periodic` — so by
    `ising_bonds_cover` every axis covers every nearest-neighbour bond once, plus the wrap bond iff periodic. -/
theorem heisenberg_bonds_cover (L : Nat) (per : Bool) (J g Jx Jy Jz h dt : Rat) :
    gatePairs .rzz (isingStep L per J g dt) = isingBonds L per ∧
    gatePairs .rzz (heisenbergStep L per Jx Jy Jz h dt) = isingBonds L per ∧
    gatePairs .rxx (heisenbergStep L per Jx Jy Jz h dt) = isingBonds L per ∧
    gatePairs .ryy (heisenbergStep L per Jx Jy Jz h dt) = isingBonds L per := by
  refine ⟨?_, ?_, ?_, ?_⟩
  · unfold isingStep
    simp [gatePairs_append, gatePairs_flatMap_g1_bar, gatePairs_flatMap_g2_bar]
  all_goals
    unfold heisenbergStep
    simp [gatePairs_append, gatePairs_map_g1, gatePairs_map_g2, gatePairs_flatMap_g2_bar, isingBonds]

example : gatePairs .ryy (heisenbergStep 4 true 1 1 1 1 1) = [(0, 1), (2, 3), (1, 2), (0, 3)] := by decide +kernel

/-! ## Grids -/

/-- **C07 (`snake_bij`)** `site_index(row, col)` of the 2-D builders is a bijection from `[0,R) × [0,C)` onto `[0, R·C)`,
    for every grid size; consequently the single-qubit layer touches every qubit exactly once. -/
theorem snake_bij (R C : Nat) :
    (∀ r c, r < R → c < C → snake C (r, c) < R * C) ∧
    (∀ r c r' c', c < C → c' < C → snake C (r, c) = snake C (r', c') → r = r' ∧ c = c') ∧
    (∀ k, k < R * C → ∃ r c, r < R ∧ c < C ∧ snake C (r, c) = k) ∧
    (gridSites R C).Perm (List.range (R * C)) :=
  ⟨fun r c => snake_lt R C r c, fun r c r' c' => snake_inj C r c r' c', fun k => snake_surj R C k, gridSites_perm R C⟩

example : gridSites 3 2 = [0, 1, 3, 2, 4, 5] := by decide

/-- **C07 (`grid_edges_once`)** For every `R × C` the two-qubit layer of `create_2d_ising_circuit` visits exactly the
    horizontal and vertical nearest-neighbour edges of the lattice, each once; the qubit pairs it acts on are pairwise
    different; `create_2d_heisenberg_circuit` visits the same edges in another order. -/
theorem grid_edges_once (R C : Nat) :
    (gridEdges R C).Nodup ∧ (∀ e, e ∈ gridEdges R C ↔ IsGridEdge R C e) ∧
    (grid2dBonds R C).Nodup ∧ (gridEdgesH R C).Perm (gridEdges R C) ∧ (grid2dBondsH R C).Perm (grid2dBonds R C) :=
  ⟨nodup_gridEdges R C, mem_gridEdges R C, nodup_grid2dBonds R C, gridEdgesH_perm R C, (gridEdgesH_perm R C).map _⟩

example : grid2dBonds 2 3 = [(0, 1), (1, 2), (5, 4), (4, 3), (0, 5), (1, 4), (2, 3)] := by decide
example : IsGridEdge 2 3 ((1, 0), (1, 1)) ∧ edgeQubits 3 ((1, 0), (1, 1)) = (5, 4) := by
  unfold IsGridEdge; exact ⟨by simp, by decide⟩

/-- generators of one step of the 2-D Ising circuit: `dt·(-g)·X` on every snake site, `dt·(-J)·ZZ` on every grid bond -/
theorem ising2d_step_generators (R C : Nat) (J g dt : Rat) :
    stepGens (R * C) (ising2dStep R C J g dt) =
      (gridSites R C).filterMap (fun q => (opList (R * C) [(Op.X, q)]).map fun l => (l, dt * -g))
        ++ (grid2dBonds R C).filterMap (pairGen (R * C) .Z (dt * -J)) := by
  unfold ising2dStep
  simp only [stepGens_append, stepGens_map, stepGens_flatMap_bar, gateGen_g1_rx, gateGen_g2_rzz, rotCoeff_trotter]

/-- generators of one step of the 2-D Heisenberg circuit -/
theorem heisenberg2d_step_generators (R C : Nat) (Jx Jy Jz h dt : Rat) :
    stepGens (R * C) (heisenberg2dStep R C Jx Jy Jz h dt) =
      (gridSites R C).filterMap (fun q => (opList (R * C) [(Op.Z, q)]).map fun l => (l, dt * -h))
        ++ (grid2dBondsH R C).filterMap (pairGen (R * C) .Z (dt * -Jz))
        ++ (grid2dBondsH R C).filterMap (pairGen (R * C) .X (dt * -Jx))
        ++ (grid2dBondsH R C).filterMap (pairGen (R * C) .Y (dt * -Jy)) := by
  unfold heisenberg2dStep
  simp only [stepGens_append, stepGens_map, gateGen_g1_rz, gateGen_g2_rzz, gateGen_g2_rxx, gateGen_g2_ryy,
    rotCoeff_trotter]

/-! ## Angles -/

/-- **C07 (`angle_sign`, rotations)** `rx/rz/rzz/rxx/ryy(-2·dt·c) = exp(-i·dt·(-c)·G)`: with qiskit's convention
    `r(θ) = exp(-i θ/2 G)` the angle `-2·dt·c` realises one step `dt` of the Hamiltonian term `-c·G`
    (`-g X`, `-J ZZ`, `-Jx XX`, `-Jy YY`, `-h Z` of the docstrings of `MPO.ising` / `MPO.heisenberg`). -/
theorem angle_sign (dt c : Rat) : rotCoeff (-2 * dt * c) = dt * (-c) := rotCoeff_trotter dt c

/-- **C07 (`angle_sign`, Fermi–Hubbard)** against `H = -½ μ (I-Z) + ¼ u (I-Z)(I-Z) - ½ t (XX + YY)` (1-D) resp.
    `… - ½ t (XZ…ZX + YZ…ZY)` (2-D): the phase gate is half a sub-step `dt/(2n)` of `-½ μ (I-Z)`, the controlled phase
    half a sub-step of `¼ u (I-Z)(I-Z)`, the hopping rotations (1-D `rxx`/`ryy`, 2-D the `rz` inside the CNOT ladder) a
    full sub-step `dt/n` of `-½ t (…)`; both builders use the same three angles. -/
theorem angle_sign_hubbard (u t mu dt : Rat) (n : Nat) (hn : n ≠ 0) :
    phaseCoeff (fhChemAngle mu dt n) = dt / (2 * n) * (-(1 / 2) * mu) ∧
    cphaseCoeff (fhOnsiteAngle u dt n) = dt / (2 * n) * (1 / 4 * u) ∧
    rotCoeff (fhHop1dAngle t dt n) = dt / n * (-(1 / 2) * t) ∧
    rotCoeff (fhHop2dAngle t dt n) = dt / n * (-(1 / 2) * t) ∧
    fhHop2dAngle t dt n = fhHop1dAngle t dt n := by
  have h : (n : Rat) ≠ 0 := by exact_mod_cast hn
  unfold phaseCoeff cphaseCoeff rotCoeff fhChemAngle fhOnsiteAngle fhHop1dAngle fhHop2dAngle
  refine ⟨?_, ?_, ?_, ?_, ?_⟩ <;> field_simp

/-- the two half steps of a sub-step add up to the full sub-step the hopping term gets (second-order splitting), and
    `n · timesteps` sub-steps of length `dt/n` cover the total time `timesteps · dt` -/
theorem hubbard_time_bookkeeping (dt : Rat) (n steps : Nat) (hn : n ≠ 0) :
    dt / (2 * n) + dt / (2 * n) = dt / n ∧ ((n * steps : Nat) : Rat) * (dt / n) = steps * dt := by
  have h : (n : Rat) ≠ 0 := by exact_mod_cast hn
  constructor
  · field_simp; ring
  · push_cast; field_simp

/-- **C07 (1-D and 2-D Hubbard agree on a chain)** on an `Lx × 1` lattice the 2-D builder hops over the same bonds in
    the same order (even bonds, then odd bonds) as the 1-D builder. -/
theorem hubbard_chain_bonds (Lx : Nat) : fh2dBonds Lx 1 = fh1dBonds Lx := by
  simp [fh2dBonds, fh1dBonds, evensBelow, oddsBelow]

example : fh2dBonds 4 1 = [(0, 1), (2, 3), (1, 2)] ∧ fh1dBonds 4 = [(0, 1), (2, 3), (1, 2)] := by decide

/-- **C07 (hopping block)** `add_long_range_interaction(∅, i, j, X|Y, α)` with `i < j` is the conjugation
    `B · C · rz_j(α) · C⁻¹ · B⁻¹` with `C` the CNOT ladder `cx(k, j)`, `k = j-1 … i`, and `B` the basis change
    `ry(π/2)` (X) or `rx(π/2)` (Y) on `i` and `j`; it raises `IndexError` iff `i ≥ j`. -/
theorem lri_closed_form (i j : Nat) (isX : Bool) (α : Rat) :
    addLongRange [] i j (some isX) α =
      if i ≥ j then .error .index
      else
        let nm : GName := if isX then .ry else .rx
        let ks := List.range' i (j - i)
        .ok ([⟨nm, [i], .hpi⟩, ⟨nm, [j], .hpi⟩] ++ (ks.reverse.map (cx · j) ++ [g1 .rz j α] ++ ks.map (cx · j))
              ++ [⟨nm, [i], .mhpi⟩, ⟨nm, [j], .mhpi⟩]) := by
  unfold addLongRange
  split
  · rfl
  · simp only [foldl_ladder, List.nil_append]

example : addLongRange [] 0 2 (some true) (1/3) =
    .ok [⟨.ry, [0], .hpi⟩, ⟨.ry, [2], .hpi⟩, cx 1 2, cx 0 2, g1 .rz 2 (1/3), cx 0 2, cx 1 2,
         ⟨.ry, [0], .mhpi⟩, ⟨.ry, [2], .mhpi⟩] := by decide +kernel


/-! ## Circuit assembly (the functions the correspondence runs: `*Circuit`, `addHopping`, `lookupQiskitOrdering`) -/

theorem repeatSteps_succ (n : Nat) (step : List Gate) : repeatSteps (n + 1) step = step ++ repeatSteps n step := by
  simp [repeatSteps, List.replicate_succ]

theorem repeatSteps_length (n : Nat) (step : List Gate) : (repeatSteps n step).length = n * step.length := by
  induction n with
  | zero => simp [repeatSteps]
  | succ k ih => rw [repeatSteps_succ, List.length_append, ih]; ring

/-- the two-qubit gates called `nm` of a repeated step are the step's own, repeated in the same order -/
theorem gatePairs_repeat (nm : GName) (n : Nat) (step : List Gate) :
    gatePairs nm (repeatSteps n step) = (List.replicate n (gatePairs nm step)).flatten := by
  induction n with
  | zero => simp [repeatSteps, gatePairs]
  | succ k ih =>
    rw [repeatSteps_succ, List.replicate_succ, List.flatten_cons, ← ih]
    simp [gatePairs, List.filterMap_append]

/-- **C07 (circuit assembly)** every Trotter circuit builder of the library returns its one-step gate list repeated,
    with nothing in between: `timesteps` copies for the spin models (so the generators of `ising_step_generators`,
    `heisenberg_step_generators`, … are applied `timesteps` times with the step `dt`: total time `timesteps·dt`), and
    `n·timesteps` sub-steps of the angles of `angle_sign_hubbard` (duration `dt/n` each, `hubbard_time_bookkeeping`)
    for the two Fermi–Hubbard builders. -/
theorem circuits_repeat_step (L R C n steps : Nat) (per : Bool) (J g Jx Jy Jz h u t mu dt : Rat) :
    isingCircuit L per J g dt steps = (List.replicate steps (isingStep L per J g dt)).flatten ∧
    ising2dCircuit R C J g dt steps = (List.replicate steps (ising2dStep R C J g dt)).flatten ∧
    heisenbergCircuit L per Jx Jy Jz h dt steps = (List.replicate steps (heisenbergStep L per Jx Jy Jz h dt)).flatten ∧
    heisenberg2dCircuit R C Jx Jy Jz h dt steps
      = (List.replicate steps (heisenberg2dStep R C Jx Jy Jz h dt)).flatten ∧
    fh1dCircuit L u t mu dt n steps = (List.replicate (n * steps) (fh1dSubstep L u t mu dt n)).flatten ∧
    fh2dCircuit R C u t mu dt n steps = (List.replicate (steps * n) (fh2dSubstep R C u t mu dt n)).flatten ∧
    (isingCircuit L per J g dt steps).length = steps * (isingStep L per J g dt).length ∧
    gatePairs .rzz (isingCircuit L per J g dt steps)
      = (List.replicate steps (gatePairs .rzz (isingStep L per J g dt))).flatten :=
  ⟨rfl, rfl, rfl, rfl, rfl, rfl, repeatSteps_length _ _, gatePairs_repeat _ _ _⟩

/-- **C07 (hopping term)** `add_hopping_term(circ, i, j, α)` appends the XX block and then the YY block of
    `lri_closed_form` (both built on an empty circuit) to `circ`, and raises exactly when `i ≥ j` -/
theorem add_hopping_rule (circ : List Gate) (i j : Nat) (α : Rat) :
    addHopping circ i j α =
      if i ≥ j then .error .index
      else match addLongRange [] i j (some true) α, addLongRange [] i j (some false) α with
        | .ok xx, .ok yy => .ok (circ ++ xx ++ yy)
        | _, _ => .error .index := by
  unfold addHopping
  rw [lri_closed_form i j true α, lri_closed_form i j false α]
  by_cases h : i ≥ j
  · simp only [h, if_true]
  · simp only [h, if_false]

/-- the 2-D Hubbard sub-step uses `add_hopping_term` only with `i < j` (never on its error branch) for a bond
    `(p₁, p₂)` with `p₁ < p₂`, for both spin species -/
theorem hopGates_ok (i j : Nat) (α : Rat) (h : i < j) :
    ∃ xx yy, addLongRange [] i j (some true) α = .ok xx ∧ addLongRange [] i j (some false) α = .ok yy ∧
      hopGates i j α = xx ++ yy := by
  have hn : ¬ i ≥ j := by omega
  have hx := lri_closed_form i j true α
  have hy := lri_closed_form i j false α
  simp only [hn, if_false] at hx hy
  refine ⟨_, _, hx, hy, ?_⟩
  unfold hopGates addHopping
  rw [hx, hy]
  simp

/-- **C07 (qubit ordering of the Hubbard builders)** `lookup_qiskit_ordering(particle, spin)` is the interleaved
    index `2·particle + spin` for spin ∈ {↑ = 0, ↓ = 1} — the layout `fh2dSubstep` uses —, it is injective, and any other
    spin value raises -/
theorem lookup_ordering (p p' s s' : Nat) :
    (s ≤ 1 → lookupQiskitOrdering p s = some (2 * p + s)) ∧ (1 < s → lookupQiskitOrdering p s = none) ∧
    (s ≤ 1 → s' ≤ 1 → lookupQiskitOrdering p s = lookupQiskitOrdering p' s' → p = p' ∧ s = s') := by
  refine ⟨fun h => by simp [lookupQiskitOrdering, h], fun h => by simp [lookupQiskitOrdering]; omega, ?_⟩
  intro h h' he
  simp only [lookupQiskitOrdering, h, h', if_true, Option.some.injEq] at he
  omega

example : (isingCircuit 3 false 1 (1/2) (1/10) 2).length = 2 * (isingStep 3 false 1 (1/2) (1/10)).length ∧
    gatePairs .rzz (isingCircuit 3 false 1 (1/2) (1/10) 2) = [(0, 1), (1, 2), (0, 1), (1, 2)] := by decide +kernel

/-! ## Hand-written 4-state tables -/

section blk
variable {K : Type} [CommSemiring K] {α : Type}

/-- **C07 (`fsm_boson_sum`)** For every chain length `L ≥ 1`, every local dimension (`α`), every value of the blocks
    (`B`, any commutative semiring; the zero block is zero) and every configuration pair, the path sum through the
    tensors `bose_hubbard` builds (row 0 / full 4×4 table / column 3; a single site: the block `h_loc`) is the
    documented chain `Σ_i h_i + Σ_i (a†_i·(-J a)_{i+1} + a_i·(-J a†)_{i+1})` with identities elsewhere, written as the
    explicit sums `bhChainSum` over sites and bonds. -/
theorem fsm_boson_sum (B : Nat → Blk → α → α → K) (σ σ' : Nat → α) (hz : ∀ i a b, B i .zero a b = 0)
    (L : Nat) (hL : 1 ≤ L) :
    blkPathSum B (bhTensors L) σ σ' = some (bhChainSum B σ σ' 0 L) := by
  rw [← bhChain_eq_sum]
  rcases Nat.lt_or_ge L 2 with h1 | h2
  · have : L = 1 := by omega
    subst this
    rw [bhTensors_one]
    simp [blkPathSum, blkVals, blkApply, dot, bhChain, bv]
  obtain ⟨n, rfl⟩ : ∃ n, L = n + 2 := ⟨L - 2, by omega⟩
  rw [bhTensors_succ_succ]
  unfold blkPathSum
  rw [blkVals, bh_vals B σ σ' hz n 1]
  simp only [blkApply, dot, List.map_cons, List.map_nil, bhChain, bv]
  have hlast : (([[Blk.id, .up, .dn, .hloc]] :: (List.replicate n (fullMat bhTable) ++ [[[Blk.hloc], [.dnJ], [.upJ], [.id]]])).getLast?.map
      fun m => m.all fun row => decide (row.length = 1)) = some true := by
    rw [getLast?_cons_append_singleton]; rfl
  rw [if_pos hlast]
  congr 1
  cases n with
  | zero => simp [bhChain, idProd, bv]; ring
  | succ m => simp only [bhChain, idProd, bv]; ring

example : ∀ i a b, onesB i .zero a b = 0 := fun _ _ _ => rfl
example : blkPathSum onesB (bhTensors 4) (fun _ => ()) (fun _ => ()) = some 10 ∧
    bhChainSum onesB (fun _ => ()) (fun _ => ()) 0 4 = 10 ∧
    blkPathSum onesB (bhTensors 1) (fun _ => ()) (fun _ => ()) = some 1 := by decide

/-- **old variant (code as found, before 522fc8a, D21)**: `bose_hubbard(1, …)` returned a single tensor with left
    bond 4 — no path sum, `to_matrix` raised. -/
theorem boson_length_one_broken_old (B : Nat → Blk → α → α → K) (σ σ' : Nat → α) :
    blkPathSum B (bhTensorsOld 1) σ σ' = none ∧ blkShapes (bhTensorsOld 1) = [(4, 1)] := by
  constructor
  · simp [blkPathSum, bhTensorsOld, bhFull_eq, blkVals, blkApply]
  · decide

/-- **C07 (`fsm_transmon_sum`)** For EVERY chain length `L ≥ 1` — odd (ends on a qubit), even (ends on a resonator) and
    the single qubit —, all local dimensions, all block values (zero block zero) and every configuration pair, the path
    sum through the tensors `coupled_transmon` builds is the documented chain
    `Σ_i h_i + Σ_i c_i c_{i+1}` (`h` = `h_q` on even / `h_r` on odd sites, `c` = `g·x_q` / `x_r`), identities elsewhere,
    written as the explicit sums `ctChainSum` over sites and bonds. -/
theorem fsm_transmon_sum (B : Nat → Blk → α → α → K) (σ σ' : Nat → α) (hz : ∀ i a b, B i .zero a b = 0)
    (L : Nat) (hL : 1 ≤ L) :
    blkPathSum B (ctTensors L) σ σ' = some (ctChainSum B σ σ' 0 L) := by
  rw [← ctChain_eq_sum]
  rcases Nat.lt_or_ge L 2 with h1 | h2
  · have : L = 1 := by omega
    subst this
    have : ctTensors 1 = [[[.hq]]] := by decide
    rw [this]
    simp [blkPathSum, blkVals, blkApply, dot, ctChain, ctRest, idProd, bv, ctLocal]
  obtain ⟨m, rfl⟩ : ∃ m, L = m + 2 := ⟨L - 2, by omega⟩
  have hts : ctTensors (m + 2) =
      [[.hq, .id, .gx, .id]] :: ((List.range' 1 m).map (ctSite (m + 2)) ++ [ctSite (m + 2) (m + 1)]) := by
    unfold ctTensors
    rw [List.range_eq_range', List.range'_succ, List.map_cons, ctSite_first _ (by omega), Nat.zero_add,
      List.range'_concat, List.map_append]
    simp [Nat.add_comm]
  have hvals := ct_vals B σ σ' hz (m + 2) m 1 (le_refl 1) (by omega)
  unfold blkPathSum
  rw [hts, blkVals, ← List.map_singleton (f := ctSite (m + 2)), ← List.map_append,
    show List.range' 1 m ++ [m + 1] = List.range' 1 (m + 1) by rw [List.range'_concat]; simp [Nat.add_comm], hvals]
  have hlast : (([[Blk.hq, .id, .gx, .id]] :: (List.map (ctSite (m + 2)) (List.range' 1 (m + 1)))).getLast?.map
      fun t => t.all fun row => decide (row.length = 1)) = some true := by
    rw [List.range'_concat, List.map_append, List.map_singleton, getLast?_cons_append_singleton,
      show 1 + 1 * m = m + 1 by omega, ctSite_last (m + 2) (m + 1) (by omega) (by omega)]
    split <;> rfl
  simp only [show ¬ (1 % 2 = 0) by decide, if_false, blkApply, dot, List.map_cons, List.map_nil, bv]
  rw [if_pos hlast]
  congr 1
  cases m with
  | zero => simp only [ctChain, ctRest, idProd, ctLocal, ctCoupl, bv]; simp; ring
  | succ j => simp only [ctChain, ctRest, idProd, ctLocal, ctCoupl, bv]; simp; ring

example : blkPathSum onesB (ctTensors 3) (fun _ => ()) (fun _ => ()) = some 5 ∧
    blkPathSum onesB (ctTensors 5) (fun _ => ()) (fun _ => ()) = some 9 ∧
    blkPathSum onesB (ctTensors 4) (fun _ => ()) (fun _ => ()) = some 7 ∧
    ctChainSum onesB (fun _ => ()) (fun _ => ()) 0 5 = 9 := by decide

/-- for `length = 3` the documented transmon chain is `h_q + h_r + h_q + g x_q x_r + x_r g x_q` -/
theorem ctChainSum_three (B : Nat → Blk → α → α → K) (σ σ' : Nat → α) :
    ctChainSum B σ σ' 0 3 =
      bv B σ σ' 0 .hq * bv B σ σ' 1 .id * bv B σ σ' 2 .id
        + bv B σ σ' 0 .id * bv B σ σ' 1 .hr * bv B σ σ' 2 .id
        + bv B σ σ' 0 .id * bv B σ σ' 1 .id * bv B σ σ' 2 .hq
        + bv B σ σ' 0 .gx * bv B σ σ' 1 .xr * bv B σ σ' 2 .id
        + bv B σ σ' 0 .id * bv B σ σ' 1 .xr * bv B σ σ' 2 .gx := by
  simp [ctChainSum, List.range_succ, idProd, ctLocal, ctCoupl]
  ring

/-- **old variant (code as found, before 201a5d0, D20) — counterexample**: at `length = 5` the old `coupled_transmon`
    tables did NOT give the documented chain: with every non-zero block equal to 1 the documented chain has 5 + 4 = 9
    terms, the old automaton had 14 paths (products like `h_q ⊗ 1 ⊗ h_q` appeared, `h_r` terms were lost). -/
theorem transmon_wrong_at_5 :
    ∃ (B : Nat → Blk → Unit → Unit → Nat), (∀ i a b, B i .zero a b = 0) ∧
      blkPathSum B (ctTensorsOld 5) (fun _ => ()) (fun _ => ()) ≠ some (ctChainSum B (fun _ => ()) (fun _ => ()) 0 5) := by
  refine ⟨onesB, fun _ _ _ => rfl, ?_⟩
  decide

/-- **old variant (before 201a5d0)**: even lengths ended on a resonator tensor with right bond 4 — no path sum,
    `to_matrix` raised. -/
theorem transmon_even_length_broken_old (n : Nat) (hn : 1 ≤ n) :
    (blkShapes (ctTensorsOld (2 * n))).getLast? = some (4, 4) := by
  obtain ⟨m, rfl⟩ : ∃ m, n = m + 1 := ⟨n - 1, by omega⟩
  have : 2 * (m + 1) = (2 * m + 1) + 1 := by omega
  rw [this]
  unfold blkShapes ctTensorsOld
  rw [List.range_succ, List.map_append, List.map_append, List.getLast?_append]
  have hodd : (2 * m + 1) % 2 ≠ 0 := by omega
  simp only [List.map_cons, List.map_nil, hodd, if_false, List.getLast?_singleton, Option.some_or]
  decide

end blk

end Yaqs.Trotter

/-!
# C07, extension — conversions, factorisation and compression of an MPO (model `Model/MpoConv.lean`)

The clauses "its dense and sparse conversions agree, compression changes it by no more than the tolerance, and a dense
matrix factorised into an MPO converts back to itself", for every chain length, all bond dimensions, per-site physical
dimensions, and any commutative (semi)ring of coefficients.  LAPACK's SVD enters as explicit hypotheses (spec-tied by
`harness/impl/C07.py` on every matrix the real code decomposes); the rank rules are C09's `keepFromMatrix` /
`keepCompress` (`Model/Rank.lean`), the error of one truncated split is C09's `c09_split_error`.
-/
namespace Yaqs.MpoConv
open Yaqs.Index

section conversions
variable {K : Type} [CommSemiring K]

/-- **C07 (`to_matrix` = its definition)** `MPO.to_matrix` — the loop `contract("abcd, efdg->aebfcg")` + `reshape`, then
    `squeeze` — on any well-formed chain (consecutive bonds match, outer bonds 1; otherwise the code raises): it returns a
    `Π d_i × Π d_i` matrix whose entry at row `kronIdx σ`, column `kronIdx σ'` (site 0 the most significant digit — C06's
    index map) is the sum over all bond paths of the product of the tensor entries.  Every length, any bond dimensions. -/
theorem to_matrix_entry (ts : List (Site K)) (σ σ' : List Nat) (hw : wellFormed ts = true)
    (hv : Valid (physDims ts) σ) (hv' : Valid (physDims ts) σ') :
    ∃ M, toMatrixCode ts = some M ∧ M.rows = dimProd (physDims ts) ∧ M.cols = dimProd (physDims ts) ∧
      M.e (kronIdx (physDims ts) σ) (kronIdx (physDims ts) σ') = toMatrixEntry ts σ σ' :=
  toMatrixCode_entry ts σ σ' hw hv hv'

/-- `to_matrix` raises exactly on the chains that are not well formed -/
theorem to_matrix_raises_iff (ts : List (Site K)) : toMatrixCode ts = none ↔ wellFormed ts = false := by
  cases ts with
  | nil => simp [toMatrixCode, wellFormed]
  | cons t ts => by_cases h : wellFormed (t :: ts) = true <;> simp [toMatrixCode, h]

/-- **C07 (dense and sparse conversions agree)** `MPO.to_sparse_matrix` — the dict of bond index ↦ accumulated
    `scipy.sparse.kron(left, block)` with absent keys and all-zero blocks skipped, finally key 0 or the zero matrix — and
    `MPO.to_matrix` return the same entry at every in-range position, for every well-formed chain; both are the bond path
    sum at the digits of the row / column index.  (The convention `kron(A, B)[i, j] = A[i / rB, j / cB] · B[i % rB, j % cB]`
    is part of the model and value-tied.) -/
theorem dense_eq_sparse [DecidableEq K] (pd len : Nat) (ts : List (Site K)) (hw : wellFormed ts = true)
    (i j : Nat) (hi : i < dimProd (physDims ts)) (hj : j < dimProd (physDims ts)) :
    ∃ M, toMatrixCode ts = some M ∧ M.e i j = (toSparseCode pd len ts).e i j ∧
      M.e i j = toMatrixEntry ts (unflat (physDims ts) i) (unflat (physDims ts) j) := by
  obtain ⟨hvi, hei⟩ := kronIdx_unflat (physDims ts) i hi
  obtain ⟨hvj, hej⟩ := kronIdx_unflat (physDims ts) j hj
  obtain ⟨M, hM, _, _, hMe⟩ := toMatrixCode_entry ts _ _ hw hvi hvj
  have hs := toSparseCode_entry pd len ts _ _ hw hvi hvj
  rw [hei, hej] at hMe hs
  exact ⟨M, hM, by rw [hMe, hs], hMe⟩

/-- shape of the sparse result when key 0 is present: `Π d_i` in both directions -/
theorem sparse_shape [DecidableEq K] (ts : List (Site K)) :
    (spAcc ts).rows = dimProd (physDims ts) ∧ (spAcc ts).cols = dimProd (physDims ts) := by
  have := foldl_spStep_shape ts (spInit : SpAcc K)
  simpa [spAcc, spInit] using this

-- a 2-site chain over ℤ with bond dimension 2 (Z⊗X + 2·X⊗Z): entries by the loop, by the path sum and by the sparse route
private def exA : Site Int := ⟨2, 1, 2, fun a b _ r =>
  if r = 0 then (if a = b then (if a = 0 then 1 else -1) else 0) else (if a = b then 0 else 2)⟩
private def exB : Site Int := ⟨2, 2, 1, fun a b l _ =>
  if l = 0 then (if a = b then 0 else 1) else (if a = b then (if a = 0 then 1 else -1) else 0)⟩
example : wellFormed [exA, exB] = true := by decide
example : (toMatrixCode [exA, exB]).map (fun m => [(m.rows : Int), m.cols, m.e 0 1, m.e 1 0, m.e 0 2, m.e 3 1, m.e 3 2, m.e 0 0])
    = some [4, 4, 1, 1, 2, -2, -1, 0] := by decide +kernel
example : toMatrixEntry [exA, exB] [1, 1] [0, 1] = -2 ∧ kronIdx [2, 2] [1, 1] = 3 ∧ kronIdx [2, 2] [0, 1] = 1 := by decide +kernel
example : (toSparseCode 2 2 [exA, exB]).e 3 1 = -2 ∧ (toSparseCode 2 2 [exA, exB]).rows = 4 := by decide +kernel

/-! ## `from_matrix` -/

/-- **C07 (`from_matrix` accepts exactly the right shapes)** the chain length is inferred, and `ValueError` raised,
    exactly as documented: accepted iff `d ≥ 1`, the matrix is square of side `d ^ n` with `n ≥ 1` (for `d = 1`: `1 × 1`). -/
theorem from_matrix_accepts_iff (d rows cols n : Nat) :
    inferN d rows cols = some n ↔ 1 ≤ d ∧ rows = cols ∧ 1 ≤ n ∧ rows = d ^ n ∧ (d = 1 → n = 1) :=
  inferN_eq_some_iff d rows cols n

example : inferN 2 8 8 = some 3 ∧ inferN 3 9 9 = some 2 ∧ inferN 2 6 6 = none ∧ inferN 2 1 1 = none ∧
    inferN 1 1 1 = some 1 ∧ inferN 1 2 2 = none ∧ inferN 0 1 1 = none ∧ inferN 2 4 8 = none := by decide +kernel

/-- **C07 (a dense matrix factorised into an MPO converts back to itself)** `MPO.from_matrix(M, d)` for a
    `d^n × d^n` matrix, given the SVD results of its `n − 1` splitting steps.  If at every step the kept columns, values
    and rows reconstruct the regrouped remainder exactly (`x_k = u[:, :r] diag(s[:r]) vh[:r]` — the untruncated SVD spec,
    or a truncation that only cut zeros), then the bond path sum of the returned tensors at `(σ, σ')` is
    `M[kronIdx σ, kronIdx σ']`; with `to_matrix_entry`: `from_matrix(M).to_matrix() = M`.  Induction over the splitting
    steps; each step is "regroup ∘ (U·S·V) ∘ regroup⁻¹ = id" on the remainder (`fmX_apply`). -/
theorem from_matrix_roundtrip_exact (d n : Nat) (hn : 1 ≤ n) (M : Nat → Nat → K) (cutoff : Rat) (maxB : Option Nat)
    (decs : List (Dec K)) (hx : ExactDecs d cutoff maxB (n - 1) 1 (remOfMat M) decs)
    (σ σ' : List Nat) (hv : Valid (List.replicate n d) σ) (hv' : Valid (List.replicate n d) σ') :
    toMatrixEntry (fromMatrixGo d cutoff maxB (n - 1) 1 (remOfMat M) decs) σ σ'
      = M (kronIdx (List.replicate n d) σ) (kronIdx (List.replicate n d) σ') := by
  obtain ⟨m, rfl⟩ : ∃ m, n = m + 1 := ⟨n - 1, by omega⟩
  simp only [Nat.add_sub_cancel] at hx ⊢
  exact fromMatrixGo_vals d cutoff maxB m 1 (remOfMat M) decs σ σ' hx hv hv' 0 (by omega)

/-- the tensors `from_matrix` returns form a well-formed chain of `n` sites of physical dimension `d` whose bond
    dimensions are `keepFromMatrix` of the spectra (so `to_matrix` does not raise on them) -/
theorem from_matrix_shapes (d : Nat) (cutoff : Rat) (maxB : Option Nat) :
    ∀ (m lr : Nat) (rem : Rem K) (decs : List (Dec K)), decs.length = m →
    (fromMatrixGo d cutoff maxB m lr rem decs).length = m + 1 ∧
    physDims (fromMatrixGo d cutoff maxB m lr rem decs) = List.replicate (m + 1) d ∧
    chainFrom lr (fromMatrixGo d cutoff maxB m lr rem decs) = true ∧
    lastDr lr (fromMatrixGo d cutoff maxB m lr rem decs) = 1 ∧
    bondDims (fromMatrixGo d cutoff maxB m lr rem decs)
      = lr :: (decs.map fun dec => Rank.keepFromMatrix dec.s cutoff maxB) ++ [1]
  | 0, lr, rem, decs, h => by
    have : decs = [] := List.length_eq_zero_iff.mp h
    subst this
    simp [fromMatrixGo, physDims, fmLast, chainFrom, lastDr, bondDims]
  | m + 1, lr, rem, dec :: decs, h => by
    obtain ⟨h1, h2, h3, h4, h5⟩ := from_matrix_shapes d cutoff maxB m (Rank.keepFromMatrix dec.s cutoff maxB)
      (fmRem (d ^ (m + 1)) dec.sv dec.Vh) decs (by simpa using h)
    refine ⟨by simp [fromMatrixGo, h1], ?_, ?_, ?_, ?_⟩
    · simp only [physDims] at h2
      simp [fromMatrixGo, physDims, h2, fmSite, List.replicate_succ]
    · simp [fromMatrixGo, chainFrom, fmSite, h3]
    · simp [fromMatrixGo, lastDr, fmSite, h4]
    · have hne : fromMatrixGo d cutoff maxB m (Rank.keepFromMatrix dec.s cutoff maxB)
          (fmRem (d ^ (m + 1)) dec.sv dec.Vh) decs ≠ [] := by
        intro h0; rw [h0] at h1; simp at h1
      cases hgo : fromMatrixGo d cutoff maxB m (Rank.keepFromMatrix dec.s cutoff maxB)
          (fmRem (d ^ (m + 1)) dec.sv dec.Vh) decs with
      | nil => exact absurd hgo hne
      | cons t rest =>
        rw [hgo] at h5
        simp only [bondDims, List.map_cons, List.cons_append, List.cons.injEq] at h5
        simp [fromMatrixGo, hgo, bondDims, fmSite, h5.2]
  | _ + 1, _, _, [], h => by simp at h

-- 4 × 4 matrix A ⊗ B over ℤ (A = [[1,2],[3,4]], B = [[1,0],[2,1]]): the regrouped matrix has rank 1, `u = vec A`, `s = [1]`,
-- `vh = vec B`; the decomposition is exact, and the two tensors give back every entry
private def exM : Nat → Nat → Int := fun i j => (2 * (i / 2) + j / 2 + 1) * (if i % 2 = j % 2 then 1 else if i % 2 = 1 then 2 else 0)
private def exDec : Dec Int := ⟨fun i _ => i + 1, [1], fun _ => 1, fun _ j => if j = 0 ∨ j = 3 then 1 else if j = 2 then 2 else 0⟩
example : ExactDecs 2 (1 / 1000000000000) none 1 1 (remOfMat exM) [exDec] := by
  refine ⟨?_, trivial⟩
  decide +kernel
example : toMatrixEntry (fromMatrixGo 2 (1 / 1000000000000) none 1 1 (remOfMat exM) [exDec]) [1, 1] [0, 0] = 6 ∧
    exM (kronIdx [2, 2] [1, 1]) (kronIdx [2, 2] [0, 0]) = 6 := by decide +kernel

end conversions

section truncation
open Matrix Yaqs.Split
variable {K : Type} [CommRing K] [StarRing K]

/-- **C07 (`from_matrix` with truncation, one step — the induction step of `from_matrix_error`)** From the SVD spec of
    the regrouped remainder `X = U diag(s) V`, `UᴴU = 1`, `VVᴴ = 1`: keeping the columns selected by `e` (the code's prefix
    `[:r_keep]`) and replacing the exact new remainder `(diag(s) V)[kept]` by *any* approximation `Rt` (what the later steps
    make of it) changes `X` by exactly `Σ_{dropped} |s_i|²  +  ‖(diag(s) V)[kept] − Rt‖²_F` — the discarded weight of this
    step (C09 `c09_split_error`) plus the error on the remainder, because the already fixed left factor is an isometry
    and the two error parts are orthogonal. -/
theorem from_matrix_step_error {m n k k' : Type} [Fintype m] [Fintype n] [Fintype k] [Fintype k']
    [DecidableEq k] [DecidableEq k'] (U : Matrix m k K) (V : Matrix k n K) (s : k → K)
    (hU : Uᴴ * U = 1) (hV : V * Vᴴ = 1) (e : k' → k) (he : Function.Injective e)
    (kept : k → Prop) [DecidablePred kept] (hk : ∀ i, kept i ↔ ∃ j, e j = i) (Rt : Matrix k' n K) :
    frobSq (U * diagonal s * V - U.submatrix id e * Rt)
      = (∑ i, if kept i then 0 else star (s i) * s i) + frobSq ((diagonal s * V).submatrix e id - Rt) :=
  split_then_approx_error U V s hU hV e he kept hk Rt

/-- **C07 (`from_matrix` with truncation: the change is the discarded weight)** `MPO.from_matrix(M, d, max_bond, cutoff)`
    for a `d^n × d^n` matrix, with the SVD spec at each of its `n − 1` steps (`x_k = u diag(s) vh`, `uᴴu = 1`, `vh vhᴴ = 1`,
    kept rank `keepFromMatrix` — C09's rule — not larger than the number of singular values):
    `Σ_{i,j} |M[i,j] − (path sum of the returned tensors at the digits of i, j)|²  =  Σ_k Σ_{p ≥ keep_k} |s_{k,p}|²`,
    i.e. (with `to_matrix_entry`) `‖M − from_matrix(M).to_matrix()‖²_F` is exactly the sum over the steps of the discarded
    weights; in particular 0 when nothing non-zero is cut, and at most `Σ_k (#cut_k) · cutoff²` when only `cutoff` acts.
    Induction over the steps: `from_matrix_step_error` at each step, the regrouping `fmX` only permutes entries
    (`frob3_regroup`). -/
theorem from_matrix_error (d n : Nat) (hn : 1 ≤ n) (M : Nat → Nat → K) (cutoff : Rat) (maxB : Option Nat)
    (decs : List (Dec K)) (hlen : decs.length = n - 1) (hx : SvdDecs d cutoff maxB (n - 1) 1 (remOfMat M) decs) :
    ∑ i ∈ Finset.range (d ^ n), ∑ j ∈ Finset.range (d ^ n),
        sqAbs (M i j - toMatrixEntry (fromMatrixGo d cutoff maxB (n - 1) 1 (remOfMat M) decs)
          (unflat (List.replicate n d) i) (unflat (List.replicate n d) j))
      = totalDisc cutoff maxB decs := by
  obtain ⟨m, rfl⟩ : ∃ m, n = m + 1 := ⟨n - 1, by omega⟩
  simp only [Nat.add_sub_cancel] at hx hlen ⊢
  have := fromMatrixGo_error d cutoff maxB m 1 (remOfMat M) decs hlen hx
  simpa [frob3, recon, remOfMat, toMatrixEntry] using this

-- non-vacuity over ℚ: the 4 × 4 matrix whose regrouping is diag(4, 3, 2, 1) (u = vh = 1); cutoff 5/2 keeps two values,
-- the squared change is 2² + 1² = 5
private def exU : Nat → Nat → ℚ := fun i j => if i = j then 1 else 0
private def exD : Dec ℚ := ⟨exU, [4, 3, 2, 1], fun p => 4 - p, exU⟩
private def exM4 : Nat → Nat → ℚ := fun i j =>
  if i / 2 = i % 2 ∧ j / 2 = j % 2 then ((4 - (2 * (i / 2) + j / 2) : Nat) : ℚ) else 0
example : SvdDecs 2 (5 / 2) none 1 1 (remOfMat exM4) [exD] := by
  refine ⟨?_, ?_, ?_, ?_, trivial⟩
  · decide +kernel
  · decide +kernel
  · decide +kernel
  · decide +kernel
example : totalDisc (5 / 2) none [exD] = 5 := by decide +kernel

-- non-vacuity over ℚ (trivial star): U = V = 1 (2 × 2), s = (3, 4), keep the first value, approximate the remainder (3, 0) by (1, 0):
-- every hypothesis is met
example : True := by
  have := from_matrix_step_error (1 : Matrix (Fin 2) (Fin 2) ℚ) (1 : Matrix (Fin 2) (Fin 2) ℚ) ![3, 4] (by simp) (by simp)
    (![0] : Fin 1 → Fin 2) (by intro a b _; exact Subsingleton.elim a b) (fun i => i = 0)
    (by intro i; constructor
        · intro h; exact ⟨0, by simp [h]⟩
        · rintro ⟨j, hj⟩; rw [← hj]; simp)
    (!![1, 0] : Matrix (Fin 1) (Fin 2) ℚ)
  trivial

/-- **C07 (compression, one SVD step with truncation)** From the SVD spec of the two-site matrix `theta` of bond
    `(k, k+1)` (`theta = U diag(s) V`, isometries, `kf` singular values): the two-site block of the tensors written back
    (`u[:, :keep]` reshaped; `s[:keep] · vh[:keep]` reshaped — the singular values go to the right in both directions) differs
    from the old block by exactly the discarded weight `Σ_{p ≥ keep} |s_p|²`, in particular by at most
    `(kf − keep) · tol²` when `keep` counts the values above `tol`. -/
theorem compress_step_block_error (a b : Site K) (dec : Dec K) (kf keep : Nat) (hkeep : keep ≤ kf)
    (hspec : toMat (a.dl * a.d * a.d) (a.d * a.d * b.dr) (theta a b)
      = toMat (a.dl * a.d * a.d) kf dec.U * diagonal (fun p : Fin kf => dec.sv p) * toMat kf (a.d * a.d * b.dr) dec.Vh)
    (hU : (toMat (a.dl * a.d * a.d) kf dec.U)ᴴ * toMat (a.dl * a.d * a.d) kf dec.U = 1)
    (hV : toMat kf (a.d * a.d * b.dr) dec.Vh * (toMat kf (a.d * a.d * b.dr) dec.Vh)ᴴ = 1) :
    frobSq (toMat (a.dl * a.d * a.d) (a.d * a.d * b.dr) (theta a b)
        - toMat (a.dl * a.d * a.d) (a.d * a.d * b.dr) (theta (cLeft a keep dec.U) (cRight a b keep dec.sv dec.Vh)))
      = ∑ p : Fin kf, if (p : Nat) < keep then 0 else star (dec.sv p) * dec.sv p :=
  compressStep_block_error a b dec kf keep hkeep hspec hU hV

end truncation

section compression
variable {K : Type} [CommSemiring K]

/-- **C07 (compression with the untruncated spec changes nothing)** a whole `_compress_one_sweep` (any direction; more
    generally any list of bonds) in which at every step the kept part of the SVD reconstructs the two-site matrix exactly
    leaves the bond path sum at every configuration pair — every entry of `to_matrix()` — unchanged: the gauge argument
    of C10's `c10_shift_right_SVD`, here for the list model with two physical legs (`vals_two_site_replace`). -/
theorem compress_sweep_invariant (dir : Dir) (tol : Rat) (maxB : Option Nat) (ts : List (Site K)) (decs : List (Dec K))
    (hw : wellFormed ts = true) (hx : ExactSweep tol maxB ts (sweepOrder dir ts.length) decs)
    (σ σ' : List Nat) (hv : Valid (physDims ts) σ) (hv' : Valid (physDims ts) σ') :
    toMatrixEntry (compressSweep dir tol maxB ts decs) σ σ' = toMatrixEntry ts σ σ' := by
  cases ts with
  | nil => simp [wellFormed] at hw
  | cons t ts =>
    simp only [wellFormed, Bool.and_eq_true, decide_eq_true_eq] at hw
    have hc : chainFrom 1 (t :: ts) = true := by simp [chainFrom, hw.1.1, hw.1.2]
    exact compressFold_vals tol maxB _ decs (t :: ts) 1 σ σ' hc hx hv hv' 0 (by omega)

/-- **C07 (`compress`: which sweeps run)** `compress(n_sweeps, directions)` raises `ValueError` iff `n_sweeps < 0` or
    `directions` is not one of the four documented strings; otherwise it runs `n_sweeps` repetitions of the schedule
    (so `n_sweeps = 0` does nothing). -/
theorem compress_plan (n : Int) (dirs : String) :
    (compressPlan n dirs = none ↔ n < 0 ∨ schedule dirs = none) ∧
    (∀ sch, 0 ≤ n → schedule dirs = some sch → compressPlan n dirs = some (List.replicate n.toNat sch).flatten) ∧
    (schedule dirs ≠ none ↔ dirs = "lr" ∨ dirs = "rl" ∨ dirs = "lr_rl" ∨ dirs = "rl_lr") := by
  refine ⟨?_, ?_, ?_⟩
  · unfold compressPlan
    by_cases h : n < 0
    · simp [h]
    · cases hs : schedule dirs <;> simp [h]
  · intro sch h0 hs
    unfold compressPlan
    simp [not_lt.mpr h0, hs]
  · unfold schedule
    split <;> simp_all

example : compressPlan 2 "lr_rl" = some [.lr, .rl, .lr, .rl] ∧ compressPlan 0 "rl" = some [] ∧
    compressPlan (-1) "lr" = none ∧ compressPlan 1 "both" = none := by decide

/-- **C07 (shapes after a compression sweep; the sweep is a finite fold, hence terminates)** For a valid chain and one
    SVD result per bond, a sweep in either direction returns a chain of the same length that is still valid
    (`check_if_valid_mpo`), with the same outer bonds, in which the bond touched by the `j`-th SVD call has dimension
    `keepCompress` of that call's spectrum — `max(1, min(#{s > tol}, max_bond_dim))`, C09 `c09_compress_bounds`: at least 1,
    at most the cap, at most the number of singular values.  The `j`-th call is at bond `j` (`lr`) resp. `L − 2 − j` (`rl`). -/
theorem compress_terminates_shapes (dir : Dir) (tol : Rat) (maxB : Option Nat) (ts : List (Site K)) (decs : List (Dec K))
    (n : Nat) (hc : chainFrom n ts = true) (hlen : decs.length = ts.length - 1) :
    (compressSweep dir tol maxB ts decs).length = ts.length ∧
    chainFrom n (compressSweep dir tol maxB ts decs) = true ∧
    lastDr n (compressSweep dir tol maxB ts decs) = lastDr n ts ∧
    (bondDims (compressSweep dir tol maxB ts decs)).getD 0 0 = (bondDims ts).getD 0 0 ∧
    (∀ j (hj : j < decs.length) (hj' : j < (sweepOrder dir ts.length).length),
      (bondDims (compressSweep dir tol maxB ts decs)).getD ((sweepOrder dir ts.length)[j] + 1) 0
        = Rank.keepCompress (decs[j]).s tol maxB ∧
      1 ≤ Rank.keepCompress (decs[j]).s tol maxB ∧
      (∀ cap, maxB = some cap → 1 ≤ cap → Rank.keepCompress (decs[j]).s tol maxB ≤ cap)) ∧
    (sweepOrder .lr ts.length = List.range (ts.length - 1)) ∧
    (sweepOrder .rl ts.length = (List.range (ts.length - 1)).reverse) := by
  have hmem := fun k hk => sweepOrder_mem dir ts.length k hk
  obtain ⟨c1, c2, c3⟩ := compressFold_chain tol maxB (sweepOrder dir ts.length) decs ts n hc hmem
  have hb := compressFold_bondDims tol maxB (sweepOrder dir ts.length) decs ts (sweepOrder_nodup dir ts.length) hmem
  refine ⟨c3, c1, c2, ?_, ?_, rfl, rfl⟩
  · have h0 := hb 0
    have : ((sweepOrder dir ts.length).zip decs).find? (fun kd => decide (kd.1 + 1 = 0)) = none := by
      rw [List.find?_eq_none]; intro kd _; simp
    rw [this] at h0
    simpa [compressSweep] using h0
  · intro j hj hj'
    have hbj := hb ((sweepOrder dir ts.length)[j] + 1)
    rw [find_zip_nodup _ decs j hj' hj (sweepOrder_nodup dir ts.length)] at hbj
    have hbounds := Rank.c09_compress_bounds (decs[j]).s tol maxB
    exact ⟨by simpa [compressSweep] using hbj, hbounds.1, hbounds.2.1⟩

-- a 3-site chain with bonds [1, 2, 2, 1]; spectra [1, 1/2] and [1, 0] with tol 1/4: bonds after an lr sweep [1, 2, 1, 1]
private def shp (dl dr : Nat) : Site Int := ⟨2, dl, dr, fun _ _ _ _ => 0⟩
private def decOf (s : List Rat) : Dec Int := ⟨fun _ _ => 0, s, fun _ => 0, fun _ _ => 0⟩
example : bondDims (compressSweep .lr (1 / 4) none [shp 1 2, shp 2 2, shp 2 1] [decOf [1, 1 / 2], decOf [1, 0]]) = [1, 2, 1, 1] ∧
    bondDims (compressSweep .rl (1 / 4) (some 1) [shp 1 2, shp 2 2, shp 2 1] [decOf [1, 1 / 2], decOf [1, 1]]) = [1, 1, 1, 1] ∧
    chainFrom 1 [shp 1 2, shp 2 2, shp 2 1] = true := by decide +kernel

/-- **C07 (`MPO.identity`)** the chain of `L` tensors `expand_dims(eye(d))` is the identity operator: its path sum at
    `(σ, σ')` is 1 if the configurations agree and 0 otherwise (for every `d`, after the repair D24 that makes the
    builder honour `physical_dimension`). -/
theorem identity_entry (L d : Nat) : ∀ (σ σ' : List Nat), σ.length = L → σ'.length = L → ∀ l,
    vals (identityMpo L d : List (Site K)) σ σ' l = if σ = σ' then 1 else 0 := by
  induction L with
  | zero =>
    intro σ σ' h h' l
    have e1 : σ = [] := List.length_eq_zero_iff.mp h
    have e2 : σ' = [] := List.length_eq_zero_iff.mp h'
    subst e1 e2
    simp [identityMpo, vals]
  | succ L ih =>
    intro σ σ' h h' l
    cases σ with
    | nil => simp at h
    | cons a σ =>
      cases σ' with
      | nil => simp at h'
      | cons b σ' =>
        have := ih σ σ' (by simpa using h) (by simpa using h') 0
        simp only [identityMpo] at this
        simp only [identityMpo, List.replicate_succ, vals_cons]
        rw [show (identitySite d : Site K).dr = 1 from rfl, Finset.sum_range_one, this]
        by_cases hab : a = b
        · subst hab; simp [identitySite]
        · have : ¬ (a :: σ = b :: σ') := fun hc => hab (List.cons.inj hc).1
          simp [identitySite, hab, this]

/-- **C07 (`MPO.rotate`)** swapping the two physical legs of every tensor — after conjugating the entries when
    `conjugate=True` (`cj` a ring homomorphism: the identity or complex conjugation) — turns the operator into its
    transpose resp. adjoint: the path sum at `(σ, σ')` becomes `cj` of the old path sum at `(σ', σ)`. -/
theorem rotate_entry (cj : K →+* K) : ∀ (ts : List (Site K)) (σ σ' : List Nat) (l : Nat),
    vals (rotateMpo cj ts) σ σ' l = cj (vals ts σ' σ l) := by
  intro ts
  induction ts with
  | nil => intro σ σ' l; simp [rotateMpo, vals]
  | cons t ts ih =>
    intro σ σ' l
    simp only [rotateMpo] at ih
    simp only [rotateMpo, List.map_cons, vals, sumTo_eq_sum, rotateSite, map_sum, map_mul, ih]

example : vals (identityMpo 3 2 : List (Site Int)) [0, 1, 1] [0, 1, 1] 0 = 1 ∧
    vals (identityMpo 3 2 : List (Site Int)) [0, 1, 1] [0, 0, 1] 0 = 0 := by decide +kernel

/-- **C07 (`check_if_valid_mpo`)** the validity check raises on an empty tensor list, and otherwise passes exactly when
    every tensor's left bond equals its predecessor's right bond; every chain `to_matrix` accepts passes it -/
theorem check_valid_iff (ts : List (Site K)) :
    (checkValid ts = none ↔ ts = []) ∧
    (∀ t rest, ts = t :: rest → checkValid ts = some (chainFrom t.dr rest)) ∧
    (wellFormed ts = true → checkValid ts = some true) := by
  refine ⟨?_, ?_, ?_⟩
  · cases ts <;> simp [checkValid]
  · intro t rest h; subst h; rfl
  · cases ts with
    | nil => simp [wellFormed]
    | cons t rest =>
      intro h
      simp only [wellFormed, Bool.and_eq_true] at h
      simp [checkValid, h.1.2]

/-- **C07 (`MPO.custom`, `MPO.to_mps`)** `custom(…, transpose=True)` moves the caller's `(left, right, σ, σ')` layout to the
    library's `(σ, σ', left, right)` without touching a value, and `to_mps` merges the two physical legs row-major:
    entry `p = a·d + b` of the merged leg is the MPO entry `(a, b)` -/
theorem custom_and_to_mps (d dl dr : Nat) (raw : Nat → Nat → Nat → Nat → K) (t : Site K) (a b l r : Nat)
    (hb : b < t.d) :
    (customSite d dl dr raw).e a b l r = raw l r a b ∧ (customSite d dl dr raw).d = d ∧
    (customSite d dl dr raw).dl = dl ∧ (customSite d dl dr raw).dr = dr ∧
    toMpsEntry t (a * t.d + b) l r = t.e a b l r := by
  refine ⟨rfl, rfl, rfl, rfl, ?_⟩
  unfold toMpsEntry
  have hd : 0 < t.d := by omega
  have h1 : (a * t.d + b) / t.d = a := by
    rw [Nat.add_comm, Nat.add_mul_div_right _ _ hd, Nat.div_eq_of_lt hb, Nat.zero_add]
  have h2 : (a * t.d + b) % t.d = b := by
    rw [Nat.add_comm, Nat.add_mul_mod_self_right, Nat.mod_eq_of_lt hb]
  rw [h1, h2]

/-- **C07 (what is handed to the SVD)** the matrices the correspondence compares with the arguments the real code passes
    to `np.linalg.svd`: step by step they are the regrouped remainder `fmX` of `from_matrix_step_error` (shape
    `d²·left_rank × rest²`, next remainder `diag(s)·Vh` cut to the kept rank) and the two-site block `theta` of
    `compress_step_block_error` at the bond being visited, on the chain as updated by the earlier steps -/
theorem svd_inputs_spec (d : Nat) (cutoff tol : Rat) (maxB : Option Nat) (m lr : Nat) (rem : Rem K) (dec : Dec K)
    (decs : List (Dec K)) (ts : List (Site K)) (k : Nat) (ks : List Nat) (a b : Site K)
    (ha : ts[k]? = some a) (hb : ts[k + 1]? = some b) :
    fromMatrixXs d cutoff maxB (m + 1) lr rem (dec :: decs) =
      ⟨d * d * lr, d ^ (m + 1) * d ^ (m + 1), fmX d lr (d ^ (m + 1)) rem⟩ ::
        fromMatrixXs d cutoff maxB m (Yaqs.Rank.keepFromMatrix dec.s cutoff maxB) (fmRem (d ^ (m + 1)) dec.sv dec.Vh) decs ∧
    fromMatrixXs d cutoff maxB 0 lr rem decs = [] ∧
    compressThetas tol maxB ts (k :: ks) (dec :: decs) =
      ⟨a.dl * a.d * a.d, a.d * a.d * b.dr, theta a b⟩ ::
        compressThetas tol maxB (compressStep tol maxB ts k dec) ks decs := by
  refine ⟨rfl, rfl, ?_⟩
  simp only [compressThetas, ha, hb]

end compression

end Yaqs.MpoConv

/-!
# C07, extension xt07 — Trotter consistency as a theorem (models `Lemmas/TrotterLimit.lean`, `TrotterMatrix.lean`, `TrotterPauli.lean`)

The clause "every Trotter circuit of the circuit library converges, as the step shrinks, to `exp(-iHT)` of the Hamiltonian it
documents", which the first pass only cited (Lie–Trotter) and measured by step halving.  Now proved with Mathlib's matrix
exponential over `Matrix n n ℂ`:

* `product_formula_deriv`, `product_formula_first_order` — for ANY finite list of matrices, in ANY order, the product
  `F(t) = exp(tA₁)⋯exp(tA_m)` has `F(0) = 1`, `F'(0) = ΣA_k`, and `(F(t) − exp(tΣA))/t → 0`;
* `product_formula_second_order`, `unitary_pow_sub_pow_le`, `trotter_converges` — `‖F(t) − exp(tΣA)‖ ≤ s²e^s·t²` (`|t| ≤ 1`,
  `s = Σ‖A_k‖`, spectral norm), powers of unitaries differ by at most `N‖U − V‖`, hence for skew-Hermitian `A_k`
  `‖F(T/N)^N − exp(TΣA)‖ ≤ T²s²e^{|T|s}/N` and `F(T/N)^N → exp(TΣA)`;
* `pauli_string_matrix`, `generator_skew`, `step_generators_scale`, `circuit_unitary_is_power` — the dense matrices of the
  model's Pauli strings / generators, linearity of the generators in `dt`, the circuit unitary is the step unitary to the
  power `timesteps`;
* `ising_step_consistent`, `heisenberg_step_consistent`, `ising2d_step_consistent`, `heisenberg2d_step_consistent` — the
  derivative at `dt = 0` of one circuit step of each spin builder is `-i·H` of the documented Hamiltonian (through the
  `…_step_generators` theorems above: a permutation of the factors does not change the sum);
* `ising_trotter_converges`, `heisenberg_trotter_converges`, `ising2d_trotter_converges`, `heisenberg2d_trotter_converges` —
  the circuit of `N` steps of size `T/N` is within `C·T²/N` of `exp(-iTH)` and converges to it;
* `operator_order_consistent`, `operator_order_converges` — the same with the factors multiplied in operator order (last gate leftmost);
* `circuit_mpo_same_hamiltonian`, `ising_circuit_mpo_same_hamiltonian`, `heisenberg_circuit_mpo_same_hamiltonian` — that `H` is
  entry by entry the path sum of the automaton `from_pauli_sum` builds for `MPO.ising` / `MPO.heisenberg` (`fsm_sum`), at the
  digits where `to_matrix` places it (`index_digits`).

Still outside a theorem: the Fermi–Hubbard builders (their gates are not Pauli rotations of the model's `gateGen`; angles,
bond lists and time bookkeeping are `angle_sign_hubbard`, `hubbard_chain_bonds`, `hubbard_time_bookkeeping`; consistency and
convergence are measured by the `trotter-deriv` / `trotter-*` oracles), and that qiskit's `rx/rz/rzz/rxx/ryy(θ)` are
`exp(-iθ/2·P)` (C18 `generator_exp` for yaqs' own gate library; spec-tied for qiskit on every run).
-/
namespace Yaqs.Trotter

open Matrix NormedSpace Filter Topology Yaqs.TrotterLimit

section product_formula
variable {n : Type} [Fintype n] [DecidableEq n]

open scoped Matrix.Norms.Operator in
/-- **C07 (`product_formula_deriv`: first-order consistency of every product formula)** For any finite list of complex
    `n × n` matrices `A₁ … A_m`, in any order, `F(t) = exp(tA₁)·exp(tA₂)⋯exp(tA_m)` satisfies `F(0) = 1` and
    `F'(0) = A₁ + … + A_m` (induction on the list with the product rule).  One Trotter step of a library circuit is such an
    `F` with `A_k = -i c_k P_k`. -/
theorem product_formula_deriv (As : List (Matrix n n ℂ)) :
    prodExp As 0 = 1 ∧ HasDerivAt (prodExp As) As.sum 0 :=
  ⟨prodExp_zero As, hasDerivAt_prodExp As⟩

open scoped Matrix.Norms.Operator in
/-- **C07 (the ordering of the factors does not matter at first order)** if `Bs` is a rearrangement of `As` then
    `(exp(tA₁)⋯exp(tA_m) − exp(t·ΣB))/t → 0` as `t → 0`: the product formula of `As` is a consistent one-step method for the
    flow of `ΣB = ΣA`.  This is why the permutation in `ising_step_generators` / `heisenberg_step_generators` is harmless. -/
theorem product_formula_first_order (As Bs : List (Matrix n n ℂ)) (h : As.Perm Bs) :
    As.sum = Bs.sum ∧
    Tendsto (fun t : ℝ => t⁻¹ • (prodExp As t - exp (t • Bs.sum))) (𝓝[≠] 0) (𝓝 0) := by
  refine ⟨h.sum_eq, ?_⟩
  rw [← h.sum_eq]
  exact prodExp_first_order As

open scoped Matrix.Norms.L2Operator in
/-- **C07 (second-order local error)** in the spectral norm, with `s = Σ‖A_k‖`:  `‖F(t) − exp(tΣA)‖ ≤ (s²e^s)·t²` for
    `|t| ≤ 1` (Taylor remainder of the exponential series; explicit constant). -/
theorem product_formula_second_order (As : List (Matrix n n ℂ)) (t : ℝ) (ht : |t| ≤ 1) :
    ‖prodExp As t - exp (t • As.sum)‖ ≤ ((As.map norm).sum ^ 2 * Real.exp (As.map norm).sum) * t ^ 2 := by
  have h := prodExp_second_order As t
  have hs := list_sum_norm_nonneg As
  generalize (As.map norm).sum = s at h hs ⊢
  have hle : |t| * s ≤ s := by
    calc |t| * s ≤ 1 * s := mul_le_mul_of_nonneg_right ht hs
      _ = s := one_mul s
  have hexp := Real.exp_le_exp.mpr hle
  calc ‖prodExp As t - exp (t • As.sum)‖ ≤ t ^ 2 * s ^ 2 * Real.exp (|t| * s) := h
    _ ≤ t ^ 2 * s ^ 2 * Real.exp s := mul_le_mul_of_nonneg_left hexp (by positivity)
    _ = s ^ 2 * Real.exp s * t ^ 2 := by ring

open scoped Matrix.Norms.L2Operator in
/-- **C07 (errors add for unitary steps)** for unitary `U`, `V`:  `‖U^N − V^N‖ ≤ N·‖U − V‖` (spectral norm). -/
theorem unitary_pow_sub_pow_le (U V : Matrix n n ℂ) (hU : Uᴴ * U = 1) (hV : Vᴴ * V = 1) (N : ℕ) :
    ‖U ^ N - V ^ N‖ ≤ N * ‖U - V‖ :=
  norm_pow_sub_pow_le U V (l2_norm_le_one_of_unitary hU) (l2_norm_le_one_of_unitary hV) N

open scoped Matrix.Norms.L2Operator in
/-- **C07 (`trotter_converges`: the property's convergence claim)** for skew-Hermitian `A_k` (each factor `exp(tA_k)` is
    unitary) the `N`-step product with step `T/N` satisfies `‖F(T/N)^N − exp(T·ΣA)‖ ≤ T²s²e^{|T|s}/N`, `s = Σ‖A_k‖`, and
    therefore converges to `exp(T·ΣA)` as the step shrinks. -/
theorem trotter_converges (As : List (Matrix n n ℂ)) (hskew : ∀ A ∈ As, Aᴴ = -A) (T : ℝ) :
    (∀ N : ℕ, 0 < N → ‖prodExp As (T / N) ^ N - exp (T • As.sum)‖
        ≤ T ^ 2 * (As.map norm).sum ^ 2 * Real.exp (|T| * (As.map norm).sum) / N) ∧
    Tendsto (fun N : ℕ => prodExp As (T / N) ^ N) atTop (𝓝 (exp (T • As.sum))) :=
  ⟨fun N hN => trotter_global_bound As hskew T N hN, trotter_tendsto As hskew T⟩

-- non-vacuity: A = -iX, B = -iZ on one qubit are skew-Hermitian and do not commute
example : (∀ A ∈ [(-Complex.I) • (!![0, 1; 1, 0] : Matrix (Fin 2) (Fin 2) ℂ), (-Complex.I) • !![1, 0; 0, -1]], Aᴴ = -A) := by
  intro A hA
  simp only [List.mem_cons, List.not_mem_nil, or_false] at hA
  rcases hA with rfl | rfl <;>
    · ext i j
      fin_cases i <;> fin_cases j <;> simp [Matrix.conjTranspose_apply]
example : prodExp [(-Complex.I) • (!![0, 1; 1, 0] : Matrix (Fin 2) (Fin 2) ℂ), (-Complex.I) • !![1, 0; 0, -1]] 0 = 1 :=
  (product_formula_deriv _).1

end product_formula

/-! ## the library circuits -/

/-- **C07 (dense matrix of a Pauli string)** `pauliMat L ops` is the Kronecker product of the 2 × 2 Pauli matrices of `ops`
    with site 0 as the leftmost factor (`kron(A, B)[i, j] = A[i / r, j / r]·B[i % r, j % r]`), and it is Hermitian. -/
theorem pauli_string_matrix (L : Nat) (o : Op) (os : List Op) (i j : Fin (2 ^ L)) :
    pauliMat L (o :: os) i j =
      pauliC o (i.val / 2 ^ os.length) (j.val / 2 ^ os.length)
        * pauliEntry os (i.val % 2 ^ os.length) (j.val % 2 ^ os.length) ∧
    pauliMat L ([] : List Op) i j = 1 ∧
    (pauliMat L (o :: os))ᴴ = pauliMat L (o :: os) :=
  ⟨rfl, rfl, pauliMat_conjTranspose L _⟩

/-- **C07 (generators)** `genMat (P, c) = -i·c·P` is skew-Hermitian, so the gate `exp(genMat g)` is unitary -/
theorem generator_skew (L : Nat) (g : List Op × Rat) :
    (genMat L g)ᴴ = -genMat L g ∧ (exp (genMat L g))ᴴ * exp (genMat L g) = 1 :=
  ⟨genMat_skew L g, exp_skew_unitary (genMat_skew L g)⟩

example : pauliEntry [Op.X, Op.Z] 1 3 = -1 ∧ pauliEntry [Op.X, Op.Z] 0 2 = 1 ∧ pauliEntry [Op.X, Op.Z] 0 1 = 0 := by
  refine ⟨?_, ?_, ?_⟩ <;> apply Complex.ext <;> simp [pauliEntry, pauliC, pauli]

/-- **C07 (the generators are linear in `dt`)** `θ = -2·dt·c`: for each of the four spin builders the generators of one step at
    step size `dt` are the generators at `dt = 1` with every coefficient multiplied by `dt`; consequently the step unitary at
    `dt` is the curve `t ↦ Π exp(t·genMat g)` over the generators at `dt = 1`, evaluated at `t = dt`. -/
theorem step_generators_scale (L R C : Nat) (per : Bool) (J g Jx Jy Jz h dt : Rat) :
    stepGens L (isingStep L per J g dt) = (stepGens L (isingStep L per J g 1)).map (scaleGen dt) ∧
    stepGens L (heisenbergStep L per Jx Jy Jz h dt) = (stepGens L (heisenbergStep L per Jx Jy Jz h 1)).map (scaleGen dt) ∧
    stepGens (R * C) (ising2dStep R C J g dt) = (stepGens (R * C) (ising2dStep R C J g 1)).map (scaleGen dt) ∧
    stepGens (R * C) (heisenberg2dStep R C Jx Jy Jz h dt)
      = (stepGens (R * C) (heisenberg2dStep R C Jx Jy Jz h 1)).map (scaleGen dt) ∧
    (∀ gens : List (List Op × Rat), stepUnitary L (gens.map (scaleGen dt)) = stepCurve L gens (dt : ℝ)) := by
  refine ⟨ising_gens_scale L per J g dt, heisenberg_gens_scale L per Jx Jy Jz h dt, ?_, ?_,
    fun gens => stepUnitary_scale L dt gens⟩
  · rw [ising2d_gens_eq_terms, ising2d_gens_eq_terms, termGens_scale]
  · rw [heisenberg2d_gens_eq_terms, heisenberg2d_gens_eq_terms, termGens_scale]

example : stepGens 2 (isingStep 2 false 1 (1/2) (1/10)) = (stepGens 2 (isingStep 2 false 1 (1/2) 1)).map (scaleGen (1/10)) ∧
    stepGens 2 (isingStep 2 false 1 (1/2) 1) = [([.X, .I], -1/2), ([.I, .X], -1/2), ([.Z, .Z], -1)] := by decide +kernel

/-- **C07 (the circuit unitary is the step unitary to the power `timesteps`)** with `circuits_repeat_step`: for every gate list
    `step`, the generators of `step` repeated `n` times give the `n`-th power of the step unitary -/
theorem circuit_unitary_is_power (L n : Nat) (step : List Gate) :
    stepUnitary L (stepGens L (repeatSteps n step)) = stepUnitary L (stepGens L step) ^ n :=
  stepUnitary_repeat L n step

/-- **C07 (the 2-D builders implement their documented Hamiltonians)** the generators of one step of `create_2d_ising_circuit` /
    `create_2d_heisenberg_circuit` are exactly (same order) the `dt`-scaled terms of `-J Σ_{⟨pq⟩} Z_pZ_q - g Σ_p X_p` resp.
    `-Σ_{⟨pq⟩}(Jx XX + Jy YY + Jz ZZ) - h Σ_p Z_p` over the grid bonds of `grid_edges_once` in snake order -/
theorem grid_step_generators (R C : Nat) (J g Jx Jy Jz h dt : Rat) :
    stepGens (R * C) (ising2dStep R C J g dt) = termGens (R * C) dt (ising2dTerms R C J g) ∧
    stepGens (R * C) (heisenberg2dStep R C Jx Jy Jz h dt) = termGens (R * C) dt (heisenberg2dTerms R C Jx Jy Jz h) :=
  ⟨ising2d_gens_eq_terms R C J g dt, heisenberg2d_gens_eq_terms R C Jx Jy Jz h dt⟩

example : ising2dTerms 2 2 1 (1/2) =
    [(-1/2, [(.X, 0)]), (-1/2, [(.X, 1)]), (-1/2, [(.X, 3)]), (-1/2, [(.X, 2)]),
     (-1, [(.Z, 0), (.Z, 1)]), (-1, [(.Z, 3), (.Z, 2)]), (-1, [(.Z, 0), (.Z, 3)]), (-1, [(.Z, 1), (.Z, 2)])] := by
  decide +kernel

section consistent
open scoped Matrix.Norms.Operator

/-- the common argument: a step whose generators at `dt = 1` have the same sum as `-i·H` -/
private theorem step_consistent_of (L : Nat) (step : Rat → List Gate) (H : Matrix (Fin (2 ^ L)) (Fin (2 ^ L)) ℂ)
    (hscale : ∀ dt, stepGens L (step dt) = (stepGens L (step 1)).map (scaleGen dt))
    (hsum : genSum L (stepGens L (step 1)) = (-Complex.I) • H) :
    (∀ dt : Rat, stepUnitary L (stepGens L (step dt)) = stepCurve L (stepGens L (step 1)) (dt : ℝ)) ∧
    stepCurve L (stepGens L (step 1)) 0 = 1 ∧
    HasDerivAt (stepCurve L (stepGens L (step 1))) ((-Complex.I) • H) 0 := by
  refine ⟨fun dt => by rw [hscale dt, stepUnitary_scale], prodExp_zero _, ?_⟩
  rw [← hsum]
  exact hasDerivAt_prodExp _

/-- **C07 (`ising_step_consistent`)** One step of `create_ising_circuit(L, J, g, dt, ·, periodic)` is, as a function of the step
    size, the curve `U(t) = Π_k exp(t·(-i c_k P_k))` over its generators at `dt = 1` evaluated at `t = dt`; `U(0) = 1` and
    `dU/dt(0) = -i·H_Ising` with `H_Ising = Σ coeff·(Pauli string)` over exactly the terms `MPO.ising(L, J, g, bc)` hands to
    `from_pauli_sum` (`isingTerms`) — the derivative the circuit has is the Hamiltonian the MPO builder of the same name
    documents.  (Through `ising_step_generators`: permutation ⇒ same sum; `product_formula_deriv`.) -/
theorem ising_step_consistent (L : Nat) (per : Bool) (J g : Rat) (h : L ≠ 1 ∨ per = false) :
    (∀ dt : Rat, stepUnitary L (stepGens L (isingStep L per J g dt))
        = stepCurve L (stepGens L (isingStep L per J g 1)) (dt : ℝ)) ∧
    stepCurve L (stepGens L (isingStep L per J g 1)) 0 = 1 ∧
    HasDerivAt (stepCurve L (stepGens L (isingStep L per J g 1)))
      ((-Complex.I) • hamMat L (isingTerms L per J g)) 0 :=
  step_consistent_of L (fun dt => isingStep L per J g dt) _ (ising_gens_scale L per J g)
    (by rw [genSum_perm L (ising_step_generators L per J g 1 h), genSum_eq_ham]; rfl)

/-- the generators of one Heisenberg step and the `dt`-scaled terms of `MPO.heisenberg` have the same sum, for every field `h`
    (for `h = 0` the MPO omits the field terms and the circuit keeps `rz(0)` gates, whose generators vanish) -/
private theorem heisenberg_genSum (L : Nat) (per : Bool) (Jx Jy Jz h : Rat) (hl : L ≠ 1 ∨ per = false) :
    genSum L (stepGens L (heisenbergStep L per Jx Jy Jz h 1))
      = (-Complex.I) • hamMat L (heisenbergTerms L per Jx Jy Jz h) := by
  rw [← genSum_filter_nonzero, genSum_perm L (heisenberg_step_generators_nonzero L per Jx Jy Jz h 1 hl),
    genSum_filter_nonzero, genSum_eq_ham]
  rfl

/-- **C07 (`heisenberg_step_consistent`)** the same for `create_heisenberg_circuit` and `MPO.heisenberg` (`heisenbergTerms`), for
    every field value including `h = 0`. -/
theorem heisenberg_step_consistent (L : Nat) (per : Bool) (Jx Jy Jz h : Rat) (hl : L ≠ 1 ∨ per = false) :
    (∀ dt : Rat, stepUnitary L (stepGens L (heisenbergStep L per Jx Jy Jz h dt))
        = stepCurve L (stepGens L (heisenbergStep L per Jx Jy Jz h 1)) (dt : ℝ)) ∧
    stepCurve L (stepGens L (heisenbergStep L per Jx Jy Jz h 1)) 0 = 1 ∧
    HasDerivAt (stepCurve L (stepGens L (heisenbergStep L per Jx Jy Jz h 1)))
      ((-Complex.I) • hamMat L (heisenbergTerms L per Jx Jy Jz h)) 0 :=
  step_consistent_of L (fun dt => heisenbergStep L per Jx Jy Jz h dt) _ (heisenberg_gens_scale L per Jx Jy Jz h)
    (heisenberg_genSum L per Jx Jy Jz h hl)

/-- **C07 (`ising2d_step_consistent`)** one step of `create_2d_ising_circuit(R, C, J, g, dt, ·)`: `dU/dt(0) = -i·H` with
    `H = -J Σ_{grid bonds} ZZ - g Σ X` (`ising2dTerms`, snake order) -/
theorem ising2d_step_consistent (R C : Nat) (J g : Rat) :
    (∀ dt : Rat, stepUnitary (R * C) (stepGens (R * C) (ising2dStep R C J g dt))
        = stepCurve (R * C) (stepGens (R * C) (ising2dStep R C J g 1)) (dt : ℝ)) ∧
    stepCurve (R * C) (stepGens (R * C) (ising2dStep R C J g 1)) 0 = 1 ∧
    HasDerivAt (stepCurve (R * C) (stepGens (R * C) (ising2dStep R C J g 1)))
      ((-Complex.I) • hamMat (R * C) (ising2dTerms R C J g)) 0 :=
  step_consistent_of (R * C) (fun dt => ising2dStep R C J g dt) _
    (fun dt => (step_generators_scale 0 R C false J g 0 0 0 0 dt).2.2.1)
    (by rw [ising2d_gens_eq_terms, genSum_eq_ham]; rfl)

/-- **C07 (`heisenberg2d_step_consistent`)** one step of `create_2d_heisenberg_circuit`: `dU/dt(0) = -i·H` with
    `H = -Σ_{grid bonds}(Jx XX + Jy YY + Jz ZZ) - h Σ Z` (`heisenberg2dTerms`) -/
theorem heisenberg2d_step_consistent (R C : Nat) (Jx Jy Jz h : Rat) :
    (∀ dt : Rat, stepUnitary (R * C) (stepGens (R * C) (heisenberg2dStep R C Jx Jy Jz h dt))
        = stepCurve (R * C) (stepGens (R * C) (heisenberg2dStep R C Jx Jy Jz h 1)) (dt : ℝ)) ∧
    stepCurve (R * C) (stepGens (R * C) (heisenberg2dStep R C Jx Jy Jz h 1)) 0 = 1 ∧
    HasDerivAt (stepCurve (R * C) (stepGens (R * C) (heisenberg2dStep R C Jx Jy Jz h 1)))
      ((-Complex.I) • hamMat (R * C) (heisenberg2dTerms R C Jx Jy Jz h)) 0 :=
  step_consistent_of (R * C) (fun dt => heisenberg2dStep R C Jx Jy Jz h dt) _
    (fun dt => (step_generators_scale 0 R C false 0 0 Jx Jy Jz h dt).2.2.2.1)
    (by rw [heisenberg2d_gens_eq_terms, genSum_eq_ham]; rfl)

end consistent

-- non-vacuity: the hypotheses are met by a periodic 3-chain, and the derivative is not zero there
example := ising_step_consistent 3 true 1 (1 / 2) (Or.inl (by decide))
example := heisenberg_step_consistent 4 true 1 2 3 0 (Or.inl (by decide))
example : termGens 3 1 (isingTerms 3 true 1 (1 / 2)) =
    [([.Z, .Z, .I], -1), ([.I, .Z, .Z], -1), ([.Z, .I, .Z], -1), ([.X, .I, .I], -1/2), ([.I, .X, .I], -1/2), ([.I, .I, .X], -1/2)] := by
  decide +kernel

section converges
open scoped Matrix.Norms.L2Operator

/-- the common argument of the four convergence theorems -/
private theorem converges_of (L : Nat) (step : Rat → List Gate) (H : Matrix (Fin (2 ^ L)) (Fin (2 ^ L)) ℂ)
    (hscale : ∀ dt, stepGens L (step dt) = (stepGens L (step 1)).map (scaleGen dt))
    (hsum : genSum L (stepGens L (step 1)) = (-Complex.I) • H) (T : Rat) :
    (∀ N : ℕ, 0 < N →
      ‖stepUnitary L (stepGens L (repeatSteps N (step (T / N)))) - exp ((T : ℝ) • ((-Complex.I) • H))‖
        ≤ (T : ℝ) ^ 2 * (((stepGens L (step 1)).map (genMat L)).map norm).sum ^ 2
            * Real.exp (|(T : ℝ)| * (((stepGens L (step 1)).map (genMat L)).map norm).sum) / N) ∧
    Tendsto (fun N : ℕ => stepUnitary L (stepGens L (repeatSteps N (step (T / N))))) atTop
      (𝓝 (exp ((T : ℝ) • ((-Complex.I) • H)))) := by
  rw [← hsum]
  exact ⟨fun N hN => circuit_trotter_bound L step _ hscale T N hN, circuit_trotter_tendsto L step _ hscale T⟩

/-- **C07 (`ising_trotter_converges`)** the circuit `create_ising_circuit(L, J, g, T/N, N, periodic)` — `N` steps of size `T/N`,
    by `circuits_repeat_step` — is within `T²s²e^{|T|s}/N` (spectral norm; `s` = sum of the norms of the step's generators at
    `dt = 1`) of `exp(-i·T·H_Ising)`, `H_Ising` the operator of `MPO.ising` with the same parameters and boundary condition,
    and converges to it as `N → ∞`: the error is `∝ 1/N`. -/
theorem ising_trotter_converges (L : Nat) (per : Bool) (J g : Rat) (h : L ≠ 1 ∨ per = false) (T : Rat) :
    (∀ N : ℕ, 0 < N →
      ‖stepUnitary L (stepGens L (isingCircuit L per J g (T / N) N))
          - exp ((T : ℝ) • ((-Complex.I) • hamMat L (isingTerms L per J g)))‖
        ≤ (T : ℝ) ^ 2 * (((stepGens L (isingStep L per J g 1)).map (genMat L)).map norm).sum ^ 2
            * Real.exp (|(T : ℝ)| * (((stepGens L (isingStep L per J g 1)).map (genMat L)).map norm).sum) / N) ∧
    Tendsto (fun N : ℕ => stepUnitary L (stepGens L (isingCircuit L per J g (T / N) N))) atTop
      (𝓝 (exp ((T : ℝ) • ((-Complex.I) • hamMat L (isingTerms L per J g))))) :=
  converges_of L (fun dt => isingStep L per J g dt) _ (ising_gens_scale L per J g)
    (by rw [genSum_perm L (ising_step_generators L per J g 1 h), genSum_eq_ham]; rfl) T

/-- **C07 (`heisenberg_trotter_converges`)** the same for `create_heisenberg_circuit` and `MPO.heisenberg`, every field value -/
theorem heisenberg_trotter_converges (L : Nat) (per : Bool) (Jx Jy Jz h : Rat) (hl : L ≠ 1 ∨ per = false) (T : Rat) :
    (∀ N : ℕ, 0 < N →
      ‖stepUnitary L (stepGens L (heisenbergCircuit L per Jx Jy Jz h (T / N) N))
          - exp ((T : ℝ) • ((-Complex.I) • hamMat L (heisenbergTerms L per Jx Jy Jz h)))‖
        ≤ (T : ℝ) ^ 2 * (((stepGens L (heisenbergStep L per Jx Jy Jz h 1)).map (genMat L)).map norm).sum ^ 2
            * Real.exp (|(T : ℝ)| * (((stepGens L (heisenbergStep L per Jx Jy Jz h 1)).map (genMat L)).map norm).sum) / N) ∧
    Tendsto (fun N : ℕ => stepUnitary L (stepGens L (heisenbergCircuit L per Jx Jy Jz h (T / N) N))) atTop
      (𝓝 (exp ((T : ℝ) • ((-Complex.I) • hamMat L (heisenbergTerms L per Jx Jy Jz h))))) :=
  converges_of L (fun dt => heisenbergStep L per Jx Jy Jz h dt) _ (heisenberg_gens_scale L per Jx Jy Jz h)
    (heisenberg_genSum L per Jx Jy Jz h hl) T

/-- **C07 (`ising2d_trotter_converges`)** `create_2d_ising_circuit(R, C, J, g, T/N, N)` against `exp(-i·T·H)`, `H` of `ising2dTerms` -/
theorem ising2d_trotter_converges (R C : Nat) (J g : Rat) (T : Rat) :
    (∀ N : ℕ, 0 < N →
      ‖stepUnitary (R * C) (stepGens (R * C) (ising2dCircuit R C J g (T / N) N))
          - exp ((T : ℝ) • ((-Complex.I) • hamMat (R * C) (ising2dTerms R C J g)))‖
        ≤ (T : ℝ) ^ 2 * (((stepGens (R * C) (ising2dStep R C J g 1)).map (genMat (R * C))).map norm).sum ^ 2
            * Real.exp (|(T : ℝ)| * (((stepGens (R * C) (ising2dStep R C J g 1)).map (genMat (R * C))).map norm).sum) / N) ∧
    Tendsto (fun N : ℕ => stepUnitary (R * C) (stepGens (R * C) (ising2dCircuit R C J g (T / N) N))) atTop
      (𝓝 (exp ((T : ℝ) • ((-Complex.I) • hamMat (R * C) (ising2dTerms R C J g))))) :=
  converges_of (R * C) (fun dt => ising2dStep R C J g dt) _
    (fun dt => (step_generators_scale 0 R C false J g 0 0 0 0 dt).2.2.1)
    (by rw [ising2d_gens_eq_terms, genSum_eq_ham]; rfl) T

/-- **C07 (`heisenberg2d_trotter_converges`)** `create_2d_heisenberg_circuit` against `exp(-i·T·H)`, `H` of `heisenberg2dTerms` -/
theorem heisenberg2d_trotter_converges (R C : Nat) (Jx Jy Jz h : Rat) (T : Rat) :
    (∀ N : ℕ, 0 < N →
      ‖stepUnitary (R * C) (stepGens (R * C) (heisenberg2dCircuit R C Jx Jy Jz h (T / N) N))
          - exp ((T : ℝ) • ((-Complex.I) • hamMat (R * C) (heisenberg2dTerms R C Jx Jy Jz h)))‖
        ≤ (T : ℝ) ^ 2 * (((stepGens (R * C) (heisenberg2dStep R C Jx Jy Jz h 1)).map (genMat (R * C))).map norm).sum ^ 2
            * Real.exp (|(T : ℝ)|
                * (((stepGens (R * C) (heisenberg2dStep R C Jx Jy Jz h 1)).map (genMat (R * C))).map norm).sum) / N) ∧
    Tendsto (fun N : ℕ => stepUnitary (R * C) (stepGens (R * C) (heisenberg2dCircuit R C Jx Jy Jz h (T / N) N))) atTop
      (𝓝 (exp ((T : ℝ) • ((-Complex.I) • hamMat (R * C) (heisenberg2dTerms R C Jx Jy Jz h))))) :=
  converges_of (R * C) (fun dt => heisenberg2dStep R C Jx Jy Jz h dt) _
    (fun dt => (step_generators_scale 0 R C false 0 0 Jx Jy Jz h dt).2.2.2.1)
    (by rw [heisenberg2d_gens_eq_terms, genSum_eq_ham]; rfl) T

end converges

example := ising_trotter_converges 3 true 1 (1 / 2) (Or.inl (by decide)) (3 / 10)
example := heisenberg2d_trotter_converges 2 3 1 2 3 (1 / 2) (3 / 10)

/-! ### operator order

`stepUnitary` multiplies the factors in list order (first gate = leftmost factor).  The matrix of a circuit as an operator has
the LAST gate leftmost, i.e. it is `stepUnitary` of the reversed generator list.  Nothing above depends on the order: -/

open scoped Matrix.Norms.Operator in
/-- **C07 (operator order, consistency)** for every generator list, the product in operator order (last gate leftmost) is the
    curve over the reversed list at `t = dt`, equals 1 at `dt = 0` and has the same derivative `Σ generators` there -/
theorem operator_order_consistent (L : Nat) (gens : List (List Op × Rat)) :
    (∀ dt : Rat, stepUnitary L ((gens.map (scaleGen dt)).reverse) = stepCurve L gens.reverse (dt : ℝ)) ∧
    stepCurve L gens.reverse 0 = 1 ∧
    HasDerivAt (stepCurve L gens.reverse) (genSum L gens) 0 := by
  refine ⟨fun dt => by rw [← List.map_reverse, stepUnitary_scale], prodExp_zero _, ?_⟩
  rw [← genSum_perm L (List.reverse_perm gens)]
  exact hasDerivAt_prodExp _

open scoped Matrix.Norms.L2Operator in
/-- **C07 (operator order, convergence)** for every generator list `gens` (at `dt = 1`), `N` steps of size `T/N` multiplied in
    operator order are within `T²s²e^{|T|s}/N` of `exp(T·Σ generators)` and converge to it; with `step_generators_scale` and the
    `…_step_generators` theorems this is `…_trotter_converges` for the circuit's operator in qiskit's multiplication order -/
theorem operator_order_converges (L : Nat) (gens : List (List Op × Rat)) (T : Rat) :
    (∀ N : ℕ, 0 < N →
      ‖stepUnitary L ((gens.map (scaleGen (T / N))).reverse) ^ N - exp ((T : ℝ) • genSum L gens)‖
        ≤ (T : ℝ) ^ 2 * ((gens.map (genMat L)).map norm).sum ^ 2
            * Real.exp (|(T : ℝ)| * ((gens.map (genMat L)).map norm).sum) / N) ∧
    Tendsto (fun N : ℕ => stepUnitary L ((gens.map (scaleGen (T / N))).reverse) ^ N) atTop
      (𝓝 (exp ((T : ℝ) • genSum L gens))) := by
  have hsum : genSum L gens.reverse = genSum L gens := genSum_perm L (List.reverse_perm gens)
  have hnorm : (((gens.reverse.map (genMat L)).map norm)).sum = ((gens.map (genMat L)).map norm).sum := by
    rw [List.map_reverse, List.map_reverse, List.sum_reverse]
  have hstep (N : ℕ) : stepUnitary L ((gens.map (scaleGen (T / N))).reverse)
      = prodExp (gens.reverse.map (genMat L)) ((T : ℝ) / N) := by
    rw [← List.map_reverse, stepUnitary_scale, Rat.cast_div, Rat.cast_natCast]
    rfl
  have hb := fun N hN => trotter_global_bound (gens.reverse.map (genMat L)) (genMat_mem_skew L gens.reverse) (T : ℝ) N hN
  have ht := trotter_tendsto (gens.reverse.map (genMat L)) (genMat_mem_skew L gens.reverse) (T : ℝ)
  have hs' : (gens.reverse.map (genMat L)).sum = genSum L gens := hsum
  rw [hs'] at ht
  refine ⟨fun N hN => ?_, ht.congr fun N => by rw [hstep N]⟩
  have := hb N hN
  rw [hs', hnorm] at this
  rw [hstep N]
  exact this

/-! ## circuit and MPO builder of the same name describe the same Hamiltonian -/

/-- **C07 (`hamMat` is what `from_pauli_sum` encodes)** for every term list `from_pauli_sum` accepts and every `L ≥ 1`, entry
    `(i, j)` of `hamMat L terms` — the operator whose first-order product formula the circuit step is — equals the path sum of
    the automaton `from_pauli_sum` builds from the same terms (`fsm_sum`; the function the driver runs and the `fsm-*` ties
    compare with the real tensors), at the binary digits `cfg L i`, `cfg L j` (site 0 most significant). -/
theorem circuit_mpo_same_hamiltonian (L : Nat) (hL : 1 ≤ L) (terms : List (Rat × Spec)) (pt : List (GRat × List Op))
    (h : parseTerms L (terms.map fun t => (GRat.ofRat t.1, t.2)) = some pt) (i j : Fin (2 ^ L)) :
    hamMat L terms i j = (fsmPathSum pauli pt L (cfg L i.val) (cfg L j.val)).toC := by
  rw [fsm_sum_complex pt L hL]
  exact hamMat_entry_termSum L terms pt h i j

/-- **C07 (index digits)** `cfg L i` are the digits `unflat [2, …, 2] i` of C06's index map: the digits at which `to_matrix_entry` /
    `dense_eq_sparse` place a bond path sum in `MPO.to_matrix()` -/
theorem index_digits (L i k : Nat) (hk : k < L) :
    (Yaqs.Index.unflat (List.replicate L 2) i).getD k 0 = cfg L i k ∧ cfg L i k = i / 2 ^ (L - 1 - k) % 2 :=
  ⟨cfg_eq_unflat L i k hk, rfl⟩

/-- **C07 (last clause: "… which for Ising and Heisenberg chains is the Hamiltonian builder of the same name")** for every
    `L ≥ 1` and boundary condition on which `MPO.ising` does not raise, `from_pauli_sum` accepts all terms of `MPO.ising(L, J, g, bc)`
    and the path sum of the automaton it builds is, entry by entry, the matrix `hamMat L (isingTerms …)` whose `-i` multiple is
    the derivative of the circuit step (`ising_step_consistent`) and whose exponential the circuit converges to
    (`ising_trotter_converges`). -/
theorem ising_circuit_mpo_same_hamiltonian (L : Nat) (per : Bool) (J g : Rat) (hL : 1 ≤ L) (h : L ≠ 1 ∨ per = false) :
    ∃ pt, parseTerms L ((isingTerms L per J g).map fun t => (GRat.ofRat t.1, t.2)) = some pt ∧
      ∀ i j : Fin (2 ^ L),
        hamMat L (isingTerms L per J g) i j = (fsmPathSum pauli pt L (cfg L i.val) (cfg L j.val)).toC := by
  obtain ⟨pt, hpt⟩ := parseTerms_of_accepted L GRat.ofRat (isingTerms L per J g) (mpoTerms_accepted L per _ _ h)
  exact ⟨pt, hpt, fun i j => circuit_mpo_same_hamiltonian L hL _ pt hpt i j⟩

/-- the same for `MPO.heisenberg` / `create_heisenberg_circuit` -/
theorem heisenberg_circuit_mpo_same_hamiltonian (L : Nat) (per : Bool) (Jx Jy Jz h : Rat) (hL : 1 ≤ L)
    (hl : L ≠ 1 ∨ per = false) :
    ∃ pt, parseTerms L ((heisenbergTerms L per Jx Jy Jz h).map fun t => (GRat.ofRat t.1, t.2)) = some pt ∧
      ∀ i j : Fin (2 ^ L),
        hamMat L (heisenbergTerms L per Jx Jy Jz h) i j = (fsmPathSum pauli pt L (cfg L i.val) (cfg L j.val)).toC := by
  obtain ⟨pt, hpt⟩ := parseTerms_of_accepted L GRat.ofRat (heisenbergTerms L per Jx Jy Jz h) (mpoTerms_accepted L per _ _ hl)
  exact ⟨pt, hpt, fun i j => circuit_mpo_same_hamiltonian L hL _ pt hpt i j⟩

example : parseTerms 2 ((isingTerms 2 false 1 (1 / 2)).map fun t => (GRat.ofRat t.1, t.2)) =
    some [(⟨-1, 0⟩, [.Z, .Z]), (⟨-1/2, 0⟩, [.X, .I]), (⟨-1/2, 0⟩, [.I, .X])] := by decide +kernel
example : cfg 3 5 0 = 1 ∧ cfg 3 5 1 = 0 ∧ cfg 3 5 2 = 1 ∧ Yaqs.Index.unflat [2, 2, 2] 5 = [1, 0, 1] := by decide

end Yaqs.Trotter

/-!
# C07, extension xh07 — the Fermi–Hubbard circuits at the level of the spin builders
(models `Model/TrotterHubbard.lean`, `Lemmas/TrotterKron.lean`, `TrotterHubbardGates.lean`, `TrotterHubbard.lean`)

What the xt07 section above left "measured only": `create_1d_fermi_hubbard_circuit` / `create_2d_fermi_hubbard_circuit` contain
`p`, `cp`, `cx` and `±π/2` basis-change gates, which are not Pauli rotations of `gateGen`.  Now every gate of those circuits has a
dense `2^L × 2^L` matrix (`gateMat`: qiskit's matrices for `p`, `cp`, `cx`, `ry/rx(±π/2)` written as Kronecker products, site 0 the
leftmost factor; `exp(-iθ/2·P)` for the Pauli rotations as before), a gate list has the product `circMat` (list order; the
operator order is the reversed list), and:

* `kronecker_pauli_strings`     the Pauli strings of `pauliMat` are Kronecker products, multiplicative site by site
* `p_gate_generators`, `cp_gate_generators`   `p(θ) = exp(-i c(1 - Z))`, `cp(θ) = exp(-i c(1 - Z)(1 - Z))` as products of the
  exponentials of their Pauli generators, `c = -θ/2`, `-θ/4` (`phaseCoeff`, `cphaseCoeff` of `angle_sign_hubbard`)
* `cnot_conjugates_z`, `cnot_ladder_conjugation`, `hopping_block_unitary`   the CNOT-ladder block of `lri_closed_form` has the
  unitary `exp(-i α/2 · P_i Z_{i+1}⋯Z_{j-1} P_j)` for EVERY distance `j - i ≥ 1`, in list order and in operator order; the block of
  `add_hopping_term` is the product of the `X` and the `Y` one
* `hubbard_bonds_cover`         the hopping loops visit every nearest-neighbour bond of the chain / lattice exactly once
* `hubbard1d_step_generators`, `hubbard2d_step_generators`   one sub-step is, in circuit order, the palindromic arrangement
  `½ chem, ½ onsite, hop, ½ onsite, ½ chem` at step `dt/n` of the Pauli terms of the documented Hamiltonian, and its gate list
  multiplies to the product of their exponentials
* `jordan_wigner_image`, `hubbard_hamiltonian_is_jordan_wigner`   those Pauli terms are the Jordan–Wigner image (`c_q = Z_0⋯Z_{q-1}σ⁻_q`,
  which satisfy the canonical anticommutation relations) of `H = -t Σ(c†c + h.c.) + U Σ n↑n↓ - μ Σ n` in the qubit order of each
  builder (`↑[j] = j, ↓[j] = L + j` resp. `lookup_qiskit_ordering`)
* `hubbard1d_step_consistent`, `hubbard2d_step_consistent`   `d/dτ` of the sub-step unitary at `τ = dt/n = 0` is `-i·H_JW`
* `hubbard1d_trotter_converges`, `hubbard2d_trotter_converges`   the circuit with `n` Trotter sub-steps per step is within
  `T²s²e^{|T|s}/(n·timesteps)` of `exp(-i T H_JW)`, `T = timesteps·dt`, and converges to it as `n → ∞`
* `second_order_arrangement`, `merged_table_same_operator`   bookkeeping of the half steps; the merged tables of the tie.

Still outside a theorem: that qiskit's gates are the matrices of `gateMat` (spec-tied on every run, kind `gatespec` and the
`hubbard-*` kinds of `harness/impl/C07.py`), and the second-order accuracy of the palindromic arrangement (the bound proved is the
first-order one; the measured order is recorded by the `trotter-*` oracles).
-/
namespace Yaqs.Trotter

open Matrix NormedSpace Filter Topology Yaqs.TrotterLimit

/-- **C07 (Pauli strings are Kronecker products)** `pauliMat L ops` is `P₀ ⊗ P₁ ⊗ ⋯` with entries `Π_k P_k[i_k, j_k]` over the binary
    digits of the row / column index (site 0 most significant, `index_digits`); Kronecker products multiply site by site and the
    product of identities is the identity — the calculus in which all gate identities below are proved. -/
theorem kronecker_pauli_strings (L : Nat) (ops : List Op) (hl : ops.length = L) (f g : Fin L → Matrix (Fin 2) (Fin 2) ℂ) :
    pauliMat L ops = kronFn L (fun k => pauliM (ops.getD k.val Op.I)) ∧
    (∀ i j : Fin (2 ^ L), kronFn L f i j = ∏ k, f k (dig L i k) (dig L j k)) ∧
    (∀ (i : Fin (2 ^ L)) (k : Fin L), (dig L i k).val = cfg L i.val k.val) ∧
    kronFn L f * kronFn L g = kronFn L (fun k => f k * g k) ∧ kronFn L (fun _ => 1) = 1 :=
  ⟨pauliMat_eq_kronFn L ops hl, fun _ _ => rfl, fun _ _ => rfl, kronFn_mul L f g, kronFn_one L⟩

example : strOf 3 (fun k => if k = 1 then Op.Z else Op.I) = [.I, .Z, .I] ∧ zString 3 [0, 2] = [.Z, .I, .Z] ∧
    hopString 5 1 4 .X = [.I, .X, .Z, .Z, .X] := by decide

/-- **C07 (`p(θ)`, wanted item 1)** the phase gate on qubit `q` — qiskit's `diag(1, e^{iθ})` on site `q`, identities elsewhere — is
    `exp(-i c·𝟙) · exp(-i (-c)·Z_q)` with `c = -θ/2 = phaseCoeff θ`, i.e. `exp(-i c (𝟙 - Z_q))`: a global phase times a `Z` rotation,
    the product of the exponentials of the two generators `gateGens` gives it.  Every `L`, `q`, rational `θ`. -/
theorem p_gate_generators (L q : Nat) (θ : Rat) :
    gateMat L (g1 .p q θ) = site1 L q (phase2 ((θ : ℚ) : ℝ)) ∧
    gateGens L (g1 .p q θ) = [(zString L [], phaseCoeff θ), (zString L [q], -phaseCoeff θ)] ∧
    gateMat L (g1 .p q θ) = stepUnitary L (gateGens L (g1 .p q θ)) :=
  ⟨rfl, rfl, p_gate_eq L q θ⟩

/-- **C07 (`cp(θ)`, wanted item 1)** the controlled phase on qubits `a ≠ b` — `|0⟩⟨0|_a ⊗ 𝟙 + |1⟩⟨1|_a ⊗ diag(1, e^{iθ})_b` — is the product of
    the exponentials of its four commuting generators `(𝟙, c), (Z_a, -c), (Z_b, -c), (Z_a Z_b, c)`, `c = -θ/4 = cphaseCoeff θ`, i.e.
    `exp(-i c (𝟙 - Z_a)(𝟙 - Z_b))`; any two sites of the register (the builders use `(j, L + j)` resp. `(2p, 2p + 1)`). -/
theorem cp_gate_generators (L a b : Nat) (θ : Rat) (ha : a < L) (hb : b < L) (hab : a ≠ b) :
    gateMat L (g2 .cp a b θ) = cpMat L a b ((θ : ℚ) : ℝ) ∧
    gateGens L (g2 .cp a b θ) = [(zString L [], cphaseCoeff θ), (zString L [a], -cphaseCoeff θ),
      (zString L [b], -cphaseCoeff θ), (zString L [a, b], cphaseCoeff θ)] ∧
    gateMat L (g2 .cp a b θ) = stepUnitary L (gateGens L (g2 .cp a b θ)) :=
  ⟨rfl, rfl, cp_gate_eq L a b θ ha hb hab⟩

example : gateGens 2 (g1 .p 1 (1/3)) = [([.I, .I], -1/6), ([.I, .Z], 1/6)] ∧
    gateGens 2 (g2 .cp 0 1 (1/2)) = [([.I, .I], -1/8), ([.Z, .I], 1/8), ([.I, .Z], 1/8), ([.Z, .Z], -1/8)] := by
  decide +kernel

/-- **C07 (inductive step of the ladder)** `CX_{k,j} = |0⟩⟨0|_k ⊗ 𝟙 + |1⟩⟨1|_k ⊗ X_j` is an involution, and conjugating a Pauli string
    that has `I` on the control `k` and `Z` on the target `j` puts a `Z` on `k`: `CX_{k,j} · S · CX_{k,j} = Z_k · S`. -/
theorem cnot_conjugates_z (L k j : Nat) (s : Nat → Op) (hk : k < L) (hj : j < L) (hkj : k ≠ j) (hsk : s k = Op.I)
    (hsj : s j = Op.Z) :
    gateMat L (cx k j) = cxMat L k j ∧ cxMat L k j * cxMat L k j = 1 ∧
    cxMat L k j * pauliMat L (strOf L s) * cxMat L k j = pauliMat L (strOf L (Function.update s k Op.Z)) := by
  refine ⟨rfl, cx_mul_self L k j hk hkj, ?_⟩
  rw [pauliMat_strOf', pauliMat_strOf']
  exact cx_conj_string L k j s hk hj hkj hsk hsj

/-- **C07 (`cnot_ladder_conjugation`, wanted item 2 — every distance)** for all `i < j < L`, `P ∈ {X, Y}` and every rational `α`, the gate
    list `add_long_range_interaction(∅, i, j, P, α)` builds (`lri_closed_form`: basis change `ry(π/2)` resp. `rx(π/2)` on `i` and `j`,
    CNOT ladder `cx(k, j)` for `k = j-1 … i`, `rz_j(α)`, ladder back, basis change back) has the unitary
    `exp(-i (α/2) · P_i Z_{i+1} ⋯ Z_{j-1} P_j)` as a `2^L × 2^L` matrix — multiplied in list order and in operator order (reversed
    list).  Induction on the ladder with `cnot_conjugates_z` and `exp(V A V⁻¹) = V exp(A) V⁻¹`. -/
theorem cnot_ladder_conjugation (L i j : Nat) (isX : Bool) (α : Rat) (hij : i < j) (hj : j < L) :
    ∃ gs, addLongRange [] i j (some isX) α = .ok gs ∧
      circMat L gs = exp (genMat L (hopString L i j (if isX then Op.X else Op.Y), rotCoeff α)) ∧
      circMat L gs.reverse = exp (genMat L (hopString L i j (if isX then Op.X else Op.Y), rotCoeff α)) :=
  ⟨lriList i j isX α, addLongRange_lriList i j isX α hij, (lri_block_unitary L i j isX α hij hj).1,
    (lri_block_unitary L i j isX α hij hj).2⟩

example : addLongRange [] 0 3 (some false) (1/5) = .ok (lriList 0 3 false (1/5)) ∧
    (lriList 0 3 false (1/5)).length = 11 ∧ hopString 4 0 3 .Y = [.Y, .Z, .Z, .Y] := by decide +kernel

/-- **C07 (hopping block)** `add_hopping_term(circ, i, j, α)` with `i < j < L` appends a gate list whose unitary is
    `exp(-i α/2 · X_i Z⋯Z X_j) · exp(-i α/2 · Y_i Z⋯Z Y_j)` (the two factors commute; in operator order they appear exchanged) -/
theorem hopping_block_unitary (L i j : Nat) (α : Rat) (hij : i < j) (hj : j < L) :
    hopGens L i j α = [(hopString L i j .X, rotCoeff α), (hopString L i j .Y, rotCoeff α)] ∧
    circMat L (hopGates i j α) = stepUnitary L (hopGens L i j α) ∧
    circMat L (hopGates i j α).reverse = stepUnitary L (hopGens L i j α).reverse :=
  ⟨rfl, (hop_block L i j α hij hj).1, (hop_block L i j α hij hj).2⟩

/-- **C07 (the hopping loops cover the lattice)** the bond list of the 1-D builder is a rearrangement of `(j, j+1)`, `j < L - 1`, and
    that of the 2-D builder (horizontal_odd, horizontal_even, vertical_odd, vertical_even) of all nearest-neighbour bonds
    `(p, p+1)`, `(p, p+Lx)` of the `Lx × Ly` lattice, each exactly once; every bond has `p₁ < p₂ < Lx·Ly`. -/
theorem hubbard_bonds_cover (L Lx Ly : Nat) :
    (fh1dBonds L).Perm ((List.range (L - 1)).map fun j => (j, j + 1)) ∧
    (fh2dBonds Lx Ly).Perm (latticeBonds Lx Ly) ∧
    (∀ b ∈ fh1dBonds L, b.2 = b.1 + 1 ∧ b.2 < L) ∧ (∀ b ∈ fh2dBonds Lx Ly, b.1 < b.2 ∧ b.2 < Lx * Ly) :=
  ⟨fh1d_bonds_perm L, fh2d_bonds_perm Lx Ly, mem_fh1dBonds L, mem_fh2dBonds Lx Ly⟩

example : fh2dBonds 2 2 = [(0, 1), (2, 3), (0, 2), (1, 3)] ∧ latticeBonds 2 2 = [(0, 1), (2, 3), (0, 2), (1, 3)] ∧
    fh2dBonds 3 2 = [(0, 1), (3, 4), (1, 2), (4, 5), (0, 3), (1, 4), (2, 5)] := by decide +kernel

/-- **C07 (`hubbard1d_step_generators`, wanted item 3)** one sub-step of `create_1d_fermi_hubbard_circuit(L, u, t, μ, n, dt, ·)`, `n ≠ 0`:
    its gate list multiplies to the product of the exponentials of `fh1dGens`, and `fh1dGens` is — exactly, in circuit order — the
    palindromic arrangement `½ chem, ½ onsite, hop, ½ onsite, ½ chem` at step `dt/n` (half steps carry `dt/(2n)`, the hopping layer the
    full `dt/n`: `hubbard_time_bookkeeping`) of the Pauli terms of `-μ Σ n_q`, `u Σ n_{j↑} n_{j↓}`, `-t Σ (c†c + h.c.)` with
    `n ↦ (𝟙 - Z)/2`, hopping `↦ ½(XX + YY)` on neighbouring qubits, in the layout `↑[j] = j`, `↓[j] = L + j`. -/
theorem hubbard1d_step_generators (L : Nat) (u t mu dt : Rat) (n : Nat) (hn : n ≠ 0) :
    circMat (2 * L) (fh1dSubstep L u t mu dt n) = stepUnitary (2 * L) (fh1dGens L u t mu dt n) ∧
    fh1dGens L u t mu dt n =
      secondOrderGens (chemTerms (2 * L) (fun j => j) (fun j => L + j) (List.range L) mu)
        (onsiteTerms (2 * L) (fun j => j) (fun j => L + j) (List.range L) u)
        (hopTerms (2 * L) (fun j => j) (fun j => L + j) (fh1dBonds L) t) (dt / n) ∧
    hubbard1dTerms L u t mu =
      chemTerms (2 * L) (fun j => j) (fun j => L + j) (List.range L) mu
        ++ onsiteTerms (2 * L) (fun j => j) (fun j => L + j) (List.range L) u
        ++ hopTerms (2 * L) (fun j => j) (fun j => L + j) (fh1dBonds L) t :=
  ⟨fh1d_substep_matrix L u t mu dt n, fh1dGens_structure L u t mu dt n hn, rfl⟩

/-- **C07 (`hubbard2d_step_generators`, wanted item 3)** the same for `create_2d_fermi_hubbard_circuit(Lx, Ly, …)`: layout
    `lookup_qiskit_ordering` (`↑[p] = 2p`, `↓[p] = 2p + 1`), hopping along `fh2dBonds` through the blocks of `hopping_block_unitary`,
    whose Jordan–Wigner strings run over all qubits between `2p₁ + s` and `2p₂ + s`. -/
theorem hubbard2d_step_generators (Lx Ly : Nat) (u t mu dt : Rat) (n : Nat) (hn : n ≠ 0) :
    circMat (2 * (Lx * Ly)) (fh2dSubstep Lx Ly u t mu dt n) = stepUnitary (2 * (Lx * Ly)) (fh2dGens Lx Ly u t mu dt n) ∧
    fh2dGens Lx Ly u t mu dt n =
      secondOrderGens (chemTerms (2 * (Lx * Ly)) (fun p => 2 * p) (fun p => 2 * p + 1) (List.range (Lx * Ly)) mu)
        (onsiteTerms (2 * (Lx * Ly)) (fun p => 2 * p) (fun p => 2 * p + 1) (List.range (Lx * Ly)) u)
        (hopTerms (2 * (Lx * Ly)) (fun p => 2 * p) (fun p => 2 * p + 1) (fh2dBonds Lx Ly) t) (dt / n) ∧
    hubbard2dTerms Lx Ly u t mu =
      chemTerms (2 * (Lx * Ly)) (fun p => 2 * p) (fun p => 2 * p + 1) (List.range (Lx * Ly)) mu
        ++ onsiteTerms (2 * (Lx * Ly)) (fun p => 2 * p) (fun p => 2 * p + 1) (List.range (Lx * Ly)) u
        ++ hopTerms (2 * (Lx * Ly)) (fun p => 2 * p) (fun p => 2 * p + 1) (fh2dBonds Lx Ly) t :=
  ⟨fh2d_substep_matrix Lx Ly u t mu dt n, fh2dGens_structure Lx Ly u t mu dt n hn, rfl⟩

example : mergeGens (fh1dGens 1 (1/2) 1 (1/3) (1/10) 1) =
    [([.I, .I], -1/48), ([.Z, .I], 1/240), ([.I, .Z], 1/240), ([.Z, .Z], 1/80)] ∧
    (fh1dGens 2 (1/2) 1 (1/3) (1/10) 1).length = 36 ∧ (fh2dGens 2 1 (1/2) 1 (1/3) (1/10) 1).length = 36 := by decide +kernel

/-- **C07 (the palindromic arrangement is linear in the step and sums to all terms once)** the two half steps `½A, ½B` on either side
    of `C` add up: the generators at step `τ` are `τ ·` those at step 1, and the latter sum to `Σ(A ++ B ++ C)` — the careful point of
    the second-order structure (`angle_sign_hubbard`: factors ½ of the half steps). -/
theorem second_order_arrangement (L : Nat) (A B C : List (List Op × Rat)) (τ : Rat) :
    secondOrderGens A B C τ = A.map (scaleGen (τ / 2)) ++ B.map (scaleGen (τ / 2)) ++ C.map (scaleGen τ)
      ++ B.map (scaleGen (τ / 2)) ++ A.map (scaleGen (τ / 2)) ∧
    secondOrderGens A B C τ = (secondOrderGens A B C 1).map (scaleGen τ) ∧
    genSum L (secondOrderGens A B C 1) = (-Complex.I) • hamOfGens L (A ++ B ++ C) :=
  ⟨rfl, secondOrderGens_scale A B C τ, (genSum_secondOrder L A B C).trans (genSum_eq_ham L _)⟩

/-- **C07 (Jordan–Wigner image, wanted item 3)** with `c_q = Z_0 ⋯ Z_{q-1} σ⁻_q` on `N` qubits (`σ⁻ = |0⟩⟨1|`): the `c_q` are fermionic modes
    (`{c_p, c†_q} = δ_pq`, `{c_p, c_q} = 0`), `c†_q c_q = (𝟙 - Z_q)/2`, and for `a < b`
    `c†_a c_b + c†_b c_a = ½ (X_a Z_{a+1} ⋯ Z_{b-1} X_b + Y_a Z ⋯ Z Y_b)`. -/
theorem jordan_wigner_image (N p q : Nat) (hp : p < N) (hq : q < N) :
    (cF N p * (cF N q)ᴴ + (cF N q)ᴴ * cF N p = if p = q then 1 else 0) ∧ cF N p * cF N q + cF N q * cF N p = 0 ∧
    numF N q = (1 / 2 : ℂ) • (1 - pauliMat N (zString N [q])) ∧
    (p < q → hopF N p q = (1 / 2 : ℂ) • (pauliMat N (hopString N p q Op.X) + pauliMat N (hopString N p q Op.Y))) :=
  ⟨(jw_car N p q hp hq).1, (jw_car N p q hp hq).2, jw_number N q hq, fun h => jw_hopping N p q h hq⟩

/-- **C07 (the documented Hamiltonian is the Jordan–Wigner image of the Fermi–Hubbard model)** the Pauli term lists `hubbard1dTerms`,
    `hubbard2dTerms` — `-½μ(𝟙 - Z)`, `¼u(𝟙 - Z)(𝟙 - Z)`, `-½t(XZ…ZX + YZ…ZY)` of the builders' docstrings — sum to
    `H = -t Σ_{⟨pq⟩σ} (c†_{pσ} c_{qσ} + h.c.) + u Σ_p n_{p↑} n_{p↓} - μ Σ_{pσ} n_{pσ}` written in the Jordan–Wigner operators of the qubit
    order of each builder (`hubbardJW`; bonds: `hubbard_bonds_cover`). -/
theorem hubbard_hamiltonian_is_jordan_wigner (L Lx Ly : Nat) (u t mu : Rat) :
    hamOfGens (2 * L) (hubbard1dTerms L u t mu) = hubbardJW1d L u t mu ∧
    hamOfGens (2 * (Lx * Ly)) (hubbard2dTerms Lx Ly u t mu) = hubbardJW2d Lx Ly u t mu ∧
    hubbardJW1d L u t mu
      = ((List.range L).map fun j => (((-mu : ℚ) : ℝ) : ℂ) • numF (2 * L) j + (((-mu : ℚ) : ℝ) : ℂ) • numF (2 * L) (L + j)).sum
        + ((List.range L).map fun j => (((u : ℚ) : ℝ) : ℂ) • (numF (2 * L) j * numF (2 * L) (L + j))).sum
        + ((fh1dBonds L).map fun b => (((-t : ℚ) : ℝ) : ℂ) • hopF (2 * L) b.1 b.2
            + (((-t : ℚ) : ℝ) : ℂ) • hopF (2 * L) (L + b.1) (L + b.2)).sum :=
  ⟨hubbard1d_jw L u t mu, hubbard2d_jw Lx Ly u t mu, rfl⟩

example : hubbard1dTerms 1 (1/2) 1 (1/3) =
    [([.I, .I], -1/6), ([.Z, .I], 1/6), ([.I, .I], -1/6), ([.I, .Z], 1/6),
     ([.I, .I], 1/8), ([.Z, .I], -1/8), ([.I, .Z], -1/8), ([.Z, .Z], 1/8)] := by decide +kernel
example : (hubbard2dTerms 2 1 0 1 0).filter (fun g => g.2 ≠ 0) =
    [([.X, .Z, .X, .I], -1/2), ([.Y, .Z, .Y, .I], -1/2), ([.I, .X, .Z, .X], -1/2), ([.I, .Y, .Z, .Y], -1/2)] := by
  decide +kernel

/-- **C07 (the merged tables of the tie are the same operator)** `mergeGens` — what the driver prints for `fhmerged` / `fhterms`, compared
    with the generators read off the real circuit and with the Pauli decomposition of the independently built Jordan–Wigner matrix —
    keeps one entry per Pauli string, no zero entries, and the same operator `Σ c·P`. -/
theorem merged_table_same_operator (L : Nat) (gens : List (List Op × Rat)) :
    hamOfGens L (mergeGens gens) = hamOfGens L gens ∧ ((mergeGens gens).map Prod.fst).Nodup ∧
    ∀ e ∈ mergeGens gens, e.2 ≠ 0 :=
  mergeGens_spec L gens

example : mergeGens [([.Z, .I], 1/2), ([.I, .I], 1/3), ([.Z, .I], -1/2), ([.I, .I], 1/6)] = [([.I, .I], 1/2)] := by decide +kernel

section hubbard_consistent
open scoped Matrix.Norms.Operator

/-- **C07 (`hubbard1d_step_consistent`, wanted item 3)** one sub-step of `create_1d_fermi_hubbard_circuit(L, u, t, μ, n, dt, ·)` is, as a
    function of `τ = dt/n`, the curve `U(τ) = Π_k exp(τ·(-i c_k P_k))` over its generators at `τ = 1`; `U(0) = 𝟙` and
    `dU/dτ(0) = -i·H_JW`, the Jordan–Wigner Fermi–Hubbard Hamiltonian in the layout `↑[j] = j`, `↓[j] = L + j`
    (through `product_formula_deriv`; every `L` including `L = 1`, where there is no hopping). -/
theorem hubbard1d_step_consistent (L : Nat) (u t mu : Rat) :
    (∀ (dt : Rat) (n : Nat), n ≠ 0 →
      circMat (2 * L) (fh1dSubstep L u t mu dt n) = stepCurve (2 * L) (fh1dGens1 L u t mu) ((dt / n : ℚ) : ℝ)) ∧
    stepCurve (2 * L) (fh1dGens1 L u t mu) 0 = 1 ∧
    HasDerivAt (stepCurve (2 * L) (fh1dGens1 L u t mu)) ((-Complex.I) • hubbardJW1d L u t mu) 0 :=
  fh1d_consistent L u t mu

/-- **C07 (`hubbard2d_step_consistent`)** the same for `create_2d_fermi_hubbard_circuit(Lx, Ly, …)` with the layout of
    `lookup_qiskit_ordering` and the CNOT-ladder hopping blocks. -/
theorem hubbard2d_step_consistent (Lx Ly : Nat) (u t mu : Rat) :
    (∀ (dt : Rat) (n : Nat), n ≠ 0 →
      circMat (2 * (Lx * Ly)) (fh2dSubstep Lx Ly u t mu dt n)
        = stepCurve (2 * (Lx * Ly)) (fh2dGens1 Lx Ly u t mu) ((dt / n : ℚ) : ℝ)) ∧
    stepCurve (2 * (Lx * Ly)) (fh2dGens1 Lx Ly u t mu) 0 = 1 ∧
    HasDerivAt (stepCurve (2 * (Lx * Ly)) (fh2dGens1 Lx Ly u t mu)) ((-Complex.I) • hubbardJW2d Lx Ly u t mu) 0 :=
  fh2d_consistent Lx Ly u t mu

end hubbard_consistent

example := hubbard1d_step_consistent 3 (1 / 2) 1 (1 / 3)
example := hubbard2d_step_consistent 2 2 (1 / 2) 1 (1 / 3)

section hubbard_converges
open scoped Matrix.Norms.L2Operator

/-- **C07 (`hubbard1d_trotter_converges`)** the circuit `create_1d_fermi_hubbard_circuit(L, u, t, μ, n, dt, timesteps)` — `n·timesteps`
    sub-steps (`circuits_repeat_step`) of size `dt/n` — is within `T²s²e^{|T|s}/(n·timesteps)` (spectral norm, `T = timesteps·dt`,
    `s` = sum of the norms of the sub-step generators at `dt/n = 1`) of `exp(-i·T·H_JW)` and converges to it as the number of Trotter
    sub-steps `n → ∞`. -/
theorem hubbard1d_trotter_converges (L : Nat) (u t mu dt : Rat) (steps : Nat) (hsteps : steps ≠ 0) :
    (∀ n : ℕ, n ≠ 0 →
      ‖circMat (2 * L) (fh1dCircuit L u t mu dt n steps)
          - exp ((((steps : ℚ) * dt : ℚ) : ℝ) • ((-Complex.I) • hubbardJW1d L u t mu))‖
        ≤ (((steps : ℚ) * dt : ℚ) : ℝ) ^ 2 * (((fh1dGens1 L u t mu).map (genMat (2 * L))).map norm).sum ^ 2
            * Real.exp (|(((steps : ℚ) * dt : ℚ) : ℝ)| * (((fh1dGens1 L u t mu).map (genMat (2 * L))).map norm).sum)
            / ((n * steps : ℕ) : ℝ)) ∧
    Tendsto (fun n : ℕ => circMat (2 * L) (fh1dCircuit L u t mu dt n steps)) atTop
      (𝓝 (exp ((((steps : ℚ) * dt : ℚ) : ℝ) • ((-Complex.I) • hubbardJW1d L u t mu)))) :=
  fh1d_converges L u t mu dt steps hsteps

/-- **C07 (`hubbard2d_trotter_converges`)** the same for `create_2d_fermi_hubbard_circuit(Lx, Ly, u, t, μ, n, dt, timesteps)`. -/
theorem hubbard2d_trotter_converges (Lx Ly : Nat) (u t mu dt : Rat) (steps : Nat) (hsteps : steps ≠ 0) :
    (∀ n : ℕ, n ≠ 0 →
      ‖circMat (2 * (Lx * Ly)) (fh2dCircuit Lx Ly u t mu dt n steps)
          - exp ((((steps : ℚ) * dt : ℚ) : ℝ) • ((-Complex.I) • hubbardJW2d Lx Ly u t mu))‖
        ≤ (((steps : ℚ) * dt : ℚ) : ℝ) ^ 2
            * (((fh2dGens1 Lx Ly u t mu).map (genMat (2 * (Lx * Ly)))).map norm).sum ^ 2
            * Real.exp (|(((steps : ℚ) * dt : ℚ) : ℝ)|
                * (((fh2dGens1 Lx Ly u t mu).map (genMat (2 * (Lx * Ly)))).map norm).sum)
            / ((n * steps : ℕ) : ℝ)) ∧
    Tendsto (fun n : ℕ => circMat (2 * (Lx * Ly)) (fh2dCircuit Lx Ly u t mu dt n steps)) atTop
      (𝓝 (exp ((((steps : ℚ) * dt : ℚ) : ℝ) • ((-Complex.I) • hubbardJW2d Lx Ly u t mu)))) :=
  fh2d_converges Lx Ly u t mu dt steps hsteps

end hubbard_converges

example := hubbard1d_trotter_converges 2 (1 / 2) 1 (1 / 3) (1 / 10) 3 (by decide)
example := hubbard2d_trotter_converges 2 2 (1 / 2) 1 (1 / 3) (1 / 10) 1 (by decide)

end Yaqs.Trotter


/-! ## xs07 extension — second-order accuracy of the palindromic (Strang) arrangement as a theorem

`create_1d_fermi_hubbard_circuit` / `create_2d_fermi_hubbard_circuit` run, per sub-step, `chemical_potential_term(½)`,
`onsite_interaction_term(½)`, `kinetic_hopping_term(1)`, `onsite_interaction_term(½)`, `chemical_potential_term(½)`.  The outer
arrangement is palindromic; the hopping block in the middle is a plain product over bonds (1-D: even bonds, then odd bonds; 2-D:
horizontal odd/even, vertical odd/even) and is NOT symmetrised.  Hence: the sub-step is a Strang step around the *product* of the
hopping factors; it is third-order locally (second-order globally) exactly when that product is the exact hopping flow (no bond,
or one bond per spin species: `L ≤ 2` resp. `Lx·Ly ≤ 2`), and otherwise first-order globally with the whole `O(τ²)` defect coming
from the inner block.  The theorems below say precisely this; nothing more is claimed. -/
namespace Yaqs.Trotter

open Matrix NormedSpace Yaqs.TrotterLimit Yaqs.Strang

/-- **C07 (`strang_symmetric_cancellation`: the algebraic core of second order)** in any ring, for arbitrary `EX`, `EY` (standing for
    `e^X`, `e^Y`) and `hX`, `hY` (standing for `X²/2`, `Y²/2`): `EX·EY·EX` minus the degree-2 Taylor polynomial `1 + Z + Z²/2` of
    `Z = X + Y + X` (with `Z²/2 = hX + hX + X·X + X·Y + Y·X + hY`) is a sum of seven products each containing a Taylor remainder of
    total order three — every term of order `≤ 2` cancels identically.  This cancellation is the palindromic symmetry; for the
    unsymmetric `EX·EY` the commutator survives (`first_order_not_second`). -/
theorem strang_symmetric_cancellation {R : Type} [Ring R] (EX EY X Y hX hY : R) :
    EX * EY * EX - (1 + (X + Y + X) + (hX + hX + X * X + X * Y + Y * X + hY))
      = (EX - 1 - X - hX) * EY * EX + hX * (EY * EX - 1) + X * (EY * EX - 1 - (Y + X)) + (EX - 1 - X - hX)
        + Y * (EX - 1 - X) + hY * (EX - 1) + (EY - 1 - Y - hY) * EX :=
  strang_identity EX EY X Y hX hY

example : (3 : ℤ) * 5 * 3 - (1 + (2 + 4 + 2) + (2 + 2 + 2 * 2 + 2 * 4 + 4 * 2 + 8)) = 45 - 41 := by decide

section strang
variable {𝔸 : Type} [NormedRing 𝔸] [NormedAlgebra ℂ 𝔸] [CompleteSpace 𝔸]

/-- **C07 (`strang_local_error`: third-order local error of the palindromic step)** in every complete normed `ℂ`-algebra with `‖1‖ ≤ 1`
    (complex matrices in the spectral norm: `l2_norm_one_le`), for all `A`, `B` and every complex step `τ` (real `t`: `τ = t`,
    `‖τ‖ = |t|`), with `σ = ‖τ‖(‖A‖ + ‖B‖)`:
    `‖e^{(τ/2)A} e^{τB} e^{(τ/2)A} − e^{τ(A+B)}‖ ≤ σ³/3 · e^σ`, and inside the radius `σ ≤ 1` this is `≤ (‖A‖+‖B‖)³ · ‖τ‖³`
    (cubic Taylor remainder `‖e^X − 1 − X − X²/2‖ ≤ ‖X‖³e^{‖X‖}/6` from the power series + `strang_symmetric_cancellation`). -/
theorem strang_local_error (h1 : ‖(1 : 𝔸)‖ ≤ 1) (τ : ℂ) (A B : 𝔸) :
    ‖exp ((τ / 2) • A) * exp (τ • B) * exp ((τ / 2) • A) - exp (τ • (A + B))‖
      ≤ (‖τ‖ * (‖A‖ + ‖B‖)) ^ 3 / 3 * Real.exp (‖τ‖ * (‖A‖ + ‖B‖)) ∧
    (‖τ‖ * (‖A‖ + ‖B‖) ≤ 1 →
      ‖exp ((τ / 2) • A) * exp (τ • B) * exp ((τ / 2) • A) - exp (τ • (A + B))‖ ≤ (‖A‖ + ‖B‖) ^ 3 * ‖τ‖ ^ 3) :=
  ⟨strang_local h1 τ A B, strang_local_radius h1 τ A B⟩

end strang

example := strang_local_error (𝔸 := ℂ) (by simp) (1 / 3) Complex.I 2

section strang_matrix
variable {n : Type} [Fintype n] [DecidableEq n]
open scoped Matrix.Norms.L2Operator

/-- **C07 (`strang_global`: second-order global error)** for skew-Hermitian `A`, `B` (every factor and the exact flow are unitary —
    proved, not assumed) `N` palindromic steps of size `T/N` satisfy, in the spectral norm,
    `‖(e^{(T/2N)A} e^{(T/N)B} e^{(T/2N)A})^N − e^{T(A+B)}‖ ≤ |T|³ (‖A‖+‖B‖)³ e^{|T|(‖A‖+‖B‖)} / (3N²)`
    (telescoping `Sᴺ − Eᴺ = Σ S^k (S − E) E^{N−1−k}` + `strang_local_error`). -/
theorem strang_global (A B : Matrix n n ℂ) (hA : Aᴴ = -A) (hB : Bᴴ = -B) (T : ℝ) (N : ℕ) (hN : 0 < N) :
    ‖(exp ((((T / N : ℝ) : ℂ) / 2) • A) * exp (((T / N : ℝ) : ℂ) • B) * exp ((((T / N : ℝ) : ℂ) / 2) • A)) ^ N
        - exp ((T : ℂ) • (A + B))‖
      ≤ |T| ^ 3 * (‖A‖ + ‖B‖) ^ 3 * Real.exp (|T| * (‖A‖ + ‖B‖)) / (3 * (N : ℝ) ^ 2) :=
  strang_global_matrix A B hA hB T N hN

end strang_matrix

example := strang_global (genMat 1 ([Op.X], 1)) (genMat 1 ([Op.Z], 1 / 2)) (genMat_skew _ _) (genMat_skew _ _) 2 5 (by decide)

section hubbard_strang
open scoped Matrix.Norms.L2Operator

/-- **C07 (`c07_hubbard_second_order`: what the palindromic Fermi–Hubbard sub-step buys, 1-D builder)** for
    `create_1d_fermi_hubbard_circuit(L, u, t, μ, n, dt, timesteps)`, `n ≠ 0`, `τ = dt/n`, with `D = Σ(chem ++ onsite)`
    (diagonal `I/Z` strings: they commute, so each outer half block `½chem ½onsite` / `½onsite ½chem` is exactly `e^{(τ/2)D}` although
    the lists are not reversed term by term), `K = Σ hop`, `M(τ)` = the product of the hopping factors in circuit order,
    `σ = |τ|(‖D‖+‖K‖)`, `-iH_JW = D + K`:
    1. the sub-step is `e^{(τ/2)D} · M(τ) · e^{(τ/2)D}` — a Strang step around the hopping *product*;
    2. `‖sub-step − e^{-iτH_JW}‖ ≤ ‖M(τ) − e^{τK}‖ + σ³/3·e^σ`: third order up to the defect of the middle block;
    3. `‖M(τ) − e^{τK}‖ ≤ τ² s² e^{|τ|s}`, `s = Σ‖hop generators‖` (xt07's bound: the even/odd hopping layers are not symmetrised, so
       for `L ≥ 3` the code is first order only); if the hopping generators commute pairwise — `L ≤ 2` — then `M(τ) = e^{τK}` and the
       sub-step is genuinely third-order accurate;
    4. the whole circuit (`n·timesteps` sub-steps): `‖circuit − (e^{-iτH_JW})^{n·timesteps}‖ ≤ n·timesteps·(bound of 2)`. -/
theorem c07_hubbard_second_order (L : Nat) (u t mu dt : Rat) (n : Nat) (hn : n ≠ 0) :
    circMat (2 * L) (fh1dSubstep L u t mu dt n)
      = exp (((((dt / n : ℚ) : ℝ) : ℂ) / 2) • genSum (2 * L) (fh1dChemT L mu ++ fh1dOnsiteT L u))
        * stepUnitary (2 * L) ((fh1dHopT L t).map (scaleGen (dt / n)))
        * exp (((((dt / n : ℚ) : ℝ) : ℂ) / 2) • genSum (2 * L) (fh1dChemT L mu ++ fh1dOnsiteT L u)) ∧
    ‖circMat (2 * L) (fh1dSubstep L u t mu dt n) - exp ((((dt / n : ℚ) : ℝ) : ℂ) • ((-Complex.I) • hubbardJW1d L u t mu))‖
      ≤ ‖stepUnitary (2 * L) ((fh1dHopT L t).map (scaleGen (dt / n)))
            - exp ((((dt / n : ℚ) : ℝ) : ℂ) • genSum (2 * L) (fh1dHopT L t))‖
        + (|((dt / n : ℚ) : ℝ)| * (‖genSum (2 * L) (fh1dChemT L mu ++ fh1dOnsiteT L u)‖ + ‖genSum (2 * L) (fh1dHopT L t)‖)) ^ 3 / 3
          * Real.exp (|((dt / n : ℚ) : ℝ)|
              * (‖genSum (2 * L) (fh1dChemT L mu ++ fh1dOnsiteT L u)‖ + ‖genSum (2 * L) (fh1dHopT L t)‖)) ∧
    (‖stepUnitary (2 * L) ((fh1dHopT L t).map (scaleGen (dt / n))) - exp ((((dt / n : ℚ) : ℝ) : ℂ) • genSum (2 * L) (fh1dHopT L t))‖
      ≤ ((dt / n : ℚ) : ℝ) ^ 2 * (((fh1dHopT L t).map (genMat (2 * L))).map norm).sum ^ 2
          * Real.exp (|((dt / n : ℚ) : ℝ)| * (((fh1dHopT L t).map (genMat (2 * L))).map norm).sum)) ∧
    ((((fh1dHopT L t).map (scaleGen (dt / n))).map (genMat (2 * L))).Pairwise Commute →
      stepUnitary (2 * L) ((fh1dHopT L t).map (scaleGen (dt / n)))
        = exp ((((dt / n : ℚ) : ℝ) : ℂ) • genSum (2 * L) (fh1dHopT L t))) ∧
    ∀ steps : Nat,
      ‖circMat (2 * L) (fh1dCircuit L u t mu dt n steps)
          - exp ((n * steps) • ((((dt / n : ℚ) : ℝ) : ℂ) • ((-Complex.I) • hubbardJW1d L u t mu)))‖
        ≤ ((n * steps : ℕ) : ℝ) *
          (‖stepUnitary (2 * L) ((fh1dHopT L t).map (scaleGen (dt / n)))
              - exp ((((dt / n : ℚ) : ℝ) : ℂ) • genSum (2 * L) (fh1dHopT L t))‖
          + (|((dt / n : ℚ) : ℝ)| * (‖genSum (2 * L) (fh1dChemT L mu ++ fh1dOnsiteT L u)‖ + ‖genSum (2 * L) (fh1dHopT L t)‖)) ^ 3 / 3
            * Real.exp (|((dt / n : ℚ) : ℝ)|
                * (‖genSum (2 * L) (fh1dChemT L mu ++ fh1dOnsiteT L u)‖ + ‖genSum (2 * L) (fh1dHopT L t)‖))) := by
  obtain ⟨hA, hB⟩ := fh1d_diag L u mu
  obtain ⟨h1, h2, h3⟩ := hubbard_strang_local (2 * L) _ _ (fh1dHopT L t) hA hB (dt / n)
  have hp := fh1d_substep_palindrome L u t mu dt n hn
  refine ⟨hp.trans h1, ?_, h3, middle_exact_of_commute _ _ _, fun steps => ?_⟩
  · rw [hp, ← fh1d_genSum]; exact h2
  · rw [fh1d_circuit_pow, hp, ← fh1d_genSum]
    exact hubbard_strang_global (2 * L) _ _ (fh1dHopT L t) hA hB (dt / n) (n * steps)

/-- **C07 (`c07_hubbard2d_second_order`)** the same for `create_2d_fermi_hubbard_circuit(Lx, Ly, …)` (layout `↑[p] = 2p`, `↓[p] = 2p+1`,
    hopping blocks along `fh2dBonds` = horizontal odd, horizontal even, vertical odd, vertical even — not symmetrised):
    structure, local bound with the defect of the hopping product, xt07's quadratic bound for that defect, and the global bound. -/
theorem c07_hubbard2d_second_order (Lx Ly : Nat) (u t mu dt : Rat) (n : Nat) (hn : n ≠ 0) :
    circMat (2 * (Lx * Ly)) (fh2dSubstep Lx Ly u t mu dt n)
      = exp (((((dt / n : ℚ) : ℝ) : ℂ) / 2) • genSum (2 * (Lx * Ly)) (fh2dChemT Lx Ly mu ++ fh2dOnsiteT Lx Ly u))
        * stepUnitary (2 * (Lx * Ly)) ((fh2dHopT Lx Ly t).map (scaleGen (dt / n)))
        * exp (((((dt / n : ℚ) : ℝ) : ℂ) / 2) • genSum (2 * (Lx * Ly)) (fh2dChemT Lx Ly mu ++ fh2dOnsiteT Lx Ly u)) ∧
    ‖circMat (2 * (Lx * Ly)) (fh2dSubstep Lx Ly u t mu dt n)
        - exp ((((dt / n : ℚ) : ℝ) : ℂ) • ((-Complex.I) • hubbardJW2d Lx Ly u t mu))‖
      ≤ ‖stepUnitary (2 * (Lx * Ly)) ((fh2dHopT Lx Ly t).map (scaleGen (dt / n)))
            - exp ((((dt / n : ℚ) : ℝ) : ℂ) • genSum (2 * (Lx * Ly)) (fh2dHopT Lx Ly t))‖
        + (|((dt / n : ℚ) : ℝ)| * (‖genSum (2 * (Lx * Ly)) (fh2dChemT Lx Ly mu ++ fh2dOnsiteT Lx Ly u)‖
              + ‖genSum (2 * (Lx * Ly)) (fh2dHopT Lx Ly t)‖)) ^ 3 / 3
          * Real.exp (|((dt / n : ℚ) : ℝ)| * (‖genSum (2 * (Lx * Ly)) (fh2dChemT Lx Ly mu ++ fh2dOnsiteT Lx Ly u)‖
              + ‖genSum (2 * (Lx * Ly)) (fh2dHopT Lx Ly t)‖)) ∧
    (‖stepUnitary (2 * (Lx * Ly)) ((fh2dHopT Lx Ly t).map (scaleGen (dt / n)))
        - exp ((((dt / n : ℚ) : ℝ) : ℂ) • genSum (2 * (Lx * Ly)) (fh2dHopT Lx Ly t))‖
      ≤ ((dt / n : ℚ) : ℝ) ^ 2 * (((fh2dHopT Lx Ly t).map (genMat (2 * (Lx * Ly)))).map norm).sum ^ 2
          * Real.exp (|((dt / n : ℚ) : ℝ)| * (((fh2dHopT Lx Ly t).map (genMat (2 * (Lx * Ly)))).map norm).sum)) ∧
    ∀ steps : Nat,
      ‖circMat (2 * (Lx * Ly)) (fh2dCircuit Lx Ly u t mu dt n steps)
          - exp ((n * steps) • ((((dt / n : ℚ) : ℝ) : ℂ) • ((-Complex.I) • hubbardJW2d Lx Ly u t mu)))‖
        ≤ ((n * steps : ℕ) : ℝ) *
          (‖stepUnitary (2 * (Lx * Ly)) ((fh2dHopT Lx Ly t).map (scaleGen (dt / n)))
              - exp ((((dt / n : ℚ) : ℝ) : ℂ) • genSum (2 * (Lx * Ly)) (fh2dHopT Lx Ly t))‖
          + (|((dt / n : ℚ) : ℝ)| * (‖genSum (2 * (Lx * Ly)) (fh2dChemT Lx Ly mu ++ fh2dOnsiteT Lx Ly u)‖
                + ‖genSum (2 * (Lx * Ly)) (fh2dHopT Lx Ly t)‖)) ^ 3 / 3
            * Real.exp (|((dt / n : ℚ) : ℝ)| * (‖genSum (2 * (Lx * Ly)) (fh2dChemT Lx Ly mu ++ fh2dOnsiteT Lx Ly u)‖
                + ‖genSum (2 * (Lx * Ly)) (fh2dHopT Lx Ly t)‖))) := by
  obtain ⟨hA, hB⟩ := fh2d_diag Lx Ly u mu
  obtain ⟨h1, h2, h3⟩ := hubbard_strang_local (2 * (Lx * Ly)) _ _ (fh2dHopT Lx Ly t) hA hB (dt / n)
  have hp := fh2d_substep_palindrome Lx Ly u t mu dt n hn
  refine ⟨hp.trans h1, ?_, h3, fun steps => ?_⟩
  · rw [hp, ← fh2d_genSum]; exact h2
  · rw [fh2d_circuit_pow, hp, ← fh2d_genSum]
    exact hubbard_strang_global (2 * (Lx * Ly)) _ _ (fh2dHopT Lx Ly t) hA hB (dt / n) (n * steps)

end hubbard_strang

example := c07_hubbard_second_order 3 (1 / 2) 1 (1 / 3) (1 / 10) 2 (by decide)
example := c07_hubbard2d_second_order 2 2 (1 / 2) 1 (1 / 3) (1 / 10) 1 (by decide)
/-- `L = 1`: no bond, the hopping list is empty, the commutation hypothesis of clause 3 holds trivially -/
example : fh1dHopT 1 1 = [] ∧ (fh1dHopT 2 1).length = 4 ∧ (fh1dHopT 3 1).length = 8 := by decide +kernel

/-- **C07 (`first_order_not_second`: the symmetric arrangement is what buys the order)** (a) in any ring the second-order Taylor
    coefficient (times 2) of the unsymmetric product `e^{tX}e^{tY}`, `X² + 2XY + Y²`, differs from that of `e^{t(X+Y)}`, `(X+Y)²`, by the
    commutator `[X, Y]`; (b) the `2×2` rational example `A = E₀₁`, `B = E₁₀` (`A² = B² = 0`, so `1 + sA = e^{sA}`, `1 + sB = e^{sB}` exactly):
    for every `t`, `e^{tA}e^{tB} − P₂(t(A+B)) = (t²/2)·[A,B]` with `[A,B] ≠ 0` — a `t²` error —, whereas the palindromic
    `e^{(t/2)A}e^{tB}e^{(t/2)A} − P₂(t(A+B)) = (t³/4)·A` has no term below `t³`. -/
theorem first_order_not_second :
    (∀ (R : Type) [Ring R] (X Y : R), (X * X + (X * Y + X * Y) + Y * Y) - (X + Y) * (X + Y) = X * Y - Y * X) ∧
    (!![0, 1; 0, 0] * !![0, 1; 0, 0] = (0 : Matrix (Fin 2) (Fin 2) ℚ)) ∧
    (!![0, 0; 1, 0] * !![0, 0; 1, 0] = (0 : Matrix (Fin 2) (Fin 2) ℚ)) ∧
    (∀ t : ℚ, (1 + t • !![0, 1; 0, 0]) * (1 + t • !![0, 0; 1, 0])
        - (1 + t • (!![0, 1; 0, 0] + !![0, 0; 1, 0])
            + (t ^ 2 / 2) • ((!![0, 1; 0, 0] + !![0, 0; 1, 0]) * (!![0, 1; 0, 0] + !![0, 0; 1, 0])))
      = (t ^ 2 / 2) • (!![0, 1; 0, 0] * !![0, 0; 1, 0] - !![0, 0; 1, 0] * !![0, 1; 0, 0] : Matrix (Fin 2) (Fin 2) ℚ)) ∧
    (!![0, 1; 0, 0] * !![0, 0; 1, 0] - !![0, 0; 1, 0] * !![0, 1; 0, 0] ≠ (0 : Matrix (Fin 2) (Fin 2) ℚ)) ∧
    (∀ t : ℚ, (1 + (t / 2) • !![0, 1; 0, 0]) * (1 + t • !![0, 0; 1, 0]) * (1 + (t / 2) • !![0, 1; 0, 0])
        - (1 + t • (!![0, 1; 0, 0] + !![0, 0; 1, 0])
            + (t ^ 2 / 2) • ((!![0, 1; 0, 0] + !![0, 0; 1, 0]) * (!![0, 1; 0, 0] + !![0, 0; 1, 0])))
      = (t ^ 3 / 4) • (!![0, 1; 0, 0] : Matrix (Fin 2) (Fin 2) ℚ)) := by
  refine ⟨fun R _ X Y => by noncomm_ring, ?_, ?_, ?_, ?_, ?_⟩
  · ext i j; fin_cases i <;> fin_cases j <;> simp [Matrix.mul_apply, Fin.sum_univ_two]
  · ext i j; fin_cases i <;> fin_cases j <;> simp [Matrix.mul_apply, Fin.sum_univ_two]
  · intro t
    ext i j
    fin_cases i <;> fin_cases j <;> simp [Matrix.mul_apply, Fin.sum_univ_two, Matrix.one_apply] <;> ring
  · intro h
    have h00 := congrFun (congrFun h 0) 0
    simp at h00
  · intro t
    ext i j
    fin_cases i <;> fin_cases j <;> simp [Matrix.mul_apply, Fin.sum_univ_two, Matrix.one_apply] <;> ring

example : (!![0, 1; 0, 0] * !![0, 0; 1, 0] - !![0, 0; 1, 0] * !![0, 1; 0, 0] : Matrix (Fin 2) (Fin 2) ℚ) = !![1, 0; 0, -1] := by
  ext i j; fin_cases i <;> fin_cases j <;> simp

end Yaqs.Trotter
