import YaqsModel.Lemmas.Sched

/-!
# C13 — each trajectory runs exactly once under any completion order or transient fault

Property theorems only (helper lemmas live in `Lemmas/Sched.lean`).  Every theorem quantifies over **all** job
counts `n`, worker counts `w`, retry budgets `R` and **all event lists** `es` (any interleaving of completions, any
assignment of `ok / retryable / fatal` to attempts; events that cannot happen are no-ops, so no side condition on
`es` is needed).  `c13_batches_refine` shows that the batches `for fut in done` of the real loop are such event
lists, so every statement below also holds for every sequence of `wait` batches.

The state reached is `run (init n w R) es`; `init` is the state at the first `wait(...)`.
-/
namespace Yaqs.Sched

/-- the schedule used in the non-vacuity examples: 5 jobs, 1 worker (window 2), budget 2; a retry, out-of-order
    completions, then everything drains -/
def demoEvents : List Event :=
  [.complete 0 .ok, .complete 0 .retryable, .complete 1 .ok, .complete 0 .ok, .complete 1 .ok,
   .complete 0 .ok]

example : (run (init 5 1 2) demoEvents).done = true := by decide +kernel
example : (run (init 5 1 2) demoEvents).yielded.map (·.1) = [0, 1, 2, 4, 3] := by decide +kernel
example : (run (init 5 1 2) demoEvents).subs = [0, 1, 2, 1, 3, 4] := by decide +kernel

/-- **in-flight bound**: at every moment at most `2 · workers` attempts are in flight, whatever `n` is. -/
theorem c13_inflight_le (n w R : Nat) (es : List Event) :
    (run (init n w R) es).inflight.length ≤ 2 * w := by
  have h := (inv0_run _ es (inv0_init n w R)).cap
  rw [(reach_consts n w R es).2.1] at h
  omega

example : (init 40 3 1).inflight.length = 6 := by decide +kernel

/-- **batches are event lists**: processing `wait` batches (members fixed when `wait` returns, looked up by
    attempt id, members after a raising one never looked at) reaches only states that single completions reach. -/
theorem c13_batches_refine (n w R : Nat) (bs : List (List (Nat × Outcome))) :
    ∃ es, runBatches (init n w R) bs = run (init n w R) es :=
  runBatches_eq_run _ bs

example : runBatches (init 5 1 2) [[(1, .ok), (0, .retryable)], [(0, .ok)]]
    = run (init 5 1 2) [.complete 1 .ok, .complete 0 .retryable, .complete 0 .ok] := by decide +kernel

/-- in-flight bound, stated for batches -/
theorem c13_inflight_le_batches (n w R : Nat) (bs : List (List (Nat × Outcome))) :
    (runBatches (init n w R) bs).inflight.length ≤ 2 * w := by
  obtain ⟨es, h⟩ := c13_batches_refine n w R bs
  rw [h]; exact c13_inflight_le n w R es

/-- **partition / exactly once**: every index below `next` is, exactly once, either yielded, or in flight, or
    the index whose failure was raised; nothing else is. -/
theorem c13_partition (n w R : Nat) (es : List Event) :
    (match (run (init n w R) es).status with
     | .running => (run (init n w R) es).yielded.map Prod.fst ++ (run (init n w R) es).inflight.map Prod.snd
     | .raised j _ => j :: ((run (init n w R) es).yielded.map Prod.fst ++ (run (init n w R) es).inflight.map Prod.snd)).Perm
      (List.range (run (init n w R) es).next)
    ∧ (run (init n w R) es).next ≤ n := by
  have h := inv0_run _ es (inv0_init n w R)
  have hp := h.part
  have hn := h.next_le
  rw [(reach_consts n w R es).1] at hn
  unfold content at hp
  exact ⟨hp, hn⟩

/-- **no index is delivered twice**, also in runs that end with an exception or are abandoned, and a delivered
    index is never in flight again. -/
theorem c13_yield_nodup (n w R : Nat) (es : List Event) :
    ((run (init n w R) es).yielded.map Prod.fst).Nodup ∧
    ∀ i ∈ (run (init n w R) es).yielded.map Prod.fst, i ∉ (run (init n w R) es).inflight.map Prod.snd := by
  have hp := (c13_partition n w R es).1
  cases hs : (run (init n w R) es).status with
  | running =>
    rw [hs] at hp
    have hnd := (hp.nodup_iff).mpr List.nodup_range
    rw [List.nodup_append] at hnd
    exact ⟨hnd.1, fun i hi hj => hnd.2.2 i hi i hj rfl⟩
  | raised j a =>
    rw [hs] at hp
    have hnd := (hp.nodup_iff).mpr List.nodup_range
    rw [List.nodup_cons, List.nodup_append] at hnd
    exact ⟨hnd.2.1, fun i hi hj => hnd.2.2.2 i hi i hj rfl⟩

example : ((run (init 5 1 2) demoEvents).yielded.map (·.1)).Nodup := by decide +kernel

/-- **own result**: whenever the generator yields `(i, res)`, `res` is the result of an attempt that was submitted
    for index `i` (so `worker_fn` was called with `i`). -/
theorem c13_yield_own_result (n w R : Nat) (es : List Event) :
    ∀ p ∈ (run (init n w R) es).yielded, (run (init n w R) es).subs[p.2]? = some p.1 :=
  (inv0_run _ es (inv0_init n w R)).sub_yield

example : (run (init 5 1 2) demoEvents).yielded = [(0, 0), (1, 3), (2, 2), (4, 5), (3, 4)] := by decide +kernel

/-- **retry budget**: no index is retried more than `max_retries` times … -/
theorem c13_retries_le (n w R : Nat) (es : List Event) (i : Nat) :
    (run (init n w R) es).retries.getD i 0 ≤ R := by
  have h := inv0_run _ es (inv0_init n w R)
  have := getD_le_of_forall _ i _ h.ret_le
  rw [(reach_consts n w R es).2.2] at this
  exact this

/-- … and the number of times index `i` was handed to a worker is exactly `1 +` its retry count once submitted
    (0 before): without faults every trajectory is submitted exactly once; never more than `R + 1` times. -/
theorem c13_attempt_count (n w R : Nat) (es : List Event) (i : Nat) :
    let s := run (init n w R) es
    s.subs.count i = (if i < s.next then 1 else 0) + s.retries.getD i 0 ∧ s.subs.count i ≤ R + 1 := by
  intro s
  have h := (inv0_run _ es (inv0_init n w R)).count i
  have h2 := c13_retries_le n w R es i
  refine ⟨h, ?_⟩
  show (run (init n w R) es).subs.count i ≤ R + 1
  rw [h]
  split <;> omega

example : (run (init 5 1 2) demoEvents).subs.count 1 = 2 ∧ (run (init 5 1 2) demoEvents).retries = [0, 1, 0, 0, 0] := by
  decide +kernel

/-- a retryable failure within the budget puts the same index back in flight as a fresh attempt (it is not lost) -/
theorem c13_retry_resubmits (s : State) (pos a i : Nat) (hr : s.status = .running)
    (hp : s.inflight[pos]? = some (a, i)) (hb : s.retries.getD i 0 < s.maxRetries) :
    (s.subs.length, i) ∈ (step s (.complete pos .retryable)).inflight ∧
    (step s (.complete pos .retryable)).status = .running := by
  rw [step_retry s pos a i hr hp hb]
  simp [hr]

/-- **raise iff**: the generator has raised after `es` iff some event that actually happened was a fatal failure,
    or a retryable one whose index had used up its budget.  (→: nothing else raises; ←: such a failure is never
    dropped.) -/
theorem c13_raise_iff (n w R : Nat) (es : List Event) :
    (run (init n w R) es).status ≠ .running ↔
      ∃ k, ∃ hk : k < es.length,
        es[k].valid (run (init n w R) (es.take k)) = true ∧ raises (run (init n w R) (es.take k)) es[k] = true := by
  have h := run_running_iff (init n w R) es (init_consts n w R).2.2.2.1
  constructor
  · intro hne
    apply Classical.byContradiction
    intro hno
    apply hne
    apply h.mpr
    intro k hk hc
    exact hno ⟨k, hk, hc⟩
  · intro ⟨k, hk, hc⟩ hrun
    exact h.mp hrun k hk hc

/-- what reaches the caller is the exception of the failing attempt, and that attempt ran index `j` -/
theorem c13_raised_attempt (n w R : Nat) (es : List Event) (j a : Nat)
    (h : (run (init n w R) es).status = .raised j a) : (run (init n w R) es).subs[a]? = some j :=
  (inv0_run _ es (inv0_init n w R)).sub_raised j a h

example : (run (init 5 1 1) [.complete 0 .retryable, .complete 1 .retryable]).status = .raised 0 2 := by decide +kernel
example : (run (init 5 1 1) [.complete 0 .retryable, .complete 0 .fatal]).status = .raised 1 1 := by decide +kernel
example : raises (run (init 5 1 1) [.complete 0 .retryable]) (.complete 1 .retryable) = true := by decide +kernel

/-- the events of a list all actually happen (each is possible in the state it meets) -/
def AllValid : State → List Event → Prop
  | _, [] => True
  | s, e :: es => e.valid s = true ∧ AllValid (step s e) es

/-- **termination**: a strictly decreasing measure.  Every loop body that runs lowers `measure` by at least one,
    so at most `1 + n·(R+1) + n·R` loop bodies ever run — the drain loop cannot spin, whatever the schedule. -/
theorem c13_terminates (n w R : Nat) (es fs : List Event) (hv : AllValid (run (init n w R) es) fs) :
    fs.length + measure (run (init n w R) (es ++ fs)) ≤ measure (run (init n w R) es) ∧
    measure (run (init n w R) es) ≤ 1 + n * (R + 1) + n * R := by
  constructor
  · rw [run_append]
    have hinv := inv0_run _ es (inv0_init n w R)
    generalize run (init n w R) es = s at hv hinv
    induction fs generalizing s with
    | nil => simp [run_nil]
    | cons e fs ih =>
      obtain ⟨h1, h2⟩ := hv
      have hlt := measure_step_lt s e hinv h1
      have := ih (step s e) h2 (inv0_step s e hinv)
      rw [run_cons]
      simp only [List.length_cons]
      omega
  · obtain ⟨h1, _, h3⟩ := reach_consts n w R es
    unfold measure
    split
    · omega
    · rw [h1, h3]
      have : (n - (run (init n w R) es).yielded.length) * (R + 1) ≤ n * (R + 1) :=
        Nat.mul_le_mul_right _ (Nat.sub_le _ _)
      omega

/-- single-step form: a possible event strictly decreases the measure -/
theorem c13_measure_decreases (n w R : Nat) (es : List Event) (e : Event)
    (hv : e.valid (run (init n w R) es) = true) :
    measure (step (run (init n w R) es) e) < measure (run (init n w R) es) :=
  measure_step_lt _ e (inv0_run _ es (inv0_init n w R)) hv

example : AllValid (init 5 1 2) demoEvents := by
  simp only [demoEvents, AllValid]; decide +kernel
example : measure (init 5 1 2) = 26 ∧ measure (run (init 5 1 2) demoEvents) = 1 + 9 := by decide +kernel

/-- **normal termination delivers a permutation**: with at least one worker, when the generator returns normally
    the indices it yielded are a permutation of `range n` — each trajectory exactly once, none missing. -/
theorem c13_done_is_perm (n w R : Nat) (es : List Event) (hw : 1 ≤ w)
    (hd : (run (init n w R) es).done = true) :
    ((run (init n w R) es).yielded.map (·.1)).Perm (List.range n) := by
  simp only [State.done, Bool.and_eq_true, beq_iff_eq, List.isEmpty_iff] at hd
  obtain ⟨hs, he⟩ := hd
  have hfull := full_run _ es (full_init n w R)
  obtain ⟨hp, hn⟩ := c13_partition n w R es
  obtain ⟨h1, h2, _⟩ := reach_consts n w R es
  rw [hs, he] at hp
  have hnext : (run (init n w R) es).next = n := by
    apply Nat.le_antisymm hn
    apply Nat.le_of_not_lt
    intro hlt
    have := hfull hs (by rw [h1]; exact hlt)
    rw [he, h2] at this
    simp at this
    omega
  rw [hnext] at hp
  simpa using hp

/-- same for batches -/
theorem c13_done_is_perm_batches (n w R : Nat) (bs : List (List (Nat × Outcome))) (hw : 1 ≤ w)
    (hd : (runBatches (init n w R) bs).done = true) :
    ((runBatches (init n w R) bs).yielded.map (·.1)).Perm (List.range n) := by
  obtain ⟨es, h⟩ := c13_batches_refine n w R bs
  rw [h] at hd ⊢; exact c13_done_is_perm n w R es hw hd

/-- the hypothesis `1 ≤ w` is needed: with a window of 0 the loop would return at once having delivered nothing
    (the real `ProcessPoolExecutor` refuses `max_workers = 0`, and all callers pass `max(1, cpus - 1)`). -/
example : (init 3 0 0).done = true ∧ (init 3 0 0).yielded = [] := by decide +kernel

/-- **stitching, strong / analog**: after a normal end, for every observable `k` and every trajectory `i`, row `i`
    of observable `k` holds entry `k` of the result of the (unique) attempt delivered for `i`, and that attempt was
    run on index `i`.  (`(work i a)[k]?` is `some _` whenever results have one entry per observable.) -/
theorem c13_stitch_rows {α : Type} (n w R : Nat) (es : List Event) (hw : 1 ≤ w)
    (hd : (run (init n w R) es).done = true) (nObs : Nat) (work : Nat → Nat → List α)
    (k : Nat) (hk : k < nObs) (i : Nat) (hi : i < n) :
    ∃ a, (i, a) ∈ (run (init n w R) es).yielded ∧ (run (init n w R) es).subs[a]? = some i ∧
      ((stitchAll nObs n work (run (init n w R) es).yielded)[k]?).bind (·[i]?) = some ((work i a)[k]?) := by
  have hperm := c13_done_is_perm n w R es hw hd
  have hnd : ((run (init n w R) es).yielded.map (·.1)).Nodup := (c13_yield_nodup n w R es).1
  have himem : i ∈ (run (init n w R) es).yielded.map (·.1) :=
    (hperm.mem_iff).mpr (List.mem_range.mpr hi)
  obtain ⟨p, hp, hpi⟩ := List.mem_map.mp himem
  obtain ⟨i', a⟩ := p
  simp only at hpi; subst hpi
  refine ⟨a, hp, c13_yield_own_result n w R es _ hp, ?_⟩
  unfold stitchAll
  rw [stitch_row]
  simp only [List.getElem?_replicate, hk, ↓reduceIte, Option.map_some, Option.bind_some]
  exact foldl_set_get (fun y => (work y.1 y.2)[k]?) _ _ (i', a) hnd hp (by simpa using hi)

/-- **stitching, weak**: `measurements[i]` is the result delivered for `i`, computed by an attempt on `i`. -/
theorem c13_stitch_meas {α : Type} (n w R : Nat) (es : List Event) (hw : 1 ≤ w)
    (hd : (run (init n w R) es).done = true) (work : Nat → Nat → α) (i : Nat) (hi : i < n) :
    ∃ a, (i, a) ∈ (run (init n w R) es).yielded ∧ (run (init n w R) es).subs[a]? = some i ∧
      (stitchMeas n work (run (init n w R) es).yielded)[i]? = some (some (work i a)) := by
  have hperm := c13_done_is_perm n w R es hw hd
  have hnd : ((run (init n w R) es).yielded.map (·.1)).Nodup := (c13_yield_nodup n w R es).1
  have himem : i ∈ (run (init n w R) es).yielded.map (·.1) :=
    (hperm.mem_iff).mpr (List.mem_range.mpr hi)
  obtain ⟨p, hp, hpi⟩ := List.mem_map.mp himem
  obtain ⟨i', a⟩ := p
  simp only at hpi; subst hpi
  refine ⟨a, hp, c13_yield_own_result n w R es _ hp, ?_⟩
  unfold stitchMeas
  exact foldl_set_get (fun y => some (work y.1 y.2)) _ _ (i', a) hnd hp (by simpa using hi)

example : stitchAll 2 5 (fun i a => [100 * i + a, 100 * i + a + 50]) (run (init 5 1 2) demoEvents).yielded
    = [[some 0, some 103, some 202, some 304, some 405], [some 50, some 153, some 252, some 354, some 455]] := by
  decide +kernel

/-- **tomography**: the weight accumulated for sequence `q` is the sum of the weights of exactly the delivered
    jobs `i` with `i / nTraj = q` (each delivered once by `c13_done_is_perm`, so each job contributes once). -/
theorem c13_tomo_accumulate (nSeq nTraj : Nat) (weight : Nat → Nat → Int) (ys : List (Nat × Nat)) (q : Nat)
    (hq : q < nSeq) (hys : ∀ y ∈ ys, y.1 / nTraj < nSeq) :
    (accumulate nSeq nTraj weight ys).getD q 0 =
      ((ys.filter (fun y => y.1 / nTraj == q)).map (fun y => weight y.1 y.2)).sum := by
  unfold accumulate
  rw [accumulate_fold nTraj weight ys _ q (by simpa using hq) (by simpa using hys)]
  simp [List.getD_eq_getElem?_getD, hq]

/-- **serial path**: the backend is called for the indices `0, 1, …` in order, each once, up to and including the
    first failing one, whose exception reaches the caller (`raisedAt`); nothing after it runs. -/
theorem c13_serial_spec (n : Nat) (fails : Nat → Bool) :
    (serialRun n fails).raisedAt = (List.range n).find? fails ∧
    (serialRun n fails).calls <+: List.range n ∧
    (serialRun n fails).yielded.map (·.1) = (List.range n).takeWhile (fun i => !fails i) := by
  unfold serialRun
  rw [serialLoop_spec]
  refine ⟨?_, ?_, ?_⟩
  · show (match List.find? fails (List.range n) with | some i => some i | none => none) = _
    cases List.find? fails (List.range n) <;> rfl
  · simpa using takeWhile_append_find_prefix fails (List.range n)
  · simp [List.map_map, Function.comp_def]

/-- **serial and parallel run the same set**: a parallel run that ends normally and a serial run without failure
    deliver (and call the backend for) the same indices `range n`, each exactly once. -/
theorem c13_serial_same_set (n w R : Nat) (es : List Event) (hw : 1 ≤ w)
    (hd : (run (init n w R) es).done = true) (fails : Nat → Bool) (hok : (serialRun n fails).raisedAt = none) :
    ((run (init n w R) es).yielded.map (·.1)).Perm ((serialRun n fails).yielded.map (·.1)) ∧
    (serialRun n fails).calls = List.range n := by
  have hspec := c13_serial_spec n fails
  rw [hspec.1] at hok
  have hall : ∀ i ∈ List.range n, (!fails i) = true := by
    intro i hi
    have := List.find?_eq_none.mp hok i hi
    simpa using this
  have htw : (List.range n).takeWhile (fun i => !fails i) = List.range n :=
    takeWhile_eq_self _ _ hall
  refine ⟨?_, ?_⟩
  · rw [hspec.2.2, htw]; exact c13_done_is_perm n w R es hw hd
  · unfold serialRun
    rw [serialLoop_spec]
    simp [htw, hok]

example : (serialRun 4 (fun i => i == 2)) = { yielded := [(0, 0), (1, 0)], calls := [0, 1, 2], raisedAt := some 2 } := by
  decide +kernel

/-- **code as found (before 930217c)**: the serial path swallowed the first exception of a trajectory and ran it
    again — the failure of index 1 is dropped, index 1 runs twice.  Kept as a counterexample for the old variant. -/
theorem serial_old_drops_failure :
    (serialRunOld 3 (fun i k => i == 1 && k == 0)).raisedAt = none ∧
    (serialRunOld 3 (fun i k => i == 1 && k == 0)).calls = [0, 1, 1, 2] ∧
    (serialRun 3 (fun i => i == 1)).raisedAt = some 1 := by
  decide +kernel

/-- **C13.0** (what the tie compares) `outputs s s'` — the action log the driver prints for one processed batch member and
    that is diffed against the real `run_backend_parallel` — contains a `yield` line for exactly the pairs newly appended
    to `yielded` (with the index the attempt was submitted for as the owner of the result), a `raise` line exactly when the
    status goes from running to raised, and nothing else but `submit` lines -/
theorem outputs_spec (s s' : State) (o : Out) :
    o ∈ outputs s s' ↔
      (∃ p ∈ s'.yielded.drop s.yielded.length, o = Out.yield p.1 (s'.subs.getD p.2 0) p.2) ∨
      (∃ p ∈ (s'.subs.drop s.subs.length).zipIdx,
        o = Out.submit p.1 (s'.inflight.length - (s'.subs.length - s.subs.length) + p.2 + 1)) ∨
      (∃ j a, s.status = .running ∧ s'.status = .raised j a ∧ o = Out.raise j a) := by
  unfold outputs
  simp only [List.mem_append, List.mem_map]
  constructor
  · rintro ((⟨p, hp, rfl⟩ | ⟨p, hp, rfl⟩) | h)
    · exact Or.inl ⟨p, hp, rfl⟩
    · exact Or.inr (Or.inl ⟨p, hp, rfl⟩)
    · refine Or.inr (Or.inr ?_)
      split at h
      · rename_i j a hs hs'
        simp only [List.mem_singleton] at h
        exact ⟨j, a, hs, hs', h⟩
      · simp at h
  · rintro (⟨p, hp, rfl⟩ | ⟨p, hp, rfl⟩ | ⟨j, a, hs, hs', rfl⟩)
    · exact Or.inl (Or.inl ⟨p, hp, rfl⟩)
    · exact Or.inl (Or.inr ⟨p, hp, rfl⟩)
    · refine Or.inr ?_
      rw [hs, hs']
      simp

end Yaqs.Sched
