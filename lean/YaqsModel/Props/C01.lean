import YaqsModel.Lemmas.Lottery
import YaqsModel.Lemmas.ConsistencyFlow
import YaqsModel.Lemmas.ConsistencyDegenerate
import YaqsModel.Lemmas.ConsistencyQuadratic
import YaqsModel.Lemmas.PauliNorm

/-!
# C01 — open-system trajectories average to the Lindblad master equation  (jump lottery part)

Property text: "the observable values averaged over all random choices a trajectory can make equal the
solution of the Lindblad master equation whose jump operators are the listed processes and whose rates are
their strengths, up to an error that shrinks quadratically with the time step …, for processes listed in any
order, with unequal strengths, acting on one site, on two adjacent sites, or as a Pauli pair on two distant
sites."

What is proved here (all lists, all lengths, all orders, all strengths, all norms — no bound anywhere):

* C01.1 `c01_slots_aligned`, `c01_probVector_aligned`, `c01_slots_wellsited` — the probability vector
  `create_probability_distribution` returns has one entry per process, in the order of the process list, and entry
  `k` is the weight `dt·γ_k·‖L_k ψ̃‖²` of process `k` itself divided by the total, whatever the order of the list;
* C01.2 `c01_lottery_mass`, `c01_lottery_nonneg`, `c01_lottery_none_iff`, `c01_zero_weight_never_chosen`;
* C01.3 `c01_lottery_expectation` (+ `c01_lottery_expectation_wellsited`, `c01_mcwf_expectation`) — the exact
  one-step identity: the branch average of any observable is `a₀ + ((1-n)/W)·Σ_k dt·γ_k·a_k`, the first-order
  Kraus map with the *same* `k` in weight and operator;
* C01.4 `c01_lottery_perm` — "listed in any order";
* C01.6 `c01_tree_mass`, `c01_tree_nonneg`, `c01_tree_tower` — the outcome tree of any depth is a probability
  distribution and obeys the tower property;
* the capstone `c01_partial`.

(C01.5 — for every grid length the ops behind column `j` are `D½;Lot;(U;D1;Lot)^{j-1};U;D½;Lot` (order 2),
 `(U;D1;Lot)^j` (order 1), `(Ueff;Lot)^j` (MCWF) — is proved over `Model.Pipeline` as `Yaqs.Pipeline.tjm2_is_strang`,
 `tjm1_is_lie`, `mcwf_steps` in `Props/C15.lean` and trace-tied there; each `Lot` of those op lists is one
 `stepLottery` / `mcwfLottery` of this file.)

```
c01_full (NOT proved — the analytic limit is cited, DESIGN.md §3 "mathematics cited, not formalised"):
  for every H, process list, ψ₀, observable O, grid t_j = j·dt (m steps):
    | E_tree[⟨O⟩(t_j)] − tr(O · exp(t_j·𝓛) ρ₀) | ≤ C(H, procs, O) · m · dt³   (= C·T·dt², order 2; order 1 and MCWF: C·T·dt)
  where E_tree is the expectation over the depth-j outcome tree built from `stepLottery`.
  Missing for this: ψ̃ = exp(−dt/2·Σ γ L†L)ψ is transcendental in dt; one needs  1 − ‖ψ̃‖² = W + O(dt²)  and
  d/dt E[ρ'](0) = 𝓛ρ, then the standard consistency ⇒ convergence argument for a palindromic splitting.
  What the theorems below give is the exact algebraic identity these estimates start from; the harness measures
  the rate on the real code (Richardson ratio) on every run.
```

Extension (second half of this file, namespace `Yaqs.Consistency`): the two analytic facts named above are now theorems over
`Matrix n n ℂ` — `norm_deriv` (`1 − ‖ψ̃‖² = t·Σγ_k‖L_kψ‖² + o(t)`), `c01_consistency` (`d/dt E(t)|₀ = 𝓛ρ`, all three solvers'
no-jump propagators, any process order, zero or non-zero jump rate) and `c01_local_error_quadratic` (one-step error
`E(t) − exp(t𝓛)ρ = O(t²)`).  What remains cited of `c01_full` is only the accumulation of the local errors along the grid.
-/
namespace Yaqs.Lottery
open Yaqs Yaqs.Dist

/-! ### example processes (used by the non-vacuity `example`s only) -/

def mX : Mat := [[⟨0, 0⟩, ⟨1, 0⟩], [⟨1, 0⟩, ⟨0, 0⟩]]
def mLow : Mat := [[⟨0, 0⟩, ⟨1, 0⟩], [⟨0, 0⟩, ⟨0, 0⟩]]
def mXX : Mat :=
  [[⟨0, 0⟩, ⟨0, 0⟩, ⟨0, 0⟩, ⟨1, 0⟩], [⟨0, 0⟩, ⟨0, 0⟩, ⟨1, 0⟩, ⟨0, 0⟩],
   [⟨0, 0⟩, ⟨1, 0⟩, ⟨0, 0⟩, ⟨0, 0⟩], [⟨1, 0⟩, ⟨0, 0⟩, ⟨0, 0⟩, ⟨0, 0⟩]]
def mLowLow : Mat :=
  [[⟨0, 0⟩, ⟨0, 0⟩, ⟨0, 0⟩, ⟨1, 0⟩], [⟨0, 0⟩, ⟨0, 0⟩, ⟨0, 0⟩, ⟨0, 0⟩],
   [⟨0, 0⟩, ⟨0, 0⟩, ⟨0, 0⟩, ⟨0, 0⟩], [⟨0, 0⟩, ⟨0, 0⟩, ⟨0, 0⟩, ⟨0, 0⟩]]
/-- `pauli_x` on site `s` -/
def exX (s : Nat) (g : Rat) : Proc := ⟨[s], g, true, .mat mX⟩
/-- `lowering` on site `s` -/
def exLow (s : Nat) (g : Rat) : Proc := ⟨[s], g, false, .mat mLow⟩
/-- adjacent `crosstalk_xx` on `(s, s+1)` -/
def exXX (s : Nat) (g : Rat) : Proc := ⟨[s, s + 1], g, true, .mat mXX⟩
/-- long-range `crosstalk_xx` on `(s, t)` -/
def exXXlr (s t : Nat) (g : Rat) : Proc := ⟨[s, t], g, true, .factors mX mX⟩
/-- `lowering_two` on `(s, s+1)` -/
def exLowLow (s : Nat) (g : Rat) : Proc := ⟨[s, s + 1], g, false, .mat mLowLow⟩

/-- the D1 process list of DESIGN.md §6: `[x@0 γ=.1, x@1 γ=.2, xx@(0,1) γ=.7]` — not in sweep order -/
def exD1 : List Proc := [exX 0 (1/10), exX 1 (2/10), exXX 0 (7/10)]

/-- `|10⟩` on two sites (site 0 most significant) -/
def ex10 : Vec := [⟨0, 0⟩, ⟨0, 0⟩, ⟨1, 0⟩, ⟨0, 0⟩]

/-! ### C01.1 — the probability vector is aligned with the process list -/

/-- **C01.1** For every register length, every process list (any order, duplicates, any sites) and all norms, the
    unnormalised weight list has exactly one slot per process and slot `k` holds the weight of process `k`
    (or the initial `0.0` if the sweep never reaches that process). -/
theorem c01_slots_aligned (L : Nat) (procs : List Proc) (dt : Rat) (nrm : Proc → Rat) (n : Rat) :
    slots L procs dt nrm n = procs.map (slotOf L dt nrm n) ∧
    (slots L procs dt nrm n).length = procs.length := by
  have h := slots_eq_map L procs dt nrm n
  exact ⟨h, by rw [h, List.length_map]⟩

example : slots 2 exD1 1 (fun _ => 1) 1 = [1/10, 2/10, 7/10] := by decide +kernel

/-- **C01.1** (normalised) The list returned by `create_probability_distribution` is, entry by entry, the weight of
    the process at the same position divided by the total weight; it is `none` (the code raises) exactly when the
    total is zero. -/
theorem c01_probVector_aligned (L : Nat) (procs : List Proc) (dt : Rat) (nrm : Proc → Rat) (n : Rat) :
    probVector L procs dt nrm n =
      if totalW L procs dt nrm n = 0 then none
      else some (procs.map (fun p => slotOf L dt nrm n p / totalW L procs dt nrm n)) :=
  probVector_eq L procs dt nrm n

example : probVector 2 exD1 1 (fun _ => 1) 1 = some [1/10, 2/10, 7/10] := by decide +kernel

/-- **C01.1** For process lists whose entries the sweep reaches (one-site processes inside the register, adjacent
    pairs, Pauli pairs at any distance) and unitary Pauli pairs, slot `k` is `dt·γ_k·‖L_k ψ̃‖²`. -/
theorem c01_slots_wellsited (L : Nat) (procs : List Proc) (dt : Rat) (nrm : Proc → Rat) (n : Rat)
    (hsite : ∀ p ∈ procs, visited L p = true)
    (hP : ∀ p ∈ procs, p.pauli = true → p.sites.length = 2 → nrm p = n) :
    slots L procs dt nrm n = procs.map (fun p => dt * p.gamma * nrm p) := by
  rw [slots_eq_map]
  apply List.map_congr_left
  intro p hp
  unfold slotOf
  rw [if_pos (hsite p hp)]
  exact weightOf_eq_of_visited L dt nrm n p (hsite p hp) (hP p hp)

example : ∀ p ∈ exD1, visited 2 p = true := by decide +kernel

/-- **C01.1, code as found (D1)**: appending in sweep order is *not* aligned with the list — on the D1 input the
    weight `7/10` of the third process lands in the slot of the second. -/
theorem c01_asfound_d1_misaligned :
    sweepAppendOld 2 exD1 (wOne 1 (fun _ => 1)) (wTwo 1 (fun _ => 1) 1) = [1/10, 7/10, 2/10] ∧
    sweepAppendOld 2 exD1 (wOne 1 (fun _ => 1)) (wTwo 1 (fun _ => 1) 1) ≠ slots 2 exD1 1 (fun _ => 1) 1 := by
  decide +kernel

/-- **C01.1, code as found (D2)**: `lowering_two@(0,1)` on `|10⟩` has `L ψ = 0`; the repaired weight is `0`, the
    weight as found (norm of the state before the operator) was `dt·γ`. -/
theorem c01_asfound_d2_weight :
    wTwo 1 (denseNrm 2 ex10) (vecNormSq ex10) (exLowLow 0 (1/2)) = 0 ∧ wTwoOld 1 (vecNormSq ex10) (exLowLow 0 (1/2)) = 1/2 := by
  decide +kernel

/-! ### C01.2 — the lottery is a probability distribution -/

/-- **C01.2** Whenever the step can be performed, the probabilities of "no jump" and of all jumps sum to one —
    for every squared norm `n` (also `n > 1` or `n < 0`, where the code's comparison `random() >= 1-n` is constant). -/
theorem c01_lottery_mass (L : Nat) (procs : List Proc) (dt : Rat) (nrm : Proc → Rat) (n : Rat)
    (d : Dist Branch) (hd : stepLottery L procs dt nrm n = some d) : mass d = 1 := by
  unfold stepLottery at hd
  split at hd
  · cases hd; simp only [mass]; grind
  · rw [probVector_eq] at hd
    split at hd
    · cases hd
    · rename_i hW
      simp only [Option.map_some, Option.some.injEq] at hd
      subst hd
      rw [mass_lottery, sum_map_div']
      have : (procs.map (slotOf L dt nrm n)).sum = totalW L procs dt nrm n := rfl
      rw [this]
      grind

/-- **C01.2** The step cannot be performed (the code divides by zero) exactly when a jump can be drawn although
    every weight is zero. -/
theorem c01_lottery_none_iff (L : Nat) (procs : List Proc) (dt : Rat) (nrm : Proc → Rat) (n : Rat) :
    stepLottery L procs dt nrm n = none ↔ jumpProb n ≠ 0 ∧ totalW L procs dt nrm n = 0 := by
  unfold stepLottery
  rw [probVector_eq]
  by_cases h : jumpProb n = 0
  · simp [h]
  · by_cases hW : totalW L procs dt nrm n = 0
    · simp [h, hW]
    · simp [h, hW]

/-- **C01.2** With `dt ≥ 0`, non-negative strengths and (squared) norms, every probability is non-negative. -/
theorem c01_lottery_nonneg (L : Nat) (procs : List Proc) (dt : Rat) (nrm : Proc → Rat) (n : Rat)
    (hdt : 0 ≤ dt) (hg : ∀ p ∈ procs, 0 ≤ p.gamma) (hnrm : ∀ p ∈ procs, 0 ≤ nrm p) (hn : 0 ≤ n)
    (d : Dist Branch) (hd : stepLottery L procs dt nrm n = some d) : NonNeg d := by
  have hslot : ∀ p ∈ procs, 0 ≤ slotOf L dt nrm n p := by
    intro p hp
    unfold slotOf weightOf wOne wTwo
    have h1 := Rat.mul_nonneg (Rat.mul_nonneg hdt (hg p hp)) (hnrm p hp)
    have h2 := Rat.mul_nonneg (Rat.mul_nonneg hdt (hg p hp)) hn
    split
    · split
      · exact h1
      · split
        · exact h2
        · exact h1
    · exact Rat.le_refl
  have hW : 0 ≤ totalW L procs dt nrm n := sum_map_nonneg procs _ hslot
  unfold stepLottery at hd
  split at hd
  · cases hd; exact ⟨by grind, trivial⟩
  · rw [probVector_eq] at hd
    split at hd
    · cases hd
    · rename_i hW0
      simp only [Option.map_some, Option.some.injEq] at hd
      subst hd
      refine ⟨?_, nonNeg_jumpBranches _ (jumpProb_nonneg n) 0 _ ?_⟩
      · have := jumpProb_le_one n; grind
      · intro q hq
        rw [List.mem_map] at hq
        obtain ⟨p, hp, rfl⟩ := hq
        have hs := hslot p hp
        have hpos : 0 < totalW L procs dt nrm n := by grind
        rw [Rat.div_def]
        exact Rat.mul_nonneg hs (by
          have := Rat.inv_pos.mpr hpos
          grind)

/-- **C01.2** A process whose weight is zero (its operator annihilates the state, or its strength is zero) gets
    probability exactly zero, so `Generator.choice` never selects it. -/
theorem c01_zero_weight_never_chosen (L : Nat) (procs : List Proc) (dt : Rat) (nrm : Proc → Rat) (n : Rat)
    (pv : List Rat) (hpv : probVector L procs dt nrm n = some pv)
    (k : Nat) (hk : k < procs.length) (h0 : slotOf L dt nrm n procs[k] = 0) :
    pv[k]? = some 0 := by
  rw [probVector_eq] at hpv
  split at hpv
  · cases hpv
  · simp only [Option.some.injEq] at hpv
    subst hpv
    simp only [List.getElem?_map, List.getElem?_eq_getElem hk, Option.map_some, h0]
    congr 1
    grind

example : probVector 2 [exLow 1 1, exLow 0 1] 1 (denseNrm 2 ex10) (vecNormSq ex10) = some [0, 1] := by
  decide +kernel

/-! ### C01.3 — the exact one-step identity -/

/-- **C01.3** (exact, no approximation).  Let `n = ‖ψ̃‖²`, `a₀ = ⟨ψ̃|O|ψ̃⟩`, `a p = ⟨L_p ψ̃|O|L_p ψ̃⟩`, and let the value
    of the observable on the normalised branch states be `v₀ = a₀/n` (no jump) and `v k = a_k/‖L_k ψ̃‖²` (jump `k`;
    *arbitrary* on branches with `L_k ψ̃ = 0`, which is an explicit case, not `x/0 = 0`).  Then for every process
    list in any order the branch average is
        `E[O] = a₀ + ((1-n)/W) · Σ_k dt·γ_k·a_k`,
    i.e. the first-order Kraus map with the same `k` in the weight and in the operator. -/
theorem c01_lottery_expectation (L : Nat) (procs : List Proc) (dt : Rat) (nrm : Proc → Rat) (n : Rat)
    (a0 : Rat) (a : Proc → Rat) (v0 : Rat) (v : Nat → Rat)
    (hn0 : 0 ≤ n) (hn1 : n ≤ 1)
    (hP : ∀ p ∈ procs, p.pauli = true → p.sites.length = 2 → nrm p = n)
    (hv0 : n ≠ 0 → v0 = a0 / n) (ha0 : n = 0 → a0 = 0)
    (hv : ∀ k (h : k < procs.length), nrm procs[k] ≠ 0 → v k = a procs[k] / nrm procs[k])
    (ha : ∀ p ∈ procs, nrm p = 0 → a p = 0)
    (d : Dist Branch) (hd : stepLottery L procs dt nrm n = some d) :
    expect d (branchVal v0 v) =
      a0 + (1 - n) / totalW L procs dt nrm n * krausSum L procs dt a := by
  have hjp := jumpProb_of_unit n hn0 hn1
  unfold stepLottery at hd
  split at hd
  · rename_i hz
    cases hd
    have hn : n = 1 := by grind
    subst hn
    have : v0 = a0 := by have := hv0 (by grind); grind
    simp only [expect, branchVal, this]
    grind
  · rw [probVector_eq] at hd
    split at hd
    · cases hd
    · rename_i hW
      simp only [Option.map_some, Option.some.injEq] at hd
      subst hd
      rw [expect_lottery]
      rw [expect_jumpBranches (jumpProb n) v0 v (fun p => slotOf L dt nrm n p / totalW L procs dt nrm n)
        (fun p => a p / nrm p) procs 0]
      · have hterm : ∀ p ∈ procs,
            slotOf L dt nrm n p / totalW L procs dt nrm n * (a p / nrm p) =
              (if visited L p = true then dt * p.gamma * a p else 0) / totalW L procs dt nrm n := by
          intro p hp
          unfold slotOf
          by_cases hvis : visited L p = true
          · simp only [hvis, if_true]
            rw [weightOf_eq_of_visited L dt nrm n p hvis (hP p hp)]
            by_cases hz : nrm p = 0
            · rw [hz, ha p hp hz]; grind
            · grind
          · simp only [hvis]; grind
        rw [sum_map_congr procs _ _ hterm, sum_map_div']
        have hk : (procs.map (fun p => if visited L p = true then dt * p.gamma * a p else 0)).sum =
            krausSum L procs dt a := rfl
        rw [hk, hjp]
        simp only [branchVal]
        by_cases hnz : n = 0
        · rw [hnz, ha0 hnz]; grind
        · rw [hv0 hnz]; grind
      · intro j hj hne
        simp only [Nat.zero_add]
        apply hv j hj
        intro hz
        apply hne
        have hmem : procs[j] ∈ procs := List.getElem_mem hj
        unfold slotOf
        by_cases hvis : visited L procs[j] = true
        · simp only [hvis, if_true]
          rw [weightOf_eq_of_visited L dt nrm n procs[j] hvis (hP _ hmem), hz]
          grind
        · simp only [hvis]; grind

/-- **C01.3** for well-sited lists: `E[O] = a₀ + ((1-n)/W)·Σ_k dt·γ_k·a_k` with `W = Σ_k dt·γ_k·‖L_k ψ̃‖²`, both sums
    over the whole list. -/
theorem c01_lottery_expectation_wellsited (L : Nat) (procs : List Proc) (dt : Rat) (nrm : Proc → Rat) (n : Rat)
    (a0 : Rat) (a : Proc → Rat) (v0 : Rat) (v : Nat → Rat)
    (hn0 : 0 ≤ n) (hn1 : n ≤ 1)
    (hsite : ∀ p ∈ procs, visited L p = true)
    (hP : ∀ p ∈ procs, p.pauli = true → p.sites.length = 2 → nrm p = n)
    (hv0 : n ≠ 0 → v0 = a0 / n) (ha0 : n = 0 → a0 = 0)
    (hv : ∀ k (h : k < procs.length), nrm procs[k] ≠ 0 → v k = a procs[k] / nrm procs[k])
    (ha : ∀ p ∈ procs, nrm p = 0 → a p = 0)
    (d : Dist Branch) (hd : stepLottery L procs dt nrm n = some d) :
    expect d (branchVal v0 v) =
      a0 + (1 - n) / (procs.map (fun p => dt * p.gamma * nrm p)).sum *
        (procs.map (fun p => dt * p.gamma * a p)).sum := by
  rw [c01_lottery_expectation L procs dt nrm n a0 a v0 v hn0 hn1 hP hv0 ha0 hv ha d hd]
  have h1 : totalW L procs dt nrm n = (procs.map (fun p => dt * p.gamma * nrm p)).sum := by
    unfold totalW
    apply sum_map_congr
    intro p hp
    unfold slotOf
    rw [if_pos (hsite p hp)]
    exact weightOf_eq_of_visited L dt nrm n p (hsite p hp) (hP p hp)
  have h2 : krausSum L procs dt a = (procs.map (fun p => dt * p.gamma * a p)).sum := by
    unfold krausSum
    apply sum_map_congr
    intro p hp
    rw [if_pos (hsite p hp)]
  rw [h1, h2]

/-- non-vacuity: the D1 list on a state of squared norm `1/2`, unit branch norms, `a_k = k`-dependent values;
    the hypotheses of `c01_lottery_expectation` are met and the step exists -/
example : (stepLottery 2 exD1 1 (fun _ => 1/2) (1/2)).map (fun d => expect d (branchVal 1 (fun k => (k : Rat)))) =
    some (1/2 + (1 - 1/2) / (1/2) * ((1/10) * 0 + (2/10) * (1/2) + (7/10) * 1)) := by
  decide +kernel

/-- **C01.3, MCWF variant** (weights and jump operators from the *pre-step* state `ψ`, no-jump branch from
    `ψ' = exp(-i H_eff dt) ψ`): with `n' = ‖ψ'‖²`, `a₀ = ⟨ψ'|O|ψ'⟩`, `a p = ⟨L_p ψ|O|L_p ψ⟩`, `W = Σ γ_p ‖L_p ψ‖²` over the
    processes with positive strength, the branch average is `a₀ + ((1-n')/W)·Σ γ_p a_p` — the same lemma with
    other arguments (`dt` is inside `1-n'`). -/
theorem c01_mcwf_expectation (procs : List Proc) (nrm : Proc → Rat) (nNext : Rat)
    (a0 : Rat) (a : Proc → Rat) (v0 : Rat) (v : Nat → Rat)
    (hn0 : 0 ≤ nNext) (hn1 : nNext ≤ 1)
    (hW : mcwfEps ≤ (mcwfWeights nrm procs).sum)
    (hv0 : nNext ≠ 0 → v0 = a0 / nNext) (ha0 : nNext = 0 → a0 = 0)
    (hv : ∀ k (h : k < (mcwfOps procs).length), nrm (mcwfOps procs)[k] ≠ 0 →
      v k = a (mcwfOps procs)[k] / nrm (mcwfOps procs)[k])
    (ha : ∀ p ∈ procs, nrm p = 0 → a p = 0) :
    expect (mcwfLottery nNext nrm procs) (branchVal v0 v) =
      a0 + (1 - nNext) / (mcwfWeights nrm procs).sum * ((mcwfOps procs).map (fun p => p.gamma * a p)).sum := by
  have hjp := jumpProb_of_unit nNext hn0 hn1
  unfold mcwfLottery mcwfProbVector
  have hlt : ¬ (mcwfWeights nrm procs).sum < mcwfEps := by grind
  simp only [hlt, if_false]
  have hWpos : (mcwfWeights nrm procs).sum ≠ 0 := by
    have : (0 : Rat) < mcwfEps := by decide +kernel
    grind
  rw [expect_lottery]
  unfold mcwfWeights at *
  simp only [List.map_map, Function.comp_def]
  rw [expect_jumpBranches (jumpProb nNext) v0 v
    (fun p => p.gamma * nrm p / ((mcwfOps procs).map (fun p => p.gamma * nrm p)).sum)
    (fun p => a p / nrm p) (mcwfOps procs) 0]
  · have hterm : ∀ p ∈ mcwfOps procs,
        p.gamma * nrm p / ((mcwfOps procs).map (fun p => p.gamma * nrm p)).sum * (a p / nrm p) =
          (p.gamma * a p) / ((mcwfOps procs).map (fun p => p.gamma * nrm p)).sum := by
      intro p hp
      have hp' : p ∈ procs := (List.mem_filter.mp hp).1
      by_cases hz : nrm p = 0
      · rw [hz, ha p hp' hz]; grind
      · grind
    rw [sum_map_congr _ _ _ hterm, sum_map_div', hjp]
    simp only [branchVal]
    by_cases hnz : nNext = 0
    · rw [hnz, ha0 hnz]; grind
    · rw [hv0 hnz]; grind
  · intro j hj hne
    simp only [Nat.zero_add]
    apply hv j hj
    intro hz
    apply hne
    rw [hz]; grind

example : mcwfEps ≤ (mcwfWeights (fun _ => 1) [exX 0 (1/10), exLow 1 0, exXX 0 (7/10)]).sum := by decide +kernel

/-- MCWF drops processes of strength `≤ 0`; with non-negative strengths they would contribute nothing anyway. -/
theorem c01_mcwf_filter_harmless (procs : List Proc) (f : Proc → Rat) (hg : ∀ p ∈ procs, 0 ≤ p.gamma) :
    ((mcwfOps procs).map (fun p => p.gamma * f p)).sum = (procs.map (fun p => p.gamma * f p)).sum := by
  induction procs with
  | nil => rfl
  | cons p ps ih =>
    have ih' := ih (fun q hq => hg q (by simp [hq]))
    unfold mcwfOps at *
    by_cases hp : 0 < p.gamma
    · simp only [List.filter_cons, hp, decide_true, if_true, List.map_cons, List.sum_cons, ih']
    · have h0 : p.gamma = 0 := by have := hg p (by simp); grind
      rw [List.filter_cons, if_neg (by simpa using hp), ih']
      simp only [List.map_cons, List.sum_cons, h0]
      grind

/-! ### C01.4 — any order -/

/-- outcomes of the lottery as (probability, process) pairs -/
def outcomes (L : Nat) (procs : List Proc) (dt : Rat) (nrm : Proc → Rat) (n : Rat) : Option (List (Rat × Proc)) :=
  (probVector L procs dt nrm n).map (fun pv => pv.zip procs)

/-- **C01.4** Reordering the process list reorders the (probability, process) pairs in the same way and changes
    nothing else: the outcome distribution over *processes* does not depend on the order in which the user listed
    them. -/
theorem c01_lottery_perm (L : Nat) (procs procs' : List Proc) (hperm : procs.Perm procs')
    (dt : Rat) (nrm : Proc → Rat) (n : Rat) (o : List (Rat × Proc))
    (ho : outcomes L procs dt nrm n = some o) :
    ∃ o', outcomes L procs' dt nrm n = some o' ∧ o.Perm o' := by
  have hW : totalW L procs dt nrm n = totalW L procs' dt nrm n := sum_map_perm _ hperm
  unfold outcomes at *
  rw [probVector_eq] at ho ⊢
  rw [← hW]
  split at ho
  · cases ho
  · rename_i hne
    simp only [hne, if_false, Option.map_some, Option.some.injEq] at ho ⊢
    refine ⟨_, rfl, ?_⟩
    subst ho
    rw [zip_map_self, zip_map_self]
    exact hperm.map _

example : outcomes 2 [exXX 0 (7/10), exX 1 (2/10), exX 0 (1/10)] 1 (fun _ => 1) 1 =
    some [(7/10, exXX 0 (7/10)), (2/10, exX 1 (2/10)), (1/10, exX 0 (1/10))] := by decide +kernel

/-! ### C01.6 — the outcome tree -/

/-- one trajectory step on an abstract trajectory state `σ`: the lottery of the current state, each branch mapped
    to its successor state; the empty distribution stands for the run that raised -/
def trajStep {σ : Type} (L : Nat) (procs : List Proc) (dt : Rat) (nrm : σ → Proc → Rat) (n : σ → Rat)
    (next : σ → Branch → σ) (s : σ) : Dist σ :=
  match stepLottery L procs dt (nrm s) (n s) with
  | some d => mapD (next s) d
  | none => []

/-- **C01.6** If no reachable-or-not state makes the code divide by zero, the path probabilities of the outcome
    tree sum to one at every depth (any number of time steps). -/
theorem c01_tree_mass {σ : Type} (L : Nat) (procs : List Proc) (dt : Rat) (nrm : σ → Proc → Rat) (n : σ → Rat)
    (next : σ → Branch → σ)
    (hok : ∀ s, jumpProb (n s) = 0 ∨ totalW L procs dt (nrm s) (n s) ≠ 0) (m : Nat) (s : σ) :
    mass (tree (trajStep L procs dt nrm n next) m s) = 1 := by
  apply mass_tree
  intro s
  unfold trajStep
  cases hd : stepLottery L procs dt (nrm s) (n s) with
  | none =>
    have := (c01_lottery_none_iff L procs dt (nrm s) (n s)).mp hd
    rcases hok s with h | h
    · exact absurd h this.1
    · exact absurd this.2 h
  | some d =>
    simp only [mass_mapD]
    exact c01_lottery_mass L procs dt (nrm s) (n s) d hd

/-- **C01.6** every path probability of the tree is non-negative -/
theorem c01_tree_nonneg {σ : Type} (L : Nat) (procs : List Proc) (dt : Rat) (nrm : σ → Proc → Rat) (n : σ → Rat)
    (next : σ → Branch → σ) (hdt : 0 ≤ dt) (hg : ∀ p ∈ procs, 0 ≤ p.gamma)
    (hnrm : ∀ s, ∀ p ∈ procs, 0 ≤ nrm s p) (hn : ∀ s, 0 ≤ n s) (m : Nat) (s : σ) :
    NonNeg (tree (trajStep L procs dt nrm n next) m s) := by
  apply nonNeg_tree
  intro s
  unfold trajStep
  cases hd : stepLottery L procs dt (nrm s) (n s) with
  | none => trivial
  | some d => exact nonNeg_mapD _ _ (c01_lottery_nonneg L procs dt (nrm s) (n s) hdt hg (hnrm s) (hn s) d hd)

/-- **C01.6** tower property: the depth-`m+1` average is the one-step lottery average of the depth-`m` averages
    (this is what lets the one-step identity C01.3 be iterated along the time grid). -/
theorem c01_tree_tower {σ : Type} (L : Nat) (procs : List Proc) (dt : Rat) (nrm : σ → Proc → Rat) (n : σ → Rat)
    (next : σ → Branch → σ) (g : σ → Rat) (m : Nat) (s : σ) (d : Dist Branch)
    (hd : stepLottery L procs dt (nrm s) (n s) = some d) :
    expect (tree (trajStep L procs dt nrm n next) (m + 1) s) g =
      expect d (fun b => expect (tree (trajStep L procs dt nrm n next) m (next s b)) g) := by
  rw [expect_tree_succ]
  unfold trajStep
  simp only [hd, expect_mapD]

/-- non-vacuity of `c01_tree_mass`: Pauli noise (`‖L ψ‖² = ‖ψ‖²`), states = squared norm bookkeeping
    (`1/2` after a half step); the total weight is `1/2 ≠ 0` in every state -/
example : ∀ s : Unit, jumpProb ((fun _ => (1/2 : Rat)) s) = 0 ∨
    totalW 2 exD1 1 ((fun _ _ => (1/2 : Rat)) s) ((fun _ => (1/2 : Rat)) s) ≠ 0 := by
  intro _; right
  show totalW 2 exD1 1 (fun _ => (1/2 : Rat)) (1/2) ≠ 0
  decide +kernel

/-! ### capstone -/

/-- **c01_partial** — everything the jump lottery contributes to C01, in one statement: for every register length,
    every well-sited process list *in any order* with non-negative strengths, every `dt ≥ 0`, every post-dissipation
    state (through `n`, `nrm`, with unitary Pauli pairs) whose jump branch is usable, the code's step exists, is a
    probability distribution, assigns process `k` the probability `(1-n)·dt·γ_k·‖L_k ψ̃‖²/W`, and its branch average
    of any observable is the first-order Kraus form.  (The limit `dt → 0` of `c01_full` is not part of this.) -/
theorem c01_partial (L : Nat) (procs : List Proc) (dt : Rat) (nrm : Proc → Rat) (n : Rat)
    (a0 : Rat) (a : Proc → Rat) (v0 : Rat) (v : Nat → Rat)
    (hn0 : 0 ≤ n) (hn1 : n ≤ 1) (hdt : 0 ≤ dt)
    (hg : ∀ p ∈ procs, 0 ≤ p.gamma) (hnrm : ∀ p ∈ procs, 0 ≤ nrm p)
    (hsite : ∀ p ∈ procs, visited L p = true)
    (hP : ∀ p ∈ procs, p.pauli = true → p.sites.length = 2 → nrm p = n)
    (hW : (procs.map (fun p => dt * p.gamma * nrm p)).sum ≠ 0)
    (hv0 : n ≠ 0 → v0 = a0 / n) (ha0 : n = 0 → a0 = 0)
    (hv : ∀ k (h : k < procs.length), nrm procs[k] ≠ 0 → v k = a procs[k] / nrm procs[k])
    (ha : ∀ p ∈ procs, nrm p = 0 → a p = 0) :
    ∃ d, stepLottery L procs dt nrm n = some d ∧ mass d = 1 ∧ NonNeg d ∧
      (jumpProb n ≠ 0 → d = (n, Branch.noJump) ::
        jumpBranches (1 - n) 0
          (procs.map (fun p => dt * p.gamma * nrm p / (procs.map (fun p => dt * p.gamma * nrm p)).sum))) ∧
      expect d (branchVal v0 v) =
        a0 + (1 - n) / (procs.map (fun p => dt * p.gamma * nrm p)).sum *
          (procs.map (fun p => dt * p.gamma * a p)).sum := by
  have hslot : ∀ p ∈ procs, slotOf L dt nrm n p = dt * p.gamma * nrm p := by
    intro p hp
    unfold slotOf
    rw [if_pos (hsite p hp)]
    exact weightOf_eq_of_visited L dt nrm n p (hsite p hp) (hP p hp)
  have hWeq : totalW L procs dt nrm n = (procs.map (fun p => dt * p.gamma * nrm p)).sum :=
    sum_map_congr procs _ _ hslot
  have hsome : ∃ d, stepLottery L procs dt nrm n = some d := by
    cases h : stepLottery L procs dt nrm n with
    | some d => exact ⟨d, rfl⟩
    | none =>
      have := (c01_lottery_none_iff L procs dt nrm n).mp h
      rw [hWeq] at this
      exact absurd this.2 hW
  obtain ⟨d, hd⟩ := hsome
  refine ⟨d, hd, c01_lottery_mass L procs dt nrm n d hd,
    c01_lottery_nonneg L procs dt nrm n hdt hg hnrm hn0 d hd, ?_,
    c01_lottery_expectation_wellsited L procs dt nrm n a0 a v0 v hn0 hn1 hsite hP hv0 ha0 hv ha d hd⟩
  intro hjp
  unfold stepLottery at hd
  rw [if_neg hjp, probVector_eq, hWeq, if_neg hW] at hd
  simp only [Option.map_some, Option.some.injEq] at hd
  subst hd
  unfold lottery
  rw [jumpProb_of_unit n hn0 hn1]
  have : procs.map (fun p => slotOf L dt nrm n p / (procs.map (fun p => dt * p.gamma * nrm p)).sum) =
      procs.map (fun p => dt * p.gamma * nrm p / (procs.map (fun p => dt * p.gamma * nrm p)).sum) := by
    apply List.map_congr_left
    intro p hp
    rw [hslot p hp]
  rw [this]
  congr 2
  grind

end Yaqs.Lottery

/-!
# C01, extension — first-order consistency of the trajectory average with the Lindblad generator, as a theorem

The analytic step that `c01_full` above lists as "cited" — *the derivative at `dt = 0` of the one-step branch average is the
Lindbladian* — formalised over `Matrix n n ℂ` with Mathlib's matrix exponential (`NormedSpace.exp`) and `HasDerivAt` in
the real variable `t = dt`.  Definitions are in `Lemmas/Consistency.lean`:

* `unitaryStep H t = exp(t•(−i•H))` — the flow `local_dynamic_tdvp` approximates;
* `dissStep Ls t = Π_k exp(t•(−(γ_k/2)•L_k†L_k))` — `apply_dissipation`: one factor `expm(-0.5*dt*γ*L†L)` per process; the
  theorems hold for *every* list, hence for every order in which the code applies the factors, and no commutation is
  assumed (`dissStepK Ls t = exp(−(t/2)K)`, `K = Σ_k γ_k L_k†L_k`, is the single exponential; it has the same generator);
* `pureAverage Ls φ = φφ† + ((1−‖φ‖²)/c)·Σ_k γ_k (L_kφ)(L_kφ)†`, `c = Σ_k γ_k‖L_kφ‖²` — the branch average of
  `stochastic_process` on the post-dissipation vector `φ = ψ̃(t)`.  It *is* the closed form of `c01_lottery_expectation`
  above: there `W = Σ_k t·γ_k‖L_kφ‖² = t·c` and the jump term carries `t·γ_k`; the factor `t` cancels
  (`stepAverage_eq`, first conjunct of `c01_average_is_lottery_expectation`) and expectation values are
  `tr(O·E) = a₀ + ((1−n)/W)·Σ_k t·γ_k·a_k` (second conjunct).  The driver request `avg` evaluates exactly this matrix and is
  compared with the real code's branch average in the `consistency` cases of `harness/impl/C01.py`;
* `lind H Ls ρ` — the `lindbladian` of `Lemmas/MasterEq.lean` over ℂ, i.e. (`c01_lind_is_lindblad_rhs`) the right-hand side
  `lindbladOfProcs (matrixOps i ½ ·)` that `Props/C06.lean::lindblad_rhs_is_lindbladian` ties to `analog/lindblad.py`.

A *no-jump family* (`IsNoJumpFamily H Ls A`) is any propagator curve with `A 0 = 1` and `A'(0) = −iH − ½K`; order 1, the
single-exponential variant, the Strang step of order 2 and the MCWF propagator `exp(−i t H_eff)` are such families
(`c01_noJump_families`), so every theorem below applies to all of them.

The size of the one-step error is `O(t²)` (`c01_local_error_quadratic`, Taylor's theorem with remainder on the twice
continuously differentiable curves involved; `Lemmas/ConsistencyQuadratic.lean`).  What is still *not* a theorem is the
global statement of `c01_full`: the accumulation of `m` such local errors along the grid to `O(m·dt²) = O(T·dt)` for order
1 / MCWF and the extra order of the palindromic (Strang) composition for order 2 — the stability (Lady Windermere) argument
for the *nonlinear* trajectory-average map and the symmetric-method order argument remain cited and measured by the
Richardson oracles.
-/
namespace Yaqs.Consistency

open Matrix NormedSpace Yaqs.MasterEq

variable {n : Type} [Fintype n] [DecidableEq n]

/-- **C01.7a `c01_noJump_families`** (`analog_tjm_1`, `analog_tjm_2`, `mcwf`) The no-jump propagators of the three solvers
    all pass through `1` at `t = 0` with the same generator `−iH − ½ Σ_k γ_k L_k†L_k`:
    order 1 `D(t)·U(t)` with the per-process product `D`, the same with `D = exp(−(t/2)K)`, the Strang step
    `D(t/2)·U(t)·D(t/2)`, and `exp(−i t (H − (i/2)K))`.  No commutation between the factors is assumed. -/
theorem c01_noJump_families (H : Matrix n n ℂ) (Ls : List (Proc (Matrix n n ℂ))) :
    IsNoJumpFamily H Ls (fun t => dissStep Ls t * unitaryStep H t)
    ∧ IsNoJumpFamily H Ls (fun t => dissStepK Ls t * unitaryStep H t)
    ∧ IsNoJumpFamily H Ls (fun t => dissStep Ls (t / 2) * unitaryStep H t * dissStep Ls (t / 2))
    ∧ IsNoJumpFamily H Ls (fun t : ℝ => exp (t • ((-Complex.I) • (H - ((1 / 2 : ℂ) * Complex.I) • genK Ls)))) :=
  ⟨noJump_order1 H Ls, noJump_order1K H Ls, noJump_order2 H Ls, noJump_mcwf H Ls⟩

/-- **C01.7b `nojump_deriv`** (unitary step + dissipation sweep) For Hermitian `H`, every process list and every vector
    `ψ`: the un-normalised no-jump state `ψ̃(t)ψ̃(t)†`, `ψ̃(t) = A(t)ψ`, has derivative `−i[H,ρ] − ½{K,ρ}` at `t = 0`
    (`ρ = ψψ†`), for every no-jump family `A` — in particular for `ψ̃(t) = Π_k exp(−(t/2)γ_kL_k†L_k) · exp(−itH) ψ`. -/
theorem nojump_deriv {H : Matrix n n ℂ} {Ls : List (Proc (Matrix n n ℂ))} {A : ℝ → Matrix n n ℂ}
    (hA : IsNoJumpFamily H Ls A) (hH : Hᴴ = H) (ψ : n → ℂ) :
    HasDerivAt (fun t => vecMulVec (A t *ᵥ ψ) (star (A t *ᵥ ψ)))
      ((-Complex.I) • (H * vecMulVec ψ (star ψ) - vecMulVec ψ (star ψ) * H)
        - (1 / 2 : ℂ) • (genK Ls * vecMulVec ψ (star ψ) + vecMulVec ψ (star ψ) * genK Ls)) 0 := by
  have h := hasDerivAt_sigma_noJump hA hH (vecMulVec ψ (star ψ))
  have e : sigma A (vecMulVec ψ (star ψ)) = fun t => vecMulVec (A t *ᵥ ψ) (star (A t *ᵥ ψ)) := by
    funext t; exact sigma_pure A ψ t
  rwa [e] at h

/-- **C01.7c `norm_deriv`** (`calculate_stochastic_factor`) `n(t) = ‖ψ̃(t)‖²` has derivative `−⟨ψ|K|ψ⟩ = −Σ_k γ_k‖L_kψ‖²` at
    `0` (a real number, `rateSum`), so the jump probability is `1 − n(t) = t·Σ_k γ_k‖L_kψ‖² + o(t)`; second conjunct: the
    same sum is `⟨ψ|K|ψ⟩` and is the normaliser `c(0)` of the lottery weights. -/
theorem norm_deriv {H : Matrix n n ℂ} {Ls : List (Proc (Matrix n n ℂ))} {A : ℝ → Matrix n n ℂ}
    (hA : IsNoJumpFamily H Ls A) (hH : Hᴴ = H) (ψ : n → ℂ) :
    HasDerivAt (fun t => normSqVec (A t *ᵥ ψ)) (-(rateSum Ls ψ)) 0
    ∧ star ψ ⬝ᵥ (genK Ls *ᵥ ψ) = (rateSum Ls ψ : ℂ) := by
  refine ⟨hasDerivAt_normSqVec hA hH ψ, ?_⟩
  rw [← rate_sum_eq, ← traceK_pure, trace_mul_pure]

/-- **C01.7d `ratio_deriv`** (`stochastic_process`: jump probability over total weight) If `ψ` is a unit vector and
    `⟨ψ|K|ψ⟩ ≠ 0` then the factor `(1−n(t))/c(t)` in front of the jump branches vanishes at `0` and has derivative `1`
    there: to first order a jump of process `k` carries weight `t·γ_k‖L_kψ‖²`, with the *same* `γ_k` as in `K`.
    (For `⟨ψ|K|ψ⟩ = 0` see `c01_consistency_degenerate`.) -/
theorem ratio_deriv {H : Matrix n n ℂ} {Ls : List (Proc (Matrix n n ℂ))} {A : ℝ → Matrix n n ℂ}
    (hA : IsNoJumpFamily H Ls A) (hH : Hᴴ = H) (ψ : n → ℂ) (hψ : star ψ ⬝ᵥ ψ = 1)
    (hκ : star ψ ⬝ᵥ (genK Ls *ᵥ ψ) ≠ 0) :
    (1 - star (A 0 *ᵥ ψ) ⬝ᵥ (A 0 *ᵥ ψ))
        / (Ls.map fun p => rateC p.gamma * (star (p.op *ᵥ (A 0 *ᵥ ψ)) ⬝ᵥ (p.op *ᵥ (A 0 *ᵥ ψ)))).sum = 0
    ∧ HasDerivAt (fun t => (1 - star (A t *ᵥ ψ) ⬝ᵥ (A t *ᵥ ψ))
        / (Ls.map fun p => rateC p.gamma * (star (p.op *ᵥ (A t *ᵥ ψ)) ⬝ᵥ (p.op *ᵥ (A t *ᵥ ψ)))).sum) 1 0 := by
  have hρ1 : trace (vecMulVec ψ (star ψ)) = 1 := by rw [trace_pure, hψ]
  have hκ' : trace (genK Ls * vecMulVec ψ (star ψ)) ≠ 0 := by rwa [trace_mul_pure]
  obtain ⟨h0, hd⟩ := hasDerivAt_ratio hA hH _ hρ1 hκ'
  have e : ratio Ls A (vecMulVec ψ (star ψ)) = fun t => (1 - star (A t *ᵥ ψ) ⬝ᵥ (A t *ᵥ ψ))
      / (Ls.map fun p => rateC p.gamma * (star (p.op *ᵥ (A t *ᵥ ψ)) ⬝ᵥ (p.op *ᵥ (A t *ᵥ ψ)))).sum := by
    funext t; unfold ratio; rw [nrm_pure, cw_pure]
  rw [e] at hd
  have h0' := h0
  rw [e] at h0'
  exact ⟨h0', hd⟩

omit [DecidableEq n] in
/-- **C01.7e `c01_lind_is_lindblad_rhs`** (link to C06) For non-negative strengths the generator `lind H Ls ρ` of the
    theorems below is the right-hand side `lindbladOfProcs` the exact solver integrates (`Props/C06.lean`,
    `lindblad_rhs_is_lindbladian`: `-1j*(Hρ-ρH)`, `+= LρL†` per kept operator, `-= 0.5*{ΣL†L, ρ}`), instantiated over ℂ. -/
theorem c01_lind_is_lindblad_rhs (H : Matrix n n ℂ) (Ls : List (Proc (Matrix n n ℂ))) (ρ : Matrix n n ℂ)
    (hγ : ∀ p ∈ Ls, 0 ≤ p.gamma) :
    lind H Ls ρ = lindbladOfProcs (matrixOps Complex.I (1 / 2 : ℂ) rateC) H Ls ρ := by
  unfold lindbladOfProcs
  rw [lindbladRhs_matrix]
  unfold lind lindbladian jumpOps
  rw [sum_filter_eq_sum_ite]
  congr 2
  apply List.map_congr_left
  intro p hp
  by_cases h : 0 < p.gamma
  · simp [h]
  · have h0 : p.gamma = 0 := le_antisymm (not_lt.mp h) (hγ p hp)
    simp [h0, rateC]

/-- **C01.7 `c01_consistency`** (one whole step of the tensor-jump method, any integrator order, any process order)
    For Hermitian `H`, every list of jump operators with strengths `γ_k ≥ 0` (no bound on the list, no commutation, any
    order), every unit vector `ψ` and every no-jump family `A` (order 1: `A(t) = Π_k exp(−(t/2)γ_kL_k†L_k)·exp(−itH)`):
    the branch average of one step
        `E(t) = ψ̃ψ̃† + ((1−‖ψ̃‖²)/c(t))·Σ_k γ_k L_kψ̃ψ̃†L_k†`,  `ψ̃ = A(t)ψ`,  `c(t) = Σ_k γ_k‖L_kψ̃‖²`
    equals `ρ = ψψ†` at `t = 0` and has derivative
        `𝓛ρ = −i[H,ρ] + Σ_k γ_k (L_kρL_k† − ½{L_k†L_k, ρ})`
    there — the Lindbladian whose jump operators are the listed processes and whose rates are their strengths; and this
    `𝓛ρ` is the right-hand side of the exact solver (third conjunct).  Consequently `E(t) = ρ + t·𝓛ρ + o(t)`. -/
theorem c01_consistency {H : Matrix n n ℂ} {Ls : List (Proc (Matrix n n ℂ))} {A : ℝ → Matrix n n ℂ}
    (hA : IsNoJumpFamily H Ls A) (hH : Hᴴ = H) (hγ : ∀ p ∈ Ls, 0 ≤ p.gamma) (ψ : n → ℂ)
    (hψ : star ψ ⬝ᵥ ψ = 1) :
    pureAverage Ls (A 0 *ᵥ ψ) = vecMulVec ψ (star ψ)
    ∧ HasDerivAt (fun t => pureAverage Ls (A t *ᵥ ψ)) (lind H Ls (vecMulVec ψ (star ψ))) 0
    ∧ lind H Ls (vecMulVec ψ (star ψ))
        = lindbladOfProcs (matrixOps Complex.I (1 / 2 : ℂ) rateC) H Ls (vecMulVec ψ (star ψ)) := by
  obtain ⟨h0, hd⟩ := hasDerivAt_pureAverage hA hH hγ ψ hψ
  exact ⟨h0, hd, c01_lind_is_lindblad_rhs H Ls _ hγ⟩

/-- **C01.7 for the two TJM orders, spelled out**: the derivative at `0` of the one-step average is `𝓛ρ` for
    `analog_tjm_1` (`U` then `D(t)`) and for the Strang step `D(t/2)·U(t)·D(t/2)` of `analog_tjm_2`. -/
theorem c01_consistency_tjm (H : Matrix n n ℂ) (Ls : List (Proc (Matrix n n ℂ))) (hH : Hᴴ = H)
    (hγ : ∀ p ∈ Ls, 0 ≤ p.gamma) (ψ : n → ℂ) (hψ : star ψ ⬝ᵥ ψ = 1) :
    HasDerivAt (fun t => pureAverage Ls ((dissStep Ls t * unitaryStep H t) *ᵥ ψ))
      (lind H Ls (vecMulVec ψ (star ψ))) 0
    ∧ HasDerivAt (fun t => pureAverage Ls ((dissStep Ls (t / 2) * unitaryStep H t * dissStep Ls (t / 2)) *ᵥ ψ))
      (lind H Ls (vecMulVec ψ (star ψ))) 0 :=
  ⟨(c01_consistency (noJump_order1 H Ls) hH hγ ψ hψ).2.1, (c01_consistency (noJump_order2 H Ls) hH hγ ψ hψ).2.1⟩

/-- **C01.7f `c01_consistency_mcwf`** (`mcwf`: weights and jump operators from the *pre-step* state) The MCWF branch average
    `σ(t) + ((1−n(t))/⟨ψ|K|ψ⟩)·Σ_k γ_k L_kρL_k†` has the same derivative `𝓛ρ` at `0`, for every no-jump family (in
    particular `exp(−i t H_eff)`), every state `ρ` of trace one with `tr(Kρ) ≠ 0` (the code skips the jump when the
    normaliser is `< 1e-15`). -/
theorem c01_consistency_mcwf {H : Matrix n n ℂ} {Ls : List (Proc (Matrix n n ℂ))} {A : ℝ → Matrix n n ℂ}
    (hA : IsNoJumpFamily H Ls A) (hH : Hᴴ = H) (ρ : Matrix n n ℂ) (hρ : trace ρ = 1)
    (hκ : trace (genK Ls * ρ) ≠ 0) :
    avgStateMcwf Ls A ρ 0 = ρ ∧ HasDerivAt (avgStateMcwf Ls A ρ) (lind H Ls ρ) 0 :=
  hasDerivAt_avgStateMcwf hA hH ρ hρ hκ

/-- **C01.7g `c01_consistency_mixed`** the density-matrix form: the same statement for every (mixed) state `ρ` of trace
    one with non-zero jump rate, `E(t) = σ(t) + ((1−tr σ(t))/tr(Kσ(t)))·Σ_k γ_k L_kσ(t)L_k†`, `σ(t) = A(t)ρA(t)†`. -/
theorem c01_consistency_mixed {H : Matrix n n ℂ} {Ls : List (Proc (Matrix n n ℂ))} {A : ℝ → Matrix n n ℂ}
    (hA : IsNoJumpFamily H Ls A) (hH : Hᴴ = H) (ρ : Matrix n n ℂ) (hρ : trace ρ = 1)
    (hκ : trace (genK Ls * ρ) ≠ 0) :
    avgState Ls A ρ 0 = ρ ∧ HasDerivAt (avgState Ls A ρ) (lind H Ls ρ) 0 :=
  hasDerivAt_avgState hA hH ρ hρ hκ

/-- **C01.7h `c01_consistency_degenerate`** (`⟨ψ|K|ψ⟩ = 0`: every process with `γ_k > 0` annihilates `ψ`) Then the jump term
    of the Lindbladian vanishes on `ρ`, all lottery weights `t·γ_k‖L_kψ‖²` are zero at `t = 0` (the code's jump
    probability `1 − n(t)` is `o(t)`), every entry of the jump part of the average is bounded by the jump probability
    (fourth conjunct, all `φ`), and the derivative of the one-step average at `0` is still `𝓛ρ = −i[H,ρ] − ½{K,ρ}`. -/
theorem c01_consistency_degenerate {H : Matrix n n ℂ} {Ls : List (Proc (Matrix n n ℂ))} {A : ℝ → Matrix n n ℂ}
    (hA : IsNoJumpFamily H Ls A) (hH : Hᴴ = H) (hγ : ∀ p ∈ Ls, 0 ≤ p.gamma) (ψ : n → ℂ)
    (hψ : star ψ ⬝ᵥ ψ = 1) (hκ : star ψ ⬝ᵥ (genK Ls *ᵥ ψ) = 0) :
    jumpSum Ls (vecMulVec ψ (star ψ)) = 0
    ∧ pureAverage Ls (A 0 *ᵥ ψ) = vecMulVec ψ (star ψ)
    ∧ HasDerivAt (fun t => pureAverage Ls (A t *ᵥ ψ)) (lind H Ls (vecMulVec ψ (star ψ))) 0
    ∧ ∀ (φ : n → ℂ) (i j : n), ‖(pureAverage Ls φ - vecMulVec φ (star φ)) i j‖ ≤ ‖1 - star φ ⬝ᵥ φ‖ := by
  obtain ⟨h1, h2, h3⟩ := hasDerivAt_avgState_degenerate hA hH hγ ψ hψ hκ
  exact ⟨h1, h2, h3, fun φ i j => jump_term_entry_le Ls hγ φ i j⟩

/-- **C01.7i `c01_first_order_error`** (one-step error against the exact solution) `lindFlow H Ls t = exp(t𝓛)` (Mathlib's
    exponential of the bounded operator `𝓛`) solves the master equation `d/dt ρ(t) = 𝓛ρ(t)`, `ρ(0) = ρ` (first two
    conjuncts), and the difference between the one-step trajectory average and the exact solution vanishes at `0`
    together with its derivative — every entry of `E(t) − exp(t𝓛)ρ` is `o(t)`: the tensor-jump step is a first-order
    consistent one-step method for the Lindblad equation. -/
theorem c01_first_order_error {H : Matrix n n ℂ} {Ls : List (Proc (Matrix n n ℂ))} {A : ℝ → Matrix n n ℂ}
    (hA : IsNoJumpFamily H Ls A) (hH : Hᴴ = H) (hγ : ∀ p ∈ Ls, 0 ≤ p.gamma) (ψ : n → ℂ)
    (hψ : star ψ ⬝ᵥ ψ = 1) :
    lindFlow H Ls 0 (vecMulVec ψ (star ψ)) = vecMulVec ψ (star ψ)
    ∧ (∀ t, HasDerivAt (fun s => lindFlow H Ls s (vecMulVec ψ (star ψ)))
        (lind H Ls (lindFlow H Ls t (vecMulVec ψ (star ψ)))) t)
    ∧ HasDerivAt (fun t => pureAverage Ls (A t *ᵥ ψ) - lindFlow H Ls t (vecMulVec ψ (star ψ))) 0 0
    ∧ ∀ i j, (fun t => (pureAverage Ls (A t *ᵥ ψ) - lindFlow H Ls t (vecMulVec ψ (star ψ))) i j)
        =o[nhds 0] fun t : ℝ => t := by
  obtain ⟨h0, hd⟩ := hasDerivAt_pureAverage hA hH hγ ψ hψ
  have hf := lindFlow_solves H Ls (vecMulVec ψ (star ψ)) 0
  rw [lindFlow_zero] at hf
  have hsub := hasDerivAt_subM hd hf
  rw [sub_self] at hsub
  refine ⟨lindFlow_zero H Ls _, fun t => lindFlow_solves H Ls _ t, hsub, fun i j => ?_⟩
  have he := hasDerivAt_entry hsub i j
  rw [hasDerivAt_iff_isLittleO_nhds_zero] at he
  simpa [h0, lindFlow_zero] using he

omit [DecidableEq n] in
/-- **C01.7j `c01_average_is_lottery_expectation`** (link to C01.3) The matrix `pureAverage Ls φ` differentiated above is
    the closed form of `c01_lottery_expectation` with the time step inside the weights (`W = Σ_k t·γ_k‖L_kφ‖²`, jump term
    `Σ_k t·γ_k (L_kφ)(L_kφ)†`): the step cancels for `t ≠ 0`, and for every observable `O`
    `tr(O·E) = a₀ + ((1−n)/W)·Σ_k t·γ_k·a_k` with `a₀ = ⟨φ|O|φ⟩`, `a_k = ⟨L_kφ|O|L_kφ⟩`, `n = ‖φ‖²`. -/
theorem c01_average_is_lottery_expectation (Ls : List (Proc (Matrix n n ℂ))) (t : ℝ) (φ : n → ℂ) (O : Matrix n n ℂ) :
    (t ≠ 0 → stepAverage Ls t φ = pureAverage Ls φ)
    ∧ trace (O * stepAverage Ls t φ)
      = star φ ⬝ᵥ (O *ᵥ φ)
        + (1 - star φ ⬝ᵥ φ) / (Ls.map fun p => (t : ℂ) * rateC p.gamma * (star (p.op *ᵥ φ) ⬝ᵥ (p.op *ᵥ φ))).sum
          * (Ls.map fun p => (t : ℂ) * rateC p.gamma * (star (p.op *ᵥ φ) ⬝ᵥ (O *ᵥ (p.op *ᵥ φ)))).sum :=
  ⟨fun ht => stepAverage_eq Ls t ht φ, trace_mul_stepAverage Ls t φ O⟩

/-! ### non-vacuity: one qubit, `H = X`, processes `lowering` (γ = 1/10) and `pauli_x` (γ = 1/5), `ψ = |1⟩` -/

def cxX : Matrix (Fin 2) (Fin 2) ℂ := !![0, 1; 1, 0]
def cxLow : Matrix (Fin 2) (Fin 2) ℂ := !![0, 1; 0, 0]
def cxProcs : List (Proc (Matrix (Fin 2) (Fin 2) ℂ)) := [⟨1 / 10, cxLow⟩, ⟨1 / 5, cxX⟩]
def cxPsi : Fin 2 → ℂ := ![0, 1]

/-- the hypotheses of `c01_consistency`, `ratio_deriv`, `c01_first_order_error` are met -/
example : cxXᴴ = cxX ∧ (∀ p ∈ cxProcs, 0 ≤ p.gamma) ∧ star cxPsi ⬝ᵥ cxPsi = 1
    ∧ star cxPsi ⬝ᵥ (genK cxProcs *ᵥ cxPsi) ≠ 0 := by
  refine ⟨?_, ?_, ?_, ?_⟩
  · ext i j; fin_cases i <;> fin_cases j <;> simp [cxX, conjTranspose_apply]
  · intro p hp
    simp only [cxProcs, List.mem_cons, List.not_mem_nil, or_false] at hp
    rcases hp with rfl | rfl <;> norm_num
  · simp [cxPsi, dotProduct, Fin.sum_univ_two]
  · have : star cxPsi ⬝ᵥ (genK cxProcs *ᵥ cxPsi) = (3 / 10 : ℂ) := by
      simp [genK, gammaSum, cxProcs, cxPsi, cxLow, cxX, rateC, dotProduct, Matrix.mulVec, Fin.sum_univ_two,
        Matrix.mul_apply, conjTranspose_apply, Matrix.add_apply, Matrix.smul_apply]
      norm_num
    rw [this]; norm_num

/-- the hypotheses of `c01_consistency_degenerate` are met: `lowering` alone on `ψ = |0⟩` (nothing to lose) -/
example : star (![1, 0] : Fin 2 → ℂ) ⬝ᵥ ![1, 0] = 1
    ∧ star (![1, 0] : Fin 2 → ℂ) ⬝ᵥ (genK [(⟨1 / 10, cxLow⟩ : Proc (Matrix (Fin 2) (Fin 2) ℂ))] *ᵥ ![1, 0]) = 0 := by
  constructor
  · simp [dotProduct, Fin.sum_univ_two]
  · simp [genK, gammaSum, cxLow, rateC, dotProduct, Matrix.mulVec, Fin.sum_univ_two, Matrix.mul_apply,
      conjTranspose_apply, Matrix.smul_apply]

/-- **C01.8a `c01_smooth_families`** the four no-jump propagators of `c01_noJump_families` are twice continuously
    differentiable in `t` (products of matrix exponentials; `SmoothFamily A := ContDiff ℝ 2 A`). -/
theorem c01_smooth_families (H : Matrix n n ℂ) (Ls : List (Proc (Matrix n n ℂ))) :
    SmoothFamily (fun t => dissStep Ls t * unitaryStep H t)
    ∧ SmoothFamily (fun t => dissStepK Ls t * unitaryStep H t)
    ∧ SmoothFamily (fun t => dissStep Ls (t / 2) * unitaryStep H t * dissStep Ls (t / 2))
    ∧ SmoothFamily (fun t : ℝ => exp (t • ((-Complex.I) • (H - ((1 / 2 : ℂ) * Complex.I) • genK Ls)))) :=
  ⟨smooth_order1 H Ls, smooth_order1K H Ls, smooth_order2 H Ls, smooth_mcwf H Ls⟩

/-- **C01.8 `c01_local_error_quadratic`** ("an error that shrinks quadratically with the time step", one step) For Hermitian
    `H`, strengths `γ_k ≥ 0`, any process list in any order, every unit vector `ψ` (zero or non-zero jump rate) and every
    twice continuously differentiable no-jump family `A` — order 1, order 2 and MCWF propagators included
    (`c01_noJump_families`, `c01_smooth_families`): there are `C` and `δ > 0` such that for all `0 ≤ t ≤ δ` every entry of
        `E(t) − exp(t𝓛)ρ`
    (one-step trajectory average minus the exact Lindblad solution) is bounded by `C·t²`. -/
theorem c01_local_error_quadratic {H : Matrix n n ℂ} {Ls : List (Proc (Matrix n n ℂ))} {A : ℝ → Matrix n n ℂ}
    (hA : IsNoJumpFamily H Ls A) (hS : SmoothFamily A) (hH : Hᴴ = H) (hγ : ∀ p ∈ Ls, 0 ≤ p.gamma) (ψ : n → ℂ)
    (hψ : star ψ ⬝ᵥ ψ = 1) :
    ∃ C δ : ℝ, 0 < δ ∧ ∀ t, 0 ≤ t → t ≤ δ → ∀ i j,
      ‖(pureAverage Ls (A t *ᵥ ψ) - lindFlow H Ls t (vecMulVec ψ (star ψ))) i j‖ ≤ C * t ^ 2 :=
  quadratic_error_pure hA hS hH hγ ψ hψ

/-- **C01.8 for the solvers, spelled out**: quadratic one-step error of `analog_tjm_1` (`U`, `D(t)`, lottery) and of the
    Strang step `D(t/2)·U(t)·D(t/2)` with one lottery. -/
theorem c01_local_error_quadratic_tjm (H : Matrix n n ℂ) (Ls : List (Proc (Matrix n n ℂ))) (hH : Hᴴ = H)
    (hγ : ∀ p ∈ Ls, 0 ≤ p.gamma) (ψ : n → ℂ) (hψ : star ψ ⬝ᵥ ψ = 1) :
    (∃ C δ : ℝ, 0 < δ ∧ ∀ t, 0 ≤ t → t ≤ δ → ∀ i j,
      ‖(pureAverage Ls ((dissStep Ls t * unitaryStep H t) *ᵥ ψ) - lindFlow H Ls t (vecMulVec ψ (star ψ))) i j‖
        ≤ C * t ^ 2)
    ∧ ∃ C δ : ℝ, 0 < δ ∧ ∀ t, 0 ≤ t → t ≤ δ → ∀ i j,
      ‖(pureAverage Ls ((dissStep Ls (t / 2) * unitaryStep H t * dissStep Ls (t / 2)) *ᵥ ψ)
          - lindFlow H Ls t (vecMulVec ψ (star ψ))) i j‖ ≤ C * t ^ 2 :=
  ⟨quadratic_error_pure (noJump_order1 H Ls) (smooth_order1 H Ls) hH hγ ψ hψ,
   quadratic_error_pure (noJump_order2 H Ls) (smooth_order2 H Ls) hH hγ ψ hψ⟩

/-- **C01.8b `c01_local_error_quadratic_mcwf`** the same for the MCWF average (weights from the pre-step state), any state of
    trace one with non-zero jump rate; and **C01.8c** for the density-matrix form of the TJM average. -/
theorem c01_local_error_quadratic_mcwf {H : Matrix n n ℂ} {Ls : List (Proc (Matrix n n ℂ))} {A : ℝ → Matrix n n ℂ}
    (hA : IsNoJumpFamily H Ls A) (hS : SmoothFamily A) (hH : Hᴴ = H) (ρ : Matrix n n ℂ) (hρ : trace ρ = 1)
    (hκ : trace (genK Ls * ρ) ≠ 0) :
    (∃ C δ : ℝ, 0 < δ ∧ ∀ t, 0 ≤ t → t ≤ δ → ∀ i j,
      ‖(avgStateMcwf Ls A ρ t - lindFlow H Ls t ρ) i j‖ ≤ C * t ^ 2)
    ∧ ∃ C δ : ℝ, 0 < δ ∧ ∀ t, 0 ≤ t → t ≤ δ → ∀ i j,
      ‖(avgState Ls A ρ t - lindFlow H Ls t ρ) i j‖ ≤ C * t ^ 2 :=
  ⟨quadratic_error_mcwf hA hS hH ρ hρ hκ, quadratic_error_avgState hA hS hH ρ hρ hκ⟩

end Yaqs.Consistency

/-! ## the executable pieces the lottery tie runs on the dense vector (`noJumpTaken`, `applyProc`, `denseNrm`) -/
namespace Yaqs.Lottery

/-- a dense squared norm is non-negative -/
theorem vecNormSq_nonneg (v : Vec) : 0 ≤ vecNormSq v := by
  unfold vecNormSq
  induction v with
  | nil => simp
  | cons a t ih =>
    simp only [List.map_cons, List.sum_cons]
    have : 0 ≤ CR.normSq a := by
      unfold CR.normSq
      exact Rat.add_nonneg (mul_self_nonneg _) (mul_self_nonneg _)
    exact Rat.add_nonneg this ih

/-- **C01.2b (the jump decision)** `stochastic_process` keeps the no-jump branch exactly when the uniform draw is at or above
    `dp = 1 − ⟨ψ̃|ψ̃⟩`; for a draw in `[0,1)` a jump is therefore taken exactly when the draw lies below the clamped jump
    probability `jumpProb n` that `lottery` uses — the boundary draw `r = dp` does not jump, and `dp ≤ 0` never jumps -/
theorem no_jump_rule (r n : Rat) (h0 : 0 ≤ r) (h1 : r < 1) :
    (noJumpTaken r (stochasticFactor n) = true ↔ stochasticFactor n ≤ r) ∧
    (noJumpTaken r (stochasticFactor n) = false ↔ r < jumpProb n) := by
  unfold noJumpTaken jumpProb
  constructor
  · simp
  · rw [decide_eq_false_iff_not, not_le]
    constructor
    · intro h
      have : r < max 0 (stochasticFactor n) := lt_of_lt_of_le h (le_max_right _ _)
      exact lt_min h1 this
    · intro h
      have h2 : r < max 0 (stochasticFactor n) := lt_of_lt_of_le h (min_le_right _ _)
      rcases lt_max_iff.mp h2 with h3 | h3
      · exact absurd h0 (not_le.mpr h3)
      · exact h3

/-- **C01.1c (the lottery the tie evaluates)** the driver computes the weights from the dense vector: `denseNrm L v p` is the
    squared norm of `applyProc L p v` (the one-site matrix on its site, the two factors of a long-range Pauli pair on their
    own sites in the order of `sites`, the 4×4 matrix on an adjacent pair; `0` where the real code would raise).  It is
    non-negative, so the hypotheses of `c01_lottery_nonneg` are met by what the driver runs, and the probability vector it
    prints is `c01_probVector_aligned` at `nrm := denseNrm L v` -/
theorem dense_lottery_link (L : Nat) (v : Vec) (p : Proc) :
    0 ≤ denseNrm L v p ∧
    (∀ w, applyProc L p v = some w → denseNrm L v p = vecNormSq w) ∧
    (applyProc L p v = none → denseNrm L v p = 0) := by
  refine ⟨?_, ?_, ?_⟩
  · unfold denseNrm
    split
    · exact vecNormSq_nonneg _
    · exact Rat.le_refl
  · intro w h; unfold denseNrm; rw [h]
  · intro h; unfold denseNrm; rw [h]

/-- where `applyProc` refuses (the real code raises): a non-Pauli process on two non-adjacent sites, a missing payload, or a
    site list that is not of length one or two -/
theorem applyProc_long_range_nonpauli (L : Nat) (p : Proc) (v : Vec) (i j : Nat) (hs : p.sites = [i, j])
    (hp : p.pauli = false) (hl : isLongrange p = true) : applyProc L p v = none := by
  unfold applyProc
  rw [hs]
  simp [hp, hl]

end Yaqs.Lottery

/-!
## Extension — the Pauli-pair shortcut weight is the true weight (hypothesis `hP` of C01.3 discharged at the dense level)

`create_probability_distribution` (the `is_pauli` branch of the two-site loop) writes `dt·γ·state.norm(site)` for a Pauli pair
instead of computing `‖L_p ψ̃‖²`.  `c01_lottery_expectation` carries this as the hypothesis `hP : nrm p = n`.  Below it is a
theorem for what the driver runs (`nrm := denseNrm L ψ`, `n := vecNormSq ψ`): the Pauli matrices of the noise library and their
Kronecker products are unitary (C01.9a), a unitary one-site / adjacent two-site operator keeps the dense squared norm in the list
model of `Model/Lottery.lean` for every register length (C01.9b, proved in the list model itself — block regrouping of the sum
over dense positions, `Lemmas/PauliNorm.lean` — not through the Matrix bridge), hence `denseNrm L ψ p = vecNormSq ψ` for every
Pauli pair as `NoiseModel.__init__` fills it (C01.9c), and C01.3 holds without `hP` (C01.9d).  C01.9e shows that the hypothesis
is needed: a non-unitary pair labelled Pauli gets a wrong weight.
-/
namespace Yaqs.Lottery
open Yaqs Yaqs.Dist

/-- **C01.9a `pauli_matrix_unitary`** (`NoiseLibrary.pauli_x/y/z`, `PAULI_MAP`; `np.kron(PAULI_MAP[a], PAULI_MAP[b])` of an adjacent
    `crosstalk_ab`) The three Pauli matrices satisfy `mᴴ m = 1`, and so do all nine Kronecker products an adjacent crosstalk
    process ships as its `matrix`. -/
theorem pauli_matrix_unitary :
    (∀ m ∈ pauliMats, IsUnitary 2 m) ∧ (∀ a ∈ pauliMats, ∀ b ∈ pauliMats, IsUnitary 4 (kron2 a b)) := by
  decide +kernel

/-- the matrices of this file's example processes are the library ones; `lowering` is not unitary -/
example : pX = mX ∧ kron2 pX pX = mXX ∧ ¬ IsUnitary 2 mLow := by decide +kernel

/-- **C01.9b `apply1_unitary_preserves_norm`** (`oe.contract("ab, bcd->acd", op, tensors[s])` in the dense list model) For every
    register length `L`, every site `s < L`, every 2×2 matrix with `mᴴ m = 1` and every dense vector of length `2^L`:
    `‖(1 ⊗ m_s ⊗ 1) v‖² = ‖v‖²`. -/
theorem apply1_unitary_preserves_norm (L s : Nat) (m : Mat) (v : Vec) (hm : IsUnitary 2 m) (hs : s < L)
    (hv : v.length = 2 ^ L) : vecNormSq (apply1 L s m v) = vecNormSq v :=
  apply1_norm L s m v hm hs hv

/-- **C01.9b `apply2_unitary_preserves_norm`** (merged pair `(i, i+1)`, `oe.contract("ab, bcd->acd", jump_op, merged)`) The same for a
    4×4 matrix with `mᴴ m = 1` on two adjacent sites. -/
theorem apply2_unitary_preserves_norm (L i : Nat) (m : Mat) (v : Vec) (hm : IsUnitary 4 m) (hi : i + 1 < L)
    (hv : v.length = 2 ^ L) : vecNormSq (apply2 L i (i + 1) m v) = vecNormSq v :=
  apply2_norm L i m v hm hi hv

/-- an entangled, unnormalised 3-site vector with complex entries -/
def exPsi3 : Vec := [⟨1, 2⟩, ⟨0, 1⟩, ⟨3, 0⟩, ⟨1, 1⟩, ⟨0, 0⟩, ⟨-2, 1⟩, ⟨1/2, 0⟩, ⟨0, -1⟩]

/-- non-vacuity of C01.9b: hypotheses met on 3 sites, and the operators really change the vector -/
example : IsUnitary 2 pY ∧ IsUnitary 4 (kron2 pZ pY) ∧ exPsi3.length = 2 ^ 3 ∧
    apply1 3 1 pY exPsi3 ≠ exPsi3 ∧ apply2 3 1 2 (kron2 pZ pY) exPsi3 ≠ exPsi3 ∧
    vecNormSq (apply1 3 1 pY exPsi3) = 93 / 4 ∧ vecNormSq (apply2 3 1 2 (kron2 pZ pY) exPsi3) = 93 / 4 ∧
    vecNormSq exPsi3 = 93 / 4 := by decide +kernel

/-- **C01.9c `pauli_pair_weight_is_norm`** (`create_probability_distribution`, `if is_pauli(process): dp_m = dt * gamma * state.norm(site)`)
    For every register length, every dense vector `ψ` of length `2^L` and every two-site process flagged Pauli whose operator is
    unitary (`UnitaryPair`: 4×4 unitary `matrix` on `(i, i+1)`, or unitary `factors` on two non-adjacent sites in either order):
    `‖L_p ψ‖² = ‖ψ‖²` — the hypothesis `hP` of `c01_lottery_expectation` with `nrm := denseNrm L ψ`, `n := vecNormSq ψ`; so the
    weight the code writes, `wTwo`, is `dt·γ·‖L_p ψ‖²`.  Second part: every Pauli pair of the noise library is such a process
    (adjacent `crosstalk_ab` with `matrix = kron(a, b)`; long-range `crosstalk_ab` with `factors = (a, b)`). -/
theorem pauli_pair_weight_is_norm (L : Nat) (ψ : Vec) (hψ : ψ.length = 2 ^ L) :
    (∀ p : Proc, p.pauli = true → UnitaryPair L p →
      denseNrm L ψ p = vecNormSq ψ ∧
      ∀ dt : Rat, wTwo dt (denseNrm L ψ) (vecNormSq ψ) p = dt * p.gamma * denseNrm L ψ p) ∧
    (∀ a ∈ pauliMats, ∀ b ∈ pauliMats, ∀ (i j : Nat) (γ : Rat) (fl : Bool),
      (i + 1 < L → UnitaryPair L ⟨[i, i + 1], γ, fl, .mat (kron2 a b)⟩) ∧
      (i < L → j < L → (i + 1 < j ∨ j + 1 < i) → UnitaryPair L ⟨[i, j], γ, fl, .factors a b⟩)) := by
  refine ⟨fun p hp hu => ?_, fun a ha b hb i j γ fl => ⟨fun hi => ?_, fun hi hj hij => ?_⟩⟩
  · have h := unitaryPair_norm L ψ p hψ hp hu
    refine ⟨h, fun dt => ?_⟩
    unfold wTwo
    rw [if_pos hp, h]
  · exact ⟨rfl, hi, pauli_matrix_unitary.2 a ha b hb⟩
  · refine ⟨hi, hj, ?_, pauli_matrix_unitary.1 a ha, pauli_matrix_unitary.1 b hb⟩
    unfold isLongrange
    simp only [Bool.or_eq_true, decide_eq_true_eq]
    exact hij

/-- non-vacuity of C01.9c: an adjacent `crosstalk_zy`, a long-range `crosstalk_xy` in both site orders -/
example : UnitaryPair 3 ⟨[1, 2], 1/5, true, .mat (kron2 pZ pY)⟩ ∧ UnitaryPair 3 ⟨[0, 2], 1/5, true, .factors pX pY⟩ ∧
    UnitaryPair 3 ⟨[2, 0], 1/5, true, .factors pX pY⟩ ∧
    denseNrm 3 exPsi3 ⟨[2, 0], 1/5, true, .factors pX pY⟩ = vecNormSq exPsi3 := by decide +kernel

/-- **C01.9d `c01_lottery_expectation_dense`** C01.3 for well-sited lists with `hP` discharged: on the dense vector `ψ = ψ̃` the driver
    is given (`‖ψ‖² ≤ 1`), with the weights `denseNrm L ψ` it computes, and every Pauli pair of the list a `UnitaryPair`, the
    branch average is `a₀ + ((1-‖ψ‖²)/W)·Σ_k dt·γ_k·a_k`, `W = Σ_k dt·γ_k·‖L_k ψ‖²`.  Also gone: `0 ≤ n` (`vecNormSq_nonneg`).
    What is left as hypothesis: the branch values `hv0`/`hv` (→ `Props/C14.lean` `jump_branch_value`, `lottery_jump_dense`) and
    `ha0`/`ha` (`a = ⟨φ|O|φ⟩` vanishes with `φ`); non-negativity of the weights is `dense_lottery_link`. -/
theorem c01_lottery_expectation_dense (L : Nat) (procs : List Proc) (dt : Rat) (ψ : Vec)
    (a0 : Rat) (a : Proc → Rat) (v0 : Rat) (v : Nat → Rat)
    (hψ : ψ.length = 2 ^ L) (hn1 : vecNormSq ψ ≤ 1)
    (hsite : ∀ p ∈ procs, visited L p = true)
    (hU : ∀ p ∈ procs, p.pauli = true → p.sites.length = 2 → UnitaryPair L p)
    (hv0 : vecNormSq ψ ≠ 0 → v0 = a0 / vecNormSq ψ) (ha0 : vecNormSq ψ = 0 → a0 = 0)
    (hv : ∀ k (h : k < procs.length), denseNrm L ψ procs[k] ≠ 0 → v k = a procs[k] / denseNrm L ψ procs[k])
    (ha : ∀ p ∈ procs, denseNrm L ψ p = 0 → a p = 0)
    (d : Dist Branch) (hd : stepLottery L procs dt (denseNrm L ψ) (vecNormSq ψ) = some d) :
    expect d (branchVal v0 v) =
      a0 + (1 - vecNormSq ψ) / (procs.map (fun p => dt * p.gamma * denseNrm L ψ p)).sum *
        (procs.map (fun p => dt * p.gamma * a p)).sum :=
  c01_lottery_expectation_wellsited L procs dt (denseNrm L ψ) (vecNormSq ψ) a0 a v0 v (vecNormSq_nonneg ψ) hn1 hsite
    (fun p hp hpa h2 => ((pauli_pair_weight_is_norm L ψ hψ).1 p hpa (hU p hp hpa h2)).1) hv0 ha0 hv ha d hd

/-- `exPsi3 / 5`: squared norm `93/100 ≤ 1` -/
def exPsi3s : Vec := exPsi3.map (CR.smul (1/5))

/-- a mixed list on 3 sites, not in sweep order: long-range `crosstalk_xy`, `lowering`, adjacent `crosstalk_zy`, `pauli_x` -/
def exMixed : List Proc :=
  [⟨[0, 2], 7/10, true, .factors pX pY⟩, exLow 1 (1/10), ⟨[1, 2], 1/5, true, .mat (kron2 pZ pY)⟩, exX 2 (3/10)]

/-- non-vacuity of C01.9d: the structural hypotheses hold and the step exists -/
example : exPsi3s.length = 2 ^ 3 ∧ vecNormSq exPsi3s ≤ 1 ∧ (∀ p ∈ exMixed, visited 3 p = true) ∧
    (∀ p ∈ exMixed, p.pauli = true → p.sites.length = 2 → UnitaryPair 3 p) ∧
    (stepLottery 3 exMixed (1/10) (denseNrm 3 exPsi3s) (vecNormSq exPsi3s)).isSome = true := by decide +kernel

/-- `lowering_two` on `(0,1)` wrongly flagged as a Pauli process -/
def exLowLowMislabelled : Proc := ⟨[0, 1], 1/2, true, .mat mLowLow⟩

/-- **C01.9e `pauli_shortcut_needs_unitarity`** (the hypothesis of C01.9c is needed) For a non-unitary pair taken for a Pauli process —
    `lowering ⊗ lowering` with `pauli = true` — on `|10⟩` the shortcut weight `dt·γ·‖ψ‖² = 1/2` differs from the true weight
    `dt·γ·‖Lψ‖² = 0`: the slot the sweep writes is wrong, and a process that annihilates the state is drawn with certainty. -/
theorem pauli_shortcut_needs_unitarity :
    ¬ IsUnitary 4 mLowLow ∧ ¬ UnitaryPair 2 exLowLowMislabelled ∧ visited 2 exLowLowMislabelled = true ∧
    wTwo 1 (denseNrm 2 ex10) (vecNormSq ex10) exLowLowMislabelled = 1/2 ∧
    1 * exLowLowMislabelled.gamma * denseNrm 2 ex10 exLowLowMislabelled = 0 ∧
    denseNrm 2 ex10 exLowLowMislabelled ≠ vecNormSq ex10 ∧
    probVector 2 [exLowLowMislabelled] 1 (denseNrm 2 ex10) (vecNormSq ex10) = some [1] := by
  decide +kernel

end Yaqs.Lottery
