import YaqsModel.Lemmas.PipelineJump
import YaqsModel.Lemmas.GridFl

/-!
# C15 — results are reported on the time grid the user asked for

Property theorems only (helper lemmas: `Lemmas/Pipeline.lean`, `Lemmas/Grid.lean`).

Two halves.

*Columns* (`Model/Pipeline.lean`).  `n = len(times)` grid points.  For every backend the returned array is a list of
columns; a column is described by the list of operations that were applied to the state measured into it.
`columns` says: with sampling on there are exactly `n` columns and column `j` holds the state after `j` steps; with
sampling off there is exactly one column and it holds the state after all `n - 1` steps.  The hypothesis `2 ≤ n`
(at least one step, `elapsed_time ≥ dt`) is needed: for `n = 1` the order-2 code indexes `times[1]`.
`tjm2_is_strang`, `tjm1_is_lie`, `mcwf_steps` give the content of column `j` in closed form (item 5 of C01).

*Grid* (`Model/Grid.lean`).  `grid_steps`, `grid_points`: in the standard model of binary64 arithmetic
(`fl(x ∘ y) = (x ∘ y)(1 + δ)`, `|δ| ≤ 2⁻⁵³`, no overflow/underflow), if `elapsed_time = k·dt·(1 + δ₀)` with
`|δ₀| ≤ 2⁻⁵²` and `k < 2⁴⁰`, then `round(elapsed_time / dt) = k`, so `linspace(0, k·dt, k + 1)` has `k + 1` points, the
first is 0, point `i` is `i·dt` up to a relative `2⁻⁵¹`, and the last is `elapsed_time` up to a relative `3·2⁻⁵³`.
`fl_obeys_standard_model` shows that the executable rounding function `fl` — the one the driver compares bit for bit with
numpy on every run — satisfies that standard model, and `grid_exec` instantiates the statement for the executable
`timesQ`.  `grid_old_counterexample` is the grid as found (`np.arange`): `0.2 / 0.1` gives 4 points.
-/
namespace Yaqs.Pipeline
open Frac Op

/-- **C15.2 (columns)**  Every backend, every grid of `n ≥ 2` points, every jump list.
    Sampling on: the returned array has one column per grid point, column `j` is written exactly once and holds
    the state after `j` steps (`strang`/`lie`/`rep … j`).  Sampling off: exactly one column, the state after all
    `n - 1` steps. -/
theorem columns (J : List Nat) (n : Nat) (hn : 2 ≤ n) :
    -- order 2
    (tjm2Out J true n = (List.range n).map (fun j => some (strang J j)) ∧
     (writes (tjm2Trace J true n)).map Prod.fst = List.range n ∧
     tjm2Out J false n = [some (strang J (n - 1))]) ∧
    -- order 1, with and without a noise model
    (tjm1Out J true true n = (List.range n).map (fun j => some (lie J j)) ∧
     (writes (tjm1Trace J true true n)).map Prod.fst = List.range n ∧
     tjm1Out J false true n = [some (lie J (n - 1))] ∧
     tjm1Out J true false n = (List.range n).map (fun j => some (rep [U] j)) ∧
     tjm1Out J false false n = [some (rep [U] (n - 1))]) ∧
    -- MCWF
    (mcwfOut true n = (List.range n).map (fun j => some (rep [Ueff, Lot] j)) ∧
     (writes (mcwfTrace true n)).map Prod.fst = List.range n ∧
     mcwfOut false n = [some (rep [Ueff, Lot] (n - 1))]) ∧
    -- Lindblad
    (lindbladOut true n = (List.range n).map (fun j => some (rep [Flow] j)) ∧
     (writes (lindbladTrace n)).map Prod.fst = List.range n ∧
     lindbladOut false n = [some (rep [Flow] (n - 1))]) := by
  have h1 : 1 ≤ n := by omega
  refine ⟨⟨tjm2Out_samp J n hn, ?_, tjm2Out_nosamp J n hn⟩,
          ⟨tjm1Out_samp J n h1, ?_, tjm1Out_nosamp J n hn, tjm1Out_samp_nonoise J n h1, tjm1Out_nosamp_nonoise J n hn⟩,
          ⟨mcwfOut_samp n h1, ?_, mcwfOut_nosamp n hn⟩,
          ⟨lindbladOut_samp n h1, ?_, lindbladOut_nosamp n h1⟩⟩
  · rw [writes_tjm2_samp J n hn]; simp [List.map_map, Function.comp_def]
  · rw [writes_tjm1_samp J n h1]; simp [List.map_map, Function.comp_def]
  · rw [writes_mcwf_samp n h1]; simp [List.map_map, Function.comp_def]
  · rw [writes_lindblad n h1]; simp [List.map_map, Function.comp_def]

/-- number of half-steps of dissipation in a history (`D half` counts 1, `D full` counts 2) -/
def dissHalves (h : List Op) : Nat := h.count (D half) + 2 * h.count (D full)

/-- **C15.2 (column `j` follows `j` steps)**  The history of column `j` contains exactly `j` evolution steps, and for
    the TJM pipelines a total dissipation time of `j·dt` (`2j` half steps), whatever the jump list. -/
theorem column_steps (J : List Nat) (j : Nat) :
    (strang J j).count U = j ∧ dissHalves (strang J j) = 2 * j ∧
    (lie J j).count U = j ∧ dissHalves (lie J j) = 2 * j ∧
    (rep [Ueff, Lot] j).count Ueff = j ∧ (rep [Flow] j).count Flow = j ∧ (rep [U] j).count U = j := by
  have hw := noiseOp_ne_U J
  have hD : ∀ (f : Frac) (k : Nat), noiseOp J k ≠ D f := by
    intro f k; unfold noiseOp; split <;> simp
  have phiU : ∀ i, (phiHistW (noiseOp J) i).count U = i := countU_phiHistW _ hw
  have phiH : ∀ i, (phiHistW (noiseOp J) i).count (D half) = 1 := by
    intro i; induction i with
    | zero => simp [phiHistW, hD half 0]
    | succ i ih => simp [phiHistW, List.count_append, ih, hD half (i + 1)]
  have phiF : ∀ i, (phiHistW (noiseOp J) i).count (D full) = i := by
    intro i; induction i with
    | zero => simp [phiHistW, hD full 0]
    | succ i ih => simp [phiHistW, List.count_append, ih, hD full (i + 1)]
  have lieH : ∀ i, (lieW (noiseOp J) i).count (D half) = 0 := by
    intro i; induction i with
    | zero => simp [lieW]
    | succ i ih => simp [lieW, List.count_append, ih, hD half (i + 1)]
  have lieF : ∀ i, (lieW (noiseOp J) i).count (D full) = i := by
    intro i; induction i with
    | zero => simp [lieW]
    | succ i ih => simp [lieW, List.count_append, ih, hD full (i + 1)]
  have repV : ∀ i, (rep [Ueff, Lot] i).count Ueff = i := by
    intro i; induction i with
    | zero => simp [rep]
    | succ i ih => simp [rep, List.count_append, ih]
  have repW : ∀ i, (rep [Flow] i).count Flow = i := by
    intro i; induction i with
    | zero => simp [rep]
    | succ i ih => simp [rep, List.count_append, ih]
  have repU : ∀ i, (rep [U] i).count U = i := by
    intro i; induction i with
    | zero => simp [rep]
    | succ i ih => simp [rep, List.count_append, ih]
  refine ⟨?_, ?_, countU_lieW _ hw j, ?_, repV j, repW j, repU j⟩
  · cases j with
    | zero => simp [strang, strangW]
    | succ i => simp [strang, strangW, List.count_append, phiU i, hw (i + 1)]
  · cases j with
    | zero => simp [strang, strangW, dissHalves]
    | succ i =>
      simp only [strang, strangW, dissHalves, List.count_append, phiH i, phiF i]
      simp [hD half (i + 1), hD full (i + 1)]
      omega
  · simp only [lie, dissHalves, lieH j, lieF j]; omega

/-- **C01 item 5 / C15 (order 2 is a Strang composition)**  Column `j + 1` of the second-order pipeline is
    `D½; N₀; (U; D1; Nᵢ) for i = 1…j; U; D½; N_{j+1}` where `Nᵢ` is the noise step of grid index `i`
    (the lottery, or the scheduled operator); without scheduled jumps that is `D½;Lot;(U;D1;Lot)^j;U;D½;Lot`. -/
theorem tjm2_is_strang (J : List Nat) (n j : Nat) (hn : 2 ≤ n) (hj : j + 1 < n) :
    (tjm2Out J true n)[j + 1]? = some (some
      ([D half, noiseOp J 0] ++ ((List.range j).map (fun i => [U, D full, noiseOp J (i + 1)])).flatten
        ++ [U, D half, noiseOp J (j + 1)])) ∧
    (tjm2Out [] true n)[j + 1]? = some (some
      ([D half, Lot] ++ (List.replicate j [U, D full, Lot]).flatten ++ [U, D half, Lot])) := by
  have hphi : ∀ (w : Nat → Op) (i : Nat), phiHistW w i =
      [D half, w 0] ++ ((List.range i).map (fun t => [U, D full, w (t + 1)])).flatten := by
    intro w i; induction i with
    | zero => simp [phiHistW]
    | succ i ih => rw [phiHistW, ih, List.range_succ]; simp
  have hrep : ∀ i : Nat, ((List.range i).map (fun _ => [U, D full, Lot])).flatten
      = (List.replicate i [U, D full, Lot]).flatten := by
    intro i; induction i with
    | zero => simp
    | succ i ih => rw [List.range_succ, List.map_append, List.flatten_append, ih, List.replicate_succ']; simp
  constructor
  · rw [tjm2Out_samp J n hn]
    simp only [List.getElem?_map, List.getElem?_range hj, Option.map_some, strang, strangW, hphi]
  · rw [tjm2Out_samp [] n hn]
    simp only [List.getElem?_map, List.getElem?_range hj, Option.map_some, strang, strangW, hphi]
    have : ∀ k, noiseOp [] k = Lot := by intro k; simp [noiseOp]
    simp only [this, hrep]

/-- **C01 item 5 / C15 (order 1 is a Lie composition)**  Column `j`: `(U; D1; Nᵢ) for i = 1…j`. -/
theorem tjm1_is_lie (J : List Nat) (n j : Nat) (hn : 1 ≤ n) (hj : j < n) :
    (tjm1Out J true true n)[j]? = some (some
      (((List.range j).map (fun i => [U, D full, noiseOp J (i + 1)])).flatten)) ∧
    (tjm1Out [] true true n)[j]? = some (some ((List.replicate j [U, D full, Lot]).flatten)) := by
  have hlie : ∀ (w : Nat → Op) (i : Nat), lieW w i =
      ((List.range i).map (fun t => [U, D full, w (t + 1)])).flatten := by
    intro w i; induction i with
    | zero => simp [lieW]
    | succ i ih => rw [lieW, ih, List.range_succ]; simp
  have hrep : ∀ i : Nat, ((List.range i).map (fun _ => [U, D full, Lot])).flatten
      = (List.replicate i [U, D full, Lot]).flatten := by
    intro i; induction i with
    | zero => simp
    | succ i ih => rw [List.range_succ, List.map_append, List.flatten_append, ih, List.replicate_succ']; simp
  constructor
  · rw [tjm1Out_samp J n hn]
    simp only [List.getElem?_map, List.getElem?_range hj, Option.map_some, lie, hlie]
  · rw [tjm1Out_samp [] n hn]
    simp only [List.getElem?_map, List.getElem?_range hj, Option.map_some, lie, hlie]
    have : ∀ k, noiseOp [] k = Lot := by intro k; simp [noiseOp]
    simp only [this, hrep]

/-- **C01 item 5 / C15 (MCWF)**  Column `j`: `(Ueff; Lot)^j`; Lindblad: `j` grid intervals of exact flow. -/
theorem mcwf_steps (n j : Nat) (hn : 1 ≤ n) (hj : j < n) :
    (mcwfOut true n)[j]? = some (some ((List.replicate j [Ueff, Lot]).flatten)) ∧
    (lindbladOut true n)[j]? = some (some (List.replicate j Flow)) := by
  have h1 : ∀ i : Nat, rep [Ueff, Lot] i = (List.replicate i [Ueff, Lot]).flatten := by
    intro i; induction i with
    | zero => simp [rep]
    | succ i ih => rw [rep, ih, List.replicate_succ']; simp
  have h2 : ∀ i : Nat, rep [Flow] i = List.replicate i Flow := by
    intro i; induction i with
    | zero => simp [rep]
    | succ i ih => rw [rep, ih, List.replicate_succ']
  constructor
  · rw [mcwfOut_samp n hn]
    simp only [List.getElem?_map, List.getElem?_range hj, Option.map_some, h1]
  · rw [lindbladOut_samp n hn]
    simp only [List.getElem?_map, List.getElem?_range hj, Option.map_some, h2]

/-- concrete instances (also non-vacuity of `columns`): `n = 2`, the single-step case of D19, and `n = 4` -/
example : tjm2Out [] false 2 = [some [D half, Lot, U, D half, Lot]] ∧
    tjm1Out [] false true 2 = [some [U, D full, Lot]] ∧
    mcwfOut false 2 = [some [Ueff, Lot]] ∧ lindbladOut false 2 = [some [Flow]] ∧
    tjm2Out [] true 2 = [some [], some [D half, Lot, U, D half, Lot]] := by decide +kernel

example : mcwfOut true 4 = [some [], some [Ueff, Lot], some [Ueff, Lot, Ueff, Lot],
    some [Ueff, Lot, Ueff, Lot, Ueff, Lot]] := by decide +kernel

/-- **C15 (code as found, D19)**  Order 2, a single step, sampling off: nothing was ever written, the caller got
    the zeros of `np.zeros`. -/
theorem tjm2_single_step_old_counterexample :
    tjm2OutOld [] false 2 = [none] ∧ tjm2Out [] false 2 = [some [D half, Lot, U, D half, Lot]] := by
  decide +kernel

end Yaqs.Pipeline

namespace Yaqs.Grid

/-- **C15.1 (number of points)**  Standard model: `elapsed_time = k·dt·(1+δ₀)`, `|δ₀| ≤ 2⁻⁵²`; the computed quotient
    is `(elapsed_time/dt)(1+δ₁)`, `|δ₁| ≤ 2⁻⁵³`; `k < 2⁴⁰`.  Then `np.round` of the quotient is exactly `k`
    — the grid has `k + 1` points. -/
theorem grid_steps (dt T q : Rat) (k : Nat) (hdt : 0 < dt) (hk : k < 2 ^ 40)
    (hT : Rounds (1 / 2 ^ 52) T ((k : Rat) * dt)) (hq : Rounds u64 q (T / dt)) : rne q = (k : Int) :=
  grid_steps_aux dt T q k hdt hk hT hq

/-- **C15.1 (the points)**  Standard model for `linspace(0, k·dt, k+1)`: `stop = fl(k·dt)`, `step = fl(stop/k)`,
    point `i` is `fl(i·step)`.  Then point `i` is `i·dt` up to a relative error `2⁻⁵¹` (so the first point is
    exactly 0 and consecutive points are `dt` apart up to that error), and the last point `stop` is the requested
    `elapsed_time` up to `3·2⁻⁵³` relative to `k·dt`. -/
theorem grid_points (dt T stop step : Rat) (k : Nat) (hk : 1 ≤ k) (hdt : 0 < dt)
    (hT : Rounds (1 / 2 ^ 52) T ((k : Rat) * dt))
    (hs : Rounds u64 stop ((k : Rat) * dt)) (hst : Rounds u64 step (stop / (k : Rat))) :
    (∀ (i : Nat) (t : Rat), Rounds u64 t ((i : Rat) * step) →
        absQ (t - (i : Rat) * dt) ≤ (i : Rat) * dt / 2 ^ 51) ∧
    (∀ t : Rat, Rounds u64 t ((0 : Nat) * step) → t = 0) ∧
    absQ (stop - T) ≤ (k : Rat) * dt * (3 / 2 ^ 53) :=
  grid_points_aux dt T stop step k hk hdt hT hs hst

/-- **C15.1 (the executable rounding obeys the standard model)**  `fl`, the explicit round-to-nearest-even function
    of `Model/Grid.lean` that the driver compares bit for bit with numpy on every run, satisfies
    `fl q = q (1 + δ)`, `|δ| ≤ 2⁻⁵³`, for every rational `q` — the hypothesis of `grid_steps` / `grid_points` is met by
    every operation of the executable grid. -/
theorem fl_obeys_standard_model (q : Rat) : Rounds u64 (fl q) q := fl_standard_model q

/-- **C15.1 (the grid, executable form)**  For the executable `timesQ` (= `AnalogSimParams(T, dt).times` in exact
    binary64 arithmetic without overflow): if `elapsed_time = k·dt·(1+δ₀)`, `|δ₀| ≤ 2⁻⁵²`, `1 ≤ k < 2⁴⁰`, `dt > 0`,
    the grid has exactly `k + 1` points, starts at 0, point `i` is `i·dt` up to relative `2⁻⁵¹`, and it ends at
    `elapsed_time` up to `3·2⁻⁵³` relative.  (`k = 0`, i.e. `elapsed_time = 0`, gives the single point 0; the solvers'
    behaviour on that one-point grid is the known finding `C15:zero-elapsed-time`.) -/
theorem grid_exec (T dt : Rat) (k : Nat) (hdt : 0 < dt) (hk1 : 1 ≤ k) (hk : k < 2 ^ 40)
    (hT : Rounds (1 / 2 ^ 52) T ((k : Rat) * dt)) :
    timesQ T dt = some ((List.range (k + 1)).map (pointQ k dt)) ∧
    pointQ k dt 0 = 0 ∧
    (∀ i : Nat, i ≤ k → absQ (pointQ k dt i - (i : Rat) * dt) ≤ (i : Rat) * dt / 2 ^ 51) ∧
    absQ (pointQ k dt k - T) ≤ (k : Rat) * dt * (3 / 2 ^ 53) :=
  grid_exec_aux T dt k hdt hk1 hk hT

/-- non-vacuity: the binary64 numbers 0.3 and 0.1 (`0.3 = 3·0.1·(1+δ₀)` with `|δ₀| ≤ 2⁻⁵²`) meet the hypotheses;
    the executable model gives 4 points for them. -/
example : Rounds (1 / 2 ^ 52) (5404319552844595 / 2 ^ 54) ((3 : Nat) * (3602879701896397 / 2 ^ 55 : Rat)) :=
  ⟨(5404319552844595 / 2 ^ 54) / (3 * (3602879701896397 / 2 ^ 55)) - 1, by decide +kernel, by decide +kernel⟩

example : (timesQ (5404319552844595 / 2 ^ 54) (3602879701896397 / 2 ^ 55)).map List.length = some 4 := by
  decide +kernel

/-- **C15 (code as found, D10)**  `elapsed_time = 0.2`, `dt = 0.1` as binary64 numbers: `np.arange(0, T + dt, dt)`
    has 4 points, the last one `0.30000000000000004` lies beyond `T`; the repaired grid has 3 points and ends at
    `T`.  (`fl` leaves both inputs unchanged: they are binary64 numbers.) -/
theorem grid_old_counterexample :
    let T : Rat := 3602879701896397 / 2 ^ 54
    let dt : Rat := 3602879701896397 / 2 ^ 55
    fl T = T ∧ fl dt = dt ∧
    timesOldQ T dt = some [0, dt, T, 5404319552844596 / 2 ^ 54] ∧
    timesQ T dt = some [0, dt, T] := by
  decide +kernel

end Yaqs.Grid
