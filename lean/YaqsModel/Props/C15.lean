import YaqsModel.Lemmas.PipelineJump
import YaqsModel.Lemmas.GridFl
import YaqsModel.Lemmas.Storage

/-!
# C15 — results are reported on the time grid the user asked for

Property theorems only (helper lemmas: `Lemmas/Pipeline.lean`, `Lemmas/Grid.lean`).

Two halves.

*Columns* (`Model/Pipeline.lean`).  `n = len(times)` grid points.  For every backend the returned array is a list of
columns; a column is described by the list of operations that were applied to the state measured into it.
`columns` says: with sampling on there are exactly `n` columns and column `j` holds the state after `j` steps; with
sampling off there is exactly one column and it holds the state after all `n - 1` steps.  The hypothesis `2 ≤ n`
(at least one step, `elapsed_time ≥ dt`) is needed: for `n = 1` the order-2 code indexes `times[1]`.
`tjm2_is_strang`, `tjm1_is_lie`, `mcwf_steps` give the content of column `j` in closed form (item 5 of C01).

*Grid* (`Model/Grid.lean`).  `grid_steps`, `grid_points`: in the standard model of binary64 arithmetic
(`fl(x ∘ y) = (x ∘ y)(1 + δ)`, `|δ| ≤ 2⁻⁵³`, no overflow/underflow), if `elapsed_time = k·dt·(1 + δ₀)` with
`|δ₀| ≤ 2⁻⁵²` and `k < 2⁴⁰`, then `round(elapsed_time / dt) = k`, so `linspace(0, k·dt, k + 1)` has `k + 1` points, the
first is 0, point `i` is `i·dt` up to a relative `2⁻⁵¹`, and the last is `elapsed_time` up to a relative `3·2⁻⁵³`.
`fl_obeys_standard_model` shows that the executable rounding function `fl` — the one the driver compares bit for bit with
numpy on every run — satisfies that standard model, and `grid_exec` instantiates the statement for the executable
`timesQ`.  `grid_old_counterexample` is the grid as found (`np.arange`): `0.2 / 0.1` gives 4 points.
-/
namespace Yaqs.Pipeline
open Frac Op

/-- **C15.2 (columns)**  Every backend, every grid of `n ≥ 2` points, every jump list.
    Sampling on: the returned array has one column per grid point, column `j` is written exactly once and holds
    the state after `j` steps (`strang`/`lie`/`rep … j`).  Sampling off: exactly one column, the state after all
    `n - 1` steps. -/
theorem columns (J : List Nat) (n : Nat) (hn : 2 ≤ n) :
    -- order 2
    (tjm2Out J true n = (List.range n).map (fun j => some (strang J j)) ∧
     (writes (tjm2Trace J true n)).map Prod.fst = List.range n ∧
     tjm2Out J false n = [some (strang J (n - 1))]) ∧
    -- order 1, with and without a noise model
    (tjm1Out J true true n = (List.range n).map (fun j => some (lie J j)) ∧
     (writes (tjm1Trace J true true n)).map Prod.fst = List.range n ∧
     tjm1Out J false true n = [some (lie J (n - 1))] ∧
     tjm1Out J true false n = (List.range n).map (fun j => some (rep [U] j)) ∧
     tjm1Out J false false n = [some (rep [U] (n - 1))]) ∧
    -- MCWF
    (mcwfOut true n = (List.range n).map (fun j => some (rep [Ueff, Lot] j)) ∧
     (writes (mcwfTrace true n)).map Prod.fst = List.range n ∧
     mcwfOut false n = [some (rep [Ueff, Lot] (n - 1))]) ∧
    -- Lindblad
    (lindbladOut true n = (List.range n).map (fun j => some (rep [Flow] j)) ∧
     (writes (lindbladTrace n)).map Prod.fst = List.range n ∧
     lindbladOut false n = [some (rep [Flow] (n - 1))]) := by
  have h1 : 1 ≤ n := by omega
  refine ⟨⟨tjm2Out_samp J n hn, ?_, tjm2Out_nosamp J n hn⟩,
          ⟨tjm1Out_samp J n h1, ?_, tjm1Out_nosamp J n hn, tjm1Out_samp_nonoise J n h1, tjm1Out_nosamp_nonoise J n hn⟩,
          ⟨mcwfOut_samp n h1, ?_, mcwfOut_nosamp n hn⟩,
          ⟨lindbladOut_samp n h1, ?_, lindbladOut_nosamp n h1⟩⟩
  · rw [writes_tjm2_samp J n hn]; simp [List.map_map, Function.comp_def]
  · rw [writes_tjm1_samp J n h1]; simp [List.map_map, Function.comp_def]
  · rw [writes_mcwf_samp n h1]; simp [List.map_map, Function.comp_def]
  · rw [writes_lindblad n h1]; simp [List.map_map, Function.comp_def]

/-- number of half-steps of dissipation in a history (`D half` counts 1, `D full` counts 2) -/
def dissHalves (h : List Op) : Nat := h.count (D half) + 2 * h.count (D full)

/-- **C15.2 (column `j` follows `j` steps)**  The history of column `j` contains exactly `j` evolution steps, and for
    the TJM pipelines a total dissipation time of `j·dt` (`2j` half steps), whatever the jump list. -/
theorem column_steps (J : List Nat) (j : Nat) :
    (strang J j).count U = j ∧ dissHalves (strang J j) = 2 * j ∧
    (lie J j).count U = j ∧ dissHalves (lie J j) = 2 * j ∧
    (rep [Ueff, Lot] j).count Ueff = j ∧ (rep [Flow] j).count Flow = j ∧ (rep [U] j).count U = j := by
  have hw := noiseOp_ne_U J
  have hD : ∀ (f : Frac) (k : Nat), noiseOp J k ≠ D f := by
    intro f k; unfold noiseOp; split <;> simp
  have phiU : ∀ i, (phiHistW (noiseOp J) i).count U = i := countU_phiHistW _ hw
  have phiH : ∀ i, (phiHistW (noiseOp J) i).count (D half) = 1 := by
    intro i; induction i with
    | zero => simp [phiHistW, hD half 0]
    | succ i ih => simp [phiHistW, List.count_append, ih, hD half (i + 1)]
  have phiF : ∀ i, (phiHistW (noiseOp J) i).count (D full) = i := by
    intro i; induction i with
    | zero => simp [phiHistW, hD full 0]
    | succ i ih => simp [phiHistW, List.count_append, ih, hD full (i + 1)]
  have lieH : ∀ i, (lieW (noiseOp J) i).count (D half) = 0 := by
    intro i; induction i with
    | zero => simp [lieW]
    | succ i ih => simp [lieW, List.count_append, ih, hD half (i + 1)]
  have lieF : ∀ i, (lieW (noiseOp J) i).count (D full) = i := by
    intro i; induction i with
    | zero => simp [lieW]
    | succ i ih => simp [lieW, List.count_append, ih, hD full (i + 1)]
  have repV : ∀ i, (rep [Ueff, Lot] i).count Ueff = i := by
    intro i; induction i with
    | zero => simp [rep]
    | succ i ih => simp [rep, List.count_append, ih]
  have repW : ∀ i, (rep [Flow] i).count Flow = i := by
    intro i; induction i with
    | zero => simp [rep]
    | succ i ih => simp [rep, List.count_append, ih]
  have repU : ∀ i, (rep [U] i).count U = i := by
    intro i; induction i with
    | zero => simp [rep]
    | succ i ih => simp [rep, List.count_append, ih]
  refine ⟨?_, ?_, countU_lieW _ hw j, ?_, repV j, repW j, repU j⟩
  · cases j with
    | zero => simp [strang, strangW]
    | succ i => simp [strang, strangW, List.count_append, phiU i, hw (i + 1)]
  · cases j with
    | zero => simp [strang, strangW, dissHalves]
    | succ i =>
      simp only [strang, strangW, dissHalves, List.count_append, phiH i, phiF i]
      simp [hD half (i + 1), hD full (i + 1)]
      omega
  · simp only [lie, dissHalves, lieH j, lieF j]; omega

/-- **C01 item 5 / C15 (order 2 is a Strang composition)**  Column `j + 1` of the second-order pipeline is
    `D½; N₀; (U; D1; Nᵢ) for i = 1…j; U; D½; N_{j+1}` where `Nᵢ` is the noise step of grid index `i`
    (the lottery, or the scheduled operator); without scheduled jumps that is `D½;Lot;(U;D1;Lot)^j;U;D½;Lot`. -/
theorem tjm2_is_strang (J : List Nat) (n j : Nat) (hn : 2 ≤ n) (hj : j + 1 < n) :
    (tjm2Out J true n)[j + 1]? = some (some
      ([D half, noiseOp J 0] ++ ((List.range j).map (fun i => [U, D full, noiseOp J (i + 1)])).flatten
        ++ [U, D half, noiseOp J (j + 1)])) ∧
    (tjm2Out [] true n)[j + 1]? = some (some
      ([D half, Lot] ++ (List.replicate j [U, D full, Lot]).flatten ++ [U, D half, Lot])) := by
  have hphi : ∀ (w : Nat → Op) (i : Nat), phiHistW w i =
      [D half, w 0] ++ ((List.range i).map (fun t => [U, D full, w (t + 1)])).flatten := by
    intro w i; induction i with
    | zero => simp [phiHistW]
    | succ i ih => rw [phiHistW, ih, List.range_succ]; simp
  have hrep : ∀ i : Nat, ((List.range i).map (fun _ => [U, D full, Lot])).flatten
      = (List.replicate i [U, D full, Lot]).flatten := by
    intro i; induction i with
    | zero => simp
    | succ i ih => rw [List.range_succ, List.map_append, List.flatten_append, ih, List.replicate_succ']; simp
  constructor
  · rw [tjm2Out_samp J n hn]
    simp only [List.getElem?_map, List.getElem?_range hj, Option.map_some, strang, strangW, hphi]
  · rw [tjm2Out_samp [] n hn]
    simp only [List.getElem?_map, List.getElem?_range hj, Option.map_some, strang, strangW, hphi]
    have : ∀ k, noiseOp [] k = Lot := by intro k; simp [noiseOp]
    simp only [this, hrep]

/-- **C01 item 5 / C15 (order 1 is a Lie composition)**  Column `j`: `(U; D1; Nᵢ) for i = 1…j`. -/
theorem tjm1_is_lie (J : List Nat) (n j : Nat) (hn : 1 ≤ n) (hj : j < n) :
    (tjm1Out J true true n)[j]? = some (some
      (((List.range j).map (fun i => [U, D full, noiseOp J (i + 1)])).flatten)) ∧
    (tjm1Out [] true true n)[j]? = some (some ((List.replicate j [U, D full, Lot]).flatten)) := by
  have hlie : ∀ (w : Nat → Op) (i : Nat), lieW w i =
      ((List.range i).map (fun t => [U, D full, w (t + 1)])).flatten := by
    intro w i; induction i with
    | zero => simp [lieW]
    | succ i ih => rw [lieW, ih, List.range_succ]; simp
  have hrep : ∀ i : Nat, ((List.range i).map (fun _ => [U, D full, Lot])).flatten
      = (List.replicate i [U, D full, Lot]).flatten := by
    intro i; induction i with
    | zero => simp
    | succ i ih => rw [List.range_succ, List.map_append, List.flatten_append, ih, List.replicate_succ']; simp
  constructor
  · rw [tjm1Out_samp J n hn]
    simp only [List.getElem?_map, List.getElem?_range hj, Option.map_some, lie, hlie]
  · rw [tjm1Out_samp [] n hn]
    simp only [List.getElem?_map, List.getElem?_range hj, Option.map_some, lie, hlie]
    have : ∀ k, noiseOp [] k = Lot := by intro k; simp [noiseOp]
    simp only [this, hrep]

/-- **C01 item 5 / C15 (MCWF)**  Column `j`: `(Ueff; Lot)^j`; Lindblad: `j` grid intervals of exact flow. -/
theorem mcwf_steps (n j : Nat) (hn : 1 ≤ n) (hj : j < n) :
    (mcwfOut true n)[j]? = some (some ((List.replicate j [Ueff, Lot]).flatten)) ∧
    (lindbladOut true n)[j]? = some (some (List.replicate j Flow)) := by
  have h1 : ∀ i : Nat, rep [Ueff, Lot] i = (List.replicate i [Ueff, Lot]).flatten := by
    intro i; induction i with
    | zero => simp [rep]
    | succ i ih => rw [rep, ih, List.replicate_succ']; simp
  have h2 : ∀ i : Nat, rep [Flow] i = List.replicate i Flow := by
    intro i; induction i with
    | zero => simp [rep]
    | succ i ih => rw [rep, ih, List.replicate_succ']
  constructor
  · rw [mcwfOut_samp n hn]
    simp only [List.getElem?_map, List.getElem?_range hj, Option.map_some, h1]
  · rw [lindbladOut_samp n hn]
    simp only [List.getElem?_map, List.getElem?_range hj, Option.map_some, h2]

/-- concrete instances (also non-vacuity of `columns`): `n = 2`, the single-step case of D19, and `n = 4` -/
example : tjm2Out [] false 2 = [some [D half, Lot, U, D half, Lot]] ∧
    tjm1Out [] false true 2 = [some [U, D full, Lot]] ∧
    mcwfOut false 2 = [some [Ueff, Lot]] ∧ lindbladOut false 2 = [some [Flow]] ∧
    tjm2Out [] true 2 = [some [], some [D half, Lot, U, D half, Lot]] := by decide +kernel

example : mcwfOut true 4 = [some [], some [Ueff, Lot], some [Ueff, Lot, Ueff, Lot],
    some [Ueff, Lot, Ueff, Lot, Ueff, Lot]] := by decide +kernel

/-- **C15 (code as found, D19)**  Order 2, a single step, sampling off: nothing was ever written, the caller got
    the zeros of `np.zeros`. -/
theorem tjm2_single_step_old_counterexample :
    tjm2OutOld [] false 2 = [none] ∧ tjm2Out [] false 2 = [some [D half, Lot, U, D half, Lot]] := by
  decide +kernel

end Yaqs.Pipeline

namespace Yaqs.Grid

/-- **C15.1 (number of points)**  Standard model: `elapsed_time = k·dt·(1+δ₀)`, `|δ₀| ≤ 2⁻⁵²`; the computed quotient
    is `(elapsed_time/dt)(1+δ₁)`, `|δ₁| ≤ 2⁻⁵³`; `k < 2⁴⁰`.  Then `np.round` of the quotient is exactly `k`
    — the grid has `k + 1` points. -/
theorem grid_steps (dt T q : Rat) (k : Nat) (hdt : 0 < dt) (hk : k < 2 ^ 40)
    (hT : Rounds (1 / 2 ^ 52) T ((k : Rat) * dt)) (hq : Rounds u64 q (T / dt)) : rne q = (k : Int) :=
  grid_steps_aux dt T q k hdt hk hT hq

/-- **C15.1 (the points)**  Standard model for `linspace(0, k·dt, k+1)`: `stop = fl(k·dt)`, `step = fl(stop/k)`,
    point `i` is `fl(i·step)`.  Then point `i` is `i·dt` up to a relative error `2⁻⁵¹` (so the first point is
    exactly 0 and consecutive points are `dt` apart up to that error), and the last point `stop` is the requested
    `elapsed_time` up to `3·2⁻⁵³` relative to `k·dt`. -/
theorem grid_points (dt T stop step : Rat) (k : Nat) (hk : 1 ≤ k) (hdt : 0 < dt)
    (hT : Rounds (1 / 2 ^ 52) T ((k : Rat) * dt))
    (hs : Rounds u64 stop ((k : Rat) * dt)) (hst : Rounds u64 step (stop / (k : Rat))) :
    (∀ (i : Nat) (t : Rat), Rounds u64 t ((i : Rat) * step) →
        absQ (t - (i : Rat) * dt) ≤ (i : Rat) * dt / 2 ^ 51) ∧
    (∀ t : Rat, Rounds u64 t ((0 : Nat) * step) → t = 0) ∧
    absQ (stop - T) ≤ (k : Rat) * dt * (3 / 2 ^ 53) :=
  grid_points_aux dt T stop step k hk hdt hT hs hst

/-- **C15.1 (the executable rounding obeys the standard model)**  `fl`, the explicit round-to-nearest-even function
    of `Model/Grid.lean` that the driver compares bit for bit with numpy on every run, satisfies
    `fl q = q (1 + δ)`, `|δ| ≤ 2⁻⁵³`, for every rational `q` — the hypothesis of `grid_steps` / `grid_points` is met by
    every operation of the executable grid. -/
theorem fl_obeys_standard_model (q : Rat) : Rounds u64 (fl q) q := fl_standard_model q

/-- **C15.1 (the grid, executable form)**  For the executable `timesQ` (= `AnalogSimParams(T, dt).times` in exact
    binary64 arithmetic without overflow): if `elapsed_time = k·dt·(1+δ₀)`, `|δ₀| ≤ 2⁻⁵²`, `1 ≤ k < 2⁴⁰`, `dt > 0`,
    the grid has exactly `k + 1` points, starts at 0, point `i` is `i·dt` up to relative `2⁻⁵¹`, and it ends at
    `elapsed_time` up to `3·2⁻⁵³` relative.  (`k = 0`, i.e. `elapsed_time = 0`, gives the single point 0; the solvers'
    behaviour on that one-point grid is the known finding `C15:zero-elapsed-time`.) -/
theorem grid_exec (T dt : Rat) (k : Nat) (hdt : 0 < dt) (hk1 : 1 ≤ k) (hk : k < 2 ^ 40)
    (hT : Rounds (1 / 2 ^ 52) T ((k : Rat) * dt)) :
    timesQ T dt = some ((List.range (k + 1)).map (pointQ k dt)) ∧
    pointQ k dt 0 = 0 ∧
    (∀ i : Nat, i ≤ k → absQ (pointQ k dt i - (i : Rat) * dt) ≤ (i : Rat) * dt / 2 ^ 51) ∧
    absQ (pointQ k dt k - T) ≤ (k : Rat) * dt * (3 / 2 ^ 53) :=
  grid_exec_aux T dt k hdt hk1 hk hT

/-- non-vacuity: the binary64 numbers 0.3 and 0.1 (`0.3 = 3·0.1·(1+δ₀)` with `|δ₀| ≤ 2⁻⁵²`) meet the hypotheses;
    the executable model gives 4 points for them. -/
example : Rounds (1 / 2 ^ 52) (5404319552844595 / 2 ^ 54) ((3 : Nat) * (3602879701896397 / 2 ^ 55 : Rat)) :=
  ⟨(5404319552844595 / 2 ^ 54) / (3 * (3602879701896397 / 2 ^ 55)) - 1, by decide +kernel, by decide +kernel⟩

example : (timesQ (5404319552844595 / 2 ^ 54) (3602879701896397 / 2 ^ 55)).map List.length = some 4 := by
  decide +kernel

/-- **C15 (code as found, D10)**  `elapsed_time = 0.2`, `dt = 0.1` as binary64 numbers: `np.arange(0, T + dt, dt)`
    has 4 points, the last one `0.30000000000000004` lies beyond `T`; the repaired grid has 3 points and ends at
    `T`.  (`fl` leaves both inputs unchanged: they are binary64 numbers.) -/
theorem grid_old_counterexample :
    let T : Rat := 3602879701896397 / 2 ^ 54
    let dt : Rat := 3602879701896397 / 2 ^ 55
    fl T = T ∧ fl dt = dt ∧
    timesOldQ T dt = some [0, dt, T, 5404319552844596 / 2 ^ 54] ∧
    timesQ T dt = some [0, dt, T] := by
  decide +kernel

end Yaqs.Grid


/-!
## Result storage (`Model/Storage.lean`): where the columns are kept and how they are reduced

`columns` says what every back-end *returns*; the theorems below carry that to what the user *reads*:
`Observable.initialize` allocates `trajectories` with one row per trajectory and exactly the columns the back-end
returns (`storage_shape`), so the assignment `trajectories[i] = result[obs_index]` copies — numpy would silently repeat a
length-1 row and raise on any other mismatch (`assign_mismatch`); `aggregate_trajectories` makes `results[k]` the
average over the trajectories of column `k` (`results_is_mean`, `run_results_is_mean`), except for Schmidt spectra,
which are concatenated (`schmidt_is_concatenation`); the observable's `times` attribute is the grid with sampling on
and the scalar `elapsed_time` with sampling off (`times_attr`); weak mode merges the per-trajectory count dictionaries
(`aggregate_measurements_total`, `weak_branch`).  `mean_of_constant` / `mean_linear` / `mean_additive`: averaging is linear.
-/
namespace Yaqs.Storage
open Yaqs.Params (Counts addAll sortCounts total)
open Yaqs.Pipeline (tjm2Out tjm1Out mcwfOut lindbladOut)

/-- **C15 (storage has the shape of what the back-ends return)**  For every mode, every setting and every kind of
    observable (`Observable.initialize` never looks at the kind — Schmidt spectra and diagnostics get the same scalar
    storage): `trajectories` has `num_traj` rows (weak: `shots`) and one column per grid point (analog:
    `len(times)`, strong with `sample_layers`: `num_mid_measurements + 2`), resp. exactly one column with sampling off;
    that is the column count of the array every back-end returns (`backendCols`, and for the analog back-ends the
    lengths of `tjm2Out`, `tjm1Out`, `mcwfOut`, `lindbladOut` of theorem `columns`, grid of `n ≥ 2` points); hence
    filling the rows from any back-end result of that shape stores exactly the returned rows: nothing is broadcast,
    nothing truncated, nothing raises. -/
theorem storage_shape (s : Settings) (k : ObsKind) :
    (allocate s k).rows = (if s.mode = .weak then s.shots else s.numTraj) ∧
    (allocate s k).cols = (match s.mode with
      | .analog => if s.sample then s.times.length else 1
      | .strong => if s.sample then s.nMid + 2 else 1
      | .weak => 1) ∧
    (∀ k', allocate s k' = allocate s k) ∧
    (∀ c, backendCols s = some c → c = (allocate s k).cols) ∧
    (s.mode = .analog → 2 ≤ s.times.length → ∀ (J : List Nat) (noise : Bool),
      (tjm2Out J s.sample s.times.length).length = (allocate s k).cols ∧
      (tjm1Out J s.sample noise s.times.length).length = (allocate s k).cols ∧
      (mcwfOut s.sample s.times.length).length = (allocate s k).cols ∧
      (lindbladOut s.sample s.times.length).length = (allocate s k).cols) ∧
    (∀ (res : Nat → List Rat) (c : Nat), backendCols s = some c →
      (∀ i, i < (allocate s k).rows → (res i).length = c) →
      fill (allocate s k) res = .ok ((List.range (allocate s k).rows).map res)) := by
  refine ⟨?_, ?_, ?_, ?_, ?_, ?_⟩
  · unfold allocate; cases s.mode <;> cases s.sample <;> simp
  · unfold allocate; cases s.mode <;> cases s.sample <;> simp
  · intro k'; rfl
  · intro c hc
    unfold backendCols at hc
    unfold allocate
    cases hm : s.mode <;> cases hs : s.sample <;> simp [hm, hs] at hc ⊢ <;> omega
  · intro hm hn J noise
    have h1 : 1 ≤ s.times.length := by omega
    unfold allocate
    cases hs : s.sample
    · cases noise <;>
        simp [hm, Pipeline.tjm2Out_nosamp J _ hn, Pipeline.tjm1Out_nosamp J _ hn, Pipeline.tjm1Out_nosamp_nonoise J _ hn,
          Pipeline.mcwfOut_nosamp _ hn, Pipeline.lindbladOut_nosamp _ h1]
    · cases noise <;>
        simp [hm, Pipeline.tjm2Out_samp J _ hn, Pipeline.tjm1Out_samp J _ h1, Pipeline.tjm1Out_samp_nonoise J _ h1,
          Pipeline.mcwfOut_samp _ h1, Pipeline.lindbladOut_samp _ h1]
  · intro res c hc hlen
    apply fill_ok
    intro i hi
    rw [hlen i hi]
    unfold backendCols at hc
    unfold allocate
    cases hm : s.mode <;> cases hs : s.sample <;> simp [hm, hs] at hc ⊢ <;> omega

/-- non-vacuity / concrete shapes: 3 trajectories on the 4-point grid `0, 0.1, 0.2, 0.3`; sampling on gives a
    3 × 4 float64 table, sampling off a 3 × 1 complex128 one; strong with two sampling barriers 3 × 4, weak `shots × 1` -/
example :
    allocate ⟨.analog, 3, 0, true, 0, [0, 1/10, 2/10, 3/10], 3/10⟩ .loc
      = ⟨3, 4, .f64, 4, .grid [0, 1/10, 2/10, 3/10]⟩ ∧
    allocate ⟨.analog, 3, 0, false, 0, [0, 1/10, 2/10, 3/10], 3/10⟩ .schmidt = ⟨3, 1, .c128, 4, .scalar (3/10)⟩ ∧
    allocate ⟨.strong, 3, 0, true, 2, [], 0⟩ .diag = ⟨3, 4, .c128, 4, .untouched⟩ ∧
    allocate ⟨.strong, 3, 0, false, 2, [], 0⟩ .loc = ⟨3, 1, .c128, 1, .untouched⟩ ∧
    allocate ⟨.weak, 0, 5, false, 0, [], 0⟩ .loc = ⟨5, 1, .c128, 1, .untouched⟩ ∧
    fill (allocate ⟨.analog, 2, 0, true, 0, [0, 1/10, 2/10], 2/10⟩ .loc) (fun i => [(i : Rat), 1, 2])
      = .ok [[0, 1, 2], [1, 1, 2]] := by decide +kernel

/-- **C15 (why the shapes must agree)**  `trajectories[i] = row` in numpy: a row of the right length is copied; a row
    of length 1 is *silently repeated* into every column (so storage with more columns than the back-end returns would
    report the final value at every grid point); any other length raises `ValueError` (storage with `len(times) - 1`
    columns cannot be filled); and one wrong row makes the whole fill fail. -/
theorem assign_mismatch (cols : Nat) (row : List Rat) :
    (row.length = cols → assignRow cols row = .ok row) ∧
    (∀ x, cols ≠ 1 → assignRow cols [x] = .ok (List.replicate cols x)) ∧
    (row.length ≠ cols → row.length ≠ 1 → assignRow cols row = .error (.broadcast row.length cols)) ∧
    (∀ (res : Nat → List Rat) (n : Nat), (∃ i, i < n ∧ (res i).length ≠ cols ∧ (res i).length ≠ 1) →
      ∃ e, fillFrom cols res (List.range n) = .error e) :=
  ⟨assignRow_exact cols row, fun x h => assignRow_broadcast cols x h, assignRow_error cols row,
   fun res _ ⟨i, hi, h1, h2⟩ => fillFrom_error cols res _ ⟨i, List.mem_range.mpr hi, h1, h2⟩⟩

example : assignRow 3 [7] = .ok [7, 7, 7] ∧ assignRow 3 [1, 2, 3, 4] = .error (.broadcast 4 3) ∧
    assignRow 3 [1, 2] = .error (.broadcast 2 3) ∧ assignCells 3 [[1/2, 1/2], [1], [1]] = .error .sequence := by
  decide +kernel

/-- **C15 / C11 (`results` is the average over trajectories, column by column)**  For every observable that is not a
    Schmidt spectrum and every non-empty `rows × cols` table: `results` has `cols` entries and
    `results[k] = (Σ_i trajectories[i][k]) / num_traj`; with a single trajectory `results` *is* that trajectory. -/
theorem results_is_mean (k : ObsKind) (hk : k ≠ .schmidt) (cols : Nat) :
    (∀ t : List (List Rat), t ≠ [] → ∃ v, aggregateObs k cols t = .values v ∧ v.length = cols ∧
      ∀ j, j < cols → v[j]? = some ((t.map (fun r => r.getD j 0)).sum / (t.length : Rat))) ∧
    (∀ r : List Rat, r.length = cols → aggregateObs k cols [r] = .values r) ∧
    aggregateObs k cols [] = .nan cols := by
  have hagg : ∀ t, aggregateObs k cols t = meanAxis0 cols t := by
    intro t; cases k <;> first | rfl | exact absurd rfl hk
  refine ⟨?_, ?_, ?_⟩
  · intro t hne
    refine ⟨_, by rw [hagg, meanAxis0_ne_nil _ _ hne], by simp, ?_⟩
    intro j hj
    simp [List.getElem?_map, List.getElem?_range hj, colSum]
  · intro r hr; rw [hagg, meanAxis0_single _ _ hr]
  · rw [hagg]; rfl

/-- 3 trajectories, 2 columns: the means are 2 and 20/3 — not the first trajectory, not the row means -/
example : aggregateObs .loc 2 [[1, 4], [2, 6], [3, 10]] = .values [2, 20 / 3] ∧
    meanAxis1 [[1, 4], [2, 6], [3, 10]] = [5 / 2, 4, 13 / 2] ∧
    aggregateObs .entropy 2 [[1, 4]] = .values [1, 4] := by decide +kernel

/-- **C15 (allocate → fill → reduce, as `_run_analog` / `_run_strong_sim` do it)**  If every trajectory's back-end
    call returns a row of the back-end's width for this observable, the run ends with `trajectories` = exactly those
    rows, and `results[j] = (Σ_{i < num_traj} row_i[j]) / num_traj` for every column `j`; `results` has one entry per
    column whatever `initialize` had pre-allocated for it (with `sample_timesteps=False` the pre-allocated `results`
    has `len(times)` entries, the delivered one has 1). -/
theorem run_results_is_mean (s : Settings) (k : ObsKind) (hk : k ≠ .schmidt) (hm : s.mode ≠ .weak)
    (hT : 0 < s.numTraj) (res : Nat → List Rat) (c : Nat) (hc : backendCols s = some c)
    (hlen : ∀ i, i < s.numTraj → (res i).length = c) :
    ∃ v, runObservable s k res = .ok ⟨allocate s k, (List.range s.numTraj).map res, .values v⟩ ∧
      v.length = c ∧
      ∀ j, j < c → v[j]? = some (((List.range s.numTraj).map (fun i => (res i).getD j 0)).sum / (s.numTraj : Rat)) := by
  obtain ⟨hrows, _, _, hcols, _, hfill⟩ := storage_shape s k
  have hr : (allocate s k).rows = s.numTraj := by rw [hrows]; simp [hm]
  have hcc := hcols c hc
  have hne : (List.range s.numTraj).map res ≠ [] := by
    cases hn : s.numTraj with
    | zero => omega
    | succ n => simp [List.range_succ]
  obtain ⟨v, hv, hl, hj⟩ := (results_is_mean k hk c).1 _ hne
  refine ⟨v, ?_, hl, ?_⟩
  · unfold runObservable
    simp only [hfill res c hc (by rw [hr]; exact hlen), hr, ← hcc, hv]
  · intro j hjc
    rw [hj j hjc]
    simp [List.map_map, Function.comp_def]

/-- a noisy analog run with 2 trajectories on a 3-point grid, and the same with sampling off -/
example :
    runObservable ⟨.analog, 2, 0, true, 0, [0, 1/10, 2/10], 2/10⟩ .loc (fun i => [1, (i : Rat), 3])
      = .ok ⟨⟨2, 3, .f64, 3, .grid [0, 1/10, 2/10]⟩, [[1, 0, 3], [1, 1, 3]], .values [1, 1/2, 3]⟩ ∧
    runObservable ⟨.analog, 2, 0, false, 0, [0, 1/10, 2/10], 2/10⟩ .loc (fun i => [(i : Rat)])
      = .ok ⟨⟨2, 1, .c128, 3, .scalar (2/10)⟩, [[0], [1]], .values [1/2]⟩ := by decide +kernel

/-- **C15 (Schmidt spectra are not averaged)**  For `schmidt_spectrum` observables `aggregate_trajectories`
    concatenates the trajectories' rows (row-major), so `results` has `Σ_i len(trajectories[i])` entries —
    `num_traj · cols` for a rectangular table — and the values of trajectory `i` start at offset `i · cols`; for
    cells that are vectors (`concatCells`) every cell is flattened in place.  (Through `simulator.run` this branch
    is unreachable today: scalar storage refuses a vector cell, known finding D29.) -/
theorem schmidt_is_concatenation (cols : Nat) (t : List (List Rat)) (hne : t ≠ []) :
    aggregateObs .schmidt cols t = .values t.flatten ∧
    ((∀ r ∈ t, r.length = cols) → t.flatten.length = t.length * cols) ∧
    concatCells (t.map (·.map (fun x => [x]))) = .values t.flatten := by
  refine ⟨?_, ?_, ?_⟩
  · cases t with
    | nil => exact absurd rfl hne
    | cons r t => rfl
  · intro h
    induction t with
    | nil => simp
    | cons r t ih =>
      cases t with
      | nil => simp [h r (by simp)]
      | cons r' t' =>
        have := ih (by simp) (fun x hx => h x (by simp [hx]))
        simp only [List.flatten_cons, List.length_append, List.length_cons] at this ⊢
        rw [h r (by simp), this]; ring
  · cases t with
    | nil => exact absurd rfl hne
    | cons r t =>
      simp only [concatCells, List.map_cons, List.isEmpty_cons, Bool.false_eq_true, if_false]
      congr 1
      have hflat : ∀ r : List Rat, (r.map (fun x => [x])).flatten = r := by
        intro r; induction r with
        | nil => rfl
        | cons x xs ih => simp [ih]
      simp [List.map_map, Function.comp_def, hflat]

example : aggregateObs .schmidt 2 [[1, 4], [2, 6]] = .values [1, 4, 2, 6] ∧
    concatCells [[[1/2, 1/2], [1]], [[3/4, 1/4], [1]]] = .values [1/2, 1/2, 1, 3/4, 1/4, 1] ∧
    aggregateObs .schmidt 2 [] = .valueError := by decide +kernel

/-- **C15 (the observable's `times`)**  Analog with `sample_timesteps`: the grid itself (`sim_params.times`, whose
    length and entries are `grid_exec`'s).  Analog without: the scalar `elapsed_time` the caller passed — *not* the
    last grid point; the two agree iff `elapsed_time` is the last grid point.  Strong / weak: `initialize` does not
    assign the attribute (a fresh observable has none, a reused one keeps the value of its last analog run).
    The pre-allocated `results` has `len(times)` entries in both analog settings. -/
theorem times_attr (s : Settings) (k : ObsKind) :
    (s.mode = .analog → s.sample = true → (allocate s k).times = .grid s.times) ∧
    (s.mode = .analog → s.sample = false → (allocate s k).times = .scalar s.elapsed) ∧
    (s.mode = .analog → s.sample = false →
      ((allocate s k).times = .scalar (s.times.getLastD 0) ↔ s.elapsed = s.times.getLastD 0)) ∧
    (s.mode ≠ .analog → (allocate s k).times = .untouched) ∧
    (s.mode = .analog → (allocate s k).resultsLen = s.times.length) := by
  unfold allocate
  refine ⟨?_, ?_, ?_, ?_, ?_⟩
  · intro hm hs; simp [hm, hs]
  · intro hm hs; simp [hm, hs]
  · intro hm hs; simp [hm, hs]
  · intro hm; cases h : s.mode <;> cases s.sample <;> simp_all
  · intro hm; cases s.sample <;> simp [hm]

/-- `elapsed_time = 0.25`, `dt = 0.1` (binary64 values): the grid is `0, 0.1, 0.2` (two steps are taken), yet with
    sampling off the observable's `times` says `0.25` — the single entry is the value at `0.2` -/
example :
    let T : Rat := 1 / 4
    let dt : Rat := 3602879701896397 / 2 ^ 55
    Grid.timesQ T dt = some [0, dt, 3602879701896397 / 2 ^ 54] ∧
    (allocate ⟨.analog, 1, 0, false, 0, [0, dt, 3602879701896397 / 2 ^ 54], T⟩ .loc).times = .scalar (1 / 4) ∧
    (allocate ⟨.analog, 1, 0, true, 0, [0, dt, 3602879701896397 / 2 ^ 54], T⟩ .loc).times
      = .grid [0, dt, 3602879701896397 / 2 ^ 54] := by decide +kernel

/-- **C12 (weak mode: the merged counts)**  `aggregate_measurements`:
    (a) if every slot holds a dict, the result is the key-sorted merge and its counts total `Σ` of the slots' totals;
    (b) if some slot is `None` and slot 0 holds a dict, the result is slot 0 (key-sorted), the other slots are ignored;
    (c) if slot 0 is `None`, the assertion fails;
    (d) it is the function `Params.aggregate` that C12's `counts_total` and C20's history theorems are about
        (`filter(None, …)` additionally drops empty dicts, which contribute nothing). -/
theorem aggregate_measurements_total :
    (∀ l : List Counts, ∃ c, aggregateMeasurements (l.map some) = .ok c ∧ c = sortCounts (l.foldl addAll []) ∧
      total c = (l.map total).sum) ∧
    (∀ (c : Counts) (rest : List (Option Counts)), hasNone rest = true →
      aggregateMeasurements (some c :: rest) = .ok (sortCounts c)) ∧
    (∀ rest : List (Option Counts), aggregateMeasurements (none :: rest) = .error .assertFirstNone) ∧
    (∀ ms : List (Option Counts), aggregateMeasurements ms = Params.aggregate ms) := by
  refine ⟨?_, ?_, ?_, aggregateMeasurements_eq_params⟩
  · intro l
    refine ⟨_, aggregate_all_dicts l, rfl, ?_⟩
    rw [Params.total_sortCounts, Params.total_foldl_addAll]; simp [total]
  · intro c rest h
    have : hasNone (some c :: rest) = true := by simpa [hasNone] using h
    simp [aggregateMeasurements, this]
  · intro rest
    simp [aggregateMeasurements, hasNone]

example : aggregateMeasurements [some [(3, 1)], some [(0, 1)], some [(3, 1)]] = .ok [(0, 1), (3, 2)] ∧
    aggregateMeasurements [some [(3, 2), (0, 5)], none, none] = .ok [(0, 5), (3, 2)] ∧
    aggregateMeasurements [some [(3, 2)], some [], some [(1, 1)]] = .ok [(1, 1), (3, 2)] ∧
    aggregateMeasurements [none, some [(3, 2)]] = .error .assertFirstNone ∧
    aggregateDropFirst [some [(3, 1)], some [(0, 1)], some [(3, 1)]] = [(0, 1), (3, 1)] := by decide +kernel

/-- **C12 (which branch a run takes)**  `_run_weak_sim` allocates `[None] * shots` and fills slot `i` from trajectory `i`
    (`shots ≥ 1`).  The test `None in measurements` is true **iff the run is noise-free and `shots ≥ 2`** (one
    trajectory filled slot 0 only).  Noise-free with `shots = 1`: no `None` is left, the merge branch runs over the
    single dict — and still returns slot 0 (a dict's keys are distinct).  So a noise-free run always delivers the
    key-sorted slot 0, total = what the single trajectory drew; a noisy run delivers the merge of all `shots` slots,
    total `Σ_i total(slot i)` (= `shots` when every trajectory draws one sample, C12 `counts_total`).
    More trajectories than slots (`shots = 0`, noise-free) is an `IndexError` (`none`). -/
theorem weak_branch (shots : Nat) (res : Nat → Counts) :
    (1 ≤ shots → ∀ nf : Bool, ∃ ms, weakSlots shots res (if nf then 1 else shots) = some ms ∧ ms.length = shots ∧
      (hasNone ms = true ↔ nf = true ∧ 2 ≤ shots)) ∧
    (1 ≤ shots → ((res 0).map (·.1)).Nodup →
      ∃ ms, runWeakStore shots true res = some ⟨ms, decide (2 ≤ shots), .ok (sortCounts (res 0))⟩) ∧
    (∃ ms c, runWeakStore shots false res = some ⟨ms, false, .ok c⟩ ∧
      total c = ((List.range shots).map (fun i => total (res i))).sum) ∧
    runWeakStore 0 true res = none := by
  have hmm : ∀ n, (List.range n).map (fun i => some (res i)) = ((List.range n).map res).map some := by
    intro n; simp [List.map_map, Function.comp_def]
  refine ⟨?_, ?_, ?_, ?_⟩
  · intro h1 nf
    cases nf with
    | true =>
      refine ⟨((List.range 1).map res).map some ++ List.replicate (shots - 1) none,
        by simp [weakSlots, h1], by simp; omega, ?_⟩
      rw [hasNone_append_replicate]; simp; omega
    | false =>
      refine ⟨((List.range shots).map res).map some ++ List.replicate (shots - shots) none,
        by simp [weakSlots, hmm], by simp, ?_⟩
      rw [hasNone_append_replicate]; simp
  · intro h1 hnd
    refine ⟨some (res 0) :: List.replicate (shots - 1) none, ?_⟩
    have hslots : weakSlots shots res 1 = some (some (res 0) :: List.replicate (shots - 1) none) := by
      simp [weakSlots, h1]
    have hhas : hasNone (some (res 0) :: List.replicate (shots - 1) none) = decide (2 ≤ shots) := by
      have := hasNone_append_replicate [res 0] (shots - 1)
      simp only [List.map_cons, List.map_nil, List.singleton_append] at this
      rw [this]; congr 1; apply propext; omega
    unfold runWeakStore
    simp only [if_true, hslots, hhas]
    by_cases h2 : 2 ≤ shots
    · have hrest : hasNone (List.replicate (shots - 1) none) = true := by
        obtain ⟨m, hm⟩ : ∃ m, shots - 1 = m + 1 := ⟨shots - 2, by omega⟩
        simp [hm, hasNone, List.replicate_succ]
      rw [aggregate_measurements_total.2.1 (res 0) _ hrest]
    · have hs : shots - 1 = 0 := by omega
      rw [hs]
      have := aggregate_all_dicts [res 0]
      simp only [List.map_cons, List.map_nil, List.foldl_cons, List.foldl_nil] at this
      simp only [List.replicate_zero]
      rw [this, addAll_fresh [] (res 0) (by simpa using hnd)]
      simp
  · obtain ⟨c, hc, _, htot⟩ := aggregate_measurements_total.1 ((List.range shots).map res)
    refine ⟨((List.range shots).map res).map some, c, ?_, ?_⟩
    · unfold runWeakStore
      simp only [Bool.false_eq_true, if_false, weakSlots, Nat.le_refl, if_true, hmm, Nat.sub_self,
        List.replicate_zero, List.append_nil, hasNone_map_some, hc]
    · rw [htot]; simp [List.map_map, Function.comp_def]
  · simp [runWeakStore, weakSlots]

/-- `shots = 1` noise-free takes the merge branch, `shots = 3` noise-free the slot-0 branch, noisy always merges -/
example :
    runWeakStore 1 true (fun _ => [(2, 1)]) = some ⟨[some [(2, 1)]], false, .ok [(2, 1)]⟩ ∧
    runWeakStore 3 true (fun _ => [(2, 2), (1, 1)])
      = some ⟨[some [(2, 2), (1, 1)], none, none], true, .ok [(1, 1), (2, 2)]⟩ ∧
    runWeakStore 3 false (fun i => [(i % 2, 1)])
      = some ⟨[some [(0, 1)], some [(1, 1)], some [(0, 1)]], false, .ok [(0, 2), (1, 1)]⟩ := by decide +kernel

/-- **C15 (sanity: the mean of equal trajectories is that trajectory)**  e.g. a noise-free model run with several
    identical trajectories. -/
theorem mean_of_constant (k : ObsKind) (hk : k ≠ .schmidt) (cols n : Nat) (r : List Rat) (hr : r.length = cols)
    (hn : 0 < n) : aggregateObs k cols (List.replicate n r) = .values r := by
  have : aggregateObs k cols (List.replicate n r) = meanAxis0 cols (List.replicate n r) := by
    cases k <;> first | rfl | exact absurd rfl hk
  rw [this, meanAxis0_replicate cols n r hr hn]

example : aggregateObs .loc 3 (List.replicate 4 [1/3, 2, -5]) = .values [1/3, 2, -5] := by decide +kernel

/-- **C15 (averaging commutes with affine maps)**  Applying `x ↦ a·x + c` to every stored value and then averaging
    is the same as averaging and then applying it (any table with rows of `cols` entries, the empty one included). -/
theorem mean_linear (cols : Nat) (a c : Rat) (t : List (List Rat)) (h : ∀ r ∈ t, r.length = cols) :
    meanAxis0 cols (t.map (·.map (fun x => a * x + c))) = (meanAxis0 cols t).map (fun x => a * x + c) :=
  meanAxis0_affine cols a c t h

/-- **C15 (averaging is additive)**  The mean of the entrywise sum of two equally shaped tables is the sum of
    their means (so the mean of `⟨A⟩ + ⟨B⟩` trajectories is the sum of the reported results). -/
theorem mean_additive (cols : Nat) (t u : List (List Rat)) (hl : t.length = u.length) (hne : t ≠ [])
    (ht : ∀ r ∈ t, r.length = cols) (hu : ∀ r ∈ u, r.length = cols) :
    meanAxis0 cols (List.zipWith (List.zipWith (· + ·)) t u) =
      .values ((List.range cols).map (fun k => colSum t k / (t.length : Rat) + colSum u k / (u.length : Rat))) :=
  meanAxis0_add cols t u hl hne ht hu

example : meanAxis0 2 ([[1, 4], [3, 0]].map (·.map (fun x => 2 * x + 1))) = .values [5, 5] ∧
    (meanAxis0 2 [[1, 4], [3, 0]]).map (fun x => 2 * x + 1) = .values [5, 5] ∧
    meanAxis0 2 (List.zipWith (List.zipWith (· + ·)) [[1, 4], [3, 0]] [[1, 1], [0, 2]]) = .values [5/2, 7/2] := by
  decide +kernel

/-- complex128 storage: real and imaginary parts are averaged separately, each as in `results_is_mean` -/
example : meanAxis0C 2 [[(1, 1), (0, -2)], [(3, 0), (1, 2)]] = (.values [2, 1/2], .values [1/2, 0]) := by
  decide +kernel

/-- **C15.4 (rows of the tables)** the number of trajectories a run allocates rows for: one when the run is noise-free
    (or the Lindblad solver), otherwise the number requested — never zero for a positive request -/
theorem eff_traj_rule (requested : Nat) :
    effTraj requested true = 1 ∧ effTraj requested false = requested ∧
    (∀ single, 1 ≤ requested → 1 ≤ effTraj requested single) := by
  refine ⟨rfl, rfl, ?_⟩
  intro single h
  cases single <;> simp [effTraj, h]

end Yaqs.Storage
