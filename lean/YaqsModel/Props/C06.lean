import YaqsModel.Lemmas.Index
import YaqsModel.Lemmas.MasterEq
import YaqsModel.Lemmas.MasterEqExec
import YaqsModel.Model.Pipeline
import Mathlib.Data.Complex.Basic
import Mathlib.Tactic.NormNum
import Mathlib.Algebra.BigOperators.Group.List.Basic

/-!
# C06 — all analog solvers describe the same system and index sites the same way

Property theorems only (helpers in `Lemmas/Index.lean`).  A basis state is a digit list `b` (site 0 first) with
local dimensions `d`; `Valid d b` says the lists have equal length and every digit is below its dimension.
All theorems hold for every chain length and every mix of local dimensions; the matrix entries live in an
arbitrary type with a multiplication (`kron_entry`) resp. with `0`, `1` and a multiplication (`embed_site_*`),
so they cover real, complex, dense and sparse operators alike.

What the theorems say about the code: the dense operators (`_embed_generic`, `MPO.to_matrix`,
`MPO.to_sparse_matrix`) place site 0 in the most significant position (`kronIdx`); `MPS.to_vec` places site 0 in
the least significant one (`toVecIdx`); after the repair the vector that `lindblad` and `preprocess_mcwf` hand
to the integrator is indexed by `kronIdx` again (`solver_consistent`), whereas the code as found agreed with the
operators only on palindromic basis states (`solver_old_iff_palindrome`, `solver_old_counterexample`).
The numerical part of the property (RK45 within tolerance, TDVP / Arnoldi accuracy) is not a theorem; it is
measured by the oracle of the correspondence check against a dense master-equation reference.
-/
namespace Yaqs.Index

variable {α : Type}

/-- the list `A₁[b₁,c₁], A₂[b₂,c₂], …` -/
def entryList : List (Mat α) → List Nat → List Nat → List α
  | A :: As, b :: bs, c :: cs => A.e b c :: entryList As bs cs
  | _, _, _ => []

private theorem entryProd_eq_mul_prod [Monoid α] : ∀ (a : α) (As : List (Mat α)) (bs cs : List Nat),
    entryProd a As bs cs = a * (entryList As bs cs).prod
  | a, [], _, _ => by simp [entryProd, entryList]
  | a, _ :: _, [], _ => by simp [entryProd, entryList]
  | a, _ :: _, _ :: _, [] => by simp [entryProd, entryList]
  | a, A :: As, b :: bs, c :: cs => by
    simp only [entryProd, entryList, List.prod_cons]
    rw [entryProd_eq_mul_prod _ As bs cs, mul_assoc]

/-- **C06.1 `kron_entry`** For every number of factors and every mix of (not necessarily square) factor shapes:
    the entry of `A₀ ⊗ A₁ ⊗ … ⊗ A_{L-1}` (built the way `_kron_all_*`, `MPO.to_matrix` on a product operator do: left
    fold of `np.kron`) at row `kronIdx b`, column `kronIdx c` is the left-nested product of the entries
    `A_i[b_i, c_i]`; the shape of the result is the product of the shapes.  Needs only a multiplication. -/
theorem kron_entry [Mul α] (A : Mat α) (As : List (Mat α)) (b c : Nat) (bs cs : List Nat)
    (hr : Valid ((A :: As).map (·.rows)) (b :: bs)) (hc : Valid ((A :: As).map (·.cols)) (c :: cs)) :
    ∃ M, kronAll (A :: As) = some M ∧
      M.rows = dimProd ((A :: As).map (·.rows)) ∧ M.cols = dimProd ((A :: As).map (·.cols)) ∧
      M.e (kronIdx ((A :: As).map (·.rows)) (b :: bs)) (kronIdx ((A :: As).map (·.cols)) (c :: cs))
        = entryProd (A.e b c) As bs cs := by
  refine ⟨As.foldl kron A, rfl, ?_, ?_, ?_⟩
  · simpa [dimProd] using (foldl_kron_rows As A).1
  · simpa [dimProd] using (foldl_kron_rows As A).2
  · have := foldl_kron_entry As A b c bs cs hr.2 hc.2
    simpa [kronIdx, kronIdxFrom] using this

/-- **C06.1b** the same entry as an ordinary product `Π_i A_i[b_i, c_i]` when the entries form a monoid -/
theorem kron_entry_prod [Monoid α] (A : Mat α) (As : List (Mat α)) (b c : Nat) (bs cs : List Nat)
    (hr : Valid ((A :: As).map (·.rows)) (b :: bs)) (hc : Valid ((A :: As).map (·.cols)) (c :: cs)) :
    ∃ M, kronAll (A :: As) = some M ∧
      M.e (kronIdx ((A :: As).map (·.rows)) (b :: bs)) (kronIdx ((A :: As).map (·.cols)) (c :: cs))
        = (entryList (A :: As) (b :: bs) (c :: cs)).prod := by
  obtain ⟨M, hM, _, _, he⟩ := kron_entry A As b c bs cs hr hc
  exact ⟨M, hM, by rw [he, entryProd_eq_mul_prod]; simp [entryList]⟩

/-- **C06.2 `toVec_is_reversed`** `MPS.to_vec` (site 0 least significant) indexes a basis state like the
    Kronecker convention applied to the reversed chain — for every length and mixed local dimensions.  The second
    component says that the documented convention is what the code (flip, then merge) computes. -/
theorem toVec_is_reversed (d b : List Nat) (h : Valid d b) :
    toVecIdx d b = kronIdx d.reverse b.reverse ∧ toVecIdxCode d b = toVecIdx d b :=
  ⟨toVecIdx_eq_code h, (toVecIdx_eq_code h).symm⟩

/-- **C06.3 `solver_consistent`** (repaired code) the vector handed to the Lindblad / MCWF integrator carries
    basis state `b` at the position the embedded operators use for it, for every chain. -/
theorem solver_consistent (d b : List Nat) (h : Valid d b) : solverIdxD d b = kronIdx d b := by
  unfold solverIdxD
  simp only [List.reverse_reverse]
  rw [toVecIdx_eq_code h]
  unfold toVecIdxCode
  rw [unflat_kronIdx h.reverse, List.reverse_reverse]

/-- **C06.3b** the qubit instance actually coded (`reshape([2]*L)`) -/
theorem solver_consistent_qubits (b : List Nat) (h : ∀ x ∈ b, x < 2) :
    solverIdx b = kronIdx (List.replicate b.length 2) b :=
  solver_consistent _ b ((valid_replicate_iff _ _ _).mpr ⟨rfl, h⟩)

/-- **C06.3c** the code as found agreed with its operators exactly on palindromic basis states -/
theorem solver_old_iff_palindrome (b : List Nat) (h : ∀ x ∈ b, x < 2) :
    solverIdxOld b = kronIdx (List.replicate b.length 2) b ↔ b.reverse = b := by
  have hv : Valid (List.replicate b.length 2) b := (valid_replicate_iff _ _ _).mpr ⟨rfl, h⟩
  have hvr : Valid (List.replicate b.length 2) b.reverse := by
    have := hv.reverse
    rwa [List.reverse_replicate] at this
  unfold solverIdxOld
  rw [toVecIdx_eq_code hv]
  unfold toVecIdxCode
  rw [List.reverse_replicate]
  constructor
  · intro he; exact kronIdx_inj hvr hv he
  · intro he; rw [he]

/-- **C06.3d `solver_old_counterexample`** (D6) on `"100"` the old solvers read the excitation at position 1
    (site 2 of the operators) while the operators address site 0 at position 4 -/
theorem solver_old_counterexample :
    solverIdxOld [1, 0, 0] = 1 ∧ kronIdx [2, 2, 2] [1, 0, 0] = 4 ∧ solverIdx [1, 0, 0] = 4 ∧
    kronIdx [2, 2, 2] [0, 0, 1] = 1 := by decide

/-- **C06.4a `embed_site` (one site)** `_embed_generic(sites=[i], op_matrix=A)` on `L = |pre|+1+|post|` qubits:
    the entry between basis states `pre ++ x :: post` and `pre' ++ x' :: post'` is `A[x, x']` if all other digits
    agree and `0` otherwise — the operator acts on digit `i = |pre|` and on nothing else. -/
theorem embed_site_one [MulZeroOneClass α] (A : Mat α) (pre pre' post post' : List Nat) (x x' : Nat)
    (hp : pre'.length = pre.length) (hq : post'.length = post.length)
    (hA : A.rows = 2 ∧ A.cols = 2)
    (hb : ∀ z ∈ pre ++ x :: post, z < 2) (hb' : ∀ z ∈ pre' ++ x' :: post', z < 2) :
    ∃ M, embed1 (pre.length + 1 + post.length) pre.length A = some M ∧
      M.e (kronIdx (List.replicate (pre.length + 1 + post.length) 2) (pre ++ x :: post))
          (kronIdx (List.replicate (pre.length + 1 + post.length) 2) (pre' ++ x' :: post'))
        = if pre = pre' ∧ post = post' then A.e x x' else 0 := by
  set L := pre.length + 1 + post.length with hL
  have hops : (List.replicate L (eye (α := α) 2)).set pre.length A
      = List.replicate pre.length (eye 2) ++ A :: List.replicate post.length (eye 2) := replicate_set _ _ _ _
  have hlt : pre.length < L := by omega
  have hrows : (List.replicate pre.length (eye (α := α) 2) ++ A :: List.replicate post.length (eye 2)).map (·.rows)
      = List.replicate L 2 := by
    simp [eye, hA.1, hL, List.replicate_add]
  have hcols : (List.replicate pre.length (eye (α := α) 2) ++ A :: List.replicate post.length (eye 2)).map (·.cols)
      = List.replicate L 2 := by
    simp [eye, hA.2, hL, List.replicate_add]
  have hvb : Valid (List.replicate L 2) (pre ++ x :: post) :=
    (valid_replicate_iff _ _ _).mpr ⟨by simp [hL]; omega, hb⟩
  have hvb' : Valid (List.replicate L 2) (pre' ++ x' :: post') :=
    (valid_replicate_iff _ _ _).mpr ⟨by simp [hL]; omega, hb'⟩
  obtain ⟨M, hM, he⟩ := kronAll_entry_uniform
    (List.replicate pre.length (eye (α := α) 2) ++ A :: List.replicate post.length (eye 2)) (by simp)
    (pre ++ x :: post) (pre' ++ x' :: post') (by rw [hrows]; exact hvb) (by rw [hcols]; exact hvb')
  rw [hrows, hcols] at he
  refine ⟨M, ?_, ?_⟩
  · simp only [embed1, hlt, if_true, hops, hM]
  · rw [he, entryProd_eye_prefix pre.length 1 2 _ pre pre' _ _ rfl hp]
    by_cases h1 : pre = pre'
    · simp only [h1, if_true, true_and, entryProd, one_mul]
      exact entryProd_eye_suffix post.length _ 2 post post' rfl hq
    · simp [h1]

/-- **C06.4b `embed_site` (adjacent pair)** `_embed_generic(sites={i,i+1}, op_matrix=M)` (a 4×4 matrix):
    the entry between `pre ++ x :: y :: post` and `pre' ++ x' :: y' :: post'` is `M[2x+y, 2x'+y']` if the other
    digits agree and `0` otherwise — the first tensor factor of `M` acts on digit `i`, the second on `i+1`. -/
theorem embed_site_adjacent [MulZeroOneClass α] (M : Mat α) (pre pre' post post' : List Nat) (x y x' y' : Nat)
    (hp : pre'.length = pre.length) (hq : post'.length = post.length)
    (hM : M.rows = 4 ∧ M.cols = 4)
    (hb : ∀ z ∈ pre ++ x :: y :: post, z < 2) (hb' : ∀ z ∈ pre' ++ x' :: y' :: post', z < 2) :
    ∃ E, embed2 (pre.length + 2 + post.length) pre.length (pre.length + 1) M = some E ∧
      embed2 (pre.length + 2 + post.length) (pre.length + 1) pre.length M = some E ∧
      E.e (kronIdx (List.replicate (pre.length + 2 + post.length) 2) (pre ++ x :: y :: post))
          (kronIdx (List.replicate (pre.length + 2 + post.length) 2) (pre' ++ x' :: y' :: post'))
        = if pre = pre' ∧ post = post' then M.e (2 * x + y) (2 * x' + y') else 0 := by
  set p := pre.length with hpdef
  set q := post.length with hqdef
  have vpre : Valid (List.replicate p 2) pre :=
    (valid_replicate_iff _ _ _).mpr ⟨rfl, fun z hz => hb z (List.mem_append_left _ hz)⟩
  have vpre' : Valid (List.replicate p 2) pre' :=
    (valid_replicate_iff _ _ _).mpr ⟨hp, fun z hz => hb' z (List.mem_append_left _ hz)⟩
  have vpost : Valid (List.replicate q 2) post :=
    (valid_replicate_iff _ _ _).mpr ⟨rfl, fun z hz => hb z (by simp [hz])⟩
  have vpost' : Valid (List.replicate q 2) post' :=
    (valid_replicate_iff _ _ _).mpr ⟨hq, fun z hz => hb' z (by simp [hz])⟩
  have hx : x < 2 := hb x (by simp)
  have hy : y < 2 := hb y (by simp)
  have hx' : x' < 2 := hb' x' (by simp)
  have hy' : y' < 2 := hb' y' (by simp)
  have vxy : Valid [2, 2] [x, y] := by simp [Valid, hx, hy]
  have vxy' : Valid [2, 2] [x', y'] := by simp [Valid, hx', hy']
  have hsplit : List.replicate (p + 2 + q) 2 = List.replicate p 2 ++ ([2, 2] ++ List.replicate q 2) := by
    rw [show p + 2 + q = p + (2 + q) by omega, List.replicate_add, List.replicate_add]; rfl
  have idx : ∀ (l r : List Nat) (a c : Nat), Valid (List.replicate p 2) l → Valid (List.replicate q 2) r →
      Valid [2, 2] [a, c] →
      kronIdx (List.replicate (p + 2 + q) 2) (l ++ a :: c :: r)
        = (kronIdx (List.replicate p 2) l * 4 + (2 * a + c)) * 2 ^ q + kronIdx (List.replicate q 2) r := by
    intro l r a c hl hr hac
    rw [hsplit, show l ++ a :: c :: r = l ++ ([a, c] ++ r) by simp,
      kronIdx_append hl (hac.append hr), kronIdx_append hac hr, dimProd_append, dimProd_replicate]
    simp [kronIdx, kronIdxFrom, dimProd]
    ring
  have hKp := kronIdx_lt vpost
  have hKp' := kronIdx_lt vpost'
  rw [dimProd_replicate] at hKp hKp'
  refine ⟨kron (kron (eye (2 ^ p)) M) (eye (2 ^ q)), ?_, ?_, ?_⟩
  · simp only [embed2]
    have h1 : min p (p + 1) = p := by omega
    have h2 : max p (p + 1) = p + 1 := by omega
    rw [h1, h2]
    simp only [ne_eq, not_true_eq_false, if_false]
    rw [show p + 2 + q - 1 - (p + 1) = q by omega]
  · simp only [embed2]
    have h1 : min (p + 1) p = p := by omega
    have h2 : max (p + 1) p = p + 1 := by omega
    rw [h1, h2]
    simp only [ne_eq, not_true_eq_false, if_false]
    rw [show p + 2 + q - 1 - (p + 1) = q by omega]
  · rw [idx pre post x y vpre vpost vxy, idx pre' post' x' y' vpre' vpost' vxy']
    set P := kronIdx (List.replicate p 2) pre
    set P' := kronIdx (List.replicate p 2) pre'
    set K := kronIdx (List.replicate q 2) post
    set K' := kronIdx (List.replicate q 2) post'
    have hm : 2 * x + y < 4 := by omega
    have hm' : 2 * x' + y' < 4 := by omega
    have e1 : (kron (kron (eye (α := α) (2 ^ p)) M) (eye (2 ^ q))).e ((P * 4 + (2 * x + y)) * 2 ^ q + K)
        ((P' * 4 + (2 * x' + y')) * 2 ^ q + K')
        = (kron (eye (α := α) (2 ^ p)) M).e (P * 4 + (2 * x + y)) (P' * 4 + (2 * x' + y')) * (eye (2 ^ q)).e K K' :=
      kron_e_mul_add (kron (eye (α := α) (2 ^ p)) M) (eye (2 ^ q)) (P * 4 + (2 * x + y)) (P' * 4 + (2 * x' + y'))
        K K' hKp hKp'
    have e2 := kron_e_mul_add (eye (α := α) (2 ^ p)) M P P' (2 * x + y) (2 * x' + y') (by rw [hM.1]; exact hm)
      (by rw [hM.2]; exact hm')
    rw [hM.1, hM.2] at e2
    rw [e1, e2]
    have hP : P = P' ↔ pre = pre' := ⟨fun h => kronIdx_inj vpre vpre' h, fun h => by simp [P, P', h]⟩
    have hK : K = K' ↔ post = post' := ⟨fun h => kronIdx_inj vpost vpost' h, fun h => by simp [K, K', h]⟩
    by_cases h1 : pre = pre' <;> by_cases h2 : post = post' <;>
      simp [eye, hP, hK, h1, h2]

/-- **C06.4c `embed_site` (factor pair, `s1 < s2`)** `_embed_generic(sites=[i,j], op_factors=(A,B))` with `i < j`:
    the entry is `A[x,x'] * B[y,y']` if all digits other than `i` and `j` agree and `0` otherwise — `A` acts on
    digit `i = |p0|`, `B` on digit `j = |p0|+1+|p1|`. -/
theorem embed_site_factors [MulZeroOneClass α] (A B : Mat α) (p0 p0' p1 p1' p2 p2' : List Nat) (x y x' y' : Nat)
    (h0 : p0'.length = p0.length) (h1 : p1'.length = p1.length) (h2 : p2'.length = p2.length)
    (hA : A.rows = 2 ∧ A.cols = 2) (hB : B.rows = 2 ∧ B.cols = 2)
    (hb : ∀ z ∈ p0 ++ x :: (p1 ++ y :: p2), z < 2) (hb' : ∀ z ∈ p0' ++ x' :: (p1' ++ y' :: p2'), z < 2) :
    ∃ E, embedF (p0.length + 1 + (p1.length + 1 + p2.length)) p0.length (p0.length + 1 + p1.length) A B = some E ∧
      E.e (kronIdx (List.replicate (p0.length + 1 + (p1.length + 1 + p2.length)) 2) (p0 ++ x :: (p1 ++ y :: p2)))
          (kronIdx (List.replicate (p0.length + 1 + (p1.length + 1 + p2.length)) 2) (p0' ++ x' :: (p1' ++ y' :: p2')))
        = if p0 = p0' ∧ p1 = p1' ∧ p2 = p2' then A.e x x' * B.e y y' else 0 := by
  set L := p0.length + 1 + (p1.length + 1 + p2.length) with hL
  have hops : ((List.replicate L (eye (α := α) 2)).set p0.length A).set (p0.length + 1 + p1.length) B
      = List.replicate p0.length (eye 2) ++ A :: (List.replicate p1.length (eye 2) ++ B :: List.replicate p2.length (eye 2)) := by
    rw [hL, replicate_set, List.set_append_right _ _ (by simp; omega)]
    simp only [List.length_replicate]
    rw [show p0.length + 1 + p1.length - p0.length = p1.length + 1 by omega, List.set_cons_succ, replicate_set]
  have hrows : (List.replicate p0.length (eye (α := α) 2) ++ A :: (List.replicate p1.length (eye 2) ++ B ::
      List.replicate p2.length (eye 2))).map (·.rows) = List.replicate L 2 := by
    simp [eye, hA.1, hB.1, hL, List.replicate_add]
  have hcols : (List.replicate p0.length (eye (α := α) 2) ++ A :: (List.replicate p1.length (eye 2) ++ B ::
      List.replicate p2.length (eye 2))).map (·.cols) = List.replicate L 2 := by
    simp [eye, hA.2, hB.2, hL, List.replicate_add]
  have hvb : Valid (List.replicate L 2) (p0 ++ x :: (p1 ++ y :: p2)) :=
    (valid_replicate_iff _ _ _).mpr ⟨by simp [hL]; omega, hb⟩
  have hvb' : Valid (List.replicate L 2) (p0' ++ x' :: (p1' ++ y' :: p2')) :=
    (valid_replicate_iff _ _ _).mpr ⟨by simp [hL]; omega, hb'⟩
  obtain ⟨M, hM, he⟩ := kronAll_entry_uniform
    (List.replicate p0.length (eye (α := α) 2) ++ A :: (List.replicate p1.length (eye 2) ++ B ::
      List.replicate p2.length (eye 2))) (by simp)
    (p0 ++ x :: (p1 ++ y :: p2)) (p0' ++ x' :: (p1' ++ y' :: p2')) (by rw [hrows]; exact hvb) (by rw [hcols]; exact hvb')
  rw [hrows, hcols] at he
  refine ⟨M, ?_, ?_⟩
  · have hlt : p0.length < L ∧ p0.length + 1 + p1.length < L := by omega
    simp only [embedF, hlt, and_self, if_true, hops, hM]
  · rw [he, entryProd_eye_prefix p0.length 1 2 _ p0 p0' _ _ rfl h0]
    by_cases e0 : p0 = p0'
    · simp only [e0, if_true, true_and, entryProd, one_mul]
      rw [entryProd_eye_prefix p1.length _ 2 _ p1 p1' _ _ rfl h1]
      by_cases e1 : p1 = p1'
      · simp only [e1, if_true, true_and, entryProd]
        exact entryProd_eye_suffix p2.length _ 2 p2 p2' rfl h2
      · simp [e1]
    · simp [e0]

/-- **C06.5 `kronIdx_bij`** digits ↔ flat index is a bijection between the valid digit lists and `[0, Π d)`:
    the index is in range, `unflat` inverts `kronIdx` on valid digits, and `kronIdx` inverts `unflat` below `Π d`;
    in particular two different basis states never share a position. -/
theorem kronIdx_bij (d : List Nat) :
    (∀ b, Valid d b → kronIdx d b < dimProd d ∧ unflat d (kronIdx d b) = b) ∧
    (∀ k, k < dimProd d → Valid d (unflat d k) ∧ kronIdx d (unflat d k) = k) ∧
    (∀ b b', Valid d b → Valid d b' → kronIdx d b = kronIdx d b' → b = b') :=
  ⟨fun _ h => ⟨kronIdx_lt h, unflat_kronIdx h⟩, fun k hk => kronIdx_unflat d k hk,
   fun _ _ h h' he => kronIdx_inj h h' he⟩

/-! ### non-vacuity: concrete instances (mixed dimensions, asymmetric states, non-symmetric operators) -/

/-- a qutrit–qubit–qubit chain: `|2,0,1⟩` sits at 2·4+0·2+1 = 9 for the operators and at 2+3·(0+2·1) = 8 in `to_vec` -/
example : kronIdx [3, 2, 2] [2, 0, 1] = 9 ∧ toVecIdx [3, 2, 2] [2, 0, 1] = 8 ∧
    solverIdxD [3, 2, 2] [2, 0, 1] = 9 ∧ unflat [3, 2, 2] 9 = [2, 0, 1] ∧ Valid [3, 2, 2] [2, 0, 1] := by decide

example : solverIdxOld [1, 1, 0] = 3 ∧ solverIdx [1, 1, 0] = 6 ∧ kronIdx [2, 2, 2] [1, 1, 0] = 6 := by decide

/-- the lowering operator `[[0,1],[0,0]]` on site 0 of three qubits maps `|100⟩` (index 4) to `|000⟩` (index 0) and
    does not touch `|001⟩` (index 1) -/
example : ((embed1 3 0 (ofList 2 2 [0, 1, 0, 0] : Mat Int)).map fun M => (M.e 0 4, M.e 0 1, M.e 4 0, M.rows)) =
    some (1, 0, 0, 8) := by decide

/-- a non-symmetric product `A ⊗ B`, `A = [[1,2],[3,4]]`, `B = [[5,6],[7,8]]`: entry (|10⟩,|01⟩) = A[1,0]·B[0,1] -/
example : ((kronAll [(ofList 2 2 [1, 2, 3, 4] : Mat Int), ofList 2 2 [5, 6, 7, 8]]).map fun M => M.e 2 1) =
    some 18 := by decide

example : ((embed2 3 2 1 (ofList 4 4 [0, 1, 2, 3, 4, 5, 6, 7, 8, 9, 10, 11, 12, 13, 14, 15] : Mat Int)).map
    fun M => (M.e 1 2, M.e 5 6, M.e 1 6)) = some (6, 6, 0) := by decide

example : ((embedF 4 0 2 (ofList 2 2 [1, 2, 3, 4] : Mat Int) (ofList 2 2 [5, 6, 7, 8])).map
    fun M => (M.e 8 2, M.e 9 3, M.e 8 3)) = some (18, 18, 0) := by decide

end Yaqs.Index

/-!
# C06, extension — the *content* of the Lindblad and MCWF solvers ("describe the same system")

The theorems below are about `Model.MasterEq` (the accumulation `lindblad_rhs` performs, which processes become jump
operators, `H_eff`, one pass of the MCWF loop).  The polymorphic definitions `lindbladRhs`, `lDagLSum`, `heff`,
`jumpOps` are instantiated on Mathlib matrices `Matrix n n R` over an arbitrary commutative star ring `R`
(`matrixOps i h rate`; ℂ and the Gaussian rationals are instances), where `i` plays the imaginary unit, `h` one half
and `rate : Rat → R` embeds the strengths; each theorem lists which of `star i = -i`, `i * i = -1`, `h + h = 1`,
`star h = h`, `star (rate q) = rate q` it needs.  The driver runs the *same* definitions on `listOps n`
(`List (List CRat)`), and the correspondence check compares them entrywise with the real `lindblad_rhs` closure,
`l_dag_l_sum`, `preprocess_mcwf(...).heff/.jump_ops` and one forced pass of `mcwf`.
-/
namespace Yaqs.MasterEq

open Matrix Yaqs.Dist

variable {n : Type} [Fintype n] {R : Type} [CommRing R] [StarRing R]

/-- **C06.6 `lindblad_rhs_is_lindbladian`** (`lindblad` steps 3–4 and `lindblad_rhs`) For every Hamiltonian, state and
    process list: what the code accumulates — `-1j*(Hρ-ρH)`, then `+= LρL†` per kept operator, then one subtraction of
    `0.5*{Σ L†L, ρ}` — is the Lindbladian in standard form `-i[H,ρ] + Σ_k γ_k (L_k ρ L_k† − ½{L_k†L_k, ρ})` in which
    * the same `k` appears in `L_k ρ L_k†` and in `L_k†L_k` (one `dissipator` per process),
    * every process of the list with strength `> 0` contributes exactly once with its own rate, and every process with
      strength `≤ 0` contributes with coefficient `0` (first conjunct: a sum over the *whole* list),
    * the kept operators are a sub-list (same order) of the process list, characterised by membership and positivity. -/
theorem lindblad_rhs_is_lindbladian (i h : R) (rate : Rat → R) (H ρ : Matrix n n R)
    (procs : List (Proc (Matrix n n R))) :
    lindbladOfProcs (matrixOps i h rate) H procs ρ
        = (-i) • (H * ρ - ρ * H)
          + (procs.map fun p => (if 0 < p.gamma then rate p.gamma else 0) • dissipator h p.op ρ).sum
    ∧ lindbladOfProcs (matrixOps i h rate) H procs ρ = lindbladian i h rate H (jumpOps procs) ρ
    ∧ (jumpOps procs).Sublist procs
    ∧ ∀ p, p ∈ jumpOps procs ↔ p ∈ procs ∧ 0 < p.gamma := by
  refine ⟨?_, lindbladRhs_matrix i h rate H (jumpOps procs) ρ, List.filter_sublist, ?_⟩
  · unfold lindbladOfProcs
    rw [lindbladRhs_matrix, lindbladian, jumpOps, sum_filter_eq_sum_ite]
    congr 2
    apply List.map_congr_left
    intro p _
    by_cases hp : 0 < p.gamma <;> simp [hp]
  · intro p
    simp [jumpOps, List.mem_filter]

/-- **C06.6b `sqrt_scaling_equiv`** (`jump_ops.append(np.sqrt(strength) * op_full)`) The literal code works with
    pre-scaled operators `J_k = r_k·L_k` and no rate; whenever `r_k` is real and `r_k·r_k = γ_k` (what `np.sqrt`
    delivers up to rounding) this is the model's accumulation with the rate `γ_k` carried next to `L_k` — for the
    right-hand side and for `l_dag_l_sum`. -/
theorem sqrt_scaling_equiv (i h : R) (rate : Rat → R) (H ρ : Matrix n n R) (Ls : List (Proc (Matrix n n R)))
    (r : Proc (Matrix n n R) → R) (hr : ∀ p ∈ Ls, star (r p) = r p ∧ r p * r p = rate p.gamma) :
    lindbladRhsJ (matrixOps i h rate) H (Ls.map fun p => r p • p.op) ρ = lindbladRhs (matrixOps i h rate) H Ls ρ
    ∧ lDagLSumJ (matrixOps i h rate) (Ls.map fun p => r p • p.op) = lDagLSum (matrixOps i h rate) Ls := by
  have hS : lDagLSumJ (matrixOps i h rate) (Ls.map fun p => r p • p.op) = lDagLSum (matrixOps i h rate) Ls := by
    unfold lDagLSumJ lDagLSum
    simp only [matrixOps, List.foldl_map]
    rw [foldl_add_eq_sum (fun p : Proc (Matrix n n R) => (r p • p.op)ᴴ * (r p • p.op)) Ls,
      foldl_add_eq_sum (fun p : Proc (Matrix n n R) => rate p.gamma • (p.opᴴ * p.op)) Ls]
    congr 2
    apply List.map_congr_left
    intro p hp
    obtain ⟨h1, h2⟩ := hr p hp
    rw [conjTranspose_smul, h1, Matrix.smul_mul, Matrix.mul_smul, smul_smul, h2]
  refine ⟨?_, hS⟩
  unfold lindbladRhsJ lindbladRhs
  rw [hS]
  simp only [matrixOps, List.foldl_map]
  rw [foldl_add_eq_sum (fun p : Proc (Matrix n n R) => (r p • p.op) * ρ * (r p • p.op)ᴴ) Ls,
    foldl_add_eq_sum (fun p : Proc (Matrix n n R) => rate p.gamma • (p.op * ρ * p.opᴴ)) Ls]
  congr 3
  apply List.map_congr_left
  intro p hp
  obtain ⟨h1, h2⟩ := hr p hp
  rw [conjTranspose_smul, h1, Matrix.smul_mul, Matrix.smul_mul, Matrix.mul_smul, smul_smul, h2]

/-- **C06.7 `lindblad_trace_preserving`** `Tr(lindblad_rhs(ρ)) = 0` for every `ρ` (Hermitian or not), every `H` and
    every list of operators and rates — the integrator never changes `Tr ρ` through the right-hand side.  Needs only
    that `0.5 + 0.5 = 1`; dropping the `0.5` or a dagger breaks it. -/
theorem lindblad_trace_preserving (i h : R) (hh : h + h = 1) (rate : Rat → R) (H ρ : Matrix n n R)
    (Ls procs : List (Proc (Matrix n n R))) :
    trace (lindbladRhs (matrixOps i h rate) H Ls ρ) = 0
    ∧ trace (lindbladOfProcs (matrixOps i h rate) H procs ρ) = 0 := by
  have key : ∀ Ls : List (Proc (Matrix n n R)), trace (lindbladRhs (matrixOps i h rate) H Ls ρ) = 0 := by
    intro Ls
    rw [lindbladRhs_matrix, lindbladian, trace_add, trace_smul, trace_sub, trace_mul_comm H ρ, sub_self, smul_zero,
      zero_add, trace_list_sum, List.map_map]
    apply List.sum_eq_zero
    intro x hx
    obtain ⟨p, _, rfl⟩ := List.mem_map.mp hx
    simp [trace_smul, trace_dissipator h hh]
  exact ⟨key Ls, key _⟩

/-- **C06.8 `lindblad_hermiticity`** `H` Hermitian and `ρ` Hermitian ⇒ `lindblad_rhs(ρ)` Hermitian (so a Hermitian
    initial `ρ` stays Hermitian along the exact flow and `Tr(Oρ)` of a Hermitian observable stays real — the code
    keeps only `.real`).  Needs `star i = -i`, `0.5` real and real rates. -/
theorem lindblad_hermiticity (i h : R) (hi : star i = -i) (hs : star h = h) (rate : Rat → R)
    (hr : ∀ q, star (rate q) = rate q) (H ρ : Matrix n n R) (hH : Hᴴ = H) (hρ : ρᴴ = ρ)
    (Ls : List (Proc (Matrix n n R))) :
    (lindbladRhs (matrixOps i h rate) H Ls ρ)ᴴ = lindbladRhs (matrixOps i h rate) H Ls ρ := by
  rw [lindbladRhs_matrix, lindbladian, conjTranspose_add, conjTranspose_smul, conjTranspose_sub, conjTranspose_mul,
    conjTranspose_mul, hH, hρ, star_neg, hi, neg_neg, conjTranspose_list_sum, List.map_map]
  congr 1
  · rw [← neg_sub (H * ρ) (ρ * H), smul_neg, neg_smul]
  · congr 1
    apply List.map_congr_left
    intro p _
    simp [conjTranspose_smul, hr, conjTranspose_dissipator h hs p.op ρ hρ]

/-- **C06.9 `lindblad_order_independent`** permuting `noise_model.processes` does not change the right-hand side
    (nor `l_dag_l_sum`, hence nor `H_eff`): the solvers' answer cannot depend on the order in which the user lists
    the processes. -/
theorem lindblad_order_independent (i h : R) (rate : Rat → R) (H ρ : Matrix n n R)
    (procs procs' : List (Proc (Matrix n n R))) (hp : procs.Perm procs') :
    lindbladOfProcs (matrixOps i h rate) H procs ρ = lindbladOfProcs (matrixOps i h rate) H procs' ρ
    ∧ heffOfProcs (matrixOps i h rate) H procs = heffOfProcs (matrixOps i h rate) H procs' := by
  have hf : (jumpOps procs).Perm (jumpOps procs') := hp.filter _
  constructor
  · unfold lindbladOfProcs
    rw [lindbladRhs_matrix, lindbladRhs_matrix, lindbladian, lindbladian]
    congr 1
    exact (hf.map _).sum_eq
  · unfold heffOfProcs
    rw [heff_matrix, heff_matrix]
    congr 2
    exact (hf.map _).sum_eq

/-- **C06.10 `heff_antihermitian_part`** (`preprocess_mcwf` step 4 and the no-jump propagation of `mcwf`)
    For Hermitian `H` and real rates, `H_eff = H − (i/2) Σ γ_k L_k†L_k` has anti-Hermitian part
    `H_eff − H_eff† = −i Σ γ_k L_k†L_k`; consequently, along `dψ/dt = −i H_eff ψ`,
    `d/dt ⟨ψ|ψ⟩ = ⟨−iH_eff ψ|ψ⟩ + ⟨ψ|−iH_eff ψ⟩ = − Σ_k γ_k ‖L_k ψ‖²` (third conjunct; `≤ 0` because every kept
    `γ_k > 0`, see `mcwf_step_mass` for the sign on the executable model).  So to first order in `dt` the jump
    probability `1 − ‖ψ_next‖²` is `dt · Σ_k γ_k ‖L_k ψ‖²` — `dt` times the sum of exactly the weights
    `jumpWeights` the code draws the jump from, which is the normaliser of the TJM lottery of C01
    (`Yaqs.Lottery.mcwfWeights`, linked in `mcwf_step_is_c01_lottery`).  The second conjunct is the closed form of
    what the code builds (both branches of `if jump_ops:`). -/
theorem heff_antihermitian_part (i h : R) (hi : star i = -i) (hii : i * i = -1) (hh : h + h = 1) (hs : star h = h)
    (rate : Rat → R) (hr : ∀ q, star (rate q) = rate q) (H : Matrix n n R) (hH : Hᴴ = H)
    (Ls : List (Proc (Matrix n n R))) (ψ : n → R) :
    heff (matrixOps i h rate) H Ls - (heff (matrixOps i h rate) H Ls)ᴴ = (-i) • gammaSum rate Ls
    ∧ heff (matrixOps i h rate) H Ls = H - (h * i) • gammaSum rate Ls
    ∧ star (((-i) • heff (matrixOps i h rate) H Ls) *ᵥ ψ) ⬝ᵥ ψ + star ψ ⬝ᵥ (((-i) • heff (matrixOps i h rate) H Ls) *ᵥ ψ)
        = - (Ls.map fun p => rate p.gamma * (star (p.op *ᵥ ψ) ⬝ᵥ (p.op *ᵥ ψ))).sum := by
  have hS := conjTranspose_gammaSum rate hr Ls
  have h1 : heff (matrixOps i h rate) H Ls - (heff (matrixOps i h rate) H Ls)ᴴ = (-i) • gammaSum rate Ls := by
    rw [heff_matrix, conjTranspose_sub, conjTranspose_smul, hH, hS, star_mul, hi, hs]
    have : H - (h * i) • gammaSum rate Ls - (H - (-i * h) • gammaSum rate Ls)
        = (-((h + h) * i)) • gammaSum rate Ls := by
      rw [neg_smul, add_mul, add_smul, neg_mul, neg_smul, mul_comm i h]
      abel
    rw [this, hh, one_mul]
  refine ⟨h1, heff_matrix i h rate H Ls, ?_⟩
  set E := heff (matrixOps i h rate) H Ls with hE
  rw [star_mulVec, ← dotProduct_mulVec, ← dotProduct_add, ← Matrix.add_mulVec, conjTranspose_smul, star_neg, hi, neg_neg]
  have : i • Eᴴ + (-i) • E = -gammaSum rate Ls := by
    have h2 : Eᴴ = E - (-i) • gammaSum rate Ls := by rw [← h1]; abel
    rw [h2, smul_sub, smul_smul, mul_neg, hii, neg_neg, one_smul, neg_smul]
    abel
  rw [this, Matrix.neg_mulVec, dotProduct_neg, dot_gammaSum]

/-- **C06.10b `mcwf_step_is_c01_lottery`** the outcome distribution of one MCWF pass on dense data is the lottery
    `Yaqs.Lottery.mcwfLottery` that C01 is about, for any abstract process list whose weights
    `γ_k·‖L_k ψ‖²` are the dense `jumpWeights` of this model — the normaliser is the same number
    `Σ_k γ_k ‖L_k ψ‖²` that `heff_antihermitian_part` identifies as the norm-decay rate. -/
theorem mcwf_step_is_c01_lottery (m : Nat) (Ls : List (Proc CMat)) (ψ ψnext : CVec)
    (lp : List Lottery.Proc) (nrm : Lottery.Proc → Rat)
    (hw : Lottery.mcwfWeights nrm lp = jumpWeights m Ls ψ) :
    mcwfStepDist m Ls ψ ψnext = Lottery.mcwfLottery (vnormSq ψnext) nrm lp := by
  unfold mcwfStepDist Lottery.mcwfLottery Lottery.mcwfProbVector
  rw [hw]
  by_cases hlt : (jumpWeights m Ls ψ).sum < Lottery.mcwfEps <;> simp [hlt]

/-- **C06.11 `mcwf_step_mass`** (one pass of the `mcwf` loop) the branch probabilities — no jump, jump `k` with the
    weights `γ_k‖L_k ψ‖²/Σ` taken from the state at the START of the step, or the `normalization_sum < 1e-15`
    fall-back — sum to one for every input, and are non-negative as soon as the kept strengths are `≥ 0` (they are
    `> 0` after `jumpOps`); third conjunct: the normaliser `Σ_k γ_k‖L_kψ‖²` is `≥ 0`, i.e. the norm-decay rate of
    `heff_antihermitian_part` has the right sign (`d/dt⟨ψ|ψ⟩ ≤ 0`). -/
theorem mcwf_step_mass (m : Nat) (Ls : List (Proc CMat)) (ψ ψnext : CVec) :
    mass (mcwfStepDist m Ls ψ ψnext) = 1
    ∧ ((∀ p ∈ Ls, 0 ≤ p.gamma) → NonNeg (mcwfStepDist m Ls ψ ψnext))
    ∧ ((∀ p ∈ Ls, 0 ≤ p.gamma) → 0 ≤ (jumpWeights m Ls ψ).sum) := by
  refine ⟨?_, ?_, fun hg => ?_⟩
  rotate_left 2
  · have hw := jumpWeights_nonneg m Ls ψ hg
    have := Lottery.sum_map_nonneg (jumpWeights m Ls ψ) id (fun a ha => hw a ha)
    simpa using this
  all_goals unfold mcwfStepDist
  · by_cases hlt : (jumpWeights m Ls ψ).sum < Lottery.mcwfEps
    · simp [hlt, mass]
    · simp only [hlt, if_false]
      have hpos : (0 : Rat) < Lottery.mcwfEps := by decide +kernel
      have hW : 0 < (jumpWeights m Ls ψ).sum := lt_of_lt_of_le hpos (not_lt.mp hlt)
      rw [Lottery.mass_lottery, Lottery.sum_map_div, div_self (ne_of_gt hW)]
      ring
  · intro hg
    by_cases hlt : (jumpWeights m Ls ψ).sum < Lottery.mcwfEps
    · simp [hlt, NonNeg]
    · simp only [hlt, if_false]
      have hpos : (0 : Rat) < Lottery.mcwfEps := by decide +kernel
      have hW : 0 < (jumpWeights m Ls ψ).sum := lt_of_lt_of_le hpos (not_lt.mp hlt)
      have hw := jumpWeights_nonneg m Ls ψ hg
      refine ⟨by have := Lottery.jumpProb_le_one (vnormSq ψnext); linarith, ?_⟩
      apply Lottery.nonNeg_jumpBranches _ (Lottery.jumpProb_nonneg _)
      intro q hq
      obtain ⟨w, hwm, rfl⟩ := List.mem_map.mp hq
      exact div_nonneg (hw w hwm) (le_of_lt hW)

/-- **C06.12 `observable_is_trace`** (`np.trace(op_mat @ rho_t)` in `lindblad`, `np.vdot(psi, op_mat.dot(psi))` in
    `mcwf`) for a pure state `ρ = |ψ⟩⟨ψ|`: `Tr(O ρ) = ⟨ψ|O|ψ⟩` — the Lindblad solver and the MCWF solver report
    the same quantity for the same state. -/
theorem observable_is_trace (O : Matrix n n R) (ψ : n → R) :
    trace (O * vecMulVec ψ (star ψ)) = star ψ ⬝ᵥ (O *ᵥ ψ) := by
  rw [mul_vecMulVec, trace_vecMulVec, dotProduct_comm]

/-- **C06.10c `first_order_jump_probability`** the exact expansion behind "the jump probability is `dt·Σ γ_k‖L_kψ‖²` to
    first order": for the Euler step `ψ₁ = ψ − i·dt·H_eff ψ` (real `dt`),
    `⟨ψ₁|ψ₁⟩ = ⟨ψ|ψ⟩ − dt·Σ_k γ_k‖L_kψ‖² + dt²·‖H_eff ψ‖²`; `exp(−i H_eff dt)ψ` (what `expm_arnoldi` approximates)
    differs from `ψ₁` by `O(dt²)`, which is the analytic step not formalised here. -/
theorem first_order_jump_probability (i h : R) (hi : star i = -i) (hii : i * i = -1) (hh : h + h = 1) (hs : star h = h)
    (rate : Rat → R) (hr : ∀ q, star (rate q) = rate q) (H : Matrix n n R) (hH : Hᴴ = H)
    (Ls : List (Proc (Matrix n n R))) (ψ : n → R) (dt : R) (hdt : star dt = dt) :
    star (ψ + dt • (((-i) • heff (matrixOps i h rate) H Ls) *ᵥ ψ)) ⬝ᵥ (ψ + dt • (((-i) • heff (matrixOps i h rate) H Ls) *ᵥ ψ))
      = star ψ ⬝ᵥ ψ - dt * (Ls.map fun p => rate p.gamma * (star (p.op *ᵥ ψ) ⬝ᵥ (p.op *ᵥ ψ))).sum
        + dt * dt * (star (heff (matrixOps i h rate) H Ls *ᵥ ψ) ⬝ᵥ (heff (matrixOps i h rate) H Ls *ᵥ ψ)) := by
  obtain ⟨_, _, h3⟩ := heff_antihermitian_part i h hi hii hh hs rate hr H hH Ls ψ
  set E := heff (matrixOps i h rate) H Ls
  set v := ((-i) • E) *ᵥ ψ with hv
  have hq : star v ⬝ᵥ v = star (E *ᵥ ψ) ⬝ᵥ (E *ᵥ ψ) := by
    have hsv : star ((-i) • (E *ᵥ ψ)) = i • star (E *ᵥ ψ) := by
      funext a
      simp [hi]
    rw [hv, Matrix.smul_mulVec, hsv, smul_dotProduct, dotProduct_smul, smul_smul, mul_neg, hii, neg_neg, one_smul]
  have hst : star (ψ + dt • v) = star ψ + dt • star v := by
    funext a
    simp [hdt]
  rw [hst, add_dotProduct, dotProduct_add, dotProduct_add, smul_dotProduct, smul_dotProduct,
    dotProduct_smul, dotProduct_smul, hq]
  simp only [smul_eq_mul]
  have h3' : star v ⬝ᵥ ψ = -(Ls.map fun p => rate p.gamma * (star (p.op *ᵥ ψ) ⬝ᵥ (p.op *ᵥ ψ))).sum - star ψ ⬝ᵥ v := by
    rw [← h3]; ring
  rw [h3']
  ring

/-- **C06.13 `list_model_refines_matrix_model`** the functions the driver executes (`listOps m`, matrices as
    `List (List CRat)`, entries outside the lists read as `0`) are carried by `toM m` to the Mathlib-matrix instance the
    theorems above are about — for the right-hand side, for `H_eff`, for *every* list input; so C06.6–C06.10 apply to
    the executed model verbatim, e.g. the trace of the executed right-hand side is exactly `0` (third conjunct). -/
theorem list_model_refines_matrix_model (m : Nat) (H ρ : CMat) (procs : List (Proc CMat)) :
    toM m (lindbladOfProcs (listOps m) H procs ρ)
        = lindbladOfProcs (matrixOps CRat.I ⟨1 / 2, 0⟩ CRat.ofRat) (toM m H) (procs.map (Proc.map (toM m))) (toM m ρ)
    ∧ toM m (heffOfProcs (listOps m) H procs)
        = heffOfProcs (matrixOps CRat.I ⟨1 / 2, 0⟩ CRat.ofRat) (toM m H) (procs.map (Proc.map (toM m)))
    ∧ mtrace m (lindbladOfProcs (listOps m) H procs ρ) = 0 := by
  have h1 : toM m (lindbladOfProcs (listOps m) H procs ρ)
      = lindbladOfProcs (matrixOps CRat.I ⟨1 / 2, 0⟩ CRat.ofRat) (toM m H) (procs.map (Proc.map (toM m))) (toM m ρ) := by
    unfold lindbladOfProcs
    rw [lindbladRhs_hom (listOps_hom m), jumpOps_map]
  refine ⟨h1, ?_, ?_⟩
  · unfold heffOfProcs
    rw [heff_hom (listOps_hom m), jumpOps_map]
  · rw [← trace_toM, h1]
    exact (lindblad_trace_preserving CRat.I ⟨1 / 2, 0⟩ (by decide +kernel) CRat.ofRat _ _ [] _).2

/-! ### non-vacuity (Gaussian rationals, one qubit: `H = X`, lowering operator, a mixed and a pure state) -/

section Examples

def exI : CRat := CRat.I
def exH : CRat := ⟨1 / 2, 0⟩
def exRate : Rat → CRat := CRat.ofRat
def exX : Matrix (Fin 2) (Fin 2) CRat := !![0, 1; 1, 0]
def exLow : Matrix (Fin 2) (Fin 2) CRat := !![0, 1; 0, 0]
def exRho : Matrix (Fin 2) (Fin 2) CRat := !![⟨1 / 4, 0⟩, ⟨0, 1 / 8⟩; ⟨0, -1 / 8⟩, ⟨3 / 4, 0⟩]

/-- the scalar hypotheses of the theorems hold in the Gaussian rationals -/
example : star exI = -exI ∧ exI * exI = -1 ∧ exH + exH = 1 ∧ star exH = exH := by decide +kernel

example : ∀ q, star (exRate q) = exRate q := by
  intro q; apply CRat.ext <;> simp [exRate]

/-- …and in ℂ, with `i = Complex.I`, `h = 1/2` and the rational cast as `rate` -/
example : star Complex.I = -Complex.I ∧ Complex.I * Complex.I = -1 ∧ (1 / 2 : ℂ) + 1 / 2 = 1 ∧ star (1 / 2 : ℂ) = 1 / 2
    ∧ ∀ q : Rat, star (q : ℂ) = q := by
  have hq : ∀ q : Rat, star (q : ℂ) = q := fun q => map_ratCast (starRingEnd ℂ) q
  refine ⟨Complex.conj_I, Complex.I_mul_I, by norm_num, ?_, hq⟩
  have : (1 / 2 : ℂ) = ((1 / 2 : Rat) : ℂ) := by norm_num
  rw [this]
  exact hq _

/-- `X` and the state are Hermitian; the state is not diagonal -/
example : exXᴴ = exX ∧ exRhoᴴ = exRho := by decide +kernel

/-- a square root exists for `γ = 1/4` (`r = 1/2`, real) -/
example : star (⟨1 / 2, 0⟩ : CRat) = ⟨1 / 2, 0⟩ ∧ (⟨1 / 2, 0⟩ : CRat) * ⟨1 / 2, 0⟩ = exRate (1 / 4) := by
  decide +kernel

/-- the filter is not trivial: of three listed processes (strengths 1/4, 0, -1) exactly the first survives -/
example : (jumpOps [⟨1 / 4, exLow⟩, ⟨0, exX⟩, ⟨-1, exX⟩]).map (·.gamma) = [1 / 4] := by decide +kernel

/-- a concrete value: amplitude damping of the excited population (entry (1,1) decreases at rate γ·ρ₁₁ plus the
    coherent part) — the executable list model on the same data -/
example : lindbladRhs (listOps 2) [[0, 1], [1, 0]] [⟨1 / 4, [[0, 1], [0, 0]]⟩]
      [[⟨1 / 4, 0⟩, ⟨0, 1 / 8⟩], [⟨0, -1 / 8⟩, ⟨3 / 4, 0⟩]]
    = [[⟨-1 / 16, 0⟩, ⟨0, -33 / 64⟩], [⟨0, 33 / 64⟩, ⟨1 / 16, 0⟩]] := by decide +kernel

/-- the hypothesis of `mcwf_step_is_c01_lottery` is met by the abstract C01 process "lowering on site 0, γ = 1/2" with
    `‖Lψ‖² = 16/25` -/
example : Lottery.mcwfWeights (fun _ => 16 / 25) [⟨[0], 1 / 2, false, .mat []⟩]
    = jumpWeights 2 [⟨1 / 2, [[0, 1], [0, 0]]⟩] [⟨3 / 5, 0⟩, ⟨4 / 5, 0⟩] := by decide +kernel

/-- one MCWF pass with a non-trivial lottery: `ψ = (3/5, 4/5)`, lowering with `γ = 1/2` -/
example : jumpWeights 2 [⟨1 / 2, [[0, 1], [0, 0]]⟩] [⟨3 / 5, 0⟩, ⟨4 / 5, 0⟩] = [8 / 25]
    ∧ mcwfStepDist 2 [⟨1 / 2, [[0, 1], [0, 0]]⟩] [⟨3 / 5, 0⟩, ⟨4 / 5, 0⟩] [⟨3 / 5, 0⟩, ⟨3 / 4, 0⟩]
      = [(369 / 400, Lottery.Branch.noJump), (31 / 400, Lottery.Branch.jump 0)] := by decide +kernel

end Examples

end Yaqs.MasterEq

/-!
# C06, extension 2 — the *executable* one-step MCWF, read-out and conversion functions the driver runs

Every definition of `Model/MasterEq.lean` (and of `Model/MasterEqExec.lean`) that `Driver/Index.lean` executes — and that
the correspondence therefore ties to the real `mcwf` / `lindblad` — is the subject of a theorem below:

| executable definition | mirrors (`analog/mcwf.py`, `analog/lindblad.py`) | theorem |
|---|---|---|
| `pJump`            | `p_jump = 1.0 - np.vdot(psi_next, psi_next).real` (exact norm loss, not the first-order expression) | `mcwf_exec_pjump`, `exec_first_order_jump_probability` |
| `mcwfTaken`        | `if r < p_jump:` / `if normalization_sum < 1e-15:` / `rng.choice(len(jump_ops), p=weights)` | `mcwf_exec_taken`, `mcwf_exec_pv`, `mcwf_exec_calls` |
| `postState`        | `psi = jump_ops[k] @ param_psi; psi /= norm(psi)` resp. `psi = psi_next / sqrt(norm_sq)` | `mcwf_exec_post`, `mcwf_exec_post_scale_free` |
| `reportedOneStep`  | `measure(psi, 0)` if sampling, `measure(psi, t_idx)` AFTER the state was replaced, `results[:, -1:]` | `mcwf_exec_reported` |
| `obsValue`, `obsValuePure` | `np.trace(op_mat @ rho_t).real`, `np.vdot(psi, op_mat.dot(psi)).real`, `0.0` for diagnostics | `obs_exec` |
| `ofIndexMat`       | materialising what `_embed_operator_sparse` / `_embed_observable_sparse` return | `index_mat_roundtrip`, `exec_embed_entry` |
| `solverTol`        | `rtol=sim_params.threshold, atol=sim_params.threshold * 1e-2` | `solver_tol_rule` |
| `pureRho`, `postRho`, `opCalls`, `oneStepCols` (new, `Model/MasterEqExec.lean`) | `ctx.output_state`, the products `op @ param_psi`, the returned array | `mcwf_exec_post`, `mcwf_exec_calls`, `mcwf_exec_reported` |

The list ↔ Matrix reading is the one of `list_model_refines_matrix_model`: `toM m` for matrices, `toV m` for vectors
(entries outside the lists read as `0`).
-/
namespace Yaqs.MasterEq

open Matrix Yaqs.Dist

/-- **C06.14 `mcwf_exec_pjump`** (`norm_sq = np.vdot(psi_next, psi_next).real; p_jump = 1.0 - norm_sq; r = rng.random();
    if r < p_jump`)  The executable jump probability is the *exact* norm loss `1 − ⟨ψ̃|ψ̃⟩` of the propagated,
    unnormalised state `ψ̃ = exp(−i H_eff dt) ψ` (first conjunct, under the list ↔ vector reading `toV`) — not the
    first-order expression `dt·Σγ‖Lψ‖²` (the two are related by `exec_first_order_jump_probability`).  It never exceeds 1
    but may be negative (`‖ψ̃‖ > 1` by rounding): then no draw jumps.  Third conjunct: for a draw `r` of
    `Generator.random` (`0 ≤ r < 1`), the code's test `r < p_jump` is the test `r < jumpProb ‖ψ̃‖²` with the clamped
    probability `jumpProb = min 1 (max 0 ·)` that weights the branches of `mcwfStepDist` in `mcwf_step_is_c01_lottery` /
    `mcwf_step_mass`: the draws that jump are exactly the interval `[0, jumpProb)`, of length `jumpProb`. -/
theorem mcwf_exec_pjump (m : Nat) (ψnext : CVec) (hl : ψnext.length = m) (r : Rat) (hr0 : 0 ≤ r) (hr1 : r < 1) :
    CRat.ofRat (pJump ψnext) = 1 - star (toV m ψnext) ⬝ᵥ toV m ψnext
    ∧ pJump ψnext ≤ 1
    ∧ (r < pJump ψnext ↔ r < Lottery.jumpProb (vnormSq ψnext)) := by
  have hn := vnormSq_nonneg ψnext
  refine ⟨?_, ?_, ?_⟩
  · unfold pJump
    rw [ofRat_sub, vnormSq_eq m ψnext hl]
    rfl
  · unfold pJump; linarith
  · unfold pJump Lottery.jumpProb Lottery.stochasticFactor
    rw [lt_min_iff, lt_max_iff]
    constructor
    · intro h; exact ⟨hr1, Or.inr h⟩
    · rintro ⟨_, h | h⟩
      · exact absurd h (not_lt.mpr hr0)
      · exact h

/-- **C06.15 `mcwf_exec_taken`** (the branch structure of one pass) For every input, draw `r` and index `k`, exactly one
    of four things happens, decided by these conditions and no others:
    * `noJump` **iff** `p_jump ≤ r` — the code tests `r < p_jump` with a *strict* inequality, so the boundary draw
      `r = p_jump` does **not** jump (fifth conjunct; in particular `r = 0`, `p_jump = 0` of a noise-free run);
    * `noJumpEps` **iff** `r < p_jump` and `Σ_k γ_k‖L_kψ‖² < 1e-15` (weights of the state at the START of the step):
      the renormalised no-jump state is used although the draw asked for a jump;
    * `jump k pv` **iff** `r < p_jump`, `1e-15 ≤ Σ`, `k` indexes `jump_ops`; then `pv` is the weight list divided by its
      sum — the vector handed to `rng.choice` — and the reported index is the `k` that `choice` returned;
    * `none` (the model refuses) **iff** the jump branch is reached with a `k` that is not an index of `jump_ops`
      (`Generator.choice(n)` never returns such a `k`; the driver answers `bad-op`). -/
theorem mcwf_exec_taken (m : Nat) (Ls : List (Proc CMat)) (ψ ψnext : CVec) (r : Rat) (k : Nat) :
    (mcwfTaken m Ls ψ ψnext r k = some .noJump ↔ pJump ψnext ≤ r)
    ∧ (mcwfTaken m Ls ψ ψnext r k = some .noJumpEps
        ↔ r < pJump ψnext ∧ (jumpWeights m Ls ψ).sum < Lottery.mcwfEps)
    ∧ (∀ k' pv, mcwfTaken m Ls ψ ψnext r k = some (.jump k' pv)
        ↔ r < pJump ψnext ∧ Lottery.mcwfEps ≤ (jumpWeights m Ls ψ).sum ∧ k < Ls.length ∧ k' = k
          ∧ pv = (jumpWeights m Ls ψ).map (· / (jumpWeights m Ls ψ).sum))
    ∧ (mcwfTaken m Ls ψ ψnext r k = none
        ↔ r < pJump ψnext ∧ Lottery.mcwfEps ≤ (jumpWeights m Ls ψ).sum ∧ Ls.length ≤ k)
    ∧ mcwfTaken m Ls ψ ψnext (pJump ψnext) k = some .noJump := by
  have key : ∀ r : Rat,
      (mcwfTaken m Ls ψ ψnext r k = some .noJump ↔ pJump ψnext ≤ r)
      ∧ (mcwfTaken m Ls ψ ψnext r k = some .noJumpEps
          ↔ r < pJump ψnext ∧ (jumpWeights m Ls ψ).sum < Lottery.mcwfEps)
      ∧ (∀ k' pv, mcwfTaken m Ls ψ ψnext r k = some (.jump k' pv)
          ↔ r < pJump ψnext ∧ Lottery.mcwfEps ≤ (jumpWeights m Ls ψ).sum ∧ k < Ls.length ∧ k' = k
            ∧ pv = (jumpWeights m Ls ψ).map (· / (jumpWeights m Ls ψ).sum))
      ∧ (mcwfTaken m Ls ψ ψnext r k = none
          ↔ r < pJump ψnext ∧ Lottery.mcwfEps ≤ (jumpWeights m Ls ψ).sum ∧ Ls.length ≤ k) := by
    intro r
    unfold mcwfTaken
    by_cases h1 : r < pJump ψnext
    · by_cases h2 : (jumpWeights m Ls ψ).sum < Lottery.mcwfEps
      · have h2' : ¬ Lottery.mcwfEps ≤ (jumpWeights m Ls ψ).sum := not_le.mpr h2
        simp [h1, h2, h2', not_le.mpr h1]
      · have h2' : Lottery.mcwfEps ≤ (jumpWeights m Ls ψ).sum := not_lt.mp h2
        by_cases h3 : k < Ls.length
        · simp only [h1, h2, h3, h2', if_true, if_false, not_le.mpr h1, not_le.mpr h3, true_and, and_false,
            reduceCtorEq, Option.some.injEq, and_true]
          intro k' pv
          constructor
          · intro h; cases h; exact ⟨rfl, rfl⟩
          · rintro ⟨rfl, rfl⟩; rfl
        · simp [h1, h2, h3, h2', not_le.mpr h1, not_lt.mp h3]
    · simp [h1, not_lt.mp h1]
  obtain ⟨a, b, c, d⟩ := key r
  exact ⟨a, b, c, d, (key (pJump ψnext)).1.mpr (le_refl _)⟩

/-- **C06.16 `mcwf_exec_pv`** (what `rng.choice` is given, and the link to the outcome distribution) On the jump branch
    the probability vector has one entry per kept jump operator, in list order; entry `j` is `γ_j‖L_jψ‖²/Σ` computed from
    the state at the START of the step; the entries sum to one (so `Generator.choice` accepts them) and are `≥ 0` for
    strengths `≥ 0` — an entry may be exactly `0` (a jump operator that annihilates `ψ`, e.g. lowering on `|0⟩`), and
    such a `k` has probability 0.  The outcome distribution `mcwfStepDist` of `mcwf_step_is_c01_lottery` /
    `mcwf_step_mass` is the lottery on exactly this vector; on the `1e-15` fall-back it is the point mass on "no jump". -/
theorem mcwf_exec_pv (m : Nat) (Ls : List (Proc CMat)) (ψ ψnext : CVec) (r : Rat) (k : Nat) :
    (∀ (k' : Nat) (pv : List Rat), mcwfTaken m Ls ψ ψnext r k = some (.jump k' pv) →
        pv.length = Ls.length ∧ pv.sum = 1
        ∧ (∀ j : Nat, pv[j]? = (Ls[j]?).map fun (p : Proc CMat) => p.gamma * vnormSq (mulVec m p.op ψ) / (jumpWeights m Ls ψ).sum)
        ∧ ((∀ p ∈ Ls, 0 ≤ p.gamma) → ∀ q ∈ pv, 0 ≤ q)
        ∧ mcwfStepDist m Ls ψ ψnext = Lottery.lottery (vnormSq ψnext) pv)
    ∧ (mcwfTaken m Ls ψ ψnext r k = some .noJumpEps → mcwfStepDist m Ls ψ ψnext = [(1, Lottery.Branch.noJump)]) := by
  obtain ⟨_, hb, hc, _, _⟩ := mcwf_exec_taken m Ls ψ ψnext r k
  constructor
  · intro k' pv h
    obtain ⟨_, hW, _, _, rfl⟩ := (hc k' pv).mp h
    have hpos : (0 : Rat) < Lottery.mcwfEps := by decide +kernel
    have hW0 : 0 < (jumpWeights m Ls ψ).sum := lt_of_lt_of_le hpos hW
    refine ⟨by simp [jumpWeights], ?_, ?_, ?_, ?_⟩
    · rw [Lottery.sum_map_div, div_self (ne_of_gt hW0)]
    · intro j
      simp only [jumpWeights, List.getElem?_map, Option.map_map]
      rfl
    · intro hg q hq
      obtain ⟨w, hw, rfl⟩ := List.mem_map.mp hq
      exact div_nonneg (jumpWeights_nonneg m Ls ψ hg w hw) (le_of_lt hW0)
    · unfold mcwfStepDist
      simp [not_lt.mpr hW]
  · intro h
    obtain ⟨_, hW⟩ := hb.mp h
    unfold mcwfStepDist
    simp [hW]

/-- **C06.17 `mcwf_exec_post`** (the state after the pass; `postState` returns a pair `(v, c)` standing for `v/√c`)
    * on both no-jump outcomes the new state is the propagated state `ψ̃` divided by its own norm
      (`psi_next / np.sqrt(norm_sq)`);
    * on `jump k` (with `k` an index of the kept operators) it is `L_k ψ` divided by its own norm, `L_k` applied to the
      state at the START of the step — under `toM`/`toV` the Matrix product `L_k *ᵥ ψ` with squared norm `⟨L_kψ|L_kψ⟩`;
    * in every case the normaliser is the squared norm of the vector it accompanies, and the density matrix `postRho`
      of the new state (what `ctx.output_state` holds, as `|ψ⟩⟨ψ|`) has trace exactly 1 whenever that norm is not 0;
    * a jump index whose probability-vector entry is not 0 never divides by zero (`Generator.choice` does not return
      indices of probability 0 — spec-tied). -/
theorem mcwf_exec_post (m : Nat) (Ls : List (Proc CMat)) (ψ ψnext : CVec) :
    postState m Ls ψ ψnext .noJump = (ψnext, vnormSq ψnext)
    ∧ postState m Ls ψ ψnext .noJumpEps = (ψnext, vnormSq ψnext)
    ∧ (∀ k pv p, Ls[k]? = some p →
        postState m Ls ψ ψnext (.jump k pv) = (mulVec m p.op ψ, vnormSq (mulVec m p.op ψ))
        ∧ toV m (mulVec m p.op ψ) = toM m p.op *ᵥ toV m ψ
        ∧ CRat.ofRat (vnormSq (mulVec m p.op ψ)) = star (toM m p.op *ᵥ toV m ψ) ⬝ᵥ (toM m p.op *ᵥ toV m ψ))
    ∧ (∀ t, (postState m Ls ψ ψnext t).2 = vnormSq (postState m Ls ψ ψnext t).1)
    ∧ (∀ t, (postState m Ls ψ ψnext t).1.length = m → (postState m Ls ψ ψnext t).2 ≠ 0 →
        mtrace m (postRho m Ls ψ ψnext t) = 1)
    ∧ (∀ r k pv q, mcwfTaken m Ls ψ ψnext r k = some (.jump k pv) → pv[k]? = some q → q ≠ 0 →
        (postState m Ls ψ ψnext (.jump k pv)).2 ≠ 0) := by
  have hnorm : ∀ t, (postState m Ls ψ ψnext t).2 = vnormSq (postState m Ls ψ ψnext t).1 := by
    intro t
    cases t with
    | noJump => rfl
    | noJumpEps => rfl
    | jump k pv =>
      simp only [postState]
      split <;> rfl
  refine ⟨rfl, rfl, ?_, hnorm, ?_, ?_⟩
  · intro k pv p hp
    refine ⟨?_, toV_mulVec m p.op ψ, vnormSq_mulVec m p.op ψ⟩
    simp only [postState, hp]
  · intro t hl hc
    unfold postRho
    have h2 := hnorm t
    generalize postState m Ls ψ ψnext t = vc at hl hc h2
    obtain ⟨v, c⟩ := vc
    simp only at hl hc h2 ⊢
    rw [← trace_toM, toM_pureRho, trace_smul, trace_vecMulVec, dotProduct_comm, ← vnormSq_eq m v hl, ← h2, smul_eq_mul,
      ← ofRat_mul, one_div, inv_mul_cancel₀ hc]
    rfl
  · intro r k pv q h hq hq0
    obtain ⟨_, _, hc, _, _⟩ := mcwf_exec_taken m Ls ψ ψnext r k
    obtain ⟨_, hW, hk, _, rfl⟩ := (hc k pv).mp h
    obtain ⟨_, _, hj, _, _⟩ := (mcwf_exec_pv m Ls ψ ψnext r k).1 k _ h
    have hp : Ls[k]? = some Ls[k] := List.getElem?_eq_getElem hk
    rw [hj k, hp] at hq
    simp only [Option.map_some, Option.some.injEq] at hq
    simp only [postState, hp]
    intro h0
    apply hq0
    rw [← hq, h0, mul_zero, zero_div]

/-- **C06.17b `mcwf_exec_post_scale_free`** (`jump_ops.append(np.sqrt(strength) * op_full)`) The model applies the
    *unscaled* `L_k`, the code the scaled `J_k = s·L_k` (`s = √γ_k`).  For every real `s ≠ 0` the pair the code's vector
    would give — `J_k ψ` with its own squared norm — denotes the same state: same density matrix, hence (by `obs_exec`)
    the same value of every observable.  So the post-jump state does not depend on the strength. -/
theorem mcwf_exec_post_scale_free (m : Nat) (L : CMat) (ψ : CVec) (s : Rat) (hs : s ≠ 0) :
    pureRho m (mulVec m (msmul m (CRat.ofRat s) L) ψ) (vnormSq (mulVec m (msmul m (CRat.ofRat s) L) ψ))
      = pureRho m (mulVec m L ψ) (vnormSq (mulVec m L ψ))
    ∧ ∀ O, obsValuePure m (mulVec m (msmul m (CRat.ofRat s) L) ψ) (vnormSq (mulVec m (msmul m (CRat.ofRat s) L) ψ)) O
      = obsValuePure m (mulVec m L ψ) (vnormSq (mulVec m L ψ)) O := by
  have h1 : pureRho m (mulVec m (msmul m (CRat.ofRat s) L) ψ) (vnormSq (mulVec m (msmul m (CRat.ofRat s) L) ψ))
      = pureRho m (mulVec m L ψ) (vnormSq (mulVec m L ψ)) := by
    rw [mulVec_msmul, vnormSq_scale, pureRho_scale m _ _ s hs]
  refine ⟨h1, ?_⟩
  intro O
  cases O with
  | diagnostic => rfl
  | op O => rw [← obsValue_pureRho, ← obsValue_pureRho, h1]

/-- **C06.18 `mcwf_exec_reported`** (which state the reported numbers belong to) For one pass on a grid of two points,
    `oneStepCols` — the composition the driver prints and the tie compares with the array the real `mcwf` returns — is:
    the branch of `mcwf_exec_taken`; then with `sample_timesteps` two columns, the observables of the initial state `ψ`
    (BEFORE the step) and the observables of the new state of `mcwf_exec_post` (AFTER the jump resp. after the
    renormalisation, never the pre-jump state and never the unnormalised `ψ̃`); without `sample_timesteps` only the latter
    (`results[:, -1:]`).  Second conjunct: this is C15's `columns` at `n = 2` — assigning to a column the value of the
    state whose history `Pipeline.mcwfOut` records (`[]` = initial state, `[Ueff, Lot]` = after propagation and
    lottery) gives the same array. -/
theorem mcwf_exec_reported (m : Nat) (Ls : List (Proc CMat)) (obs : List Obs) (ψ ψnext : CVec) (r : Rat) (k : Nat)
    (sample : Bool) (v0 v1 : List Rat) :
    oneStepCols m Ls obs sample ψ ψnext r k
        = (mcwfTaken m Ls ψ ψnext r k).map (fun t =>
            (if sample then [obs.map (obsValuePure m ψ (vnormSq ψ))] else [])
              ++ [obs.map (obsValuePure m (postState m Ls ψ ψnext t).1 (postState m Ls ψ ψnext t).2)])
    ∧ reportedOneStep sample v0 v1
        = (Pipeline.mcwfOut sample 2).map (fun h => if h = some [] then v0 else v1)
    ∧ Pipeline.mcwfOut true 2 = [some [], some [Pipeline.Op.Ueff, Pipeline.Op.Lot]]
    ∧ Pipeline.mcwfOut false 2 = [some [Pipeline.Op.Ueff, Pipeline.Op.Lot]]
    ∧ (reportedOneStep sample v0 v1).getLast? = some v1
    ∧ (reportedOneStep sample v0 v1).length = if sample then 2 else 1 := by
  have e1 : Pipeline.mcwfOut true 2 = [some [], some [Pipeline.Op.Ueff, Pipeline.Op.Lot]] := by decide
  have e2 : Pipeline.mcwfOut false 2 = [some [Pipeline.Op.Ueff, Pipeline.Op.Lot]] := by decide
  refine ⟨?_, ?_, e1, e2, ?_, ?_⟩
  · unfold oneStepCols reportedOneStep
    cases sample <;> rfl
  · cases sample
    · rw [e2]; simp [reportedOneStep]
    · rw [e1]; simp [reportedOneStep]
  · cases sample <;> simp [reportedOneStep]
  · cases sample <;> simp [reportedOneStep]

/-- **C06.18b `mcwf_exec_calls`** (what the pass does to `ctx.jump_ops`, and that the three outcomes are observably
    different) `opCalls` lists the operators multiplied onto the start-of-step state, in program order: none on
    `noJump`; every kept operator once, in list order, on the `1e-15` fall-back; every kept operator once and then the
    chosen one again on a jump.  Hence the recorded call list determines the outcome (up to the probability vector),
    and `noJump` / `noJumpEps` — which leave the same state — are still told apart by the tie. -/
theorem mcwf_exec_calls (nOps : Nat) (t t' : Taken) :
    (opCalls nOps t).length
        = (match t with | .noJump => 0 | .noJumpEps => nOps | .jump _ _ => nOps + 1)
    ∧ (opCalls nOps t = [] ↔ t = .noJump ∨ (nOps = 0 ∧ t = .noJumpEps))
    ∧ (0 < nOps → opCalls nOps t = opCalls nOps t' →
        (t = .noJump ↔ t' = .noJump) ∧ (t = .noJumpEps ↔ t' = .noJumpEps)
        ∧ ∀ k pv, t = .jump k pv → ∃ pv', t' = .jump k pv') := by
  have hlen : ∀ t : Taken, (opCalls nOps t).length
      = (match t with | .noJump => 0 | .noJumpEps => nOps | .jump _ _ => nOps + 1) := by
    intro t; cases t <;> simp [opCalls]
  refine ⟨hlen t, ?_, ?_⟩
  · cases t with
    | noJump => simp [opCalls]
    | noJumpEps => simp [opCalls, List.range_eq_nil]
    | jump k pv => simp [opCalls]
  · intro hpos h
    have hl := congrArg List.length h
    rw [hlen t, hlen t'] at hl
    cases t with
    | noJump =>
      cases t' with
      | noJump => exact ⟨Iff.rfl, Iff.rfl, fun _ _ hh => by cases hh⟩
      | noJumpEps => simp only at hl; omega
      | jump k' pv' => simp only at hl; omega
    | noJumpEps =>
      cases t' with
      | noJump => simp only at hl; omega
      | noJumpEps => exact ⟨Iff.rfl, Iff.rfl, fun _ _ hh => by cases hh⟩
      | jump k' pv' => simp only at hl; omega
    | jump k pv =>
      cases t' with
      | noJump => simp only at hl; omega
      | noJumpEps => simp only at hl; omega
      | jump k' pv' =>
        have hk : [k] = [k'] := List.append_cancel_left h
        have hk' : k = k' := by simpa using hk
        refine ⟨by simp, by simp, ?_⟩
        intro k0 pv0 hh
        cases hh
        exact ⟨pv', by rw [hk']⟩

/-- **C06.19 `obs_exec`** (the two read-outs) Under the list ↔ Matrix reading:
    * `obsValue ρ O = Re Tr(O ρ)` (`np.trace(op_mat @ rho_t).real`) and `obsValuePure (v, c) O = Re ⟨v|O|v⟩ / c`
      (`np.vdot(psi, op_mat.dot(psi)).real` on `psi = v/√c`); both are `0` for a structural diagnostic;
    * they agree on a pure state: `obsValue (|v⟩⟨v|/c) O = obsValuePure (v, c) O` — the list form of
      `observable_is_trace`, so the Lindblad solver (which starts from `np.outer(psi, psi.conj())`, `c = 1`) and the MCWF
      solver report the same number for the same state;
    * taking `.real` discards nothing when `O` and `ρ` are Hermitian: the imaginary parts of `Tr(O ρ)` and of
      `⟨v|O|v⟩` are exactly `0`. -/
theorem obs_exec (m : Nat) (O ρ : CMat) (v : CVec) (c : Rat) :
    obsValue m ρ (.op O) = (trace (toM m O * toM m ρ)).re
    ∧ obsValuePure m v c (.op O) = (star (toV m v) ⬝ᵥ (toM m O *ᵥ toV m v)).re / c
    ∧ obsValue m ρ .diagnostic = 0 ∧ obsValuePure m v c .diagnostic = 0
    ∧ obsValue m (pureRho m v c) (.op O) = obsValuePure m v c (.op O)
    ∧ toM m (pureRho m v c) = CRat.ofRat (1 / c) • vecMulVec (toV m v) (star (toV m v))
    ∧ ((toM m O)ᴴ = toM m O → (toM m ρ)ᴴ = toM m ρ → (mtrace m (mmul m O ρ)).im = 0)
    ∧ ((toM m O)ᴴ = toM m O → (vdot m v (mulVec m O v)).im = 0) := by
  refine ⟨?_, ?_, rfl, rfl, obsValue_pureRho m O v c, toM_pureRho m v c, ?_, ?_⟩
  · show (mtrace m (mmul m O ρ)).re = _
    rw [obs_trace_eq]
  · show (vdot m v (mulVec m O v)).re / c = _
    rw [obs_pure_eq]
  · intro hO hρ
    rw [obs_trace_eq]
    exact trace_mul_real _ _ hO hρ
  · intro hO
    rw [obs_pure_eq]
    exact expect_real _ hO _

/-- **C06.20 `index_mat_roundtrip`** (`ofIndexMat`, the conversion between the index functions of the first half of this
    file and the row lists the solver model computes with) Reading the list back gives the index function on every
    in-range position (so nothing is shifted, transposed or truncated), the list is square of the requested size, its
    Matrix reading is `Matrix.of` the index function, and a well-shaped list converted to an index function and back is
    unchanged. -/
theorem index_mat_roundtrip (n : Nat) (A : Index.Mat CRat) (B : CMat) :
    (∀ i j, i < n → j < n → get (ofIndexMat n A) i j = A.e i j)
    ∧ (ofIndexMat n A).length = n ∧ (∀ row ∈ ofIndexMat n A, row.length = n)
    ∧ toM n (ofIndexMat n A) = (Matrix.of fun (i j : Fin n) => A.e i j)
    ∧ (B.length = n → (∀ row ∈ B, row.length = n) → ofIndexMat n ⟨n, n, get B⟩ = B) := by
  refine ⟨fun i j hi hj => get_tab n _ i j hi hj, length_tab n _, ?_, toM_tab n _, fun h1 h2 => tab_get n B h1 h2⟩
  intro row hrow
  unfold ofIndexMat tab at hrow
  obtain ⟨i, _, rfl⟩ := List.mem_map.mp hrow
  simp

/-- **C06.20b `exec_embed_entry`** the matrices the driver feeds to the solver model are the `kron_entry` objects:
    for any index matrix `E` on `L` qubits the list `ofIndexMat (2^L) E` holds, at the positions `kronIdx` assigns to two
    basis states, the entry `E` has there; for `E = _embed_generic(sites=[i], A)` that entry is `A[x, x']` if all other
    digits agree and `0` otherwise (`embed_site_one`; the same composition applies to `embed_site_adjacent` and
    `embed_site_factors`). -/
theorem exec_embed_entry (L : Nat) (E : Index.Mat CRat) (b c : List Nat)
    (hb : Index.Valid (List.replicate L 2) b) (hc : Index.Valid (List.replicate L 2) c) :
    get (ofIndexMat (2 ^ L) E) (Index.kronIdx (List.replicate L 2) b) (Index.kronIdx (List.replicate L 2) c)
      = E.e (Index.kronIdx (List.replicate L 2) b) (Index.kronIdx (List.replicate L 2) c)
    ∧ ∀ (A : Index.Mat CRat) (pre pre' post post' : List Nat) (x x' : Nat),
        L = pre.length + 1 + post.length → pre'.length = pre.length → post'.length = post.length →
        A.rows = 2 ∧ A.cols = 2 → (∀ z ∈ pre ++ x :: post, z < 2) → (∀ z ∈ pre' ++ x' :: post', z < 2) →
        ∃ M, Index.embed1 L pre.length A = some M ∧
          get (ofIndexMat (2 ^ L) M) (Index.kronIdx (List.replicate L 2) (pre ++ x :: post))
              (Index.kronIdx (List.replicate L 2) (pre' ++ x' :: post'))
            = if pre = pre' ∧ post = post' then A.e x x' else 0 := by
  have hin : ∀ (E : Index.Mat CRat) (b c : List Nat), Index.Valid (List.replicate L 2) b →
      Index.Valid (List.replicate L 2) c →
      get (ofIndexMat (2 ^ L) E) (Index.kronIdx (List.replicate L 2) b) (Index.kronIdx (List.replicate L 2) c)
        = E.e (Index.kronIdx (List.replicate L 2) b) (Index.kronIdx (List.replicate L 2) c) := by
    intro E b c hb hc
    have h1 := Index.kronIdx_lt hb
    have h2 := Index.kronIdx_lt hc
    rw [Index.dimProd_replicate] at h1 h2
    exact get_tab _ _ _ _ h1 h2
  refine ⟨hin E b c hb hc, ?_⟩
  intro A pre pre' post post' x x' hL hp hq hA hz hz'
  subst hL
  obtain ⟨M, hM, he⟩ := Index.embed_site_one A pre pre' post post' x x' hp hq hA hz hz'
  refine ⟨M, hM, ?_⟩
  rw [hin M _ _ ((Index.valid_replicate_iff _ _ _).mpr ⟨by simp; omega, hz⟩)
    ((Index.valid_replicate_iff _ _ _).mpr ⟨by simp; omega, hz'⟩)]
  exact he

/-- **C06.21 `solver_tol_rule`** (`solve_ivp(..., rtol=sim_params.threshold, atol=sim_params.threshold * 1e-2)`)
    The tolerance rule the model encodes — and the tie compares with the keyword arguments the real `lindblad` hands to
    `solve_ivp` — is: relative tolerance = the user's `threshold`, absolute tolerance = one hundredth of it; so for a
    non-negative threshold `atol ≤ rtol`, both are positive iff the threshold is, and both scale linearly.
    (`1e-2` is the binary64 nearest to 1/100; the tie compares at 1e-9 relative.) -/
theorem solver_tol_rule (thr : Rat) :
    solverTol thr = (thr, thr / 100)
    ∧ (0 ≤ thr → (solverTol thr).2 ≤ (solverTol thr).1)
    ∧ (0 < (solverTol thr).1 ↔ 0 < thr) ∧ (0 < (solverTol thr).2 ↔ 0 < thr)
    ∧ ∀ s, solverTol (s * thr) = (s * (solverTol thr).1, s * (solverTol thr).2) := by
  have e : solverTol thr = (thr, thr / 100) := by
    unfold solverTol
    rw [mul_one_div]
  refine ⟨e, ?_, ?_, ?_, ?_⟩
  · intro h; rw [e]; simp only; linarith
  · rw [e]
  · rw [e]; simp only
    constructor <;> intro h <;> linarith
  · intro s
    unfold solverTol
    simp only [mul_assoc]

/-- **C06.22 `exec_first_order_jump_probability`** (`jumpWeights`, `pJump` and `heff` on lists) For a Hermitian `H`, a
    unit state of the right length and the explicit Euler step `ψ₁ = ψ − i·dt·H_eff ψ` computed on lists (`eulerNext`):
    `pJump ψ₁ = dt·Σ_k γ_k‖L_kψ‖² − dt²·‖H_eff ψ‖²` **exactly**, where the first-order coefficient is the sum of the very
    numbers `jumpWeights` the code normalises into the vector for `rng.choice` (first conjunct: that sum, read through
    `toM`/`toV`, is the sum in `heff_antihermitian_part` and `first_order_jump_probability`).  So "jump probability =
    norm loss" (what the code computes) and "jump probability = `dt` × total rate" agree to first order in `dt`, with
    the executable definitions on both sides; `exp(−i H_eff dt)ψ` differs from `ψ₁` by `O(dt²)` (cited, not formalised). -/
theorem exec_first_order_jump_probability (m : Nat) (H : CMat) (Ls : List (Proc CMat)) (ψ : CVec) (dt : Rat)
    (hH : (toM m H)ᴴ = toM m H) (hl : ψ.length = m) (h1 : vnormSq ψ = 1) :
    CRat.ofRat (jumpWeights m Ls ψ).sum
        = ((Ls.map (Proc.map (toM m))).map fun p =>
            CRat.ofRat p.gamma * (star (p.op *ᵥ toV m ψ) ⬝ᵥ (p.op *ᵥ toV m ψ))).sum
    ∧ pJump (eulerNext m (heff (listOps m) H Ls) dt ψ)
        = dt * (jumpWeights m Ls ψ).sum - dt * dt * vnormSq (mulVec m (heff (listOps m) H Ls) ψ) := by
  refine ⟨jumpWeights_eq m Ls ψ, ?_⟩
  apply ofRat_inj
  have hE : toM m (heff (listOps m) H Ls)
      = heff (matrixOps CRat.I ⟨1 / 2, 0⟩ CRat.ofRat) (toM m H) (Ls.map (Proc.map (toM m))) :=
    heff_hom (listOps_hom m) H Ls
  have key := first_order_jump_probability (n := Fin m) CRat.I ⟨1 / 2, 0⟩ (by decide +kernel) CRat.I_mul_I
    (by decide +kernel) (by decide +kernel) CRat.ofRat star_ofRat (toM m H) hH (Ls.map (Proc.map (toM m))) (toV m ψ)
    (CRat.ofRat dt) (star_ofRat dt)
  unfold pJump
  rw [ofRat_sub, vnormSq_eq m (eulerNext m _ dt ψ) (length_vtab m _), toV_eulerNext, hE, key, ← jumpWeights_eq, ← vnormSq_eq m ψ hl, h1,
    ← hE, ← vnormSq_mulVec, ofRat_sub, ofRat_mul, ofRat_mul, ofRat_mul]
  simp only [ofRat_one]
  ring

/-! ### non-vacuity (one and two qubits over the Gaussian rationals) -/

section ExamplesExec

/-- lowering with `γ = 1/2` and `σ_z` with `γ = 1/4` on one qubit, `ψ = (3/5, 4/5)`, `ψ̃ = (3/5, 3/4)` -/
def exLs : List (Proc CMat) := [⟨1 / 2, [[0, 1], [0, 0]]⟩, ⟨1 / 4, [[1, 0], [0, -1]]⟩]
def exPsi : CVec := [⟨3 / 5, 0⟩, ⟨4 / 5, 0⟩]
def exNext : CVec := [⟨3 / 5, 0⟩, ⟨3 / 4, 0⟩]

/-- `p_jump = 31/400`; a draw just below jumps, the boundary draw and a draw above do not -/
example : pJump exNext = 31 / 400
    ∧ mcwfTaken 2 exLs exPsi exNext (30 / 400) 0 = some (.jump 0 [32 / 57, 25 / 57])
    ∧ mcwfTaken 2 exLs exPsi exNext (31 / 400) 0 = some .noJump
    ∧ mcwfTaken 2 exLs exPsi exNext (1 / 2) 0 = some .noJump
    ∧ mcwfTaken 2 exLs exPsi exNext 0 2 = none := by decide +kernel

/-- the `1e-15` fall-back: lowering on the vacuum has weight 0 although the draw asks for a jump; a second process on
    the same site (raising) with non-zero weight gives a probability vector with an exact zero -/
example : mcwfTaken 2 [⟨1 / 2, [[0, 1], [0, 0]]⟩] [1, 0] [⟨9 / 10, 0⟩, 0] 0 0 = some .noJumpEps
    ∧ mcwfTaken 2 [⟨1 / 2, [[0, 1], [0, 0]]⟩, ⟨1 / 3, [[0, 0], [1, 0]]⟩] [1, 0] [⟨9 / 10, 0⟩, 0] 0 1
        = some (.jump 1 [0, 1]) := by decide +kernel

/-- post-jump state of the lowering jump: `L ψ = (4/5, 0)` with squared norm `16/25`, i.e. `|0⟩`; `⟨Z⟩` goes from
    `−7/25` before to `1` after; the no-jump branch reports `⟨Z⟩` of the renormalised `ψ̃` -/
example : postState 2 exLs exPsi exNext (.jump 0 [32 / 57, 25 / 57]) = ([⟨4 / 5, 0⟩, 0], 16 / 25)
    ∧ postRho 2 exLs exPsi exNext (.jump 0 [32 / 57, 25 / 57]) = [[1, 0], [0, 0]]
    ∧ oneStepCols 2 exLs [.op [[1, 0], [0, -1]], .diagnostic] true exPsi exNext (30 / 400) 0
        = some [[-7 / 25, 0], [1, 0]]
    ∧ oneStepCols 2 exLs [.op [[1, 0], [0, -1]], .diagnostic] false exPsi exNext (31 / 400) 0
        = some [[-81 / 369, 0]]
    ∧ opCalls 2 (.jump 0 [32 / 57, 25 / 57]) = [0, 1, 0] := by decide +kernel

/-- the hypotheses of `mcwf_exec_post` (last two conjuncts) are met: length 2, norm not 0, entry of the vector not 0 -/
example : (postState 2 exLs exPsi exNext (.jump 0 [32 / 57, 25 / 57])).1.length = 2
    ∧ (postState 2 exLs exPsi exNext (.jump 0 [32 / 57, 25 / 57])).2 ≠ 0
    ∧ ([32 / 57, 25 / 57] : List Rat)[0]? = some (32 / 57) ∧ (32 / 57 : Rat) ≠ 0 := by decide +kernel

/-- `obs_exec` on a non-diagonal Hermitian observable (`Y`) and a complex state: both read-outs give `24/25`; the
    Hermiticity hypotheses hold -/
example : obsValuePure 2 [⟨3 / 5, 0⟩, ⟨0, 4 / 5⟩] 1 (.op [[0, ⟨0, -1⟩], [⟨0, 1⟩, 0]]) = 24 / 25
    ∧ obsValue 2 (pureRho 2 [⟨3 / 5, 0⟩, ⟨0, 4 / 5⟩] 1) (.op [[0, ⟨0, -1⟩], [⟨0, 1⟩, 0]]) = 24 / 25
    ∧ (toM 2 [[0, ⟨0, -1⟩], [⟨0, 1⟩, 0]])ᴴ = toM 2 [[0, ⟨0, -1⟩], [⟨0, 1⟩, 0]]
    ∧ (toM 2 (pureRho 2 [⟨3 / 5, 0⟩, ⟨0, 4 / 5⟩] 1))ᴴ = toM 2 (pureRho 2 [⟨3 / 5, 0⟩, ⟨0, 4 / 5⟩] 1) := by
  decide +kernel

/-- two qubits: the lowering operator embedded on site 0 (`_embed_generic`), materialised by `ofIndexMat`, maps `|10⟩`
    (index 2) to `|00⟩` (index 0) and `|11⟩` to `|01⟩`, and nothing else -/
example : (Index.embed1 2 0 (Index.ofList 2 2 [(0 : CRat), 1, 0, 0])).map (ofIndexMat 4)
    = some [[0, 0, 1, 0], [0, 0, 0, 1], [0, 0, 0, 0], [0, 0, 0, 0]] := by decide +kernel

example : solverTol (1 / 1000000) = (1 / 1000000, 1 / 100000000) := by decide +kernel

/-- `exec_first_order_jump_probability` on `H = X`, lowering with `γ = 1/2`, `ψ = (3/5, 4/5)`, `dt = 1/10`:
    the hypotheses hold and both sides are `627/25000` -/
example : (toM 2 [[0, 1], [1, 0]])ᴴ = toM 2 [[0, 1], [1, 0]] ∧ exPsi.length = 2 ∧ vnormSq exPsi = 1
    ∧ pJump (eulerNext 2 (heff (listOps 2) [[0, 1], [1, 0]] [⟨1 / 2, [[0, 1], [0, 0]]⟩]) (1 / 10) exPsi)
        = (1 / 10) * (jumpWeights 2 [⟨1 / 2, [[0, 1], [0, 0]]⟩] exPsi).sum
          - (1 / 10) * (1 / 10) * vnormSq (mulVec 2 (heff (listOps 2) [[0, 1], [1, 0]] [⟨1 / 2, [[0, 1], [0, 0]]⟩]) exPsi) := by
  decide +kernel

end ExamplesExec

end Yaqs.MasterEq
