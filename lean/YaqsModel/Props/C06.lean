import YaqsModel.Lemmas.Index
import YaqsModel.Lemmas.MasterEq
import Mathlib.Data.Complex.Basic
import Mathlib.Tactic.NormNum
import Mathlib.Algebra.BigOperators.Group.List.Basic

/-!
# C06 — all analog solvers describe the same system and index sites the same way

Property theorems only (helpers in `Lemmas/Index.lean`).  A basis state is a digit list `b` (site 0 first) with
local dimensions `d`; `Valid d b` says the lists have equal length and every digit is below its dimension.
All theorems hold for every chain length and every mix of local dimensions; the matrix entries live in an
arbitrary type with a multiplication (`kron_entry`) resp. with `0`, `1` and a multiplication (`embed_site_*`),
so they cover real, complex, dense and sparse operators alike.

What the theorems say about the code: the dense operators (`_embed_generic`, `MPO.to_matrix`,
`MPO.to_sparse_matrix`) place site 0 in the most significant position (`kronIdx`); `MPS.to_vec` places site 0 in
the least significant one (`toVecIdx`); after the repair the vector that `lindblad` and `preprocess_mcwf` hand
to the integrator is indexed by `kronIdx` again (`solver_consistent`), whereas the code as found agreed with the
operators only on palindromic basis states (`solver_old_iff_palindrome`, `solver_old_counterexample`).
The numerical part of the property (RK45 within tolerance, TDVP / Arnoldi accuracy) is not a theorem; it is
measured by the oracle of the correspondence check against a dense master-equation reference.
-/
namespace Yaqs.Index

variable {α : Type}

/-- the list `A₁[b₁,c₁], A₂[b₂,c₂], …` -/
def entryList : List (Mat α) → List Nat → List Nat → List α
  | A :: As, b :: bs, c :: cs => A.e b c :: entryList As bs cs
  | _, _, _ => []

private theorem entryProd_eq_mul_prod [Monoid α] : ∀ (a : α) (As : List (Mat α)) (bs cs : List Nat),
    entryProd a As bs cs = a * (entryList As bs cs).prod
  | a, [], _, _ => by simp [entryProd, entryList]
  | a, _ :: _, [], _ => by simp [entryProd, entryList]
  | a, _ :: _, _ :: _, [] => by simp [entryProd, entryList]
  | a, A :: As, b :: bs, c :: cs => by
    simp only [entryProd, entryList, List.prod_cons]
    rw [entryProd_eq_mul_prod _ As bs cs, mul_assoc]

/-- **C06.1 `kron_entry`** For every number of factors and every mix of (not necessarily square) factor shapes:
    the entry of `A₀ ⊗ A₁ ⊗ … ⊗ A_{L-1}` (built the way `_kron_all_*`, `MPO.to_matrix` on a product operator do: left
    fold of `np.kron`) at row `kronIdx b`, column `kronIdx c` is the left-nested product of the entries
    `A_i[b_i, c_i]`; the shape of the result is the product of the shapes.  Needs only a multiplication. -/
theorem kron_entry [Mul α] (A : Mat α) (As : List (Mat α)) (b c : Nat) (bs cs : List Nat)
    (hr : Valid ((A :: As).map (·.rows)) (b :: bs)) (hc : Valid ((A :: As).map (·.cols)) (c :: cs)) :
    ∃ M, kronAll (A :: As) = some M ∧
      M.rows = dimProd ((A :: As).map (·.rows)) ∧ M.cols = dimProd ((A :: As).map (·.cols)) ∧
      M.e (kronIdx ((A :: As).map (·.rows)) (b :: bs)) (kronIdx ((A :: As).map (·.cols)) (c :: cs))
        = entryProd (A.e b c) As bs cs := by
  refine ⟨As.foldl kron A, rfl, ?_, ?_, ?_⟩
  · simpa [dimProd] using (foldl_kron_rows As A).1
  · simpa [dimProd] using (foldl_kron_rows As A).2
  · have := foldl_kron_entry As A b c bs cs hr.2 hc.2
    simpa [kronIdx, kronIdxFrom] using this

/-- **C06.1b** the same entry as an ordinary product `Π_i A_i[b_i, c_i]` when the entries form a monoid -/
theorem kron_entry_prod [Monoid α] (A : Mat α) (As : List (Mat α)) (b c : Nat) (bs cs : List Nat)
    (hr : Valid ((A :: As).map (·.rows)) (b :: bs)) (hc : Valid ((A :: As).map (·.cols)) (c :: cs)) :
    ∃ M, kronAll (A :: As) = some M ∧
      M.e (kronIdx ((A :: As).map (·.rows)) (b :: bs)) (kronIdx ((A :: As).map (·.cols)) (c :: cs))
        = (entryList (A :: As) (b :: bs) (c :: cs)).prod := by
  obtain ⟨M, hM, _, _, he⟩ := kron_entry A As b c bs cs hr hc
  exact ⟨M, hM, by rw [he, entryProd_eq_mul_prod]; simp [entryList]⟩

/-- **C06.2 `toVec_is_reversed`** `MPS.to_vec` (site 0 least significant) indexes a basis state like the
    Kronecker convention applied to the reversed chain — for every length and mixed local dimensions.  The second
    component says that the documented convention is what the code (flip, then merge) computes. -/
theorem toVec_is_reversed (d b : List Nat) (h : Valid d b) :
    toVecIdx d b = kronIdx d.reverse b.reverse ∧ toVecIdxCode d b = toVecIdx d b :=
  ⟨toVecIdx_eq_code h, (toVecIdx_eq_code h).symm⟩

/-- **C06.3 `solver_consistent`** (repaired code) the vector handed to the Lindblad / MCWF integrator carries
    basis state `b` at the position the embedded operators use for it, for every chain. -/
theorem solver_consistent (d b : List Nat) (h : Valid d b) : solverIdxD d b = kronIdx d b := by
  unfold solverIdxD
  simp only [List.reverse_reverse]
  rw [toVecIdx_eq_code h]
  unfold toVecIdxCode
  rw [unflat_kronIdx h.reverse, List.reverse_reverse]

/-- **C06.3b** the qubit instance actually coded (`reshape([2]*L)`) -/
theorem solver_consistent_qubits (b : List Nat) (h : ∀ x ∈ b, x < 2) :
    solverIdx b = kronIdx (List.replicate b.length 2) b :=
  solver_consistent _ b ((valid_replicate_iff _ _ _).mpr ⟨rfl, h⟩)

/-- **C06.3c** the code as found agreed with its operators exactly on palindromic basis states -/
theorem solver_old_iff_palindrome (b : List Nat) (h : ∀ x ∈ b, x < 2) :
    solverIdxOld b = kronIdx (List.replicate b.length 2) b ↔ b.reverse = b := by
  have hv : Valid (List.replicate b.length 2) b := (valid_replicate_iff _ _ _).mpr ⟨rfl, h⟩
  have hvr : Valid (List.replicate b.length 2) b.reverse := by
    have := hv.reverse
    rwa [List.reverse_replicate] at this
  unfold solverIdxOld
  rw [toVecIdx_eq_code hv]
  unfold toVecIdxCode
  rw [List.reverse_replicate]
  constructor
  · intro he; exact kronIdx_inj hvr hv he
  · intro he; rw [he]

/-- **C06.3d `solver_old_counterexample`** (D6) on `"100"` the old solvers read the excitation at position 1
    (site 2 of the operators) while the operators address site 0 at position 4 -/
theorem solver_old_counterexample :
    solverIdxOld [1, 0, 0] = 1 ∧ kronIdx [2, 2, 2] [1, 0, 0] = 4 ∧ solverIdx [1, 0, 0] = 4 ∧
    kronIdx [2, 2, 2] [0, 0, 1] = 1 := by decide

/-- **C06.4a `embed_site` (one site)** `_embed_generic(sites=[i], op_matrix=A)` on `L = |pre|+1+|post|` qubits:
    the entry between basis states `pre ++ x :: post` and `pre' ++ x' :: post'` is `A[x, x']` if all other digits
    agree and `0` otherwise — the operator acts on digit `i = |pre|` and on nothing else. -/
theorem embed_site_one [MulZeroOneClass α] (A : Mat α) (pre pre' post post' : List Nat) (x x' : Nat)
    (hp : pre'.length = pre.length) (hq : post'.length = post.length)
    (hA : A.rows = 2 ∧ A.cols = 2)
    (hb : ∀ z ∈ pre ++ x :: post, z < 2) (hb' : ∀ z ∈ pre' ++ x' :: post', z < 2) :
    ∃ M, embed1 (pre.length + 1 + post.length) pre.length A = some M ∧
      M.e (kronIdx (List.replicate (pre.length + 1 + post.length) 2) (pre ++ x :: post))
          (kronIdx (List.replicate (pre.length + 1 + post.length) 2) (pre' ++ x' :: post'))
        = if pre = pre' ∧ post = post' then A.e x x' else 0 := by
  set L := pre.length + 1 + post.length with hL
  have hops : (List.replicate L (eye (α := α) 2)).set pre.length A
      = List.replicate pre.length (eye 2) ++ A :: List.replicate post.length (eye 2) := replicate_set _ _ _ _
  have hlt : pre.length < L := by omega
  have hrows : (List.replicate pre.length (eye (α := α) 2) ++ A :: List.replicate post.length (eye 2)).map (·.rows)
      = List.replicate L 2 := by
    simp [eye, hA.1, hL, List.replicate_add]
  have hcols : (List.replicate pre.length (eye (α := α) 2) ++ A :: List.replicate post.length (eye 2)).map (·.cols)
      = List.replicate L 2 := by
    simp [eye, hA.2, hL, List.replicate_add]
  have hvb : Valid (List.replicate L 2) (pre ++ x :: post) :=
    (valid_replicate_iff _ _ _).mpr ⟨by simp [hL]; omega, hb⟩
  have hvb' : Valid (List.replicate L 2) (pre' ++ x' :: post') :=
    (valid_replicate_iff _ _ _).mpr ⟨by simp [hL]; omega, hb'⟩
  obtain ⟨M, hM, he⟩ := kronAll_entry_uniform
    (List.replicate pre.length (eye (α := α) 2) ++ A :: List.replicate post.length (eye 2)) (by simp)
    (pre ++ x :: post) (pre' ++ x' :: post') (by rw [hrows]; exact hvb) (by rw [hcols]; exact hvb')
  rw [hrows, hcols] at he
  refine ⟨M, ?_, ?_⟩
  · simp only [embed1, hlt, if_true, hops, hM]
  · rw [he, entryProd_eye_prefix pre.length 1 2 _ pre pre' _ _ rfl hp]
    by_cases h1 : pre = pre'
    · simp only [h1, if_true, true_and, entryProd, one_mul]
      exact entryProd_eye_suffix post.length _ 2 post post' rfl hq
    · simp [h1]

/-- **C06.4b `embed_site` (adjacent pair)** `_embed_generic(sites={i,i+1}, op_matrix=M)` (a 4×4 matrix):
    the entry between `pre ++ x :: y :: post` and `pre' ++ x' :: y' :: post'` is `M[2x+y, 2x'+y']` if the other
    digits agree and `0` otherwise — the first tensor factor of `M` acts on digit `i`, the second on `i+1`. -/
theorem embed_site_adjacent [MulZeroOneClass α] (M : Mat α) (pre pre' post post' : List Nat) (x y x' y' : Nat)
    (hp : pre'.length = pre.length) (hq : post'.length = post.length)
    (hM : M.rows = 4 ∧ M.cols = 4)
    (hb : ∀ z ∈ pre ++ x :: y :: post, z < 2) (hb' : ∀ z ∈ pre' ++ x' :: y' :: post', z < 2) :
    ∃ E, embed2 (pre.length + 2 + post.length) pre.length (pre.length + 1) M = some E ∧
      embed2 (pre.length + 2 + post.length) (pre.length + 1) pre.length M = some E ∧
      E.e (kronIdx (List.replicate (pre.length + 2 + post.length) 2) (pre ++ x :: y :: post))
          (kronIdx (List.replicate (pre.length + 2 + post.length) 2) (pre' ++ x' :: y' :: post'))
        = if pre = pre' ∧ post = post' then M.e (2 * x + y) (2 * x' + y') else 0 := by
  set p := pre.length with hpdef
  set q := post.length with hqdef
  have vpre : Valid (List.replicate p 2) pre :=
    (valid_replicate_iff _ _ _).mpr ⟨rfl, fun z hz => hb z (List.mem_append_left _ hz)⟩
  have vpre' : Valid (List.replicate p 2) pre' :=
    (valid_replicate_iff _ _ _).mpr ⟨hp, fun z hz => hb' z (List.mem_append_left _ hz)⟩
  have vpost : Valid (List.replicate q 2) post :=
    (valid_replicate_iff _ _ _).mpr ⟨rfl, fun z hz => hb z (by simp [hz])⟩
  have vpost' : Valid (List.replicate q 2) post' :=
    (valid_replicate_iff _ _ _).mpr ⟨hq, fun z hz => hb' z (by simp [hz])⟩
  have hx : x < 2 := hb x (by simp)
  have hy : y < 2 := hb y (by simp)
  have hx' : x' < 2 := hb' x' (by simp)
  have hy' : y' < 2 := hb' y' (by simp)
  have vxy : Valid [2, 2] [x, y] := by simp [Valid, hx, hy]
  have vxy' : Valid [2, 2] [x', y'] := by simp [Valid, hx', hy']
  have hsplit : List.replicate (p + 2 + q) 2 = List.replicate p 2 ++ ([2, 2] ++ List.replicate q 2) := by
    rw [show p + 2 + q = p + (2 + q) by omega, List.replicate_add, List.replicate_add]; rfl
  have idx : ∀ (l r : List Nat) (a c : Nat), Valid (List.replicate p 2) l → Valid (List.replicate q 2) r →
      Valid [2, 2] [a, c] →
      kronIdx (List.replicate (p + 2 + q) 2) (l ++ a :: c :: r)
        = (kronIdx (List.replicate p 2) l * 4 + (2 * a + c)) * 2 ^ q + kronIdx (List.replicate q 2) r := by
    intro l r a c hl hr hac
    rw [hsplit, show l ++ a :: c :: r = l ++ ([a, c] ++ r) by simp,
      kronIdx_append hl (hac.append hr), kronIdx_append hac hr, dimProd_append, dimProd_replicate]
    simp [kronIdx, kronIdxFrom, dimProd]
    ring
  have hKp := kronIdx_lt vpost
  have hKp' := kronIdx_lt vpost'
  rw [dimProd_replicate] at hKp hKp'
  refine ⟨kron (kron (eye (2 ^ p)) M) (eye (2 ^ q)), ?_, ?_, ?_⟩
  · simp only [embed2]
    have h1 : min p (p + 1) = p := by omega
    have h2 : max p (p + 1) = p + 1 := by omega
    rw [h1, h2]
    simp only [ne_eq, not_true_eq_false, if_false]
    rw [show p + 2 + q - 1 - (p + 1) = q by omega]
  · simp only [embed2]
    have h1 : min (p + 1) p = p := by omega
    have h2 : max (p + 1) p = p + 1 := by omega
    rw [h1, h2]
    simp only [ne_eq, not_true_eq_false, if_false]
    rw [show p + 2 + q - 1 - (p + 1) = q by omega]
  · rw [idx pre post x y vpre vpost vxy, idx pre' post' x' y' vpre' vpost' vxy']
    set P := kronIdx (List.replicate p 2) pre
    set P' := kronIdx (List.replicate p 2) pre'
    set K := kronIdx (List.replicate q 2) post
    set K' := kronIdx (List.replicate q 2) post'
    have hm : 2 * x + y < 4 := by omega
    have hm' : 2 * x' + y' < 4 := by omega
    have e1 : (kron (kron (eye (α := α) (2 ^ p)) M) (eye (2 ^ q))).e ((P * 4 + (2 * x + y)) * 2 ^ q + K)
        ((P' * 4 + (2 * x' + y')) * 2 ^ q + K')
        = (kron (eye (α := α) (2 ^ p)) M).e (P * 4 + (2 * x + y)) (P' * 4 + (2 * x' + y')) * (eye (2 ^ q)).e K K' :=
      kron_e_mul_add (kron (eye (α := α) (2 ^ p)) M) (eye (2 ^ q)) (P * 4 + (2 * x + y)) (P' * 4 + (2 * x' + y'))
        K K' hKp hKp'
    have e2 := kron_e_mul_add (eye (α := α) (2 ^ p)) M P P' (2 * x + y) (2 * x' + y') (by rw [hM.1]; exact hm)
      (by rw [hM.2]; exact hm')
    rw [hM.1, hM.2] at e2
    rw [e1, e2]
    have hP : P = P' ↔ pre = pre' := ⟨fun h => kronIdx_inj vpre vpre' h, fun h => by simp [P, P', h]⟩
    have hK : K = K' ↔ post = post' := ⟨fun h => kronIdx_inj vpost vpost' h, fun h => by simp [K, K', h]⟩
    by_cases h1 : pre = pre' <;> by_cases h2 : post = post' <;>
      simp [eye, hP, hK, h1, h2]

/-- **C06.4c `embed_site` (factor pair, `s1 < s2`)** `_embed_generic(sites=[i,j], op_factors=(A,B))` with `i < j`:
    the entry is `A[x,x'] * B[y,y']` if all digits other than `i` and `j` agree and `0` otherwise — `A` acts on
    digit `i = |p0|`, `B` on digit `j = |p0|+1+|p1|`. -/
theorem embed_site_factors [MulZeroOneClass α] (A B : Mat α) (p0 p0' p1 p1' p2 p2' : List Nat) (x y x' y' : Nat)
    (h0 : p0'.length = p0.length) (h1 : p1'.length = p1.length) (h2 : p2'.length = p2.length)
    (hA : A.rows = 2 ∧ A.cols = 2) (hB : B.rows = 2 ∧ B.cols = 2)
    (hb : ∀ z ∈ p0 ++ x :: (p1 ++ y :: p2), z < 2) (hb' : ∀ z ∈ p0' ++ x' :: (p1' ++ y' :: p2'), z < 2) :
    ∃ E, embedF (p0.length + 1 + (p1.length + 1 + p2.length)) p0.length (p0.length + 1 + p1.length) A B = some E ∧
      E.e (kronIdx (List.replicate (p0.length + 1 + (p1.length + 1 + p2.length)) 2) (p0 ++ x :: (p1 ++ y :: p2)))
          (kronIdx (List.replicate (p0.length + 1 + (p1.length + 1 + p2.length)) 2) (p0' ++ x' :: (p1' ++ y' :: p2')))
        = if p0 = p0' ∧ p1 = p1' ∧ p2 = p2' then A.e x x' * B.e y y' else 0 := by
  set L := p0.length + 1 + (p1.length + 1 + p2.length) with hL
  have hops : ((List.replicate L (eye (α := α) 2)).set p0.length A).set (p0.length + 1 + p1.length) B
      = List.replicate p0.length (eye 2) ++ A :: (List.replicate p1.length (eye 2) ++ B :: List.replicate p2.length (eye 2)) := by
    rw [hL, replicate_set, List.set_append_right _ _ (by simp; omega)]
    simp only [List.length_replicate]
    rw [show p0.length + 1 + p1.length - p0.length = p1.length + 1 by omega, List.set_cons_succ, replicate_set]
  have hrows : (List.replicate p0.length (eye (α := α) 2) ++ A :: (List.replicate p1.length (eye 2) ++ B ::
      List.replicate p2.length (eye 2))).map (·.rows) = List.replicate L 2 := by
    simp [eye, hA.1, hB.1, hL, List.replicate_add]
  have hcols : (List.replicate p0.length (eye (α := α) 2) ++ A :: (List.replicate p1.length (eye 2) ++ B ::
      List.replicate p2.length (eye 2))).map (·.cols) = List.replicate L 2 := by
    simp [eye, hA.2, hB.2, hL, List.replicate_add]
  have hvb : Valid (List.replicate L 2) (p0 ++ x :: (p1 ++ y :: p2)) :=
    (valid_replicate_iff _ _ _).mpr ⟨by simp [hL]; omega, hb⟩
  have hvb' : Valid (List.replicate L 2) (p0' ++ x' :: (p1' ++ y' :: p2')) :=
    (valid_replicate_iff _ _ _).mpr ⟨by simp [hL]; omega, hb'⟩
  obtain ⟨M, hM, he⟩ := kronAll_entry_uniform
    (List.replicate p0.length (eye (α := α) 2) ++ A :: (List.replicate p1.length (eye 2) ++ B ::
      List.replicate p2.length (eye 2))) (by simp)
    (p0 ++ x :: (p1 ++ y :: p2)) (p0' ++ x' :: (p1' ++ y' :: p2')) (by rw [hrows]; exact hvb) (by rw [hcols]; exact hvb')
  rw [hrows, hcols] at he
  refine ⟨M, ?_, ?_⟩
  · have hlt : p0.length < L ∧ p0.length + 1 + p1.length < L := by omega
    simp only [embedF, hlt, and_self, if_true, hops, hM]
  · rw [he, entryProd_eye_prefix p0.length 1 2 _ p0 p0' _ _ rfl h0]
    by_cases e0 : p0 = p0'
    · simp only [e0, if_true, true_and, entryProd, one_mul]
      rw [entryProd_eye_prefix p1.length _ 2 _ p1 p1' _ _ rfl h1]
      by_cases e1 : p1 = p1'
      · simp only [e1, if_true, true_and, entryProd]
        exact entryProd_eye_suffix p2.length _ 2 p2 p2' rfl h2
      · simp [e1]
    · simp [e0]

/-- **C06.5 `kronIdx_bij`** digits ↔ flat index is a bijection between the valid digit lists and `[0, Π d)`:
    the index is in range, `unflat` inverts `kronIdx` on valid digits, and `kronIdx` inverts `unflat` below `Π d`;
    in particular two different basis states never share a position. -/
theorem kronIdx_bij (d : List Nat) :
    (∀ b, Valid d b → kronIdx d b < dimProd d ∧ unflat d (kronIdx d b) = b) ∧
    (∀ k, k < dimProd d → Valid d (unflat d k) ∧ kronIdx d (unflat d k) = k) ∧
    (∀ b b', Valid d b → Valid d b' → kronIdx d b = kronIdx d b' → b = b') :=
  ⟨fun _ h => ⟨kronIdx_lt h, unflat_kronIdx h⟩, fun k hk => kronIdx_unflat d k hk,
   fun _ _ h h' he => kronIdx_inj h h' he⟩

/-! ### non-vacuity: concrete instances (mixed dimensions, asymmetric states, non-symmetric operators) -/

/-- a qutrit–qubit–qubit chain: `|2,0,1⟩` sits at 2·4+0·2+1 = 9 for the operators and at 2+3·(0+2·1) = 8 in `to_vec` -/
example : kronIdx [3, 2, 2] [2, 0, 1] = 9 ∧ toVecIdx [3, 2, 2] [2, 0, 1] = 8 ∧
    solverIdxD [3, 2, 2] [2, 0, 1] = 9 ∧ unflat [3, 2, 2] 9 = [2, 0, 1] ∧ Valid [3, 2, 2] [2, 0, 1] := by decide

example : solverIdxOld [1, 1, 0] = 3 ∧ solverIdx [1, 1, 0] = 6 ∧ kronIdx [2, 2, 2] [1, 1, 0] = 6 := by decide

/-- the lowering operator `[[0,1],[0,0]]` on site 0 of three qubits maps `|100⟩` (index 4) to `|000⟩` (index 0) and
    does not touch `|001⟩` (index 1) -/
example : ((embed1 3 0 (ofList 2 2 [0, 1, 0, 0] : Mat Int)).map fun M => (M.e 0 4, M.e 0 1, M.e 4 0, M.rows)) =
    some (1, 0, 0, 8) := by decide

/-- a non-symmetric product `A ⊗ B`, `A = [[1,2],[3,4]]`, `B = [[5,6],[7,8]]`: entry (|10⟩,|01⟩) = A[1,0]·B[0,1] -/
example : ((kronAll [(ofList 2 2 [1, 2, 3, 4] : Mat Int), ofList 2 2 [5, 6, 7, 8]]).map fun M => M.e 2 1) =
    some 18 := by decide

example : ((embed2 3 2 1 (ofList 4 4 [0, 1, 2, 3, 4, 5, 6, 7, 8, 9, 10, 11, 12, 13, 14, 15] : Mat Int)).map
    fun M => (M.e 1 2, M.e 5 6, M.e 1 6)) = some (6, 6, 0) := by decide

example : ((embedF 4 0 2 (ofList 2 2 [1, 2, 3, 4] : Mat Int) (ofList 2 2 [5, 6, 7, 8])).map
    fun M => (M.e 8 2, M.e 9 3, M.e 8 3)) = some (18, 18, 0) := by decide

end Yaqs.Index

/-!
# C06, extension — the *content* of the Lindblad and MCWF solvers ("describe the same system")

The theorems below are about `Model.MasterEq` (the accumulation `lindblad_rhs` performs, which processes become jump
operators, `H_eff`, one pass of the MCWF loop).  The polymorphic definitions `lindbladRhs`, `lDagLSum`, `heff`,
`jumpOps` are instantiated on Mathlib matrices `Matrix n n R` over an arbitrary commutative star ring `R`
(`matrixOps i h rate`; ℂ and the Gaussian rationals are instances), where `i` plays the imaginary unit, `h` one half
and `rate : Rat → R` embeds the strengths; each theorem lists which of `star i = -i`, `i * i = -1`, `h + h = 1`,
`star h = h`, `star (rate q) = rate q` it needs.  The driver runs the *same* definitions on `listOps n`
(`List (List CRat)`), and the correspondence check compares them entrywise with the real `lindblad_rhs` closure,
`l_dag_l_sum`, `preprocess_mcwf(...).heff/.jump_ops` and one forced pass of `mcwf`.
-/
namespace Yaqs.MasterEq

open Matrix Yaqs.Dist

variable {n : Type} [Fintype n] {R : Type} [CommRing R] [StarRing R]

/-- **C06.6 `lindblad_rhs_is_lindbladian`** (`lindblad` steps 3–4 and `lindblad_rhs`) For every Hamiltonian, state and
    process list: what the code accumulates — `-1j*(Hρ-ρH)`, then `+= LρL†` per kept operator, then one subtraction of
    `0.5*{Σ L†L, ρ}` — is the Lindbladian in standard form `-i[H,ρ] + Σ_k γ_k (L_k ρ L_k† − ½{L_k†L_k, ρ})` in which
    * the same `k` appears in `L_k ρ L_k†` and in `L_k†L_k` (one `dissipator` per process),
    * every process of the list with strength `> 0` contributes exactly once with its own rate, and every process with
      strength `≤ 0` contributes with coefficient `0` (first conjunct: a sum over the *whole* list),
    * the kept operators are a sub-list (same order) of the process list, characterised by membership and positivity. -/
theorem lindblad_rhs_is_lindbladian (i h : R) (rate : Rat → R) (H ρ : Matrix n n R)
    (procs : List (Proc (Matrix n n R))) :
    lindbladOfProcs (matrixOps i h rate) H procs ρ
        = (-i) • (H * ρ - ρ * H)
          + (procs.map fun p => (if 0 < p.gamma then rate p.gamma else 0) • dissipator h p.op ρ).sum
    ∧ lindbladOfProcs (matrixOps i h rate) H procs ρ = lindbladian i h rate H (jumpOps procs) ρ
    ∧ (jumpOps procs).Sublist procs
    ∧ ∀ p, p ∈ jumpOps procs ↔ p ∈ procs ∧ 0 < p.gamma := by
  refine ⟨?_, lindbladRhs_matrix i h rate H (jumpOps procs) ρ, List.filter_sublist, ?_⟩
  · unfold lindbladOfProcs
    rw [lindbladRhs_matrix, lindbladian, jumpOps, sum_filter_eq_sum_ite]
    congr 2
    apply List.map_congr_left
    intro p _
    by_cases hp : 0 < p.gamma <;> simp [hp]
  · intro p
    simp [jumpOps, List.mem_filter]

/-- **C06.6b `sqrt_scaling_equiv`** (`jump_ops.append(np.sqrt(strength) * op_full)`) The literal code works with
    pre-scaled operators `J_k = r_k·L_k` and no rate; whenever `r_k` is real and `r_k·r_k = γ_k` (what `np.sqrt`
    delivers up to rounding) this is the model's accumulation with the rate `γ_k` carried next to `L_k` — for the
    right-hand side and for `l_dag_l_sum`. -/
theorem sqrt_scaling_equiv (i h : R) (rate : Rat → R) (H ρ : Matrix n n R) (Ls : List (Proc (Matrix n n R)))
    (r : Proc (Matrix n n R) → R) (hr : ∀ p ∈ Ls, star (r p) = r p ∧ r p * r p = rate p.gamma) :
    lindbladRhsJ (matrixOps i h rate) H (Ls.map fun p => r p • p.op) ρ = lindbladRhs (matrixOps i h rate) H Ls ρ
    ∧ lDagLSumJ (matrixOps i h rate) (Ls.map fun p => r p • p.op) = lDagLSum (matrixOps i h rate) Ls := by
  have hS : lDagLSumJ (matrixOps i h rate) (Ls.map fun p => r p • p.op) = lDagLSum (matrixOps i h rate) Ls := by
    unfold lDagLSumJ lDagLSum
    simp only [matrixOps, List.foldl_map]
    rw [foldl_add_eq_sum (fun p : Proc (Matrix n n R) => (r p • p.op)ᴴ * (r p • p.op)) Ls,
      foldl_add_eq_sum (fun p : Proc (Matrix n n R) => rate p.gamma • (p.opᴴ * p.op)) Ls]
    congr 2
    apply List.map_congr_left
    intro p hp
    obtain ⟨h1, h2⟩ := hr p hp
    rw [conjTranspose_smul, h1, Matrix.smul_mul, Matrix.mul_smul, smul_smul, h2]
  refine ⟨?_, hS⟩
  unfold lindbladRhsJ lindbladRhs
  rw [hS]
  simp only [matrixOps, List.foldl_map]
  rw [foldl_add_eq_sum (fun p : Proc (Matrix n n R) => (r p • p.op) * ρ * (r p • p.op)ᴴ) Ls,
    foldl_add_eq_sum (fun p : Proc (Matrix n n R) => rate p.gamma • (p.op * ρ * p.opᴴ)) Ls]
  congr 3
  apply List.map_congr_left
  intro p hp
  obtain ⟨h1, h2⟩ := hr p hp
  rw [conjTranspose_smul, h1, Matrix.smul_mul, Matrix.smul_mul, Matrix.mul_smul, smul_smul, h2]

/-- **C06.7 `lindblad_trace_preserving`** `Tr(lindblad_rhs(ρ)) = 0` for every `ρ` (Hermitian or not), every `H` and
    every list of operators and rates — the integrator never changes `Tr ρ` through the right-hand side.  Needs only
    that `0.5 + 0.5 = 1`; dropping the `0.5` or a dagger breaks it. -/
theorem lindblad_trace_preserving (i h : R) (hh : h + h = 1) (rate : Rat → R) (H ρ : Matrix n n R)
    (Ls procs : List (Proc (Matrix n n R))) :
    trace (lindbladRhs (matrixOps i h rate) H Ls ρ) = 0
    ∧ trace (lindbladOfProcs (matrixOps i h rate) H procs ρ) = 0 := by
  have key : ∀ Ls : List (Proc (Matrix n n R)), trace (lindbladRhs (matrixOps i h rate) H Ls ρ) = 0 := by
    intro Ls
    rw [lindbladRhs_matrix, lindbladian, trace_add, trace_smul, trace_sub, trace_mul_comm H ρ, sub_self, smul_zero,
      zero_add, trace_list_sum, List.map_map]
    apply List.sum_eq_zero
    intro x hx
    obtain ⟨p, _, rfl⟩ := List.mem_map.mp hx
    simp [trace_smul, trace_dissipator h hh]
  exact ⟨key Ls, key _⟩

/-- **C06.8 `lindblad_hermiticity`** `H` Hermitian and `ρ` Hermitian ⇒ `lindblad_rhs(ρ)` Hermitian (so a Hermitian
    initial `ρ` stays Hermitian along the exact flow and `Tr(Oρ)` of a Hermitian observable stays real — the code
    keeps only `.real`).  Needs `star i = -i`, `0.5` real and real rates. -/
theorem lindblad_hermiticity (i h : R) (hi : star i = -i) (hs : star h = h) (rate : Rat → R)
    (hr : ∀ q, star (rate q) = rate q) (H ρ : Matrix n n R) (hH : Hᴴ = H) (hρ : ρᴴ = ρ)
    (Ls : List (Proc (Matrix n n R))) :
    (lindbladRhs (matrixOps i h rate) H Ls ρ)ᴴ = lindbladRhs (matrixOps i h rate) H Ls ρ := by
  rw [lindbladRhs_matrix, lindbladian, conjTranspose_add, conjTranspose_smul, conjTranspose_sub, conjTranspose_mul,
    conjTranspose_mul, hH, hρ, star_neg, hi, neg_neg, conjTranspose_list_sum, List.map_map]
  congr 1
  · rw [← neg_sub (H * ρ) (ρ * H), smul_neg, neg_smul]
  · congr 1
    apply List.map_congr_left
    intro p _
    simp [conjTranspose_smul, hr, conjTranspose_dissipator h hs p.op ρ hρ]

/-- **C06.9 `lindblad_order_independent`** permuting `noise_model.processes` does not change the right-hand side
    (nor `l_dag_l_sum`, hence nor `H_eff`): the solvers' answer cannot depend on the order in which the user lists
    the processes. -/
theorem lindblad_order_independent (i h : R) (rate : Rat → R) (H ρ : Matrix n n R)
    (procs procs' : List (Proc (Matrix n n R))) (hp : procs.Perm procs') :
    lindbladOfProcs (matrixOps i h rate) H procs ρ = lindbladOfProcs (matrixOps i h rate) H procs' ρ
    ∧ heffOfProcs (matrixOps i h rate) H procs = heffOfProcs (matrixOps i h rate) H procs' := by
  have hf : (jumpOps procs).Perm (jumpOps procs') := hp.filter _
  constructor
  · unfold lindbladOfProcs
    rw [lindbladRhs_matrix, lindbladRhs_matrix, lindbladian, lindbladian]
    congr 1
    exact (hf.map _).sum_eq
  · unfold heffOfProcs
    rw [heff_matrix, heff_matrix]
    congr 2
    exact (hf.map _).sum_eq

/-- **C06.10 `heff_antihermitian_part`** (`preprocess_mcwf` step 4 and the no-jump propagation of `mcwf`)
    For Hermitian `H` and real rates, `H_eff = H − (i/2) Σ γ_k L_k†L_k` has anti-Hermitian part
    `H_eff − H_eff† = −i Σ γ_k L_k†L_k`; consequently, along `dψ/dt = −i H_eff ψ`,
    `d/dt ⟨ψ|ψ⟩ = ⟨−iH_eff ψ|ψ⟩ + ⟨ψ|−iH_eff ψ⟩ = − Σ_k γ_k ‖L_k ψ‖²` (third conjunct; `≤ 0` because every kept
    `γ_k > 0`, see `mcwf_step_mass` for the sign on the executable model).  So to first order in `dt` the jump
    probability `1 − ‖ψ_next‖²` is `dt · Σ_k γ_k ‖L_k ψ‖²` — `dt` times the sum of exactly the weights
    `jumpWeights` the code draws the jump from, which is the normaliser of the TJM lottery of C01
    (`Yaqs.Lottery.mcwfWeights`, linked in `mcwf_step_is_c01_lottery`).  The second conjunct is the closed form of
    what the code builds (both branches of `if jump_ops:`). -/
theorem heff_antihermitian_part (i h : R) (hi : star i = -i) (hii : i * i = -1) (hh : h + h = 1) (hs : star h = h)
    (rate : Rat → R) (hr : ∀ q, star (rate q) = rate q) (H : Matrix n n R) (hH : Hᴴ = H)
    (Ls : List (Proc (Matrix n n R))) (ψ : n → R) :
    heff (matrixOps i h rate) H Ls - (heff (matrixOps i h rate) H Ls)ᴴ = (-i) • gammaSum rate Ls
    ∧ heff (matrixOps i h rate) H Ls = H - (h * i) • gammaSum rate Ls
    ∧ star (((-i) • heff (matrixOps i h rate) H Ls) *ᵥ ψ) ⬝ᵥ ψ + star ψ ⬝ᵥ (((-i) • heff (matrixOps i h rate) H Ls) *ᵥ ψ)
        = - (Ls.map fun p => rate p.gamma * (star (p.op *ᵥ ψ) ⬝ᵥ (p.op *ᵥ ψ))).sum := by
  have hS := conjTranspose_gammaSum rate hr Ls
  have h1 : heff (matrixOps i h rate) H Ls - (heff (matrixOps i h rate) H Ls)ᴴ = (-i) • gammaSum rate Ls := by
    rw [heff_matrix, conjTranspose_sub, conjTranspose_smul, hH, hS, star_mul, hi, hs]
    have : H - (h * i) • gammaSum rate Ls - (H - (-i * h) • gammaSum rate Ls)
        = (-((h + h) * i)) • gammaSum rate Ls := by
      rw [neg_smul, add_mul, add_smul, neg_mul, neg_smul, mul_comm i h]
      abel
    rw [this, hh, one_mul]
  refine ⟨h1, heff_matrix i h rate H Ls, ?_⟩
  set E := heff (matrixOps i h rate) H Ls with hE
  rw [star_mulVec, ← dotProduct_mulVec, ← dotProduct_add, ← Matrix.add_mulVec, conjTranspose_smul, star_neg, hi, neg_neg]
  have : i • Eᴴ + (-i) • E = -gammaSum rate Ls := by
    have h2 : Eᴴ = E - (-i) • gammaSum rate Ls := by rw [← h1]; abel
    rw [h2, smul_sub, smul_smul, mul_neg, hii, neg_neg, one_smul, neg_smul]
    abel
  rw [this, Matrix.neg_mulVec, dotProduct_neg, dot_gammaSum]

/-- **C06.10b `mcwf_step_is_c01_lottery`** the outcome distribution of one MCWF pass on dense data is the lottery
    `Yaqs.Lottery.mcwfLottery` that C01 is about, for any abstract process list whose weights
    `γ_k·‖L_k ψ‖²` are the dense `jumpWeights` of this model — the normaliser is the same number
    `Σ_k γ_k ‖L_k ψ‖²` that `heff_antihermitian_part` identifies as the norm-decay rate. -/
theorem mcwf_step_is_c01_lottery (m : Nat) (Ls : List (Proc CMat)) (ψ ψnext : CVec)
    (lp : List Lottery.Proc) (nrm : Lottery.Proc → Rat)
    (hw : Lottery.mcwfWeights nrm lp = jumpWeights m Ls ψ) :
    mcwfStepDist m Ls ψ ψnext = Lottery.mcwfLottery (vnormSq ψnext) nrm lp := by
  unfold mcwfStepDist Lottery.mcwfLottery Lottery.mcwfProbVector
  rw [hw]
  by_cases hlt : (jumpWeights m Ls ψ).sum < Lottery.mcwfEps <;> simp [hlt]

/-- **C06.11 `mcwf_step_mass`** (one pass of the `mcwf` loop) the branch probabilities — no jump, jump `k` with the
    weights `γ_k‖L_k ψ‖²/Σ` taken from the state at the START of the step, or the `normalization_sum < 1e-15`
    fall-back — sum to one for every input, and are non-negative as soon as the kept strengths are `≥ 0` (they are
    `> 0` after `jumpOps`); third conjunct: the normaliser `Σ_k γ_k‖L_kψ‖²` is `≥ 0`, i.e. the norm-decay rate of
    `heff_antihermitian_part` has the right sign (`d/dt⟨ψ|ψ⟩ ≤ 0`). -/
theorem mcwf_step_mass (m : Nat) (Ls : List (Proc CMat)) (ψ ψnext : CVec) :
    mass (mcwfStepDist m Ls ψ ψnext) = 1
    ∧ ((∀ p ∈ Ls, 0 ≤ p.gamma) → NonNeg (mcwfStepDist m Ls ψ ψnext))
    ∧ ((∀ p ∈ Ls, 0 ≤ p.gamma) → 0 ≤ (jumpWeights m Ls ψ).sum) := by
  refine ⟨?_, ?_, fun hg => ?_⟩
  rotate_left 2
  · have hw := jumpWeights_nonneg m Ls ψ hg
    have := Lottery.sum_map_nonneg (jumpWeights m Ls ψ) id (fun a ha => hw a ha)
    simpa using this
  all_goals unfold mcwfStepDist
  · by_cases hlt : (jumpWeights m Ls ψ).sum < Lottery.mcwfEps
    · simp [hlt, mass]
    · simp only [hlt, if_false]
      have hpos : (0 : Rat) < Lottery.mcwfEps := by decide +kernel
      have hW : 0 < (jumpWeights m Ls ψ).sum := lt_of_lt_of_le hpos (not_lt.mp hlt)
      rw [Lottery.mass_lottery, Lottery.sum_map_div, div_self (ne_of_gt hW)]
      ring
  · intro hg
    by_cases hlt : (jumpWeights m Ls ψ).sum < Lottery.mcwfEps
    · simp [hlt, NonNeg]
    · simp only [hlt, if_false]
      have hpos : (0 : Rat) < Lottery.mcwfEps := by decide +kernel
      have hW : 0 < (jumpWeights m Ls ψ).sum := lt_of_lt_of_le hpos (not_lt.mp hlt)
      have hw := jumpWeights_nonneg m Ls ψ hg
      refine ⟨by have := Lottery.jumpProb_le_one (vnormSq ψnext); linarith, ?_⟩
      apply Lottery.nonNeg_jumpBranches _ (Lottery.jumpProb_nonneg _)
      intro q hq
      obtain ⟨w, hwm, rfl⟩ := List.mem_map.mp hq
      exact div_nonneg (hw w hwm) (le_of_lt hW)

/-- **C06.12 `observable_is_trace`** (`np.trace(op_mat @ rho_t)` in `lindblad`, `np.vdot(psi, op_mat.dot(psi))` in
    `mcwf`) for a pure state `ρ = |ψ⟩⟨ψ|`: `Tr(O ρ) = ⟨ψ|O|ψ⟩` — the Lindblad solver and the MCWF solver report
    the same quantity for the same state. -/
theorem observable_is_trace (O : Matrix n n R) (ψ : n → R) :
    trace (O * vecMulVec ψ (star ψ)) = star ψ ⬝ᵥ (O *ᵥ ψ) := by
  rw [mul_vecMulVec, trace_vecMulVec, dotProduct_comm]

/-- **C06.10c `first_order_jump_probability`** the exact expansion behind "the jump probability is `dt·Σ γ_k‖L_kψ‖²` to
    first order": for the Euler step `ψ₁ = ψ − i·dt·H_eff ψ` (real `dt`),
    `⟨ψ₁|ψ₁⟩ = ⟨ψ|ψ⟩ − dt·Σ_k γ_k‖L_kψ‖² + dt²·‖H_eff ψ‖²`; `exp(−i H_eff dt)ψ` (what `expm_arnoldi` approximates)
    differs from `ψ₁` by `O(dt²)`, which is the analytic step not formalised here. -/
theorem first_order_jump_probability (i h : R) (hi : star i = -i) (hii : i * i = -1) (hh : h + h = 1) (hs : star h = h)
    (rate : Rat → R) (hr : ∀ q, star (rate q) = rate q) (H : Matrix n n R) (hH : Hᴴ = H)
    (Ls : List (Proc (Matrix n n R))) (ψ : n → R) (dt : R) (hdt : star dt = dt) :
    star (ψ + dt • (((-i) • heff (matrixOps i h rate) H Ls) *ᵥ ψ)) ⬝ᵥ (ψ + dt • (((-i) • heff (matrixOps i h rate) H Ls) *ᵥ ψ))
      = star ψ ⬝ᵥ ψ - dt * (Ls.map fun p => rate p.gamma * (star (p.op *ᵥ ψ) ⬝ᵥ (p.op *ᵥ ψ))).sum
        + dt * dt * (star (heff (matrixOps i h rate) H Ls *ᵥ ψ) ⬝ᵥ (heff (matrixOps i h rate) H Ls *ᵥ ψ)) := by
  obtain ⟨_, _, h3⟩ := heff_antihermitian_part i h hi hii hh hs rate hr H hH Ls ψ
  set E := heff (matrixOps i h rate) H Ls
  set v := ((-i) • E) *ᵥ ψ with hv
  have hq : star v ⬝ᵥ v = star (E *ᵥ ψ) ⬝ᵥ (E *ᵥ ψ) := by
    have hsv : star ((-i) • (E *ᵥ ψ)) = i • star (E *ᵥ ψ) := by
      funext a
      simp [hi]
    rw [hv, Matrix.smul_mulVec, hsv, smul_dotProduct, dotProduct_smul, smul_smul, mul_neg, hii, neg_neg, one_smul]
  have hst : star (ψ + dt • v) = star ψ + dt • star v := by
    funext a
    simp [hdt]
  rw [hst, add_dotProduct, dotProduct_add, dotProduct_add, smul_dotProduct, smul_dotProduct,
    dotProduct_smul, dotProduct_smul, hq]
  simp only [smul_eq_mul]
  have h3' : star v ⬝ᵥ ψ = -(Ls.map fun p => rate p.gamma * (star (p.op *ᵥ ψ) ⬝ᵥ (p.op *ᵥ ψ))).sum - star ψ ⬝ᵥ v := by
    rw [← h3]; ring
  rw [h3']
  ring

/-- **C06.13 `list_model_refines_matrix_model`** the functions the driver executes (`listOps m`, matrices as
    `List (List CRat)`, entries outside the lists read as `0`) are carried by `toM m` to the Mathlib-matrix instance the
    theorems above are about — for the right-hand side, for `H_eff`, for *every* list input; so C06.6–C06.10 apply to
    the executed model verbatim, e.g. the trace of the executed right-hand side is exactly `0` (third conjunct). -/
theorem list_model_refines_matrix_model (m : Nat) (H ρ : CMat) (procs : List (Proc CMat)) :
    toM m (lindbladOfProcs (listOps m) H procs ρ)
        = lindbladOfProcs (matrixOps CRat.I ⟨1 / 2, 0⟩ CRat.ofRat) (toM m H) (procs.map (Proc.map (toM m))) (toM m ρ)
    ∧ toM m (heffOfProcs (listOps m) H procs)
        = heffOfProcs (matrixOps CRat.I ⟨1 / 2, 0⟩ CRat.ofRat) (toM m H) (procs.map (Proc.map (toM m)))
    ∧ mtrace m (lindbladOfProcs (listOps m) H procs ρ) = 0 := by
  have h1 : toM m (lindbladOfProcs (listOps m) H procs ρ)
      = lindbladOfProcs (matrixOps CRat.I ⟨1 / 2, 0⟩ CRat.ofRat) (toM m H) (procs.map (Proc.map (toM m))) (toM m ρ) := by
    unfold lindbladOfProcs
    rw [lindbladRhs_hom (listOps_hom m), jumpOps_map]
  refine ⟨h1, ?_, ?_⟩
  · unfold heffOfProcs
    rw [heff_hom (listOps_hom m), jumpOps_map]
  · rw [← trace_toM, h1]
    exact (lindblad_trace_preserving CRat.I ⟨1 / 2, 0⟩ (by decide +kernel) CRat.ofRat _ _ [] _).2

/-! ### non-vacuity (Gaussian rationals, one qubit: `H = X`, lowering operator, a mixed and a pure state) -/

section Examples

def exI : CRat := CRat.I
def exH : CRat := ⟨1 / 2, 0⟩
def exRate : Rat → CRat := CRat.ofRat
def exX : Matrix (Fin 2) (Fin 2) CRat := !![0, 1; 1, 0]
def exLow : Matrix (Fin 2) (Fin 2) CRat := !![0, 1; 0, 0]
def exRho : Matrix (Fin 2) (Fin 2) CRat := !![⟨1 / 4, 0⟩, ⟨0, 1 / 8⟩; ⟨0, -1 / 8⟩, ⟨3 / 4, 0⟩]

/-- the scalar hypotheses of the theorems hold in the Gaussian rationals -/
example : star exI = -exI ∧ exI * exI = -1 ∧ exH + exH = 1 ∧ star exH = exH := by decide +kernel

example : ∀ q, star (exRate q) = exRate q := by
  intro q; apply CRat.ext <;> simp [exRate]

/-- …and in ℂ, with `i = Complex.I`, `h = 1/2` and the rational cast as `rate` -/
example : star Complex.I = -Complex.I ∧ Complex.I * Complex.I = -1 ∧ (1 / 2 : ℂ) + 1 / 2 = 1 ∧ star (1 / 2 : ℂ) = 1 / 2
    ∧ ∀ q : Rat, star (q : ℂ) = q := by
  have hq : ∀ q : Rat, star (q : ℂ) = q := fun q => map_ratCast (starRingEnd ℂ) q
  refine ⟨Complex.conj_I, Complex.I_mul_I, by norm_num, ?_, hq⟩
  have : (1 / 2 : ℂ) = ((1 / 2 : Rat) : ℂ) := by norm_num
  rw [this]
  exact hq _

/-- `X` and the state are Hermitian; the state is not diagonal -/
example : exXᴴ = exX ∧ exRhoᴴ = exRho := by decide +kernel

/-- a square root exists for `γ = 1/4` (`r = 1/2`, real) -/
example : star (⟨1 / 2, 0⟩ : CRat) = ⟨1 / 2, 0⟩ ∧ (⟨1 / 2, 0⟩ : CRat) * ⟨1 / 2, 0⟩ = exRate (1 / 4) := by
  decide +kernel

/-- the filter is not trivial: of three listed processes (strengths 1/4, 0, -1) exactly the first survives -/
example : (jumpOps [⟨1 / 4, exLow⟩, ⟨0, exX⟩, ⟨-1, exX⟩]).map (·.gamma) = [1 / 4] := by decide +kernel

/-- a concrete value: amplitude damping of the excited population (entry (1,1) decreases at rate γ·ρ₁₁ plus the
    coherent part) — the executable list model on the same data -/
example : lindbladRhs (listOps 2) [[0, 1], [1, 0]] [⟨1 / 4, [[0, 1], [0, 0]]⟩]
      [[⟨1 / 4, 0⟩, ⟨0, 1 / 8⟩], [⟨0, -1 / 8⟩, ⟨3 / 4, 0⟩]]
    = [[⟨-1 / 16, 0⟩, ⟨0, -33 / 64⟩], [⟨0, 33 / 64⟩, ⟨1 / 16, 0⟩]] := by decide +kernel

/-- the hypothesis of `mcwf_step_is_c01_lottery` is met by the abstract C01 process "lowering on site 0, γ = 1/2" with
    `‖Lψ‖² = 16/25` -/
example : Lottery.mcwfWeights (fun _ => 16 / 25) [⟨[0], 1 / 2, false, .mat []⟩]
    = jumpWeights 2 [⟨1 / 2, [[0, 1], [0, 0]]⟩] [⟨3 / 5, 0⟩, ⟨4 / 5, 0⟩] := by decide +kernel

/-- one MCWF pass with a non-trivial lottery: `ψ = (3/5, 4/5)`, lowering with `γ = 1/2` -/
example : jumpWeights 2 [⟨1 / 2, [[0, 1], [0, 0]]⟩] [⟨3 / 5, 0⟩, ⟨4 / 5, 0⟩] = [8 / 25]
    ∧ mcwfStepDist 2 [⟨1 / 2, [[0, 1], [0, 0]]⟩] [⟨3 / 5, 0⟩, ⟨4 / 5, 0⟩] [⟨3 / 5, 0⟩, ⟨3 / 4, 0⟩]
      = [(369 / 400, Lottery.Branch.noJump), (31 / 400, Lottery.Branch.jump 0)] := by decide +kernel

end Examples

end Yaqs.MasterEq
