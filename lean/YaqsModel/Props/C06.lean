import YaqsModel.Lemmas.Index
import Mathlib.Algebra.BigOperators.Group.List.Basic

/-!
# C06 — all analog solvers describe the same system and index sites the same way

Property theorems only (helpers in `Lemmas/Index.lean`).  A basis state is a digit list `b` (site 0 first) with
local dimensions `d`; `Valid d b` says the lists have equal length and every digit is below its dimension.
All theorems hold for every chain length and every mix of local dimensions; the matrix entries live in an
arbitrary type with a multiplication (`kron_entry`) resp. with `0`, `1` and a multiplication (`embed_site_*`),
so they cover real, complex, dense and sparse operators alike.

What the theorems say about the code: the dense operators (`_embed_generic`, `MPO.to_matrix`,
`MPO.to_sparse_matrix`) place site 0 in the most significant position (`kronIdx`); `MPS.to_vec` places site 0 in
the least significant one (`toVecIdx`); after the repair the vector that `lindblad` and `preprocess_mcwf` hand
to the integrator is indexed by `kronIdx` again (`solver_consistent`), whereas the code as found agreed with the
operators only on palindromic basis states (`solver_old_iff_palindrome`, `solver_old_counterexample`).
The numerical part of the property (RK45 within tolerance, TDVP / Arnoldi accuracy) is not a theorem; it is
measured by the oracle of the correspondence check against a dense master-equation reference.
-/
namespace Yaqs.Index

variable {α : Type}

/-- the list `A₁[b₁,c₁], A₂[b₂,c₂], …` -/
def entryList : List (Mat α) → List Nat → List Nat → List α
  | A :: As, b :: bs, c :: cs => A.e b c :: entryList As bs cs
  | _, _, _ => []

private theorem entryProd_eq_mul_prod [Monoid α] : ∀ (a : α) (As : List (Mat α)) (bs cs : List Nat),
    entryProd a As bs cs = a * (entryList As bs cs).prod
  | a, [], _, _ => by simp [entryProd, entryList]
  | a, _ :: _, [], _ => by simp [entryProd, entryList]
  | a, _ :: _, _ :: _, [] => by simp [entryProd, entryList]
  | a, A :: As, b :: bs, c :: cs => by
    simp only [entryProd, entryList, List.prod_cons]
    rw [entryProd_eq_mul_prod _ As bs cs, mul_assoc]

/-- **C06.1 `kron_entry`** For every number of factors and every mix of (not necessarily square) factor shapes:
    the entry of `A₀ ⊗ A₁ ⊗ … ⊗ A_{L-1}` (built the way `_kron_all_*`, `MPO.to_matrix` on a product operator do: left
    fold of `np.kron`) at row `kronIdx b`, column `kronIdx c` is the left-nested product of the entries
    `A_i[b_i, c_i]`; the shape of the result is the product of the shapes.  Needs only a multiplication. -/
theorem kron_entry [Mul α] (A : Mat α) (As : List (Mat α)) (b c : Nat) (bs cs : List Nat)
    (hr : Valid ((A :: As).map (·.rows)) (b :: bs)) (hc : Valid ((A :: As).map (·.cols)) (c :: cs)) :
    ∃ M, kronAll (A :: As) = some M ∧
      M.rows = dimProd ((A :: As).map (·.rows)) ∧ M.cols = dimProd ((A :: As).map (·.cols)) ∧
      M.e (kronIdx ((A :: As).map (·.rows)) (b :: bs)) (kronIdx ((A :: As).map (·.cols)) (c :: cs))
        = entryProd (A.e b c) As bs cs := by
  refine ⟨As.foldl kron A, rfl, ?_, ?_, ?_⟩
  · simpa [dimProd] using (foldl_kron_rows As A).1
  · simpa [dimProd] using (foldl_kron_rows As A).2
  · have := foldl_kron_entry As A b c bs cs hr.2 hc.2
    simpa [kronIdx, kronIdxFrom] using this

/-- **C06.1b** the same entry as an ordinary product `Π_i A_i[b_i, c_i]` when the entries form a monoid -/
theorem kron_entry_prod [Monoid α] (A : Mat α) (As : List (Mat α)) (b c : Nat) (bs cs : List Nat)
    (hr : Valid ((A :: As).map (·.rows)) (b :: bs)) (hc : Valid ((A :: As).map (·.cols)) (c :: cs)) :
    ∃ M, kronAll (A :: As) = some M ∧
      M.e (kronIdx ((A :: As).map (·.rows)) (b :: bs)) (kronIdx ((A :: As).map (·.cols)) (c :: cs))
        = (entryList (A :: As) (b :: bs) (c :: cs)).prod := by
  obtain ⟨M, hM, _, _, he⟩ := kron_entry A As b c bs cs hr hc
  exact ⟨M, hM, by rw [he, entryProd_eq_mul_prod]; simp [entryList]⟩

/-- **C06.2 `toVec_is_reversed`** `MPS.to_vec` (site 0 least significant) indexes a basis state like the
    Kronecker convention applied to the reversed chain — for every length and mixed local dimensions.  The second
    component says that the documented convention is what the code (flip, then merge) computes. -/
theorem toVec_is_reversed (d b : List Nat) (h : Valid d b) :
    toVecIdx d b = kronIdx d.reverse b.reverse ∧ toVecIdxCode d b = toVecIdx d b :=
  ⟨toVecIdx_eq_code h, (toVecIdx_eq_code h).symm⟩

/-- **C06.3 `solver_consistent`** (repaired code) the vector handed to the Lindblad / MCWF integrator carries
    basis state `b` at the position the embedded operators use for it, for every chain. -/
theorem solver_consistent (d b : List Nat) (h : Valid d b) : solverIdxD d b = kronIdx d b := by
  unfold solverIdxD
  simp only [List.reverse_reverse]
  rw [toVecIdx_eq_code h]
  unfold toVecIdxCode
  rw [unflat_kronIdx h.reverse, List.reverse_reverse]

/-- **C06.3b** the qubit instance actually coded (`reshape([2]*L)`) -/
theorem solver_consistent_qubits (b : List Nat) (h : ∀ x ∈ b, x < 2) :
    solverIdx b = kronIdx (List.replicate b.length 2) b :=
  solver_consistent _ b ((valid_replicate_iff _ _ _).mpr ⟨rfl, h⟩)

/-- **C06.3c** the code as found agreed with its operators exactly on palindromic basis states -/
theorem solver_old_iff_palindrome (b : List Nat) (h : ∀ x ∈ b, x < 2) :
    solverIdxOld b = kronIdx (List.replicate b.length 2) b ↔ b.reverse = b := by
  have hv : Valid (List.replicate b.length 2) b := (valid_replicate_iff _ _ _).mpr ⟨rfl, h⟩
  have hvr : Valid (List.replicate b.length 2) b.reverse := by
    have := hv.reverse
    rwa [List.reverse_replicate] at this
  unfold solverIdxOld
  rw [toVecIdx_eq_code hv]
  unfold toVecIdxCode
  rw [List.reverse_replicate]
  constructor
  · intro he; exact kronIdx_inj hvr hv he
  · intro he; rw [he]

/-- **C06.3d `solver_old_counterexample`** (D6) on `"100"` the old solvers read the excitation at position 1
    (site 2 of the operators) while the operators address site 0 at position 4 -/
theorem solver_old_counterexample :
    solverIdxOld [1, 0, 0] = 1 ∧ kronIdx [2, 2, 2] [1, 0, 0] = 4 ∧ solverIdx [1, 0, 0] = 4 ∧
    kronIdx [2, 2, 2] [0, 0, 1] = 1 := by decide

/-- **C06.4a `embed_site` (one site)** `_embed_generic(sites=[i], op_matrix=A)` on `L = |pre|+1+|post|` qubits:
    the entry between basis states `pre ++ x :: post` and `pre' ++ x' :: post'` is `A[x, x']` if all other digits
    agree and `0` otherwise — the operator acts on digit `i = |pre|` and on nothing else. -/
theorem embed_site_one [MulZeroOneClass α] (A : Mat α) (pre pre' post post' : List Nat) (x x' : Nat)
    (hp : pre'.length = pre.length) (hq : post'.length = post.length)
    (hA : A.rows = 2 ∧ A.cols = 2)
    (hb : ∀ z ∈ pre ++ x :: post, z < 2) (hb' : ∀ z ∈ pre' ++ x' :: post', z < 2) :
    ∃ M, embed1 (pre.length + 1 + post.length) pre.length A = some M ∧
      M.e (kronIdx (List.replicate (pre.length + 1 + post.length) 2) (pre ++ x :: post))
          (kronIdx (List.replicate (pre.length + 1 + post.length) 2) (pre' ++ x' :: post'))
        = if pre = pre' ∧ post = post' then A.e x x' else 0 := by
  set L := pre.length + 1 + post.length with hL
  have hops : (List.replicate L (eye (α := α) 2)).set pre.length A
      = List.replicate pre.length (eye 2) ++ A :: List.replicate post.length (eye 2) := replicate_set _ _ _ _
  have hlt : pre.length < L := by omega
  have hrows : (List.replicate pre.length (eye (α := α) 2) ++ A :: List.replicate post.length (eye 2)).map (·.rows)
      = List.replicate L 2 := by
    simp [eye, hA.1, hL, List.replicate_add]
  have hcols : (List.replicate pre.length (eye (α := α) 2) ++ A :: List.replicate post.length (eye 2)).map (·.cols)
      = List.replicate L 2 := by
    simp [eye, hA.2, hL, List.replicate_add]
  have hvb : Valid (List.replicate L 2) (pre ++ x :: post) :=
    (valid_replicate_iff _ _ _).mpr ⟨by simp [hL]; omega, hb⟩
  have hvb' : Valid (List.replicate L 2) (pre' ++ x' :: post') :=
    (valid_replicate_iff _ _ _).mpr ⟨by simp [hL]; omega, hb'⟩
  obtain ⟨M, hM, he⟩ := kronAll_entry_uniform
    (List.replicate pre.length (eye (α := α) 2) ++ A :: List.replicate post.length (eye 2)) (by simp)
    (pre ++ x :: post) (pre' ++ x' :: post') (by rw [hrows]; exact hvb) (by rw [hcols]; exact hvb')
  rw [hrows, hcols] at he
  refine ⟨M, ?_, ?_⟩
  · simp only [embed1, hlt, if_true, hops, hM]
  · rw [he, entryProd_eye_prefix pre.length 1 2 _ pre pre' _ _ rfl hp]
    by_cases h1 : pre = pre'
    · simp only [h1, if_true, true_and, entryProd, one_mul]
      exact entryProd_eye_suffix post.length _ 2 post post' rfl hq
    · simp [h1]

/-- **C06.4b `embed_site` (adjacent pair)** `_embed_generic(sites={i,i+1}, op_matrix=M)` (a 4×4 matrix):
    the entry between `pre ++ x :: y :: post` and `pre' ++ x' :: y' :: post'` is `M[2x+y, 2x'+y']` if the other
    digits agree and `0` otherwise — the first tensor factor of `M` acts on digit `i`, the second on `i+1`. -/
theorem embed_site_adjacent [MulZeroOneClass α] (M : Mat α) (pre pre' post post' : List Nat) (x y x' y' : Nat)
    (hp : pre'.length = pre.length) (hq : post'.length = post.length)
    (hM : M.rows = 4 ∧ M.cols = 4)
    (hb : ∀ z ∈ pre ++ x :: y :: post, z < 2) (hb' : ∀ z ∈ pre' ++ x' :: y' :: post', z < 2) :
    ∃ E, embed2 (pre.length + 2 + post.length) pre.length (pre.length + 1) M = some E ∧
      embed2 (pre.length + 2 + post.length) (pre.length + 1) pre.length M = some E ∧
      E.e (kronIdx (List.replicate (pre.length + 2 + post.length) 2) (pre ++ x :: y :: post))
          (kronIdx (List.replicate (pre.length + 2 + post.length) 2) (pre' ++ x' :: y' :: post'))
        = if pre = pre' ∧ post = post' then M.e (2 * x + y) (2 * x' + y') else 0 := by
  set p := pre.length with hpdef
  set q := post.length with hqdef
  have vpre : Valid (List.replicate p 2) pre :=
    (valid_replicate_iff _ _ _).mpr ⟨rfl, fun z hz => hb z (List.mem_append_left _ hz)⟩
  have vpre' : Valid (List.replicate p 2) pre' :=
    (valid_replicate_iff _ _ _).mpr ⟨hp, fun z hz => hb' z (List.mem_append_left _ hz)⟩
  have vpost : Valid (List.replicate q 2) post :=
    (valid_replicate_iff _ _ _).mpr ⟨rfl, fun z hz => hb z (by simp [hz])⟩
  have vpost' : Valid (List.replicate q 2) post' :=
    (valid_replicate_iff _ _ _).mpr ⟨hq, fun z hz => hb' z (by simp [hz])⟩
  have hx : x < 2 := hb x (by simp)
  have hy : y < 2 := hb y (by simp)
  have hx' : x' < 2 := hb' x' (by simp)
  have hy' : y' < 2 := hb' y' (by simp)
  have vxy : Valid [2, 2] [x, y] := by simp [Valid, hx, hy]
  have vxy' : Valid [2, 2] [x', y'] := by simp [Valid, hx', hy']
  have hsplit : List.replicate (p + 2 + q) 2 = List.replicate p 2 ++ ([2, 2] ++ List.replicate q 2) := by
    rw [show p + 2 + q = p + (2 + q) by omega, List.replicate_add, List.replicate_add]; rfl
  have idx : ∀ (l r : List Nat) (a c : Nat), Valid (List.replicate p 2) l → Valid (List.replicate q 2) r →
      Valid [2, 2] [a, c] →
      kronIdx (List.replicate (p + 2 + q) 2) (l ++ a :: c :: r)
        = (kronIdx (List.replicate p 2) l * 4 + (2 * a + c)) * 2 ^ q + kronIdx (List.replicate q 2) r := by
    intro l r a c hl hr hac
    rw [hsplit, show l ++ a :: c :: r = l ++ ([a, c] ++ r) by simp,
      kronIdx_append hl (hac.append hr), kronIdx_append hac hr, dimProd_append, dimProd_replicate]
    simp [kronIdx, kronIdxFrom, dimProd]
    ring
  have hKp := kronIdx_lt vpost
  have hKp' := kronIdx_lt vpost'
  rw [dimProd_replicate] at hKp hKp'
  refine ⟨kron (kron (eye (2 ^ p)) M) (eye (2 ^ q)), ?_, ?_, ?_⟩
  · simp only [embed2]
    have h1 : min p (p + 1) = p := by omega
    have h2 : max p (p + 1) = p + 1 := by omega
    rw [h1, h2]
    simp only [ne_eq, not_true_eq_false, if_false]
    rw [show p + 2 + q - 1 - (p + 1) = q by omega]
  · simp only [embed2]
    have h1 : min (p + 1) p = p := by omega
    have h2 : max (p + 1) p = p + 1 := by omega
    rw [h1, h2]
    simp only [ne_eq, not_true_eq_false, if_false]
    rw [show p + 2 + q - 1 - (p + 1) = q by omega]
  · rw [idx pre post x y vpre vpost vxy, idx pre' post' x' y' vpre' vpost' vxy']
    set P := kronIdx (List.replicate p 2) pre
    set P' := kronIdx (List.replicate p 2) pre'
    set K := kronIdx (List.replicate q 2) post
    set K' := kronIdx (List.replicate q 2) post'
    have hm : 2 * x + y < 4 := by omega
    have hm' : 2 * x' + y' < 4 := by omega
    have e1 : (kron (kron (eye (α := α) (2 ^ p)) M) (eye (2 ^ q))).e ((P * 4 + (2 * x + y)) * 2 ^ q + K)
        ((P' * 4 + (2 * x' + y')) * 2 ^ q + K')
        = (kron (eye (α := α) (2 ^ p)) M).e (P * 4 + (2 * x + y)) (P' * 4 + (2 * x' + y')) * (eye (2 ^ q)).e K K' :=
      kron_e_mul_add (kron (eye (α := α) (2 ^ p)) M) (eye (2 ^ q)) (P * 4 + (2 * x + y)) (P' * 4 + (2 * x' + y'))
        K K' hKp hKp'
    have e2 := kron_e_mul_add (eye (α := α) (2 ^ p)) M P P' (2 * x + y) (2 * x' + y') (by rw [hM.1]; exact hm)
      (by rw [hM.2]; exact hm')
    rw [hM.1, hM.2] at e2
    rw [e1, e2]
    have hP : P = P' ↔ pre = pre' := ⟨fun h => kronIdx_inj vpre vpre' h, fun h => by simp [P, P', h]⟩
    have hK : K = K' ↔ post = post' := ⟨fun h => kronIdx_inj vpost vpost' h, fun h => by simp [K, K', h]⟩
    by_cases h1 : pre = pre' <;> by_cases h2 : post = post' <;>
      simp [eye, hP, hK, h1, h2]

/-- **C06.4c `embed_site` (factor pair, `s1 < s2`)** `_embed_generic(sites=[i,j], op_factors=(A,B))` with `i < j`:
    the entry is `A[x,x'] * B[y,y']` if all digits other than `i` and `j` agree and `0` otherwise — `A` acts on
    digit `i = |p0|`, `B` on digit `j = |p0|+1+|p1|`. -/
theorem embed_site_factors [MulZeroOneClass α] (A B : Mat α) (p0 p0' p1 p1' p2 p2' : List Nat) (x y x' y' : Nat)
    (h0 : p0'.length = p0.length) (h1 : p1'.length = p1.length) (h2 : p2'.length = p2.length)
    (hA : A.rows = 2 ∧ A.cols = 2) (hB : B.rows = 2 ∧ B.cols = 2)
    (hb : ∀ z ∈ p0 ++ x :: (p1 ++ y :: p2), z < 2) (hb' : ∀ z ∈ p0' ++ x' :: (p1' ++ y' :: p2'), z < 2) :
    ∃ E, embedF (p0.length + 1 + (p1.length + 1 + p2.length)) p0.length (p0.length + 1 + p1.length) A B = some E ∧
      E.e (kronIdx (List.replicate (p0.length + 1 + (p1.length + 1 + p2.length)) 2) (p0 ++ x :: (p1 ++ y :: p2)))
          (kronIdx (List.replicate (p0.length + 1 + (p1.length + 1 + p2.length)) 2) (p0' ++ x' :: (p1' ++ y' :: p2')))
        = if p0 = p0' ∧ p1 = p1' ∧ p2 = p2' then A.e x x' * B.e y y' else 0 := by
  set L := p0.length + 1 + (p1.length + 1 + p2.length) with hL
  have hops : ((List.replicate L (eye (α := α) 2)).set p0.length A).set (p0.length + 1 + p1.length) B
      = List.replicate p0.length (eye 2) ++ A :: (List.replicate p1.length (eye 2) ++ B :: List.replicate p2.length (eye 2)) := by
    rw [hL, replicate_set, List.set_append_right _ _ (by simp; omega)]
    simp only [List.length_replicate]
    rw [show p0.length + 1 + p1.length - p0.length = p1.length + 1 by omega, List.set_cons_succ, replicate_set]
  have hrows : (List.replicate p0.length (eye (α := α) 2) ++ A :: (List.replicate p1.length (eye 2) ++ B ::
      List.replicate p2.length (eye 2))).map (·.rows) = List.replicate L 2 := by
    simp [eye, hA.1, hB.1, hL, List.replicate_add]
  have hcols : (List.replicate p0.length (eye (α := α) 2) ++ A :: (List.replicate p1.length (eye 2) ++ B ::
      List.replicate p2.length (eye 2))).map (·.cols) = List.replicate L 2 := by
    simp [eye, hA.2, hB.2, hL, List.replicate_add]
  have hvb : Valid (List.replicate L 2) (p0 ++ x :: (p1 ++ y :: p2)) :=
    (valid_replicate_iff _ _ _).mpr ⟨by simp [hL]; omega, hb⟩
  have hvb' : Valid (List.replicate L 2) (p0' ++ x' :: (p1' ++ y' :: p2')) :=
    (valid_replicate_iff _ _ _).mpr ⟨by simp [hL]; omega, hb'⟩
  obtain ⟨M, hM, he⟩ := kronAll_entry_uniform
    (List.replicate p0.length (eye (α := α) 2) ++ A :: (List.replicate p1.length (eye 2) ++ B ::
      List.replicate p2.length (eye 2))) (by simp)
    (p0 ++ x :: (p1 ++ y :: p2)) (p0' ++ x' :: (p1' ++ y' :: p2')) (by rw [hrows]; exact hvb) (by rw [hcols]; exact hvb')
  rw [hrows, hcols] at he
  refine ⟨M, ?_, ?_⟩
  · have hlt : p0.length < L ∧ p0.length + 1 + p1.length < L := by omega
    simp only [embedF, hlt, and_self, if_true, hops, hM]
  · rw [he, entryProd_eye_prefix p0.length 1 2 _ p0 p0' _ _ rfl h0]
    by_cases e0 : p0 = p0'
    · simp only [e0, if_true, true_and, entryProd, one_mul]
      rw [entryProd_eye_prefix p1.length _ 2 _ p1 p1' _ _ rfl h1]
      by_cases e1 : p1 = p1'
      · simp only [e1, if_true, true_and, entryProd]
        exact entryProd_eye_suffix p2.length _ 2 p2 p2' rfl h2
      · simp [e1]
    · simp [e0]

/-- **C06.5 `kronIdx_bij`** digits ↔ flat index is a bijection between the valid digit lists and `[0, Π d)`:
    the index is in range, `unflat` inverts `kronIdx` on valid digits, and `kronIdx` inverts `unflat` below `Π d`;
    in particular two different basis states never share a position. -/
theorem kronIdx_bij (d : List Nat) :
    (∀ b, Valid d b → kronIdx d b < dimProd d ∧ unflat d (kronIdx d b) = b) ∧
    (∀ k, k < dimProd d → Valid d (unflat d k) ∧ kronIdx d (unflat d k) = k) ∧
    (∀ b b', Valid d b → Valid d b' → kronIdx d b = kronIdx d b' → b = b') :=
  ⟨fun _ h => ⟨kronIdx_lt h, unflat_kronIdx h⟩, fun k hk => kronIdx_unflat d k hk,
   fun _ _ h h' he => kronIdx_inj h h' he⟩

/-! ### non-vacuity: concrete instances (mixed dimensions, asymmetric states, non-symmetric operators) -/

/-- a qutrit–qubit–qubit chain: `|2,0,1⟩` sits at 2·4+0·2+1 = 9 for the operators and at 2+3·(0+2·1) = 8 in `to_vec` -/
example : kronIdx [3, 2, 2] [2, 0, 1] = 9 ∧ toVecIdx [3, 2, 2] [2, 0, 1] = 8 ∧
    solverIdxD [3, 2, 2] [2, 0, 1] = 9 ∧ unflat [3, 2, 2] 9 = [2, 0, 1] ∧ Valid [3, 2, 2] [2, 0, 1] := by decide

example : solverIdxOld [1, 1, 0] = 3 ∧ solverIdx [1, 1, 0] = 6 ∧ kronIdx [2, 2, 2] [1, 1, 0] = 6 := by decide

/-- the lowering operator `[[0,1],[0,0]]` on site 0 of three qubits maps `|100⟩` (index 4) to `|000⟩` (index 0) and
    does not touch `|001⟩` (index 1) -/
example : ((embed1 3 0 (ofList 2 2 [0, 1, 0, 0] : Mat Int)).map fun M => (M.e 0 4, M.e 0 1, M.e 4 0, M.rows)) =
    some (1, 0, 0, 8) := by decide

/-- a non-symmetric product `A ⊗ B`, `A = [[1,2],[3,4]]`, `B = [[5,6],[7,8]]`: entry (|10⟩,|01⟩) = A[1,0]·B[0,1] -/
example : ((kronAll [(ofList 2 2 [1, 2, 3, 4] : Mat Int), ofList 2 2 [5, 6, 7, 8]]).map fun M => M.e 2 1) =
    some 18 := by decide

example : ((embed2 3 2 1 (ofList 4 4 [0, 1, 2, 3, 4, 5, 6, 7, 8, 9, 10, 11, 12, 13, 14, 15] : Mat Int)).map
    fun M => (M.e 1 2, M.e 5 6, M.e 1 6)) = some (6, 6, 0) := by decide

example : ((embedF 4 0 2 (ofList 2 2 [1, 2, 3, 4] : Mat Int) (ofList 2 2 [5, 6, 7, 8])).map
    fun M => (M.e 8 2, M.e 9 3, M.e 8 3)) = some (18, 18, 0) := by decide

end Yaqs.Index
