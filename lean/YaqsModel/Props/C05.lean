import YaqsModel.Lemmas.Sweep

/-!
# C05 — noise-free analog evolution: unitary, energy-conserving, converges to exp(-iHt)

Property theorems only (helper lemmas live in `Lemmas/Sweep.lean`).  The model (`Model/Sweep.lean`) lists the
primitive updates of one integrator call of `local_dynamic_tdvp` / `bug` as the code performs them; the
correspondence check compares that list with the recorded calls of `update_site` / `update_bond` /
`split_mps_tensor` inside the real functions, for chains of length 2…8 and caps that bite at random bonds.

Full statement of the property (`c05_full`, NOT proved here — the analytic part is cited, see `c05_partial`):
  for every Hamiltonian H given as an MPO, every initial MPS ψ₀, step dt and number of steps m, with
  ψ_m the state after m calls of the integrator,
    (a) | ‖ψ_m‖² − 1 | ≤ m · 2L · threshold                                  (→ `norm_budget`, proved)
    (b) | ⟨ψ_m|H|ψ_m⟩ − ⟨ψ₀|H|ψ₀⟩ | ≤ C · m · 2L · threshold                (measured by the oracle only)
    (c) for nearest-neighbour H and unconstrained bond dimension
        ‖ψ_m − exp(-i H m dt) ψ₀‖ ≤ C(H, m·dt) · dt²  (TDVP, orders 1 and 2 identical),  ≤ C · dt  (BUG).
  (c) follows from the structure proved below — each half sweep is a consistent projector splitting
  (`ldtdvp_telescopes`), the full step is a palindromic composition (`ldtdvp_symmetric`), hence of even order
  (Hairer–Lubich–Wanner, Geometric Numerical Integration, Thm II.3.2; Lubich–Oseledets–Vandereycken 2015 for
  the exactness of the projector splitting), and BUG updates every site once with the full step (`bug_order`;
  Ceruti–Lubich–Walach 2021 for the first-order bound) — but the limit argument itself is not formalised.
-/
namespace Yaqs.Sweep

/-- **C05.1** (`ldtdvp_telescopes`) For every chain length `L ≥ 2`, every half step `h` and every decision
    sequence that can occur (dummy leg capped only if every bond is), both half sweeps of `local_dynamic_tdvp` are
    valid projector-splitting chains: every step contributes `h·P_site(i) − h·P_bond(i)` or
    `h·P_pair(i,i+1) − h·P_site(i+1)` and moves the centre by one site, the chain ends in `h·P_site(L-1)` or in the
    un-reversed `h·P_pair(L-2,L-1)` (mirror image for the right-to-left half).  Consequently every forward
    projector carries `+h` and every backward one `−h`, the coefficients telescope to `h`, and the Hamiltonian
    terms on every site are applied for exactly `h` per half sweep. -/
theorem ldtdvp_telescopes (L : Nat) (hL : 2 ≤ L) (h : Rat) (dLR dRL : Nat → Bool)
    (hLR : Realizable L dLR (L - 1)) (hRL : Realizable L dRL 0) :
    ChainLR L h 0 (ldtdvpLR L dLR h) ∧ ChainRL h (L - 1) (ldtdvpRL L dRL h) ∧
    coefSum (ldtdvpLR L dLR h) = h ∧ coefSum (ldtdvpRL L dRL h) = h ∧
    (∀ j, j < L → coverage j (ldtdvpLR L dLR h) = h ∧ coverage j (ldtdvpRL L dRL h) = h) := by
  have c1 : ChainLR L h 0 (ldtdvpLR L dLR h) := lrLoop_chain L dLR h hLR L 0 (by omega) hL
  have c2 : ChainRL h (L - 1) (ldtdvpRL L dRL h) := rlLoop_chain L dRL h hRL L hL (Nat.le_refl L)
  refine ⟨c1, c2, chainLR_coefSum L h 0 _ c1, chainRL_coefSum h (L - 1) _ c2, ?_⟩
  intro j hj
  constructor
  · rw [chainLR_coverage L h 0 _ c1 j hj]; simp
  · rw [chainRL_coverage h (L - 1) _ c2 j]
    have : j ≤ L - 1 := by omega
    simp [this]

/-- the decisions the code computes from bond dimensions `≥ 1` (dummy legs `= 1`) can occur -/
theorem capped_realizable (L maxBond : Nat) (seen : Nat → Nat) (dummy : Nat)
    (hpos : ∀ i, i < L → 1 ≤ seen i) (hdummy : seen dummy = 1) :
    Realizable L (fun i => capped (seen i) maxBond) dummy := by
  intro hd i hi
  simp only [capped, decide_eq_true_eq, hdummy] at hd ⊢
  have := hpos i hi
  omega

/-- **C05.1'** the same through the function the correspondence check runs: the analog call is the
    left-to-right chain followed by the right-to-left chain, for every cap and all bond dimensions seen. -/
theorem ldtdvp_telescopes_dims (L maxBond : Nat) (hL : 2 ≤ L) (seenLR seenRL : Nat → Nat)
    (hLR : ∀ i, i < L → 1 ≤ seenLR i) (hRL : ∀ i, i < L → 1 ≤ seenRL i)
    (hdLR : seenLR (L - 1) = 1) (hdRL : seenRL 0 = 1) :
    ∃ lr rl, ldtdvp L maxBond seenLR seenRL false = lr ++ rl ∧
      ChainLR L (1 / 2) 0 lr ∧ ChainRL (1 / 2) (L - 1) rl ∧
      ∀ j, j < L → coverage j (ldtdvp L maxBond seenLR seenRL false) = 1 := by
  have r1 := capped_realizable L maxBond seenLR (L - 1) hLR hdLR
  have r2 := capped_realizable L maxBond seenRL 0 hRL hdRL
  obtain ⟨c1, c2, _, _, hc⟩ := ldtdvp_telescopes L hL (1 / 2) _ _ r1 r2
  refine ⟨_, _, ?_, c1, c2, ?_⟩
  · have : ¬ (L = 1) := by omega
    simp [ldtdvp, ldtdvpD, this]
  · intro j hj
    have : ¬ (L = 1) := by omega
    simp only [ldtdvp, ldtdvpD, this, ↓reduceIte, Bool.false_eq_true, coverage_append]
    rw [(hc j hj).1, (hc j hj).2]
    norm_num

/-- the hypothesis of C05.1 is needed: with the dummy leg "capped" but the last bond not, the last site would
    be evolved on top of the pair update (coverage 1 instead of ½ in the half sweep) -/
theorem ldtdvp_unrealizable_breaks :
    coverage 2 (ldtdvpLR 3 (fun i => decide (i = 2)) (1 / 2)) = 1 := by decide +kernel

/-- **C05.2** (`ldtdvp_symmetric`) With the same decision at every bond in both directions
    (`RL = mirror LR`), one call of `local_dynamic_tdvp` is a palindromic composition: after deleting every
    backward site step that is immediately undone by the forward step on the same site (same environments: the
    two exponentials are exact inverses), the right-to-left half is the left-to-right half read backwards.
    For any decisions the total coefficient on every site is 1. -/
theorem ldtdvp_symmetric (L : Nat) (hL : 2 ≤ L) (dLR dRL : Nat → Bool)
    (hLR : Realizable L dLR (L - 1)) (hRL : Realizable L dRL 0)
    (hmir : ∀ s, 1 ≤ s → s < L → dRL s = dLR (s - 1)) :
    cancel (projOnly (ldtdvpRL L dRL (1 / 2))) = (cancel (projOnly (ldtdvpLR L dLR (1 / 2)))).reverse ∧
    (∀ j, j < L → coverage j (ldtdvpD L dLR dRL false) = 1) ∧ coefSum (ldtdvpD L dLR dRL false) = 1 := by
  refine ⟨cancel_palindrome L hL dLR dRL (1 / 2) (by norm_num) hLR hmir hRL, ?_, ?_⟩
  · intro j hj
    obtain ⟨_, _, _, _, hc⟩ := ldtdvp_telescopes L hL (1 / 2) dLR dRL hLR hRL
    have : ¬ (L = 1) := by omega
    simp only [ldtdvpD, this, ↓reduceIte, Bool.false_eq_true, coverage_append]
    rw [(hc j hj).1, (hc j hj).2]
    norm_num
  · obtain ⟨_, _, s1, s2, _⟩ := ldtdvp_telescopes L hL (1 / 2) dLR dRL hLR hRL
    have : ¬ (L = 1) := by omega
    simp only [ldtdvpD, this, ↓reduceIte, Bool.false_eq_true, coefSum_append]
    rw [s1, s2]
    norm_num

private theorem bugDown_count (j : Nat) : ∀ s, (bugDown s).count (Op.site j 1) = if 1 ≤ j ∧ j ≤ s then 1 else 0 := by
  intro s
  induction s with
  | zero =>
    simp [bugDown]; omega
  | succ s ih =>
    simp only [bugDown, List.count_cons, ih]
    by_cases hj : s + 1 = j
    · subst hj
      have h1 : ¬ (1 ≤ s + 1 ∧ s + 1 ≤ s) := by omega
      simp [h1]
    · have hne : (Op.site (s + 1) 1 == Op.site j 1) = false := by simp [hj]
      rw [hne]
      by_cases h2 : 1 ≤ j ∧ j ≤ s
      · have : 1 ≤ j ∧ j ≤ s + 1 := by omega
        simp [h2, this]
      · have : ¬ (1 ≤ j ∧ j ≤ s + 1) := by omega
        simp [h2, this]

private theorem bugDown_length : ∀ s, (bugDown s).length = s := by
  intro s; induction s with
  | zero => simp [bugDown]
  | succ s ih => simp [bugDown, ih]

private theorem bugDown_coverage (j : Nat) : ∀ s, coverage j (bugDown s) = if 1 ≤ j ∧ j ≤ s then 1 else 0 := by
  intro s
  induction s with
  | zero =>
    simp [bugDown, coverage]; omega
  | succ s ih =>
    simp only [bugDown, coverage, cov, ih]
    by_cases hj : s + 1 = j
    · subst hj
      have h1 : ¬ (1 ≤ s + 1 ∧ s + 1 ≤ s) := by omega
      simp [h1]
    · by_cases h2 : 1 ≤ j ∧ j ≤ s
      · have : 1 ≤ j ∧ j ≤ s + 1 := by omega
        simp [hj, h2, this]
      · have : ¬ (1 ≤ j ∧ j ≤ s + 1) := by omega
        simp [hj, h2, this]

/-- **C05.3** (`bug_order`) One `bug` call updates every site exactly once, with the full step, sites
    `L-1 … 1` first and site `0` last, and then truncates; nothing else happens. -/
theorem bug_order (L : Nat) (hL : 1 ≤ L) :
    (∀ j, j < L → (bug L).count (Op.site j 1) = 1 ∧ coverage j (bug L) = 1) ∧
    (bug L).length = L + 1 ∧ (bug L).getLast? = some Op.trunc ∧
    (bug L).take (L - 1) = bugDown (L - 1) := by
  refine ⟨?_, ?_, ?_, ?_⟩
  · intro j hj
    constructor
    · simp only [bug, List.count_append, bugDown_count, List.count_cons, List.count_nil]
      by_cases h0 : j = 0
      · subst h0; simp
      · have h1 : 1 ≤ j ∧ j ≤ L - 1 := by omega
        have hne : (Op.site 0 1 == Op.site j 1) = false := by simp; omega
        simp [h1, hne]
    · simp only [bug, coverage_append, bugDown_coverage, coverage, cov]
      by_cases h0 : j = 0
      · subst h0; simp
      · have h1 : 1 ≤ j ∧ j ≤ L - 1 := by omega
        have : ¬ (0 = j) := by omega
        simp [h1, this]
  · simp [bug, bugDown_length]; omega
  · simp [bug]
  · have := bugDown_length (L - 1)
    simp [bug, List.take_append_of_le_length, this]

private theorem ssLR_coverage (L : Nat) (h : Rat) (j : Nat) : ∀ n i,
    coverage j (ssLR L h n i) = if i ≤ j ∧ j < i + n then h else 0 := by
  intro n
  induction n with
  | zero => intro i; have : ¬ (i ≤ j ∧ j < i + 0) := by omega
            simp [ssLR, coverage, this]
  | succ n ih =>
    intro i
    simp only [ssLR, coverage, cov, ih (i + 1)]
    by_cases hij : i = j
    · subst hij
      have h1 : ¬ (i + 1 ≤ i ∧ i < i + 1 + n) := by omega
      have h2 : i ≤ i ∧ i < i + (n + 1) := by omega
      simp [h1, h2]
    · by_cases h1 : i + 1 ≤ j ∧ j < i + 1 + n
      · have h2 : i ≤ j ∧ j < i + (n + 1) := by omega
        simp [hij, h1, h2]
      · have h2 : ¬ (i ≤ j ∧ j < i + (n + 1)) := by omega
        simp [hij, h1, h2]

private theorem ssRL_coverage (h : Rat) (j : Nat) : ∀ n, coverage j (ssRL h n) = if j < n then h else 0 := by
  intro n
  induction n with
  | zero => simp [ssRL, coverage]
  | succ n ih =>
    simp only [ssRL, coverage, cov, ih]
    by_cases hij : n = j
    · subst hij; simp
    · by_cases h1 : j < n
      · have h2 : j < n + 1 := by omega
        simp [hij, h1, h2]
      · have h2 : ¬ (j < n + 1) := by omega
        simp [hij, h1, h2]

private theorem tsLR_coverage (h : Rat) (j : Nat) : ∀ n i,
    coverage j (tsLR h n i) = if i ≤ j ∧ j < i + n then h else 0 := by
  intro n
  induction n with
  | zero => intro i; have : ¬ (i ≤ j ∧ j < i + 0) := by omega
            simp [tsLR, coverage, this]
  | succ n ih =>
    intro i
    simp only [tsLR, coverage, cov, ih (i + 1)]
    by_cases hij : i = j
    · subst hij
      have h0 : ¬ (i + 1 = i) := by omega
      have h1 : ¬ (i + 1 ≤ i ∧ i < i + 1 + n) := by omega
      have h2 : i ≤ i ∧ i < i + (n + 1) := by omega
      simp [h0, h1, h2]
    · by_cases hij1 : i + 1 = j
      · subst hij1
        by_cases hn : 0 < n
        · have h1 : i + 1 ≤ i + 1 ∧ i + 1 < i + 1 + n := by omega
          have h2 : i ≤ i + 1 ∧ i + 1 < i + (n + 1) := by omega
          simp [h1, h2]
        · have h1 : ¬ (i + 1 ≤ i + 1 ∧ i + 1 < i + 1 + n) := by omega
          have h2 : ¬ (i ≤ i + 1 ∧ i + 1 < i + (n + 1)) := by omega
          simp [h1, h2]
      · by_cases h1 : i + 1 ≤ j ∧ j < i + 1 + n
        · have h2 : i ≤ j ∧ j < i + (n + 1) := by omega
          simp [hij, hij1, h1, h2]
        · have h2 : ¬ (i ≤ j ∧ j < i + (n + 1)) := by omega
          simp [hij, hij1, h1, h2]

private theorem tsRL_coverage (h : Rat) (j : Nat) : ∀ n, coverage j (tsRL h n) = if j < n then h else 0 := by
  intro n
  induction n with
  | zero => simp [tsRL, coverage]
  | succ n ih =>
    simp only [tsRL, coverage, cov, ih]
    by_cases hij : n = j
    · subst hij
      have h0 : ¬ (n + 1 = n) := by omega
      simp [h0]
    · by_cases hij1 : n + 1 = j
      · subst hij1
        have h1 : ¬ (n + 1 < n) := by omega
        simp [h1]
      · by_cases h1 : j < n
        · have h2 : j < n + 1 := by omega
          simp [hij, hij1, h1, h2]
        · have h2 : ¬ (j < n + 1) := by omega
          simp [hij, hij1, h1, h2]

/-- **C05.1''** the fixed-branch integrators (`single_site_tdvp`, `two_site_tdvp`, analog mode) are consistent as
    well: the Hamiltonian terms on every site act for total time exactly `1·dt` per call, for every chain length;
    `two_site_tdvp` refuses chains shorter than 2. -/
theorem fixed_sweeps_cover (L : Nat) (hL : 1 ≤ L) :
    (∀ j, j < L → coverage j (singleSite L false) = 1) ∧
    (2 ≤ L → ∃ ops, twoSite L false = some ops ∧ ∀ j, j < L → coverage j ops = 1) ∧
    twoSite 1 false = none := by
  refine ⟨?_, ?_, by decide⟩
  · intro j hj
    simp only [singleSite, Bool.false_eq_true, ↓reduceIte, coverage_append, ssLR_coverage, ssRL_coverage, coverage, cov]
    by_cases h1 : j < L - 1
    · have h2 : 0 ≤ j ∧ j < 0 + (L - 1) := by omega
      have h3 : ¬ (L - 1 = j) := by omega
      simp [h1, h2, h3]; norm_num
    · have h2 : ¬ (0 ≤ j ∧ j < 0 + (L - 1)) := by omega
      have h3 : L - 1 = j := by omega
      simp [h1, h2, h3]
  · intro h2L
    have hlt : ¬ (L < 2) := by omega
    refine ⟨tsLR (1 / 2) (L - 2) 0 ++ [Op.pair (L - 2) 1, Op.split (L - 2) false] ++ tsRL (1 / 2) (L - 2),
      by simp [twoSite, hlt], ?_⟩
    intro j hj
    simp only [coverage_append, tsLR_coverage, tsRL_coverage, coverage, cov]
    by_cases h1 : j < L - 2
    · have h2 : 0 ≤ j ∧ j < 0 + (L - 2) := by omega
      have h3 : ¬ (L - 2 = j ∨ L - 2 + 1 = j) := by omega
      simp [h1, h2, h3]; norm_num
    · have h2 : ¬ (0 ≤ j ∧ j < 0 + (L - 2)) := by omega
      have h3 : L - 2 = j ∨ L - 2 + 1 = j := by omega
      simp [h1, h2, h3]

/-- every integrator call performs at most `2L` truncating SVDs -/
theorem ldtdvp_loss (L : Nat) (hL : 1 ≤ L) (dLR dRL : Nat → Bool) (digital : Bool)
    (hLR : Realizable L dLR (L - 1)) (hRL : Realizable L dRL 0) :
    lossTotal L (ldtdvpD L dLR dRL digital) ≤ 2 * L := by
  by_cases h1 : L = 1
  · subst h1
    cases digital <;> simp [ldtdvpD, singleSite, ssLR, ssRL, lossTotal, lossCount]
  · have hL2 : 2 ≤ L := by omega
    cases digital
    · obtain ⟨c1, c2, _⟩ := ldtdvp_telescopes L hL2 (1 / 2) dLR dRL hLR hRL
      have l1 := chainLR_loss L (1 / 2) 0 _ c1
      have l2 := chainRL_loss L (1 / 2) (L - 1) _ c2
      simp only [ldtdvpD, h1, ↓reduceIte, Bool.false_eq_true, lossTotal_append]
      omega
    · obtain ⟨c1, _⟩ := ldtdvp_telescopes L hL2 1 dLR dRL hLR hRL
      have l1 := chainLR_loss L 1 0 _ c1
      simp only [ldtdvpD, h1, ↓reduceIte]
      omega

private theorem bugDown_loss (L : Nat) : ∀ s, lossTotal L (bugDown s) = 0 := by
  intro s; induction s with
  | zero => simp [bugDown, lossTotal]
  | succ s ih => simp [bugDown, lossTotal, lossCount, ih]

theorem bug_loss (L : Nat) : lossTotal L (bug L) ≤ 2 * L := by
  simp only [bug, lossTotal_append, bugDown_loss, lossTotal, lossCount]
  omega

private theorem lossTotal_flatten (L : Nat) : ∀ calls : List (List Op), (∀ c ∈ calls, lossTotal L c ≤ 2 * L) →
    lossTotal L calls.flatten ≤ calls.length * (2 * L) := by
  intro calls
  induction calls with
  | nil => intro _; simp [lossTotal]
  | cons c cs ih =>
    intro h
    have h1 := h c (by simp)
    have h2 := ih (fun c' hc' => h c' (by simp [hc']))
    simp only [List.flatten_cons, lossTotal_append, List.length_cons]
    have : (cs.length + 1) * (2 * L) = cs.length * (2 * L) + 2 * L := by ring
    omega

/-- **C05.4** (`norm_budget`) If every site/bond/pair primitive preserves the norm (Hermitian local generator —
    `krylov_isometry` of C19) and every truncating SVD discards at most `thr` (C09), then after `m` integrator
    calls, each with at most `2L` truncations (`ldtdvp_loss`, `bug_loss`), the squared norm that started at 1
    satisfies `1 − m·2L·thr ≤ ‖ψ‖² ≤ 1`. -/
theorem norm_budget (L : Nat) (thr : Rat) (hthr : 0 ≤ thr) (calls : List (List Op))
    (hcalls : ∀ c ∈ calls, lossTotal L c ≤ 2 * L) (y : Rat) (ht : NormTrace L thr calls.flatten 1 y) :
    1 - (calls.length : Rat) * (2 * L) * thr ≤ y ∧ y ≤ 1 := by
  obtain ⟨h1, h2⟩ := normTrace_bound L thr _ 1 y ht
  refine ⟨?_, h2⟩
  have hl := lossTotal_flatten L calls hcalls
  have hl' : (lossTotal L calls.flatten : Rat) ≤ (calls.length : Rat) * (2 * L) := by
    have : ((lossTotal L calls.flatten : Nat) : Rat) ≤ ((calls.length * (2 * L) : Nat) : Rat) := by exact_mod_cast hl
    simpa using this
  have := mul_le_mul_of_nonneg_right hl' hthr
  linarith

/-- **C05 (partial)** What is proved of the property for the default TDVP mode and for BUG, for every chain
    length, cap and sequence of bond dimensions seen: each call is `LR ++ RL` with both halves valid
    projector-splitting chains of half step ½ (consistency: every site's terms act for total time 1·dt), the call
    performs at most `2L` truncations, and any run of `m` such calls (or BUG calls) keeps
    `1 − m·2L·thr ≤ ‖ψ‖² ≤ 1`.  Missing for `c05_full`: the energy-drift bound and the convergence orders
    (dt² for TDVP, dt for BUG) — cited, measured by the oracle of the check. -/
theorem c05_partial (L maxBond : Nat) (hL : 2 ≤ L) (thr : Rat) (hthr : 0 ≤ thr)
    (seenLR seenRL : Nat → Nat → Nat)
    (hLR : ∀ k i, i < L → 1 ≤ seenLR k i) (hRL : ∀ k i, i < L → 1 ≤ seenRL k i)
    (hdLR : ∀ k, seenLR k (L - 1) = 1) (hdRL : ∀ k, seenRL k 0 = 1) (m : Nat) (y : Rat)
    (ht : NormTrace L thr ((List.range m).map (fun k => ldtdvp L maxBond (seenLR k) (seenRL k) false)).flatten 1 y) :
    (∀ k, ∃ lr rl, ldtdvp L maxBond (seenLR k) (seenRL k) false = lr ++ rl ∧
        ChainLR L (1 / 2) 0 lr ∧ ChainRL (1 / 2) (L - 1) rl ∧
        ∀ j, j < L → coverage j (ldtdvp L maxBond (seenLR k) (seenRL k) false) = 1) ∧
    (1 - (m : Rat) * (2 * L) * thr ≤ y ∧ y ≤ 1) := by
  constructor
  · intro k
    exact ldtdvp_telescopes_dims L maxBond hL (seenLR k) (seenRL k) (hLR k) (hRL k) (hdLR k) (hdRL k)
  · have hc : ∀ c ∈ (List.range m).map (fun k => ldtdvp L maxBond (seenLR k) (seenRL k) false),
        lossTotal L c ≤ 2 * L := by
      intro c hc
      obtain ⟨k, _, rfl⟩ := List.mem_map.mp hc
      exact ldtdvp_loss L (by omega) _ _ false
        (capped_realizable L maxBond (seenLR k) (L - 1) (hLR k) (hdLR k))
        (capped_realizable L maxBond (seenRL k) 0 (hRL k) (hdRL k))
    have := norm_budget L thr hthr _ hc y ht
    simpa using this

/-! ### non-vacuity: concrete instances -/

/-- L = 4, cap 2, bonds seen (1,2,1 | dummy 1) resp. (dummy 1 | 1,2,2): both branches occur in both halves -/
example : ldtdvp 4 2 (fun i => [1, 2, 1, 1].getD i 0) (fun i => [1, 1, 2, 2].getD i 0) false =
    [Op.pair 0 (1/2), Op.split 0 true, Op.site 1 (-1/2), Op.site 1 (1/2), Op.bond 1 (-1/2), Op.pair 2 (1/2),
     Op.split 2 true,
     Op.site 3 (1/2), Op.bond 2 (-1/2), Op.site 2 (1/2), Op.bond 1 (-1/2), Op.pair 0 (1/2), Op.split 0 false] := by
  decide +kernel

/-- the hypotheses of `ldtdvp_symmetric` are satisfiable with mixed decisions, and the reduced halves mirror -/
example : Realizable 4 (fun i => decide (i = 1)) 3 ∧ Realizable 4 (fun s => decide (s = 2)) 0 ∧
    (∀ s, 1 ≤ s → s < 4 → (fun s => decide (s = 2)) s = (fun i => decide (i = 1)) (s - 1)) ∧
    cancel (projOnly (ldtdvpRL 4 (fun s => decide (s = 2)) (1 / 2))) =
      [Op.pair 2 (1/2), Op.bond 1 (-1/2), Op.pair 0 (1/2)] := by
  refine ⟨?_, ?_, ?_, by decide +kernel⟩
  · intro h; simp at h
  · intro h; simp at h
  · intro s h1 h4
    have : s = 1 ∨ s = 2 ∨ s = 3 := by omega
    rcases this with rfl | rfl | rfl <;> decide

example : singleSite 3 false = [Op.site 0 (1/2), Op.bond 0 (-1/2), Op.site 1 (1/2), Op.bond 1 (-1/2), Op.site 2 1,
    Op.bond 1 (-1/2), Op.site 1 (1/2), Op.bond 0 (-1/2), Op.site 0 (1/2)] := by decide +kernel

example : bug 4 = [Op.site 3 1, Op.site 2 1, Op.site 1 1, Op.site 0 1, Op.trunc] := by decide +kernel

/-- a norm trace exists: two splits each losing exactly `thr` -/
example : NormTrace 3 (1 / 100) [Op.pair 0 (1/2), Op.split 0 true, Op.split 1 true] 1 (98 / 100) :=
  NormTrace.step _ _ 1 1 _ (by norm_num [lossCount]) (by norm_num)
    (NormTrace.step _ _ 1 (99 / 100) _ (by norm_num [lossCount]) (by norm_num)
      (NormTrace.step _ _ (99 / 100) (98 / 100) _ (by norm_num [lossCount]) (by norm_num) (NormTrace.nil _)))

end Yaqs.Sweep
