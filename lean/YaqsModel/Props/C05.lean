import YaqsModel.Lemmas.Sweep
import YaqsModel.Lemmas.Conserve
import YaqsModel.Lemmas.ConserveStep
import YaqsModel.Props.C19
import YaqsModel.Lemmas.Bug

/-!
# C05 — noise-free analog evolution: unitary, energy-conserving, converges to exp(-iHt)

Property theorems only (helper lemmas live in `Lemmas/Sweep.lean`).  The model (`Model/Sweep.lean`) lists the
primitive updates of one integrator call of `local_dynamic_tdvp` / `bug` as the code performs them; the
correspondence check compares that list with the recorded calls of `update_site` / `update_bond` /
`split_mps_tensor` inside the real functions, for chains of length 2…8 and caps that bite at random bonds.

Full statement of the property (`c05_full`, NOT proved here — the analytic part is cited, see `c05_partial`):
  for every Hamiltonian H given as an MPO, every initial MPS ψ₀, step dt and number of steps m, with
  ψ_m the state after m calls of the integrator,
    (a) | ‖ψ_m‖² − 1 | ≤ m · 2L · threshold                                  (→ `norm_budget`, proved)
    (b) | ⟨ψ_m|H|ψ_m⟩ − ⟨ψ₀|H|ψ₀⟩ | ≤ C · m · 2L · threshold                (measured by the oracle only)
    (c) for nearest-neighbour H and unconstrained bond dimension
        ‖ψ_m − exp(-i H m dt) ψ₀‖ ≤ C(H, m·dt) · dt²  (TDVP, orders 1 and 2 identical),  ≤ C · dt  (BUG).
  (c) follows from the structure proved below — each half sweep is a consistent projector splitting
  (`ldtdvp_telescopes`), the full step is a palindromic composition (`ldtdvp_symmetric`), hence of even order
  (Hairer–Lubich–Wanner, Geometric Numerical Integration, Thm II.3.2; Lubich–Oseledets–Vandereycken 2015 for
  the exactness of the projector splitting), and BUG updates every site once with the full step (`bug_order`;
  Ceruti–Lubich–Walach 2021 for the first-order bound) — but the limit argument itself is not formalised.
-/
-- xe05: the extension below imports Mathlib's order/analysis hierarchy, which tags `Order.add_one_le_iff` (`a + 1 ≤ b ↔ a < b`)
-- as a simp lemma; the case analyses of the schedule theorems in this file are written against the core simp set
attribute [-simp] Order.add_one_le_iff

namespace Yaqs.Sweep

/-- **C05.1** (`ldtdvp_telescopes`) For every chain length `L ≥ 2`, every half step `h` and every decision
    sequence that can occur (dummy leg capped only if every bond is), both half sweeps of `local_dynamic_tdvp` are
    valid projector-splitting chains: every step contributes `h·P_site(i) − h·P_bond(i)` or
    `h·P_pair(i,i+1) − h·P_site(i+1)` and moves the centre by one site, the chain ends in `h·P_site(L-1)` or in the
    un-reversed `h·P_pair(L-2,L-1)` (mirror image for the right-to-left half).  Consequently every forward
    projector carries `+h` and every backward one `−h`, the coefficients telescope to `h`, and the Hamiltonian
    terms on every site are applied for exactly `h` per half sweep. -/
theorem ldtdvp_telescopes (L : Nat) (hL : 2 ≤ L) (h : Rat) (dLR dRL : Nat → Bool)
    (hLR : Realizable L dLR (L - 1)) (hRL : Realizable L dRL 0) :
    ChainLR L h 0 (ldtdvpLR L dLR h) ∧ ChainRL h (L - 1) (ldtdvpRL L dRL h) ∧
    coefSum (ldtdvpLR L dLR h) = h ∧ coefSum (ldtdvpRL L dRL h) = h ∧
    (∀ j, j < L → coverage j (ldtdvpLR L dLR h) = h ∧ coverage j (ldtdvpRL L dRL h) = h) := by
  have c1 : ChainLR L h 0 (ldtdvpLR L dLR h) := lrLoop_chain L dLR h hLR L 0 (by omega) hL
  have c2 : ChainRL h (L - 1) (ldtdvpRL L dRL h) := rlLoop_chain L dRL h hRL L hL (Nat.le_refl L)
  refine ⟨c1, c2, chainLR_coefSum L h 0 _ c1, chainRL_coefSum h (L - 1) _ c2, ?_⟩
  intro j hj
  constructor
  · rw [chainLR_coverage L h 0 _ c1 j hj]; simp
  · rw [chainRL_coverage h (L - 1) _ c2 j]
    have : j ≤ L - 1 := by omega
    simp [this]

/-- the decisions the code computes from bond dimensions `≥ 1` (dummy legs `= 1`) can occur -/
theorem capped_realizable (L maxBond : Nat) (seen : Nat → Nat) (dummy : Nat)
    (hpos : ∀ i, i < L → 1 ≤ seen i) (hdummy : seen dummy = 1) :
    Realizable L (fun i => capped (seen i) maxBond) dummy := by
  intro hd i hi
  simp only [capped, decide_eq_true_eq, hdummy] at hd ⊢
  have := hpos i hi
  omega

/-- **C05.1'** the same through the function the correspondence check runs: the analog call is the
    left-to-right chain followed by the right-to-left chain, for every cap and all bond dimensions seen. -/
theorem ldtdvp_telescopes_dims (L maxBond : Nat) (hL : 2 ≤ L) (seenLR seenRL : Nat → Nat)
    (hLR : ∀ i, i < L → 1 ≤ seenLR i) (hRL : ∀ i, i < L → 1 ≤ seenRL i)
    (hdLR : seenLR (L - 1) = 1) (hdRL : seenRL 0 = 1) :
    ∃ lr rl, ldtdvp L maxBond seenLR seenRL false = lr ++ rl ∧
      ChainLR L (1 / 2) 0 lr ∧ ChainRL (1 / 2) (L - 1) rl ∧
      ∀ j, j < L → coverage j (ldtdvp L maxBond seenLR seenRL false) = 1 := by
  have r1 := capped_realizable L maxBond seenLR (L - 1) hLR hdLR
  have r2 := capped_realizable L maxBond seenRL 0 hRL hdRL
  obtain ⟨c1, c2, _, _, hc⟩ := ldtdvp_telescopes L hL (1 / 2) _ _ r1 r2
  refine ⟨_, _, ?_, c1, c2, ?_⟩
  · have : ¬ (L = 1) := by omega
    simp [ldtdvp, ldtdvpD, this]
  · intro j hj
    have : ¬ (L = 1) := by omega
    simp only [ldtdvp, ldtdvpD, this, ↓reduceIte, Bool.false_eq_true, coverage_append]
    rw [(hc j hj).1, (hc j hj).2]
    norm_num

/-- the hypothesis of C05.1 is needed: with the dummy leg "capped" but the last bond not, the last site would
    be evolved on top of the pair update (coverage 1 instead of ½ in the half sweep) -/
theorem ldtdvp_unrealizable_breaks :
    coverage 2 (ldtdvpLR 3 (fun i => decide (i = 2)) (1 / 2)) = 1 := by decide +kernel

/-- **C05.2** (`ldtdvp_symmetric`) With the same decision at every bond in both directions
    (`RL = mirror LR`), one call of `local_dynamic_tdvp` is a palindromic composition: after deleting every
    backward site step that is immediately undone by the forward step on the same site (same environments: the
    two exponentials are exact inverses), the right-to-left half is the left-to-right half read backwards.
    For any decisions the total coefficient on every site is 1. -/
theorem ldtdvp_symmetric (L : Nat) (hL : 2 ≤ L) (dLR dRL : Nat → Bool)
    (hLR : Realizable L dLR (L - 1)) (hRL : Realizable L dRL 0)
    (hmir : ∀ s, 1 ≤ s → s < L → dRL s = dLR (s - 1)) :
    cancel (projOnly (ldtdvpRL L dRL (1 / 2))) = (cancel (projOnly (ldtdvpLR L dLR (1 / 2)))).reverse ∧
    (∀ j, j < L → coverage j (ldtdvpD L dLR dRL false) = 1) ∧ coefSum (ldtdvpD L dLR dRL false) = 1 := by
  refine ⟨cancel_palindrome L hL dLR dRL (1 / 2) (by norm_num) hLR hmir hRL, ?_, ?_⟩
  · intro j hj
    obtain ⟨_, _, _, _, hc⟩ := ldtdvp_telescopes L hL (1 / 2) dLR dRL hLR hRL
    have : ¬ (L = 1) := by omega
    simp only [ldtdvpD, this, ↓reduceIte, Bool.false_eq_true, coverage_append]
    rw [(hc j hj).1, (hc j hj).2]
    norm_num
  · obtain ⟨_, _, s1, s2, _⟩ := ldtdvp_telescopes L hL (1 / 2) dLR dRL hLR hRL
    have : ¬ (L = 1) := by omega
    simp only [ldtdvpD, this, ↓reduceIte, Bool.false_eq_true, coefSum_append]
    rw [s1, s2]
    norm_num

private theorem bugDown_count (j : Nat) : ∀ s, (bugDown s).count (Op.site j 1) = if 1 ≤ j ∧ j ≤ s then 1 else 0 := by
  intro s
  induction s with
  | zero =>
    simp [bugDown]; omega
  | succ s ih =>
    simp only [bugDown, List.count_cons, ih]
    by_cases hj : s + 1 = j
    · subst hj
      have h1 : ¬ (1 ≤ s + 1 ∧ s + 1 ≤ s) := by omega
      simp [h1]
    · have hne : (Op.site (s + 1) 1 == Op.site j 1) = false := by simp [hj]
      rw [hne]
      by_cases h2 : 1 ≤ j ∧ j ≤ s
      · have : 1 ≤ j ∧ j ≤ s + 1 := by omega
        simp [h2, this]
      · have : ¬ (1 ≤ j ∧ j ≤ s + 1) := by omega
        simp [h2, this]

private theorem bugDown_length : ∀ s, (bugDown s).length = s := by
  intro s; induction s with
  | zero => simp [bugDown]
  | succ s ih => simp [bugDown, ih]

private theorem bugDown_coverage (j : Nat) : ∀ s, coverage j (bugDown s) = if 1 ≤ j ∧ j ≤ s then 1 else 0 := by
  intro s
  induction s with
  | zero =>
    simp [bugDown, coverage]; omega
  | succ s ih =>
    simp only [bugDown, coverage, cov, ih]
    by_cases hj : s + 1 = j
    · subst hj
      have h1 : ¬ (1 ≤ s + 1 ∧ s + 1 ≤ s) := by omega
      simp [h1]
    · by_cases h2 : 1 ≤ j ∧ j ≤ s
      · have : 1 ≤ j ∧ j ≤ s + 1 := by omega
        simp [hj, h2, this]
      · have : ¬ (1 ≤ j ∧ j ≤ s + 1) := by omega
        simp [hj, h2, this]

/-- **C05.3** (`bug_order`) One `bug` call updates every site exactly once, with the full step, sites
    `L-1 … 1` first and site `0` last, and then truncates; nothing else happens. -/
theorem bug_order (L : Nat) (hL : 1 ≤ L) :
    (∀ j, j < L → (bug L).count (Op.site j 1) = 1 ∧ coverage j (bug L) = 1) ∧
    (bug L).length = L + 1 ∧ (bug L).getLast? = some Op.trunc ∧
    (bug L).take (L - 1) = bugDown (L - 1) := by
  refine ⟨?_, ?_, ?_, ?_⟩
  · intro j hj
    constructor
    · simp only [bug, List.count_append, bugDown_count, List.count_cons, List.count_nil]
      by_cases h0 : j = 0
      · subst h0; simp
      · have h1 : 1 ≤ j ∧ j ≤ L - 1 := by omega
        have hne : (Op.site 0 1 == Op.site j 1) = false := by simp; omega
        simp [h1, hne]
    · simp only [bug, coverage_append, bugDown_coverage, coverage, cov]
      by_cases h0 : j = 0
      · subst h0; simp
      · have h1 : 1 ≤ j ∧ j ≤ L - 1 := by omega
        have : ¬ (0 = j) := by omega
        simp [h1, this]
  · simp [bug, bugDown_length]; omega
  · simp [bug]
  · have := bugDown_length (L - 1)
    simp [bug, List.take_append_of_le_length, this]

private theorem ssLR_coverage (L : Nat) (h : Rat) (j : Nat) : ∀ n i,
    coverage j (ssLR L h n i) = if i ≤ j ∧ j < i + n then h else 0 := by
  intro n
  induction n with
  | zero => intro i; have : ¬ (i ≤ j ∧ j < i + 0) := by omega
            simp [ssLR, coverage, this]
  | succ n ih =>
    intro i
    simp only [ssLR, coverage, cov, ih (i + 1)]
    by_cases hij : i = j
    · subst hij
      have h1 : ¬ (i + 1 ≤ i ∧ i < i + 1 + n) := by omega
      have h2 : i ≤ i ∧ i < i + (n + 1) := by omega
      simp [h1, h2]
    · by_cases h1 : i + 1 ≤ j ∧ j < i + 1 + n
      · have h2 : i ≤ j ∧ j < i + (n + 1) := by omega
        simp [hij, h1, h2]
      · have h2 : ¬ (i ≤ j ∧ j < i + (n + 1)) := by omega
        simp [hij, h1, h2]

private theorem ssRL_coverage (h : Rat) (j : Nat) : ∀ n, coverage j (ssRL h n) = if j < n then h else 0 := by
  intro n
  induction n with
  | zero => simp [ssRL, coverage]
  | succ n ih =>
    simp only [ssRL, coverage, cov, ih]
    by_cases hij : n = j
    · subst hij; simp
    · by_cases h1 : j < n
      · have h2 : j < n + 1 := by omega
        simp [hij, h1, h2]
      · have h2 : ¬ (j < n + 1) := by omega
        simp [hij, h1, h2]

private theorem tsLR_coverage (h : Rat) (j : Nat) : ∀ n i,
    coverage j (tsLR h n i) = if i ≤ j ∧ j < i + n then h else 0 := by
  intro n
  induction n with
  | zero => intro i; have : ¬ (i ≤ j ∧ j < i + 0) := by omega
            simp [tsLR, coverage, this]
  | succ n ih =>
    intro i
    simp only [tsLR, coverage, cov, ih (i + 1)]
    by_cases hij : i = j
    · subst hij
      have h0 : ¬ (i + 1 = i) := by omega
      have h1 : ¬ (i + 1 ≤ i ∧ i < i + 1 + n) := by omega
      have h2 : i ≤ i ∧ i < i + (n + 1) := by omega
      simp [h0, h1, h2]
    · by_cases hij1 : i + 1 = j
      · subst hij1
        by_cases hn : 0 < n
        · have h1 : i + 1 ≤ i + 1 ∧ i + 1 < i + 1 + n := by omega
          have h2 : i ≤ i + 1 ∧ i + 1 < i + (n + 1) := by omega
          simp [h1, h2]
        · have h1 : ¬ (i + 1 ≤ i + 1 ∧ i + 1 < i + 1 + n) := by omega
          have h2 : ¬ (i ≤ i + 1 ∧ i + 1 < i + (n + 1)) := by omega
          simp [h1, h2]
      · by_cases h1 : i + 1 ≤ j ∧ j < i + 1 + n
        · have h2 : i ≤ j ∧ j < i + (n + 1) := by omega
          simp [hij, hij1, h1, h2]
        · have h2 : ¬ (i ≤ j ∧ j < i + (n + 1)) := by omega
          simp [hij, hij1, h1, h2]

private theorem tsRL_coverage (h : Rat) (j : Nat) : ∀ n, coverage j (tsRL h n) = if j < n then h else 0 := by
  intro n
  induction n with
  | zero => simp [tsRL, coverage]
  | succ n ih =>
    simp only [tsRL, coverage, cov, ih]
    by_cases hij : n = j
    · subst hij
      have h0 : ¬ (n + 1 = n) := by omega
      simp [h0]
    · by_cases hij1 : n + 1 = j
      · subst hij1
        have h1 : ¬ (n + 1 < n) := by omega
        simp [h1]
      · by_cases h1 : j < n
        · have h2 : j < n + 1 := by omega
          simp [hij, hij1, h1, h2]
        · have h2 : ¬ (j < n + 1) := by omega
          simp [hij, hij1, h1, h2]

/-- **C05.1''** the fixed-branch integrators (`single_site_tdvp`, `two_site_tdvp`, analog mode) are consistent as
    well: the Hamiltonian terms on every site act for total time exactly `1·dt` per call, for every chain length;
    `two_site_tdvp` refuses chains shorter than 2. -/
theorem fixed_sweeps_cover (L : Nat) (hL : 1 ≤ L) :
    (∀ j, j < L → coverage j (singleSite L false) = 1) ∧
    (2 ≤ L → ∃ ops, twoSite L false = some ops ∧ ∀ j, j < L → coverage j ops = 1) ∧
    twoSite 1 false = none := by
  refine ⟨?_, ?_, by decide⟩
  · intro j hj
    simp only [singleSite, Bool.false_eq_true, ↓reduceIte, coverage_append, ssLR_coverage, ssRL_coverage, coverage, cov]
    by_cases h1 : j < L - 1
    · have h2 : 0 ≤ j ∧ j < 0 + (L - 1) := by omega
      have h3 : ¬ (L - 1 = j) := by omega
      simp [h1, h2, h3]; norm_num
    · have h2 : ¬ (0 ≤ j ∧ j < 0 + (L - 1)) := by omega
      have h3 : L - 1 = j := by omega
      simp [h1, h2, h3]
  · intro h2L
    have hlt : ¬ (L < 2) := by omega
    refine ⟨tsLR (1 / 2) (L - 2) 0 ++ [Op.pair (L - 2) 1, Op.split (L - 2) false] ++ tsRL (1 / 2) (L - 2),
      by simp [twoSite, hlt], ?_⟩
    intro j hj
    simp only [coverage_append, tsLR_coverage, tsRL_coverage, coverage, cov]
    by_cases h1 : j < L - 2
    · have h2 : 0 ≤ j ∧ j < 0 + (L - 2) := by omega
      have h3 : ¬ (L - 2 = j ∨ L - 2 + 1 = j) := by omega
      simp [h1, h2, h3]; norm_num
    · have h2 : ¬ (0 ≤ j ∧ j < 0 + (L - 2)) := by omega
      have h3 : L - 2 = j ∨ L - 2 + 1 = j := by omega
      simp [h1, h2, h3]

/-- every integrator call performs at most `2L` truncating SVDs -/
theorem ldtdvp_loss (L : Nat) (hL : 1 ≤ L) (dLR dRL : Nat → Bool) (digital : Bool)
    (hLR : Realizable L dLR (L - 1)) (hRL : Realizable L dRL 0) :
    lossTotal L (ldtdvpD L dLR dRL digital) ≤ 2 * L := by
  by_cases h1 : L = 1
  · subst h1
    cases digital <;> simp [ldtdvpD, singleSite, ssLR, ssRL, lossTotal, lossCount]
  · have hL2 : 2 ≤ L := by omega
    cases digital
    · obtain ⟨c1, c2, _⟩ := ldtdvp_telescopes L hL2 (1 / 2) dLR dRL hLR hRL
      have l1 := chainLR_loss L (1 / 2) 0 _ c1
      have l2 := chainRL_loss L (1 / 2) (L - 1) _ c2
      simp only [ldtdvpD, h1, ↓reduceIte, Bool.false_eq_true, lossTotal_append]
      omega
    · obtain ⟨c1, _⟩ := ldtdvp_telescopes L hL2 1 dLR dRL hLR hRL
      have l1 := chainLR_loss L 1 0 _ c1
      simp only [ldtdvpD, h1, ↓reduceIte]
      omega

private theorem bugDown_loss (L : Nat) : ∀ s, lossTotal L (bugDown s) = 0 := by
  intro s; induction s with
  | zero => simp [bugDown, lossTotal]
  | succ s ih => simp [bugDown, lossTotal, lossCount, ih]

theorem bug_loss (L : Nat) : lossTotal L (bug L) ≤ 2 * L := by
  simp only [bug, lossTotal_append, bugDown_loss, lossTotal, lossCount]
  omega

private theorem lossTotal_flatten (L : Nat) : ∀ calls : List (List Op), (∀ c ∈ calls, lossTotal L c ≤ 2 * L) →
    lossTotal L calls.flatten ≤ calls.length * (2 * L) := by
  intro calls
  induction calls with
  | nil => intro _; simp [lossTotal]
  | cons c cs ih =>
    intro h
    have h1 := h c (by simp)
    have h2 := ih (fun c' hc' => h c' (by simp [hc']))
    simp only [List.flatten_cons, lossTotal_append, List.length_cons]
    have : (cs.length + 1) * (2 * L) = cs.length * (2 * L) + 2 * L := by ring
    omega

/-- **C05.4** (`norm_budget`) If every site/bond/pair primitive preserves the norm (Hermitian local generator —
    `krylov_isometry` of C19) and every truncating SVD discards at most `thr` (C09), then after `m` integrator
    calls, each with at most `2L` truncations (`ldtdvp_loss`, `bug_loss`), the squared norm that started at 1
    satisfies `1 − m·2L·thr ≤ ‖ψ‖² ≤ 1`. -/
theorem norm_budget (L : Nat) (thr : Rat) (hthr : 0 ≤ thr) (calls : List (List Op))
    (hcalls : ∀ c ∈ calls, lossTotal L c ≤ 2 * L) (y : Rat) (ht : NormTrace L thr calls.flatten 1 y) :
    1 - (calls.length : Rat) * (2 * L) * thr ≤ y ∧ y ≤ 1 := by
  obtain ⟨h1, h2⟩ := normTrace_bound L thr _ 1 y ht
  refine ⟨?_, h2⟩
  have hl := lossTotal_flatten L calls hcalls
  have hl' : (lossTotal L calls.flatten : Rat) ≤ (calls.length : Rat) * (2 * L) := by
    have : ((lossTotal L calls.flatten : Nat) : Rat) ≤ ((calls.length * (2 * L) : Nat) : Rat) := by exact_mod_cast hl
    simpa using this
  have := mul_le_mul_of_nonneg_right hl' hthr
  linarith

/-- **C05 (partial)** What is proved of the property for the default TDVP mode and for BUG, for every chain
    length, cap and sequence of bond dimensions seen: each call is `LR ++ RL` with both halves valid
    projector-splitting chains of half step ½ (consistency: every site's terms act for total time 1·dt), the call
    performs at most `2L` truncations, and any run of `m` such calls (or BUG calls) keeps
    `1 − m·2L·thr ≤ ‖ψ‖² ≤ 1`.  Missing for `c05_full`: the energy-drift bound and the convergence orders
    (dt² for TDVP, dt for BUG) — cited, measured by the oracle of the check. -/
theorem c05_partial (L maxBond : Nat) (hL : 2 ≤ L) (thr : Rat) (hthr : 0 ≤ thr)
    (seenLR seenRL : Nat → Nat → Nat)
    (hLR : ∀ k i, i < L → 1 ≤ seenLR k i) (hRL : ∀ k i, i < L → 1 ≤ seenRL k i)
    (hdLR : ∀ k, seenLR k (L - 1) = 1) (hdRL : ∀ k, seenRL k 0 = 1) (m : Nat) (y : Rat)
    (ht : NormTrace L thr ((List.range m).map (fun k => ldtdvp L maxBond (seenLR k) (seenRL k) false)).flatten 1 y) :
    (∀ k, ∃ lr rl, ldtdvp L maxBond (seenLR k) (seenRL k) false = lr ++ rl ∧
        ChainLR L (1 / 2) 0 lr ∧ ChainRL (1 / 2) (L - 1) rl ∧
        ∀ j, j < L → coverage j (ldtdvp L maxBond (seenLR k) (seenRL k) false) = 1) ∧
    (1 - (m : Rat) * (2 * L) * thr ≤ y ∧ y ≤ 1) := by
  constructor
  · intro k
    exact ldtdvp_telescopes_dims L maxBond hL (seenLR k) (seenRL k) (hLR k) (hRL k) (hdLR k) (hdRL k)
  · have hc : ∀ c ∈ (List.range m).map (fun k => ldtdvp L maxBond (seenLR k) (seenRL k) false),
        lossTotal L c ≤ 2 * L := by
      intro c hc
      obtain ⟨k, _, rfl⟩ := List.mem_map.mp hc
      exact ldtdvp_loss L (by omega) _ _ false
        (capped_realizable L maxBond (seenLR k) (L - 1) (hLR k) (hdLR k))
        (capped_realizable L maxBond (seenRL k) 0 (hRL k) (hdRL k))
    have := norm_budget L thr hthr _ hc y ht
    simpa using this

/-! ### non-vacuity: concrete instances -/

/-- L = 4, cap 2, bonds seen (1,2,1 | dummy 1) resp. (dummy 1 | 1,2,2): both branches occur in both halves -/
example : ldtdvp 4 2 (fun i => [1, 2, 1, 1].getD i 0) (fun i => [1, 1, 2, 2].getD i 0) false =
    [Op.pair 0 (1/2), Op.split 0 true, Op.site 1 (-1/2), Op.site 1 (1/2), Op.bond 1 (-1/2), Op.pair 2 (1/2),
     Op.split 2 true,
     Op.site 3 (1/2), Op.bond 2 (-1/2), Op.site 2 (1/2), Op.bond 1 (-1/2), Op.pair 0 (1/2), Op.split 0 false] := by
  decide +kernel

/-- the hypotheses of `ldtdvp_symmetric` are satisfiable with mixed decisions, and the reduced halves mirror -/
example : Realizable 4 (fun i => decide (i = 1)) 3 ∧ Realizable 4 (fun s => decide (s = 2)) 0 ∧
    (∀ s, 1 ≤ s → s < 4 → (fun s => decide (s = 2)) s = (fun i => decide (i = 1)) (s - 1)) ∧
    cancel (projOnly (ldtdvpRL 4 (fun s => decide (s = 2)) (1 / 2))) =
      [Op.pair 2 (1/2), Op.bond 1 (-1/2), Op.pair 0 (1/2)] := by
  refine ⟨?_, ?_, ?_, by decide +kernel⟩
  · intro h; simp at h
  · intro h; simp at h
  · intro s h1 h4
    have : s = 1 ∨ s = 2 ∨ s = 3 := by omega
    rcases this with rfl | rfl | rfl <;> decide

example : singleSite 3 false = [Op.site 0 (1/2), Op.bond 0 (-1/2), Op.site 1 (1/2), Op.bond 1 (-1/2), Op.site 2 1,
    Op.bond 1 (-1/2), Op.site 1 (1/2), Op.bond 0 (-1/2), Op.site 0 (1/2)] := by decide +kernel

example : bug 4 = [Op.site 3 1, Op.site 2 1, Op.site 1 1, Op.site 0 1, Op.trunc] := by decide +kernel

/-- a norm trace exists: two splits each losing exactly `thr` -/
example : NormTrace 3 (1 / 100) [Op.pair 0 (1/2), Op.split 0 true, Op.split 1 true] 1 (98 / 100) :=
  NormTrace.step _ _ 1 1 _ (by norm_num [lossCount]) (by norm_num)
    (NormTrace.step _ _ 1 (99 / 100) _ (by norm_num [lossCount]) (by norm_num)
      (NormTrace.step _ _ (99 / 100) (98 / 100) _ (by norm_num [lossCount]) (by norm_num) (NormTrace.nil _)))

end Yaqs.Sweep


/-!
# C05 extension (xe05) — exact norm and energy conservation of the TDVP primitives and of the one-site sweep

The theorems above prove the *schedule* of the sweeps and take "every primitive preserves the norm" as a hypothesis of
`norm_budget`; clause (b) of the property (energy) was only measured.  The theorems below turn that hypothesis into
theorems, in three layers:

1. `herm_flow_*`  — Mathlib's genuine matrix exponential: for a Hermitian `K` and real `t` (either sign) the map
   `U = exp(-(t·i)•K)` that `update_site` / `update_bond` apply (`expm_krylov(H_eff, v, t)`) is unitary and commutes with
   `K`: the local norm `v†v` and the local energy `v†Kv` are conserved by the local step exactly.
2. `energy_is_local_*`, `norm_is_local_*` — index model of `Model/Heff.lean` (the contraction order of
   `update_left_environment`, `update_right_environment`, `project_site`, `project_bond`): the number `⟨ψ|H|ψ⟩` of the whole
   chain equals the quadratic form of the local effective Hamiltonian of any one site, resp. of the bond matrix after a QR
   split; `⟨ψ|ψ⟩` (the same network for `MPO.identity`) equals `Σ|A|²` resp. `Σ|C|²` in mixed canonical form.
   `site_update_conserves_*`, `bond_update_conserves_*` combine 1 and 2 with C19's `heff_hermitian_chain`.
3. `one_site_sweep_conserves`, `two_site_sweep_drift`, `sweep_drift_abstract`, `ldtdvp_steps`, `ldtdvp_drift`,
   `norm_budget_discharged`, `c05_norm_discharged` — induction over the step list of
   `Model/Conserve.lean` (the op list of `Model/Sweep.lean` with the QR / contraction / merge steps written out; its
   erasure is the tied list) for an abstract system whose steps are assumed to act as in 1–2: exact conservation for the
   one-site integrator, drift ≤ (#splits)·thr for the two-site and the default dynamic integrator, and the norm-trace
   hypothesis of `norm_budget` / `c05_partial` becomes a theorem.

What remains a hypothesis (said again at each theorem): that the Krylov exponential is exact (`expm_krylov` returns
`exp(-i·t·H_eff) v` — C19: exact on an invariant subspace, otherwise within `tol = 1e-12`, cited bound), that floating-point
rounding is absent, and — for the abstract sweep theorems — that the concrete MPS operations realise the abstract steps
(each such assumption names the theorem that discharges it for the concrete objects).
-/

namespace Yaqs.Conserve

open Matrix

/-- **C05.5 `herm_flow_unitary`** (clause "keeps the state normalised", local step).  For a Hermitian matrix `K` (the dense
    effective Hamiltonian — Hermitian by C19's `heff_hermitian_chain` / `heff_bond_hermitian_chain`) and every real `t`
    — `+dt/2` of the forward site step, `-dt/2` of the backward bond step — `U = exp(-(t·i)•K)` satisfies `Uᴴ U = 1 = U Uᴴ`
    and therefore `‖U v‖² = ‖v‖²` for every vector.  Hypothesis left: `expm_krylov` returns `U v` (C19). -/
theorem herm_flow_unitary {n : Type*} [Fintype n] [DecidableEq n] (K : Matrix n n ℂ) (hK : Kᴴ = K) (t : ℝ) :
    (NormedSpace.exp (-((t : ℂ) * Complex.I) • K))ᴴ * NormedSpace.exp (-((t : ℂ) * Complex.I) • K) = 1 ∧
    NormedSpace.exp (-((t : ℂ) * Complex.I) • K) * (NormedSpace.exp (-((t : ℂ) * Complex.I) • K))ᴴ = 1 ∧
    ∀ v : n → ℂ, star (NormedSpace.exp (-((t : ℂ) * Complex.I) • K) *ᵥ v) ⬝ᵥ
      (NormedSpace.exp (-((t : ℂ) * Complex.I) • K) *ᵥ v) = star v ⬝ᵥ v := by
  refine ⟨flow_unitary K hK t, flow_unitary' K hK t, fun v => ?_⟩
  have h := normSq_mulVec (flow K t) v
  rw [flow_unitary K hK t, Matrix.one_mulVec] at h
  exact h

/-- **C05.6 `herm_flow_energy`** (clause "energy expectation constant", local step).  Same `U`: `K` commutes with its own
    exponential, so `Uᴴ K U = K` and `⟨U v, K U v⟩ = ⟨v, K v⟩` for every vector — the local energy is conserved by the
    local step exactly, for either sign of `t`. -/
theorem herm_flow_energy {n : Type*} [Fintype n] [DecidableEq n] (K : Matrix n n ℂ) (hK : Kᴴ = K) (t : ℝ) :
    (NormedSpace.exp (-((t : ℂ) * Complex.I) • K))ᴴ * K * NormedSpace.exp (-((t : ℂ) * Complex.I) • K) = K ∧
    ∀ v : n → ℂ, star (NormedSpace.exp (-((t : ℂ) * Complex.I) • K) *ᵥ v) ⬝ᵥ
      (K *ᵥ (NormedSpace.exp (-((t : ℂ) * Complex.I) • K) *ᵥ v)) = star v ⬝ᵥ (K *ᵥ v) := by
  refine ⟨flow_conj_gen K hK t, fun v => ?_⟩
  have h := quad_mulVec (flow K t) K v
  rw [flow_conj_gen K hK t] at h
  exact h

/-- **C05.7 `herm_flow_inverse`** the backward step undoes the forward step with the same generator (any `K`, Hermitian or
    not): `exp(-(-t·i)•K) · exp(-(t·i)•K) = 1` and `exp(-((s+t)·i)•K) = exp(-(s·i)•K) · exp(-(t·i)•K)`.  This is the fact
    behind `cancel` in `ldtdvp_symmetric` (a backward site step immediately followed by the forward step on the same site
    with the same environments is the identity map). -/
theorem herm_flow_inverse {n : Type*} [Fintype n] [DecidableEq n] (K : Matrix n n ℂ) (s t : ℝ) :
    NormedSpace.exp (-(((s + t : ℝ) : ℂ) * Complex.I) • K) =
      NormedSpace.exp (-((s : ℂ) * Complex.I) • K) * NormedSpace.exp (-((t : ℂ) * Complex.I) • K) ∧
    NormedSpace.exp (-(((-t : ℝ) : ℂ) * Complex.I) • K) * NormedSpace.exp (-((t : ℂ) * Complex.I) • K) = 1 := by
  refine ⟨flow_add K s t, ?_⟩
  have h := flow_add K (-t) t
  rw [neg_add_cancel, flow_zero] at h
  exact h.symm

/-- non-vacuity: Pauli `Y` is Hermitian, genuinely complex and not diagonal -/
example : (!![0, -Complex.I; Complex.I, 0] : Matrix (Fin 2) (Fin 2) ℂ)ᴴ = !![0, -Complex.I; Complex.I, 0] := by
  ext i j; fin_cases i <;> fin_cases j <;> simp

end Yaqs.Conserve

namespace Yaqs.Heff

open Finset Matrix Yaqs.Conserve

/-- **C05.8 `energy_is_local_site`** (index model of `Model/Heff.lean`).  For a chain `ls ++ s :: rs` of any length with
    matching bond dimensions, `⟨ψ|H|ψ⟩` — the whole chain absorbed site by site by `update_right_environment` into the
    identity boundary block and paired with the identity block on the left (`totalE`; the same number for every cut,
    C19's `env_update_assoc`) — equals
    (i) the network cut to the left of `s` and (ii) to the right of `s` (blocks built by `update_left_environment` over `ls`
        resp. `ls ++ [s]`, by `initialize_right_environments` over `s :: rs` resp. `rs`),
    (iii) `Σ conj(A_s)·project_site(L, R, W_s, A_s)` with `L`, `R` the environments of the rest of the chain, and
    (iv) the quadratic form of `build_dense_heff_site(L, R, W_s)` on `A_s.reshape(-1)`.
    `cj` is any function (complex conjugation in the code); nothing is assumed about the MPO. -/
theorem energy_is_local_site {K : Type*} [CommSemiring K] (cj : K → K) (ls : List (Site K)) (s : Site K)
    (rs : List (Site K)) (hd : ChainDims (ls ++ s :: rs)) :
    totalE cj (ls ++ s :: rs) =
      pair3 s.d.a s.d.l s.d.aa (leftEnvChain cj idEnv ls) (rightEnvChain cj idEnv (s :: rs)) ∧
    totalE cj (ls ++ s :: rs) =
      pair3 s.d.b s.d.r s.d.bb (leftEnvChain cj idEnv (ls ++ [s])) (rightEnvChain cj idEnv rs) ∧
    totalE cj (ls ++ s :: rs) =
      braket3 cj s.d.o s.d.aa s.d.bb s.ket
        (projectSite s.d (leftEnvChain cj idEnv ls) (rightEnvChain cj idEnv rs) s.W s.ket) ∧
    totalE cj (ls ++ s :: rs) =
      ∑ row ∈ range (s.d.o * s.d.aa * s.d.bb), cj (flattenT3 s.d.aa s.d.bb s.ket row) *
        matVec (s.d.p * s.d.a * s.d.b)
          (denseHeffSite s.d (leftEnvChain cj idEnv ls) (rightEnvChain cj idEnv rs) s.W)
          (flattenT3 s.d.a s.d.b s.ket) row := by
  refine ⟨cutLeft_eq_cut_left cj ls s rs hd _ _, cutLeft_eq_cut_right cj ls s rs hd _ _,
    cutLeft_eq_local_site cj ls s rs hd _ _, ?_⟩
  rw [← local_site_eq_dense]
  exact cutLeft_eq_local_site cj ls s rs hd _ _

/-- **C05.9 `energy_is_local_bond`** the zero-site problem.  Left-to-right: the updated site tensor is factored as `Q·C`
    (`np.linalg.qr`), the left block absorbs `Q` alone (`left_blocks[i+1] = update_left_environment(Q, Q, W_i, left_blocks[i])`);
    then `⟨ψ|H|ψ⟩ = Σ conj(C)·project_bond(left_blocks[i+1], right_blocks[i], C)` = the quadratic form of
    `build_dense_heff_bond` on `C.reshape(-1)`.  Right-to-left: the mirror image with `C·Q`. -/
theorem energy_is_local_bond {K : Type*} [CommSemiring K] [StarRing K] (ls : List (Site K)) (s : Site K)
    (rs : List (Site K)) (hd : ChainDims (ls ++ s :: rs)) (k : ℕ) (Q : ℕ → ℕ → ℕ → K) (C : ℕ → ℕ → K) :
    (s.ket = mulC k Q C →
      totalE star (ls ++ s :: rs) =
        braket2 star k s.d.bb C (projectBond ⟨k, s.d.b, s.d.r, k, s.d.bb⟩
          (leftEnvChain star idEnv (ls ++ [⟨s.d, Q, s.W⟩])) (rightEnvChain star idEnv rs) C) ∧
      totalE star (ls ++ s :: rs) =
        ∑ row ∈ range (k * s.d.bb), star (flattenT2 s.d.bb C row) *
          matVec (k * s.d.b) (denseHeffBond ⟨k, s.d.b, s.d.r, k, s.d.bb⟩
            (leftEnvChain star idEnv (ls ++ [⟨s.d, Q, s.W⟩])) (rightEnvChain star idEnv rs))
            (flattenT2 s.d.b C) row) ∧
    (s.ket = Cmul k C Q →
      totalE star (ls ++ s :: rs) =
        braket2 star s.d.aa k C (projectBond ⟨s.d.a, k, s.d.l, s.d.aa, k⟩
          (leftEnvChain star idEnv ls) (rightEnvChain star idEnv (⟨s.d, Q, s.W⟩ :: rs)) C)) := by
  refine ⟨fun hs => ⟨cutLeft_eq_local_bond_lr ls s rs hd _ _ k Q C hs, ?_⟩,
    fun hs => cutLeft_eq_local_bond_rl ls s rs hd _ _ k Q C hs⟩
  have h := local_bond_eq_dense star ⟨k, s.d.b, s.d.r, k, s.d.bb⟩
    (leftEnvChain star idEnv (ls ++ [⟨s.d, Q, s.W⟩])) (rightEnvChain star idEnv rs) C C
  rw [← h]
  exact cutLeft_eq_local_bond_lr ls s rs hd _ _ k Q C hs

/-- **C05.10 `norm_is_local`** `⟨ψ|ψ⟩` is the same network for `MPO.identity` (`W[o,p,0,0] = δ_{op}`, MPO bonds 1).  If the
    sites left of `s` have orthonormal columns and the sites right of `s` orthonormal rows (mixed canonical form — what
    `MPS.normalize("B")` and the QR steps of the sweep establish, C10.11), both environments are identities and
    `⟨ψ|ψ⟩ = Σ |A_s|²`; with `s = Q·C` and `Q` (shape `(p, a, k)`, any `k` — `k = min(p·a, b)` for `np.linalg.qr`) left-isometric,
    `⟨ψ|ψ⟩ = Σ |C|²`. -/
theorem norm_is_local {K : Type*} [CommSemiring K] [StarRing K] (n0 n1 : ℕ) (ls : List (Site K)) (s : Site K)
    (rs : List (Site K)) (hd : ChainDims (ls ++ s :: rs)) (hs : IdSite s)
    (hr : RightCanon star n1 rs) (hrb : RightCanon.inDim n1 rs = s.d.b) :
    (LeftCanon star n0 ls → outDim n0 ls = s.d.a →
      totalE star (ls ++ s :: rs) = braket3 star s.d.o s.d.aa s.d.bb s.ket s.ket) ∧
    (∀ (k : ℕ) (Q : ℕ → ℕ → ℕ → K) (C : ℕ → ℕ → K), s.ket = mulC k Q C →
      LeftCanon star n0 (ls ++ [⟨{ s.d with b := k, bb := k }, Q, s.W⟩]) →
      totalE star (ls ++ s :: rs) = braket2 star k s.d.bb C C) := by
  constructor
  · intro hl hla
    exact norm_local_site star n0 n1 ls s rs hd hs hl hla hr hrb _ _ (isIdEnv_idEnv n0) (isIdEnv_idEnv n1)
  · intro k Q C hk hl
    unfold totalE
    rw [cutLeft_eq_local_bond_lr ls s rs hd _ _ k Q C hk]
    obtain ⟨_, _, hb, _, hr1, _⟩ := hs
    have hL := leftEnvChain_isId star n0 _ hl idEnv (isIdEnv_idEnv n0)
    have hR := rightEnvChain_isId star n1 rs hr idEnv (isIdEnv_idEnv n1)
    rw [outDim_append_singleton] at hL
    rw [hrb] at hR
    -- the left block does not depend on the right bond dimension recorded with the site
    have hLL : leftEnvChain star idEnv (ls ++ [⟨{ s.d with b := k, bb := k }, Q, s.W⟩]) =
        leftEnvChain star idEnv (ls ++ [⟨s.d, Q, s.W⟩]) := by
      rw [leftEnvChain_append, leftEnvChain_append]
      rfl
    rw [hLL] at hL
    unfold braket2
    refine Finset.sum_congr rfl fun p hp => Finset.sum_congr rfl fun w hw => ?_
    rw [projectBond_id ⟨k, s.d.b, s.d.r, k, s.d.bb⟩ hr1 rfl hb _ _ hL hR C p w (Finset.mem_range.mp hp)
      (Finset.mem_range.mp hw)]

/-- **C05.11 `site_update_conserves_energy`** (the site primitive, concrete objects).  Chain over ℂ whose MPO tensors are
    Hermitian up to bond gauges (C19's `ChainHerm`: what `MPO.ising`, `heisenberg`, `from_pauli_sum` produce for real
    coefficients), environments as the sweep builds them.  If the new tensor of site `s` is the exact flow
    `exp(-(t·i)•H_eff)` of the dense effective Hamiltonian applied to the old one — what `update_site(L, R, W_s, A_s, t)`
    returns when the Krylov exponential is exact — then `⟨ψ|H|ψ⟩` of the whole chain is unchanged.  Either sign of `t`. -/
theorem site_update_conserves_energy (g : BondGauge ℂ) (hg : ∀ k, GaugeInv (g.bd k) (g.G k) (g.Gi k))
    (ls rs : List (Site ℂ)) (s : Site ℂ) (hd : ChainDims (ls ++ s :: rs))
    (hchain : ChainHerm g 0 (ls ++ s :: rs))
    (hb0 : ∀ l, l < g.bd 0 → ∑ l' ∈ range (g.bd 0), g.Gi 0 l' l = 1)
    (hbn : ∀ r, r < g.bd (ls.length + 1 + rs.length) →
      ∑ r' ∈ range (g.bd (ls.length + 1 + rs.length)), g.G (ls.length + 1 + rs.length) r r' = 1)
    (t : ℝ) (A' : ℕ → ℕ → ℕ → ℂ)
    (hstep : finVec (s.d.p * s.d.a * s.d.b) (flattenT3 s.d.a s.d.b A') =
      NormedSpace.exp (-((t : ℂ) * Complex.I) • finMat (s.d.p * s.d.a * s.d.b)
        (denseHeffSite s.d (leftEnvChain star idEnv ls) (rightEnvChain star idEnv rs) s.W)) *ᵥ
        finVec (s.d.p * s.d.a * s.d.b) (flattenT3 s.d.a s.d.b s.ket)) :
    totalE star (ls ++ ⟨s.d, A', s.W⟩ :: rs) = totalE star (ls ++ s :: rs) := by
  have hs : HermSiteG g (0 + ls.length) s := ((chainHerm_append g ls (s :: rs) 0).mp hchain).2.1
  obtain ⟨hop, ha, hb, _, _, _⟩ := hs
  unfold totalE
  rw [cutLeft_eq_local_site star ls ⟨s.d, A', s.W⟩ rs (chainDims_replace ls s _ rs rfl hd),
    cutLeft_eq_local_site star ls s rs hd]
  exact site_step_energy s.d hop ha.symm hb.symm _ _ s.W
    (heff_hermitian_chain g hg ls rs s hchain hb0 hbn) t s.ket A' hstep

/-- **C05.12 `site_update_conserves_norm`** in mixed canonical form with the centre at `s`, any unitary map of the
    flattened centre tensor — in particular the flow of C05.5 — leaves `⟨ψ|ψ⟩` of the whole chain unchanged. -/
theorem site_update_conserves_norm (n0 n1 : ℕ) (ls rs : List (Site ℂ)) (s : Site ℂ)
    (hd : ChainDims (ls ++ s :: rs)) (hs : IdSite s)
    (hl : LeftCanon star n0 ls) (hla : outDim n0 ls = s.d.a)
    (hr : RightCanon star n1 rs) (hrb : RightCanon.inDim n1 rs = s.d.b)
    (U : Matrix (Fin (s.d.p * s.d.a * s.d.b)) (Fin (s.d.p * s.d.a * s.d.b)) ℂ) (hU : Uᴴ * U = 1)
    (A' : ℕ → ℕ → ℕ → ℂ)
    (hstep : finVec (s.d.p * s.d.a * s.d.b) (flattenT3 s.d.a s.d.b A') =
      U *ᵥ finVec (s.d.p * s.d.a * s.d.b) (flattenT3 s.d.a s.d.b s.ket)) :
    totalE star (ls ++ ⟨s.d, A', s.W⟩ :: rs) = totalE star (ls ++ s :: rs) := by
  have h1 := (norm_is_local n0 n1 ls s rs hd hs hr hrb).1 hl hla
  have h2 := (norm_is_local n0 n1 ls ⟨s.d, A', s.W⟩ rs (chainDims_replace ls s _ rs rfl hd) hs hr hrb).1 hl hla
  rw [h1, h2]
  obtain ⟨hop, ha, hb, _, _, _⟩ := hs
  exact site_step_norm s.d hop ha.symm hb.symm U hU s.ket A' hstep

/-- **C05.13 `bond_update_conserves_energy`** (the bond primitive of the left-to-right sweep, concrete objects).  Site `s`
    holds `Q·C` (`sQ` is the same site carrying `Q` alone, `s'` the same site carrying `Q·C'`); the new bond matrix `C'` is
    the exact flow of `build_dense_heff_bond(left_blocks[i+1], right_blocks[i])` applied to `C` — what
    `update_bond(…, C, t)` returns when the Krylov exponential is exact; `t = -dt/2` in the sweep, any real `t` here.  Then
    `⟨ψ|H|ψ⟩` of the chain with `Q·C'` equals that with `Q·C`. -/
theorem bond_update_conserves_energy (ls rs : List (Site ℂ)) (s sQ s' : Site ℂ) (hd : ChainDims (ls ++ s :: rs))
    (k : ℕ) (Q : ℕ → ℕ → ℕ → ℂ) (C C' : ℕ → ℕ → ℂ) (hs : s.ket = mulC k Q C)
    (hsQ : sQ = ⟨s.d, Q, s.W⟩) (hs' : s' = ⟨s.d, mulC k Q C', s.W⟩) (hsq : s.d.bb = s.d.b)
    (g : BondGauge ℂ) (hg : ∀ j, GaugeInv (g.bd j) (g.G j) (g.Gi j))
    (hchain : ChainHerm g 0 ((ls ++ [sQ]) ++ rs)) (hm : s.d.r = g.bd (ls ++ [sQ]).length)
    (hb0 : ∀ l, l < g.bd 0 → ∑ l' ∈ range (g.bd 0), g.Gi 0 l' l = 1)
    (hbn : ∀ r, r < g.bd ((ls ++ [sQ]).length + rs.length) →
      ∑ r' ∈ range (g.bd ((ls ++ [sQ]).length + rs.length)), g.G ((ls ++ [sQ]).length + rs.length) r r' = 1)
    (t : ℝ)
    (hstep : finVec (k * s.d.b) (flattenT2 s.d.b C') =
      NormedSpace.exp (-((t : ℂ) * Complex.I) • finMat (k * s.d.b)
        (denseHeffBond ⟨k, s.d.b, s.d.r, k, s.d.bb⟩ (leftEnvChain star idEnv (ls ++ [sQ]))
          (rightEnvChain star idEnv rs))) *ᵥ finVec (k * s.d.b) (flattenT2 s.d.b C)) :
    totalE star (ls ++ s' :: rs) = totalE star (ls ++ s :: rs) := by
  subst hsQ hs'
  have hdd := chainDims_replace ls s ⟨s.d, mulC k Q C', s.W⟩ rs rfl hd
  unfold totalE
  rw [cutLeft_eq_local_bond_lr ls _ rs hdd _ _ k Q C' rfl, cutLeft_eq_local_bond_lr ls s rs hd _ _ k Q C hs]
  have hH := heff_bond_hermitian_chain g hg (ls ++ [⟨s.d, Q, s.W⟩]) rs ⟨k, s.d.b, s.d.r, k, s.d.bb⟩ hsq.symm hm
    hchain hb0 hbn
  have key := bond_step_energy (⟨k, s.d.b, s.d.r, k, s.d.bb⟩ : BondDims) rfl hsq _ _ hH t C C'
  dsimp only at key
  exact key hstep

/-- **C05.13b `bond_update_conserves_norm`** on the norm network (identity MPO, `Q` and everything left of it
    left-isometric, everything right of it right-isometric) any unitary map of the bond matrix `C` — in particular the flow
    of C05.5 for the Hermitian `build_dense_heff_bond` of the real Hamiltonian — keeps `⟨ψ|ψ⟩`. -/
theorem bond_update_conserves_norm (ls rs : List (Site ℂ)) (s s' : Site ℂ) (hd : ChainDims (ls ++ s :: rs))
    (k : ℕ) (Q : ℕ → ℕ → ℕ → ℂ) (C C' : ℕ → ℕ → ℂ) (hs : s.ket = mulC k Q C)
    (hs' : s' = ⟨s.d, mulC k Q C', s.W⟩)
    (n0 n1 : ℕ) (hid : IdSite s) (hr : RightCanon star n1 rs) (hrb : RightCanon.inDim n1 rs = s.d.b)
    (hl : LeftCanon star n0 (ls ++ [⟨{ s.d with b := k, bb := k }, Q, s.W⟩]))
    (U : Matrix (Fin (k * s.d.b)) (Fin (k * s.d.b)) ℂ) (hU : Uᴴ * U = 1)
    (hstep : finVec (k * s.d.b) (flattenT2 s.d.b C') = U *ᵥ finVec (k * s.d.b) (flattenT2 s.d.b C)) :
    totalE star (ls ++ s' :: rs) = totalE star (ls ++ s :: rs) := by
  subst hs'
  have hdd := chainDims_replace ls s ⟨s.d, mulC k Q C', s.W⟩ rs rfl hd
  have h1 := (norm_is_local n0 n1 ls s rs hd hid hr hrb).2 k Q C hs hl
  have h2 := (norm_is_local n0 n1 ls ⟨s.d, mulC k Q C', s.W⟩ rs hdd hid hr hrb).2 k Q C' rfl hl
  rw [h1, h2]
  have key := bond_step_norm (⟨k, s.d.b, s.d.r, k, s.d.bb⟩ : BondDims) rfl hid.2.2.1.symm
  dsimp only at key
  exact key U hU C C' hstep

/-- **C05.13c `bond_update_conserves_energy_rl`** the bond primitive of the right-to-left sweep: site `s` holds `C·Q`
    (QR of the transposed tensor), `right_blocks[i-1] = update_right_environment(Q, Q, W_i, right_blocks[i])`, and
    `update_bond(left_blocks[i], right_blocks[i-1], C, t)` returns the exact flow of the dense bond Hamiltonian: `⟨ψ|H|ψ⟩` of
    the chain with `C'·Q` equals that with `C·Q`. -/
theorem bond_update_conserves_energy_rl (ls rs : List (Site ℂ)) (s sQ s' : Site ℂ) (hd : ChainDims (ls ++ s :: rs))
    (k : ℕ) (Q : ℕ → ℕ → ℕ → ℂ) (C C' : ℕ → ℕ → ℂ) (hs : s.ket = Cmul k C Q)
    (hsQ : sQ = ⟨s.d, Q, s.W⟩) (hs' : s' = ⟨s.d, Cmul k C' Q, s.W⟩) (hsq : s.d.aa = s.d.a)
    (g : BondGauge ℂ) (hg : ∀ j, GaugeInv (g.bd j) (g.G j) (g.Gi j))
    (hchain : ChainHerm g 0 (ls ++ sQ :: rs)) (hm : s.d.l = g.bd ls.length)
    (hb0 : ∀ l, l < g.bd 0 → ∑ l' ∈ range (g.bd 0), g.Gi 0 l' l = 1)
    (hbn : ∀ r, r < g.bd (ls.length + (sQ :: rs).length) →
      ∑ r' ∈ range (g.bd (ls.length + (sQ :: rs).length)), g.G (ls.length + (sQ :: rs).length) r r' = 1)
    (t : ℝ)
    (hstep : finVec (s.d.a * k) (flattenT2 k C') =
      NormedSpace.exp (-((t : ℂ) * Complex.I) • finMat (s.d.a * k)
        (denseHeffBond ⟨s.d.a, k, s.d.l, s.d.aa, k⟩ (leftEnvChain star idEnv ls)
          (rightEnvChain star idEnv (sQ :: rs)))) *ᵥ finVec (s.d.a * k) (flattenT2 k C)) :
    totalE star (ls ++ s' :: rs) = totalE star (ls ++ s :: rs) := by
  subst hsQ hs'
  have hdd := chainDims_replace ls s ⟨s.d, Cmul k C' Q, s.W⟩ rs rfl hd
  unfold totalE
  rw [cutLeft_eq_local_bond_rl ls _ rs hdd _ _ k Q C' rfl, cutLeft_eq_local_bond_rl ls s rs hd _ _ k Q C hs]
  have hH := heff_bond_hermitian_chain g hg ls (⟨s.d, Q, s.W⟩ :: rs) ⟨s.d.a, k, s.d.l, s.d.aa, k⟩ rfl hm
    hchain hb0 hbn
  have key := bond_step_energy (⟨s.d.a, k, s.d.l, s.d.aa, k⟩ : BondDims) hsq rfl _ _ hH t C C'
  dsimp only at key
  exact key hstep

/-- non-vacuity (`energy_is_local_site`, `energy_is_local_bond`): a two-site chain over ℚ(i) with bonds 1–2–1 and a
    non-Hermitian-looking complex MPO; the whole-chain value is non-zero and equals the local form at site 0 and site 1 -/
example :
    let s1 : Site CRat := ⟨⟨2, 2, 1, 1, 2, 2, 1, 2⟩, fun p a b => ⟨(p + b + 1 : ℕ), (a + b : ℕ)⟩,
      fun o p _ r => ⟨(o + p + r : ℕ), (o : ℤ) - p⟩⟩
    let s2 : Site CRat := ⟨⟨2, 2, 2, 2, 1, 1, 2, 1⟩, fun p a b => ⟨(p + 2 * a : ℕ), (1 + b : ℕ)⟩,
      fun o p l _ => ⟨(o + p + l : ℕ), (p : ℤ) - o⟩⟩
    ChainDims ([] ++ s1 :: [s2]) ∧ ChainDims ([s1] ++ s2 :: []) ∧ totalE CRat.conj [s1, s2] ≠ 0 := by
  intro s1 s2
  refine ⟨⟨rfl, rfl, rfl, trivial⟩, ⟨rfl, rfl, rfl, trivial⟩, ?_⟩
  decide +kernel

/-- non-vacuity (`norm_is_local`, `site_update_conserves_norm`): a product-state norm chain `|0⟩|+⟩·√2` with identity MPO
    is left- and right-canonical around its first site -/
example :
    let s2 : Site CRat := ⟨⟨2, 2, 1, 1, 1, 1, 1, 1⟩, fun p _ _ => if p = 0 then 1 else 0, idOp⟩
    IdSite s2 ∧ RightCanon CRat.conj 1 [s2] ∧ LeftCanon CRat.conj 1 [s2] := by
  intro s2
  refine ⟨⟨rfl, rfl, rfl, rfl, rfl, rfl⟩, ⟨rfl, ⟨rfl, rfl, rfl, rfl, rfl, rfl⟩, ?_, trivial⟩,
    ⟨rfl, ⟨rfl, rfl, rfl, rfl, rfl, rfl⟩, ?_, trivial⟩⟩
  · intro a A' ha hA
    have h1 : a = 0 := by change a < 1 at ha; omega
    have h2 : A' = 0 := by change A' < 1 at hA; omega
    subst h1 h2
    decide +kernel
  · intro b B hb hB
    have h1 : b = 0 := by change b < 1 at hb; omega
    have h2 : B = 0 := by change B < 1 at hB; omega
    subst h1 h2
    decide +kernel

end Yaqs.Heff

namespace Yaqs.Sweep

/-- **C05.14 `full_steps_erase_to_trace`** the step lists of `Model/Conserve.lean` (primitives *and* the QR / contraction /
    merge statements between them) erase to exactly the primitive lists of `Model/Sweep.lean` that the correspondence
    check compares with the real call trace — for every chain length, analog and digital. -/
theorem full_steps_erase_to_trace (L : Nat) (digital : Bool) :
    prims (singleSiteFull L digital) = singleSite L digital ∧
    (twoSiteFull L digital).map prims = twoSite L digital := by
  constructor
  · cases digital <;>
      simp [singleSiteFull, singleSite, prims_append, prims_ssLRFull L, prims_ssRLFull, prims]
  · unfold twoSiteFull twoSite
    by_cases h : L < 2
    · simp [h]
    · cases digital <;> simp [h, prims_append, prims_tsLRFull, prims_tsRLFull, prims]

/-- **C05.15 `fixed_sweeps_keep_centre`** every primitive of `single_site_tdvp` and `two_site_tdvp` acts on the tensor that
    is the orthogonality centre at that moment, for every chain length: starting with the centre at site 0 (what
    `MPS.normalize("B")` leaves), the QR of the updated site moves the centre onto the bond before `update_bond`, the
    contraction moves it onto the next site before `update_site`, a split puts it on the side the singular values went to
    (`"right"` going right, `"left"` going left), and the analog call returns it to site 0 (the digital single sweep leaves
    it at site `L-1`).  `single_site_tdvp` contains no truncating step; `two_site_tdvp` contains `2L-3` splits. -/
theorem fixed_sweeps_keep_centre (L : Nat) (_hL : 1 ≤ L) :
    walkAll (.site 0) (singleSiteFull L false) = some (.site 0) ∧
    walkAll (.site 0) (singleSiteFull L true) = some (.site (L - 1)) ∧
    (∀ d, ∀ st ∈ singleSiteFull L d, st.lossless = true) ∧
    (2 ≤ L → ∃ steps, twoSiteFull L false = some steps ∧ walkAll (.site 0) steps = some (.site 0) ∧
      lossTotal L (prims steps) = 2 * L - 3) := by
  have hss : ∀ h : Rat, walkAll (.site 0) (ssLRFull h (L - 1) 0 ++ [.prim (.site (L - 1) 1)]) = some (.site (L - 1)) := by
    intro h
    rw [walkAll_append, walk_ssLRFull]
    simp [walkAll, walk]
  refine ⟨?_, ?_, ?_, ?_⟩
  · simp only [singleSiteFull, Bool.false_eq_true, if_false]
    rw [walkAll_append, hss]
    exact walk_ssRLFull _ _
  · simp only [singleSiteFull, if_true]
    exact hss 1
  · intro d st hst
    cases d
    · simp only [singleSiteFull, Bool.false_eq_true, if_false, List.mem_append, List.mem_singleton] at hst
      rcases hst with (hst | rfl) | hst
      · exact lossless_ssLRFull _ _ _ st hst
      · rfl
      · exact lossless_ssRLFull _ _ st hst
    · simp only [singleSiteFull, if_true, List.mem_append, List.mem_singleton] at hst
      rcases hst with hst | rfl
      · exact lossless_ssLRFull _ _ _ st hst
      · rfl
  · intro h2
    have hlt : ¬ L < 2 := by omega
    refine ⟨tsLRFull (1 / 2) (L - 2) 0 ++ [.merge (L - 2), .prim (.pair (L - 2) 1), .prim (.split (L - 2) false)] ++
      tsRLFull (1 / 2) (L - 2), by simp only [twoSiteFull, hlt, if_false, Bool.false_eq_true], ?_, ?_⟩
    · rw [walkAll_append, walkAll_append, walk_tsLRFull]
      have e : 0 + (L - 2) = L - 2 := by omega
      simp only [e, Option.bind_some, walkAll, walk, true_or, if_true, Bool.false_eq_true, if_false]
      exact walk_tsRLFull _ _
    · simp only [prims_append, prims_tsLRFull, prims_tsRLFull, prims, lossTotal_append, lossTotal_tsLR, lossTotal_tsRL,
        lossTotal, lossCount]
      omega

/-- **C05.16 `one_site_sweep_conserves`** (clauses "keeps the state normalised" and "energy expectation constant", one-site
    integrator, exact).  Abstract system: a state space with an energy `E`, a squared norm `N`, a canonical-centre
    predicate and an action for every step.  Hypothesis `Sound`: each step other than a truncating split, *applied where
    the centre is*, keeps `E` and `N` and leaves the centre where `walk` says.  It is discharged for the concrete objects by
      · `prim (site i t)`  — `site_update_conserves_energy`, `site_update_conserves_norm` (C05.11–12, from `herm_flow_*`,
        `energy_is_local_site`, `norm_is_local`, C19 `heff_hermitian_chain`),
      · `prim (bond b t)`  — `bond_update_conserves` (C05.13),
      · `qrRight / qrLeft / absorbRight / absorbLeft / merge` — gauge moves: the represented vector is unchanged
        (C10 `c10_shift_right_QR`, `c10_shift_left_explicit`; the moved-over site is isometric afterwards, C10.10),
    and remains a hypothesis only in that the Krylov exponential is taken to be exact (C19) and rounding is ignored.
    Conclusion, for every chain length `L ≥ 1`, every number `m` of calls and every start state with the centre at site 0:
    after `m` calls of `single_site_tdvp` energy and norm are *equal* to their initial values, and the centre is back at
    site 0.  (The threshold never enters: the one-site integrator has no truncating step.) -/
theorem one_site_sweep_conserves {σ R : Type*} [Field R] [LinearOrder R] [IsStrictOrderedRing R]
    (S : TdvpSys σ R) (thr eps : R) (hS : S.Sound thr eps) (L : Nat) (hL : 1 ≤ L) (m : Nat) (x : σ)
    (hx : S.ctr x (.site 0)) :
    S.E ((S.run (singleSiteFull L false))^[m] x) = S.E x ∧ S.N ((S.run (singleSiteFull L false))^[m] x) = S.N x ∧
    S.ctr ((S.run (singleSiteFull L false))^[m] x) (.site 0) := by
  obtain ⟨hw, _, hl, _⟩ := fixed_sweeps_keep_centre L hL
  induction m generalizing x with
  | zero => exact ⟨rfl, rfl, hx⟩
  | succ m ih =>
    obtain ⟨e1, n1, k1⟩ := run_exact S thr eps hS _ (hl false) _ _ hw x hx
    obtain ⟨e2, n2, k2⟩ := ih (S.run (singleSiteFull L false) x) k1
    simp only [Function.iterate_succ, Function.comp_apply]
    exact ⟨e2.trans e1, n2.trans n1, k2⟩

/-- **C05.17 `two_site_sweep_drift`** the honest version for the two-site integrator: the pair update conserves exactly
    (it is a site update of the merged tensor: same hypotheses as above), a truncating split lowers the squared norm by
    exactly the discarded weight (`c09_split_error`) which the rank rule keeps `≤ thr` (C09.1), and moves the energy by at
    most `eps` (for a bounded `H`: `eps ≤ ‖H‖(2√thr + thr)`).  So one analog call of `two_site_tdvp` on `L ≥ 2` sites, which
    contains exactly `2L-3` splits, satisfies `N - (2L-3)·thr ≤ N' ≤ N` and `|E' - E| ≤ (2L-3)·eps`, and returns the
    centre to site 0. -/
theorem two_site_sweep_drift {σ R : Type*} [Field R] [LinearOrder R] [IsStrictOrderedRing R]
    (S : TdvpSys σ R) (thr eps : R) (hS : S.Sound thr eps) (L : Nat) (hL : 2 ≤ L) (x : σ)
    (hx : S.ctr x (.site 0)) :
    ∃ steps, twoSiteFull L false = some steps ∧ S.ctr (S.run steps x) (.site 0) ∧
      S.N x - ((2 * L - 3 : Nat) : R) * thr ≤ S.N (S.run steps x) ∧ S.N (S.run steps x) ≤ S.N x ∧
      |S.E (S.run steps x) - S.E x| ≤ ((2 * L - 3 : Nat) : R) * eps := by
  obtain ⟨_, _, _, h2⟩ := fixed_sweeps_keep_centre L (by omega)
  obtain ⟨steps, hs, hw, hloss⟩ := h2 hL
  have := run_drift S thr eps hS L steps _ _ hw x hx
  rw [hloss] at this
  exact ⟨steps, hs, this⟩

/-- **C05.18 `sweep_drift_abstract`** the same induction for *any* step list whose centre walk succeeds — in particular for
    the mixed one-site / two-site lists of `local_dynamic_tdvp` with their gauge steps written out: the drift per call is
    bounded by (number of truncating splits among its primitives) × `thr` resp. `eps`, and a step list without splits
    conserves exactly.  With `ldtdvp_loss` (at most `2L` splits per call) this is the per-call budget of `norm_budget`. -/
theorem sweep_drift_abstract {σ R : Type*} [Field R] [LinearOrder R] [IsStrictOrderedRing R]
    (S : TdvpSys σ R) (thr eps : R) (hS : S.Sound thr eps) (L : Nat) (steps : List Step) (c c' : Centre)
    (hw : walkAll c steps = some c') (x : σ) (hx : S.ctr x c) :
    S.ctr (S.run steps x) c' ∧
    S.N x - (lossTotal L (prims steps) : R) * thr ≤ S.N (S.run steps x) ∧ S.N (S.run steps x) ≤ S.N x ∧
    |S.E (S.run steps x) - S.E x| ≤ (lossTotal L (prims steps) : R) * eps ∧
    ((∀ st ∈ steps, st.lossless = true) → S.E (S.run steps x) = S.E x ∧ S.N (S.run steps x) = S.N x) := by
  obtain ⟨a, b, c1, d⟩ := run_drift S thr eps hS L steps c c' hw x hx
  refine ⟨a, b, c1, d, fun hl => ?_⟩
  obtain ⟨e, n, _⟩ := run_exact S thr eps hS steps hl c c' hw x hx
  exact ⟨e, n⟩

/-- **C05.19 `norm_budget_discharged`** the hypothesis `NormTrace` of `norm_budget` (C05.4) is now a theorem for the
    fixed-branch integrators: for a rational-valued squared norm, `m` calls of `two_site_tdvp` (each returns the centre to
    site 0, so the calls compose) starting at norm 1 produce a norm trace over exactly the primitive lists the
    correspondence check ties, hence `1 - m·2L·thr ≤ ‖ψ‖² ≤ 1`. -/
theorem norm_budget_discharged {σ : Type*} (S : TdvpSys σ Rat) (thr eps : Rat) (hthr : 0 ≤ thr)
    (hS : S.Sound thr eps) (L : Nat) (hL : 2 ≤ L) (steps : List Step) (hsteps : twoSiteFull L false = some steps)
    (m : Nat) (x : σ) (hx : S.ctr x (.site 0)) (hN : S.N x = 1) :
    1 - (m : Rat) * (2 * L) * thr ≤ S.N ((S.run steps)^[m] x) ∧ S.N ((S.run steps)^[m] x) ≤ 1 := by
  obtain ⟨_, _, _, h2⟩ := fixed_sweeps_keep_centre L (by omega)
  obtain ⟨steps', hs', hw, hloss⟩ := h2 hL
  have hEq : steps' = steps := by rw [hs'] at hsteps; exact Option.some.inj hsteps
  subst hEq
  -- the m calls, flattened, form one norm trace
  have key : ∀ (m : Nat) (y : σ), S.ctr y (.site 0) →
      NormTrace L thr ((List.replicate m (prims steps')).flatten) (S.N y) (S.N ((S.run steps')^[m] y)) ∧
      S.ctr ((S.run steps')^[m] y) (.site 0) := by
    intro m
    induction m with
    | zero => intro y hy; exact ⟨NormTrace.nil _, hy⟩
    | succ m ih =>
      intro y hy
      have t1 := normTrace_of_run S thr eps hS L steps' _ _ hw y hy
      have k1 := (run_drift S thr eps hS L steps' _ _ hw y hy).1
      obtain ⟨t2, k2⟩ := ih (S.run steps' y) k1
      simp only [List.replicate_succ, List.flatten_cons, Function.iterate_succ, Function.comp_apply]
      exact ⟨normTrace_join L thr _ _ _ _ _ t1 t2, k2⟩
  obtain ⟨t, _⟩ := key m x hx
  rw [hN] at t
  have hcalls : ∀ c ∈ List.replicate m (prims steps'), lossTotal L c ≤ 2 * L := by
    intro c hc
    rw [List.eq_of_mem_replicate hc, hloss]
    omega
  have := norm_budget L thr hthr (List.replicate m (prims steps')) hcalls _ t
  simpa using this

/-- **C05.20 `ldtdvp_steps`** the default integrator `local_dynamic_tdvp` with its gauge steps written out
    (`ldtdvpFull`: same branch structure as the loops of `Model/Sweep.lean`, plus the QR / contraction / merge statements):
    for every chain length and *every* decision sequence (no realizability needed) its erasure is the tied primitive list
    `ldtdvpD`, every primitive acts on the tensor that is the orthogonality centre at that moment, and the analog call
    returns the centre to site 0 — so consecutive calls compose (the digital single sweep leaves it at site `L-1`). -/
theorem ldtdvp_steps (L : Nat) (hL : 1 ≤ L) (dLR dRL : Nat → Bool) :
    (∀ dg, prims (ldtdvpFull L dLR dRL dg) = ldtdvpD L dLR dRL dg) ∧
    walkAll (.site 0) (ldtdvpFull L dLR dRL false) = some (.site 0) ∧
    walkAll (.site 0) (ldtdvpFull L dLR dRL true) = some (.site (L - 1)) := by
  refine ⟨?_, ?_, ?_⟩
  · intro dg
    unfold ldtdvpFull ldtdvpD
    by_cases h1 : L = 1
    · simp only [h1, if_true]
      exact (full_steps_erase_to_trace 1 dg).1
    · simp only [h1, if_false]
      cases dg
      · simp only [Bool.false_eq_true, if_false, prims_append, prims_lrLoopFull, prims_rlLoopFull]
        rfl
      · simp only [if_true, prims_lrLoopFull]
        rfl
  · unfold ldtdvpFull
    by_cases h1 : L = 1
    · simp only [h1, if_true]
      exact (fixed_sweeps_keep_centre 1 (by omega)).1
    · simp only [h1, if_false, Bool.false_eq_true]
      rw [walkAll_append, walk_lrLoopFull L dLR (1 / 2) L 0 false (by omega) hL]
      exact walk_rlLoopFull dRL (1 / 2) L false hL
  · unfold ldtdvpFull
    by_cases h1 : L = 1
    · simp only [h1, if_true]
      exact (fixed_sweeps_keep_centre 1 (by omega)).2.1
    · simp only [h1, if_false, if_true]
      exact walk_lrLoopFull L dLR 1 L 0 false (by omega) hL

/-- **C05.21 `ldtdvp_drift`** (clauses "keeps the state normalised and its energy expectation constant to within the
    truncation threshold, at every reported time", default integrator).  Abstract system as in C05.16; `m` consecutive
    calls of `local_dynamic_tdvp`, each with its own realizable decisions.  Since every call returns the centre to site 0
    and performs at most `2L` truncating splits (`ldtdvp_loss`), after the `m` calls
    `N₀ - m·2L·thr ≤ N ≤ N₀` and `|E - E₀| ≤ m·2L·eps` — with *equality* `N = N₀`, `E = E₀` contributed by every
    site / bond / pair update.  Hypotheses left: `Sound` (discharged per step as listed at C05.16; Krylov exactness C19,
    no rounding). -/
theorem ldtdvp_drift {σ R : Type*} [Field R] [LinearOrder R] [IsStrictOrderedRing R]
    (S : TdvpSys σ R) (thr eps : R) (hthr : 0 ≤ thr) (heps : 0 ≤ eps) (hS : S.Sound thr eps) (L : Nat) (hL : 1 ≤ L)
    (m : Nat) (dLR dRL : Nat → Nat → Bool) (hLR : ∀ k, Realizable L (dLR k) (L - 1)) (hRL : ∀ k, Realizable L (dRL k) 0)
    (x : σ) (hx : S.ctr x (.site 0)) :
    S.ctr (S.run ((List.range m).map fun k => ldtdvpFull L (dLR k) (dRL k) false).flatten x) (.site 0) ∧
    S.N x - (m : R) * (2 * L) * thr ≤
      S.N (S.run ((List.range m).map fun k => ldtdvpFull L (dLR k) (dRL k) false).flatten x) ∧
    S.N (S.run ((List.range m).map fun k => ldtdvpFull L (dLR k) (dRL k) false).flatten x) ≤ S.N x ∧
    |S.E (S.run ((List.range m).map fun k => ldtdvpFull L (dLR k) (dRL k) false).flatten x) - S.E x| ≤
      (m : R) * (2 * L) * eps := by
  have hw : walkAll (.site 0) ((List.range m).map fun k => ldtdvpFull L (dLR k) (dRL k) false).flatten =
      some (.site 0) := by
    apply walkAll_flatten
    intro c hc
    obtain ⟨k, _, rfl⟩ := List.mem_map.mp hc
    exact (ldtdvp_steps L hL (dLR k) (dRL k)).2.1
  have hloss : lossTotal L (prims ((List.range m).map fun k => ldtdvpFull L (dLR k) (dRL k) false).flatten) ≤
      m * (2 * L) := by
    rw [prims_flatten]
    have := lossTotal_flatten_le L (2 * L)
      (((List.range m).map fun k => ldtdvpFull L (dLR k) (dRL k) false).map prims) (by
        intro c hc
        obtain ⟨c', hc', rfl⟩ := List.mem_map.mp hc
        obtain ⟨k, _, rfl⟩ := List.mem_map.mp hc'
        rw [(ldtdvp_steps L hL (dLR k) (dRL k)).1 false]
        exact ldtdvp_loss L hL _ _ false (hLR k) (hRL k))
    simpa using this
  obtain ⟨a, b, c, d⟩ := run_drift S thr eps hS L _ _ _ hw x hx
  have hcast : (lossTotal L (prims ((List.range m).map fun k => ldtdvpFull L (dLR k) (dRL k) false).flatten) : R) ≤
      (m : R) * (2 * L) := by
    have : ((lossTotal L (prims ((List.range m).map fun k => ldtdvpFull L (dLR k) (dRL k) false).flatten) : Nat) : R) ≤
        ((m * (2 * L) : Nat) : R) := by exact_mod_cast hloss
    simpa using this
  refine ⟨a, ?_, c, ?_⟩
  · have := mul_le_mul_of_nonneg_right hcast hthr
    linarith
  · have := mul_le_mul_of_nonneg_right hcast heps
    linarith

/-- **C05.22 `c05_norm_discharged`** `c05_partial` without its norm-trace hypothesis: for a system with a rational-valued
    squared norm whose steps are sound, a start state of norm 1 with the centre at site 0, and the bond dimensions seen by
    `m` consecutive calls of `local_dynamic_tdvp` (all `≥ 1`, dummy legs `= 1`), the primitive lists of the calls — the very
    lists the correspondence check ties to the real call trace — carry a norm trace from 1 to the final squared norm, hence
    `1 - m·2L·thr ≤ ‖ψ_m‖² ≤ 1`. -/
theorem c05_norm_discharged {σ : Type*} (S : TdvpSys σ Rat) (thr eps : Rat) (hthr : 0 ≤ thr) (hS : S.Sound thr eps)
    (L maxBond : Nat) (hL : 2 ≤ L) (seenLR seenRL : Nat → Nat → Nat)
    (hLR : ∀ k i, i < L → 1 ≤ seenLR k i) (hRL : ∀ k i, i < L → 1 ≤ seenRL k i)
    (hdLR : ∀ k, seenLR k (L - 1) = 1) (hdRL : ∀ k, seenRL k 0 = 1) (m : Nat) (x : σ)
    (hx : S.ctr x (.site 0)) (hN : S.N x = 1) :
    NormTrace L thr ((List.range m).map (fun k => ldtdvp L maxBond (seenLR k) (seenRL k) false)).flatten 1
      (S.N (S.run ((List.range m).map fun k => ldtdvpFull L (fun i => capped (seenLR k i) maxBond)
        (fun i => capped (seenRL k i) maxBond) false).flatten x)) ∧
    1 - (m : Rat) * (2 * L) * thr ≤
      S.N (S.run ((List.range m).map fun k => ldtdvpFull L (fun i => capped (seenLR k i) maxBond)
        (fun i => capped (seenRL k i) maxBond) false).flatten x) ∧
    S.N (S.run ((List.range m).map fun k => ldtdvpFull L (fun i => capped (seenLR k i) maxBond)
        (fun i => capped (seenRL k i) maxBond) false).flatten x) ≤ 1 := by
  have hw : walkAll (.site 0) ((List.range m).map fun k => ldtdvpFull L (fun i => capped (seenLR k i) maxBond)
      (fun i => capped (seenRL k i) maxBond) false).flatten = some (.site 0) := by
    apply walkAll_flatten
    intro c hc
    obtain ⟨k, _, rfl⟩ := List.mem_map.mp hc
    exact (ldtdvp_steps L (by omega) _ _).2.1
  have t := normTrace_of_run S thr eps hS L _ _ _ hw x hx
  have hp : prims ((List.range m).map fun k => ldtdvpFull L (fun i => capped (seenLR k i) maxBond)
      (fun i => capped (seenRL k i) maxBond) false).flatten =
      ((List.range m).map (fun k => ldtdvp L maxBond (seenLR k) (seenRL k) false)).flatten := by
    rw [prims_flatten, List.map_map]
    congr 1
    apply List.map_congr_left
    intro k _
    exact (ldtdvp_steps L (by omega) _ _).1 false
  rw [hp, hN] at t
  exact ⟨t, (c05_partial L maxBond hL thr hthr seenLR seenRL hLR hRL hdLR hdRL m _ t).2⟩

/-- non-vacuity: the full step list of `single_site_tdvp` on two sites, the centre walk on three sites (it fails from a wrong
    start centre), and the full step list of `local_dynamic_tdvp` on three sites with mixed decisions -/
example : singleSiteFull 2 false =
    [.prim (.site 0 (1/2)), .qrRight 0, .prim (.bond 0 (-1/2)), .absorbRight 0, .prim (.site 1 1),
     .qrLeft 1, .prim (.bond 0 (-1/2)), .absorbLeft 0, .prim (.site 0 (1/2))] ∧
    walkAll (.site 0) (singleSiteFull 3 false) = some (.site 0) ∧
    walkAll (.site 1) (singleSiteFull 3 false) = none ∧
    ldtdvpFull 3 (fun i => decide (i = 1)) (fun _ => false) false =
      [.merge 0, .prim (.pair 0 (1/2)), .prim (.split 0 true), .prim (.site 1 (-1/2)),
       .prim (.site 1 (1/2)), .qrRight 1, .prim (.bond 1 (-1/2)), .absorbRight 1, .prim (.site 2 (1/2)),
       .merge 1, .prim (.pair 1 (1/2)), .prim (.split 1 false), .prim (.site 1 (-1/2)),
       .merge 0, .prim (.pair 0 (1/2)), .prim (.split 0 false)] := by decide +kernel

/-- non-vacuity of `Sound`: the trivial system (one state, everything constant) satisfies it, so the hypotheses of
    C05.16–19 are consistent; a system in which a split loses exactly `thr` is the content of the `NormTrace` example above -/
example : (⟨fun _ => 0, fun _ => 1, fun _ _ => True, fun _ x => x⟩ : TdvpSys Unit Rat).Sound 0 0 :=
  ⟨fun _ _ _ _ _ _ _ => ⟨rfl, rfl, trivial⟩, fun _ _ _ _ _ _ _ => ⟨trivial, by simp, le_refl _, by simp⟩⟩

end Yaqs.Sweep


/-!
# C05 extension (xb05) — the BUG integrator (`core/methods/bug.py`) inside the model

`bug_order` / `bug_loss` above know only the order of the `update_site` calls of a `bug` call.  The theorems below cover the
functions of bug.py themselves — `prepare_canonical_site_tensors`, `choose_stack_tensor`, `find_new_q`,
`build_basis_change_tensor`, `local_update`, `bug` (the rank-augmenting basis-update & Galerkin integrator of
Ceruti–Lubich–Walach / Ceruti–Kusch–Lubich, swept from the last site to site 1, root = site 0):

1. `bug_full_erases_to_trace`, `bug_full_each_statement_once`, `bug_bond_growth` — schedule and bond dimensions: the step list
   `bugFull` of `Model/Bug.lean` (every state-touching statement; tied to the real functions by the `fullbug` trace) erases to
   the tied primitive list `bug L`; the bonds before `truncate` grow to at most twice their size.
2. `bug_canonical_tensors`, `bug_prep_isometries` — `canon_tensors[i]` is the orthogonality centre when the chain is gauged to
   site `i`.
3. `bug_new_basis_contains_old` — the stacked QR: the new basis contains the old one, `M` reproduces the old tensor.
4. `bug_sweep_represents_old_state` — after the sweep the chain `[A₀·M₁, new_q₁, …, new_q_{L-1}]` has exactly the amplitudes of
   the state handed to `bug`, WHATEVER `update_site` returned at the sites `L-1 … 1` (those results only enlarge the basis).
5. `bug_step_conserves_norm`, `bug_root_flow_conserves_norm`, `bug_truncate_budget` — norm: exactly conserved before `truncate`
   (hypotheses: QR specs, new tensors right-isometric, the ROOT update is the flow of a Hermitian matrix), then
   `≥ norm − (L−1)·threshold`.  Energy: see the doc comment of `bug_step_conserves_norm`.
6. `bug_first_order_consistent` — one site: the call is the exact flow; general chains: cited.
-/

namespace Yaqs.Sweep

/-- **C05.23 `bug_full_erases_to_trace`** (schedule of `bug`, every statement).  For every chain length the step list
    `bugFull L` — the `L-1` iterations of `prepare_canonical_site_tensors` (`right_qr`, centre tensor, left block), then for every
    site `L-1 … 1` the seven statements of `local_update` (`update_site` with the full step, `choose_stack_tensor`, `find_new_q`,
    `build_basis_change_tensor`, `state.tensors[k] = new_q`, the hand-over `canon[k-1] · M_k`, `update_right_environment`), then
    `update_site` on site 0, its assignment, `truncate` — erases to exactly the primitive list `bug L` that `bug_order` is about
    and that the correspondence check compares with the recorded `update_site` / `truncate` calls; it has `10(L-1)+3` steps. -/
theorem bug_full_erases_to_trace (L : Nat) :
    bprims (bugFull L) = bug L ∧ (bugFull L).length = 10 * (L - 1) + 3 := by
  constructor
  · simp [bugFull, bug, bprims_append, bprims_prepSteps, bprims_bugDownFull, bprims]
  · simp only [bugFull, List.length_append, prepSteps_length, bugDownFull_length, List.length_cons, List.length_nil]
    omega

/-- **C05.24 `bug_full_each_statement_once`** every non-primitive statement of `local_update` — stack choice (the state's own
    tensor exactly at the last site `k = L-1`, the centre tensor otherwise), stacked QR, basis-change matrix, assignment of the
    new tensor, hand-over to the left neighbour, right block — is executed exactly once for every site `1 ≤ k ≤ L-1` and never
    for site 0 or beyond the chain; in particular no site keeps its old basis and no environment is reused stale. -/
theorem bug_full_each_statement_once (L k : Nat) (st : BStep) (hst : st ∈ basisSteps L k) :
    (bugFull L).count st = if 1 ≤ k ∧ k ≤ L - 1 then 1 else 0 := by
  have hp : ∀ i, st ≠ .prepQR i ∧ st ≠ .prepCentre i ∧ st ≠ .prepEnv i := by
    intro i
    simp only [basisSteps, List.mem_cons, List.not_mem_nil, or_false] at hst
    rcases hst with rfl | rfl | rfl | rfl | rfl | rfl <;> simp
  have ht : ([BStep.prim (.site 0 1), .setRoot, .prim .trunc] : List BStep).count st = 0 := by
    simp only [basisSteps, List.mem_cons, List.not_mem_nil, or_false] at hst
    rcases hst with rfl | rfl | rfl | rfl | rfl | rfl <;> simp
  simp only [bugFull, List.count_append, count_prepSteps st hp, count_bugDownFull L k st hst, ht]
  omega

/-- **C05.25 `bug_bond_growth`** (rank augmentation).  `b = [b₁,…,b_{L-1}]` the internal bonds handed to `bug`, `d` the physical
    dimension, `bugBonds d b` the bonds after the sweep and before `truncate` (value-tied to the shapes of the real tensors):
    same number of bonds, every new bond is at most TWICE the old one (old basis stacked with the updated one) and at most
    `d` times the new bond to its right (`1` beyond the last site) — so a chain of bond dimension `χ` never exceeds `2χ` inside
    a `bug` call, whatever the cap; the cap is enforced by `truncate` alone (C08 `c08_bug_bounded`). -/
theorem bug_bond_growth (d : Nat) (b : List Nat) :
    (bugBonds d b).length = b.length ∧
    ∀ k, (bugBonds d b).getD k 0 ≤ 2 * b.getD k 0 ∧ (bugBonds d b).getD k 0 ≤ d * (bugBonds d b).getD (k + 1) 1 := by
  have hl := centreDims_length d b 1
  obtain ⟨h1, h2⟩ := newBondsAux_spec d (b.zip (centreDims d 1 b)) (centreDims_le d b 1)
  have hm : (b.zip (centreDims d 1 b)).map Prod.fst = b := List.map_fst_zip (by omega)
  refine ⟨by simp [bugBonds, h1, hl], fun k => ?_⟩
  have := h2 k
  rw [hm] at this
  exact this

/-- **C05.26 `bug_truncate_budget`** (norm after `truncate`).  A `bug` call contains exactly `L-1` truncating SVDs — the bonds
    swept by the final `state.truncate` — and no other lossy statement; so along any norm trace of the call (every `update_site`
    norm-preserving, every truncating SVD discarding at most `thr`: C09 `c09_twosite_weight`) the squared norm ends in
    `[x − (L−1)·thr, x]`.  With `bug_step_conserves_norm` (the value before `truncate` IS the old norm) this is the BUG part of
    clause (a) with the sharper constant `L−1` instead of `2L`. -/
theorem bug_truncate_budget (L : Nat) (thr : Rat) (x y : Rat) (ht : NormTrace L thr (bug L) x y) :
    lossTotal L (bug L) = L - 1 ∧ x - ((L - 1 : Nat) : Rat) * thr ≤ y ∧ y ≤ x := by
  have hl : lossTotal L (bug L) = L - 1 := by
    simp only [bug, lossTotal_append, bugDown_loss, lossTotal, lossCount]
    omega
  have := normTrace_bound L thr _ x y ht
  rw [hl] at this
  exact ⟨hl, this⟩

/-- **C05.27 `bug_first_order_consistent`** (clause (c), BUG).  On ONE site a `bug` call is: no preparation step, no basis
    update, one `update_site` on the only tensor with the full step `1·dt` between the two boundary blocks, its assignment, and a
    `truncate` that sweeps no bond — i.e. the call applies `exp(-i·dt·H)` itself (`herm_flow_*`; H_eff with identity blocks is
    `H`: `energy_is_local_site` with `ls = rs = []`), for every `dt`: the integrator is exact there, in particular consistent.
    For `L ≥ 2` what is proved is `bug_order` (every site once, coefficient 1), `bug_sweep_represents_old_state` (the basis
    update loses nothing of the old state) and `bug_step_conserves_norm`; the robust first-order error bound
    `‖ψ₁ − exp(-i·dt·H)ψ₀‖ ≤ C·dt² + C'·ε` per step of Ceruti–Lubich–Walach (SIAM J. Numer. Anal. 59, 2021, Thm 4.1) and
    Ceruti–Kusch–Lubich (BIT 62, 2022, Thm 2 for the augmented variant) is CITED, not formalised; the check measures it
    (Richardson ratio ≥ 1.6). -/
theorem bug_first_order_consistent :
    bugFull 1 = [.prim (.site 0 1), .setRoot, .prim .trunc] ∧ lossTotal 1 (bug 1) = 0 ∧
    coverage 0 (bug 1) = 1 ∧ ∀ d, bugBonds d [] = [] := by
  refine ⟨by decide +kernel, by decide +kernel, by decide +kernel, fun d => rfl⟩

/-- non-vacuity: the whole step list on three sites; bonds (2,4,2) of a four-site qubit chain grow to (4,4,2): the middle bond
    is already at its maximum `d·(right bond)`, the first one doubles -/
example : bugFull 3 =
    [.prepQR 0, .prepCentre 0, .prepEnv 0, .prepQR 1, .prepCentre 1, .prepEnv 1,
     .prim (.site 2 1), .stack 2 true, .newQ 2, .basis 2, .setQ 2, .pass 2, .rightEnv 2,
     .prim (.site 1 1), .stack 1 false, .newQ 1, .basis 1, .setQ 1, .pass 1, .rightEnv 1,
     .prim (.site 0 1), .setRoot, .prim .trunc] ∧
    bugBonds 2 [2, 4, 2] = [4, 4, 2] ∧ bugBonds 2 [1, 1, 1, 1] = [2, 2, 2, 2] ∧ bugBonds 3 [2, 2] = [4, 3] := by
  decide +kernel

example : NormTrace 3 (1 / 100) (bug 3) 1 (98 / 100) :=
  NormTrace.step _ _ 1 1 _ (by norm_num [lossCount]) (by norm_num)
    (NormTrace.step _ _ 1 1 _ (by norm_num [lossCount]) (by norm_num)
      (NormTrace.step _ _ 1 1 _ (by norm_num [lossCount]) (by norm_num)
        (NormTrace.step _ _ 1 (98 / 100) _ (by norm_num [lossCount]) (by norm_num) (NormTrace.nil _))))

end Yaqs.Sweep

namespace Yaqs.Mps.Alg

open Matrix

variable {K : Type*} [CommRing K] {ι σ : Type*} [Fintype ι] [DecidableEq ι]

/-- **C05.28 `bug_canonical_tensors`** (`prepare_canonical_site_tensors`).  Chain `A₀ :: rest` of any length over any commutative
    ring, `qr` any function with the spec of `right_qr` (`C s = Q s * R`).  The function returns `canon_tensors = prepCanon`
    (`canon[0] = A₀`, `canon[i] = R_{i-1} · A_i` with `R_{i-1}` from the QR of `canon[i-1]`) and uses the `Q` factors only for the
    left blocks.  For EVERY `i`: replacing the tensors `0 … i-1` by their `Q` factors and tensor `i` by `canon_tensors[i]`, all
    tensors right of `i` untouched, leaves every amplitude unchanged — `canon_tensors[i]` is the tensor that is the orthogonality
    centre when the chain is gauged to site `i` (the `Q`s are left-isometric: `bug_prep_isometries`).  Induction over the chain
    with C10's QR-shift identity (`c10_shift_right_QR`: `Q s * (R * B t) = A s * B t`) as the step. -/
theorem bug_canonical_tensors (qr : Site σ ι K → Site σ ι K × Matrix ι ι K)
    (hqr : ∀ (C : Site σ ι K) s, C s = (qr C).1 s * (qr C).2)
    (A0 : Site σ ι K) (rest : List (Site σ ι K)) (i : Nat) (C : Site σ ι K) (cfg : List σ)
    (hC : (prepCanon qr A0 rest)[i]? = some C) (hlen : cfg.length = rest.length + 1) :
    chain ((prepQs qr A0 rest).take i ++ C :: rest.drop i) cfg = chain (A0 :: rest) cfg ∧
    (prepCanon qr A0 rest).length = rest.length + 1 ∧ (prepQs qr A0 rest).length = rest.length :=
  ⟨prep_canonical qr hqr rest A0 i C cfg hC hlen, prepCanon_length qr rest A0, prepQs_length qr rest A0⟩

/-- **C05.29 `bug_prep_isometries`** every `left_q` that `prepare_canonical_site_tensors` feeds into
    `update_left_environment` is left-isometric when `right_qr` returns isometries (`QᴴQ = 1`, spec-tied) — so the left blocks
    are those of the mixed-canonical chain of C05.28 and `update_site` at site `k` sees an orthonormal left frame. -/
theorem bug_prep_isometries [StarRing K] [Fintype σ] (qr : Site σ ι K → Site σ ι K × Matrix ι ι K)
    (hiso : ∀ C : Site σ ι K, LeftIso (qr C).1) (A0 : Site σ ι K) (rest : List (Site σ ι K)) :
    ∀ Q ∈ prepQs qr A0 rest, LeftIso Q :=
  prepQs_leftIso qr hiso rest A0

/-- **C05.30 `bug_new_basis_contains_old`** (`find_new_q`, `build_basis_change_tensor`; every leg with its own index type).
    `find_new_q` stacks the old tensor `X` (rows `l`) on top of the updated tensor `Y` (rows `l'`) along the left leg and
    `left_qr` factorises the stack as `[X; Y](s) = [T; T'] · new_q(s)` with `new_q` right-isometric
    (`Σ_s new_q(s)·new_q(s)ᴴ = 1` on the `n` new rows).  Then
    (i) the range of the new basis contains both the old tensor and the updated one: projecting onto it loses nothing,
        `(Σ_s X(s)·new_q(s)ᴴ)·new_q(t) = X(t)` and the same for `Y` — the augmentation property that makes the Galerkin step
        exact on the old state;
    (ii) the basis-change matrix `M = Σ_s X(s)·new_q(s)ᴴ` (what `build_basis_change_tensor` contracts, for `old_m = 1`) is the
        block `T` of the `R` factor and satisfies `M·new_q(t) = X(t)`.
    (The code sweeps right-to-left, so "basis" = row space of the (left) × (phys·right) unfolding; the statement of the brief
    `Q_new·Q_newᴴ·A_old = A_old`, `Q_new·M = A_old` is this one transposed.) -/
theorem bug_new_basis_contains_old [StarRing K] [Fintype σ] {l l' n r : Type*} [Fintype l] [Fintype l'] [Fintype n] [Fintype r]
    [DecidableEq n] (X : σ → Matrix l r K) (Y : σ → Matrix l' r K) (Qn : σ → Matrix n r K)
    (T : Matrix l n K) (T' : Matrix l' n K) (hX : ∀ s, X s = T * Qn s) (hY : ∀ s, Y s = T' * Qn s)
    (hQ : ∑ s, Qn s * (Qn s)ᴴ = 1) :
    (∀ t, (∑ s, X s * (Qn s)ᴴ) * Qn t = X t) ∧ (∀ t, (∑ s, Y s * (Qn s)ᴴ) * Qn t = Y t) ∧
    (∑ s, X s * (Qn s)ᴴ) = T ∧ (∑ s, Y s * (Qn s)ᴴ) = T' := by
  have h1 := stack_projection X Qn T hX (by rw [hQ, Matrix.mul_one])
  have h2 := stack_projection Y Qn T' hY (by rw [hQ, Matrix.mul_one])
  exact ⟨h1.2, h2.2, h1.1, h2.1⟩

/-- **C05.31 `bug_sweep_represents_old_state`** (the whole right-to-left sweep of `bug`).  `A₀ :: As` the chain handed to `bug`;
    for every site `k = 1 … L-1` (listed left to right in `upds`) `A = state.tensors[k]`, `nq = new_q`, `T` the upper block of
    `left_qr`'s `R` factor.  `Mof` are the matrices `build_basis_change_tensor` computes (`M_L = 1`,
    `M_k = Σ_s A_k(s)·M_{k+1}·new_q_k(s)ᴴ`).  Hypotheses (`SweepSpec`): the spec of `right_qr`; at every site the stack tensor that
    `choose_stack_tensor` picks — the state's own tensor at the last site, the centre tensor `R_{k-1}·A_k·M_{k+1}` elsewhere — is
    `T·new_q` and `new_q` is right-isometric where `T` lives.  Conclusion, for every length: the chain
    `[A₀·M₁, new_q₁, …, new_q_{L-1}]` — the MPS the root update starts from (`canon_center_tensors[0]` after the hand-overs and
    the new `state.tensors[1:]`) — has exactly the amplitudes of the old chain.  Nothing is assumed about what `update_site`
    returned at the sites `L-1 … 1`: those tensors only enlarge the basis.  (If the stack omitted the old tensor, or `M` were
    built from the updated tensor, the hypothesis `stack = T·new_q` / the definition of `Mof` would fail — the mutations the tie
    is asked to catch.) -/
theorem bug_sweep_represents_old_state [StarRing K] [Fintype σ] (qr : Site σ ι K → Site σ ι K × Matrix ι ι K)
    (hqr : ∀ (C : Site σ ι K) s, C s = (qr C).1 s * (qr C).2)
    (A0 : Site σ ι K) (upds : List (SiteUpd σ ι K)) (hspec : SweepSpec qr A0 upds)
    (cfg : List σ) (hlen : cfg.length = upds.length + 1) :
    chain ((fun s => A0 s * Mof upds) :: upds.map (·.nq)) cfg = chain (A0 :: upds.map (·.A)) cfg :=
  bugSweep_chain qr hqr upds A0 cfg hspec hlen

/-- **C05.32 `bug_step_conserves_norm`** (clause "keeps the state normalised", BUG, before `truncate`).  Same setting; `U₀` is
    the tensor the root update returns (`state.tensors[0] = update_site(left_envs[0], right_block, W₀, A₀·M₁, dt)`).  If
    (a) the new frame is isometric on the right leg of the root tensor — `gramR` of the new tensors acts as the identity on
        `U₀` and on `A₀·M₁`; for right-isometric `new_q`s `gramR = 1` (`bug_step_conserves_norm_iso`) — and
    (b) the root update preserves the Frobenius norm of the root tensor — it is the flow `exp(-i·dt·H_eff)` of the Hermitian
        dense effective Hamiltonian when the Krylov exponential is exact: `bug_root_flow_conserves_norm` from `herm_flow_unitary`,
        Hermiticity from C19's `heff_hermitian_chain` —
    then `⟨ψ|ψ⟩` after the whole sweep EQUALS `⟨ψ|ψ⟩` of the state handed to `bug`, for every chain length.  The `L-1` updates at
    the sites `L-1 … 1` do not enter at all.
    Energy, stated honestly: the same argument gives `⟨ψ|H|ψ⟩` after the sweep = before, PROVIDED the root update is the exact
    flow (`site_update_conserves_energy` with `ls = []` on the chain `[A₀·M₁, new_q…]`, which represents the old state by
    C05.31) — the augmented BUG conserves norm and energy up to the tolerance of the final truncation (Ceruti–Kusch–Lubich 2022,
    §3.3); this is measured by the tie (`bug-step`: |ΔE| ≤ 1e-9·(1+‖H‖) before `truncate`) but not assembled into one Lean
    theorem because C05.11 lives in the index model of `Model/Heff.lean` and C05.31 in the matrix-chain model of C10.  What BUG
    does NOT conserve is energy through `truncate` beyond `‖H‖(2√w + w)` per discarded weight `w`, nor anything to higher than
    first order in `dt` for the state itself. -/
theorem bug_step_conserves_norm [StarRing K] [Fintype σ] (qr : Site σ ι K → Site σ ι K × Matrix ι ι K)
    (hqr : ∀ (C : Site σ ι K) s, C s = (qr C).1 s * (qr C).2)
    (A0 U0 : Site σ ι K) (upds : List (SiteUpd σ ι K)) (hspec : SweepSpec qr A0 upds)
    (hframeU : ∀ s, U0 s * gramR (upds.map (·.nq)) = U0 s)
    (hframeC : ∀ s, A0 s * Mof upds * gramR (upds.map (·.nq)) = A0 s * Mof upds)
    (hroot : ∑ s, Matrix.trace (U0 s * (U0 s)ᴴ) = ∑ s, Matrix.trace ((A0 s * Mof upds) * (A0 s * Mof upds)ᴴ)) :
    normSq (U0 :: upds.map (·.nq)) = normSq (A0 :: upds.map (·.A)) := by
  have e1 : normSq (U0 :: upds.map (·.nq)) = ∑ s, Matrix.trace (U0 s * (U0 s)ᴴ) := by
    rw [normSq_eq_trace_gram, gramR, Matrix.trace_sum]
    exact Finset.sum_congr rfl fun s _ => by rw [hframeU s]
  have e2 : normSq ((fun s => A0 s * Mof upds) :: upds.map (·.nq)) =
      ∑ s, Matrix.trace ((A0 s * Mof upds) * (A0 s * Mof upds)ᴴ) := by
    rw [normSq_eq_trace_gram, gramR, Matrix.trace_sum]
    exact Finset.sum_congr rfl fun s _ => by rw [hframeC s]
  rw [e1, hroot, ← e2]
  apply normSq_congr
  · simp
  · intro cfg hc
    exact bugSweep_chain qr hqr upds A0 cfg hspec (by simpa using hc)

/-- **C05.32b `bug_step_conserves_norm_iso`** the same with hypothesis (a) discharged for unpadded bonds: every `new_q` is
    right-isometric (`Σ_s new_q(s)·new_q(s)ᴴ = 1`, the spec of `left_qr`, checked on every real `new_q` by the tie). -/
theorem bug_step_conserves_norm_iso [StarRing K] [Fintype σ] (qr : Site σ ι K → Site σ ι K × Matrix ι ι K)
    (hqr : ∀ (C : Site σ ι K) s, C s = (qr C).1 s * (qr C).2)
    (A0 U0 : Site σ ι K) (upds : List (SiteUpd σ ι K)) (hspec : SweepSpec qr A0 upds)
    (hiso : ∀ u ∈ upds, RightIso u.nq)
    (hroot : ∑ s, Matrix.trace (U0 s * (U0 s)ᴴ) = ∑ s, Matrix.trace ((A0 s * Mof upds) * (A0 s * Mof upds)ᴴ)) :
    normSq (U0 :: upds.map (·.nq)) = normSq (A0 :: upds.map (·.A)) := by
  have hg : gramR (upds.map (·.nq)) = 1 := by
    apply gramR_rightIso
    intro A hA
    obtain ⟨u, hu, rfl⟩ := List.mem_map.mp hA
    exact hiso u hu
  exact bug_step_conserves_norm qr hqr A0 U0 upds hspec (fun s => by rw [hg, Matrix.mul_one])
    (fun s => by rw [hg, Matrix.mul_one]) hroot

/-- the root tensor as a vector (`tensor.reshape(-1)` up to the order of the legs, which a unitary map does not care about) -/
def flatSite (A : Site σ ι ℂ) : σ × ι × ι → ℂ := fun p => A p.1 p.2.1 p.2.2

/-- **C05.33 `bug_root_flow_conserves_norm`** hypothesis (b) of C05.32 from xe05's flow theorem: if the flattened new root
    tensor is `exp(-(t·i)•Kh)` applied to the flattened old one for a Hermitian `Kh` (the dense `H_eff` of site 0) and a real
    `t` (`= dt`), the Frobenius norms agree.  Hypothesis left: `expm_krylov` returns that vector (C19). -/
theorem bug_root_flow_conserves_norm [Fintype σ] [DecidableEq σ] (Kh : Matrix (σ × ι × ι) (σ × ι × ι) ℂ) (hK : Khᴴ = Kh)
    (t : ℝ) (C0 U0 : Site σ ι ℂ)
    (hstep : flatSite U0 = NormedSpace.exp (-((t : ℂ) * Complex.I) • Kh) *ᵥ flatSite C0) :
    ∑ s, Matrix.trace (U0 s * (U0 s)ᴴ) = ∑ s, Matrix.trace (C0 s * (C0 s)ᴴ) := by
  have key : ∀ A : Site σ ι ℂ, ∑ s, Matrix.trace (A s * (A s)ᴴ) = star (flatSite A) ⬝ᵥ flatSite A := by
    intro A
    simp only [Matrix.trace, Matrix.diag, Matrix.mul_apply, Matrix.conjTranspose_apply, dotProduct, flatSite,
      Fintype.sum_prod_type, Pi.star_apply]
    refine Finset.sum_congr rfl fun s _ => Finset.sum_congr rfl fun a _ => Finset.sum_congr rfl fun b _ => ?_
    ring
  rw [key U0, key C0, hstep]
  exact (Yaqs.Conserve.herm_flow_unitary Kh hK t).2.2 (flatSite C0)

/-! ### non-vacuity -/

/-- a `qr` with the spec of `right_qr` that is not the identity: `Q = C · R⁻¹`, `R = [[1,1],[0,1]]` over ℤ -/
def exBugQr : Site (Fin 2) (Fin 2) ℤ → Site (Fin 2) (Fin 2) ℤ × Matrix (Fin 2) (Fin 2) ℤ :=
  fun C => (fun s => C s * !![1, -1; 0, 1], !![1, 1; 0, 1])

theorem exBugQr_spec (C : Site (Fin 2) (Fin 2) ℤ) (s : Fin 2) : C s = (exBugQr C).1 s * (exBugQr C).2 := by
  have : (!![1, -1; 0, 1] : Matrix (Fin 2) (Fin 2) ℤ) * !![1, 1; 0, 1] = 1 := by decide +kernel
  simp only [exBugQr, Matrix.mul_assoc, this, Matrix.mul_one]

/-- two sites, bonds 1–2–1 zero-padded into `Fin 2`: `A₁(s) = T·new_q(s)` with `new_q(0) = e₀e₀ᵀ`, `new_q(1) = e₁e₀ᵀ`
    (right-isometric on both new rows) and `T = [[2,3],[0,0]]`; the hypotheses of C05.31 / C05.32b hold and `M₁ = T ≠ 1` -/
def exBugUpd : SiteUpd (Fin 2) (Fin 2) ℤ where
  A := fun s => if s = 0 then !![2, 0; 0, 0] else !![3, 0; 0, 0]
  nq := fun s => if s = 0 then !![1, 0; 0, 0] else !![0, 0; 1, 0]
  T := !![2, 3; 0, 0]

example : SweepSpec exBugQr (fun s => if s = 0 then !![1, 2; 0, 0] else !![0, 1; 0, 0]) [exBugUpd] ∧
    RightIso exBugUpd.nq ∧ Mof [exBugUpd] = !![2, 3; 0, 0] := by
  refine ⟨⟨by decide +kernel, ?_, trivial⟩, by unfold RightIso; decide +kernel, by decide +kernel⟩
  intro s
  fin_cases s <;> decide +kernel

example : (prepCanon exBugQr (fun s => if s = 0 then !![1, 2; 0, 0] else !![0, 1; 0, 0])
    [fun s => if s = 0 then !![2, 0; 0, 0] else !![3, 0; 0, 0]])[1]? =
    some (fun s => !![1, 1; 0, 1] * (if s = 0 then !![2, 0; 0, 0] else !![3, 0; 0, 0])) := rfl

end Yaqs.Mps.Alg
