import YaqsModel.Lemmas.Attribution
import YaqsModel.Lemmas.LocalExpect
import Mathlib.LinearAlgebra.Matrix.Notation
import YaqsModel.Lemmas.Schmidt
import YaqsModel.Lemmas.SchmidtModel
import YaqsModel.Lemmas.SchmidtEntropy

/-!
# C11 — every observable object receives its own value, whatever the listing order

Property theorems only (helper lemmas: `Lemmas/Attribution.lean`; executable model: `Model/Attribution.lean`).

The numeric half of the property ("… equals the value computed from the dense state vector") is decided on the
real code by the dense oracle of `harness/impl/C11.py` for every observable kind; the theorems here settle the
attribution logic for *all* lists of observables, all chain lengths, all numbers of trajectories:
which object sits in which row, where the orthogonality centre is when a local operator is evaluated, and which
object the averaged row is written to.  (`local_expect_dense` is in the second half of this file.)
-/
namespace Yaqs.Attribution

/-- example list: `Z@2, X@0, max_bond, ZZ@(1,2), entropy@(0,1), Y@2` in the user's order -/
def exObs : List Obs :=
  [⟨0, .local1, 2⟩, ⟨1, .local1, 0⟩, ⟨2, .maxBond, 0⟩, ⟨3, .local2, 1⟩, ⟨4, .entropy, 0⟩, ⟨5, .local1, 2⟩]

/-- **C11.1** `sorted_observables` is a permutation of the user's list (same objects, none lost, none doubled). -/
theorem sorted_is_perm (obs : List Obs) : (sortedObservables obs).Perm obs := by
  unfold sortedObservables
  refine ((sortBySite_perm _).append_right _).trans ?_
  have h := List.filter_append_perm (fun o : Obs => o.kind.unsorted) obs
  exact List.perm_append_comm.trans h

/-- **C11.1b** its site-sorted part is in non-decreasing order of the first site, the diagnostics follow, and
    observables on the same site keep their listing order (Python's `sorted` is stable). -/
theorem sorted_by_site (obs : List Obs) :
    ∃ pre post, sortedObservables obs = pre ++ post ∧
      pre.Pairwise (fun a b => a.site ≤ b.site) ∧ (∀ o ∈ post, o.kind.unsorted = true) ∧
      (∀ o ∈ pre, o.kind.unsorted = false) ∧
      (∀ v, pre.filter (fun x => x.site = v) = (obs.filter fun o => !o.kind.unsorted).filter (fun x => x.site = v)) := by
  refine ⟨_, _, rfl, sortBySite_sorted _, ?_, ?_, fun v => sortBySite_filter _ v⟩
  · intro o ho; simpa using (List.mem_filter.mp ho).2
  · intro o ho
    have := (sortBySite_perm _).mem_iff.mp ho
    simpa using (List.mem_filter.mp this).2

example : (sortedObservables exObs).map (·.id) = [1, 4, 3, 0, 5, 2] := by decide

/-- **C11.2 (centre walk)** For the sorted list of *any* user list:
    1. row `k` of `results` is written for `sorted[k]`;
    2. every local observable is evaluated when the tracked centre `last_site` is its own first site, and exactly that
       many shifts have been issued before — so for a state that came in with its centre at site 0 the real
       orthogonality centre is at `sites[0]` (for an entropy / Schmidt cut: on the left site of the cut);
       `runtime_cost`, `max_bond`, `total_bond` and `pvm` entries issue no shift;
    3. the shifts issued are `0, 1, 2, …` in this order: each at the current centre, the walk never goes left. -/
theorem centre_walk (obs : List Obs) :
    rowsOf (evaluateObservables (sortedObservables obs))
      = ((sortedObservables obs).zipIdx 0).map (fun p => (p.2, p.1.id)) ∧
    centresFrom 0 (evaluateObservables (sortedObservables obs))
      = ((sortedObservables obs).filter fun o => o.kind.moves).map (fun o => (o.id, o.site, o.site)) ∧
    shiftsOf (evaluateObservables (sortedObservables obs)) = List.range (finalCentre 0 (sortedObservables obs)) := by
  refine ⟨rowsOf_walk _ 0 0, ?_, ?_⟩
  · have hms : MovSorted 0 (sortedObservables obs) := by
      refine ⟨fun _ _ _ => Nat.zero_le _, ?_⟩
      show (sortBySite _ ++ _).Pairwise _
      rw [List.pairwise_append]
      refine ⟨(sortBySite_sorted _).imp (fun h _ _ => h), ?_, ?_⟩
      · refine (List.pairwise_of_forall (R := fun _ _ => True) (fun _ _ => trivial)).imp_of_mem ?_
        intro a b _ hb _ _ hbm
        have hb' : b.kind.unsorted = true := by simpa using (List.mem_filter.mp hb).2
        rw [unsorted_not_moves hb'] at hbm; cases hbm
      · intro a _ b hb _ hbm
        have hb' : b.kind.unsorted = true := by simpa using (List.mem_filter.mp hb).2
        rw [unsorted_not_moves hb'] at hbm; cases hbm
    have h := centresFrom_walk (sortedObservables obs) 0 0 0 hms
    simpa [evaluateObservables] using h
  · have h := shiftsOf_walk (sortedObservables obs) 0 0
    rw [List.range_eq_range']
    simpa [evaluateObservables] using h

example : evaluateObservables (sortedObservables exObs) =
    [.evalLocal 0 1 0, .evalLocal 1 4 0, .shift 0, .evalLocal 2 3 1, .shift 1, .evalLocal 3 0 2, .evalLocal 4 5 2,
     .evalSelf 5 2] := by decide

/-- the sort is needed: on the unsorted list `Z@2, X@0` the second operator is evaluated with the centre at site 2 -/
example : evaluateObservables [⟨0, .local1, 2⟩, ⟨1, .local1, 0⟩] =
    [.shift 0, .shift 1, .evalLocal 0 0 2, .evalLocal 1 1 2] := by decide

/-- the code as found before 0704f22 computed entropy / Schmidt spectrum on `self`: for the single observable
    `entropy@(2,3)` no shift is issued, i.e. the two-site SVD is taken with the centre two sites away from the cut
    (reproduced on the real code: 0.955 reported for a dense value of 0.855); the repaired walk moves the centre. -/
example : walkOld 0 0 (sortedObservables [⟨0, .entropy, 2⟩]) = [.evalSelf 0 0] ∧
    evaluateObservables (sortedObservables [⟨0, .entropy, 2⟩]) = [.shift 0, .shift 1, .evalLocal 0 0 2] := by decide

/-- **C11.2b** for every list (sorted or not) the shifts are contiguous and ascending from the start centre -/
theorem walk_never_left (l : List Obs) (last row : Nat) :
    shiftsOf (walk last row l) = List.range' last (finalCentre last l - last) := shiftsOf_walk l last row

/-- **C11.3 (rows to objects)** Let `val j o` be the value of observable `o` on trajectory `j`'s state.  If every
    backend returns row `k` = value of `sorted[k]` (which is what `centre_walk`.1 says `evaluate_observables` writes),
    then after stitching `trajectories[i] = result[obs_index]` over `enumerate(sorted_observables)` every object of the
    user's list holds its own value for every trajectory, and `aggregate` gives it the mean of its own values —
    whatever the order in which the observables were listed (object ids distinct). -/
theorem rows_to_objects (obs : List Obs) (hnd : (obs.map (·.id)).Nodup) (val : Nat → Obs → Rat)
    (results : List (List Rat))
    (hshape : ∀ r ∈ results, r.length = (sortedObservables obs).length)
    (hval : ∀ j (hj : j < results.length) k (hk : k < (sortedObservables obs).length),
      (results[j])[k]'(by rw [hshape _ (List.getElem_mem hj)]; exact hk) = val j (sortedObservables obs)[k]) :
    ∀ o ∈ obs,
      (∀ j, j < results.length → stitchAll (sortedObservables obs) 0 results Store.empty o.id j = some (val j o)) ∧
      aggregate (stitchAll (sortedObservables obs) 0 results Store.empty) results.length o.id
        = mean ((List.range results.length).map fun j => val j o) := by
  intro o ho
  have hperm := sorted_is_perm obs
  have hnd' : ((sortedObservables obs).map (·.id)).Nodup := (hperm.map _).nodup_iff.mpr hnd
  have hmem : o ∈ sortedObservables obs := hperm.mem_iff.mpr ho
  obtain ⟨k, hk, hko⟩ := List.getElem_of_mem hmem
  have key : ∀ j, j < results.length →
      stitchAll (sortedObservables obs) 0 results Store.empty o.id j = some (val j o) := by
    intro j hj
    have h := stitchAll_written (sortedObservables obs) hnd' results 0 Store.empty hshape j hj k hk
    rw [Nat.zero_add, hko] at h
    rw [h, hval j hj k hk, hko]
  refine ⟨key, ?_⟩
  unfold aggregate
  congr 1
  apply List.map_congr_left
  intro j hj
  rw [key j (List.mem_range.mp hj)]
  rfl

/-- with the user's list `Z@2, X@0` and the (correct) rows `[⟨X0⟩, ⟨Z2⟩] = [7, 9]` of one trajectory, object 0 (`Z@2`)
    gets 9 and object 1 gets 7; the rule "row k belongs to the user's k-th observable" would swap them -/
example :
    let obs : List Obs := [⟨0, .local1, 2⟩, ⟨1, .local1, 0⟩]
    (stitchAll (sortedObservables obs) 0 [[7, 9]] Store.empty 0 0 = some 9 ∧
     stitchAll (sortedObservables obs) 0 [[7, 9]] Store.empty 1 0 = some 7) ∧
    stitchByUserIndex obs 0 [[7, 9]] Store.empty 0 0 = some 7 := by decide +kernel

end Yaqs.Attribution


/-!
## the site-local contraction is the dense expectation value

`overlap X Y = Σ_τ tr((Π_k X_k[τ_k])ᴴ Π_k Y_k[τ_k])` is the dense inner product of two chains
(`overlap_is_dense_sum`); `MPS.local_expect` replaces one (two) site tensor(s) by `O` applied to them and calls
`scalar_product(self, modified, sites)`, which contracts *only* the touched site(s).
-/
namespace Yaqs.LocalExpect
open Matrix

variable {K : Type*} [CommRing K] [StarRing K] {ι σ : Type*} [Fintype ι] [DecidableEq ι] [Fintype σ]

/-- **C11.4 (dense definition)** the overlap recursion is the sum over all basis configurations of
    `conj(amplitude of X) · amplitude of Y` -/
theorem overlap_is_dense_sum (X Y : List (MSite σ ι K)) (h : X.length = Y.length) :
    overlap X Y = sumCfg X.length fun τ => trace ((chain X τ)ᴴ * chain Y τ) := by
  unfold overlap
  rw [overlapFrom_eq_sum 1 X Y h]
  simp only [Matrix.mul_one]

/-- **C11.4 (one-site `local_expect_dense`)** If the prefix is left-isometric and the suffix right-isometric as seen
    from the evaluated site (`E_L · A[s] = A[s]`, `A[s] · E_R = A[s]` for the left / right environments — in
    particular when every prefix tensor is a left isometry and every suffix tensor a right isometry, next theorem),
    then the site-local contraction `contract("ijk,ijk", conj(A), O·A)` of `local_expect` equals the dense
    `⟨ψ| O_i |ψ⟩`, for every chain length, position, bond dimension and (complex) operator `O`. -/
theorem local_expect_dense (pre post : List (MSite σ ι K)) (A : MSite σ ι K) (O : σ → σ → K)
    (hL : ∀ s, envL 1 pre * A s = A s) (hR : ∀ s, A s * envR post = A s) :
    overlap (pre ++ A :: post) (pre ++ applyOp O A :: post) = localContract A (applyOp O A) := by
  rw [overlap_one_site]
  unfold localContract
  refine Finset.sum_congr rfl fun s _ => ?_
  have : (A s)ᴴ * envL 1 pre * applyOp O A s * envR post
      = (A s)ᴴ * ((envL 1 pre * applyOp O A s) * envR post) := by simp only [Matrix.mul_assoc]
  rw [this, applyOp_left O A _ hL s, applyOp_right O A _ hR s]

/-- **C11.4** the hypotheses of `local_expect_dense` hold in the mixed-canonical form with square isometries -/
theorem local_expect_dense_canonical (pre post : List (MSite σ ι K)) (A : MSite σ ι K) (O : σ → σ → K)
    (hpre : ∀ B ∈ pre, ∑ s, (B s)ᴴ * B s = 1) (hpost : ∀ B ∈ post, ∑ s, B s * (B s)ᴴ = 1) :
    overlap (pre ++ A :: post) (pre ++ applyOp O A :: post) = localContract A (applyOp O A) := by
  apply local_expect_dense
  · intro s; rw [envL_one_of_leftIso pre hpre, Matrix.one_mul]
  · intro s; rw [envR_one_of_rightIso post hpost, Matrix.mul_one]

/-- **C11.4 (adjacent two-site)** `local_expect` merges the two tensors, applies the 4×4 operator and splits again
    (`A'[a] · B'[d] = Σ O[(a,d),(a',d')] A[a'] · B[d']`, whatever the split); the two-site contraction
    `contract("abc,dce,abf,dfe->", conj A, conj B, A', B')` then equals the dense `⟨ψ| O_{i,i+1} |ψ⟩` when the centre
    is on the left site of the pair (`E_L A = A`) and the rest is right-isometric (`B E_R = B`). -/
theorem local_expect_dense_two_site (pre post : List (MSite σ ι K)) (A B A' B' : MSite σ ι K)
    (O : σ × σ → σ × σ → K)
    (hθ : ∀ a d, A' a * B' d = ∑ p : σ × σ, O (a, d) p • (A p.1 * B p.2))
    (hL : ∀ s, envL 1 pre * A s = A s) (hR : ∀ s, B s * envR post = B s) :
    overlap (pre ++ A :: B :: post) (pre ++ A' :: B' :: post)
      = ∑ a, ∑ d, trace ((A a * B d)ᴴ * (A' a * B' d)) := by
  unfold overlap
  rw [overlapFrom_prefix]
  simp only [overlapFrom]
  rw [overlapFrom_same]
  simp only [transfer, Matrix.mul_sum, Matrix.sum_mul, trace_sum]
  rw [Finset.sum_comm]
  refine Finset.sum_congr rfl fun a _ => Finset.sum_congr rfl fun d _ => ?_
  have hL' : envL 1 pre * (A' a * B' d) = A' a * B' d := by
    rw [hθ a d, Matrix.mul_sum]
    refine Finset.sum_congr rfl fun p _ => ?_
    rw [Matrix.mul_smul, ← Matrix.mul_assoc, hL]
  have hR' : (A' a * B' d) * envR post = A' a * B' d := by
    rw [hθ a d, Matrix.sum_mul]
    refine Finset.sum_congr rfl fun p _ => ?_
    rw [Matrix.smul_mul, Matrix.mul_assoc, hR]
  have : (B d)ᴴ * ((A a)ᴴ * envL 1 pre * A' a) * B' d * envR post
      = ((B d)ᴴ * (A a)ᴴ) * ((envL 1 pre * (A' a * B' d)) * envR post) := by
    simp only [Matrix.mul_assoc]
  rw [this, hL', hR', Matrix.conjTranspose_mul]


/-! concrete instance (bond dimension 2, integer entries): a left isometry, a centre tensor, a right isometry -/
def exL : MSite (Fin 2) (Fin 2) ℤ := fun s => if s = 0 then !![1, 0; 0, 0] else !![0, 1; 0, 0]
def exC : MSite (Fin 2) (Fin 2) ℤ := fun s => if s = 0 then !![1, 2; 0, 1] else !![0, -1; 3, 0]
def exR : MSite (Fin 2) (Fin 2) ℤ := fun s => if s = 0 then !![1, 0; 0, 0] else !![0, 0; 1, 0]
def exO : Fin 2 → Fin 2 → ℤ := fun s t => if s = t then 0 else if s = 0 then 2 else 5

/-- the hypotheses of `local_expect_dense_canonical` are met, and both sides evaluate to the same number -/
example : (∀ B ∈ [exL], ∑ s, (B s)ᴴ * B s = 1) ∧ (∀ B ∈ [exR], ∑ s, B s * (B s)ᴴ = 1) ∧
    overlap [exL, exC, exR] [exL, applyOp exO exC, exR] = -14 ∧ localContract exC (applyOp exO exC) = -14 := by
  refine ⟨by simp only [List.mem_singleton, forall_eq]; decide, by simp only [List.mem_singleton, forall_eq]; decide,
    by decide, by decide⟩

end Yaqs.LocalExpect


/-!
## extension: bond entropy and Schmidt spectrum are the Schmidt data of the dense state

`MPS.get_entropy([i, i+1])` / `MPS.get_schmidt_spectrum([i, i+1])` merge the site tensors `a = tensors[i]`,
`b = tensors[i+1]` into `theta_mat[(σ, l), (τ, r)] = Σ_c a[σ, l, c] · b[τ, c, r]` (`thetaM`; the executable list
version `thetaMat` of `Model/Schmidt.lean` is tied to the real code on every run) and take its singular values.
`evaluate_observables` (since 0704f22) first walks the orthogonality centre to site `i` (`centre_walk` above: the
entropy / Schmidt entry is evaluated with the tracked centre on `sites[0] = min(sites)`), so sites `0 … i-1` are left
isometries (the `Q` factors of the QR shifts), site `i` is the centre and sites `i+1 … L-1` are right isometries
(the simulator's B form).  The theorems: in that form the dense amplitude matrix of the cut is `P · M · Q` with `P`
an isometry and `Q` a co-isometry, hence the reduced density matrices of the two halves are isometric images of
`M Mᴴ` / `Mᴴ M`, their non-zero spectrum is `{s_k²}` for the singular values `s_k` of `M` (eigen-equation and all
power traces), and the number / array returned is `−Σ p_k log(p_k + tiny)`, `p_k = s_k² / Σ s²`, resp. the
NaN-padded `s`.  The SVD itself is a hypothesis (`M = U diag(s) V`, `Uᴴ U = 1`, `V Vᴴ = 1`, `s` real), spec-tied on
the matrices actually seen.  "Power traces determine the spectrum" (Newton's identities) is cited, not formalised.
-/
namespace Yaqs.Schmidt
open Matrix Yaqs.LocalExpect

section Blocks
variable {K : Type*} [CommRing K] [StarRing K]
variable {α β σ σ' ιa ι κ ι' ιb k : Type*}
variable [Fintype α] [Fintype β] [Fintype σ] [Fintype σ'] [Fintype ιa] [Fintype ι] [Fintype κ] [Fintype ι'] [Fintype ιb]
  [Fintype k]
variable [DecidableEq α] [DecidableEq β] [DecidableEq σ] [DecidableEq σ'] [DecidableEq ιa] [DecidableEq ι]
  [DecidableEq κ] [DecidableEq ι'] [DecidableEq ιb] [DecidableEq k]

/-- **C11.5 (`cut_factorisation`, entropy / Schmidt clause)**  Let the sites left of the cut contribute the blocks
    `Lf τ_L` (product of the site matrices of sites `0 … i-1` for the left configuration `τ_L`) with
    `Σ_τ Lf(τ)ᴴ Lf(τ) = 1` (left-canonical prefix), the sites right of it the blocks `Rf τ_R` with
    `Σ_τ Rf(τ) Rf(τ)ᴴ = 1` (right-canonical suffix), `A = tensors[i]` (the centre), `B = tensors[i+1]` — any bond
    dimensions, nothing padded, the two physical dimensions may differ.  `A` and `B` are arbitrary: the centre may
    sit on either tensor of the cut (`get_entropy` with the centre on `i+1` is the same number; tied).  Then the dense amplitude matrix of the cut
    `Ψ[(σ_0 … σ_i), (σ_{i+1} … σ_{L-1})]` is `P · M · Q` with `M` exactly the matrix the code hands to the SVD,
    `Pᴴ P = 1` and `Q Qᴴ = 1`. -/
theorem cut_factorisation (Lf : α → Matrix ιa ι K) (A : σ → Matrix ι κ K) (B : σ' → Matrix κ ι' K)
    (Rf : β → Matrix ι' ιb K) (hL : ∑ a, (Lf a)ᴴ * Lf a = 1) (hR : ∑ b, Rf b * (Rf b)ᴴ = 1) :
    psiM Lf A B Rf = leftP Lf * thetaM A B * rightQ Rf ∧
    (leftP (σ := σ) Lf)ᴴ * leftP (σ := σ) Lf = 1 ∧
    rightQ (σ' := σ') Rf * (rightQ (σ' := σ') Rf)ᴴ = 1 :=
  ⟨psiM_eq Lf A B Rf, leftP_isometry Lf hL, rightQ_coisometry Rf hR⟩

/-- **C11.5 (`schmidt_from_centre`)**  Hence the reduced density matrix of the left half `Ψ Ψᴴ` is the isometric image
    `P (M Mᴴ) Pᴴ` of the Gram matrix of what the code SVDs, and that of the right half `Ψᴴ Ψ` is `Qᴴ (Mᴴ M) Q`. -/
theorem schmidt_from_centre (Lf : α → Matrix ιa ι K) (A : σ → Matrix ι κ K) (B : σ' → Matrix κ ι' K)
    (Rf : β → Matrix ι' ιb K) (hL : ∑ a, (Lf a)ᴴ * Lf a = 1) (hR : ∑ b, Rf b * (Rf b)ᴴ = 1) :
    psiM Lf A B Rf * (psiM Lf A B Rf)ᴴ = leftP Lf * (thetaM A B * (thetaM A B)ᴴ) * (leftP Lf)ᴴ ∧
    (psiM Lf A B Rf)ᴴ * psiM Lf A B Rf = (rightQ Rf)ᴴ * ((thetaM A B)ᴴ * thetaM A B) * rightQ Rf := by
  constructor
  · exact gram_left _ _ _ _ (psiM_eq Lf A B Rf) (by rw [rightQ_coisometry Rf hR, Matrix.mul_one])
  · exact gram_right _ _ _ _ (psiM_eq Lf A B Rf) (by rw [leftP_isometry Lf hL, Matrix.one_mul])

/-- **C11.5 (`schmidt_from_centre`, environment form)**  The same with the weaker hypotheses of `local_expect_dense`
    (zero-padded bonds, where the environments are projectors rather than identities): it is enough that the right
    environment `E_R = Σ_τ Rf(τ) Rf(τ)ᴴ` is absorbed by `B` (`B[τ] E_R = B[τ]`) for the left half, and that the left
    environment `E_L` is absorbed by the centre (`E_L A[σ] = A[σ]`) for the right half. -/
theorem schmidt_from_centre_env (Lf : α → Matrix ιa ι K) (A : σ → Matrix ι κ K) (B : σ' → Matrix κ ι' K)
    (Rf : β → Matrix ι' ιb K) :
    ((∀ t, B t * (∑ b, Rf b * (Rf b)ᴴ) = B t) →
      psiM Lf A B Rf * (psiM Lf A B Rf)ᴴ = leftP Lf * (thetaM A B * (thetaM A B)ᴴ) * (leftP Lf)ᴴ) ∧
    ((∀ s, (∑ a, (Lf a)ᴴ * Lf a) * A s = A s) →
      (psiM Lf A B Rf)ᴴ * psiM Lf A B Rf = (rightQ Rf)ᴴ * ((thetaM A B)ᴴ * thetaM A B) * rightQ Rf) := by
  constructor
  · intro h
    refine gram_left _ _ _ _ (psiM_eq Lf A B Rf) ?_
    rw [rightQ_gram, thetaM_mul_kronOne]
    congr 1; funext t; exact h t
  · intro h
    refine gram_right _ _ _ _ (psiM_eq Lf A B Rf) ?_
    rw [leftP_gram, kronOne_mul_thetaM]
    congr 1; funext s; exact h s

/-- **C11.5 (`schmidt_values`: the singular values the code reads are the Schmidt coefficients)**  With the SVD spec
    for the matrix the code decomposes (`M = U diag(s) V`, `Uᴴ U = 1`, `V Vᴴ = 1`, `s` real) and `W = P U`:
    `W` is an isometry, `ρ_left = Ψ Ψᴴ = W diag(s²) Wᴴ`, every column of `W` is an eigenvector of `ρ_left` with
    eigenvalue `s_k²`, and `tr ρ_leftⁿ = Σ_k s_k^{2n} = tr ρ_rightⁿ` for every `n ≥ 1` — the power traces, which
    determine the non-zero spectrum with multiplicities (over a field of characteristic 0; cited).  `n = 1`:
    `Σ s_k² = ⟨ψ|ψ⟩`, the `norm` the code divides by. -/
theorem schmidt_values (Lf : α → Matrix ιa ι K) (A : σ → Matrix ι κ K) (B : σ' → Matrix κ ι' K)
    (Rf : β → Matrix ι' ιb K) (hL : ∑ a, (Lf a)ᴴ * Lf a = 1) (hR : ∑ b, Rf b * (Rf b)ᴴ = 1)
    (U : Matrix (σ × ι) k K) (s : k → K) (V : Matrix k (σ' × ι') K)
    (hM : thetaM A B = U * diagonal s * V) (hU : Uᴴ * U = 1) (hV : V * Vᴴ = 1) (hs : ∀ i, star (s i) = s i) :
    let Ψ := psiM Lf A B Rf
    let W := leftP Lf * U
    Wᴴ * W = 1 ∧
    Ψ * Ψᴴ = W * diagonal (fun i => s i ^ 2) * Wᴴ ∧
    (∀ i, (Ψ * Ψᴴ).mulVec (fun r => W r i) = s i ^ 2 • fun r => W r i) ∧
    (∀ n : ℕ, trace ((Ψ * Ψᴴ) ^ (n + 1)) = ∑ i, s i ^ (2 * (n + 1))) ∧
    (∀ n : ℕ, trace ((Ψᴴ * Ψ) ^ (n + 1)) = ∑ i, s i ^ (2 * (n + 1))) := by
  intro Ψ W
  have hP := leftP_isometry (σ := σ) Lf hL
  have hQ := rightQ_coisometry (σ' := σ') Rf hR
  have hW : Wᴴ * W = 1 := by
    show (leftP Lf * U)ᴴ * (leftP Lf * U) = 1
    rw [Matrix.conjTranspose_mul]
    calc Uᴴ * (leftP Lf)ᴴ * (leftP Lf * U) = Uᴴ * (((leftP Lf)ᴴ * leftP Lf) * U) := by simp only [Matrix.mul_assoc]
      _ = 1 := by rw [hP, Matrix.one_mul, hU]
  have hρ : Ψ * Ψᴴ = W * diagonal (fun i => s i ^ 2) * Wᴴ := by
    rw [(schmidt_from_centre Lf A B Rf hL hR).1, svd_gram_left _ U s V hM hV hs]
    show _ = leftP Lf * U * _ * (leftP Lf * U)ᴴ
    rw [Matrix.conjTranspose_mul]
    simp only [Matrix.mul_assoc]
  have hρW : Ψ * Ψᴴ * W = W * diagonal (fun i => s i ^ 2) := by
    rw [hρ, Matrix.mul_assoc, hW, Matrix.mul_one]
  have hpow : ∀ i n, (s i ^ 2) ^ (n + 1) = s i ^ (2 * (n + 1)) := fun i n => (pow_mul _ _ _).symm
  refine ⟨hW, hρ, ?_, ?_, ?_⟩
  · intro i
    funext r
    have := congrFun (congrFun hρW r) i
    rw [Matrix.mul_diagonal] at this
    simp only [Matrix.mulVec, dotProduct, Pi.smul_apply, smul_eq_mul]
    rw [Matrix.mul_apply] at this
    rw [this, mul_comm]
  · intro n
    rw [hρ, iso_conj_pow_trace W _ hW n]
    exact Finset.sum_congr rfl fun i _ => hpow i n
  · intro n
    let W' : Matrix ((σ' × β) × ιb) k K := (rightQ Rf)ᴴ * Vᴴ
    have hWt : W'ᴴ = V * rightQ Rf := by
      show ((rightQ Rf)ᴴ * Vᴴ)ᴴ = _
      rw [Matrix.conjTranspose_mul, Matrix.conjTranspose_conjTranspose, Matrix.conjTranspose_conjTranspose]
    have hW' : W'ᴴ * W' = (1 : Matrix k k K) := by
      rw [hWt]
      show V * rightQ Rf * ((rightQ Rf)ᴴ * Vᴴ) = (1 : Matrix k k K)
      rw [Matrix.mul_assoc, ← Matrix.mul_assoc (rightQ Rf), hQ, Matrix.one_mul, hV]
    have hρ' : Ψᴴ * Ψ = W' * diagonal (fun i => s i ^ 2) * W'ᴴ := by
      rw [(schmidt_from_centre Lf A B Rf hL hR).2, svd_gram_right _ U s V hM hU hs, hWt]
      show _ = (rightQ Rf)ᴴ * Vᴴ * _ * _
      simp only [Matrix.mul_assoc]
    rw [hρ', iso_conj_pow_trace W' _ hW' n]
    exact Finset.sum_congr rfl fun i _ => hpow i n

end Blocks

section ChainForm
variable {K : Type*} [CommRing K] [StarRing K] {ι σ : Type*} [Fintype ι] [DecidableEq ι] [Fintype σ] [DecidableEq σ]

/-- **C11.5 (`cut_factorisation` for the chain the code holds)**  For the tensor list `pre ++ A :: B :: post` with
    every tensor of `pre` a left isometry and every tensor of `post` a right isometry (uniform bond type, as in
    `local_expect_dense_canonical`; `A` is the centre, `B` is arbitrary — in the code it is a right isometry too),
    every dense amplitude `(Π_k T_k[τ_k])[a, b]` is the entry of `P · M · Q` at row `(τ_0 … τ_i; a)`, column
    `(τ_{i+1} … τ_{L-1}; b)`, where `P` / `Q` are built from the products of the prefix / suffix tensors and satisfy
    `Pᴴ P = 1`, `Q Qᴴ = 1`: the hypotheses of `schmidt_from_centre` / `schmidt_values` hold for the form
    `evaluate_observables` establishes before calling `get_entropy` / `get_schmidt_spectrum`. -/
theorem cut_factorisation_chain (pre post : List (MSite σ ι K)) (A B : MSite σ ι K)
    (hpre : ∀ X ∈ pre, ∑ s, (X s)ᴴ * X s = 1) (hpost : ∀ X ∈ post, ∑ s, X s * (X s)ᴴ = 1) :
    (∀ (τL : Fin pre.length → σ) (s t : σ) (τR : Fin post.length → σ) (a b : ι),
      LocalExpect.chain (pre ++ A :: B :: post) (List.ofFn τL ++ s :: t :: List.ofFn τR) a b
        = (leftP (block pre) * thetaM A B * rightQ (block post) :
            Matrix (((Fin pre.length → σ) × σ) × ι) ((σ × (Fin post.length → σ)) × ι) K) ((τL, s), a) ((t, τR), b)) ∧
    ∑ τ, (block pre τ)ᴴ * block pre τ = 1 ∧ ∑ τ, block post τ * (block post τ)ᴴ = 1 := by
  refine ⟨?_, ?_, ?_⟩
  · intro τL s t τR a b
    rw [← psiM_chain, psiM_eq]
  · have := sum_block_left pre (1 : Matrix ι ι K)
    simp only [Matrix.mul_one] at this
    rw [this, envL_one_of_leftIso pre hpre]
  · rw [sum_block_right, envR_one_of_rightIso post hpost]

end ChainForm

/-- **C11.5 (the matrix the driver computes is the matrix of the theorems)**  `thetaMat` of `Model/Schmidt.lean` —
    run by the driver on the real tensors and compared with the matrix the real `get_entropy` /
    `get_schmidt_spectrum` hand to `np.linalg.svd` — is `thetaM A B` with rows / columns in the order of numpy's
    C-order reshape of `theta` (axes `(phys_i, left, phys_j, right)`): row `σ·χ_l + l`, column `τ·χ_r + r`. -/
theorem code_matrix_is_model_matrix {K : Type} [CommRing K] {d d' χl χ χr : ℕ}
    (A : Fin d → Matrix (Fin χl) (Fin χ) K) (B : Fin d' → Matrix (Fin χ) (Fin χr) K) :
    thetaMat χr (tensorList A) (tensorList B)
      = List.ofFn fun i : Fin (d * χl) => List.ofFn fun j : Fin (d' * χr) =>
          thetaM A B (finProdFinEquiv.symm i) (finProdFinEquiv.symm j) :=
  thetaMat_refines A B

/-! ### concrete instance: `3|000⟩ + 4|111⟩` (unnormalised, integer entries) with the centre on site 1, cut (1,2) -/

/-- site 0 as a left isometry (`1 × 2` blocks) -/
def exL0 : Fin 2 → Matrix (Fin 1) (Fin 2) ℤ := fun s => if s = 0 then !![1, 0] else !![0, 1]
/-- site 1, the centre -/
def exA1 : Fin 2 → Matrix (Fin 2) (Fin 2) ℤ := fun s => if s = 0 then !![3, 0; 0, 0] else !![0, 0; 0, 4]
/-- site 2, a right isometry -/
def exB2 : Fin 2 → Matrix (Fin 2) (Fin 1) ℤ := fun s => if s = 0 then !![1; 0] else !![0; 1]
/-- nothing right of site 2 -/
def exR3 : Unit → Matrix (Fin 1) (Fin 1) ℤ := fun _ => 1
def exU : Matrix (Fin 2 × Fin 2) (Fin 2) ℤ := fun p i => if p = (0, 0) ∧ i = 0 ∨ p = (1, 1) ∧ i = 1 then 1 else 0
def exV : Matrix (Fin 2) (Fin 2 × Fin 1) ℤ := fun i q => if i = 0 ∧ q = (0, 0) ∨ i = 1 ∧ q = (1, 0) then 1 else 0
def exS : Fin 2 → ℤ := ![3, 4]

/-- the hypotheses of `cut_factorisation` / `schmidt_values` are met by a concrete entangled state, the list model
    gives the same matrix, and the power traces are those of the Schmidt coefficients `3, 4` -/
example : (∑ a, (exL0 a)ᴴ * exL0 a = 1) ∧ (∑ b, exR3 b * (exR3 b)ᴴ = 1) ∧
    thetaM exA1 exB2 = exU * diagonal exS * exV ∧ exUᴴ * exU = 1 ∧ exV * exVᴴ = 1 ∧ (∀ i, star (exS i) = exS i) ∧
    thetaMat 1 (tensorList exA1) (tensorList exB2) = [[3, 0], [0, 0], [0, 0], [0, 4]] ∧
    trace (psiM exL0 exA1 exB2 exR3 * (psiM exL0 exA1 exB2 exR3)ᴴ) = 25 ∧
    trace ((psiM exL0 exA1 exB2 exR3 * (psiM exL0 exA1 exB2 exR3)ᴴ) ^ 2) = 337 := by
  refine ⟨by decide +kernel, by decide +kernel, by decide +kernel, by decide +kernel, by decide +kernel,
    by decide +kernel, by decide +kernel, by decide +kernel, by decide +kernel⟩

/-! ### D28: with the centre elsewhere the two-site matrix is not isometrically related to the state -/

/-- site 0 holding the centre (the state as the simulator hands it over: B form) -/
def offL0 : Fin 2 → Matrix (Fin 1) (Fin 2) ℤ := fun s => if s = 0 then !![3, 0] else !![0, 4]
/-- site 1 as a right isometry -/
def offA1 : Fin 2 → Matrix (Fin 2) (Fin 2) ℤ := fun s => if s = 0 then !![1, 0; 0, 0] else !![0, 0; 0, 1]

/-- **C11.5 (`centre_off_cut_counterexample`, D28)**  The same state `3|000⟩ + 4|111⟩` with the orthogonality centre
    left on site 0 (what `evaluate_observables` did before 0704f22 for the cut (1,2)): the matrix
    `M' = theta(tensors[1], tensors[2])` the code would SVD is **not** `Ψ` up to isometries — no `P`, `Q` with
    `Pᴴ P = 1`, `Q Qᴴ = 1`, `Ψ = P M' Q` exist — and not even up to a scalar: the normalised purity
    `Σ p_k² = tr(ρ²)/tr(ρ)²` is `1/2` for `M'` (entropy `log 2` reported whatever the amplitudes) but `337/625` for
    the state.  Hence the hypothesis "prefix left-isometric" of `cut_factorisation` cannot be dropped. -/
theorem centre_off_cut_counterexample :
    psiM offL0 offA1 exB2 exR3 = psiM exL0 exA1 exB2 exR3 ∧
    (¬ ∃ (P : Matrix ((Fin 2 × Fin 2) × Fin 1) (Fin 2 × Fin 2) ℤ) (Q : Matrix (Fin 2 × Fin 1) ((Fin 2 × Unit) × Fin 1) ℤ),
      Pᴴ * P = 1 ∧ Q * Qᴴ = 1 ∧ psiM offL0 offA1 exB2 exR3 = P * thetaM offA1 exB2 * Q) ∧
    trace ((thetaM offA1 exB2 * (thetaM offA1 exB2)ᴴ) ^ 2)
        * trace (psiM offL0 offA1 exB2 exR3 * (psiM offL0 offA1 exB2 exR3)ᴴ) ^ 2
      ≠ trace ((psiM offL0 offA1 exB2 exR3 * (psiM offL0 offA1 exB2 exR3)ᴴ) ^ 2)
        * trace (thetaM offA1 exB2 * (thetaM offA1 exB2)ᴴ) ^ 2 := by
  refine ⟨by decide +kernel, ?_, by decide +kernel⟩
  rintro ⟨P, Q, hP, hQ, hΨ⟩
  have h := gram_left _ P _ Q hΨ (by rw [hQ, Matrix.mul_one])
  have ht : trace (psiM offL0 offA1 exB2 exR3 * (psiM offL0 offA1 exB2 exR3)ᴴ)
      = trace (thetaM offA1 exB2 * (thetaM offA1 exB2)ᴴ) := by
    rw [h, trace_mul_comm, ← Matrix.mul_assoc, hP, Matrix.one_mul]
  revert ht
  decide +kernel

/-! ### the numbers returned -/

/-- **C11.6 (`entropy_formula`)**  What `get_entropy` returns, over `ℝ`: `0` if the bond has dimension 1 or the state
    is numerically zero, otherwise `−Σ_k p_k · log(p_k + ε)` with `p_k = s_k² / Σ_j s_j²` (natural logarithm,
    `ε = np.finfo(float64).tiny`); the `p_k` are non-negative and sum to one, so it is the entropy of the
    *normalised* state.  There is no cut-off on small `p_k`: every singular value LAPACK returns enters. -/
theorem entropy_formula (eps : ℝ) (bond : ℕ) (s : List ℝ) :
    entropyR eps 1 s = 0 ∧ (sumSq s = 0 → entropyR eps bond s = 0) ∧
    (bond ≠ 1 → sumSq s ≠ 0 →
      entropyR eps bond s = -((probs s).map fun p => p * Real.log (p + eps)).sum ∧
      (∀ p ∈ probs s, 0 ≤ p) ∧ (probs s).sum = 1) :=
  ⟨entropyR_bond_one eps s, entropyR_zero_norm eps bond s,
   fun hb hn => ⟨entropyR_formula eps bond s hb hn, probs_nonneg s, probs_sum s hn⟩⟩

/-- **C11.6 (`entropy_eps_error`: what the `+ tiny` does)**  A term with `p_k = 0` (exactly zero singular value,
    rank-deficient block) contributes exactly `0` for every `ε` — where `p · log p` would be `0 · (−∞) = NaN` in floating
    point; and for `ε > 0` the returned number differs from the von Neumann entropy `−Σ p_k log p_k` of the Schmidt
    probabilities by at most `n · ε` (`n` = number of singular values), never upwards. -/
theorem entropy_eps_error (eps : ℝ) (bond : ℕ) (s : List ℝ) (hb : bond ≠ 1) (hn : sumSq s ≠ 0) (he : 0 < eps) :
    (0 : ℝ) * Real.log (0 + eps) = 0 ∧
    entropyR eps bond s ≤ shannon (probs s) ∧ shannon (probs s) - entropyR eps bond s ≤ s.length * eps := by
  have h := sum_eps (probs s) eps (probs_nonneg s) he
  have hlen : (probs s).length = s.length := by simp [probs]
  rw [entropyR_formula eps bond s hb hn]
  unfold shannon
  rw [hlen] at h
  refine ⟨by simp, by linarith [h.1], by linarith [h.2]⟩

/-- **C11.6 (the `a.shape[2] == 1` shortcut is consistent)**  a cut with a single non-zero singular value has entropy
    `0` in the general branch too (`ε = 0`) -/
theorem entropy_single (bond : ℕ) (x : ℝ) (hx : x ≠ 0) : entropyR 0 bond [x] = 0 := entropyR_single bond x hx

example : entropyR 0 2 [1, 1] = Real.log 2 := by
  have h : sumSq ([1, 1] : List ℝ) ≠ 0 := by norm_num [sumSq]
  rw [entropyR_formula 0 2 _ (by decide) h]
  norm_num [probs, sumSq]
  have : Real.log (1 / 2) = -Real.log 2 := by rw [one_div, Real.log_inv]
  rw [this]; ring

/-- **C11.6 (`schmidt_padding`)**  What `get_schmidt_spectrum` returns (`top = 500`; `none` = NaN): always exactly
    `top` entries; for a bond of dimension ≠ 1 entry `k` is the `k`-th singular value for `k < min(top, len s)` —
    unnormalised, in LAPACK's (descending) order — and NaN behind; more than `top` values are cut. -/
theorem schmidt_padding {α : Type} [One α] (top bond : ℕ) (s : List α) :
    (schmidtPad top bond s).length = top ∧
    (bond ≠ 1 → ∀ k, k < top →
      (∀ h : k < s.length, (schmidtPad top bond s)[k]? = some (some s[k])) ∧
      (s.length ≤ k → (schmidtPad top bond s)[k]? = some none)) :=
  ⟨schmidtPad_length top bond s, fun hb k hk =>
    ⟨fun h => schmidtPad_getElem_lt top bond s hb k hk h, fun h => schmidtPad_getElem_ge top bond s hb k hk h⟩⟩

/-- **C11.6 (link to C15 `schmidt_is_concatenation`)**  every row a back-end produces for a Schmidt observable has the
    fixed width `top`, so the concatenation of `T` trajectories' rows that `aggregate_trajectories` builds
    (C15 `schmidt_is_concatenation`: `results = rows.flatten`, trajectory `i` at offset `i · cols`) has `T · top`
    entries with `cols = top`, whatever the bond dimensions of the individual trajectories were. -/
theorem schmidt_rows_concatenate {α : Type} [One α] (top : ℕ) (rows : List (ℕ × List α)) :
    ((rows.map fun r => schmidtPad top r.1 r.2).flatten).length = rows.length * top := by
  induction rows with
  | nil => simp
  | cons r rs ih =>
    simp only [List.map_cons, List.flatten_cons, List.length_append, List.length_cons, ih, schmidtPad_length]
    ring

example : schmidtPad 4 2 [(3 : ℚ) / 5, 2 / 5] = [some (3 / 5), some (2 / 5), none, none] ∧
    schmidtPad 2 3 [(3 : ℚ), 2, 1] = [some 3, some 2] ∧ schmidtPad 3 1 [(7 : ℚ)] = [some 1, none, none] := by
  decide +kernel

end Yaqs.Schmidt
