import YaqsModel.Lemmas.Attribution
import YaqsModel.Lemmas.LocalExpect
import Mathlib.LinearAlgebra.Matrix.Notation

/-!
# C11 — every observable object receives its own value, whatever the listing order

Property theorems only (helper lemmas: `Lemmas/Attribution.lean`; executable model: `Model/Attribution.lean`).

The numeric half of the property ("… equals the value computed from the dense state vector") is decided on the
real code by the dense oracle of `harness/impl/C11.py` for every observable kind; the theorems here settle the
attribution logic for *all* lists of observables, all chain lengths, all numbers of trajectories:
which object sits in which row, where the orthogonality centre is when a local operator is evaluated, and which
object the averaged row is written to.  (`local_expect_dense` is in the second half of this file.)
-/
namespace Yaqs.Attribution

/-- example list: `Z@2, X@0, max_bond, ZZ@(1,2), entropy@(0,1), Y@2` in the user's order -/
def exObs : List Obs :=
  [⟨0, .local1, 2⟩, ⟨1, .local1, 0⟩, ⟨2, .maxBond, 0⟩, ⟨3, .local2, 1⟩, ⟨4, .entropy, 0⟩, ⟨5, .local1, 2⟩]

/-- **C11.1** `sorted_observables` is a permutation of the user's list (same objects, none lost, none doubled). -/
theorem sorted_is_perm (obs : List Obs) : (sortedObservables obs).Perm obs := by
  unfold sortedObservables
  refine ((sortBySite_perm _).append_right _).trans ?_
  have h := List.filter_append_perm (fun o : Obs => o.kind.unsorted) obs
  exact List.perm_append_comm.trans h

/-- **C11.1b** its site-sorted part is in non-decreasing order of the first site, the diagnostics follow, and
    observables on the same site keep their listing order (Python's `sorted` is stable). -/
theorem sorted_by_site (obs : List Obs) :
    ∃ pre post, sortedObservables obs = pre ++ post ∧
      pre.Pairwise (fun a b => a.site ≤ b.site) ∧ (∀ o ∈ post, o.kind.unsorted = true) ∧
      (∀ o ∈ pre, o.kind.unsorted = false) ∧
      (∀ v, pre.filter (fun x => x.site = v) = (obs.filter fun o => !o.kind.unsorted).filter (fun x => x.site = v)) := by
  refine ⟨_, _, rfl, sortBySite_sorted _, ?_, ?_, fun v => sortBySite_filter _ v⟩
  · intro o ho; simpa using (List.mem_filter.mp ho).2
  · intro o ho
    have := (sortBySite_perm _).mem_iff.mp ho
    simpa using (List.mem_filter.mp this).2

example : (sortedObservables exObs).map (·.id) = [1, 4, 3, 0, 5, 2] := by decide

/-- **C11.2 (centre walk)** For the sorted list of *any* user list:
    1. row `k` of `results` is written for `sorted[k]`;
    2. every local observable is evaluated when the tracked centre `last_site` is its own first site, and exactly that
       many shifts have been issued before — so for a state that came in with its centre at site 0 the real
       orthogonality centre is at `sites[0]` (for an entropy / Schmidt cut: on the left site of the cut);
       `runtime_cost`, `max_bond`, `total_bond` and `pvm` entries issue no shift;
    3. the shifts issued are `0, 1, 2, …` in this order: each at the current centre, the walk never goes left. -/
theorem centre_walk (obs : List Obs) :
    rowsOf (evaluateObservables (sortedObservables obs))
      = ((sortedObservables obs).zipIdx 0).map (fun p => (p.2, p.1.id)) ∧
    centresFrom 0 (evaluateObservables (sortedObservables obs))
      = ((sortedObservables obs).filter fun o => o.kind.moves).map (fun o => (o.id, o.site, o.site)) ∧
    shiftsOf (evaluateObservables (sortedObservables obs)) = List.range (finalCentre 0 (sortedObservables obs)) := by
  refine ⟨rowsOf_walk _ 0 0, ?_, ?_⟩
  · have hms : MovSorted 0 (sortedObservables obs) := by
      refine ⟨fun _ _ _ => Nat.zero_le _, ?_⟩
      show (sortBySite _ ++ _).Pairwise _
      rw [List.pairwise_append]
      refine ⟨(sortBySite_sorted _).imp (fun h _ _ => h), ?_, ?_⟩
      · refine (List.pairwise_of_forall (R := fun _ _ => True) (fun _ _ => trivial)).imp_of_mem ?_
        intro a b _ hb _ _ hbm
        have hb' : b.kind.unsorted = true := by simpa using (List.mem_filter.mp hb).2
        rw [unsorted_not_moves hb'] at hbm; cases hbm
      · intro a _ b hb _ hbm
        have hb' : b.kind.unsorted = true := by simpa using (List.mem_filter.mp hb).2
        rw [unsorted_not_moves hb'] at hbm; cases hbm
    have h := centresFrom_walk (sortedObservables obs) 0 0 0 hms
    simpa [evaluateObservables] using h
  · have h := shiftsOf_walk (sortedObservables obs) 0 0
    rw [List.range_eq_range']
    simpa [evaluateObservables] using h

example : evaluateObservables (sortedObservables exObs) =
    [.evalLocal 0 1 0, .evalLocal 1 4 0, .shift 0, .evalLocal 2 3 1, .shift 1, .evalLocal 3 0 2, .evalLocal 4 5 2,
     .evalSelf 5 2] := by decide

/-- the sort is needed: on the unsorted list `Z@2, X@0` the second operator is evaluated with the centre at site 2 -/
example : evaluateObservables [⟨0, .local1, 2⟩, ⟨1, .local1, 0⟩] =
    [.shift 0, .shift 1, .evalLocal 0 0 2, .evalLocal 1 1 2] := by decide

/-- the code as found before 0704f22 computed entropy / Schmidt spectrum on `self`: for the single observable
    `entropy@(2,3)` no shift is issued, i.e. the two-site SVD is taken with the centre two sites away from the cut
    (reproduced on the real code: 0.955 reported for a dense value of 0.855); the repaired walk moves the centre. -/
example : walkOld 0 0 (sortedObservables [⟨0, .entropy, 2⟩]) = [.evalSelf 0 0] ∧
    evaluateObservables (sortedObservables [⟨0, .entropy, 2⟩]) = [.shift 0, .shift 1, .evalLocal 0 0 2] := by decide

/-- **C11.2b** for every list (sorted or not) the shifts are contiguous and ascending from the start centre -/
theorem walk_never_left (l : List Obs) (last row : Nat) :
    shiftsOf (walk last row l) = List.range' last (finalCentre last l - last) := shiftsOf_walk l last row

/-- **C11.3 (rows to objects)** Let `val j o` be the value of observable `o` on trajectory `j`'s state.  If every
    backend returns row `k` = value of `sorted[k]` (which is what `centre_walk`.1 says `evaluate_observables` writes),
    then after stitching `trajectories[i] = result[obs_index]` over `enumerate(sorted_observables)` every object of the
    user's list holds its own value for every trajectory, and `aggregate` gives it the mean of its own values —
    whatever the order in which the observables were listed (object ids distinct). -/
theorem rows_to_objects (obs : List Obs) (hnd : (obs.map (·.id)).Nodup) (val : Nat → Obs → Rat)
    (results : List (List Rat))
    (hshape : ∀ r ∈ results, r.length = (sortedObservables obs).length)
    (hval : ∀ j (hj : j < results.length) k (hk : k < (sortedObservables obs).length),
      (results[j])[k]'(by rw [hshape _ (List.getElem_mem hj)]; exact hk) = val j (sortedObservables obs)[k]) :
    ∀ o ∈ obs,
      (∀ j, j < results.length → stitchAll (sortedObservables obs) 0 results Store.empty o.id j = some (val j o)) ∧
      aggregate (stitchAll (sortedObservables obs) 0 results Store.empty) results.length o.id
        = mean ((List.range results.length).map fun j => val j o) := by
  intro o ho
  have hperm := sorted_is_perm obs
  have hnd' : ((sortedObservables obs).map (·.id)).Nodup := (hperm.map _).nodup_iff.mpr hnd
  have hmem : o ∈ sortedObservables obs := hperm.mem_iff.mpr ho
  obtain ⟨k, hk, hko⟩ := List.getElem_of_mem hmem
  have key : ∀ j, j < results.length →
      stitchAll (sortedObservables obs) 0 results Store.empty o.id j = some (val j o) := by
    intro j hj
    have h := stitchAll_written (sortedObservables obs) hnd' results 0 Store.empty hshape j hj k hk
    rw [Nat.zero_add, hko] at h
    rw [h, hval j hj k hk, hko]
  refine ⟨key, ?_⟩
  unfold aggregate
  congr 1
  apply List.map_congr_left
  intro j hj
  rw [key j (List.mem_range.mp hj)]
  rfl

/-- with the user's list `Z@2, X@0` and the (correct) rows `[⟨X0⟩, ⟨Z2⟩] = [7, 9]` of one trajectory, object 0 (`Z@2`)
    gets 9 and object 1 gets 7; the rule "row k belongs to the user's k-th observable" would swap them -/
example :
    let obs : List Obs := [⟨0, .local1, 2⟩, ⟨1, .local1, 0⟩]
    (stitchAll (sortedObservables obs) 0 [[7, 9]] Store.empty 0 0 = some 9 ∧
     stitchAll (sortedObservables obs) 0 [[7, 9]] Store.empty 1 0 = some 7) ∧
    stitchByUserIndex obs 0 [[7, 9]] Store.empty 0 0 = some 7 := by decide +kernel

end Yaqs.Attribution


/-!
## the site-local contraction is the dense expectation value

`overlap X Y = Σ_τ tr((Π_k X_k[τ_k])ᴴ Π_k Y_k[τ_k])` is the dense inner product of two chains
(`overlap_is_dense_sum`); `MPS.local_expect` replaces one (two) site tensor(s) by `O` applied to them and calls
`scalar_product(self, modified, sites)`, which contracts *only* the touched site(s).
-/
namespace Yaqs.LocalExpect
open Matrix

variable {K : Type*} [CommRing K] [StarRing K] {ι σ : Type*} [Fintype ι] [DecidableEq ι] [Fintype σ]

/-- **C11.4 (dense definition)** the overlap recursion is the sum over all basis configurations of
    `conj(amplitude of X) · amplitude of Y` -/
theorem overlap_is_dense_sum (X Y : List (MSite σ ι K)) (h : X.length = Y.length) :
    overlap X Y = sumCfg X.length fun τ => trace ((chain X τ)ᴴ * chain Y τ) := by
  unfold overlap
  rw [overlapFrom_eq_sum 1 X Y h]
  simp only [Matrix.mul_one]

/-- **C11.4 (one-site `local_expect_dense`)** If the prefix is left-isometric and the suffix right-isometric as seen
    from the evaluated site (`E_L · A[s] = A[s]`, `A[s] · E_R = A[s]` for the left / right environments — in
    particular when every prefix tensor is a left isometry and every suffix tensor a right isometry, next theorem),
    then the site-local contraction `contract("ijk,ijk", conj(A), O·A)` of `local_expect` equals the dense
    `⟨ψ| O_i |ψ⟩`, for every chain length, position, bond dimension and (complex) operator `O`. -/
theorem local_expect_dense (pre post : List (MSite σ ι K)) (A : MSite σ ι K) (O : σ → σ → K)
    (hL : ∀ s, envL 1 pre * A s = A s) (hR : ∀ s, A s * envR post = A s) :
    overlap (pre ++ A :: post) (pre ++ applyOp O A :: post) = localContract A (applyOp O A) := by
  rw [overlap_one_site]
  unfold localContract
  refine Finset.sum_congr rfl fun s _ => ?_
  have : (A s)ᴴ * envL 1 pre * applyOp O A s * envR post
      = (A s)ᴴ * ((envL 1 pre * applyOp O A s) * envR post) := by simp only [Matrix.mul_assoc]
  rw [this, applyOp_left O A _ hL s, applyOp_right O A _ hR s]

/-- **C11.4** the hypotheses of `local_expect_dense` hold in the mixed-canonical form with square isometries -/
theorem local_expect_dense_canonical (pre post : List (MSite σ ι K)) (A : MSite σ ι K) (O : σ → σ → K)
    (hpre : ∀ B ∈ pre, ∑ s, (B s)ᴴ * B s = 1) (hpost : ∀ B ∈ post, ∑ s, B s * (B s)ᴴ = 1) :
    overlap (pre ++ A :: post) (pre ++ applyOp O A :: post) = localContract A (applyOp O A) := by
  apply local_expect_dense
  · intro s; rw [envL_one_of_leftIso pre hpre, Matrix.one_mul]
  · intro s; rw [envR_one_of_rightIso post hpost, Matrix.mul_one]

/-- **C11.4 (adjacent two-site)** `local_expect` merges the two tensors, applies the 4×4 operator and splits again
    (`A'[a] · B'[d] = Σ O[(a,d),(a',d')] A[a'] · B[d']`, whatever the split); the two-site contraction
    `contract("abc,dce,abf,dfe->", conj A, conj B, A', B')` then equals the dense `⟨ψ| O_{i,i+1} |ψ⟩` when the centre
    is on the left site of the pair (`E_L A = A`) and the rest is right-isometric (`B E_R = B`). -/
theorem local_expect_dense_two_site (pre post : List (MSite σ ι K)) (A B A' B' : MSite σ ι K)
    (O : σ × σ → σ × σ → K)
    (hθ : ∀ a d, A' a * B' d = ∑ p : σ × σ, O (a, d) p • (A p.1 * B p.2))
    (hL : ∀ s, envL 1 pre * A s = A s) (hR : ∀ s, B s * envR post = B s) :
    overlap (pre ++ A :: B :: post) (pre ++ A' :: B' :: post)
      = ∑ a, ∑ d, trace ((A a * B d)ᴴ * (A' a * B' d)) := by
  unfold overlap
  rw [overlapFrom_prefix]
  simp only [overlapFrom]
  rw [overlapFrom_same]
  simp only [transfer, Matrix.mul_sum, Matrix.sum_mul, trace_sum]
  rw [Finset.sum_comm]
  refine Finset.sum_congr rfl fun a _ => Finset.sum_congr rfl fun d _ => ?_
  have hL' : envL 1 pre * (A' a * B' d) = A' a * B' d := by
    rw [hθ a d, Matrix.mul_sum]
    refine Finset.sum_congr rfl fun p _ => ?_
    rw [Matrix.mul_smul, ← Matrix.mul_assoc, hL]
  have hR' : (A' a * B' d) * envR post = A' a * B' d := by
    rw [hθ a d, Matrix.sum_mul]
    refine Finset.sum_congr rfl fun p _ => ?_
    rw [Matrix.smul_mul, Matrix.mul_assoc, hR]
  have : (B d)ᴴ * ((A a)ᴴ * envL 1 pre * A' a) * B' d * envR post
      = ((B d)ᴴ * (A a)ᴴ) * ((envL 1 pre * (A' a * B' d)) * envR post) := by
    simp only [Matrix.mul_assoc]
  rw [this, hL', hR', Matrix.conjTranspose_mul]


/-! concrete instance (bond dimension 2, integer entries): a left isometry, a centre tensor, a right isometry -/
def exL : MSite (Fin 2) (Fin 2) ℤ := fun s => if s = 0 then !![1, 0; 0, 0] else !![0, 1; 0, 0]
def exC : MSite (Fin 2) (Fin 2) ℤ := fun s => if s = 0 then !![1, 2; 0, 1] else !![0, -1; 3, 0]
def exR : MSite (Fin 2) (Fin 2) ℤ := fun s => if s = 0 then !![1, 0; 0, 0] else !![0, 0; 1, 0]
def exO : Fin 2 → Fin 2 → ℤ := fun s t => if s = t then 0 else if s = 0 then 2 else 5

/-- the hypotheses of `local_expect_dense_canonical` are met, and both sides evaluate to the same number -/
example : (∀ B ∈ [exL], ∑ s, (B s)ᴴ * B s = 1) ∧ (∀ B ∈ [exR], ∑ s, B s * (B s)ᴴ = 1) ∧
    overlap [exL, exC, exR] [exL, applyOp exO exC, exR] = -14 ∧ localContract exC (applyOp exO exC) = -14 := by
  refine ⟨by simp only [List.mem_singleton, forall_eq]; decide, by simp only [List.mem_singleton, forall_eq]; decide,
    by decide, by decide⟩

end Yaqs.LocalExpect
