import YaqsModel.Lemmas.Layers
import YaqsModel.Lemmas.ColumnsDense
import YaqsModel.Lemmas.ColumnsValues
import YaqsModel.Props.C02
import YaqsModel.Lemmas.ColumnsExec

/-!
# C16 — barriers / measurements are transparent; labelled barriers sample where they stand

Property theorems only (helper lemmas: `Lemmas/Layers.lean`; model: `Model/Layers.lean`).

Clauses of the property and the theorem deciding each, all for **every** circuit with any placement of plain
barriers, labelled barriers and measurements, in strong mode with `sample_layers` on / off and in weak mode:

* "the simulation terminates whether or not layer sampling is enabled"   → `iteration_removes_node`,
  `loop_terminates`, `run_terminates`, `loop_fuel_irrelevant`; the loop as found (D12) does not:
  `loop_stuck_old`, `loop_stuck_old_any`.
* "a circuit gives the same results with them removed"                   → `transparent`, `transparent_strip`,
  `prefix_state`.
* "the result columns are initial state, state at each labelled barrier in circuit order, final state"
                                                                         → `columns`, `columns_shape`,
  `columns_in_place` (needs the barrier to be full-width: `columns_partial_counterexample`), `columns_off`;
  the two label predicates as found (D18) break it:
  `columns_mismatch_old`.
* "labelled SAMPLE_OBSERVABLES, case-insensitive"                        → the predicate `isSampleLabel`
  (`strip().upper()`), `examples` below; `process_layer` and `_run_strong_sim` share it by construction of
  `runCircuit`, and `label_count_agree` is the fact that makes the column count right.
-/
namespace Yaqs.Layers

open List

/-! ## termination -/

/-- **C16.T1** Every iteration of the `while dag.op_nodes()` loop removes at least one node: the first
    remaining instruction is always in the front layer and every front node is consumed. -/
theorem iteration_removes_node (i : Instr) (rest : List Instr) :
    (splitFront stayNew [] (i :: rest)).2.length < (i :: rest).length :=
  split_rest_lt i rest

/-- **C16.T2** `digital_tjm` terminates for every circuit in every mode: `length` iterations suffice. -/
theorem loop_terminates (mode : Mode) (numMid : Nat) (c : List Instr) :
    (digitalTjm mode numMid c).isSome = true := by
  unfold digitalTjm digitalTjmWith
  rw [visit_eq c]
  cases mode <;> rfl

/-- **C16.T2'** the same one level up: `_run_circuit` → `_run_strong_sim` / `_run_weak_sim`, raw labels. -/
theorem run_terminates (mode : Mode) (raw : List RawInstr) : (runCircuit mode raw).isSome = true := by
  unfold runCircuit runCircuitWith
  exact loop_terminates mode _ _

/-- **C16.T3** The fuel is not a modelling artefact: any larger fuel gives the same run. -/
theorem loop_fuel_irrelevant (c : List Instr) (k : Nat) :
    visitLoop stayNew (c.length + k) c = visitLoop stayNew c.length c := by
  rw [visit_eq c, visitLoop_eq_visit _ _ (Nat.le_add_right _ _)]

example : digitalTjm .weak 0 [.gate1 0 0, .sbarrier [0, 1], .gate2 1 0 1] =
    some [.app1 0 0, .app2 1 0 1, .shots] := by decide

/-- **C16.T4** (code as found, D12) `h 0; barrier(label=SAMPLE_OBSERVABLES); cx 0 1` without layer sampling:
    the old loop — labelled barrier removed only inside the sampling branch — never finishes,
    whatever the number of iterations allowed. -/
theorem loop_stuck_old (fuel : Nat) :
    visitLoop (stayOld false) fuel [.gate1 0 0, .sbarrier [0, 1], .gate2 1 0 1] = none :=
  visitLoop_stuck (stayOld false) fuel _ (.sbarrier [0, 1]) (by simp) rfl

/-- **C16.T4'** (code as found, D12, in general) *any* circuit containing a labelled barrier hangs the old
    loop in every non-sampling mode (strong without `sample_layers`, weak). -/
theorem loop_stuck_old_any (mode : Mode) (hm : mode.sampling = false) (numMid : Nat) (c : List Instr)
    (qs : List Nat) (hmem : Instr.sbarrier qs ∈ c) (fuel : Nat) :
    visitLoop (stayOld mode.sampling) fuel c = none ∧ digitalTjmOld mode numMid c = none := by
  have h : ∀ f, visitLoop (stayOld mode.sampling) f c = none := fun f =>
    visitLoop_stuck _ f c (.sbarrier qs) hmem (by simp [stayOld, hm, Instr.isSB])
  refine ⟨h fuel, ?_⟩
  unfold digitalTjmOld digitalTjmWith
  rw [h c.length]

/-- with sampling on, the old loop and the repaired loop are the same function -/
theorem old_loop_eq_when_sampling (numMid : Nat) (c : List Instr) :
    digitalTjmOld .strongSample numMid c = digitalTjm .strongSample numMid c := by
  have : stayOld true = stayNew := by funext i; simp [stayOld, stayNew]
  unfold digitalTjmOld digitalTjm digitalTjmWith
  simp only [Mode.sampling, this]

/-! ## columns -/

/-- **C16.C0** `process_layer` and `_run_strong_sim` apply one and the same predicate to the label, so the
    number of barriers the loop will sample equals the number of columns reserved for them. -/
theorem label_count_agree (pred : Option (List Nat) → Bool) (raw : List RawInstr) :
    ((raw.map (classify pred)).filter Instr.isSB).length = countMid pred raw :=
  sbCount_classify pred raw

/-- **C16.C1** (shape of a sampling run) With `sample_layers` on, `digital_tjm` evaluates column 0 before
    anything else, then runs the loop, which writes columns `1 … m` in this order, one per labelled barrier
    of the circuit (`m` = their number), and evaluates column `num_mid_measurements + 1` after everything. -/
theorem columns_shape (numMid : Nat) (c : List Instr) (evs : List Event)
    (h : digitalTjm .strongSample numMid c = some evs) :
    ∃ body, evs = .eval 0 :: (body ++ [.eval (numMid + 1)]) ∧
      evalCols body = List.range' 1 (c.filter Instr.isSB).length := by
  unfold digitalTjm digitalTjmWith at h
  rw [visit_eq c] at h
  simp only [Option.some.injEq] at h
  refine ⟨emit true 0 (visit c), h.symm, ?_⟩
  have := evalCols_emit_true 0 (visit c)
  rw [this, sbCount_perm (visit_perm c)]
  rfl

/-- **C16.C2** (the columns) For a circuit as the user wrote it (raw labels, any case, surrounding
    whitespace), with `sample_layers` on: the evaluation events are exactly columns
    `0, 1, …, n-1` in this order, each once, where `n` is the number of columns `_run_strong_sim` allocates
    (`num_mid_measurements + 2`): initial, one per labelled barrier, final.  No column stays unwritten,
    none is written twice, none is out of range. -/
theorem columns (raw : List RawInstr) (evs : List Event) (h : runCircuit .strongSample raw = some evs) :
    evalCols evs = List.range (numColumns isSampleLabel .strongSample raw) := by
  unfold runCircuit runCircuitWith at h
  simp only [Mode.sampling, if_true] at h
  obtain ⟨body, rfl, hb⟩ := columns_shape _ _ _ h
  have hc := label_count_agree isSampleLabel raw
  rw [hc] at hb
  simp only [numColumns]
  have : evalCols (Event.eval 0 :: (body ++ [Event.eval (countMid isSampleLabel raw + 1)])) =
      0 :: (evalCols body ++ [countMid isSampleLabel raw + 1]) := by
    simp [evalCols, List.filterMap_append]
  rw [this, hb, List.range_eq_range', List.range'_succ, List.range'_concat]
  simp [Nat.add_comm]

/-- **C16.C3** Without layer sampling exactly one column (the final state) is evaluated; in weak mode none. -/
theorem columns_off (numMid : Nat) (c : List Instr) :
    (∀ evs, digitalTjm .strongPlain numMid c = some evs → evalCols evs = [0]) ∧
    (∀ evs, digitalTjm .weak numMid c = some evs → evalCols evs = []) := by
  unfold digitalTjm digitalTjmWith
  rw [visit_eq c]
  have := evalCols_emit_false 0 (visit c)
  unfold evalCols at this
  constructor <;> intro evs h <;> simp only [Option.some.injEq] at h <;> subst h <;>
    simp [evalCols, Mode.sampling, List.filterMap_append, this]

/-- **C16.C4** (sampling happens where the barrier stands) Let a labelled barrier be full-width for the
    circuit `pre ++ sbarrier qs :: post` (every other instruction has a qubit among `qs`) and let `k` be the
    number of labelled barriers in front of it.  Then the sampling run is
    `… gate applications of pre … , eval (k+1), … gate applications of post …`: the gates applied before
    column `k+1` is evaluated are exactly the gates in front of the barrier (in the schedule of `pre` alone),
    the gates applied after it exactly those behind it. Other labelled barriers may be partial.
    The hypothesis "full-width" (`hpre`, `hpost`) is essential and is the excluded point of the property:
    for a labelled barrier that does not span all qubits the statement is false for the model
    (`columns_partial_counterexample`) and for the real code (run on it: `x 0; y 0; barrier(0,label);
    barrier(1,label)` gives `<Z0>` columns `[1,-1,1,1]`; `measure 1; h 1; barrier(0,label)` gives `<X1>` columns
    `[0,0,1]` but `[0,1,1]` with the measurement removed) — known finding D27, key
    `C16:partial-labelled-barrier`, checked on every run by the oracle kind `partial-labelled-barrier`. -/
theorem columns_in_place (numMid : Nat) (pre post : List Instr) (qs : List Nat)
    (hpre : ∀ j ∈ pre, ∃ q ∈ j.qubits, q ∈ qs) (hpost : ∀ j ∈ post, ∃ q ∈ j.qubits, q ∈ qs) :
    ∃ before after,
      digitalTjm .strongSample numMid (pre ++ .sbarrier qs :: post) =
        some (before ++ .eval ((pre.filter Instr.isSB).length + 1) :: after) ∧
      before.filter Event.isApp = (schedule pre).filterMap Event.ofInstr ∧
      after.filter Event.isApp = (schedule post).filterMap Event.ofInstr ∧
      evalCols before = List.range ((pre.filter Instr.isSB).length + 1) := by
  have toW : ∀ l : List Instr, (∀ j ∈ l, ∃ q ∈ j.qubits, q ∈ qs) →
      ∀ j ∈ l, ∃ w ∈ j.wires, w ∈ (Instr.sbarrier qs).wires := by
    intro l hl j hj
    obtain ⟨q, hq, hqs⟩ := hl j hj
    exact ⟨Wire.q q, by simp [Instr.wires, hq], by simp [Instr.wires, Instr.qubits, hqs]⟩
  have hv := visit_full pre post (.sbarrier qs) (toW pre hpre) (toW post hpost)
  have hk : sbCount (visit pre) = (pre.filter Instr.isSB).length := sbCount_perm (visit_perm pre)
  refine ⟨.eval 0 :: emit true 0 (visit pre),
    emit true ((pre.filter Instr.isSB).length + 1) (visit post) ++ [.eval (numMid + 1)], ?_, ?_, ?_, ?_⟩
  · unfold digitalTjm digitalTjmWith
    rw [visit_eq, hv]
    simp only [Mode.sampling, emit_append, if_true, hk, emit]
    simp
  · simp [Event.isApp, apps_emit, schedule]
  · simp [List.filter_append, Event.isApp, apps_emit, schedule]
  · have := evalCols_emit_true 0 (visit pre)
    unfold evalCols at this ⊢
    simp only [List.filterMap_cons, this, hk]
    rw [List.range_eq_range', List.range'_succ]

example : digitalTjm .strongSample 2
    [.gate1 1 0, .gate1 2 1, .gate2 3 1 0, .sbarrier [0, 1, 2, 3], .gate2 4 2 1, .measure 0 0, .gate2 5 2 3,
     .barrier [0, 2], .gate1 6 3, .sbarrier [1, 2], .gate2 7 1 2] =
    some [.eval 0, .app1 1 0, .app1 2 1, .app2 3 1 0, .eval 1, .app2 4 2 1, .app2 5 2 3, .app1 6 3, .eval 2,
          .app2 7 1 2, .eval 3] := by decide

/-- **C16.C4'** (the full-width hypothesis of C16.C4 cannot be dropped) With *partial* labelled barriers the
    columns follow the DAG layers, not the program: in `x 0; y 0; sbarrier [0]; sbarrier [1]` the barrier on
    qubit 1 — second in the program — is sampled first (column 1), after `x 0` only, and the barrier on
    qubit 0 gets column 2.  The real code does exactly this (known finding D27, key `C16:partial-labelled-barrier`). -/
theorem columns_partial_counterexample :
    digitalTjm .strongSample 2 [.gate1 1 0, .gate1 2 0, .sbarrier [0], .sbarrier [1]] =
      some [.eval 0, .app1 1 0, .eval 1, .app1 2 0, .eval 2, .eval 3] := by
  decide

/-- **C16.C5** (code as found, D18) `process_layer` compared the label without `.strip()` while
    `_run_strong_sim` stripped it.  For `h 0; barrier(label=" sample_observables "); cx 0 1` three columns are
    allocated but only columns 0 and 2 are ever written: column 1 stays unfilled. -/
theorem columns_mismatch_old :
    let lab := some (" sample_observables ".toList.map Char.toNat)
    let raw : List RawInstr := [.gate1 0 0, .barrier [0, 1] lab, .gate2 1 0 1]
    numColumns isSampleLabel .strongSample raw = 3 ∧
    (runCircuitWith (fun _ => stayNew) isSampleLabelOld isSampleLabel .strongSample raw).map evalCols
      = some [0, 2] ∧
    (runCircuit .strongSample raw).map evalCols = some [0, 1, 2] := by
  decide

/-- the label predicate: case-insensitive, surrounding whitespace ignored, nothing else accepted -/
example : isSampleLabel (some ("SAMPLE_OBSERVABLES".toList.map Char.toNat)) = true ∧
    isSampleLabel (some ("sample_Observables".toList.map Char.toNat)) = true ∧
    isSampleLabel (some (" \tsample_observables\n".toList.map Char.toNat)) = true ∧
    isSampleLabel (some ("SAMPLE OBSERVABLES".toList.map Char.toNat)) = false ∧
    isSampleLabel (some ("SAMPLE_OBSERVABLES_2".toList.map Char.toNat)) = false ∧
    isSampleLabel (some []) = false ∧ isSampleLabel none = false := by decide

/-! ## transparency -/

/-- **C16.P1** (transparency) Removing any set of non-gate instructions — measurements, plain barriers,
    labelled barriers — does not change the product of the applied gates, in any monoid in which gates on
    disjoint qubits commute (both multiplication orders).  `keep` is any filter that keeps all gates. -/
theorem transparent {M : Type*} [Monoid M] (sem : Instr → M)
    (hcomm : ∀ g h, g.isGate = true → h.isGate = true → (∀ q, ¬(q ∈ g.qubits ∧ q ∈ h.qubits)) →
      Commute (sem g) (sem h))
    (keep : Instr → Bool) (hk : ∀ i, i.isGate = true → keep i = true) (c : List Instr) :
    ((schedule (c.filter keep)).map sem).prod = ((schedule c).map sem).prod ∧
    ((schedule (c.filter keep)).map sem).reverse.prod = ((schedule c).map sem).reverse.prod := by
  have hp : (schedule (c.filter keep)).Perm (schedule c) := by
    have h1 := schedule_perm_gates (c.filter keep)
    rw [gates_filter_keep keep hk c] at h1
    exact h1.trans (schedule_perm_gates c).symm
  have hw : ∀ w, onWire w (schedule (c.filter keep)) = onWire w (schedule c) := by
    intro w
    rw [schedule_onWire, schedule_onWire, gates_filter_keep keep hk c]
  exact gate_prod_eq sem hcomm _ _ (fun _ h => mem_gates h) (fun _ h => mem_gates h) hp hw

/-- **C16.P1'** the instance of the property text: measurements and plain barriers removed. -/
theorem transparent_strip {M : Type*} [Monoid M] (sem : Instr → M)
    (hcomm : ∀ g h, g.isGate = true → h.isGate = true → (∀ q, ¬(q ∈ g.qubits ∧ q ∈ h.qubits)) →
      Commute (sem g) (sem h)) (c : List Instr) :
    ((schedule (strip c)).map sem).reverse.prod = ((schedule c).map sem).reverse.prod :=
  (transparent sem hcomm (fun i => !i.isDropped) (fun i hi => by cases i <;> simp_all [Instr.isGate, Instr.isDropped])
    c).2

/-- **C16.P2** (transparency, column by column) For any program prefix `pre`, the product of the gates in
    the order the simulator applies them equals the product of the program gates of `pre`, with or without
    the markers of `pre`.  Together with `columns_in_place` (the gate applications before column `k+1` are
    the schedule of the instructions in front of the `k+1`-st full-width labelled barrier) this says: the
    state sampled at a full-width labelled barrier is the state of the circuit prefix, and it is the same
    in the run with markers removed. -/
theorem prefix_state {M : Type*} [Monoid M] (sem : Instr → M)
    (hcomm : ∀ g h, g.isGate = true → h.isGate = true → (∀ q, ¬(q ∈ g.qubits ∧ q ∈ h.qubits)) →
      Commute (sem g) (sem h))
    (keep : Instr → Bool) (hk : ∀ i, i.isGate = true → keep i = true) (pre : List Instr) :
    ((schedule (pre.filter keep)).map sem).reverse.prod = ((gates pre).map sem).reverse.prod ∧
    ((schedule pre).map sem).reverse.prod = ((gates pre).map sem).reverse.prod := by
  have h2 := (gate_prod_eq sem hcomm (schedule pre) (gates pre) (fun _ h => mem_gates h)
    (fun _ h => mem_gates h) (schedule_perm_gates pre) (schedule_onWire pre)).2
  exact ⟨(transparent sem hcomm keep hk pre).2.trans h2, h2⟩

example : strip [.gate1 1 0, .measure 0 0, .barrier [0, 1], .sbarrier [0, 1], .gate2 2 1 0] =
    [.gate1 1 0, .sbarrier [0, 1], .gate2 2 1 0] := by decide

/-- the stripped circuit is scheduled differently (`gate1 3 1` no longer waits for the measurement),
    yet C16.P1 says the products agree -/
example : schedule [.gate1 1 0, .measure 1 0, .gate1 3 1, .gate2 2 1 0] ≠
    schedule (strip [.gate1 1 0, .measure 1 0, .gate1 3 1, .gate2 2 1 0]) ∨
    schedule [.gate2 1 0 1, .measure 2 0, .gate1 2 2, .gate1 3 0] ≠
    schedule (strip [.gate2 1 0 1, .measure 2 0, .gate1 2 2, .gate1 3 0]) := by decide

end Yaqs.Layers


/-!
## extension (builder xk16): what the result columns ARE — states and values, composed end to end

The theorems above fix the *event structure* of a run.  Here the events get their meaning: a gate application acts on
the current state through the operator `sem g` of the gate, an `evaluate_observables` call records the current state
under its column (`Lemmas/ColumnsDense.lean`: `OpAction`, `colStates`, `circuitOp`, `denseSem`).  Composed with
C02 (`schedule_sound`, `c02_trajectory_is_circuit_unitary`), C04 Part D (`embedL_commute`), C14 (`apply_one_site_dense`) and
C11 (`centre_walk`, `local_expect_dense*`, `rows_to_objects`) this gives the statement the property makes about the NUMBERS.

Theorems: `column_state_ends`, `column_state_ends_raw` (column 0 = ψ₀, last column = U_circuit ψ₀, every circuit),
`column_state` (column k+1 = U_prefix ψ₀ at a full-width labelled barrier), `column_state_dense`, `column_state_is_trajectory`
(the dense-operator instance; link to C02), `markers_transparent_values` (final column unchanged without markers; one column
= the final one when sampling is off), `values_any_order` (rows → objects → `⟨Ψ|O|Ψ⟩`, any listing order, one- and two-site),
`column_values`, `column_values_final` (entry (object, column) = `re ⟨ψ_k|O_j|ψ_k⟩`).

Hypotheses that remain (each named where it enters):
* **D27 exclusion** — the labelled barrier whose column is described spans all qubits (`hpre`, `hpost`); for a partial
  labelled barrier the statement is false (`columns_partial_counterexample`).
* **exact gate applications** — `Represents n (apply g) (denseSem … g)` for the gates of the circuit: no truncation in
  the splits, exact Krylov exponential (one-qubit gates: C14 `apply_one_site_dense`, unconditional; two-qubit gates:
  C02 `gate_sweep_exact_*` under "exact split" and "exact flow", error otherwise bounded by C09 / C19).
* **canonical form at the evaluation** — left / right environments act as the identity on the evaluated tensor when the
  centre is where `centre_walk` puts it (C10: gauge moves keep the state).
* **one label predicate** — the column count is that of `label_count_agree` (case-insensitive, stripped label).
-/
namespace Yaqs.Layers

open List

section states
variable {M S : Type*} [Monoid M] (A : OpAction M S) (sem : Instr → M)
  (hcomm : ∀ g h, g.isGate = true → h.isGate = true → (∀ q, ¬(q ∈ g.qubits ∧ q ∈ h.qubits)) →
    Commute (sem g) (sem h))
include hcomm

/-- **C16.V0 `column_state_ends`** (first and last column, every circuit).  In a sampling run of ANY circuit `c` —
    barriers of any width, measurements anywhere — the first evaluation sees the initial state `s₀` (column 0) and the
    last one sees `U_c · s₀` (column `num_mid_measurements + 1`), `U_c` = the product of the program's gates in program
    order; in between there is one evaluation per labelled barrier, columns `1 … m`. -/
theorem column_state_ends (numMid : Nat) (c : List Instr) (evs : List Event) (s0 : S)
    (h : digitalTjm .strongSample numMid c = some evs) :
    ∃ mid, colStates A sem s0 evs = (0, s0) :: (mid ++ [(numMid + 1, A.app (circuitOp sem c) s0)]) ∧
      mid.map Prod.fst = List.range' 1 (c.filter Instr.isSB).length := by
  unfold digitalTjm digitalTjmWith at h
  rw [visit_eq c] at h
  simp only [Option.some.injEq] at h
  subst h
  have hf : finalState A sem s0 (emit true 0 (visit c)) = A.app (circuitOp sem c) s0 :=
    finalState_of_schedule A sem hcomm c _ (by rw [apps_emit]; rfl) s0
  refine ⟨colStates A sem s0 (emit true 0 (visit c)), ?_, ?_⟩
  · simp only [Mode.sampling, colStates, colStates_append, hf]
  · rw [colStates_cols, evalCols_emit_true, sbCount_perm (visit_perm c)]
    rfl

/-- **C16.V1 `column_state`** (the state at a labelled barrier).  Let the labelled barrier of
    `pre ++ sbarrier qs :: post` be full-width (D27 exclusion: `hpre`, `hpost`) and `k` the number of labelled barriers
    in front of it.  Then the recorded states of the sampling run are `l₁ ++ (k+1, U_pre · s₀) :: l₂` where `l₁` holds
    exactly the columns `0 … k`: column `k+1` is written once, with the state `U_pre · s₀`, `U_pre` = the product of the
    gates in front of the barrier in PROGRAM order (later gate on the left) — although the simulator applied them in
    its own layer order (`columns_in_place` + `schedule_sound`).  Column 0 is `s₀` and the last column `U_circuit · s₀`
    (`column_state_ends`).  `sem` is any interpretation in which gates on disjoint qubits commute; `denseSem` is one
    (`column_state_dense`). -/
theorem column_state (numMid : Nat) (pre post : List Instr) (qs : List Nat)
    (hpre : ∀ j ∈ pre, ∃ q ∈ j.qubits, q ∈ qs) (hpost : ∀ j ∈ post, ∃ q ∈ j.qubits, q ∈ qs) (s0 : S) :
    ∃ evs l1 l2,
      digitalTjm .strongSample numMid (pre ++ .sbarrier qs :: post) = some evs ∧
      colStates A sem s0 evs
        = l1 ++ ((pre.filter Instr.isSB).length + 1, A.app (circuitOp sem pre) s0) :: l2 ∧
      l1.map Prod.fst = List.range ((pre.filter Instr.isSB).length + 1) := by
  obtain ⟨before, after, hrun, hb, _, hcols⟩ := columns_in_place numMid pre post qs hpre hpost
  have hf : finalState A sem s0 before = A.app (circuitOp sem pre) s0 :=
    finalState_of_schedule A sem hcomm pre before hb s0
  refine ⟨_, colStates A sem s0 before, colStates A sem (A.app (circuitOp sem pre) s0) after, hrun, ?_, ?_⟩
  · rw [colStates_append, hf]
    rfl
  · rw [colStates_cols, hcols]

/-- **C16.V0r `column_state_ends_raw`** (the same for the circuit as the user wrote it: raw labels, `_run_circuit` level).
    With the ONE label predicate of `label_count_agree` (`strip().upper()`, used both where the columns are counted and where
    the barriers are recognised) the last evaluation goes to the last allocated column `numColumns − 1`, the columns in
    between are `1 … m` for the `m` barriers the predicate accepts — whatever the case of the label or the whitespace around
    it — and the states are `s₀` first and `U_c · s₀` last. -/
theorem column_state_ends_raw (raw : List RawInstr) (evs : List Event) (s0 : S)
    (h : runCircuit .strongSample raw = some evs) :
    ∃ mid, colStates A sem s0 evs
        = (0, s0) :: (mid ++ [(numColumns isSampleLabel .strongSample raw - 1,
            A.app (circuitOp sem (raw.map (classify isSampleLabel))) s0)]) ∧
      mid.map Prod.fst = List.range' 1 (countMid isSampleLabel raw) ∧
      (colStates A sem s0 evs).length = numColumns isSampleLabel .strongSample raw := by
  unfold runCircuit runCircuitWith at h
  simp only [Mode.sampling, if_true] at h
  obtain ⟨mid, hm, hc⟩ := column_state_ends A sem hcomm _ _ evs s0 h
  rw [label_count_agree isSampleLabel raw] at hc
  refine ⟨mid, ?_, hc, ?_⟩
  · rw [hm]; simp [numColumns]
  · have hl : mid.length = countMid isSampleLabel raw := by
      have := congrArg List.length hc
      simpa using this
    rw [hm]; simp [numColumns, hl]

/-- **C16.V3 `markers_transparent_values`** (transparency, as a statement about the recorded STATES and hence about every
    value computed from them).  Remove any set of non-gate instructions from `c` — barriers, labelled or not, of any
    width, and measurements (`keep` keeps every gate).  Then (1) the sampling run of `c`, (2) the sampling run of the
    reduced circuit and (3) the run of `c` with `sample_layers = False` all terminate, and the LAST column of (1), the last
    column of (2) and the single column of (3) record one and the same state `U_c · s₀`; column 0 of (1) and (2) is `s₀`.
    Consequently every result entry `val s o` (any function of the recorded state, e.g. `⟨s|O|s⟩`) of the final column is
    unchanged by removing the markers, and with `sample_layers = False` the single column is the final one
    (`columns_off`, now with its value).  No width hypothesis: D27 concerns the intermediate columns only. -/
theorem markers_transparent_values (keep : Instr → Bool) (hk : ∀ i, i.isGate = true → keep i = true)
    (numMid numMid' : Nat) (c : List Instr) (s0 : S) :
    ∃ evs evs' evsP mid mid',
      digitalTjm .strongSample numMid c = some evs ∧
      digitalTjm .strongSample numMid' (c.filter keep) = some evs' ∧
      digitalTjm .strongPlain numMid c = some evsP ∧
      colStates A sem s0 evs = (0, s0) :: (mid ++ [(numMid + 1, A.app (circuitOp sem c) s0)]) ∧
      colStates A sem s0 evs' = (0, s0) :: (mid' ++ [(numMid' + 1, A.app (circuitOp sem c) s0)]) ∧
      colStates A sem s0 evsP = [(0, A.app (circuitOp sem c) s0)] ∧
      ∀ {V O : Type} (val : S → O → V) (o : O),
        (colStates A sem s0 evs).getLast?.map (fun p => val p.2 o) = some (val (A.app (circuitOp sem c) s0) o) ∧
        (colStates A sem s0 evs').getLast?.map (fun p => val p.2 o) = some (val (A.app (circuitOp sem c) s0) o) ∧
        (colStates A sem s0 evsP).map (fun p => (p.1, val p.2 o)) = [(0, val (A.app (circuitOp sem c) s0) o)] := by
  obtain ⟨evs, h1⟩ := Option.isSome_iff_exists.mp (loop_terminates .strongSample numMid c)
  obtain ⟨evs', h2⟩ := Option.isSome_iff_exists.mp (loop_terminates .strongSample numMid' (c.filter keep))
  obtain ⟨evsP, h3⟩ := Option.isSome_iff_exists.mp (loop_terminates .strongPlain numMid c)
  obtain ⟨mid, hm, _⟩ := column_state_ends A sem hcomm numMid c evs s0 h1
  obtain ⟨mid', hm', _⟩ := column_state_ends A sem hcomm numMid' (c.filter keep) evs' s0 h2
  rw [circuitOp_filter sem keep hk c] at hm'
  have hP : colStates A sem s0 evsP = [(0, A.app (circuitOp sem c) s0)] := by
    have h3' := h3
    unfold digitalTjm digitalTjmWith at h3'
    rw [visit_eq c] at h3'
    simp only [Option.some.injEq] at h3'
    subst h3'
    have hf : finalState A sem s0 (emit false 0 (visit c)) = A.app (circuitOp sem c) s0 :=
      finalState_of_schedule A sem hcomm c _ (by rw [apps_emit]; rfl) s0
    have he : colStates A sem s0 (emit false 0 (visit c)) = [] := by
      have := colStates_cols A sem s0 (emit false 0 (visit c))
      rw [evalCols_emit_false] at this
      simpa using this
    simp only [Mode.sampling, colStates_append, he, hf, colStates, List.nil_append]
  refine ⟨evs, evs', evsP, mid, mid', h1, h2, h3, hm, hm', hP, ?_⟩
  intro V O val o
  have hl : ∀ (x y : Nat × S) (m : List (Nat × S)), (x :: (m ++ [y])).getLast? = some y := by
    intro x y m
    rw [← List.cons_append, List.getLast?_concat]
  refine ⟨?_, ?_, ?_⟩
  · rw [hm, hl]; rfl
  · rw [hm', hl]; rfl
  · rw [hP]; rfl

end states

/-! ### the dense-operator instance: 2ⁿ × 2ⁿ matrices -/

section denseInst
open Matrix Yaqs.Embed

/-- **C16.V1d `column_state_dense`** (`column_state` in the dense-operator monoid).  Interpret a gate as its 2×2 / 4×4
    matrix embedded on its own qubit(s) of the `n`-qubit register (`denseSem`; either orientation of a two-qubit gate, any
    distance) acting on state vectors by `mulVec`.  Gates on disjoint qubits commute there (`denseSem_comm`, from C04 Part D
    `embedL_commute`), so no commutation hypothesis is left: for a full-width labelled barrier the state vector recorded
    in column `k+1` is `(G_m ⋯ G_2 G_1) ψ₀`, `G_1 … G_m` the embedded gates in front of the barrier in program order. -/
theorem column_state_dense {K : Type*} [CommRing K] (n : Nat) (g1 : Nat → Matrix (Fin 2) (Fin 2) K)
    (g2 : Nat → Matrix (Fin 2 × Fin 2) (Fin 2 × Fin 2) K) (numMid : Nat) (pre post : List Instr) (qs : List Nat)
    (hpre : ∀ j ∈ pre, ∃ q ∈ j.qubits, q ∈ qs) (hpost : ∀ j ∈ post, ∃ q ∈ j.qubits, q ∈ qs)
    (ψ0 : (Fin n → Fin 2) → K) :
    ∃ evs l1 l2,
      digitalTjm .strongSample numMid (pre ++ .sbarrier qs :: post) = some evs ∧
      colStates (mulVecAction _) (denseSem n g1 g2) ψ0 evs
        = l1 ++ ((pre.filter Instr.isSB).length + 1,
            (((gates pre).map (denseSem n g1 g2)).reverse.prod) *ᵥ ψ0) :: l2 ∧
      l1.map Prod.fst = List.range ((pre.filter Instr.isSB).length + 1) :=
  column_state (mulVecAction _) (denseSem n g1 g2) (denseSem_comm n g1 g2) numMid pre post qs hpre hpost ψ0

/-- **C16.V1t `column_state_is_trajectory`** (link to C02).  Over ℂ, the state recorded at a full-width labelled barrier
    is the noise-free trajectory of C02 run on the program prefix: folding the gate operators over `schedule pre` — the
    order in which `digital_tjm` applies them — from `ψ₀` (`c02_trajectory_is_circuit_unitary`). -/
theorem column_state_is_trajectory (n : Nat) (g1 : Nat → Matrix (Fin 2) (Fin 2) ℂ)
    (g2 : Nat → Matrix (Fin 2 × Fin 2) (Fin 2 × Fin 2) ℂ) (numMid : Nat) (pre post : List Instr) (qs : List Nat)
    (hpre : ∀ j ∈ pre, ∃ q ∈ j.qubits, q ∈ qs) (hpost : ∀ j ∈ post, ∃ q ∈ j.qubits, q ∈ qs)
    (ψ0 : (Fin n → Fin 2) → ℂ) :
    ∃ evs l1 l2,
      digitalTjm .strongSample numMid (pre ++ .sbarrier qs :: post) = some evs ∧
      colStates (mulVecAction _) (denseSem n g1 g2) ψ0 evs
        = l1 ++ ((pre.filter Instr.isSB).length + 1,
            (schedule pre).foldl (fun ψ g => denseSem n g1 g2 g *ᵥ ψ) ψ0) :: l2 ∧
      l1.map Prod.fst = List.range ((pre.filter Instr.isSB).length + 1) := by
  rw [c02_trajectory_is_circuit_unitary (denseSem n g1 g2) (denseSem_comm n g1 g2) pre ψ0]
  exact column_state_dense n g1 g2 numMid pre post qs hpre hpost ψ0

end denseInst

end Yaqs.Layers

namespace Yaqs.ColumnValues

open Matrix Yaqs.Embed Yaqs.Layers Yaqs.LocalOp Yaqs.Attribution

/-- **C16.V2a `values_any_order`** (C11 composed: from the chain to the user's objects).  For ANY chain `ts` of `n` sites
    and any list of one-site / adjacent two-site observable objects in any listing order (ids distinct): if the rows that
    `evaluate_observables` writes are the site-local contractions on a centre-walked copy of `ts` (`Written`) with the centre
    where `centre_walk` puts it (the entries of `centresFrom`: the object's own first site), then after the stitching of
    `_run_strong_sim` every object of the user's list holds `re ⟨Ψ| O_o |Ψ⟩`, `Ψ` the dense state of `ts` and `O_o` the
    object's own operator embedded on its own site(s) — `centre_walk` + `local_expect_dense*` + `rows_to_objects`. -/
theorem values_any_order {K : Type*} [CommRing K] [StarRing K] {ι : Type*} [Fintype ι] [DecidableEq ι]
    (n : Nat) (ts : List (Mps.Alg.Site (Fin 2) ι K))
    (obs : List Obs) (hnd : (obs.map (·.id)).Nodup) (hloc : ∀ o ∈ obs, o.kind = .local1 ∨ o.kind = .local2)
    (data : Obs → ObsData n K) (hsite : ∀ o ∈ obs, (data o).site = o.site) (re : K → Rat)
    (rows : List Rat) (hr : rows.length = (sortedObservables obs).length)
    (hrow : ∀ k' (hk : k' < (sortedObservables obs).length) c,
      ((sortedObservables obs)[k'].id, c, c) ∈ centresFrom 0 (evaluateObservables (sortedObservables obs)) →
      ∃ w, Written n ts c (data (sortedObservables obs)[k']) w ∧ rows[k']'(hr ▸ hk) = re w) :
    ∀ o ∈ obs, stitchAll (sortedObservables obs) 0 [rows] Store.empty o.id 0
      = some (re (denseExpect (data o).op (Psi n ts))) := by
  intro o ho
  have hcw := (centre_walk obs).2.1
  have hperm := sorted_is_perm obs
  have key := rows_to_objects obs hnd (fun _ o => re (denseExpect (data o).op (Psi n ts))) [rows]
    (by intro r hrm; simp only [List.mem_singleton] at hrm; rw [hrm, hr])
    (by
      intro j hj k' hk
      have hj0 : j = 0 := by simpa using hj
      subst hj0
      have hmem : (sortedObservables obs)[k'] ∈ obs := hperm.mem_iff.mp (List.getElem_mem hk)
      have hmv : (sortedObservables obs)[k'].kind.moves = true := by
        rcases hloc _ hmem with h | h <;> rw [h] <;> rfl
      have hin : ((sortedObservables obs)[k'].id, (sortedObservables obs)[k'].site, (sortedObservables obs)[k'].site)
          ∈ centresFrom 0 (evaluateObservables (sortedObservables obs)) := by
        rw [hcw]
        exact List.mem_map.mpr ⟨_, List.mem_filter.mpr ⟨List.getElem_mem hk, by simpa using hmv⟩, rfl⟩
      obtain ⟨w, hw, hrw⟩ := hrow k' hk _ hin
      have := written_dense n _ _ _ w (hsite _ hmem) hw
      simp only [List.getElem_cons_zero]
      rw [hrw, this])
    o ho
  exact key.1 0 (by simp)

/-- **C16.V2 `column_values`** (what the NUMBERS in a column are).  Circuit `pre ++ sbarrier qs :: post` on `n` qubits, the
    labelled barrier full-width (D27 exclusion), `k` labelled barriers in front of it; the run starts from the MPS `ts0`.
    Assume every gate application of the prefix is exact: `apply g` acts on the dense state of the chain as the embedded
    gate matrix (`Represents`; no truncation in the splits, exact Krylov exponential — C14 `apply_one_site_dense`
    discharges it for one-qubit gates, C02 `gate_sweep_exact_*` for two-qubit gates on NEIGHBOURING qubits under exact
    split / exact flow; for long-range gates the windowed sweep is not exact and the hypothesis fails on the real code).
    Then there is a unique place in the run — `before ++ eval (k+1) :: after`, `before` containing the evaluations of
    columns `0 … k` only — where column `k+1` is written, the chain at that moment represents
    `ψ_{k+1} = U_pre ψ₀` (product of the embedded gates of `pre` in program order), and for ANY list of one-site and
    adjacent two-site observable objects, in any listing order (ids distinct): if the rows `evaluate_observables` writes
    are the site-local contractions on the centre-walked copy (`Written`), taken with the centre where C11 `centre_walk`
    puts it (the entries of `centresFrom`: the object's own first site), then after the stitching of `_run_strong_sim`
    (C11 `rows_to_objects`) every object `o` of the user's list holds, in column `k+1`,
    `re ⟨ψ_{k+1}| O_o |ψ_{k+1}⟩` — its own operator on its own site(s), on the state of the program prefix.
    `re` is whatever is stored of the complex number (the code stores `.real`).  Column 0 and the last column are the
    same statement with `column_state_ends` (`pre = []`, resp. the whole circuit) in place of `columns_in_place`. -/
theorem column_values {K : Type*} [CommRing K] [StarRing K] {ι : Type*} [Fintype ι] [DecidableEq ι]
    (n numMid : Nat) (g1 : Nat → Matrix (Fin 2) (Fin 2) K) (g2 : Nat → Matrix (Fin 2 × Fin 2) (Fin 2 × Fin 2) K)
    (pre post : List Instr) (qs : List Nat)
    (hpre : ∀ j ∈ pre, ∃ q ∈ j.qubits, q ∈ qs) (hpost : ∀ j ∈ post, ∃ q ∈ j.qubits, q ∈ qs)
    (apply : Instr → List (Mps.Alg.Site (Fin 2) ι K) → List (Mps.Alg.Site (Fin 2) ι K))
    (hrep : ∀ g ∈ pre, g.isGate = true → Represents n (apply g) (denseSem n g1 g2 g))
    (ts0 : List (Mps.Alg.Site (Fin 2) ι K)) (hlen0 : ts0.length = n)
    (obs : List Obs) (hnd : (obs.map (·.id)).Nodup) (hloc : ∀ o ∈ obs, o.kind = .local1 ∨ o.kind = .local2)
    (data : Obs → ObsData n K) (hsite : ∀ o ∈ obs, (data o).site = o.site) (re : K → Rat) :
    ∃ evs before after,
      digitalTjm .strongSample numMid (pre ++ .sbarrier qs :: post) = some evs ∧
      evs = before ++ .eval ((pre.filter Instr.isSB).length + 1) :: after ∧
      evalCols before = List.range ((pre.filter Instr.isSB).length + 1) ∧
      Psi n (mpsAfter apply ts0 before) = act (circuitOp (denseSem n g1 g2) pre) (Psi n ts0) ∧
      ∀ (rows : List Rat) (hr : rows.length = (sortedObservables obs).length),
        (∀ k' (hk : k' < (sortedObservables obs).length) c,
          ((sortedObservables obs)[k'].id, c, c) ∈ centresFrom 0 (evaluateObservables (sortedObservables obs)) →
          ∃ w, Written n (mpsAfter apply ts0 before) c (data (sortedObservables obs)[k']) w ∧
            rows[k']'(hr ▸ hk) = re w) →
        ∀ o ∈ obs, stitchAll (sortedObservables obs) 0 [rows] Store.empty o.id 0
          = some (re (denseExpect (data o).op (act (circuitOp (denseSem n g1 g2) pre) (Psi n ts0)))) := by
  obtain ⟨before, after, hrun, hb, _, hcols⟩ := columns_in_place numMid pre post qs hpre hpost
  have htr := mps_tracks n apply (denseSem n g1 g2) pre hrep before (apps_from_schedule pre before hb) ts0 hlen0
  have hfs := finalState_of_schedule (actAction (ι := ι) n) (denseSem n g1 g2) (denseSem_comm n g1 g2) pre before hb
    (Psi n ts0)
  have hΨ : Psi n (mpsAfter apply ts0 before) = act (circuitOp (denseSem n g1 g2) pre) (Psi n ts0) := by
    rw [htr.2, hfs]; rfl
  refine ⟨_, before, after, hrun, rfl, hcols, hΨ, ?_⟩
  intro rows hr hrow o ho
  rw [← hΨ]
  exact values_any_order n (mpsAfter apply ts0 before) obs hnd hloc data hsite re rows hr hrow o ho

/-- **C16.V2f `column_values_final`** (the numbers of the LAST column, and of the single column when layer sampling is off;
    no width hypothesis).  For ANY circuit `c` — barriers of any width, measurements anywhere — with exact gate applications,
    in the sampling run and in the run with `sample_layers = False` alike: the chain on which the final
    `evaluate_observables` works represents `U_c ψ₀`, and every object of any list of one-site / adjacent two-site
    observables receives `re ⟨U_c ψ₀| O_o |U_c ψ₀⟩`.  In particular the numbers do not depend on the markers of `c`
    (`circuitOp_filter`: `U` of the circuit with markers removed is `U_c`) nor on `sample_layers`. -/
theorem column_values_final {K : Type*} [CommRing K] [StarRing K] {ι : Type*} [Fintype ι] [DecidableEq ι]
    (n numMid : Nat) (g1 : Nat → Matrix (Fin 2) (Fin 2) K) (g2 : Nat → Matrix (Fin 2 × Fin 2) (Fin 2 × Fin 2) K)
    (c : List Instr) (mode : Mode) (hmode : mode ≠ .weak)
    (apply : Instr → List (Mps.Alg.Site (Fin 2) ι K) → List (Mps.Alg.Site (Fin 2) ι K))
    (hrep : ∀ g ∈ c, g.isGate = true → Represents n (apply g) (denseSem n g1 g2 g))
    (ts0 : List (Mps.Alg.Site (Fin 2) ι K)) (hlen0 : ts0.length = n)
    (obs : List Obs) (hnd : (obs.map (·.id)).Nodup) (hloc : ∀ o ∈ obs, o.kind = .local1 ∨ o.kind = .local2)
    (data : Obs → ObsData n K) (hsite : ∀ o ∈ obs, (data o).site = o.site) (re : K → Rat) :
    ∃ evs body col,
      digitalTjm mode numMid c = some evs ∧ evs = body ++ [.eval col] ∧
      Psi n (mpsAfter apply ts0 body) = act (circuitOp (denseSem n g1 g2) c) (Psi n ts0) ∧
      ∀ (rows : List Rat) (hr : rows.length = (sortedObservables obs).length),
        (∀ k' (hk : k' < (sortedObservables obs).length) ctr,
          ((sortedObservables obs)[k'].id, ctr, ctr) ∈ centresFrom 0 (evaluateObservables (sortedObservables obs)) →
          ∃ w, Written n (mpsAfter apply ts0 body) ctr (data (sortedObservables obs)[k']) w ∧
            rows[k']'(hr ▸ hk) = re w) →
        ∀ o ∈ obs, stitchAll (sortedObservables obs) 0 [rows] Store.empty o.id 0
          = some (re (denseExpect (data o).op (act (circuitOp (denseSem n g1 g2) c) (Psi n ts0)))) := by
  obtain ⟨evs, hrun⟩ := Option.isSome_iff_exists.mp (loop_terminates mode numMid c)
  have happs := events_are_schedule mode numMid c evs hrun
  -- the run ends with the final evaluation
  have hshape : ∃ body col, evs = body ++ [.eval col] := by
    have h := hrun
    unfold digitalTjm digitalTjmWith at h
    rw [visit_eq c] at h
    cases mode with
    | strongSample =>
      simp only [Option.some.injEq] at h
      exact ⟨.eval 0 :: emit true 0 (visit c), numMid + 1, by rw [← h]; simp [Mode.sampling]⟩
    | strongPlain =>
      simp only [Option.some.injEq] at h
      exact ⟨emit false 0 (visit c), 0, by rw [← h]; simp [Mode.sampling]⟩
    | weak => exact absurd rfl hmode
  obtain ⟨body, col, rfl⟩ := hshape
  have hb : body.filter Event.isApp = (schedule c).filterMap Event.ofInstr := by
    simpa [List.filter_append, Event.isApp] using happs
  have htr := mps_tracks n apply (denseSem n g1 g2) c hrep body (apps_from_schedule c body hb) ts0 hlen0
  have hfs := finalState_of_schedule (actAction (ι := ι) n) (denseSem n g1 g2) (denseSem_comm n g1 g2) c body hb
    (Psi n ts0)
  have hΨ : Psi n (mpsAfter apply ts0 body) = act (circuitOp (denseSem n g1 g2) c) (Psi n ts0) := by
    rw [htr.2, hfs]; rfl
  refine ⟨_, body, col, hrun, rfl, hΨ, ?_⟩
  intro rows hr hrow o ho
  rw [← hΨ]
  exact values_any_order n (mpsAfter apply ts0 body) obs hnd hloc data hsite re rows hr hrow o ho

end Yaqs.ColumnValues

/-! ### non-vacuity of the extension theorems (instances: `Lemmas/ColumnsValues.lean`, end of file) -/

namespace Yaqs.Layers.ColumnsExample
open Yaqs Yaqs.CRat Matrix Yaqs.Layers Yaqs.Embed

/-- the hypotheses of `column_state` / `column_state_dense` hold for a 3-qubit circuit over ℚ(i) (X, Y, Z, scaled H, CX in
    both orientations, CZ; a measurement delays `y 2` by one layer; the labelled barrier lists its qubits as `[2,0,1]`) … -/
example : (∀ j ∈ pre, ∃ q ∈ j.qubits, q ∈ [2, 0, 1]) ∧ (∀ j ∈ post, ∃ q ∈ j.qubits, q ∈ [2, 0, 1]) := by decide

set_option maxRecDepth 100000 in
example :
    digitalTjm .strongSample 1 (pre ++ .sbarrier [2, 0, 1] :: post) =
      some [.eval 0, .app1 1 0, .app1 4 1, .app1 2 2, .app2 1 0 1, .eval 1, .app1 3 0, .app2 2 2 1, .app2 1 1 0, .eval 2] ∧
    colStates (mulVecAction _) (denseSem 3 g1 g2) ψ0
      [.eval 0, .app1 1 0, .app1 4 1, .app1 2 2, .app2 1 0 1, .eval 1, .app1 3 0, .app2 2 2 1, .app2 1 1 0, .eval 2]
      = [(0, ψ0), (1, circuitOp (denseSem 3 g1 g2) pre *ᵥ ψ0),
         (2, circuitOp (denseSem 3 g1 g2) (pre ++ .sbarrier [2, 0, 1] :: post) *ᵥ ψ0)] ∧
    (circuitOp (denseSem 3 g1 g2) pre *ᵥ ψ0) ![1, 1, 1] = CRat.I ∧
    (circuitOp (denseSem 3 g1 g2) pre *ᵥ ψ0) ![1, 0, 1] = CRat.I ∧
    (circuitOp (denseSem 3 g1 g2) (pre ++ .sbarrier [2, 0, 1] :: post) *ᵥ ψ0) ![1, 0, 1] = -CRat.I ∧
    (circuitOp (denseSem 3 g1 g2) (pre ++ .sbarrier [2, 0, 1] :: post) *ᵥ ψ0) ![0, 1, 1] = CRat.I := by
  decide +kernel


/-- non-vacuity of `markers_transparent_values` on the same circuit: the run with every marker removed and the run with
    `sample_layers = False` end in the state of the sampling run's last column -/
example :
    (digitalTjm .strongSample 0 ((pre ++ .sbarrier [2, 0, 1] :: post).filter Instr.isGate)).map
        (fun evs => (colStates (mulVecAction _) (denseSem 3 g1 g2) ψ0 evs).getLast?)
      = some (some (1, circuitOp (denseSem 3 g1 g2) (pre ++ .sbarrier [2, 0, 1] :: post) *ᵥ ψ0)) ∧
    (digitalTjm .strongPlain 0 (pre ++ .sbarrier [2, 0, 1] :: post)).map
        (colStates (mulVecAction _) (denseSem 3 g1 g2) ψ0)
      = some [(0, circuitOp (denseSem 3 g1 g2) (pre ++ .sbarrier [2, 0, 1] :: post) *ᵥ ψ0)] := by
  decide +kernel

end Yaqs.Layers.ColumnsExample

namespace Yaqs.ColumnValues.Example
open Yaqs Yaqs.LocalOp Yaqs.Layers.ColumnsExample Matrix Yaqs.Layers Yaqs.Embed Yaqs.ColumnValues

/-- non-vacuity of the hypotheses of `column_values`: (1) the exactness hypothesis `Represents` holds for the code's
    one-qubit gate application (C14); (2) `Written` holds for the chain itself with the centre on site 1 (left neighbour
    an isometry), and the written number is the dense expectation value: `⟨ψ| 1 ⊗ X |ψ⟩ = 2·3 + 3·2 = 12`. -/
example :
    Represents 2 (applyAt (ι := Fin 1) (gz 0) 1) (denseSem 2 gz gzz (.gate1 0 1)) ∧
    Written 2 [L0, C0] 1 (.one (1 : Fin 2) (gz 0)) 12 ∧
    denseExpect (ObsData.op (.one (1 : Fin 2) (gz 0))) (Psi 2 [L0, C0]) = 12 := by
  refine ⟨?_, ?_, ?_⟩
  · have := represents_applyAt (ι := Fin 1) 2 1 (by omega) (gz 0)
    simpa [denseSem] using this
  · refine ⟨[L0], [], C0, rfl, rfl, rfl, ?_, ?_, ?_⟩
    · decide
    · decide
    · decide
  · exact (written_dense 2 [L0, C0] 1 (.one (1 : Fin 2) (gz 0)) 12 rfl
      ⟨[L0], [], C0, rfl, rfl, rfl, by decide, by decide, by decide⟩).symm


/-- the two-site branch of `Written` / `written_dense`: centre on site 0, `A' = X·A`, `B' = X·B`;
    `⟨ψ| X ⊗ X |ψ⟩ = (1·2 + 2·1)(2·3 + 3·2) = 48` -/
example :
    Written 2 [A0, C0] 0 (.two (0 : Fin 2) (1 : Fin 2) rfl xx) 48 ∧
    denseExpect (ObsData.op (.two (0 : Fin 2) (1 : Fin 2) rfl xx)) (Psi 2 [A0, C0]) = 48 := by
  have hw : Written 2 [A0, C0] 0 (.two (0 : Fin 2) (1 : Fin 2) rfl xx) 48 :=
    ⟨[], [], A0, C0, flipS A0, flipS C0, rfl, rfl, rfl, by decide, by decide, by decide, by decide⟩
  exact ⟨hw, (written_dense 2 [A0, C0] 0 _ 48 rfl hw).symm⟩

/-- non-vacuity of `column_state_ends_raw`: a mixed-case, whitespace-padded label is a sampling barrier, a near miss is not -/
example :
    let raw : List RawInstr := [.gate1 1 0, .barrier [1, 0] (some (" sAmple_Observables\n".toList.map Char.toNat)),
      .barrier [0, 1] (some ("SAMPLE OBSERVABLES".toList.map Char.toNat)), .gate2 1 0 1]
    (runCircuit .strongSample raw).map evalCols = some [0, 1, 2] ∧ numColumns isSampleLabel .strongSample raw = 3 := by
  decide

end Yaqs.ColumnValues.Example


/-!
## extension (builder x16d): the column VALUES as an executable function over ℚ(i), tied exactly

`Model/ColumnsExec.lean` computes, for a circuit over gates with rational matrices, the whole result table of a sampling run
(`colValuesExec`: one row of `re ⟨ψ|O|ψ⟩` per `evaluate_observables` call).  The two theorems below say that this function is
not a second semantics: its states are the `colStates` of the dense-operator instance of `column_state_dense` over ℚ(i) and its
numbers are the dense expectation values `ψ† (O ψ)` with `O = ObsData.op` — the operator of `column_values`.  The driver request
`colvals` evaluates it and `harness/impl/C16.py` (kind `column-exact`) compares every entry with the real `simulator.run`.
-/
namespace Yaqs.ColumnsExec

open Matrix Yaqs.Embed Yaqs.Layers Yaqs.ColumnValues

/-- **C16.X1 `colValuesExec_is_column_values`** (the executable result table IS the table of column values).  For every
    register width `n`, every gate table `g1` / `g2` over ℚ(i), every initial state `v0` (tabulated amplitudes), every circuit
    `raw` as the user wrote it (raw labels; barriers of any width, measurements anywhere) and every list of one-site /
    adjacent two-site observable objects: the sampling run terminates with some event list `evs`; the table computed by
    `colValuesExec` is, row by row, `(column, [re ψ† (O_o ψ) for o in obs])` for the states `ψ` that the dense-operator
    semantics records (`colStates` with `denseSem` acting by `mulVec` — the instance of `column_state_dense`, here over ℚ(i)),
    `O_o = ObsData.op` the object's own operator embedded on its own site(s); and the rows are exactly the allocated columns
    `0 … numColumns − 1`, each once, in order (`columns`).  Covers: `evaluate_observables` values of `_run_strong_sim` with
    `sample_layers=True`, all columns, under the exactness hypotheses listed for `column_values`. -/
theorem colValuesExec_is_column_values (n : Nat) (g1 : Nat → M2) (g2 : Nat → M4) (v0 : Vec n) (raw : List RawInstr)
    (obs : List (ObsExec n)) :
    ∃ evs, runCircuit .strongSample raw = some evs ∧
      colValuesExec n g1 g2 v0 raw obs = some
        ((colStates (mulVecAction _) (denseSem n (mat1 g1) (mat2 g2)) (Vec.get n v0) evs).map fun p =>
          (p.1, obs.map fun o => (star p.2 ⬝ᵥ (o.toData.op *ᵥ p.2)).re)) ∧
      (colValuesExec n g1 g2 v0 raw obs).map (fun t => t.map Prod.fst)
        = some (List.range (numColumns isSampleLabel .strongSample raw)) := by
  obtain ⟨evs, hrun⟩ := Option.isSome_iff_exists.mp (run_terminates .strongSample raw)
  have h := colValuesExec_eq n g1 g2 v0 raw obs
  rw [hrun] at h
  refine ⟨evs, hrun, h, ?_⟩
  rw [h]
  simp only [Option.map_some, List.map_map]
  have : (Prod.fst ∘ denseValues obs : Nat × (Cfg n → CRat) → Nat) = Prod.fst := rfl
  rw [this, colStates_cols, columns raw evs hrun]

/-- **C16.X2 `colValuesExec_at_barrier`** (what the executable table holds in the column of a labelled barrier).  If the
    circuit, seen through the one label predicate, is `pre ++ sbarrier qs :: post` with the labelled barrier full-width (D27
    exclusion: `hpre`, `hpost`) and `k` labelled barriers in front of it, then the table is `l₁ ++ (k+1, row) :: l₂` with
    `l₁` holding exactly the columns `0 … k`, and `row = [re ψ† (O_o ψ) for o in obs]` for
    `ψ = (G_m ⋯ G_1) ψ₀`, `G_1 … G_m` the embedded gates in front of the barrier in PROGRAM order (`column_state_dense`). -/
theorem colValuesExec_at_barrier (n : Nat) (g1 : Nat → M2) (g2 : Nat → M4) (v0 : Vec n) (raw : List RawInstr)
    (obs : List (ObsExec n)) (pre post : List Instr) (qs : List Nat)
    (hraw : raw.map (classify isSampleLabel) = pre ++ .sbarrier qs :: post)
    (hpre : ∀ j ∈ pre, ∃ q ∈ j.qubits, q ∈ qs) (hpost : ∀ j ∈ post, ∃ q ∈ j.qubits, q ∈ qs) :
    ∃ l1 l2,
      colValuesExec n g1 g2 v0 raw obs = some (l1 ++ ((pre.filter Instr.isSB).length + 1,
        obs.map fun o =>
          let ψ := (((gates pre).map (denseSem n (mat1 g1) (mat2 g2))).reverse.prod) *ᵥ Vec.get n v0
          (star ψ ⬝ᵥ (o.toData.op *ᵥ ψ)).re) :: l2) ∧
      l1.map Prod.fst = List.range ((pre.filter Instr.isSB).length + 1) := by
  obtain ⟨evs, l1, l2, hrun, hcs, hl1⟩ := column_state_dense n (mat1 g1) (mat2 g2) (countMid isSampleLabel raw)
    pre post qs hpre hpost (Vec.get n v0)
  have hrun' : runCircuit .strongSample raw = some evs := by
    unfold runCircuit runCircuitWith
    simp only [Mode.sampling, if_true]
    rw [hraw]
    exact hrun
  have h := colValuesExec_eq n g1 g2 v0 raw obs
  rw [hrun', Option.map_some, hcs, List.map_append, List.map_cons] at h
  refine ⟨l1.map (denseValues obs), l2.map (denseValues obs), h, ?_⟩
  rw [List.map_map]
  exact hl1

/-- **C16.X3 `pauli_table`** (the observable table of the `colvals` request).  Whatever letter the request names, the matrix
    the driver puts into the observable object is a Hermitian involution (`P† = P`, `P·P = 1`), so the number
    `re ψ† (O ψ)` it reports is the expectation value of an observable with spectrum `±1`; letters other than `X Y Z` are
    rejected.  (`kronPair P Q` is then `P ⊗ Q` on the adjacent pair, index `(site p, site p+1)`.) -/
theorem pauli_table (ch : Char) (P : M2) (h : pauli? ch = some P) :
    (Matrix.of P)ᴴ = Matrix.of P ∧ Matrix.of P * Matrix.of P = 1 ∧ (ch = 'X' ∨ ch = 'Y' ∨ ch = 'Z') := by
  unfold pauli? at h
  split at h
  · cases h; refine ⟨?_, ?_, Or.inl rfl⟩ <;> decide +kernel
  · cases h; refine ⟨?_, ?_, Or.inr (Or.inl rfl)⟩ <;> decide +kernel
  · cases h; refine ⟨?_, ?_, Or.inr (Or.inr rfl)⟩ <;> decide +kernel
  · cases h

example : pauli? 'Y' = some (Gates.y CRat.I) ∧ pauli? 'H' = none := by decide

end Yaqs.ColumnsExec

namespace Yaqs.ColumnsExec.Example
open Yaqs Yaqs.Layers Yaqs.ColumnsExec

/-- gate table of the example: one-qubit tags 1 = X, 2 = ry at `(3/5, 4/5)`, 3 = rz at `(4/5, 3/5)`; two-qubit tags 1 = CX, otherwise CZ -/
def g1 : Nat → M2 := fun t =>
  if t = 1 then Gates.x else if t = 2 then Gates.ry (CRat.ofRat (3/5)) (CRat.ofRat (4/5))
  else Gates.rz CRat.I (CRat.ofRat (4/5)) (CRat.ofRat (3/5))
def g2 : Nat → M4 := fun t => if t = 1 then ofM4 Gates.cx else ofM4 Gates.cz
def lab : Option (List Nat) := some (" Sample_Observables".toList.map Char.toNat)
/-- `ry 1; x 0; cx 1 0 (reversed orientation); measure 2` — labelled barrier on `[2,0,1]` — `rz 2; cz 2 1; barrier 0` -/
def raw : List RawInstr :=
  [.gate1 2 1, .gate1 1 0, .gate2 1 1 0, .measure 2 0, .barrier [2, 0, 1] lab, .gate1 3 2, .gate2 2 2 1, .barrier [0] none]
def obs : List (ObsExec 3) := [.one 1 Gates.z, .two 0 (by decide) (kronPair Gates.x Gates.x), .one 0 (Gates.y CRat.I)]

/-- non-vacuity of `colValuesExec_is_column_values` / `colValuesExec_at_barrier`: three columns with non-trivial rational
    values (`⟨Z₁⟩ = 1` before, `−7/25` after `ry` at `(3/5,4/5)`; `⟨X₀X₁⟩ = 24/25` after the reversed CX), and the circuit
    meets the hypotheses of the barrier theorem -/
example :
    colValuesExec 3 g1 g2 (basisVec 3 (fun _ => 0)) raw obs
      = some [(0, [1, 0, 0]), (1, [-7/25, 24/25, 0]), (2, [-7/25, 24/25, 0])] ∧
    raw.map (classify isSampleLabel)
      = [.gate1 2 1, .gate1 1 0, .gate2 1 1 0, .measure 2 0] ++ .sbarrier [2, 0, 1] :: [.gate1 3 2, .gate2 2 2 1, .barrier [0]] ∧
    (∀ j ∈ ([.gate1 2 1, .gate1 1 0, .gate2 1 1 0, .measure 2 0] : List Instr), ∃ q ∈ j.qubits, q ∈ [2, 0, 1]) ∧
    (∀ j ∈ ([.gate1 3 2, .gate2 2 2 1, .barrier [0]] : List Instr), ∃ q ∈ j.qubits, q ∈ [2, 0, 1]) := by
  decide +kernel

end Yaqs.ColumnsExec.Example
