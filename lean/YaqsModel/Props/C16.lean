import YaqsModel.Lemmas.Layers

/-!
# C16 — barriers / measurements are transparent; labelled barriers sample where they stand

Property theorems only (helper lemmas: `Lemmas/Layers.lean`; model: `Model/Layers.lean`).

Clauses of the property and the theorem deciding each, all for **every** circuit with any placement of plain
barriers, labelled barriers and measurements, in strong mode with `sample_layers` on / off and in weak mode:

* "the simulation terminates whether or not layer sampling is enabled"   → `iteration_removes_node`,
  `loop_terminates`, `run_terminates`, `loop_fuel_irrelevant`; the loop as found (D12) does not:
  `loop_stuck_old`, `loop_stuck_old_any`.
* "a circuit gives the same results with them removed"                   → `transparent`, `transparent_strip`,
  `prefix_state`.
* "the result columns are initial state, state at each labelled barrier in circuit order, final state"
                                                                         → `columns`, `columns_shape`,
  `columns_in_place` (needs the barrier to be full-width: `columns_partial_counterexample`), `columns_off`;
  the two label predicates as found (D18) break it:
  `columns_mismatch_old`.
* "labelled SAMPLE_OBSERVABLES, case-insensitive"                        → the predicate `isSampleLabel`
  (`strip().upper()`), `examples` below; `process_layer` and `_run_strong_sim` share it by construction of
  `runCircuit`, and `label_count_agree` is the fact that makes the column count right.
-/
namespace Yaqs.Layers

open List

/-! ## termination -/

/-- **C16.T1** Every iteration of the `while dag.op_nodes()` loop removes at least one node: the first
    remaining instruction is always in the front layer and every front node is consumed. -/
theorem iteration_removes_node (i : Instr) (rest : List Instr) :
    (splitFront stayNew [] (i :: rest)).2.length < (i :: rest).length :=
  split_rest_lt i rest

/-- **C16.T2** `digital_tjm` terminates for every circuit in every mode: `length` iterations suffice. -/
theorem loop_terminates (mode : Mode) (numMid : Nat) (c : List Instr) :
    (digitalTjm mode numMid c).isSome = true := by
  unfold digitalTjm digitalTjmWith
  rw [visit_eq c]
  cases mode <;> rfl

/-- **C16.T2'** the same one level up: `_run_circuit` → `_run_strong_sim` / `_run_weak_sim`, raw labels. -/
theorem run_terminates (mode : Mode) (raw : List RawInstr) : (runCircuit mode raw).isSome = true := by
  unfold runCircuit runCircuitWith
  exact loop_terminates mode _ _

/-- **C16.T3** The fuel is not a modelling artefact: any larger fuel gives the same run. -/
theorem loop_fuel_irrelevant (c : List Instr) (k : Nat) :
    visitLoop stayNew (c.length + k) c = visitLoop stayNew c.length c := by
  rw [visit_eq c, visitLoop_eq_visit _ _ (Nat.le_add_right _ _)]

example : digitalTjm .weak 0 [.gate1 0 0, .sbarrier [0, 1], .gate2 1 0 1] =
    some [.app1 0 0, .app2 1 0 1, .shots] := by decide

/-- **C16.T4** (code as found, D12) `h 0; barrier(label=SAMPLE_OBSERVABLES); cx 0 1` without layer sampling:
    the old loop — labelled barrier removed only inside the sampling branch — never finishes,
    whatever the number of iterations allowed. -/
theorem loop_stuck_old (fuel : Nat) :
    visitLoop (stayOld false) fuel [.gate1 0 0, .sbarrier [0, 1], .gate2 1 0 1] = none :=
  visitLoop_stuck (stayOld false) fuel _ (.sbarrier [0, 1]) (by simp) rfl

/-- **C16.T4'** (code as found, D12, in general) *any* circuit containing a labelled barrier hangs the old
    loop in every non-sampling mode (strong without `sample_layers`, weak). -/
theorem loop_stuck_old_any (mode : Mode) (hm : mode.sampling = false) (numMid : Nat) (c : List Instr)
    (qs : List Nat) (hmem : Instr.sbarrier qs ∈ c) (fuel : Nat) :
    visitLoop (stayOld mode.sampling) fuel c = none ∧ digitalTjmOld mode numMid c = none := by
  have h : ∀ f, visitLoop (stayOld mode.sampling) f c = none := fun f =>
    visitLoop_stuck _ f c (.sbarrier qs) hmem (by simp [stayOld, hm, Instr.isSB])
  refine ⟨h fuel, ?_⟩
  unfold digitalTjmOld digitalTjmWith
  rw [h c.length]

/-- with sampling on, the old loop and the repaired loop are the same function -/
theorem old_loop_eq_when_sampling (numMid : Nat) (c : List Instr) :
    digitalTjmOld .strongSample numMid c = digitalTjm .strongSample numMid c := by
  have : stayOld true = stayNew := by funext i; simp [stayOld, stayNew]
  unfold digitalTjmOld digitalTjm digitalTjmWith
  simp only [Mode.sampling, this]

/-! ## columns -/

/-- **C16.C0** `process_layer` and `_run_strong_sim` apply one and the same predicate to the label, so the
    number of barriers the loop will sample equals the number of columns reserved for them. -/
theorem label_count_agree (pred : Option (List Nat) → Bool) (raw : List RawInstr) :
    ((raw.map (classify pred)).filter Instr.isSB).length = countMid pred raw :=
  sbCount_classify pred raw

/-- **C16.C1** (shape of a sampling run) With `sample_layers` on, `digital_tjm` evaluates column 0 before
    anything else, then runs the loop, which writes columns `1 … m` in this order, one per labelled barrier
    of the circuit (`m` = their number), and evaluates column `num_mid_measurements + 1` after everything. -/
theorem columns_shape (numMid : Nat) (c : List Instr) (evs : List Event)
    (h : digitalTjm .strongSample numMid c = some evs) :
    ∃ body, evs = .eval 0 :: (body ++ [.eval (numMid + 1)]) ∧
      evalCols body = List.range' 1 (c.filter Instr.isSB).length := by
  unfold digitalTjm digitalTjmWith at h
  rw [visit_eq c] at h
  simp only [Option.some.injEq] at h
  refine ⟨emit true 0 (visit c), h.symm, ?_⟩
  have := evalCols_emit_true 0 (visit c)
  rw [this, sbCount_perm (visit_perm c)]
  rfl

/-- **C16.C2** (the columns) For a circuit as the user wrote it (raw labels, any case, surrounding
    whitespace), with `sample_layers` on: the evaluation events are exactly columns
    `0, 1, …, n-1` in this order, each once, where `n` is the number of columns `_run_strong_sim` allocates
    (`num_mid_measurements + 2`): initial, one per labelled barrier, final.  No column stays unwritten,
    none is written twice, none is out of range. -/
theorem columns (raw : List RawInstr) (evs : List Event) (h : runCircuit .strongSample raw = some evs) :
    evalCols evs = List.range (numColumns isSampleLabel .strongSample raw) := by
  unfold runCircuit runCircuitWith at h
  simp only [Mode.sampling, if_true] at h
  obtain ⟨body, rfl, hb⟩ := columns_shape _ _ _ h
  have hc := label_count_agree isSampleLabel raw
  rw [hc] at hb
  simp only [numColumns]
  have : evalCols (Event.eval 0 :: (body ++ [Event.eval (countMid isSampleLabel raw + 1)])) =
      0 :: (evalCols body ++ [countMid isSampleLabel raw + 1]) := by
    simp [evalCols, List.filterMap_append]
  rw [this, hb, List.range_eq_range', List.range'_succ, List.range'_concat]
  simp [Nat.add_comm]

/-- **C16.C3** Without layer sampling exactly one column (the final state) is evaluated; in weak mode none. -/
theorem columns_off (numMid : Nat) (c : List Instr) :
    (∀ evs, digitalTjm .strongPlain numMid c = some evs → evalCols evs = [0]) ∧
    (∀ evs, digitalTjm .weak numMid c = some evs → evalCols evs = []) := by
  unfold digitalTjm digitalTjmWith
  rw [visit_eq c]
  have := evalCols_emit_false 0 (visit c)
  unfold evalCols at this
  constructor <;> intro evs h <;> simp only [Option.some.injEq] at h <;> subst h <;>
    simp [evalCols, Mode.sampling, List.filterMap_append, this]

/-- **C16.C4** (sampling happens where the barrier stands) Let a labelled barrier be full-width for the
    circuit `pre ++ sbarrier qs :: post` (every other instruction has a qubit among `qs`) and let `k` be the
    number of labelled barriers in front of it.  Then the sampling run is
    `… gate applications of pre … , eval (k+1), … gate applications of post …`: the gates applied before
    column `k+1` is evaluated are exactly the gates in front of the barrier (in the schedule of `pre` alone),
    the gates applied after it exactly those behind it. Other labelled barriers may be partial.
    The hypothesis "full-width" (`hpre`, `hpost`) is essential and is the excluded point of the property:
    for a labelled barrier that does not span all qubits the statement is false for the model
    (`columns_partial_counterexample`) and for the real code (run on it: `x 0; y 0; barrier(0,label);
    barrier(1,label)` gives `<Z0>` columns `[1,-1,1,1]`; `measure 1; h 1; barrier(0,label)` gives `<X1>` columns
    `[0,0,1]` but `[0,1,1]` with the measurement removed) — known finding D27, key
    `C16:partial-labelled-barrier`, checked on every run by the oracle kind `partial-labelled-barrier`. -/
theorem columns_in_place (numMid : Nat) (pre post : List Instr) (qs : List Nat)
    (hpre : ∀ j ∈ pre, ∃ q ∈ j.qubits, q ∈ qs) (hpost : ∀ j ∈ post, ∃ q ∈ j.qubits, q ∈ qs) :
    ∃ before after,
      digitalTjm .strongSample numMid (pre ++ .sbarrier qs :: post) =
        some (before ++ .eval ((pre.filter Instr.isSB).length + 1) :: after) ∧
      before.filter Event.isApp = (schedule pre).filterMap Event.ofInstr ∧
      after.filter Event.isApp = (schedule post).filterMap Event.ofInstr ∧
      evalCols before = List.range ((pre.filter Instr.isSB).length + 1) := by
  have toW : ∀ l : List Instr, (∀ j ∈ l, ∃ q ∈ j.qubits, q ∈ qs) →
      ∀ j ∈ l, ∃ w ∈ j.wires, w ∈ (Instr.sbarrier qs).wires := by
    intro l hl j hj
    obtain ⟨q, hq, hqs⟩ := hl j hj
    exact ⟨Wire.q q, by simp [Instr.wires, hq], by simp [Instr.wires, Instr.qubits, hqs]⟩
  have hv := visit_full pre post (.sbarrier qs) (toW pre hpre) (toW post hpost)
  have hk : sbCount (visit pre) = (pre.filter Instr.isSB).length := sbCount_perm (visit_perm pre)
  refine ⟨.eval 0 :: emit true 0 (visit pre),
    emit true ((pre.filter Instr.isSB).length + 1) (visit post) ++ [.eval (numMid + 1)], ?_, ?_, ?_, ?_⟩
  · unfold digitalTjm digitalTjmWith
    rw [visit_eq, hv]
    simp only [Mode.sampling, emit_append, if_true, hk, emit]
    simp
  · simp [Event.isApp, apps_emit, schedule]
  · simp [List.filter_append, Event.isApp, apps_emit, schedule]
  · have := evalCols_emit_true 0 (visit pre)
    unfold evalCols at this ⊢
    simp only [List.filterMap_cons, this, hk]
    rw [List.range_eq_range', List.range'_succ]

example : digitalTjm .strongSample 2
    [.gate1 1 0, .gate1 2 1, .gate2 3 1 0, .sbarrier [0, 1, 2, 3], .gate2 4 2 1, .measure 0 0, .gate2 5 2 3,
     .barrier [0, 2], .gate1 6 3, .sbarrier [1, 2], .gate2 7 1 2] =
    some [.eval 0, .app1 1 0, .app1 2 1, .app2 3 1 0, .eval 1, .app2 4 2 1, .app2 5 2 3, .app1 6 3, .eval 2,
          .app2 7 1 2, .eval 3] := by decide

/-- **C16.C4'** (the full-width hypothesis of C16.C4 cannot be dropped) With *partial* labelled barriers the
    columns follow the DAG layers, not the program: in `x 0; y 0; sbarrier [0]; sbarrier [1]` the barrier on
    qubit 1 — second in the program — is sampled first (column 1), after `x 0` only, and the barrier on
    qubit 0 gets column 2.  The real code does exactly this (known finding D27, key `C16:partial-labelled-barrier`). -/
theorem columns_partial_counterexample :
    digitalTjm .strongSample 2 [.gate1 1 0, .gate1 2 0, .sbarrier [0], .sbarrier [1]] =
      some [.eval 0, .app1 1 0, .eval 1, .app1 2 0, .eval 2, .eval 3] := by
  decide

/-- **C16.C5** (code as found, D18) `process_layer` compared the label without `.strip()` while
    `_run_strong_sim` stripped it.  For `h 0; barrier(label=" sample_observables "); cx 0 1` three columns are
    allocated but only columns 0 and 2 are ever written: column 1 stays unfilled. -/
theorem columns_mismatch_old :
    let lab := some (" sample_observables ".toList.map Char.toNat)
    let raw : List RawInstr := [.gate1 0 0, .barrier [0, 1] lab, .gate2 1 0 1]
    numColumns isSampleLabel .strongSample raw = 3 ∧
    (runCircuitWith (fun _ => stayNew) isSampleLabelOld isSampleLabel .strongSample raw).map evalCols
      = some [0, 2] ∧
    (runCircuit .strongSample raw).map evalCols = some [0, 1, 2] := by
  decide

/-- the label predicate: case-insensitive, surrounding whitespace ignored, nothing else accepted -/
example : isSampleLabel (some ("SAMPLE_OBSERVABLES".toList.map Char.toNat)) = true ∧
    isSampleLabel (some ("sample_Observables".toList.map Char.toNat)) = true ∧
    isSampleLabel (some (" \tsample_observables\n".toList.map Char.toNat)) = true ∧
    isSampleLabel (some ("SAMPLE OBSERVABLES".toList.map Char.toNat)) = false ∧
    isSampleLabel (some ("SAMPLE_OBSERVABLES_2".toList.map Char.toNat)) = false ∧
    isSampleLabel (some []) = false ∧ isSampleLabel none = false := by decide

/-! ## transparency -/

/-- **C16.P1** (transparency) Removing any set of non-gate instructions — measurements, plain barriers,
    labelled barriers — does not change the product of the applied gates, in any monoid in which gates on
    disjoint qubits commute (both multiplication orders).  `keep` is any filter that keeps all gates. -/
theorem transparent {M : Type*} [Monoid M] (sem : Instr → M)
    (hcomm : ∀ g h, g.isGate = true → h.isGate = true → (∀ q, ¬(q ∈ g.qubits ∧ q ∈ h.qubits)) →
      Commute (sem g) (sem h))
    (keep : Instr → Bool) (hk : ∀ i, i.isGate = true → keep i = true) (c : List Instr) :
    ((schedule (c.filter keep)).map sem).prod = ((schedule c).map sem).prod ∧
    ((schedule (c.filter keep)).map sem).reverse.prod = ((schedule c).map sem).reverse.prod := by
  have hp : (schedule (c.filter keep)).Perm (schedule c) := by
    have h1 := schedule_perm_gates (c.filter keep)
    rw [gates_filter_keep keep hk c] at h1
    exact h1.trans (schedule_perm_gates c).symm
  have hw : ∀ w, onWire w (schedule (c.filter keep)) = onWire w (schedule c) := by
    intro w
    rw [schedule_onWire, schedule_onWire, gates_filter_keep keep hk c]
  exact gate_prod_eq sem hcomm _ _ (fun _ h => mem_gates h) (fun _ h => mem_gates h) hp hw

/-- **C16.P1'** the instance of the property text: measurements and plain barriers removed. -/
theorem transparent_strip {M : Type*} [Monoid M] (sem : Instr → M)
    (hcomm : ∀ g h, g.isGate = true → h.isGate = true → (∀ q, ¬(q ∈ g.qubits ∧ q ∈ h.qubits)) →
      Commute (sem g) (sem h)) (c : List Instr) :
    ((schedule (strip c)).map sem).reverse.prod = ((schedule c).map sem).reverse.prod :=
  (transparent sem hcomm (fun i => !i.isDropped) (fun i hi => by cases i <;> simp_all [Instr.isGate, Instr.isDropped])
    c).2

/-- **C16.P2** (transparency, column by column) For any program prefix `pre`, the product of the gates in
    the order the simulator applies them equals the product of the program gates of `pre`, with or without
    the markers of `pre`.  Together with `columns_in_place` (the gate applications before column `k+1` are
    the schedule of the instructions in front of the `k+1`-st full-width labelled barrier) this says: the
    state sampled at a full-width labelled barrier is the state of the circuit prefix, and it is the same
    in the run with markers removed. -/
theorem prefix_state {M : Type*} [Monoid M] (sem : Instr → M)
    (hcomm : ∀ g h, g.isGate = true → h.isGate = true → (∀ q, ¬(q ∈ g.qubits ∧ q ∈ h.qubits)) →
      Commute (sem g) (sem h))
    (keep : Instr → Bool) (hk : ∀ i, i.isGate = true → keep i = true) (pre : List Instr) :
    ((schedule (pre.filter keep)).map sem).reverse.prod = ((gates pre).map sem).reverse.prod ∧
    ((schedule pre).map sem).reverse.prod = ((gates pre).map sem).reverse.prod := by
  have h2 := (gate_prod_eq sem hcomm (schedule pre) (gates pre) (fun _ h => mem_gates h)
    (fun _ h => mem_gates h) (schedule_perm_gates pre) (schedule_onWire pre)).2
  exact ⟨(transparent sem hcomm keep hk pre).2.trans h2, h2⟩

example : strip [.gate1 1 0, .measure 0 0, .barrier [0, 1], .sbarrier [0, 1], .gate2 2 1 0] =
    [.gate1 1 0, .sbarrier [0, 1], .gate2 2 1 0] := by decide

/-- the stripped circuit is scheduled differently (`gate1 3 1` no longer waits for the measurement),
    yet C16.P1 says the products agree -/
example : schedule [.gate1 1 0, .measure 1 0, .gate1 3 1, .gate2 2 1 0] ≠
    schedule (strip [.gate1 1 0, .measure 1 0, .gate1 3 1, .gate2 2 1 0]) ∨
    schedule [.gate2 1 0 1, .measure 2 0, .gate1 2 2, .gate1 3 0] ≠
    schedule (strip [.gate2 1 0 1, .measure 2 0, .gate1 2 2, .gate1 3 0]) := by decide

end Yaqs.Layers
