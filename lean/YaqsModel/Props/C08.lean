import YaqsModel.Lemmas.Rank
import YaqsModel.Model.Bonds

/-!
# C08 — the bond dimension never exceeds the user's cap

`bound c init i = max (max maxB minB) (max 2 init_i)`.  The `2` is the hard floor of the SVD centre shift
(`two_site_svd`, `min_keep = 2`); it only matters when `max maxB minB < 2`, i.e. `max_bond_dim = min_bond_dim = 1`
(known finding D16).  `c08_full` is the statement of the property proper, under `2 ≤ max maxB minB`.
-/
namespace Yaqs.Bonds
open Yaqs.Rank

/-- **C08.1** discarded-weight split: kept rank ≤ max(max_bond_dim, min_bond_dim) for every spectrum and threshold
    (the repaired rule; holds whether or not the caller passes `dynamic=True`) -/
theorem c08_keepDW_le (s : List Rat) (thr : Rat) (mn mx : Nat) : keepDW s thr mn mx ≤ max mx mn := by
  unfold keepDW
  simp only
  split <;> omega

/-- **C08.1b** relative split -/
theorem c08_keepRel_le (s : List Rat) (thr : Rat) (mn mx k : Nat) (h : keepRel s thr mn mx = some k) :
    k ≤ max mx mn := by
  cases s with
  | nil => simp [keepRel] at h
  | cons a t => simp only [keepRel, Option.some.injEq] at h; omega

/-- the code as found: with `dynamic=True`, or whenever the loop breaks, the cap was ignored -/
theorem c08_keepDWOld_ignores_cap :
    keepDWOld [1, 1, 1, 1] 0 2 2 false = 4 ∧ keepDWOld [1, 1/2, 1/4, 1/8] 0 2 3 true = 4 := by decide +kernel

theorem c08_split_le (c : Cfg) (s : List Rat) : splitKeep c s ≤ max c.maxB c.minB := by
  unfold splitKeep
  cases hm : c.mode with
  | dw => exact c08_keepDW_le s c.thr c.minB c.maxB
  | rel =>
    simp only
    cases hk : keepRel s c.thr c.minB c.maxB with
    | none => simp
    | some k => simpa using c08_keepRel_le s c.thr c.minB c.maxB k hk

/-- **C08.2** a QR centre shift never enlarges the bond it crosses -/
theorem c08_qr_le (d l b : Nat) : min (d * l) b ≤ b := Nat.min_le_right _ _

/-- **C08.3** an SVD centre shift keeps at most `max oldBond 2` values, given the numerical-rank hypothesis and a
    state that is not numerically zero -/
theorem c08_svd_le (s : List Rat) (thr : Rat) (chi : Nat)
    (hrank : tailWeight s chi < thr) (htot : thr ≤ sqsum s) (hpos : 0 < thr) :
    keepTwoSite s thr none ≤ max chi 2 := by
  unfold keepTwoSite capOpt
  simp only
  have hb : brokeGE thr s.reverse 0 = true :=
    brokeGE_of_total thr s.reverse 0 hpos (by rw [sqsum_reverse]; linarith)
  simp only [hb, if_true]
  by_cases hc : chi ≤ s.length
  · have h1 : tailWeight s (s.length - (s.length - chi)) = sqsum (s.reverse.take (s.length - chi)) :=
      tailWeight_eq_take_reverse s (s.length - chi)
    have h2 : s.length - (s.length - chi) = chi := by omega
    rw [h2] at h1
    have := dropGE_ge thr s.reverse 0 (s.length - chi) (by simp) (by rw [← h1]; linarith)
    omega
  · omega

theorem c08_trunc_le (s : List Rat) (thr : Rat) (chi cap : Nat)
    (hrank : tailWeight s chi < thr) (htot : thr ≤ sqsum s) (hpos : 0 < thr) :
    keepTwoSite s thr (some cap) ≤ max chi 2 := by
  have h := c08_svd_le s thr chi hrank htot hpos
  unfold keepTwoSite capOpt at *
  simp only at *
  omega

private theorem getD_set (bs : List Nat) (i j v : Nat) :
    (bs.set i v).getD j 1 = if i = j ∧ i < bs.length then v else bs.getD j 1 := by
  simp only [List.getD_eq_getElem?_getD, List.getElem?_set]
  by_cases hij : i = j
  · subst hij
    by_cases hl : i < bs.length
    · simp [hl]
    · simp [hl]
  · simp [hij]

/-- one step preserves "every bond is within its bound" -/
theorem c08_step (c : Cfg) (init bs : List Nat) (op : Op)
    (hinv : ∀ i, bs.getD i 1 ≤ bound c init i) (hok : OpOk bs op) :
    ∀ i, (apply c bs op).getD i 1 ≤ bound c init i := by
  intro j
  unfold apply
  rw [getD_set]
  split
  · rename_i h
    obtain ⟨hj, _⟩ := h
    have hb := hinv j
    cases op with
    | split i s =>
      simp only [Op.bond] at hj; subst hj
      have := c08_split_le c s
      simp only [newBond, bound]; omega
    | qr i d =>
      simp only [Op.bond] at hj; subst hj
      simp only [newBond]
      exact le_trans (Nat.min_le_right _ _) hb
    | svd i s thr =>
      simp only [Op.bond] at hj; subst hj
      obtain ⟨h1, h2, h3⟩ := hok
      have := c08_svd_le s thr _ h1 h2 h3
      simp only [newBond]
      unfold bound at *; omega
    | trunc i s thr cap =>
      simp only [Op.bond] at hj; subst hj
      obtain ⟨h1, h2, h3⟩ := hok
      have := c08_trunc_le s thr _ cap h1 h2 h3
      simp only [newBond]
      unfold bound at *; omega
  · exact hinv j

/-- **C08.4 (bond invariant)** for every sequence of bond-changing primitives — any number of sweeps, steps, gates,
    jumps, dissipators, in any order, on any bonds, with any spectra — every bond stays within
    `max (max maxB minB) (max 2 init_i)`. -/
theorem c08_bond_invariant (c : Cfg) (init : List Nat) (ops : List Op) :
    ∀ bs : List Nat, (∀ i, bs.getD i 1 ≤ bound c init i) → AllOk c bs ops →
      ∀ i, (run c bs ops).getD i 1 ≤ bound c init i := by
  induction ops with
  | nil => intro bs h _ i; exact h i
  | cons op ops ih =>
    intro bs h hok
    obtain ⟨h1, h2⟩ := hok
    exact ih (apply c bs op) (c08_step c init bs op h h1) h2

/-- the initial bonds are within their own bound -/
theorem c08_init_ok (c : Cfg) (init : List Nat) : ∀ i, init.getD i 1 ≤ bound c init i := by
  intro i; unfold bound; omega

/-- **C08 (full statement)** when `max_bond_dim` or `min_bond_dim` is at least 2, no bond ever exceeds
    `max(max_bond_dim, min_bond_dim, initial bond)`.  The excluded point `max_bond_dim = min_bond_dim = 1` is
    finding D16 (run on the real code by the check). -/
theorem c08_full (c : Cfg) (init : List Nat) (ops : List Op) (h2 : 2 ≤ max c.maxB c.minB)
    (hok : AllOk c init ops) (i : Nat) :
    (run c init ops).getD i 1 ≤ max (max c.maxB c.minB) (init.getD i 1) := by
  have := c08_bond_invariant c init ops init (c08_init_ok c init) hok i
  unfold bound at this
  omega


/-- **C08.5 (BUG mode)** `MPS.truncate(threshold, max_bond_dim)` ends every BUG step: a truncation of bond `i` with
    cap `m` leaves it `≤ m`, later truncations of other bonds do not touch it, so after a sweep that visits every
    bond all bonds are `≤ m`, whatever the basis enlargement did before. -/
theorem c08_trunc_cap (c : Cfg) (bs : List Nat) (i : Nat) (s : List Rat) (thr : Rat) (m : Nat) :
    newBond c bs (.trunc i s thr m) ≤ m := by
  simp only [newBond]; unfold keepTwoSite capOpt; simp only; omega

def IsTrunc (m : Nat) : Op → Prop
  | .trunc _ _ _ cap => cap = m
  | _ => False

theorem c08_trunc_preserves (c : Cfg) (m : Nat) (ops : List Op) (hall : ∀ op ∈ ops, IsTrunc m op) :
    ∀ (bs : List Nat) (j : Nat), bs.getD j 1 ≤ m → (run c bs ops).getD j 1 ≤ m := by
  induction ops with
  | nil => intro bs j h; exact h
  | cons op ops ih =>
    intro bs j h
    have hop := hall op (by simp)
    apply ih (fun o ho => hall o (by simp [ho]))
    unfold apply
    rw [getD_set]
    split
    · cases op with
      | trunc i s thr cap => simp only [IsTrunc] at hop; subst hop; exact c08_trunc_cap c bs i s thr cap
      | split _ _ => exact absurd hop (by simp [IsTrunc])
      | qr _ _ => exact absurd hop (by simp [IsTrunc])
      | svd _ _ _ => exact absurd hop (by simp [IsTrunc])
    · exact h

theorem c08_bug_sweep (c : Cfg) (m : Nat) (ops : List Op) (hall : ∀ op ∈ ops, IsTrunc m op) :
    ∀ (bs : List Nat) (j : Nat), j < bs.length → (∃ op ∈ ops, op.bond = j) → (run c bs ops).getD j 1 ≤ m := by
  induction ops with
  | nil => intro bs j _ h; obtain ⟨op, hop, _⟩ := h; simp at hop
  | cons op ops ih =>
    intro bs j hj hex
    have hop := hall op (by simp)
    have hall' : ∀ o ∈ ops, IsTrunc m o := fun o ho => hall o (by simp [ho])
    have hlen : (apply c bs op).length = bs.length := by unfold apply; simp
    by_cases hb : op.bond = j
    · -- this op truncates bond j; the rest preserves `≤ m`
      apply c08_trunc_preserves c m ops hall'
      unfold apply
      rw [getD_set]
      simp only [hb, hj, and_self, if_true]
      cases op with
      | trunc i s thr cap => simp only [IsTrunc] at hop; subst hop; exact c08_trunc_cap c bs i s thr cap
      | split _ _ => exact absurd hop (by simp [IsTrunc])
      | qr _ _ => exact absurd hop (by simp [IsTrunc])
      | svd _ _ _ => exact absurd hop (by simp [IsTrunc])
    · obtain ⟨o, ho, hoj⟩ := hex
      have : o ∈ ops := by
        rcases List.mem_cons.mp ho with rfl | h
        · exact absurd hoj hb
        · exact h
      exact ih hall' (apply c bs op) j (by rw [hlen]; exact hj) ⟨o, this, hoj⟩

/-- non-vacuity: a cap of 3 (not a power of 2) on a chain of bonds [2,2], a split that wants 4 and an SVD shift -/
example :
    let c : Cfg := { mode := .dw, thr := 0, minB := 2, maxB := 3 }
    run c [2, 2] [.split 0 [1, 1/2, 1/4, 1/8], .qr 1 2, .svd 0 [1, 1/2, 1/4, 0] (1/1000)] = [3, 2] := by
  decide +kernel

example : OpOk [3, 2] (.svd 0 [1, 1/2, 1/4, 0] (1/1000)) := by
  simp only [OpOk]; decide +kernel

end Yaqs.Bonds
