import YaqsModel.Lemmas.Rank
import YaqsModel.Model.Bonds
import YaqsModel.Lemmas.SweepBonds

/-!
# C08 — the bond dimension never exceeds the user's cap

`bound c init i = max (max maxB minB) (max 2 init_i)`.  The `2` is the hard floor of the SVD centre shift
(`two_site_svd`, `min_keep = 2`); it only matters when `max maxB minB < 2`, i.e. `max_bond_dim = min_bond_dim = 1`
(known finding D16).  `c08_full` is the statement of the property proper, under `2 ≤ max maxB minB`.
-/
namespace Yaqs.Bonds
open Yaqs.Rank

/-- **C08.1** discarded-weight split: kept rank ≤ max(max_bond_dim, min_bond_dim) for every spectrum and threshold
    (the repaired rule; holds whether or not the caller passes `dynamic=True`) -/
theorem c08_keepDW_le (s : List Rat) (thr : Rat) (mn mx : Nat) : keepDW s thr mn mx ≤ max mx mn := by
  unfold keepDW
  simp only
  split <;> omega

/-- **C08.1b** relative split -/
theorem c08_keepRel_le (s : List Rat) (thr : Rat) (mn mx k : Nat) (h : keepRel s thr mn mx = some k) :
    k ≤ max mx mn := by
  cases s with
  | nil => simp [keepRel] at h
  | cons a t => simp only [keepRel, Option.some.injEq] at h; omega

/-- the code as found: with `dynamic=True`, or whenever the loop breaks, the cap was ignored -/
theorem c08_keepDWOld_ignores_cap :
    keepDWOld [1, 1, 1, 1] 0 2 2 false = 4 ∧ keepDWOld [1, 1/2, 1/4, 1/8] 0 2 3 true = 4 := by decide +kernel

theorem c08_split_le (c : Cfg) (s : List Rat) : splitKeep c s ≤ max c.maxB c.minB := by
  unfold splitKeep
  cases hm : c.mode with
  | dw => exact c08_keepDW_le s c.thr c.minB c.maxB
  | rel =>
    simp only
    cases hk : keepRel s c.thr c.minB c.maxB with
    | none => simp
    | some k => simpa using c08_keepRel_le s c.thr c.minB c.maxB k hk

/-- **C08.2** a QR centre shift never enlarges the bond it crosses -/
theorem c08_qr_le (d l b : Nat) : min (d * l) b ≤ b := Nat.min_le_right _ _

/-- **C08.3** an SVD centre shift keeps at most `max oldBond 2` values, given the numerical-rank hypothesis and a
    state that is not numerically zero -/
theorem c08_svd_le (s : List Rat) (thr : Rat) (chi : Nat)
    (hrank : tailWeight s chi < thr) (htot : thr ≤ sqsum s) (hpos : 0 < thr) :
    keepTwoSite s thr none ≤ max chi 2 := by
  unfold keepTwoSite capOpt
  simp only
  have hb : brokeGE thr s.reverse 0 = true :=
    brokeGE_of_total thr s.reverse 0 hpos (by rw [sqsum_reverse]; linarith)
  simp only [hb, if_true]
  by_cases hc : chi ≤ s.length
  · have h1 : tailWeight s (s.length - (s.length - chi)) = sqsum (s.reverse.take (s.length - chi)) :=
      tailWeight_eq_take_reverse s (s.length - chi)
    have h2 : s.length - (s.length - chi) = chi := by omega
    rw [h2] at h1
    have := dropGE_ge thr s.reverse 0 (s.length - chi) (by simp) (by rw [← h1]; linarith)
    omega
  · omega

theorem c08_trunc_le (s : List Rat) (thr : Rat) (chi cap : Nat)
    (hrank : tailWeight s chi < thr) (htot : thr ≤ sqsum s) (hpos : 0 < thr) :
    keepTwoSite s thr (some cap) ≤ max chi 2 := by
  have h := c08_svd_le s thr chi hrank htot hpos
  unfold keepTwoSite capOpt at *
  simp only at *
  omega

private theorem getD_set (bs : List Nat) (i j v : Nat) :
    (bs.set i v).getD j 1 = if i = j ∧ i < bs.length then v else bs.getD j 1 := by
  simp only [List.getD_eq_getElem?_getD, List.getElem?_set]
  by_cases hij : i = j
  · subst hij
    by_cases hl : i < bs.length
    · simp [hl]
    · simp [hl]
  · simp [hij]

/-- one step preserves "every bond is within its bound" -/
theorem c08_step (c : Cfg) (init bs : List Nat) (op : Op)
    (hinv : ∀ i, bs.getD i 1 ≤ bound c init i) (hok : OpOk bs op) :
    ∀ i, (apply c bs op).getD i 1 ≤ bound c init i := by
  intro j
  unfold apply
  rw [getD_set]
  split
  · rename_i h
    obtain ⟨hj, _⟩ := h
    have hb := hinv j
    cases op with
    | split i s =>
      simp only [Op.bond] at hj; subst hj
      have := c08_split_le c s
      simp only [newBond, bound]; omega
    | qr i d =>
      simp only [Op.bond] at hj; subst hj
      simp only [newBond]
      exact le_trans (Nat.min_le_right _ _) hb
    | svd i s thr =>
      simp only [Op.bond] at hj; subst hj
      obtain ⟨h1, h2, h3⟩ := hok
      have := c08_svd_le s thr _ h1 h2 h3
      simp only [newBond]
      unfold bound at *; omega
    | trunc i s thr cap =>
      simp only [Op.bond] at hj; subst hj
      obtain ⟨h1, h2, h3⟩ := hok
      have := c08_trunc_le s thr _ cap h1 h2 h3
      simp only [newBond]
      unfold bound at *; omega
  · exact hinv j

/-- **C08.4 (bond invariant)** for every sequence of bond-changing primitives — any number of sweeps, steps, gates,
    jumps, dissipators, in any order, on any bonds, with any spectra — every bond stays within
    `max (max maxB minB) (max 2 init_i)`. -/
theorem c08_bond_invariant (c : Cfg) (init : List Nat) (ops : List Op) :
    ∀ bs : List Nat, (∀ i, bs.getD i 1 ≤ bound c init i) → AllOk c bs ops →
      ∀ i, (run c bs ops).getD i 1 ≤ bound c init i := by
  induction ops with
  | nil => intro bs h _ i; exact h i
  | cons op ops ih =>
    intro bs h hok
    obtain ⟨h1, h2⟩ := hok
    exact ih (apply c bs op) (c08_step c init bs op h h1) h2

/-- the initial bonds are within their own bound -/
theorem c08_init_ok (c : Cfg) (init : List Nat) : ∀ i, init.getD i 1 ≤ bound c init i := by
  intro i; unfold bound; omega

/-- **C08 (full statement)** when `max_bond_dim` or `min_bond_dim` is at least 2, no bond ever exceeds
    `max(max_bond_dim, min_bond_dim, initial bond)`.  The excluded point `max_bond_dim = min_bond_dim = 1` is
    finding D16 (run on the real code by the check). -/
theorem c08_full (c : Cfg) (init : List Nat) (ops : List Op) (h2 : 2 ≤ max c.maxB c.minB)
    (hok : AllOk c init ops) (i : Nat) :
    (run c init ops).getD i 1 ≤ max (max c.maxB c.minB) (init.getD i 1) := by
  have := c08_bond_invariant c init ops init (c08_init_ok c init) hok i
  unfold bound at this
  omega


/-- **C08.5 (BUG mode)** `MPS.truncate(threshold, max_bond_dim)` ends every BUG step: a truncation of bond `i` with
    cap `m` leaves it `≤ m`, later truncations of other bonds do not touch it, so after a sweep that visits every
    bond all bonds are `≤ m`, whatever the basis enlargement did before. -/
theorem c08_trunc_cap (c : Cfg) (bs : List Nat) (i : Nat) (s : List Rat) (thr : Rat) (m : Nat) :
    newBond c bs (.trunc i s thr m) ≤ m := by
  simp only [newBond]; unfold keepTwoSite capOpt; simp only; omega

def IsTrunc (m : Nat) : Op → Prop
  | .trunc _ _ _ cap => cap = m
  | _ => False

theorem c08_trunc_preserves (c : Cfg) (m : Nat) (ops : List Op) (hall : ∀ op ∈ ops, IsTrunc m op) :
    ∀ (bs : List Nat) (j : Nat), bs.getD j 1 ≤ m → (run c bs ops).getD j 1 ≤ m := by
  induction ops with
  | nil => intro bs j h; exact h
  | cons op ops ih =>
    intro bs j h
    have hop := hall op (by simp)
    apply ih (fun o ho => hall o (by simp [ho]))
    unfold apply
    rw [getD_set]
    split
    · cases op with
      | trunc i s thr cap => simp only [IsTrunc] at hop; subst hop; exact c08_trunc_cap c bs i s thr cap
      | split _ _ => exact absurd hop (by simp [IsTrunc])
      | qr _ _ => exact absurd hop (by simp [IsTrunc])
      | svd _ _ _ => exact absurd hop (by simp [IsTrunc])
    · exact h

theorem c08_bug_sweep (c : Cfg) (m : Nat) (ops : List Op) (hall : ∀ op ∈ ops, IsTrunc m op) :
    ∀ (bs : List Nat) (j : Nat), j < bs.length → (∃ op ∈ ops, op.bond = j) → (run c bs ops).getD j 1 ≤ m := by
  induction ops with
  | nil => intro bs j _ h; obtain ⟨op, hop, _⟩ := h; simp at hop
  | cons op ops ih =>
    intro bs j hj hex
    have hop := hall op (by simp)
    have hall' : ∀ o ∈ ops, IsTrunc m o := fun o ho => hall o (by simp [ho])
    have hlen : (apply c bs op).length = bs.length := by unfold apply; simp
    by_cases hb : op.bond = j
    · -- this op truncates bond j; the rest preserves `≤ m`
      apply c08_trunc_preserves c m ops hall'
      unfold apply
      rw [getD_set]
      simp only [hb, hj, and_self, if_true]
      cases op with
      | trunc i s thr cap => simp only [IsTrunc] at hop; subst hop; exact c08_trunc_cap c bs i s thr cap
      | split _ _ => exact absurd hop (by simp [IsTrunc])
      | qr _ _ => exact absurd hop (by simp [IsTrunc])
      | svd _ _ _ => exact absurd hop (by simp [IsTrunc])
    · obtain ⟨o, ho, hoj⟩ := hex
      have : o ∈ ops := by
        rcases List.mem_cons.mp ho with rfl | h
        · exact absurd hoj hb
        · exact h
      exact ih hall' (apply c bs op) j (by rw [hlen]; exact hj) ⟨o, this, hoj⟩

/-- non-vacuity: a cap of 3 (not a power of 2) on a chain of bonds [2,2], a split that wants 4 and an SVD shift -/
example :
    let c : Cfg := { mode := .dw, thr := 0, minB := 2, maxB := 3 }
    run c [2, 2] [.split 0 [1, 1/2, 1/4, 1/8], .qr 1 2, .svd 0 [1, 1/2, 1/4, 0] (1/1000)] = [3, 2] := by
  decide +kernel

example : OpOk [3, 2] (.svd 0 [1, 1/2, 1/4, 0] (1/1000)) := by
  simp only [OpOk]; decide +kernel

end Yaqs.Bonds

/-!
# C08 extension — the invariant over the ACTUAL operation sequences of the code

`Model/SweepBonds.lean` translates the primitive updates of C05's sweep model (`Sweep.ldtdvpD`, `twoSite`, `singleSite`,
`bug`) and the noise part of one analog step / one digital gate step into the bond-changing primitives of `Model/Bonds`
(plus the left-moving QR shift and BUG's basis enlargement).  The theorems below prove the bound over these sequences
— for every chain length, decision pattern, spectra assignment (`ext`), noise pattern, jump outcome and number of
steps — with numerical hypotheses only where the code performs an SVD centre shift.
-/
namespace Yaqs.SweepBonds
open Yaqs.Bonds Yaqs.Rank

/-- split / QR ops of Model.Bonds -/
def IsSplitQr : Bonds.Op → Prop
  | .split _ _ => True
  | .qr _ _ => True
  | _ => False

/-- one split or QR shift (either direction) preserves any per-bond ceiling that is at least `max(maxB, minB)` -/
theorem c08_sweep_step (c : Cfg) (B : Nat → Nat) (hB : ∀ i, max c.maxB c.minB ≤ B i) (bs : List Nat) (o : XOp)
    (ho : o.IsSweep) (hinv : ∀ i, bs.getD i 1 ≤ B i) : ∀ i, (applyX c bs o).getD i 1 ≤ B i := by
  intro j
  cases o with
  | base b =>
    cases b with
    | split i s =>
      simp only [applyX, Bonds.apply, Op.bond, newBond]
      rw [getD_set]
      split
      · rename_i h; obtain ⟨rfl, _⟩ := h
        exact le_trans (c08_split_le c s) (hB _)
      · exact hinv j
    | qr i d =>
      simp only [applyX, Bonds.apply, Op.bond, newBond]
      rw [getD_set]
      split
      · rename_i h; obtain ⟨rfl, _⟩ := h
        exact le_trans (Nat.min_le_right _ _) (hinv _)
      · exact hinv j
    | svd i s t => exact absurd ho (by simp [XOp.IsSweep])
    | trunc i s t m => exact absurd ho (by simp [XOp.IsSweep])
  | qrl i d =>
    simp only [applyX]
    rw [getD_set]
    split
    · rename_i h; obtain ⟨rfl, _⟩ := h
      exact le_trans (Nat.min_le_right _ _) (hinv _)
    · exact hinv j
  | grow i v => exact absurd ho (by simp [XOp.IsSweep])

theorem c08_sweep_run (c : Cfg) (B : Nat → Nat) (hB : ∀ i, max c.maxB c.minB ≤ B i) (ops : List XOp)
    (hops : ∀ o ∈ ops, o.IsSweep) :
    ∀ bs : List Nat, (∀ i, bs.getD i 1 ≤ B i) → ∀ i, (runX c bs ops).getD i 1 ≤ B i := by
  induction ops with
  | nil => intro bs h; exact h
  | cons o os ih =>
    intro bs h
    rw [runX_cons]
    exact ih (fun x hx => hops x (by simp [hx])) _ (c08_sweep_step c B hB bs o (hops o (by simp)) h)

/-- **C08.6 (no SVD shift ⇒ no floor 2)** for every sequence of splits and QR shifts of Model.Bonds — on any bonds, in
    any order, with any spectra — every bond stays within `max(maxB, minB, initial bond)`.  The floor 2 of
    `c08_bond_invariant` is due to the SVD centre shift alone. -/
theorem c08_invariant_no_svd (c : Cfg) (init : List Nat) (ops : List Bonds.Op) (hops : ∀ o ∈ ops, IsSplitQr o) :
    ∀ bs : List Nat, (∀ i, bs.getD i 1 ≤ bound0 c init i) →
      ∀ i, (Bonds.run c bs ops).getD i 1 ≤ bound0 c init i := by
  intro bs h i
  rw [← runX_base]
  refine c08_sweep_run c (bound0 c init) (fun i => Nat.le_max_left _ _) (ops.map XOp.base) ?_ bs h i
  intro o ho
  obtain ⟨b, hb, rfl⟩ := List.mem_map.mp ho
  have := hops b hb
  cases b <;> simp_all [IsSplitQr, XOp.IsSweep]

/-- the same for the extended op set (QR shifts in both directions) -/
theorem c08_invariant_no_svd_x (c : Cfg) (init : List Nat) (ops : List XOp) (hops : ∀ o ∈ ops, o.IsSweep) :
    ∀ bs : List Nat, (∀ i, bs.getD i 1 ≤ bound0 c init i) → ∀ i, (runX c bs ops).getD i 1 ≤ bound0 c init i :=
  c08_sweep_run c (bound0 c init) (fun _ => Nat.le_max_left _ _) ops hops

/-- **C08.7 (the sweeps perform splits and QR shifts only)** for every chain length, decision pattern, mode and spectra
    assignment, every bond-changing primitive of `local_dynamic_tdvp`, `single_site_tdvp` and `two_site_tdvp` is a
    `split_mps_tensor` or a QR shift; hence the hypotheses `AllOkX` of the invariant hold for them in every state
    without any numerical assumption. -/
theorem c08_sweep_ops_ok (c : Cfg) (L : Nat) (phys : Nat → Nat) (dLR dRL : Nat → Bool) (digital : Bool)
    (ext : Nat → Ext) (k : Nat) (bs : List Nat) :
    ((∀ o ∈ fillFrom ext k (ldtdvpSk L phys dLR dRL digital), o.IsSweep) ∧
      AllOkX c bs (fillFrom ext k (ldtdvpSk L phys dLR dRL digital))) ∧
    ((∀ o ∈ fillFrom ext k (singleSiteSk L phys digital), o.IsSweep) ∧
      AllOkX c bs (fillFrom ext k (singleSiteSk L phys digital))) ∧
    (∀ ops, twoSiteSk L phys digital = some ops →
      (∀ o ∈ fillFrom ext k ops, o.IsSweep) ∧ AllOkX c bs (fillFrom ext k ops)) ∧
    ((∀ o ∈ ldtdvpAuto c L phys digital ext bs, o.IsSweep) ∧ AllOkX c bs (ldtdvpAuto c L phys digital ext bs)) := by
  have h1 := isSweep_fillFrom ext _ k (isSweep_ldtdvpSk L phys dLR dRL digital)
  have h2 := isSweep_fillFrom ext _ k (isSweep_singleSiteSk L phys digital)
  have h4 : ∀ o ∈ ldtdvpAuto c L phys digital ext bs, o.IsSweep := by
    rw [ldtdvpAuto_eq]; exact isSweep_fillFrom ext _ 0 (isSweep_ldtdvpSk L phys _ _ digital)
  refine ⟨⟨h1, allOkX_of_isSweep c _ bs h1⟩, ⟨h2, allOkX_of_isSweep c _ bs h2⟩, ?_, ⟨h4, allOkX_of_isSweep c _ bs h4⟩⟩
  intro ops hops
  have h3 := isSweep_fillFrom ext _ k (isSweep_twoSiteSk L phys digital ops hops)
  exact ⟨h3, allOkX_of_isSweep c _ bs h3⟩

/-- **C08.8 (`local_dynamic_tdvp`)** for every chain length `L`, every decision pattern in both half sweeps, analog or
    digital, every spectra assignment and every bond vector within the bound, after one call every bond is
    `≤ max(maxB, minB, initial bond)` — no floor 2, no numerical hypothesis. -/
theorem c08_ldtdvp_bounded (c : Cfg) (L : Nat) (phys : Nat → Nat) (dLR dRL : Nat → Bool) (digital : Bool)
    (ext : Nat → Ext) (init bs : List Nat) (hinv : ∀ i, bs.getD i 1 ≤ bound0 c init i) :
    ∀ i, (runX c bs (fillFrom ext 0 (ldtdvpSk L phys dLR dRL digital))).getD i 1 ≤ bound0 c init i :=
  c08_invariant_no_svd_x c init _ (isSweep_fillFrom ext _ 0 (isSweep_ldtdvpSk L phys dLR dRL digital)) bs hinv

/-- the same with the decisions read off the bond vector (`ldtdvpAuto`), stated from the state the call starts in -/
theorem c08_ldtdvp_auto_bounded (c : Cfg) (L : Nat) (phys : Nat → Nat) (digital : Bool) (ext : Nat → Ext)
    (bs : List Nat) (i : Nat) :
    (runX c bs (ldtdvpAuto c L phys digital ext bs)).getD i 1 ≤ max (max c.maxB c.minB) (bs.getD i 1) := by
  have h := (c08_sweep_ops_ok c L phys (fun _ => false) (fun _ => false) digital ext 0 bs).2.2.2.1
  exact c08_invariant_no_svd_x c bs _ h bs (fun j => Nat.le_max_right _ _) i

/-- **C08.8' (`two_site_tdvp`, `single_site_tdvp`)** the fixed-branch integrators: same bound -/
theorem c08_fixed_sweeps_bounded (c : Cfg) (L : Nat) (phys : Nat → Nat) (digital : Bool) (ext : Nat → Ext)
    (init bs : List Nat) (hinv : ∀ i, bs.getD i 1 ≤ bound0 c init i) :
    (∀ i, (runX c bs (fillFrom ext 0 (singleSiteSk L phys digital))).getD i 1 ≤ bound0 c init i) ∧
    (∀ ops, twoSiteSk L phys digital = some ops →
      ∀ i, (runX c bs (fillFrom ext 0 ops)).getD i 1 ≤ bound0 c init i) := by
  constructor
  · exact c08_invariant_no_svd_x c init _ (isSweep_fillFrom ext _ 0 (isSweep_singleSiteSk L phys digital)) bs hinv
  · intro ops hops
    exact c08_invariant_no_svd_x c init _ (isSweep_fillFrom ext _ 0 (isSweep_twoSiteSk L phys digital ops hops)) bs hinv

/-! #### BUG -/

private theorem fill_truncs (ext : Nat → Ext) (t : Rat) (m : Nat) : ∀ (l : List Nat) (k : Nat),
    ∃ ops : List Bonds.Op, fillFrom ext k (l.map fun i => XOp.base (.trunc i [] t m)) = ops.map XOp.base ∧
      (∀ op ∈ ops, IsTrunc m op) ∧ ops.map Op.bond = l := by
  intro l
  induction l with
  | nil => intro k; exact ⟨[], rfl, by simp, rfl⟩
  | cons i is ih =>
    intro k
    obtain ⟨ops, h1, h2, h3⟩ := ih (k + 1)
    refine ⟨.trunc i (ext k).s t m :: ops, ?_, ?_, ?_⟩
    · simp only [List.map_cons, fillFrom, XOp.fill, h1]
    · intro op hop
      rcases List.mem_cons.mp hop with rfl | h
      · rfl
      · exact h2 op h
    · simp [Op.bond, h3]

private theorem truncSk_eq (c : Cfg) (L c0 : Nat) :
    truncSk c L c0 = (List.range c0 ++ (List.range (L - 1 - c0)).map fun j => L - 2 - j).map
      fun i => XOp.base (.trunc i [] c.thr c.maxB) := by
  simp [truncSk, List.map_append, List.map_map, Function.comp_def]

private theorem bugSk_eq (c : Cfg) (L c0 : Nat) :
    ∃ grows : List XOp, bugSk c L c0 = grows ++ truncSk c L c0 := by
  refine ⟨(Sweep.bugDown (L - 1)).flatMap (bugOpBond c L c0), ?_⟩
  simp [bugSk, Sweep.bug, List.flatMap_append, bugOpBond]

/-- **C08.9 (`bug`)** whatever the basis enlargements do, after the closing `MPS.truncate(threshold, max_bond_dim)` —
    which visits every bond once, wherever the orthogonality centre `c0` is found — every bond of the chain is
    `≤ max_bond_dim`: no numerical hypothesis, no dependence on the state before the call. -/
theorem c08_bug_bounded (c : Cfg) (L c0 : Nat) (hc0 : c0 ≤ L - 1) (ext : Nat → Ext) (bs : List Nat)
    (hlen : bs.length = L - 1) (j : Nat) (hj : j < L - 1) :
    (runX c bs (fillFrom ext 0 (bugSk c L c0))).getD j 1 ≤ c.maxB := by
  obtain ⟨grows, hg⟩ := bugSk_eq c L c0
  rw [hg, fillFrom_append, runX_append, truncSk_eq]
  obtain ⟨ops, h1, h2, h3⟩ := fill_truncs ext c.thr c.maxB
    (List.range c0 ++ (List.range (L - 1 - c0)).map fun j => L - 2 - j) (0 + grows.length)
  rw [h1, runX_base]
  apply c08_bug_sweep c c.maxB ops h2
  · rw [length_runX, hlen]; exact hj
  · have hmem : j ∈ ops.map Op.bond := by
      rw [h3, List.mem_append]
      by_cases hjc : j < c0
      · left; exact List.mem_range.mpr hjc
      · right
        refine List.mem_map.mpr ⟨L - 2 - j, List.mem_range.mpr (by omega), by omega⟩
    obtain ⟨op, hop, hb⟩ := List.mem_map.mp hmem
    exact ⟨op, hop, hb⟩

/-! #### steps with noise: SVD centre shifts under their numerical hypotheses -/

/-- one op of the extended set preserves the bound of `c08_bond_invariant` under its hypotheses -/
theorem c08_step_x (c : Cfg) (init bs : List Nat) (o : XOp)
    (hinv : ∀ i, bs.getD i 1 ≤ bound c init i) (hok : OpOkX bs o) :
    ∀ i, (applyX c bs o).getD i 1 ≤ bound c init i := by
  cases o with
  | base b => exact c08_step c init bs b hinv hok
  | qrl i d =>
    exact c08_sweep_step c (bound c init) (fun i => by unfold bound; omega) bs (.qrl i d) trivial hinv
  | grow i v => exact absurd hok (by simp [OpOkX])

/-- the invariant of `c08_bond_invariant` for the extended op set -/
theorem c08_bond_invariant_x (c : Cfg) (init : List Nat) (ops : List XOp) :
    ∀ bs : List Nat, (∀ i, bs.getD i 1 ≤ bound c init i) → AllOkX c bs ops →
      ∀ i, (runX c bs ops).getD i 1 ≤ bound c init i := by
  induction ops with
  | nil => intro bs h _; exact h
  | cons o os ih =>
    intro bs h hok
    obtain ⟨h1, h2⟩ := hok
    rw [runX_cons]
    exact ih _ (c08_step_x c init bs o h h1) h2

/-- the integrator part of an analog step keeps every bond within the bound: TDVP by `c08_sweep_run` (splits and QR
    shifts only), BUG by `c08_bug_bounded` -/
theorem c08_sweep_part_bounded (c : Cfg) (L : Nat) (phys : Nat → Nat) (ext : Nat → Ext) (init bs : List Nat)
    (e : Evo) (hlen : bs.length = L - 1) (hwf : ∀ c0, e = .bug c0 → c0 ≤ L - 1)
    (hinv : ∀ i, bs.getD i 1 ≤ bound c init i) :
    ∀ i, (runX c bs (sweepOps c L phys ext bs e)).getD i 1 ≤ bound c init i := by
  have hB : ∀ i, max c.maxB c.minB ≤ bound c init i := fun i => by unfold bound; omega
  cases e with
  | tdvp dLR dRL =>
    exact c08_sweep_run c _ hB _ (isSweep_fillFrom ext _ 0 (isSweep_ldtdvpSk L phys dLR dRL false)) bs hinv
  | auto =>
    exact c08_sweep_run c _ hB _
      (c08_sweep_ops_ok c L phys (fun _ => false) (fun _ => false) false ext 0 bs).2.2.2.1 bs hinv
  | bug c0 =>
    intro j
    simp only [sweepOps]
    by_cases hj : j < L - 1
    · have := c08_bug_bounded c L c0 (hwf c0 rfl) ext bs hlen j hj
      unfold bound; omega
    · have hl := length_runX c (fillFrom ext 0 (bugSk c L c0)) bs
      have : (runX c bs (fillFrom ext 0 (bugSk c L c0))).getD j 1 = 1 := by
        rw [List.getD_eq_getElem?_getD, List.getElem?_eq_none (by omega)]; rfl
      rw [this]; unfold bound; omega

/-- **C08.10 (one analog time step, `step_through`)** integrator (TDVP with any decisions, or decisions read off the
    bonds, or BUG) ; `apply_dissipation` (any pattern of two-site dissipators) ; jump lottery (no jump / jump with or
    without a two-site split / scheduled jumps): if every bond is within `max(maxB, minB, max 2 init)` before, it is
    after.  The only hypotheses (`AllOkX`, vacuous on splits and QR shifts) concern the SVD centre shifts of
    `apply_dissipation` and of the jump normalisation, in the state they are applied to. -/
theorem c08_analog_step_bounded (c : Cfg) (L : Nat) (phys : Nat → Nat) (e : Evo) (nz : Noise) (ext : Nat → Ext)
    (init bs : List Nat) (hlen : bs.length = L - 1) (hwf : ∀ c0, e = .bug c0 → c0 ≤ L - 1)
    (hinv : ∀ i, bs.getD i 1 ≤ bound c init i)
    (hok : AllOkX c (runX c bs (sweepOps c L phys ext bs e))
      (fillFrom ext (sweepOps c L phys ext bs e).length (noiseSk L phys nz))) :
    ∀ i, (runX c bs (analogStep c L phys e nz ext bs)).getD i 1 ≤ bound c init i := by
  unfold analogStep
  simp only
  rw [runX_append]
  exact c08_bond_invariant_x c init _ _ (c08_sweep_part_bounded c L phys ext init bs e hlen hwf hinv) hok

/-- without noise (`apply_dissipation` takes its QR branch, no jump) an analog TDVP step has no SVD shift at all:
    the sharper bound `max(maxB, minB, init)` holds with no hypothesis -/
theorem c08_analog_step_noiseless (c : Cfg) (L : Nat) (phys : Nat → Nat) (dLR dRL : Nat → Bool) (n2 : Nat → Nat)
    (ext : Nat → Ext) (init bs : List Nat) (hinv : ∀ i, bs.getD i 1 ≤ bound0 c init i) :
    ∀ i, (runX c bs (analogStep c L phys (.tdvp dLR dRL) ⟨false, n2, .none⟩ ext bs)).getD i 1 ≤ bound0 c init i := by
  apply c08_invariant_no_svd_x c init _ _ bs hinv
  intro o ho
  simp only [analogStep, sweepOps] at ho
  rcases List.mem_append.mp ho with h | h
  · exact isSweep_fillFrom ext _ 0 (isSweep_ldtdvpSk L phys dLR dRL false) o h
  · refine isSweep_fillFrom ext _ _ ?_ o h
    intro x hx
    simp only [noiseSk] at hx
    rcases List.mem_append.mp hx with h' | h'
    · exact isSweep_dissSk_quiet L phys n2 x h'
    · exact isSweep_jumpSk_none L phys x h'

/-- **C08.11 (one digital gate step)** `apply_window` (QR shifts) ; `two_site_tdvp` on the window ; noise block
    (`normalize("B","QR")`, or `apply_dissipation` ; `stochastic_process` on the local noise model): the bound is
    preserved; hypotheses only on the SVD shifts of the noise block, in the state after the gate. -/
theorem c08_digital_step_bounded (c : Cfg) (L : Nat) (phys : Nat → Nat) (first last : Nat) (nz : Option Noise)
    (ext : Nat → Ext) (init bs : List Nat) (hinv : ∀ i, bs.getD i 1 ≤ bound c init i)
    (hok : AllOkX c (runX c bs (fillFrom ext 0 (gateSk L phys first last)))
      (fillFrom ext (gateSk L phys first last).length
        (match nz with | Option.none => qrLeftSk phys L | some nz => noiseSk L phys nz))) :
    ∀ i, (runX c bs (gateStep L phys first last nz ext)).getD i 1 ≤ bound c init i := by
  unfold gateStep
  rw [fillFrom_append, runX_append, Nat.zero_add]
  refine c08_bond_invariant_x c init _ _ ?_ hok
  exact c08_sweep_run c _ (fun i => by unfold bound; omega) _
    (isSweep_fillFrom ext _ 0 (isSweep_gateSk L phys first last)) bs hinv

/-- a noise-free gate step (gate, then `normalize("B","QR")`): sharper bound, no hypothesis -/
theorem c08_digital_step_noiseless (c : Cfg) (L : Nat) (phys : Nat → Nat) (first last : Nat) (ext : Nat → Ext)
    (init bs : List Nat) (hinv : ∀ i, bs.getD i 1 ≤ bound0 c init i) :
    ∀ i, (runX c bs (gateStep L phys first last Option.none ext)).getD i 1 ≤ bound0 c init i := by
  apply c08_invariant_no_svd_x c init _ _ bs hinv
  refine isSweep_fillFrom ext _ 0 ?_
  intro o ho
  rcases List.mem_append.mp ho with h | h
  · exact isSweep_gateSk L phys first last o h
  · exact isSweep_qrLeftSk phys L o h

/-- well-formed step: the orthogonality centre found by BUG's truncation is a site of the chain -/
def StepWf (L : Nat) : Step → Prop
  | .analog (.bug c0) _ _ => c0 ≤ L - 1
  | _ => True

theorem c08_step_bounded (c : Cfg) (L : Nat) (phys : Nat → Nat) (init bs : List Nat) (s : Step)
    (hlen : bs.length = L - 1) (hwf : StepWf L s) (hinv : ∀ i, bs.getD i 1 ≤ bound c init i)
    (hok : StepOk c L phys bs s) :
    ∀ i, (runX c bs (stepOps c L phys bs s)).getD i 1 ≤ bound c init i := by
  cases s with
  | analog e nz ext =>
    refine c08_analog_step_bounded c L phys e nz ext init bs hlen ?_ hinv hok
    intro c0 he; subst he; exact hwf
  | gate f l nz ext =>
    simp only [StepOk, gateStep, fillFrom_append, allOkX_append, Nat.zero_add] at hok
    exact c08_digital_step_bounded c L phys f l nz ext init bs hinv hok.2

/-- **C08.12 (whole runs)** any number of analog time steps and digital gate steps in any order, each with its own
    integrator mode, decisions, spectra, noise pattern and jump outcome: every bond stays within
    `max(maxB, minB, max 2 init)` after every step (induction over the steps; hypotheses only on the SVD shifts). -/
theorem c08_run_bounded (c : Cfg) (L : Nat) (phys : Nat → Nat) (init : List Nat) (steps : List Step) :
    ∀ bs : List Nat, bs.length = L - 1 → (∀ s ∈ steps, StepWf L s) → (∀ i, bs.getD i 1 ≤ bound c init i) →
      AllStepsOk c L phys bs steps → ∀ i, (runSteps c L phys bs steps).getD i 1 ≤ bound c init i := by
  induction steps with
  | nil => intro bs _ _ h _; exact h
  | cons s ss ih =>
    intro bs hlen hwf hinv hok
    obtain ⟨h1, h2⟩ := hok
    simp only [runSteps]
    refine ih _ ?_ (fun x hx => hwf x (by simp [hx])) ?_ h2
    · rw [length_runX]; exact hlen
    · exact c08_step_bounded c L phys init bs s hlen (hwf s (by simp)) hinv h1

/-- **C08 over the actual runs (full statement)** when `max_bond_dim` or `min_bond_dim` is at least 2, after any run of
    analog steps / gate steps started from `init`, no bond exceeds `max(max_bond_dim, min_bond_dim, initial bond)`. -/
theorem c08_run_full (c : Cfg) (L : Nat) (phys : Nat → Nat) (init : List Nat) (steps : List Step)
    (h2 : 2 ≤ max c.maxB c.minB) (hlen : init.length = L - 1) (hwf : ∀ s ∈ steps, StepWf L s)
    (hok : AllStepsOk c L phys init steps) (i : Nat) :
    (runSteps c L phys init steps).getD i 1 ≤ max (max c.maxB c.minB) (init.getD i 1) := by
  have := c08_run_bounded c L phys init steps init hlen hwf (c08_init_ok c init) hok i
  unfold bound at this
  omega

/-! #### the decision pattern is computed, not free -/

private theorem splitKeep_pos (c : Cfg) (s : List Rat) (hs : s ≠ []) (hmin : 1 ≤ c.minB) (hmax : 1 ≤ c.maxB) :
    1 ≤ splitKeep c s := by
  have hl : 1 ≤ s.length := by
    cases s with
    | nil => exact absurd rfl hs
    | cons a t => simp
  unfold splitKeep
  cases hm : c.mode with
  | dw =>
    simp only [keepDW]
    split <;> omega
  | rel =>
    cases s with
    | nil => exact absurd rfl hs
    | cons a t =>
      simp only [keepRel, Option.getD_some]
      simp only [List.length_cons] at hl ⊢
      omega

/-- positivity of the bond dimensions is preserved by a split with a non-empty spectrum and by QR shifts -/
private theorem pos_step (c : Cfg) (hmin : 1 ≤ c.minB) (hmax : 1 ≤ c.maxB) (ext : Nat → Ext)
    (hs : ∀ k, (ext k).s ≠ []) (bs : List Nat) (o : XOp) (n : Nat) (ho : PosSk o)
    (hpos : ∀ i, 1 ≤ bs.getD i 1) : ∀ i, 1 ≤ (applyX c bs (o.fill (ext n))).getD i 1 := by
  intro j
  cases o with
  | base b =>
    cases b with
    | split i s =>
      simp only [XOp.fill, applyX, Bonds.apply, Op.bond, newBond]
      rw [getD_set]
      split
      · exact splitKeep_pos c _ (hs n) hmin hmax
      · exact hpos j
    | qr i d =>
      simp only [XOp.fill, applyX, Bonds.apply, Op.bond, newBond]
      rw [getD_set]
      split
      · have h1 : 1 ≤ leftBond bs i := by
          unfold leftBond; split
          · omega
          · exact hpos _
        have h2 := hpos i
        have hd : 1 ≤ d := ho
        have : 1 ≤ d * leftBond bs i := Nat.mul_pos hd h1
        omega
      · exact hpos j
    | svd i s t => exact absurd ho (by simp [PosSk])
    | trunc i s t m => exact absurd ho (by simp [PosSk])
  | qrl i d =>
    simp only [XOp.fill, applyX]
    rw [getD_set]
    split
    · have h1 : 1 ≤ rightBond bs i := hpos _
      have h2 := hpos i
      have hd : 1 ≤ d := ho
      have : 1 ≤ d * rightBond bs i := Nat.mul_pos hd h1
      omega
    · exact hpos j
  | grow i v => exact absurd ho (by simp [PosSk])

private theorem pos_run (c : Cfg) (hmin : 1 ≤ c.minB) (hmax : 1 ≤ c.maxB) (ext : Nat → Ext)
    (hs : ∀ k, (ext k).s ≠ []) : ∀ (sk : List XOp) (k : Nat) (bs : List Nat), (∀ o ∈ sk, PosSk o) →
      (∀ i, 1 ≤ bs.getD i 1) → ∀ i, 1 ≤ (runX c bs (fillFrom ext k sk)).getD i 1 := by
  intro sk
  induction sk with
  | nil => intro k bs _ h; exact h
  | cons o os ih =>
    intro k bs hsk hpos
    simp only [fillFrom, runX_cons]
    exact ih (k + 1) _ (fun x hx => hsk x (by simp [hx])) (pos_step c hmin hmax ext hs bs o k (hsk o (by simp)) hpos)

/-- **C08.13 (the decisions follow the cap)** `local_dynamic_tdvp` takes the two-site branch at a site iff the bond it
    reads there (`tensors[i].shape[2]` going right, `tensors[i].shape[1]` going left, the dummy leg 1 at the chain
    ends) is `< max_bond_dim`.  Reading the CURRENT bond vector at every visit (`ldtdvpAuto`) gives exactly the
    translation of C05's `Sweep.ldtdvpD` for the decisions `capped (seenLR L bs ·)` / `capped (seenRL bs₁ ·)`, where
    `bs₁` is the bond vector left by the left-to-right half; and these decision patterns are realizable in the sense
    of C05 (`Sweep.Realizable`; the bonds seen are `≥ 1` and the dummy legs `= 1`, the hypotheses of
    `Sweep.capped_realizable` / `ldtdvp_telescopes_dims`) — so C05's theorems apply to the decisions the code takes. -/
theorem c08_decisions_follow_cap (c : Cfg) (L : Nat) (phys : Nat → Nat) (digital : Bool) (ext : Nat → Ext)
    (bs : List Nat) (hmin : 1 ≤ c.minB) (hmax : 1 ≤ c.maxB) (hphys : ∀ i, 1 ≤ phys i)
    (hs : ∀ k, (ext k).s ≠ []) (hpos : ∀ i, 1 ≤ bs.getD i 1) :
    let dLR := fun i => Sweep.capped (seenLR L bs i) c.maxB
    let bs1 := runX c bs (fillFrom ext 0 (bondOps .lr phys (Sweep.ldtdvpLR L dLR (1 / 2))))
    let dRL := fun i => Sweep.capped (seenRL bs1 i) c.maxB
    ldtdvpAuto c L phys digital ext bs = fillFrom ext 0 (ldtdvpSk L phys dLR dRL digital) ∧
    Sweep.Realizable L dLR (L - 1) ∧ Sweep.Realizable L dRL 0 ∧
    (∀ i, i < L → 1 ≤ seenLR L bs i) ∧ seenLR L bs (L - 1) = 1 ∧
    (∀ i, i < L → 1 ≤ seenRL bs1 i) ∧ seenRL bs1 0 = 1 := by
  intro dLR bs1 dRL
  have p1 : ∀ i, 1 ≤ seenLR L bs i := by
    intro i; unfold seenLR; split
    · exact hpos i
    · exact Nat.le_refl 1
  have d1 : seenLR L bs (L - 1) = 1 := by
    unfold seenLR
    have : ¬ (L - 1 + 1 < L) := by omega
    simp [this]
  have hpos1 : ∀ i, 1 ≤ bs1.getD i 1 :=
    pos_run c hmin hmax ext hs _ 0 bs (posSk_bondOps .lr phys hphys _) hpos
  have p2 : ∀ i, 1 ≤ seenRL bs1 i := by
    intro i; unfold seenRL; split
    · exact Nat.le_refl 1
    · exact hpos1 _
  have d2 : seenRL bs1 0 = 1 := by simp [seenRL]
  refine ⟨ldtdvpAuto_eq c L phys digital ext bs, ?_, ?_, fun i _ => p1 i, d1, fun i _ => p2 i, d2⟩
  · intro hd i _
    simp only [dLR, Sweep.capped, decide_eq_true_eq, d1] at hd ⊢
    have := p1 i
    omega
  · intro hd i _
    simp only [dRL, Sweep.capped, decide_eq_true_eq, d2] at hd ⊢
    have := p2 i
    omega

/-! #### non-vacuity -/

/-- spectra used in the examples: position ↦ external data -/
private def exExt : Nat → Ext := fun k =>
  if k % 2 = 0 then ⟨[1, 1/2, 1/4, 1/8], 1/1000, 5⟩ else ⟨[1, 1/2, 1/4, 0], 1/1000, 7⟩

private def exCfg : Cfg := { mode := .dw, thr := 0, minB := 2, maxB := 3 }

/-- L = 4, cap 3, bonds [2,3,2]: the decisions are computed (two-site at bond 0, one-site at the capped bond 1,
    two-site at the last pair), the splits want 4 and get the cap 3, QR shifts in both directions occur -/
example :
    ldtdvpAuto exCfg 4 (fun _ => 2) false exExt [2, 3, 2] =
      [.base (.split 0 [1, 1/2, 1/4, 1/8]), .base (.qr 1 2), .base (.split 2 [1, 1/2, 1/4, 1/8]),
       .qrl 2 2, .qrl 1 2, .qrl 0 2] ∧
    runX exCfg [2, 3, 2] (ldtdvpAuto exCfg 4 (fun _ => 2) false exExt [2, 3, 2]) = [3, 3, 2] := by
  decide +kernel

/-- the same call with a given (mixed) decision pattern: hypotheses of `c08_ldtdvp_bounded` are met -/
example :
    runX exCfg [2, 2, 2] (fillFrom exExt 0 (ldtdvpSk 4 (fun _ => 2) (fun i => decide (i = 1)) (fun _ => false) false))
      = [3, 3, 3] ∧ (∀ i, i < 3 → ([2, 2, 2] : List Nat).getD i 1 ≤ bound0 exCfg [2, 2, 2] i) := by
  decide +kernel

/-- a BUG step: enlargements to 5 and 7, then the truncation brings every bond to the cap 3 (centre 0) -/
example : runX exCfg [2, 2, 2] (fillFrom exExt 0 (bugSk exCfg 4 0)) = [3, 3, 3] ∧
    (fillFrom exExt 0 (bugSk exCfg 4 0)).length = 6 := by
  decide +kernel

/-- full-rank spectra for the splits (positions 0, 1, 4, 9 of the step below), rank-3 spectra for the SVD shifts -/
private def exExt2 : Nat → Ext := fun k =>
  if k = 0 ∨ k = 1 ∨ k = 4 ∨ k = 9 then ⟨[1, 1/2, 1/4, 1/8], 1/1000, 0⟩ else ⟨[1, 1/2, 1/4, 0], 1/1000, 0⟩

/-- an analog step with noise (one two-site dissipator on (1,2)) and a jump with a split on (0,1), L = 3: the sweep
    (2 splits, 2 left QR shifts), then split + 2 SVD shifts, QR sweep to the right, split, SVD normalisation; the
    hypotheses `AllOkX` of `c08_analog_step_bounded` hold for the SVD shifts -/
example :
    let nz : Noise := ⟨true, fun i => if i = 2 then 1 else 0, .stoch (some 0)⟩
    let ops := analogStep exCfg 3 (fun _ => 2) .auto nz exExt2 [2, 2]
    ops.length = 12 ∧ runX exCfg [2, 2] ops = [3, 3] ∧
      AllOkX exCfg (runX exCfg [2, 2] (sweepOps exCfg 3 (fun _ => 2) exExt2 [2, 2] .auto))
        (fillFrom exExt2 (sweepOps exCfg 3 (fun _ => 2) exExt2 [2, 2] .auto).length (noiseSk 3 (fun _ => 2) nz)) := by
  intro nz ops
  refine ⟨by decide +kernel, by decide +kernel, ?_⟩
  have hops : fillFrom exExt2 (sweepOps exCfg 3 (fun _ => 2) exExt2 [2, 2] .auto).length (noiseSk 3 (fun _ => 2) nz) =
      [.base (.split 1 [1, 1/2, 1/4, 1/8]), .base (.svd 1 [1, 1/2, 1/4, 0] (1/1000)),
       .base (.svd 0 [1, 1/2, 1/4, 0] (1/1000)), .base (.qr 0 2), .base (.qr 1 2),
       .base (.split 0 [1, 1/2, 1/4, 1/8]), .base (.svd 1 [1, 1/2, 1/4, 0] (1/1000)),
       .base (.svd 0 [1, 1/2, 1/4, 0] (1/1000))] := by decide +kernel
  have hbs : runX exCfg [2, 2] (sweepOps exCfg 3 (fun _ => 2) exExt2 [2, 2] .auto) = [3, 2] := by decide +kernel
  rw [hops, hbs]
  simp only [AllOkX, OpOkX, OpOk, applyX, Bonds.apply, Op.bond, newBond]
  decide +kernel

/-- a digital gate on sites (2,3) of a chain of 5: window [1,4], one QR shift before it, three splits, then the
    QR normalisation -/
example :
    gateStep 5 (fun _ => 2) 2 3 Option.none exExt =
      [.base (.qr 0 2), .base (.split 1 [1, 1/2, 1/4, 0]), .base (.split 2 [1, 1/2, 1/4, 1/8]),
       .base (.split 3 [1, 1/2, 1/4, 0]), .qrl 3 2, .qrl 2 2, .qrl 1 2, .qrl 0 2] := by
  decide +kernel

/-- a run of two steps (analog, then a gate) is covered by `c08_run_bounded`: well-formed and within the bound -/
example :
    runSteps exCfg 4 (fun _ => 2) [1, 2, 1]
      [.analog (.bug 0) ⟨false, fun _ => 0, .none⟩ exExt, .gate 1 2 Option.none exExt] = [3, 3, 2] := by
  decide +kernel

end Yaqs.SweepBonds
