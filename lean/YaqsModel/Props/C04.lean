import YaqsModel.Lemmas.Verdict
import YaqsModel.Lemmas.MpoUpdate
import YaqsModel.Lemmas.CRat
import YaqsModel.Lemmas.CheckerEndToEnd
import YaqsModel.Lemmas.CheckerLongRange
import YaqsModel.Model.Gates
import Mathlib.LinearAlgebra.Matrix.Trace
import Mathlib.Data.Complex.Basic
import Mathlib.Algebra.Star.Basic

/-!
# C04 — the equivalence checker decides equivalence correctly in both directions

Property theorems only (helper lemmas live in `Lemmas/Verdict.lean`).

* Part A (`verdict_*`, `overlap_*`, `rounded_counterexample`) decides the *verdict*: for every modulus
  `t = |trace|`, every qubit count and every fidelity.  The `t` handed to the model by the correspondence
  check is the binary64 value the real `scalar_product` returned, as an exact rational.
* Part B (`zone_*`, `iterate_*`, `lin_*`) is about the integer/list logic of the MPO build: which gates of
  which circuit are consumed by which update.  For **all** circuit pairs it proves that the loop of `iterate`
  terminates, consumes every gate of either circuit exactly once in a wire-respecting order, and that — *if*
  every primitive tensor update is exact — the operator built is `U₁ · X · U₂ᴴ`.  The tensor numerics
  (`apply_gate`, `decompose_theta`, the long-range gate-MPO contraction) are **modelled, not verified**:
  they are only *tied* numerically against qiskit's `Operator` by the harness (`numeric` cases), and the
  agreement of the model's event list with the real `iterate` is a *trace tie* (`iter` cases).
* Part C (extension, namespace `Yaqs.MpoUpdate`, after Part B) puts those tensor numerics inside the model
  (`Model/MpoUpdate.lean`: the einsum strings, transposes and reshapes of `apply_gate`, `apply_temporal_zone`, `update_mpo`,
  `decompose_theta`, `apply_long_range_layer`, `MPS.scalar_product`, `MPO.check_if_identity`, value-tied by the `t-*` cases)
  and proves that each update is the matrix product it is supposed to be.  The checker builds `U₁ · X · U₂ᴴ`
  (gates of the first circuit multiply from the left, adjoints of the gates of the second circuit from the right).
  What stays a hypothesis is the LAPACK SVD inside `decompose_theta` (`U diag(s) V = θ-matrix`, isometries — as in C09).
* Part D (extension, namespace `Yaqs.CheckerE2E`, at the end) composes A–C: for circuits of one-qubit and nearest-neighbour
  two-qubit gates and untruncated splits, `to_matrix()` of the chain `iterate` leaves is `U₁ · 1 · U₂ᴴ` as `2ⁿ × 2ⁿ` matrices
  (`iterate_represents_product`), so `equivalence_checker.run` answers "equivalent" exactly when `f ≤ |tr(U₁ᴴ U₂)| / 2ⁿ`
  (`checker_correct`, with `checker_equal_up_to_phase`, `checker_swap`, `checker_total`).  Its header lists what remains hypothesis.
-/
namespace Yaqs.Verdict

open Matrix

/-! ## Part A — the verdict -/

/-- **C04.1** the checker says "equivalent" exactly when the normalised overlap `t / 2^n` reaches the
    requested fidelity — for every modulus, qubit count and fidelity. -/
theorem verdict_iff (t : Rat) (n : Nat) (f : Rat) : verdict t n f = true ↔ f ≤ t / (2 : Rat) ^ n := by
  simp [verdict, not_lt]

example : verdict (399 / 100) 2 (99 / 100) = true ∧ verdict (399 / 100) 2 (999 / 1000) = false := by
  decide +kernel

/-- **C04.2** equal circuits (up to a global phase: `|trace| = 2^n`) are reported equivalent for every
    fidelity `f ≤ 1`. -/
theorem verdict_equal_circuits (t : Rat) (n : Nat) (f : Rat) (ht : t = (2 : Rat) ^ n) (hf : f ≤ 1) :
    verdict t n f = true := by
  rw [verdict_iff, ht]
  have h2 : (0 : Rat) < (2 : Rat) ^ n := by positivity
  rw [div_self (ne_of_gt h2)]
  exact hf

example : verdict 8 3 (1 - 1 / 10 ^ 13) = true := by decide +kernel

/-- **C04.3** an overlap below the fidelity is reported "not equivalent" — whatever the margin. -/
theorem verdict_below (t : Rat) (n : Nat) (f : Rat) (h : t / (2 : Rat) ^ n < f) : verdict t n f = false := by
  simp [verdict, h]

example : verdict (99 / 25) 2 (999 / 1000) = false := by decide +kernel

/-- **C04.4** monotone: a larger overlap or a smaller requested fidelity never turns "equivalent" into
    "not equivalent". -/
theorem verdict_monotone (t t' : Rat) (n : Nat) (f f' : Rat) (ht : t ≤ t') (hf : f' ≤ f)
    (h : verdict t n f = true) : verdict t' n f' = true := by
  rw [verdict_iff] at *
  have h2 : (0 : Rat) < (2 : Rat) ^ n := by positivity
  have : t / (2 : Rat) ^ n ≤ t' / (2 : Rat) ^ n := div_le_div_of_nonneg_right ht (le_of_lt h2)
  linarith

example : verdict 3 2 (1 / 2) = true := by decide +kernel

/-- **C04.5a** swapping the circuits conjugates the trace: `tr(Bᴴ A) = star (tr(Aᴴ B))`, over any star ring. -/
theorem overlap_conj {ι R : Type*} [Fintype ι] [DecidableEq ι] [CommSemiring R] [StarRing R]
    (A B : Matrix ι ι R) : trace (Bᴴ * A) = star (trace (Aᴴ * B)) := by
  rw [← trace_conjTranspose, conjTranspose_mul, conjTranspose_conjTranspose]

/-- **C04.5** the squared modulus of the overlap is the same in both argument orders (all square complex
    matrices, any size) … -/
theorem overlap_symm {ι : Type*} [Fintype ι] [DecidableEq ι] (A B : Matrix ι ι ℂ) :
    Complex.normSq (trace (Aᴴ * B)) = Complex.normSq (trace (Bᴴ * A)) := by
  rw [overlap_conj A B]
  exact (Complex.normSq_conj _).symm

example : Complex.normSq (trace ((!![1, 2; 3, 4] : Matrix (Fin 2) (Fin 2) ℂ)ᴴ * !![0, 1; 1, 0])) =
    Complex.normSq (trace ((!![0, 1; 1, 0] : Matrix (Fin 2) (Fin 2) ℂ)ᴴ * !![1, 2; 3, 4])) := overlap_symm _ _

/-- … **C04.5b** hence the verdict is the same when the two circuits are swapped: if `t₁`, `t₂` are the
    (non-negative) moduli of the two traces, the decisions coincide for every fidelity. -/
theorem verdict_swap {ι : Type*} [Fintype ι] [DecidableEq ι] (A B : Matrix ι ι ℂ) (t₁ t₂ : Rat) (n : Nat) (f : Rat)
    (h₁ : 0 ≤ t₁) (h₂ : 0 ≤ t₂)
    (e₁ : ((t₁ : ℝ)) ^ 2 = Complex.normSq (trace (Aᴴ * B)))
    (e₂ : ((t₂ : ℝ)) ^ 2 = Complex.normSq (trace (Bᴴ * A))) :
    verdict t₁ n f = verdict t₂ n f := by
  have hsq : ((t₁ : ℝ)) ^ 2 = ((t₂ : ℝ)) ^ 2 := by rw [e₁, e₂, overlap_symm]
  have h₁' : (0 : ℝ) ≤ (t₁ : ℝ) := by exact_mod_cast h₁
  have h₂' : (0 : ℝ) ≤ (t₂ : ℝ) := by exact_mod_cast h₂
  have : (t₁ : ℝ) = (t₂ : ℝ) := (sq_eq_sq₀ h₁' h₂').mp hsq
  have : t₁ = t₂ := by exact_mod_cast this
  rw [this]

example : verdict 2 1 (1 / 2) = verdict 2 1 (1 / 2) :=
  verdict_swap (1 : Matrix (Fin 2) (Fin 2) ℂ) 1 2 2 1 (1 / 2) (by norm_num) (by norm_num)
    (by simp [Matrix.trace_one]; norm_num) (by simp [Matrix.trace_one]; norm_num)

/-- **C04.2b** circuits equal up to a global phase have overlap modulus exactly `dim²`: if `A = c • B` with
    `B` unitary and `|c| = 1` then `|tr(Bᴴ A)|² = (dim)²` — so by `verdict_equal_circuits` they are reported
    equivalent for every `f ≤ 1`. -/
theorem overlap_equal_up_to_phase {ι : Type*} [Fintype ι] [DecidableEq ι] (B : Matrix ι ι ℂ) (c : ℂ)
    (hB : Bᴴ * B = 1) (hc : Complex.normSq c = 1) :
    Complex.normSq (trace (Bᴴ * (c • B))) = ((Fintype.card ι : ℝ)) ^ 2 := by
  rw [Matrix.mul_smul, hB, trace_smul, trace_one, smul_eq_mul, Complex.normSq_mul, hc, one_mul,
    Complex.normSq_natCast]
  ring

example : Complex.normSq (trace ((1 : Matrix (Fin 4) (Fin 4) ℂ)ᴴ * (Complex.I • 1))) = ((Fintype.card (Fin 4) : ℝ)) ^ 2 :=
  overlap_equal_up_to_phase 1 Complex.I (by simp) (by simp)

/-- **C04.6** (negation of the property for the code as found, D5): with `|trace|` rounded to one decimal,
    the 2-qubit pair of overlap `0.99` is reported equivalent at fidelity `0.999`; the repaired rule says no. -/
theorem rounded_counterexample :
    verdictRounded (99 / 25) 2 (999 / 1000) = true ∧ (99 / 25 : Rat) / 2 ^ 2 < 999 / 1000 ∧
      verdict (99 / 25) 2 (999 / 1000) = false := by
  decide +kernel

/-! ## Part B — the gate bookkeeping of the MPO build -/

/-- **C04.7** `get_temporal_zone` removes its gates in a wire-respecting order: every gate it moves into the
    zone has, at that moment, no earlier remaining gate on any of its wires (any cone, any circuit). -/
theorem zone_wire_respecting (cone : List Nat) (d : Dag) : Takes d (zone cone d).1 (zone cone d).2 :=
  zone_takes cone d

example : zone [1, 2] (mkDag [[0], [1, 2], [2, 3], [1], [2]]) =
    ([⟨1, [1, 2]⟩, ⟨3, [1]⟩], [⟨0, [0]⟩, ⟨2, [2, 3]⟩, ⟨4, [2]⟩]) := by decide +kernel

/-- **C04.8** (`iterate_consumes_all`) whenever the loop of `iterate` finishes, the gates it applied from
    circuit 1 (from the left) form a wire-respecting linearisation of *all* of circuit 1, and likewise the gates
    applied from circuit 2 (conjugated, from the right) — for all circuits, sizes and fuel.  *Tied*: that the
    real `iterate` produces the model's event list is checked by the `iter` trace tie on every run. -/
theorem iterate_consumes_all (n : Nat) (c1 c2 : Dag) (fuel : Nat) (evs : List Ev)
    (h : iterate n c1 c2 fuel = .done evs) : Lin c1 (consumed 1 evs) ∧ Lin c2 (consumed 2 evs) := by
  unfold iterate at h
  split at h
  · simp at h
  · exact loop_takes _ _ _ _ h

/-- **C04.8b** … in particular every gate of either circuit is consumed exactly once. -/
theorem iterate_each_once (n : Nat) (c1 c2 : Dag) (fuel : Nat) (evs : List Ev)
    (h : iterate n c1 c2 fuel = .done evs) : (consumed 1 evs).Perm c1 ∧ (consumed 2 evs).Perm c2 := by
  have := iterate_consumes_all n c1 c2 fuel evs h
  exact ⟨by simpa using this.1.perm, by simpa using this.2.perm⟩

example : (consumed 1 [Ev.lr 1 ⟨0, [0, 2]⟩, Ev.zone 1 0 [⟨1, [1]⟩], Ev.zone 2 0 [⟨0, [0]⟩], Ev.zone 1 1 [],
    Ev.zone 2 1 []]).Perm
    (mkDag [[0, 2], [1]]) :=
  (iterate_each_once 3 (mkDag [[0, 2], [1]]) (mkDag [[0]]) 3 _ (by decide +kernel)).1

/-- **C04.8c** every gate handed to `apply_gate` by a zone at sites `(m, m+1)` acts inside that pair (the
    assertions of `apply_gate` cannot fire), for all circuits. -/
theorem iterate_zone_sites (n : Nat) (c1 c2 : Dag) (fuel : Nat) (evs : List Ev)
    (h : iterate n c1 c2 fuel = .done evs) (c m : Nat) (gs : List Instr) (he : Ev.zone c m gs ∈ evs) :
    ∀ g ∈ gs, ∀ q ∈ g.qs, q = m ∨ q = m + 1 := by
  unfold iterate at h
  split at h
  · simp at h
  · exact loop_ok _ _ _ _ h _ he

example : ∀ g ∈ [(⟨1, [2, 1]⟩ : Instr)], ∀ q ∈ g.qs, q = 1 ∨ q = 1 + 1 :=
  iterate_zone_sites 3 (mkDag [[0, 2], [2, 1]]) (mkDag []) 2
    [.lr 1 ⟨0, [0, 2]⟩, .zone 1 0 [], .zone 2 0 [], .zone 1 1 [⟨1, [2, 1]⟩], .zone 2 1 []] (by decide +kernel)
    1 1 _ (by simp)

/-- **C04.9** (`iterate_terminates`) for circuits of one- and two-qubit gates on qubits `< n`, `n ≥ 2`, the
    `while` loop ends after at most `len c1 + len c2` rounds and the assertion of `apply_long_range_layer`
    ("Long-range gate MPO not found") never fires. -/
theorem iterate_terminates (n : Nat) (hn : 2 ≤ n) (c1 c2 : Dag) (h1 : WF n c1) (h2 : WF n c2) :
    ∃ evs, iterate n c1 c2 (c1.length + c2.length) = .done evs := by
  unfold iterate
  rw [if_neg (by omega)]
  exact loop_terminates n hn _ (fun m hm => mem_startIts n _ m hm) _ (c1, c2) h1 h2 (Nat.le_refl _)

example : iterate 5 (mkDag [[4, 1], [3, 2], [3], [4, 3]]) (mkDag [[4], [2, 1], [3, 4]]) 7 =
    .done [.lr 1 ⟨0, [4, 1]⟩, .zone 1 1 [], .zone 2 1 [⟨1, [2, 1]⟩], .zone 1 3 [], .zone 2 3 [⟨0, [4]⟩, ⟨2, [3, 4]⟩],
      .zone 1 1 [], .zone 2 1 [], .zone 1 3 [], .zone 2 3 [], .zone 1 0 [], .zone 2 0 [],
      .zone 1 2 [⟨1, [3, 2]⟩, ⟨2, [3]⟩], .zone 2 2 [],
      .zone 1 1 [], .zone 2 1 [], .zone 1 3 [⟨3, [4, 3]⟩], .zone 2 3 [], .zone 1 0 [], .zone 2 0 [],
      .zone 1 2 [], .zone 2 2 []] := by
  decide +kernel

example : WF 5 (mkDag [[4, 1], [3, 2], [3], [4, 3]]) := WF_of_wfb _ _ (by decide +kernel)

/-- **C04.10a** any wire-respecting linearisation multiplies to the circuit's operator, for every
    interpretation in which gates on disjoint wires commute. -/
theorem lin_product {M : Type*} [Monoid M] (sem : Instr → M)
    (hc : ∀ a b : Instr, disj a.qs b.qs = true → Commute (sem a) (sem b))
    (d r : Dag) (σ : List Instr) (h : Takes d σ r) : U sem d = U sem r * U sem σ := by
  induction h with
  | nil d => simp [U]
  | cons pre post g σ r hfree _ ih =>
    have hcomm : Commute (sem g) (U sem pre) := by
      unfold U
      apply Commute.list_prod_right
      intro x hx
      simp only [List.mem_reverse, List.mem_map] at hx
      obtain ⟨y, hy, rfl⟩ := hx
      exact (hc y g (hfree y hy)).symm
    have e1 : U sem (pre ++ g :: post) = U sem post * (sem g * U sem pre) := by
      rw [U_append]
      simp [U, mul_assoc]
    have e2 : U sem (g :: σ) = U sem σ * sem g := by simp [U]
    rw [e1, hcomm.eq, ← mul_assoc, ← U_append, ih, e2, mul_assoc]

example (sem : Instr → ℕ) (d r : Dag) (σ : List Instr) (h : Takes d σ r) : U sem d = U sem r * U sem σ :=
  lin_product sem (fun _ _ _ => Commute.all _ _) d r σ h

/-- **C04.10** (`iterate_result`, *modelled, not verified* for the tensor numerics) if every primitive update is
    exact — each consumed gate of circuit 1 multiplies the operator from the left, each consumed gate of
    circuit 2 multiplies its adjoint from the right — then, for all circuit pairs and any interpretation in
    which gates on disjoint wires commute, the operator built by `iterate` from `X` is `U₁ · X · U₂ᴴ`
    (`X = 1` in the checker: `U₁ U₂ᴴ`).  The numeric tie checks exactly this identity on the real code. -/
theorem iterate_result {M : Type*} [Monoid M] [StarMul M] (sem1 sem2 : Instr → M)
    (hc1 : ∀ a b : Instr, disj a.qs b.qs = true → Commute (sem1 a) (sem1 b))
    (hc2 : ∀ a b : Instr, disj a.qs b.qs = true → Commute (sem2 a) (sem2 b))
    (n : Nat) (c1 c2 : Dag) (fuel : Nat) (evs : List Ev) (h : iterate n c1 c2 fuel = .done evs) (X : M) :
    runEvs sem1 (fun g => star (sem2 g)) X evs = U sem1 c1 * X * star (U sem2 c2) := by
  obtain ⟨h1, h2⟩ := iterate_consumes_all n c1 c2 fuel evs h
  rw [runEvs_eq, star_U]
  have e1 := lin_product sem1 hc1 c1 [] _ h1
  have hc2' : ∀ a b : Instr, disj a.qs b.qs = true → Commute (star (sem2 a)) (star (sem2 b)) := by
    intro a b hab
    have := (hc2 a b hab).eq
    show star (sem2 a) * star (sem2 b) = star (sem2 b) * star (sem2 a)
    rw [← star_mul, ← star_mul, this]
  have e2 := lin_product_fwd (fun g => star (sem2 g)) hc2' c2 [] _ h2
  rw [e1, e2]
  simp [U]

example (sem1 sem2 : Instr → ℂ) (evs : List Ev)
    (h : iterate 3 (mkDag [[0, 2], [1]]) (mkDag [[0]]) 3 = .done evs) :
    runEvs sem1 (fun g => star (sem2 g)) 1 evs =
      U sem1 (mkDag [[0, 2], [1]]) * 1 * star (U sem2 (mkDag [[0]])) :=
  iterate_result sem1 sem2 (fun _ _ _ => Commute.all _ _) (fun _ _ _ => Commute.all _ _) 3 _ _ 3 evs h 1

/-- **C04.B0** (`select_starting_point`) the sweep starts with the odd pairs exactly when the first two-qubit gate of the
    first layer begins on an odd qubit; whichever parity is chosen, every pair position `m < n − 1` is visited
    (`mem_startIts`), so the choice only reorders the sweep -/
theorem start_parity (d : Dag) (n : Nat) :
    (startOdd d = true ↔ ∃ x, firstInLayer (fun g => g.qs.length == 2) d = some x ∧ (x.2.qs.head?.getD 0) % 2 ≠ 0) ∧
    (∀ m, m < n - 1 → m ∈ startIts n (startOdd d)) := by
  constructor
  · unfold startOdd
    cases h : firstInLayer (fun g => g.qs.length == 2) d with
    | none => simp
    | some x => simp
  · intro m hm
    exact mem_startIts n _ m hm

end Yaqs.Verdict

/-! ## Part C — the tensor updates of the MPO build as index algebra (`Model/MpoUpdate.lean`) -/
namespace Yaqs.MpoUpdate
open Matrix Yaqs.MpoConv Yaqs.Verdict
open scoped Kronecker

/-- a two-site gate with Gaussian-rational entries used by the non-vacuity examples (not symmetric, not real) -/
private def exG : Gate CRat :=
  ⟨false, 2, [1, 0], fun _ _ => 0, fun i j k l => ⟨(i + 2 * j + 3 * k : Nat), (l : Nat)⟩⟩
/-- a one-site gate on the second site -/
private def exH : Gate CRat := ⟨false, 1, [1], fun i j => ⟨(i : Nat), (2 * j + 1 : Nat)⟩, fun _ _ _ _ => 0⟩
private def exA : Site CRat := ⟨2, 1, 2, fun a b _ r => ⟨(a + r : Nat), (b : Nat)⟩⟩
private def exB : Site CRat := ⟨2, 2, 1, fun a b l _ => ⟨(a * b : Nat), (l : Nat)⟩⟩

/-- **C04.11 (`apply_gate` from the first circuit = on top)** whenever `apply_gate(gate, theta, site0, site1)` returns (no
    assertion fires), the new block is `G · Θ` as operators on the two sites — for every pair of bond indices (the bond
    legs are spectators), every physical dimension and every gate shape: `G` is the identity for `name == "I"`, `M ⊗ 1`
    for a one-site gate on `site0`, `1 ⊗ M` on `site1`, and the tensor read as the matrix `⟨i j| G |k l⟩` for a two-site gate
    (covers the einsums `"ij, jklmno->iklmno"`, `"ij, kjlmno->kilmno"`, `"ijkl, klmnop->ijmnop"`). -/
theorem apply_gate_top {K : Type} [CommSemiring K] (cj : K → K) (d : Nat) (g : Gate K) (θ θ' : T6 K) (s0 s1 : Nat)
    (h : applyGate cj d g θ s0 s1 false = some θ') (l r : Nat) :
    opMat d θ' l r = gateOp d g s0 * opMat d θ l r :=
  applyGate_top cj d g θ θ' s0 s1 h l r

example (θ : T6 CRat) (l r : Nat) :
    opMat 2 (contractTwo 2 exG.ten θ) l r = gateMat2 2 exG.ten * opMat 2 θ l r := by
  have := apply_gate_top CRat.conj 2 exG θ _ 0 1 rfl l r
  simpa [gateOp, gateOpC, exG, gateCore] using this

/-- **C04.12 (`apply_gate` from the second circuit = conjugated, from below)** with `conjugate=True` the new block is
    `Θ · Gᴴ`: the code conjugates the entries (`np.conj`) *and* contracts the gate's second index pair with the block's lower
    legs (the two transposes `(3,4,2,0,1,5)` around the same einsum), which together is the adjoint — conjugate transpose,
    not just one of the two.  Same four gate shapes, every bond index pair. -/
theorem apply_gate_bottom {K : Type} [CommSemiring K] [StarRing K] (d : Nat) (g : Gate K) (θ θ' : T6 K) (s0 s1 : Nat)
    (h : applyGate star d g θ s0 s1 true = some θ') (l r : Nat) :
    opMat d θ' l r = opMat d θ l r * (gateOp d g s0)ᴴ :=
  applyGate_bottom d g θ θ' s0 s1 h l r

example (θ : T6 CRat) (l r : Nat) :
    ∃ θ', applyGate star 2 exH θ 0 1 true = some θ' ∧
      opMat 2 θ' l r = opMat 2 θ l r * ((1 : Matrix (Fin 2) (Fin 2) CRat) ⊗ₖ gateMat1 2 exH.mat)ᴴ := by
  refine ⟨_, rfl, ?_⟩
  have := apply_gate_bottom 2 exH θ _ 0 1 rfl l r
  simpa [gateOp, gateOpC, exH] using this

/-- **C04.13 (`apply_gate` raises exactly when an assertion fails)** and a gate with one or two sites inside `{site0, site1}`
    — what C04.8c `iterate_zone_sites` proves of every gate a temporal zone hands over — never raises. -/
theorem apply_gate_raises_iff {K : Type} [CommSemiring K] (cj : K → K) (d : Nat) (g : Gate K) (θ : T6 K) (s0 s1 : Nat)
    (conj : Bool) :
    (applyGate cj d g θ s0 s1 conj = none ↔ gateOk g s0 s1 = false) ∧
    (g.sites.length = g.interaction → (g.interaction = 1 ∨ g.interaction = 2) → (∀ q ∈ g.sites, q = s0 ∨ q = s1) →
      applyGate cj d g θ s0 s1 conj ≠ none) := by
  refine ⟨applyGate_none_iff cj d g θ s0 s1 conj, fun h1 h2 h3 hn => ?_⟩
  have := (applyGate_none_iff cj d g θ s0 s1 conj).mp hn
  rw [gateOk_of_sites g s0 s1 h1 h2 h3] at this
  exact Bool.noConfusion this

example (θ : T6 CRat) : applyGate CRat.conj 2 exG θ 0 1 true ≠ none ∧ applyGate CRat.conj 2 exG θ 1 2 true = none :=
  ⟨(apply_gate_raises_iff CRat.conj 2 exG θ 0 1 true).2 rfl (Or.inr rfl) (by decide), rfl⟩

/-- **C04.14 (`temporal_zone_product`, from above)** applying the gates of one temporal zone in the order
    `apply_temporal_zone` uses equals multiplying the block by their ordered product (last gate leftmost) — the
    `U semL gs * X` of `applyEv`/`iterate_result`, now proved of the einsums for every zone length. -/
theorem temporal_zone_product_top {K : Type} [CommSemiring K] (cj : K → K) (d n : Nat) (gs : List (Gate K)) (θ θ' : T6 K)
    (h : zoneApply cj d n false gs θ = some θ') (l r : Nat) :
    opMat d θ' l r = ((gs.map fun g => gateOp d g n).reverse).prod * opMat d θ l r :=
  zoneApply_top cj d n gs θ θ' h l r

example (θ : T6 CRat) (l r : Nat) : ∃ θ', zoneApply CRat.conj 2 0 false [exH, exG] θ = some θ' ∧
    opMat 2 θ' l r = (gateOp 2 exG 0 * gateOp 2 exH 0) * opMat 2 θ l r := by
  refine ⟨_, rfl, ?_⟩
  have := temporal_zone_product_top CRat.conj 2 0 [exH, exG] θ _ rfl l r
  simpa using this

/-- **C04.15 (`temporal_zone_product`, from below)** with `conjugate=True` the block is multiplied from the right by the
    adjoints in the order the gates are applied: `Θ · G₁ᴴ · G₂ᴴ ⋯ = Θ · (G_k ⋯ G₁)ᴴ` — the `X * (gs.map semR).prod` of `applyEv`. -/
theorem temporal_zone_product_bottom {K : Type} [CommSemiring K] [StarRing K] (d n : Nat) (gs : List (Gate K)) (θ θ' : T6 K)
    (h : zoneApply star d n true gs θ = some θ') (l r : Nat) :
    opMat d θ' l r = opMat d θ l r * (gs.map fun g => (gateOp d g n)ᴴ).prod ∧
    (gs.map fun g => (gateOp d g n)ᴴ).prod = (((gs.map fun g => gateOp d g n).reverse).prod)ᴴ := by
  refine ⟨zoneApply_bottom d n gs θ θ' h l r, ?_⟩
  clear h
  induction gs with
  | nil => simp
  | cons g gs ih =>
    simp only [List.map_cons, List.prod_cons, List.reverse_cons, List.prod_append, List.prod_nil, mul_one,
      conjTranspose_mul]
    rw [← ih]

example (θ : T6 CRat) (l r : Nat) : ∃ θ', zoneApply star 2 0 true [exH, exG] θ = some θ' ∧
    opMat 2 θ' l r = opMat 2 θ l r * ((gateOp 2 exH 0)ᴴ * (gateOp 2 exG 0)ᴴ) := by
  refine ⟨_, rfl, ?_⟩
  have := (temporal_zone_product_bottom 2 0 [exH, exG] θ _ rfl l r).1
  simpa using this

/-- **C04.16 (`update_mpo` before the split)** merging the two tensors (`"abcd, efdg->aecbfg"`), applying the zone of
    circuit 1 and then the conjugated zone of circuit 2 gives `U₁ · Θ · U₂ᴴ` on the two sites, and this is literally what the
    event semantics of C04.10 `iterate_result` (`runEvs`/`applyEv`) assigns to the two zone events of that update — so the
    hypothesis "every primitive update is exact" of `iterate_result` is discharged for the zone updates up to the SVD split. -/
theorem update_theta_is_zone_events {K : Type} [CommSemiring K] [StarRing K] (d n : Nat) (A B : Site K)
    (gateOf : Instr → Gate K) (is1 is2 : List Instr) (θ' : T6 K)
    (h : updateTheta star d n A B (is1.map gateOf) (is2.map gateOf) = some θ') (l r : Nat) :
    opMat d θ' l r = runEvs (fun i => gateOp d (gateOf i) n) (fun i => (gateOp d (gateOf i) n)ᴴ)
      (opMat d (thetaOf A B) l r) [.zone 1 n is1, .zone 2 n is2] ∧
    opMat d θ' l r = U (fun i => gateOp d (gateOf i) n) is1 * opMat d (thetaOf A B) l r
      * star (U (fun i => gateOp d (gateOf i) n) is2) := by
  have h1 := updateTheta_runEvs d n A B gateOf is1 is2 θ' h l r
  refine ⟨h1, ?_⟩
  rw [h1, runEvs_eq, star_U]
  simp [consumed, Ev.consumed, star_eq_conjTranspose]

example : ∃ θ', updateTheta star 2 0 exA exB ([(⟨0, [1]⟩ : Instr)].map fun _ => exH)
    ([(⟨0, [1, 0]⟩ : Instr)].map fun _ => exG) = some θ' :=
  ⟨_, rfl⟩

/-- **C04.17 (`split_then_merge`)** `decompose_theta` followed by re-contraction is the identity up to the discarded
    weight: from the SVD spec of the flattened block (`θ-matrix = U diag(s) V`, `UᴴU = 1`, `VVᴴ = 1`, `kf` singular values)
    the block of the two returned tensors (`u[:, :keep]` reshaped; `diag(s[:keep]) · vh[:keep]` reshaped and transposed)
    differs from `θ` by exactly `Σ_{p ≥ keep} |s_p|²` in squared Frobenius norm — C09's `c09_split_error` carried through the
    transpose `(0,3,2,1,4,5)` and the reshapes, for every bond dimension and every `keep` (in particular
    `keep = len(s[s > threshold])`). -/
theorem split_then_merge {K : Type} [CommRing K] [StarRing K] (d Dl Dr kf : Nat) (thr : Rat) (θ : T6 K) (dec : Svd K)
    (hkeep : Rank.keepTheta dec.s thr ≤ kf)
    (hspec : toMat (d * d * Dl) (d * d * Dr) (thetaMatrix d Dl Dr θ)
      = toMat (d * d * Dl) kf dec.U * diagonal (fun p : Fin kf => dec.sv p) * toMat kf (d * d * Dr) dec.Vh)
    (hU : (toMat (d * d * Dl) kf dec.U)ᴴ * toMat (d * d * Dl) kf dec.U = 1)
    (hV : toMat kf (d * d * Dr) dec.Vh * (toMat kf (d * d * Dr) dec.Vh)ᴴ = 1) :
    Split.frobSq (toMat (d * d * Dl) (d * d * Dr) (thetaMatrix d Dl Dr θ)
        - toMat (d * d * Dl) (d * d * Dr)
            (thetaMatrix d Dl Dr (thetaOf (decomposeTheta d Dl Dr dec thr).1 (decomposeTheta d Dl Dr dec thr).2)))
      = ∑ p : Fin kf, if (p : Nat) < Rank.keepTheta dec.s thr then 0 else star (dec.sv p) * dec.sv p :=
  split_merge_error d Dl Dr kf _ hkeep θ dec hspec hU hV

/-- **C04.17b (exact split)** if the kept part reconstructs the flattened block, merging the two returned tensors gives
    back every entry of the block (pure index arithmetic of the reshapes). -/
theorem split_then_merge_exact {K : Type} [CommSemiring K] (d Dl Dr : Nat) (thr : Rat) (θ : T6 K) (dec : Svd K)
    (hspec : ∀ i, i < d * d * Dl → ∀ j, j < d * d * Dr →
      thetaMatrix d Dl Dr θ i j = truncProd (Rank.keepTheta dec.s thr) dec i j)
    (a e l b f g : Nat) (ha : a < d) (he : e < d) (hl : l < Dl) (hb : b < d) (hf : f < d) (hg : g < Dr) :
    thetaOf (decomposeTheta d Dl Dr dec thr).1 (decomposeTheta d Dl Dr dec thr).2 a e l b f g = θ a e l b f g :=
  split_merge_exact d Dl Dr _ θ dec.U dec.Vh dec.sv
    (fun i hi j hj => by rw [hspec i hi j hj, truncProd, sumTo_eq_sum]) a e l b f g ha he hl hb hf hg

-- non-vacuity over ℚ(i): the 4 × 4 block `diag(3, 2, 1, 0)` (bond dimensions 1), `U = V = 1`, threshold 3/2 keeps two values:
-- every hypothesis of the error statement is met; the discarded weight is 1² + 0²
private def exDec : Svd CRat :=
  ⟨fun i j => if i = j then 1 else 0, [3, 2, 1, 0], fun p => CRat.ofRat (3 - p), fun i j => if i = j then 1 else 0⟩
private def exθ : T6 CRat := fun a e _ b f _ => if a * 2 + b = e * 2 + f then CRat.ofRat (3 - (a * 2 + b : Nat)) else 0
example : Rank.keepTheta exDec.s (3 / 2) = 2 ∧ (decomposeTheta 2 1 1 exDec (3 / 2)).1.dr = 2 := by decide +kernel
example : Split.frobSq (toMat 4 4 (thetaMatrix 2 1 1 exθ)
        - toMat 4 4 (thetaMatrix 2 1 1 (thetaOf (decomposeTheta 2 1 1 exDec (3 / 2)).1 (decomposeTheta 2 1 1 exDec (3 / 2)).2)))
      = ∑ p : Fin 4, if (p : Nat) < Rank.keepTheta exDec.s (3 / 2) then 0 else star (exDec.sv p) * exDec.sv p :=
  split_then_merge 2 1 1 4 (3 / 2) exθ exDec (by decide +kernel) (by decide +kernel) (by decide +kernel) (by decide +kernel)
-- … and of the exact statement with the threshold below every non-zero value of `diag(3, 2, 1, 1)`
private def exDec1 : Svd CRat :=
  ⟨fun i j => if i = j then 1 else 0, [3, 2, 1, 1], fun p => if p < 3 then CRat.ofRat (3 - p) else 1, fun i j => if i = j then 1 else 0⟩
private def exθ1 : T6 CRat := fun a e _ b f _ =>
  if a * 2 + b = e * 2 + f then (if a * 2 + b < 3 then CRat.ofRat (3 - (a * 2 + b : Nat)) else 1) else 0
example : thetaOf (decomposeTheta 2 1 1 exDec1 (1 / 2)).1 (decomposeTheta 2 1 1 exDec1 (1 / 2)).2 1 1 0 1 1 0 = exθ1 1 1 0 1 1 0 :=
  split_then_merge_exact 2 1 1 (1 / 2) exθ1 exDec1 (by decide +kernel) 1 1 0 1 1 0 (by decide) (by decide) (by decide)
    (by decide) (by decide) (by decide)

/-- **C04.18 (`update_mpo` inside the chain, nothing discarded)** for every chain length, position of the pair and bond
    dimensions: if the kept part of the SVD reconstructs the flattened block, then every entry of `to_matrix()` of the chain
    after `update_mpo` is the entry of `(1 ⊗ U₁ ⊗ 1) · O · (1 ⊗ U₂ᴴ ⊗ 1)` — `U₁` the ordered product of the zone of circuit 1,
    `U₂ᴴ` the product of the adjoints of the zone of circuit 2 — written out as the sum over the two local row indices `x`
    and column indices `y`.  Together with C04.8 (`iterate_consumes_all`) and C04.10 (`iterate_result`) this is why the
    final MPO is `U₁ U₂ᴴ` whenever no truncation occurs; with truncation C04.17 bounds each step by its discarded weight. -/
theorem update_mpo_chain {K : Type} [CommSemiring K] [StarRing K] (d n : Nat) (A B : Site K) (gs1 gs2 : List (Gate K))
    (θ' : T6 K) (dec : Svd K) (thr : Rat)
    (hθ : updateTheta star d n A B gs1 gs2 = some θ')
    (hspec : ∀ i, i < d * d * A.dl → ∀ j, j < d * d * B.dr →
      thetaMatrix d A.dl B.dr θ' i j = truncProd (Rank.keepTheta dec.s thr) dec i j)
    (pre post : List (Site K)) (sp sp' sq sq' : List Nat) (hsp : sp.length = pre.length) (hsp' : sp'.length = pre.length)
    (i j i' j' : Fin d) (m : Nat) (hm : lastDr m pre = A.dl) (l : Nat) (hl : l < m) :
    vals (pre ++ (decomposeTheta d A.dl B.dr dec thr).1 :: (decomposeTheta d A.dl B.dr dec thr).2 :: post)
        (sp ++ (i : Nat) :: (j : Nat) :: sq) (sp' ++ (i' : Nat) :: (j' : Nat) :: sq') l
      = ∑ x : Fin d × Fin d, ∑ y : Fin d × Fin d,
          (((gs1.map fun g => gateOp d g n).reverse).prod (i, j) x * (gs2.map fun g => (gateOp d g n)ᴴ).prod y (i', j')) *
            vals (pre ++ A :: B :: post) (sp ++ (x.1 : Nat) :: (x.2 : Nat) :: sq)
              (sp' ++ (y.1 : Nat) :: (y.2 : Nat) :: sq') l :=
  updateMpo_chain d n A B gs1 gs2 θ' dec thr hθ
    (fun i hi j hj => by rw [hspec i hi j hj, truncProd, sumTo_eq_sum]) pre post sp sp' sq sq' hsp hsp' i j i' j' m hm l hl

-- non-vacuity: the pair `(exA, exB)` (bond 2 between them) with one gate from each circuit; the "SVD" `1 · 1 · M` keeps all four
-- values, so the hypotheses are met and the new chain is `G_H · O · G_Gᴴ`
private def exM : Nat → Nat → CRat := thetaMatrix 2 1 1 (contractTwoSwap exG (contractOne1 2 exH.mat (thetaOf exA exB)))
  where contractTwoSwap (g : Gate CRat) (θ : T6 CRat) : T6 CRat :=
    swapLegs (contractTwo 2 (fun i j k l => CRat.conj (g.ten i j k l)) (swapLegs θ))
private def exDecM : Svd CRat := ⟨fun i j => if i = j then 1 else 0, [1, 1, 1, 1], fun _ => 1, exM⟩
example (i j i' j' : Fin 2) :
    vals ([] ++ (decomposeTheta 2 exA.dl exB.dr exDecM (1 / 2)).1 :: (decomposeTheta 2 exA.dl exB.dr exDecM (1 / 2)).2 :: [])
        ([] ++ (i : Nat) :: (j : Nat) :: []) ([] ++ (i' : Nat) :: (j' : Nat) :: []) 0
      = ∑ x : Fin 2 × Fin 2, ∑ y : Fin 2 × Fin 2,
          ((([exH].map fun g => gateOp 2 g 0).reverse).prod (i, j) x * ([exG].map fun g => (gateOp 2 g 0)ᴴ).prod y (i', j')) *
            vals ([] ++ exA :: exB :: []) ([] ++ (x.1 : Nat) :: (x.2 : Nat) :: [])
              ([] ++ (y.1 : Nat) :: (y.2 : Nat) :: []) 0 :=
  update_mpo_chain 2 0 exA exB [exH] [exG] _ exDecM (1 / 2) rfl (by decide +kernel) [] [] [] [] [] [] rfl rfl i j i' j' 1 rfl 0
    (by decide)

/-- **C04.18b** the general principle behind it: the path values of a chain depend on two neighbouring tensors only through
    their merged block, so a pair carrying `L · Θ · R` on the two sites gives `(1 ⊗ L ⊗ 1) · O · (1 ⊗ R ⊗ 1)` on the chain. -/
theorem two_site_update_in_chain {K : Type} [CommSemiring K] (d : Nat) (a b a' b' : Site K) (post : List (Site K))
    (hdr : b'.dr = b.dr) (L R : Matrix (Fin d × Fin d) (Fin d × Fin d) K)
    (hop : ∀ l, l < a.dl → ∀ w, w < b.dr → opMat d (thetaOf a' b') l w = L * opMat d (thetaOf a b) l w * R)
    (pre : List (Site K)) (sp sp' sq sq' : List Nat) (hsp : sp.length = pre.length) (hsp' : sp'.length = pre.length)
    (i j i' j' : Fin d) (n : Nat) (hn : lastDr n pre = a.dl) (l : Nat) (hl : l < n) :
    vals (pre ++ a' :: b' :: post) (sp ++ (i : Nat) :: (j : Nat) :: sq) (sp' ++ (i' : Nat) :: (j' : Nat) :: sq') l
      = ∑ x : Fin d × Fin d, ∑ y : Fin d × Fin d, (L (i, j) x * R y (i', j')) *
          vals (pre ++ a :: b :: post) (sp ++ (x.1 : Nat) :: (x.2 : Nat) :: sq)
            (sp' ++ (y.1 : Nat) :: (y.2 : Nat) :: sq') l :=
  vals_two_site_update d a b a' b' post hdr L R hop pre sp sp' sq sq' hsp hsp' i j i' j' n hn l hl

example (i j i' j' : Fin 2) :
    vals ([] ++ exA :: exB :: []) ([] ++ (i : Nat) :: (j : Nat) :: []) ([] ++ (i' : Nat) :: (j' : Nat) :: []) 0
      = ∑ x : Fin 2 × Fin 2, ∑ y : Fin 2 × Fin 2, ((1 : Matrix _ _ CRat) (i, j) x * (1 : Matrix _ _ CRat) y (i', j')) *
          vals ([] ++ exA :: exB :: []) ([] ++ (x.1 : Nat) :: (x.2 : Nat) :: []) ([] ++ (y.1 : Nat) :: (y.2 : Nat) :: []) 0 :=
  two_site_update_in_chain 2 exA exB exA exB [] rfl 1 1 (fun _ _ _ _ => by simp) [] [] [] [] [] rfl rfl i j i' j' 1 rfl 0
    (by decide)

/-- **C04.19 (`check_if_identity_trace`)** for every chain length and all bond dimensions: on a well-formed chain of qubit
    tensors the contraction loop of `check_if_identity` (`to_mps`, `np.conj` of the first state, `"abc,ade->bdce"`,
    `"abcd,cdef->abef"`, `squeeze`) returns the complex conjugate of the trace of the matrix `to_matrix()` returns
    (`2ⁿ × 2ⁿ`) — so its modulus is `|tr(to_matrix())|`. -/
theorem check_if_identity_trace {K : Type} [CommSemiring K] [StarRing K] (ts : List (Site K)) (hw : wellFormed ts = true)
    (hd : ∀ t ∈ ts, t.d = 2) :
    ∃ M, toMatrixCode ts = some M ∧ M.rows = 2 ^ ts.length ∧
      identityTrace star ts = some (star (∑ i ∈ Finset.range M.rows, M.e i i)) :=
  identityTrace_matrix ts hw hd

example : wellFormed [exA, exB] = true ∧ ∀ t ∈ [exA, exB], t.d = 2 := by
  refine ⟨by decide, ?_⟩
  intro t ht
  simp only [List.mem_cons, List.not_mem_nil, or_false] at ht
  rcases ht with rfl | rfl <;> rfl

/-- **C04.20 (`check_if_identity_decision`, link to Part A)** the decision `not |trace| / 2ⁿ < fidelity` taken on the exact
    Gaussian-rational trace is `verdict t n f` of `Model/Verdict.lean` for the modulus `t = |trace|` — so C04.1–C04.5
    (`verdict_iff`, `verdict_equal_circuits`, `verdict_below`, …) apply to the scalar C04.19 identifies. -/
theorem check_if_identity_decision (tr : CRat) (n : Nat) (f t : Rat) (ht : 0 ≤ t) (hsq : t * t = CRat.normSq tr) :
    identityDecision tr n f = verdict t n f ∧ (identityDecision tr n f = true ↔ f ≤ t / (2 : Rat) ^ n) := by
  have h := identityDecision_eq_verdict tr n f t ht hsq
  exact ⟨h, by rw [h, verdict_iff]⟩

example : identityDecision ⟨3, -4⟩ 3 (5 / 8) = true ∧ identityDecision ⟨3, -4⟩ 3 (51 / 80) = false ∧
    (5 : Rat) * 5 = CRat.normSq ⟨3, -4⟩ := by decide +kernel

/-- **C04.21 (the einsums of `apply_long_range_layer`)** stacking a long-range gate's MPO tensors on the MPO: the
    non-conjugate pair einsum `"abcd,edfg,chij,fjkl->aebhikgl"` with its reshape is the merged block (`thetaOf`) of the two
    site-wise products `G₀·W₀`, `G₁·W₁` (gate on top, gate bond most significant); the conjugate pair einsum
    `"…->ikhbaelg"` is the merged block of the products with the gate tensors contracted from below
    (`Σ_c W[σ, c] · G[σ', c]`, MPO bond most significant); the hanging tensor's block `"abcd, edfg->aebcfg"` is `thetaOf`
    of the previous MPO tensor and the stacked one; and at fixed bond indices a site product is the matrix product. -/
theorem long_range_blocks {K : Type} [CommSemiring K] (G0 G1 W0 W1 : Site K) (hW : W1.dl = W0.dr) (hG : G1.dl = G0.dr) :
    lrPairTop G0 G1 W0 W1 = thetaOf (mulSite G0 W0) (mulSite G1 W1) ∧
    lrPairBottom G0 G1 W0 W1 = thetaOf (lrHangBottom G0 W0) (lrHangBottom G1 W1) ∧
    lrHangTop G0 W0 = mulSite G0 W0 ∧
    (∀ P H : Site K, lrHangTheta P H = thetaOf P H) ∧
    (∀ a b lg lw rg rw, lw < W0.dl → rw < W0.dr →
      (mulSite G0 W0).e a b (lg * W0.dl + lw) (rg * W0.dr + rw) = ∑ c ∈ Finset.range W0.d, G0.e a c lg rg * W0.e c b lw rw) :=
  ⟨lrPairTop_eq G0 G1 W0 W1 hW, lrPairBottom_eq G0 G1 W0 W1 hG, rfl, fun _ _ => rfl,
    fun a b lg lw rg rw h1 h2 => mulSite_apply G0 W0 a b lg lw rg rw h1 h2⟩

example : exB.dl = exA.dr ∧ lrPairTop exA exB exA exB = thetaOf (mulSite exA exA) (mulSite exB exB) :=
  ⟨rfl, (long_range_blocks exA exB exA exB rfl rfl).1⟩

/-- **C04.21b (orientation of the conjugated long-range branch — model what the code does)** with the gate MPO stored as
    `rotate(conjugate=True)` leaves it, the conjugated branch multiplies the local operator of the MPO from the right by
    `conj(G)` (entry-wise conjugate: `Σ_c W[σ, c] · conj(G[c, σ'])`), *not* by `Gᴴ`; the two coincide exactly when the gate-MPO
    tensor is symmetric in its physical legs.  Every two-qubit gate of the library is a symmetric matrix (cx, cz, swap, cp,
    rxx, ryy, rzz), so for the gate set the checker accepts the branch gives `W · Gᴴ` (second statement; tied densely by the
    `t-lr-dense` oracle); a non-symmetric two-qubit gate would be applied wrongly from this side. -/
theorem long_range_bottom_operator {K : Type} [CommSemiring K] [StarRing K] (G W : Site K) (f a lw lg rw rg : Nat)
    (hlg : lg < G.dl) (hrg : rg < G.dr) :
    (lrHangBottom (rotateSite star G) W).e f a (lw * G.dl + lg) (rw * G.dr + rg)
        = ∑ c ∈ Finset.range W.d, W.e f c lw rw * star (G.e c a lg rg) ∧
    ((∀ c, G.e c a lg rg = G.e a c lg rg) →
      (lrHangBottom (rotateSite star G) W).e f a (lw * G.dl + lg) (rw * G.dr + rg)
        = ∑ c ∈ Finset.range W.d, W.e f c lw rw * star (G.e a c lg rg)) := by
  have h := lrHangBottom_rotate_apply G W f a lw lg rw rg hlg hrg
  exact ⟨h, fun hs => by rw [h]; exact Finset.sum_congr rfl fun c _ => by rw [hs c]⟩

example : (lrHangBottom (rotateSite star exA) exB).e 1 0 (1 * exA.dl + 0) (0 * exA.dr + 1)
    = ∑ c ∈ Finset.range exB.d, exB.e 1 c 1 0 * star (exA.e c 0 0 1) :=
  (long_range_bottom_operator exA exB 1 0 1 0 0 1 (by decide) (by decide)).1

/-- **C04.22 (the driver runs the model)** the array-backed loops the correspondence driver executes
    (`zoneApplyM`, `updateThetaM`: the block is written out after every gate, as numpy does) compute, on every in-range
    entry, the functions the theorems above are about, and raise exactly when they do. -/
theorem materialised_loops_agree {K : Type} [CommSemiring K] (cj : K → K) (d n : Nat) (A B : Site K)
    (gs1 gs2 : List (Gate K)) :
    OptEqOn6 d A.dl B.dr (updateThetaM cj d n A B gs1 gs2) (updateTheta cj d n A B gs1 gs2) ∧
    ∀ (conj : Bool) (gs : List (Gate K)) (a : Array K) (θ : T6 K), EqOn6 d A.dl B.dr (ofTab6 d A.dl d d B.dr a) θ →
      OptEqOn6 d A.dl B.dr (zoneApplyM cj d A.dl B.dr n conj gs a) (zoneApply cj d n conj gs θ) :=
  ⟨updateThetaM_eq cj d n A B gs1 gs2, fun conj gs a θ h => zoneApplyM_eq cj d A.dl B.dr n conj gs a θ h⟩

example : (updateThetaM CRat.conj 2 0 exA exB [exH] [exG]).isSome = true := by decide +kernel

end Yaqs.MpoUpdate

/-! ## Part D — end to end: for nearest-neighbour circuits and untruncated splits the checker's verdict is the verdict on `|tr(U₁ᴴ U₂)|/2ⁿ`

  (extension xc04; helper lemmas in `Lemmas/CheckerEmbed.lean`, `Lemmas/CheckerEndToEnd.lean`; chain-level model of `iterate`
  in `Model/CheckerChain.lean`.)  Parts A–C are composed:

  * `embed1 d n p A`, `embed2 d n p q G` — the `dⁿ × dⁿ` matrix (rows / columns = configurations `Fin n → Fin d`) of a one-site /
    two-site operator on given sites, identity elsewhere; `gateSem d n g qs` — the operator of a gate object placed on qubits `qs`;
    `U (sem d n gateOf) c` (Part B's `U`) — the circuit's unitary: the product of its gates' operators in program order, later gates
    on the left.
  * `chainMat d n ts` — the operator of a tensor list (bond path sums; C04.29: the entries of `to_matrix()`).
  * `CheckerChain.iterateMpo` — `mpo.identity(n); iterate(mpo, dag1, dag2, thr)` on tensors: the event list of Part B's `iterate`,
    read as a sequence of `update_mpo` calls, each one Part C's `updateTheta` + `decomposeTheta`; `checkerRun` adds
    `check_if_identity`.

  **What the code builds, in which order**: `U₁ · 1 · U₂ᴴ` — gates of circuit 1 multiply the identity from the left in program order,
  adjoints of the gates of circuit 2 from the right (C04.28).  The scalar `check_if_identity` compares with the fidelity is
  `conj(tr(U₁ U₂ᴴ)) = tr(U₁ᴴ U₂)` (C04.30).

  **What remains hypothesis** (each named in the statements):
  * *no truncation* — `ExactSteps`: at every `update_mpo` the kept part `u[:, :keep] · diag(s[:keep]) · vh[:keep]` of the LAPACK SVD
    reproduces the block handed to it (all singular values kept and `U diag(s) Vh = M`, or discarded weight 0).  With truncation
    C04.17 `split_then_merge` bounds every single update by its discarded weight; the accumulation over updates is not formalised.
  * *exact arithmetic* — the model computes in `K` (ℚ(i) in the tie), the code in binary64.
  * *nearest-neighbour circuits* — `NNCircuit`: one-qubit gates and two-qubit gates on distinct neighbouring qubits; long-range
    gates and swaps over a distance take the `apply_long_range_layer` branch (C04.21, tied by `t-lr`), which the chain-level model
    does not contain (`stepsOf` returns `none`).  `gate.sites` / `gate.interaction` are what `convert_dag_to_tensor_algorithm`
    sets (tied by `e2e`), and the two-site tensor is stored in site order (C18).
  * qiskit's DAG layering is modelled by the wire-dependency front of the instruction list (trace-tied by `iter` / `e2e`).
  * for `checker_equal_up_to_phase`: the second circuit's operator is unitary (every library gate is: C18).
  * for `checker_total` (the run does not fail): one SVD result per `update_mpo` call. -/
namespace Yaqs.CheckerE2E
open Matrix Yaqs.MpoConv Yaqs.MpoUpdate Yaqs.Verdict Yaqs.CheckerChain
open scoped Kronecker

/-- **C04.23 (`embed_gate`: entries)** what "acts on the given sites and is the identity elsewhere" means: the entry of the
    embedded operator between configurations `σ`, `τ` is the local entry when `σ` and `τ` agree on every other site, and `0`
    otherwise — for a one-site operator on `p` and a two-site operator on distinct sites `p`, `q` (rows / columns `(σ_p, σ_q)`). -/
theorem embed_gate_entry {K : Type} [CommSemiring K] (d n p q : Nat) (hp : p < n) (hq : q < n) (hpq : p ≠ q)
    (A : Matrix (Fin d) (Fin d) K) (G : Matrix (Fin d × Fin d) (Fin d × Fin d) K) (σ τ : Fin n → Fin d) :
    embed1 d n p A σ τ = (if (∀ k : Fin n, (k : Nat) ≠ p → σ k = τ k) then A (σ ⟨p, hp⟩) (τ ⟨p, hp⟩) else 0) ∧
    embed2 d n p q G σ τ = (if (∀ k : Fin n, (k : Nat) ≠ p → (k : Nat) ≠ q → σ k = τ k) then
      G (σ ⟨p, hp⟩, σ ⟨q, hq⟩) (τ ⟨p, hp⟩, τ ⟨q, hq⟩) else 0) :=
  ⟨embed1_apply d n p hp A σ τ, embed2_apply d n p q hp hq hpq G σ τ⟩

example : embed1 2 2 1 (!![(1 : CRat), 2; 3, 4]) ![0, 1] ![0, 0] = 4 - 1 ∧
    embed1 2 2 1 (!![(1 : CRat), 2; 3, 4]) ![0, 1] ![1, 0] = 0 := by
  constructor
  · rw [(embed_gate_entry 2 2 1 0 (by decide) (by decide) (by decide) _ 1 _ _).1, if_pos (by decide)]
    decide +kernel
  · rw [(embed_gate_entry 2 2 1 0 (by decide) (by decide) (by decide) _ 1 _ _).1, if_neg (by decide)]

/-- **C04.24 (`embed_mul_same_sites`)** on the same sites the embedding is multiplicative, maps `1` to `1` and commutes with the
    adjoint — so the embedded ordered product of the gates of one temporal zone is the ordered product of the embedded gates. -/
theorem embed_mul_same_sites {K : Type} [CommSemiring K] [StarRing K] (d n p q : Nat)
    (G H : Matrix (Fin d × Fin d) (Fin d × Fin d) K) (A B : Matrix (Fin d) (Fin d) K) :
    embed2 d n p q G * embed2 d n p q H = embed2 d n p q (G * H) ∧
    embed1 d n p A * embed1 d n p B = embed1 d n p (A * B) ∧
    embed2 d n p q (1 : Matrix (Fin d × Fin d) (Fin d × Fin d) K) = 1 ∧
    (embed2 d n p q G)ᴴ = embed2 d n p q Gᴴ ∧ (embed1 d n p A)ᴴ = embed1 d n p Aᴴ ∧
    ∀ Gs : List (Matrix (Fin d × Fin d) (Fin d × Fin d) K), embed2 d n p q Gs.prod = (Gs.map (embed2 d n p q)).prod :=
  ⟨embed2_mul d n p q G H, embed1_mul d n p A B, embed2_one d n p q, embed2_conjTranspose d n p q G,
    embed1_conjTranspose d n p A, embed2_list_prod d n p q⟩

example (G H : Matrix (Fin 2 × Fin 2) (Fin 2 × Fin 2) CRat) :
    embed2 2 5 2 3 G * embed2 2 5 2 3 H = embed2 2 5 2 3 (G * H) := (embed_mul_same_sites 2 5 2 3 G H 1 1).1

/-- **C04.25 (`embed_commute_disjoint`)** operators embedded on disjoint sets of sites commute (one-site / one-site,
    one-site / two-site, two-site / two-site), hence the operators of *any* two instructions on disjoint qubits commute,
    whatever their gate objects — the hypothesis `hc` of C04.10a `lin_product` and C04.10 `iterate_result`. -/
theorem embed_commute_disjoint {K : Type} [CommSemiring K] (d n : Nat) :
    (∀ p q, p ≠ q → ∀ A B : Matrix (Fin d) (Fin d) K, Commute (embed1 d n p A) (embed1 d n q B)) ∧
    (∀ r p q, r ≠ p → r ≠ q → ∀ (A : Matrix (Fin d) (Fin d) K) (G : Matrix (Fin d × Fin d) (Fin d × Fin d) K),
      Commute (embed1 d n r A) (embed2 d n p q G)) ∧
    (∀ p q r s, p ≠ r → p ≠ s → q ≠ r → q ≠ s → ∀ G H : Matrix (Fin d × Fin d) (Fin d × Fin d) K,
      Commute (embed2 d n p q G) (embed2 d n r s H)) ∧
    (∀ (gateOf : Instr → Gate K) (a b : Instr), disj a.qs b.qs = true → Commute (sem d n gateOf a) (sem d n gateOf b)) :=
  ⟨fun p q h A B => embed_commute_11 d n p q h A B, fun r p q h1 h2 A G => embed_commute_12 d n r p q h1 h2 A G,
    fun p q r s h1 h2 h3 h4 G H => embed_commute_22 d n p q r s h1 h2 h3 h4 G H, fun g a b h => sem_commute d n g a b h⟩

example (G H : Matrix (Fin 2 × Fin 2) (Fin 2 × Fin 2) CRat) : Commute (embed2 2 4 0 1 G) (embed2 2 4 3 2 H) :=
  (embed_commute_disjoint 2 4).2.2.1 0 1 3 2 (by decide) (by decide) (by decide) (by decide) G H

/-- **C04.26 (`embed_gate` does not depend on the zone)** the two-site operator `apply_gate` uses for a gate handed over by the
    temporal zone at `(m, m+1)` (`M ⊗ 1`, `1 ⊗ M` or the tensor as a matrix — C04.11), placed on that pair of sites, is the gate's
    operator on the register `gateSem`: `gate.matrix` on its own site resp. `gate.tensor` on its two sites.  In particular a
    one-qubit gate on qubit `q` gives the same operator whether it is applied in the zone `(q−1, q)` or `(q, q+1)`. -/
theorem embed_gate_in_zone {K : Type} [CommSemiring K] (d n m : Nat) (hm : m + 1 < n) (g : Gate K) (qs : List Nat)
    (h : InZone m g qs) : embed2 d n m (m + 1) (gateOp d g m) = gateSem d n g qs :=
  embed2_gateOp d n m hm g qs h

-- the one-site gate `exH'` on qubit 1 of a 3-qubit register, seen from the zone (0,1) and from the zone (1,2)
private def exH' : Gate CRat := ⟨false, 1, [1], fun i j => ⟨(i : Nat), (2 * j + 1 : Nat)⟩, fun _ _ _ _ => 0⟩
example : embed2 2 3 0 1 (gateOp 2 exH' 0) = embed2 2 3 1 2 (gateOp 2 exH' 1) := by
  rw [embed_gate_in_zone 2 3 0 (by decide) exH' [1] ⟨rfl, rfl, Or.inl rfl, by decide, by decide⟩,
    embed_gate_in_zone 2 3 1 (by decide) exH' [1] ⟨rfl, rfl, Or.inl rfl, by decide, by decide⟩]

/-- **C04.27 (`chain_update_is_embed`)** C04.18 `update_mpo_chain` as a matrix identity: when nothing is discarded,
    `to_matrix(updated chain) = embed(U₁ on the pair) · to_matrix(chain) · embed(U₂ᴴ on the pair)` with `U₁` the ordered product
    of the zone of circuit 1 and `U₂ᴴ = (U₂)ᴴ` the product of the adjoints of the zone of circuit 2 — every chain length, every
    position of the pair, all bond dimensions. -/
theorem chain_update_is_embed {K : Type} [CommSemiring K] [StarRing K] (d : Nat) (pre post : List (Site K)) (A B : Site K)
    (gs1 gs2 : List (Gate K)) (θ' : T6 K) (dec : Svd K) (thr : Rat)
    (hθ : updateTheta star d pre.length A B gs1 gs2 = some θ')
    (hspec : ∀ i, i < d * d * A.dl → ∀ j, j < d * d * B.dr →
      thetaMatrix d A.dl B.dr θ' i j = truncProd (Rank.keepTheta dec.s thr) dec i j)
    (hpre : lastDr 1 pre = A.dl) (n : Nat) (hn : n = pre.length + 2 + post.length) :
    chainMat d n (pre ++ (decomposeTheta d A.dl B.dr dec thr).1 :: (decomposeTheta d A.dl B.dr dec thr).2 :: post)
      = embed2 d n pre.length (pre.length + 1) ((gs1.map fun g => gateOp d g pre.length).reverse).prod
        * chainMat d n (pre ++ A :: B :: post)
        * embed2 d n pre.length (pre.length + 1) (gs2.map fun g => (gateOp d g pre.length)ᴴ).prod ∧
    embed2 d n pre.length (pre.length + 1) (gs2.map fun g => (gateOp d g pre.length)ᴴ).prod
      = (embed2 d n pre.length (pre.length + 1) ((gs2.map fun g => gateOp d g pre.length).reverse).prod)ᴴ := by
  refine ⟨chainUpdate_embed d pre post A B gs1 gs2 θ' dec thr hθ hspec hpre n hn, ?_⟩
  rw [embed2_conjTranspose, Matrix.conjTranspose_list_prod, List.map_reverse, List.reverse_reverse, List.map_map]
  rfl

/-- **C04.28a (`nn_event_list_is_updates`)** for circuits of one-qubit and nearest-neighbour two-qubit gates the `while` loop of
    `iterate` never takes the long-range branch: its event list is a sequence of `update_mpo` calls `z1:m:… z2:m:…`, each at a pair
    `(m, m+1)` inside the register, each consuming only one- or two-qubit gates of that pair whose gate objects carry the
    instruction's qubits (so the assertions of `apply_gate` hold, C04.13, and C04.26 applies to every consumed gate). -/
theorem nn_event_list_is_updates {K : Type} (n : Nat) (gate1 gate2 : Instr → Gate K) (c1 c2 : Dag) (fuel : Nat)
    (evs : List Ev) (h1 : NNCircuit c1 gate1) (h2 : NNCircuit c2 gate2) (h : iterate n c1 c2 fuel = .done evs) :
    2 ≤ n ∧ ∃ steps : List Step, stepsOf evs = some steps ∧ evs = steps.flatMap Step.evs ∧
      ∀ s ∈ steps, StepOK n gate1 gate2 s :=
  iterate_steps_ok n gate1 gate2 c1 c2 fuel evs h1 h2 h

/-- **C04.28 (`iterate_represents_product`)** for two circuits of one-qubit and nearest-neighbour two-qubit gates, with every
    split untruncated (`ExactSteps`), the tensor list `iterate` leaves behind — started from `mpo.identity(n)` — is a well-formed
    chain of `n` tensors whose operator is

        to_matrix(final chain) = U₁ · 1 · U₂ᴴ      (U₁ = circuit 1's gates in program order, later gates leftmost; same for U₂)

    i.e. the gates of the *first* circuit multiply from the left, the adjoints of the gates of the *second* circuit from the
    right.  Proof: induction over the `update_mpo` calls (`runSteps_represents`, each call by C04.27 + C04.26) gives
    `runEvs sem₁ (star ∘ sem₂) 1 evs`; C04.10 `iterate_result` with C04.25 as its commutation hypothesis (the order `iterate`
    consumes the gates in respects the wires) turns that into the product in program order. -/
theorem iterate_represents_product {K : Type} [CommSemiring K] [StarRing K] (d n : Nat) (thr : Rat)
    (gate1 gate2 : Instr → Gate K) (c1 c2 : Dag) (decs : List (Svd K)) (ts : List (Site K))
    (h1 : NNCircuit c1 gate1) (h2 : NNCircuit c2 gate2)
    (hx : ∀ evs steps, iterate n c1 c2 (c1.length + c2.length) = .done evs → stepsOf evs = some steps →
      ExactSteps d thr gate1 gate2 (identityMpo n d) steps decs)
    (h : iterateMpo star d thr gate1 gate2 n c1 c2 decs = some ts) :
    GoodChain d n ts ∧ 2 ≤ n ∧
    chainMat d n ts = U (sem d n gate1) c1 * 1 * star (U (sem d n gate2) c2) ∧
    chainMat d n ts = U (sem d n gate1) c1 * (U (sem d n gate2) c2)ᴴ := by
  obtain ⟨evs, hit, hn, hg, hm⟩ := iterateMpo_runEvs d n thr gate1 gate2 c1 c2 decs ts h1 h2 hx h
  have hr := iterate_result (sem d n gate1) (sem d n gate2) (fun a b hab => sem_commute d n gate1 a b hab)
    (fun a b hab => sem_commute d n gate2 a b hab) n c1 c2 _ evs hit 1
  rw [hr] at hm
  exact ⟨hg, hn, hm, by rw [hm, mul_one, star_eq_conjTranspose]⟩

/-- **C04.29 (`chain_matrix_is_to_matrix`)** `chainMat` is the matrix the code's `to_matrix()` returns: on a well-formed chain
    the contraction / reshape loop succeeds, gives a `dⁿ × dⁿ` array, and its entry at the Kronecker indices of two
    configurations (site 0 most significant) is the `chainMat` entry (C07 `to_matrix_entry`). -/
theorem chain_matrix_is_to_matrix {K : Type} [CommSemiring K] (d n : Nat) (hn : 0 < n) (ts : List (Site K))
    (h : GoodChain d n ts) :
    ∃ M, toMatrixCode ts = some M ∧ M.rows = d ^ n ∧ M.cols = d ^ n ∧
      ∀ σ σ' : Fin n → Fin d, chainMat d n ts σ σ'
        = M.e (Index.kronIdx (List.replicate n d) (cfg σ)) (Index.kronIdx (List.replicate n d) (cfg σ')) :=
  chainMat_toMatrixCode d n hn ts h

example : GoodChain 2 3 (identityMpo 3 2 : List (Site CRat)) ∧ chainMat 2 3 (identityMpo 3 2 : List (Site CRat)) = 1 :=
  ⟨goodChain_identity 2 3, chainMat_identity 2 3⟩

/-- **C04.30 (`checker_correct`)** hence, for nearest-neighbour circuits and untruncated splits, what
    `equivalence_checker.run(c1, c2, thr, f)["equivalent"]` returns is the decision of `check_if_identity` on the scalar
    `conj(tr(U₁ U₂ᴴ)) = tr(U₁ᴴ U₂)`:  **equivalent ⇔ f ≤ |tr(U₁ᴴ U₂)| / 2ⁿ** — stated exactly over ℚ(i) in squared form
    (`f ≤ 0` or `(f·2ⁿ)² ≤ |tr|²`), and, whenever the modulus `t = |tr(U₁ᴴ U₂)|` is rational, as `verdict t n f` of Part A, to which
    C04.1–C04.4 apply. -/
theorem checker_correct (thr : Rat) (gate1 gate2 : Instr → Gate CRat) (n : Nat) (c1 c2 : Dag) (decs : List (Svd CRat))
    (f : Rat) (b : Bool) (h1 : NNCircuit c1 gate1) (h2 : NNCircuit c2 gate2)
    (hx : ∀ evs steps, iterate n c1 c2 (c1.length + c2.length) = .done evs → stepsOf evs = some steps →
      ExactSteps 2 thr gate1 gate2 (identityMpo n 2) steps decs)
    (h : checkerRun thr gate1 gate2 n c1 c2 decs f = some b) :
    b = identityDecision (trace ((U (sem 2 n gate1) c1)ᴴ * U (sem 2 n gate2) c2)) n f ∧
    (b = true ↔ ¬ (0 < f ∧ CRat.normSq (trace ((U (sem 2 n gate1) c1)ᴴ * U (sem 2 n gate2) c2))
        < (f * (2 : Rat) ^ n) * (f * (2 : Rat) ^ n))) ∧
    ∀ t : Rat, 0 ≤ t → t * t = CRat.normSq (trace ((U (sem 2 n gate1) c1)ᴴ * U (sem 2 n gate2) c2)) →
      b = verdict t n f ∧ (b = true ↔ f ≤ t / (2 : Rat) ^ n) := by
  obtain ⟨ts, hts, hdec⟩ := checkerRun_decision thr gate1 gate2 n c1 c2 decs f b h
  obtain ⟨hg, hn, _, hm⟩ := iterate_represents_product 2 n thr gate1 gate2 c1 c2 decs ts h1 h2 hx hts
  have hb := hdec hg (by omega)
  have htr : star (trace (chainMat 2 n ts)) = trace ((U (sem 2 n gate1) c1)ᴴ * U (sem 2 n gate2) c2) := by
    rw [hm, ← trace_conjTranspose, conjTranspose_mul, conjTranspose_conjTranspose, trace_mul_comm]
  rw [htr] at hb
  refine ⟨hb, ?_, fun t ht hsq => ?_⟩
  · rw [hb]
    unfold identityDecision
    simp only [Bool.not_eq_true', Bool.and_eq_false_iff, decide_eq_false_iff_not, not_and_or]
  · have := check_if_identity_decision _ n f t ht hsq
    rw [← hb] at this
    exact this

/-- **C04.31 (`checker_equal_up_to_phase`)** corollary: if the two circuits' operators are equal up to a global phase
    (`U₁ = c · U₂`, `|c| = 1`, `U₂` unitary) the checker answers "equivalent" for every requested fidelity `f ≤ 1`. -/
theorem checker_equal_up_to_phase (thr : Rat) (gate1 gate2 : Instr → Gate CRat) (n : Nat) (c1 c2 : Dag)
    (decs : List (Svd CRat)) (f : Rat) (b : Bool) (h1 : NNCircuit c1 gate1) (h2 : NNCircuit c2 gate2)
    (hx : ∀ evs steps, iterate n c1 c2 (c1.length + c2.length) = .done evs → stepsOf evs = some steps →
      ExactSteps 2 thr gate1 gate2 (identityMpo n 2) steps decs)
    (h : checkerRun thr gate1 gate2 n c1 c2 decs f = some b)
    (c : CRat) (hc : CRat.normSq c = 1) (hU : U (sem 2 n gate1) c1 = c • U (sem 2 n gate2) c2)
    (hunit : (U (sem 2 n gate2) c2)ᴴ * U (sem 2 n gate2) c2 = 1) (hf : f ≤ 1) : b = true := by
  obtain ⟨_, _, hv⟩ := checker_correct thr gate1 gate2 n c1 c2 decs f b h1 h2 hx h
  have htr : trace ((U (sem 2 n gate1) c1)ᴴ * U (sem 2 n gate2) c2) = star c * ((2 ^ n : Nat) : CRat) := by
    rw [hU, conjTranspose_smul, Matrix.smul_mul, hunit, trace_smul, trace_one_cfg, smul_eq_mul]
  have hsq : ((2 : Rat) ^ n) * ((2 : Rat) ^ n)
      = CRat.normSq (trace ((U (sem 2 n gate1) c1)ᴴ * U (sem 2 n gate2) c2)) := by
    rw [htr, CRat.normSq_mul, CRat.normSq_star, hc, one_mul, CRat.normSq_natCast]
    push_cast
    ring
  obtain ⟨hb, _⟩ := hv ((2 : Rat) ^ n) (by positivity) hsq
  rw [hb]
  exact verdict_equal_circuits _ n f rfl hf

/-- **C04.32 (`checker_swap`)** corollary: the verdict is the same with the two circuits swapped — whatever the SVD results and
    thresholds of the two runs, as long as neither truncates: `tr(U₂ᴴ U₁) = conj(tr(U₁ᴴ U₂))` (C04.5a `overlap_conj`) and the
    decision only reads the modulus. -/
theorem checker_swap (thr thr' : Rat) (gate1 gate2 : Instr → Gate CRat) (n : Nat) (c1 c2 : Dag) (decs decs' : List (Svd CRat))
    (f : Rat) (b b' : Bool) (h1 : NNCircuit c1 gate1) (h2 : NNCircuit c2 gate2)
    (hx : ∀ evs steps, iterate n c1 c2 (c1.length + c2.length) = .done evs → stepsOf evs = some steps →
      ExactSteps 2 thr gate1 gate2 (identityMpo n 2) steps decs)
    (hx' : ∀ evs steps, iterate n c2 c1 (c2.length + c1.length) = .done evs → stepsOf evs = some steps →
      ExactSteps 2 thr' gate2 gate1 (identityMpo n 2) steps decs')
    (h : checkerRun thr gate1 gate2 n c1 c2 decs f = some b)
    (h' : checkerRun thr' gate2 gate1 n c2 c1 decs' f = some b') : b = b' := by
  obtain ⟨hb, _, _⟩ := checker_correct thr gate1 gate2 n c1 c2 decs f b h1 h2 hx h
  obtain ⟨hb', _, _⟩ := checker_correct thr' gate2 gate1 n c2 c1 decs' f b' h2 h1 hx' h'
  rw [hb, hb', overlap_conj (U (sem 2 n gate1) c1) (U (sem 2 n gate2) c2), identityDecision_star]

/-- **C04.33 (`checker_total`: the run does not fail)** for well-formed nearest-neighbour circuits on `n ≥ 2` qubits (`WF`: one- or
    two-qubit gates on qubits `< n`) and one SVD result per `update_mpo` call, the tensor run of `iterate` returns a tensor list —
    the loop terminates (C04.9), no assertion of `apply_gate` fires (C04.13 with C04.8c), every pair is inside the register — and,
    when no split truncates, `equivalence_checker.run` returns a verdict; so C04.30 is not a statement about an empty set of runs. -/
theorem checker_total (thr : Rat) (gate1 gate2 : Instr → Gate CRat) (n : Nat) (hn : 2 ≤ n) (c1 c2 : Dag)
    (decs : List (Svd CRat)) (f : Rat) (hw1 : WF n c1) (hw2 : WF n c2) (h1 : NNCircuit c1 gate1) (h2 : NNCircuit c2 gate2)
    (hdecs : ∀ evs steps, iterate n c1 c2 (c1.length + c2.length) = .done evs → stepsOf evs = some steps →
      steps.length ≤ decs.length) :
    (∃ ts, iterateMpo star 2 thr gate1 gate2 n c1 c2 decs = some ts ∧ ts.length = n) ∧
    ((∀ evs steps, iterate n c1 c2 (c1.length + c2.length) = .done evs → stepsOf evs = some steps →
        ExactSteps 2 thr gate1 gate2 (identityMpo n 2) steps decs) →
      ∃ b, checkerRun thr gate1 gate2 n c1 c2 decs f = some b) := by
  obtain ⟨evs, hit⟩ := iterate_terminates n hn c1 c2 hw1 hw2
  obtain ⟨_, steps, hst, _, hok⟩ := iterate_steps_ok n gate1 gate2 c1 c2 _ evs h1 h2 hit
  obtain ⟨ts, hts, hlen⟩ := runSteps_isSome star 2 n thr gate1 gate2 steps decs (identityMpo n 2) (by simp [identityMpo]) hok
    (hdecs evs steps hit hst)
  have hrun : iterateMpo star 2 thr gate1 gate2 n c1 c2 decs = some ts := by
    simp only [iterateMpo, hit, hst, hts]
  refine ⟨⟨ts, hrun, hlen⟩, fun hx => ?_⟩
  obtain ⟨hg, _, _, _⟩ := iterate_represents_product 2 n thr gate1 gate2 c1 c2 decs ts h1 h2 hx hrun
  have htr := identityTrace_eq ts (hg.wf (by omega)) hg.dims
  have e : identityTrace CRat.conj ts = identityTrace star ts := rfl
  refine ⟨identityDecision (star (pathTrace ts 0)) n f, ?_⟩
  unfold checkerRun
  rw [show iterateMpo CRat.conj 2 thr gate1 gate2 n c1 c2 decs = some ts from hrun]
  dsimp only
  rw [e, htr]

/-! ### non-vacuity of C04.28 – C04.32: concrete pairs on two qubits over ℚ(i)

  pair A: circuit 1 = a one-qubit gate on qubit 1, then a two-qubit gate on (1, 0); circuit 2 = a one-qubit gate on qubit 0; the
  gate matrices are neither real nor symmetric nor unitary (C04.28, C04.30, C04.32 do not need unitarity).  pair B: `i·Y` on qubit 0
  against `Y` on qubit 0 (equal up to the phase `i`).  In each run one `update_mpo` at (0, 1) consumes everything; its "SVD"
  `1 · diag(1,1,1,1) · M` keeps all four values, so nothing is discarded. -/
private def exMat : Nat → Nat → CRat := fun i j => ⟨(i : Nat), (2 * j + 1 : Nat)⟩
private def exTen : T4 CRat := fun i j k l => ⟨(i + 2 * j + 3 * k : Nat), (l : Nat)⟩
private def exGateOf (i : Instr) : Gate CRat := ⟨false, i.qs.length, i.qs, exMat, exTen⟩
private def exC1 : Dag := mkDag [[1], [1, 0]]
private def exC2 : Dag := mkDag [[0]]
/-- the block `update_mpo` hands to the SVD in the single update of a two-qubit run -/
private def exθ2 (g1 g2 : Instr → Gate CRat) (c1 c2 : Dag) : T6 CRat :=
  (updateTheta star 2 0 (identitySite 2) (identitySite 2) (c1.map g1) (c2.map g2)).getD fun _ _ _ _ _ _ => 0
private def exDec2 (θ : T6 CRat) : Svd CRat := ⟨fun i j => if i = j then 1 else 0, [1, 1, 1, 1], fun _ => 1, thetaMatrix 2 1 1 θ⟩

private theorem exNN (g : Instr → Gate CRat) (hg : ∀ i, (g i).sites = i.qs ∧ (g i).interaction = i.qs.length) (c : Dag)
    (h : ∀ i ∈ c, (i.qs.length = 1 ∨ i.qs.length = 2) ∧ i.qs.Nodup ∧ dist i.qs ≤ 2) :
    NNCircuit c g := fun i hi => ⟨(h i hi).1, (h i hi).2.1, (h i hi).2.2, (hg i).1, (hg i).2⟩

/-- the no-truncation hypothesis of C04.28 / C04.30 for a two-qubit run with the given SVD results -/
private abbrev ExHyp (g1 g2 : Instr → Gate CRat) (c1 c2 : Dag) (decs : List (Svd CRat)) : Prop :=
  ∀ evs steps, iterate 2 c1 c2 (c1.length + c2.length) = .done evs → stepsOf evs = some steps →
    ExactSteps 2 (1 / 2) g1 g2 (identityMpo 2 2) steps decs

private theorem exExact2 (g1 g2 : Instr → Gate CRat) (c1 c2 : Dag)
    (e : iterate 2 c1 c2 (c1.length + c2.length) = .done [Ev.zone 1 0 c1, Ev.zone 2 0 c2])
    (h0 : updateTheta star 2 0 (identitySite 2 : Site CRat) (identitySite 2) (c1.map g1) (c2.map g2) = some (exθ2 g1 g2 c1 c2))
    (hd : ∀ i, i < 2 * 2 * 1 → ∀ j, j < 2 * 2 * 1 → thetaMatrix 2 1 1 (exθ2 g1 g2 c1 c2) i j
      = truncProd (Rank.keepTheta (exDec2 (exθ2 g1 g2 c1 c2)).s (1 / 2)) (exDec2 (exθ2 g1 g2 c1 c2)) i j) :
    ∀ evs steps, iterate 2 c1 c2 (c1.length + c2.length) = .done evs → stepsOf evs = some steps →
      ExactSteps 2 (1 / 2) g1 g2 (identityMpo 2 2) steps [exDec2 (exθ2 g1 g2 c1 c2)] := by
  intro evs steps hit hst
  rw [e] at hit
  cases hit
  have hs : steps = [⟨0, c1, c2⟩] := by
    simp [stepsOf] at hst
    exact hst.symm
  subst hs
  refine ⟨?_, fun _ _ => trivial⟩
  intro A B θ' hA hB hθ
  have eA : A = identitySite 2 := by
    simp [identityMpo] at hA
    exact hA.symm
  have eB : B = identitySite 2 := by
    simp [identityMpo] at hB
    exact hB.symm
  subst eA eB
  have eθ : θ' = exθ2 g1 g2 c1 c2 := (Option.some.inj (h0.symm.trans hθ)).symm
  subst eθ
  exact hd

private theorem exExactA : ExHyp exGateOf exGateOf exC1 exC2 [exDec2 (exθ2 exGateOf exGateOf exC1 exC2)] :=
  exExact2 exGateOf exGateOf exC1 exC2 (by decide +kernel) rfl (by decide +kernel)
private theorem exExactA' : ExHyp exGateOf exGateOf exC2 exC1 [exDec2 (exθ2 exGateOf exGateOf exC2 exC1)] :=
  exExact2 exGateOf exGateOf exC2 exC1 (by decide +kernel) rfl (by decide +kernel)

example : NNCircuit exC1 exGateOf ∧ NNCircuit exC2 exGateOf :=
  ⟨exNN _ (fun _ => ⟨rfl, rfl⟩) _ (by decide), exNN _ (fun _ => ⟨rfl, rfl⟩) _ (by decide)⟩

-- C04.28a / C04.28: the run exists, and its chain is `U₁ · U₂ᴴ`
example : 2 ≤ 2 ∧ ∃ steps : List Step, stepsOf [Ev.zone 1 0 exC1, Ev.zone 2 0 exC2] = some steps ∧
    [Ev.zone 1 0 exC1, Ev.zone 2 0 exC2] = steps.flatMap Step.evs ∧ ∀ s ∈ steps, StepOK 2 exGateOf exGateOf s :=
  nn_event_list_is_updates 2 exGateOf exGateOf exC1 exC2 3 _ (exNN _ (fun _ => ⟨rfl, rfl⟩) _ (by decide))
    (exNN _ (fun _ => ⟨rfl, rfl⟩) _ (by decide)) (by decide +kernel)

example : ∃ ts, iterateMpo star 2 (1 / 2) exGateOf exGateOf 2 exC1 exC2 [exDec2 (exθ2 exGateOf exGateOf exC1 exC2)] = some ts ∧
    chainMat 2 2 ts = U (sem 2 2 exGateOf) exC1 * (U (sem 2 2 exGateOf) exC2)ᴴ :=
  ⟨_, rfl, (iterate_represents_product 2 2 (1 / 2) exGateOf exGateOf exC1 exC2 _ _ (exNN _ (fun _ => ⟨rfl, rfl⟩) _ (by decide))
    (exNN _ (fun _ => ⟨rfl, rfl⟩) _ (by decide)) exExactA rfl).2.2.2⟩

-- C04.30: the verdict of that run
example : ∃ b, checkerRun (1 / 2) exGateOf exGateOf 2 exC1 exC2 [exDec2 (exθ2 exGateOf exGateOf exC1 exC2)] (1 / 2) = some b ∧
    b = identityDecision (trace ((U (sem 2 2 exGateOf) exC1)ᴴ * U (sem 2 2 exGateOf) exC2)) 2 (1 / 2) :=
  ⟨_, rfl, (checker_correct (1 / 2) exGateOf exGateOf 2 exC1 exC2 _ (1 / 2) _ (exNN _ (fun _ => ⟨rfl, rfl⟩) _ (by decide))
    (exNN _ (fun _ => ⟨rfl, rfl⟩) _ (by decide)) exExactA rfl).1⟩

-- C04.32: the same pair in both argument orders
example : ∃ b b', checkerRun (1 / 2) exGateOf exGateOf 2 exC1 exC2 [exDec2 (exθ2 exGateOf exGateOf exC1 exC2)] (1 / 2) = some b ∧
    checkerRun (1 / 2) exGateOf exGateOf 2 exC2 exC1 [exDec2 (exθ2 exGateOf exGateOf exC2 exC1)] (1 / 2) = some b' ∧ b = b' :=
  ⟨_, _, rfl, rfl, checker_swap (1 / 2) (1 / 2) exGateOf exGateOf 2 exC1 exC2 _ _ (1 / 2) _ _
    (exNN _ (fun _ => ⟨rfl, rfl⟩) _ (by decide)) (exNN _ (fun _ => ⟨rfl, rfl⟩) _ (by decide)) exExactA exExactA' rfl rfl⟩

-- C04.31: `i·Y` against `Y` on qubit 0 — equal up to the phase `i`, `Y` unitary
private def exY : Matrix (Fin 2) (Fin 2) CRat := !![0, -CRat.I; CRat.I, 0]
private def exYg (c : CRat) (i : Instr) : Gate CRat := ⟨false, i.qs.length, i.qs, fun a b => c * exY (Fin.ofNat 2 a) (Fin.ofNat 2 b), fun _ _ _ _ => 0⟩
private theorem exExactB : ExHyp (exYg CRat.I) (exYg 1) exC2 exC2 [exDec2 (exθ2 (exYg CRat.I) (exYg 1) exC2 exC2)] :=
  exExact2 (exYg CRat.I) (exYg 1) exC2 exC2 (by decide +kernel) rfl (by decide +kernel)
private theorem exY_sem (c : CRat) : U (sem 2 2 (exYg c)) exC2 = c • embed1 2 2 0 exY := by
  have h : gateMat1 2 (fun a b => c * exY (Fin.ofNat 2 a) (Fin.ofNat 2 b)) = c • exY := by
    ext a b
    fin_cases a <;> fin_cases b <;> rfl
  have e : U (sem 2 2 (exYg c)) exC2 = embed1 2 2 0 (gateMat1 2 fun a b => c * exY (Fin.ofNat 2 a) (Fin.ofNat 2 b)) := by
    show (([(⟨0, [0]⟩ : Instr)].map (sem 2 2 (exYg c))).reverse).prod = _
    simp [sem, gateSem, exYg]
  rw [e, h, embed1_smul 2 2 0 (by decide)]

example : ∃ b, checkerRun (1 / 2) (exYg CRat.I) (exYg 1) 2 exC2 exC2 [exDec2 (exθ2 (exYg CRat.I) (exYg 1) exC2 exC2)] 1 = some b ∧
    b = true := by
  refine ⟨_, rfl, checker_equal_up_to_phase (1 / 2) (exYg CRat.I) (exYg 1) 2 exC2 exC2 _ 1 _
    (exNN _ (fun _ => ⟨rfl, rfl⟩) _ (by decide)) (exNN _ (fun _ => ⟨rfl, rfl⟩) _ (by decide)) exExactB rfl CRat.I
    (by decide +kernel) ?_ ?_ (le_refl 1)⟩
  · rw [exY_sem, exY_sem, one_smul]
  · rw [exY_sem, one_smul, embed1_conjTranspose, embed1_mul]
    have : exYᴴ * exY = 1 := by
      ext a b
      fin_cases a <;> fin_cases b <;> decide +kernel
    rw [this, embed1_one]

-- C04.33: the hypotheses of `checker_total` on pair A (one `update_mpo`, one SVD result)
example : (∃ ts, iterateMpo star 2 (1 / 2) exGateOf exGateOf 2 exC1 exC2 [exDec2 (exθ2 exGateOf exGateOf exC1 exC2)] = some ts ∧
      ts.length = 2) ∧
    ∃ b, checkerRun (1 / 2) exGateOf exGateOf 2 exC1 exC2 [exDec2 (exθ2 exGateOf exGateOf exC1 exC2)] (1 / 2) = some b := by
  have h := checker_total (1 / 2) exGateOf exGateOf 2 (by decide) exC1 exC2 [exDec2 (exθ2 exGateOf exGateOf exC1 exC2)] (1 / 2)
    (WF_of_wfb _ _ (by decide +kernel)) (WF_of_wfb _ _ (by decide +kernel)) (exNN _ (fun _ => ⟨rfl, rfl⟩) _ (by decide))
    (exNN _ (fun _ => ⟨rfl, rfl⟩) _ (by decide))
    (fun evs steps hit hst => by
      rw [show iterate 2 exC1 exC2 (exC1.length + exC2.length) = .done [Ev.zone 1 0 exC1, Ev.zone 2 0 exC2] by
        decide +kernel] at hit
      cases hit
      simp [stepsOf] at hst
      simp [← hst])
  exact ⟨h.1, h.2 exExactA⟩

end Yaqs.CheckerE2E

/-! ## Part E — long-range two-qubit gates and swaps at chain level (extension xl04)

  The property ends with "… and holds for circuits containing long-range two-qubit gates and swaps".  Part D stops at a long-range
  event (`stepsOf` returns `none`); this part puts `apply_long_range_layer` inside the chain-level model
  (`Model/CheckerChain.lean`: `lrMul`, `lrLayer`, `stepsOfLR`, `runStepsLR`, `iterateMpoLR`, `checkerRunLR`; helper lemmas in
  `Lemmas/CheckerLongRange.lean`) and extends C04.28 / C04.30 to circuits with two-qubit gates at **any distance, either
  orientation, in either circuit**.

  **How the code treats `swap`**: not decomposed — `GateLibrary.swap` is a gate object with its own `mpo_tensors`
  (`extend_gate` of the 4×4 swap matrix, operator-Schmidt rank 4) and at distance > 1 takes the same `apply_long_range_layer`
  path as every other two-qubit gate; at distance 1 it is an ordinary two-site tensor in a temporal zone (Part D).  That is
  what is modelled: nothing swap-specific.

  **What is composed, what is assumed** (each named in the statements):
  * *composed* — C04.34 `mpo_product_chain` (MPO of a product = bond-fused site-wise product), C04.21 (the code's einsums +
    reshapes ARE those site products, with the gate bond most significant on top / the MPO bond most significant below),
    C04.35 `long_range_stack` (state after the site-wise multiplication, before any SVD), C04.27 / `runSteps_represents` of Part D
    for the re-compression sweep of the layer (it IS a sequence of `update_mpo`-shaped steps on the stacked chain),
    C04.10 `iterate_result` for the order of the events.
  * *assumed, spec-tied on every `e2e-lr` run* — `GateMpoOK`: the tensors `gate_.mpo_tensors` form a chain whose operator is the
    gate's stored two-site tensor on the END sites of its span (discharged from "exact split + identity tensors in between"
    by C04.37, the statement of C18 `c18_mpo_identity_chain`; the split itself is LAPACK's SVD of the 4×4 gate);
    `ExactBlocks`: no `decompose_theta` of the run discards anything (as `ExactSteps` in Part D); exact arithmetic.
  * *symmetric gates* — the conjugated branch multiplies by `conj(G)`, not `Gᴴ` (C04.21b, C04.35): for a gate of the SECOND
    circuit the theorems need `SymLR`: the stored 4×4 matrix of every long-range gate is symmetric.  C04.38 proves it of every
    two-qubit gate of the library in both orientations (cx, cz, cp, swap, rxx, ryy, rzz).
  * *not covered here* — a totality statement for runs with long-range layers (the analogue of C04.33: that `iterateMpoLR` returns a
    tensor list whenever one SVD result per split and one gate MPO per layer are supplied; the non-vacuity examples below exhibit such
    runs, and C04.9 proves termination of the layer loop for all circuits); the accumulation of discarded weights over the splits when
    truncation does occur (as in Part D: C04.17 bounds each single split). -/
namespace Yaqs.CheckerLR
open Matrix Yaqs.MpoConv Yaqs.MpoUpdate Yaqs.Verdict Yaqs.CheckerChain Yaqs.CheckerE2E Yaqs.Embed
open scoped Kronecker

/-- **C04.34 (`mpo_product_chain`)** the MPO of a product is the bond-fused site-wise product: for two chains of `n` tensors,
    `to_matrix` of the chain of site products `mulSite Aₖ Bₖ` (`Aₖ` on top, its bond index the most significant digit of the
    fused bond — C04.21: what the einsums + reshapes of `apply_long_range_layer` compute) is
    `to_matrix(A) · to_matrix(B)` — every length, all bond dimensions; and the product chain is a well-formed chain again. -/
theorem mpo_product_chain {K : Type} [CommSemiring K] (d n : Nat) (As Bs : List (Site K)) (hA : As.length = n)
    (hB : GoodChain d n Bs) :
    chainMat d n (List.zipWith mulSite As Bs) = chainMat d n As * chainMat d n Bs ∧
    (GoodChain d n As → GoodChain d n (List.zipWith mulSite As Bs)) := by
  obtain ⟨hl, hc, hla, hd⟩ := hB
  constructor
  · ext σ σ'
    have key := valsE_mul d n As Bs hA hl hd 1 1 hc (cfg σ) (cfg σ') (by simp) (by simp) (fun _ => 1) (fun _ => 1) (fun _ => 1)
      (fun _ _ _ _ => by simp) 0 (by omega) 0 (by omega)
    simp only [Nat.zero_mul, Nat.zero_add, valsE_one] at key
    simp only [chainMat, Matrix.mul_apply]
    exact key
  · intro hg
    obtain ⟨c1, c2⟩ := chainFrom_zipWith mulSite (fun _ _ => rfl) (fun _ _ => rfl) As Bs 1 1 (by omega) hg.chain hc
    rw [Nat.one_mul] at c1 c2
    refine ⟨by simp [hA, hl], c1, by rw [c2, hg.last, hla], ?_⟩
    exact zipWith_dims mulSite d (fun _ _ => rfl) As Bs hd

private def exA : Site CRat := ⟨2, 1, 2, fun a b _ r => ⟨(a + r : Nat), (b : Nat)⟩⟩
private def exB : Site CRat := ⟨2, 2, 1, fun a b l _ => ⟨(a * b : Nat), (l : Nat)⟩⟩
private theorem exAB_good : GoodChain 2 2 [exA, exB] :=
  ⟨rfl, by decide, by decide, by intro t ht; simp at ht; rcases ht with rfl | rfl <;> rfl⟩

example : chainMat 2 2 (List.zipWith mulSite [exA, exB] [exA, exB]) = chainMat 2 2 [exA, exB] * chainMat 2 2 [exA, exB] ∧
    GoodChain 2 2 (List.zipWith mulSite [exA, exB] [exA, exB]) :=
  ⟨(mpo_product_chain 2 2 [exA, exB] [exA, exB] rfl exAB_good).1, (mpo_product_chain 2 2 [exA, exB] [exA, exB] rfl exAB_good).2 exAB_good⟩

/-- **C04.35 (`long_range_stack`: the chain after the site-wise multiplication, before any SVD)** let the gate-MPO tensors
    `gm` (a chain over `len ≥ 2` sites whose operator is `G` on its two end sites, identity in between) be stacked on the
    tensors at sites `loc … loc+len-1` of a well-formed chain exactly as the code's reshapes fuse the bonds.  Then the result is
    a well-formed chain again and
    * gate of the first circuit (`conjugate=False`, `lrMul false gm`):   `to_matrix(new) = embedLR(G) · to_matrix(O)`;
    * gate of the second circuit (`conjugate=True`, the tensors of `gate_mpo.rotate(conjugate=True)` stacked from below between
      two `mpo.rotate()`):   `to_matrix(new) = to_matrix(O) · embedLR(conj G)` — entry-wise conjugate, **not** the adjoint;
    * hence `to_matrix(O) · embedLR(G)ᴴ` whenever `G` is a symmetric matrix,
    where `embedLR(G)` = `embed2 d n loc (loc+len-1) G` puts the two-site operator on the end sites of the span, identity elsewhere. -/
theorem long_range_stack {K : Type} [CommSemiring K] [StarRing K] (d n : Nat) (gm pre ws post : List (Site K))
    (G : Matrix (Fin d × Fin d) (Fin d × Fin d) K) (hg : GoodChain d n (pre ++ (ws ++ post))) (h2 : 2 ≤ ws.length)
    (hgm : GoodChain d ws.length gm) (hG : chainMat d ws.length gm = embed2 d ws.length 0 (ws.length - 1) G) :
    (GoodChain d n (lrMul false gm pre.length (pre ++ (ws ++ post))) ∧
      chainMat d n (lrMul false gm pre.length (pre ++ (ws ++ post)))
        = embed2 d n pre.length (pre.length + (ws.length - 1)) G * chainMat d n (pre ++ (ws ++ post))) ∧
    (GoodChain d n (lrMul true (rotateMpo star gm) pre.length (pre ++ (ws ++ post))) ∧
      chainMat d n (lrMul true (rotateMpo star gm) pre.length (pre ++ (ws ++ post)))
        = chainMat d n (pre ++ (ws ++ post)) * embed2 d n pre.length (pre.length + (ws.length - 1)) (G.map star)) ∧
    (Gᵀ = G → chainMat d n (lrMul true (rotateMpo star gm) pre.length (pre ++ (ws ++ post)))
        = chainMat d n (pre ++ (ws ++ post)) * (embed2 d n pre.length (pre.length + (ws.length - 1)) G)ᴴ) := by
  have hfit : pre.length + ws.length ≤ n := by
    have := hg.len
    simp at this
    omega
  have e0 := embedL_seg_embed2 n pre.length ws.length 0 (ws.length - 1) hfit (by omega) (by omega) (by omega) G
  have e0' := embedL_seg_embed2 n pre.length ws.length 0 (ws.length - 1) hfit (by omega) (by omega) (by omega) (G.map star)
  rw [Nat.add_zero] at e0 e0'
  have hbot : chainMat d n (lrMul true (rotateMpo star gm) pre.length (pre ++ (ws ++ post)))
      = chainMat d n (pre ++ (ws ++ post)) * embed2 d n pre.length (pre.length + (ws.length - 1)) (G.map star) := by
    rw [lrMul_bottom d n _ gm pre ws post hgm hg rfl hfit, hG, embed2_map_star', e0']
  refine ⟨⟨goodChain_lrMul false d n _ gm pre ws post hgm hg rfl, ?_⟩,
    ⟨goodChain_lrMul true d n _ _ pre ws post (goodChain_rotate star d _ gm hgm) hg rfl, hbot⟩, ?_⟩
  · rw [lrMul_top d n _ gm pre ws post hgm hg rfl hfit, hG, e0]
  · intro hs
    rw [hbot, embed2_conjTranspose]
    congr 2
    conv_rhs => rw [← hs]
    rfl

/-- **C04.36 (`long_range_layer_chain`: one whole `apply_long_range_layer`, nothing discarded)** for a well-formed chain `O`, a
    long-range gate `g` of circuit `c` whose gate-MPO tensors represent it (`GateMpoOK`; symmetric stored matrix when
    `c = 2`), the pair updates `ss` of the layer inside the register and every split of the re-compression sweep untruncated:
    the new chain is well formed and `to_matrix(new)` is the event semantics of C04.10 applied to `to_matrix(O)` —

        c = 1:   (zone events of the sweep) ∘ ( embedLR(G) · to_matrix(O) )
        c = 2:   (zone events of the sweep) ∘ ( to_matrix(O) · embedLR(G)ᴴ )

    and when the sweep's temporal zones are empty, exactly `embedLR(G) · to_matrix(O)` resp. `to_matrix(O) · embedLR(G)ᴴ`
    (`embedLR(G)` = the gate's operator on the register, `sem`).  Proof: C04.35 for the stacking; the sweep is a `runSteps` on the
    stacked chain, so Part D's `runSteps_represents` (C04.27 per pair) applies verbatim — also to the hanging last site. -/
theorem long_range_layer_chain {K : Type} [CommSemiring K] [StarRing K] (d n : Nat) (thr : Rat) (gate1 gate2 : Instr → Gate K)
    (ts ts' : List (Site K)) (c : Nat) (g : Instr) (gm : List (Site K)) (ss : List Step) (decs : List (Svd K))
    (hg : GoodChain d n ts) (hb : BlkOK d n gate1 gate2 (.lr c g ss))
    (hgm : GateMpoOK d ((if c = 1 then gate1 else gate2) g) g gm)
    (hx : ExactSteps d thr gate1 gate2
      (lrMul (decide (c = 2)) (lrGateTensors star (decide (c = 2)) gm) (lrLoc g) ts) ss decs)
    (h : lrLayer star d thr gate1 gate2 ts c g gm ss decs = some ts') :
    GoodChain d n ts' ∧
    chainMat d n ts' = runEvs (sem d n gate1) (fun i => star (sem d n gate2 i)) (chainMat d n ts) (Blk.evs (.lr c g ss)) ∧
    ((∀ s ∈ ss, s.is1 = [] ∧ s.is2 = []) →
      (c = 1 → chainMat d n ts' = sem d n gate1 g * chainMat d n ts) ∧
      (c = 2 → chainMat d n ts' = chainMat d n ts * (sem d n gate2 g)ᴴ)) := by
  obtain ⟨h1, h2⟩ := lrLayer_represents d n thr gate1 gate2 ts ts' c g gm ss decs hg hb hgm hx h
  refine ⟨h1, h2, fun hempty => ?_⟩
  have hz : ∀ (X : Matrix (Fin n → Fin d) (Fin n → Fin d) K) (ss : List Step), (∀ s ∈ ss, s.is1 = [] ∧ s.is2 = []) →
      runEvs (sem d n gate1) (fun i => star (sem d n gate2 i)) X (ss.flatMap Step.evs) = X := by
    intro X ss
    induction ss generalizing X with
    | nil => intro _; rfl
    | cons s ss ih =>
      intro hs
      obtain ⟨e1, e2⟩ := hs s (by simp)
      have : runEvs (sem d n gate1) (fun i => star (sem d n gate2 i)) X (s.evs ++ ss.flatMap Step.evs)
          = runEvs (sem d n gate1) (fun i => star (sem d n gate2 i)) X (ss.flatMap Step.evs) := by
        simp [runEvs, Step.evs, applyEv, e1, e2, U]
      rw [List.flatMap_cons, this]
      exact ih X (fun s' hs' => hs s' (by simp [hs']))
  have e : runEvs (sem d n gate1) (fun i => star (sem d n gate2 i)) (chainMat d n ts) (Blk.evs (.lr c g ss))
      = runEvs (sem d n gate1) (fun i => star (sem d n gate2 i))
          (applyEv (sem d n gate1) (fun i => star (sem d n gate2 i)) (chainMat d n ts) (Ev.lr c g)) (ss.flatMap Step.evs) := rfl
  rw [e, hz _ ss hempty] at h2
  constructor
  · rintro rfl
    rw [h2]; simp [applyEv]
  · rintro rfl
    rw [h2]; simp [applyEv, star_eq_conjTranspose]

/-- **C04.37 (`gate_mpo_is_gate_on_ends`: the gate-MPO hypothesis from an exact split)** the statement of C18
    `c18_mpo_identity_chain` in the chain vocabulary: end tensors `A` (left bond 1), `B` (right bond 1) with
    `Σ_{x<χ} A[a,c,0,x] · B[b,e,x,0] = gate.tensor[a,b,c,e]` and `k` identity tensors of bond dimension `χ` in between (what
    `extend_gate` builds — in stored order, i.e. for either orientation: the reversal + bond swap of `sites[1] < sites[0]` maps
    identity tensors to identity tensors) are a well-formed chain over `k + 2` sites whose operator is the gate on the two END
    sites and the identity in between; for an instruction at that distance this is `GateMpoOK`. -/
theorem gate_mpo_is_gate_on_ends {K : Type} [CommSemiring K] (d chi k : Nat) (A B : Site K) (g : Gate K) (i : Instr)
    (hA : A.dl = 1 ∧ A.dr = chi ∧ A.d = d) (hB : B.dl = chi ∧ B.dr = 1 ∧ B.d = d)
    (hsplit : ∀ a, a < d → ∀ b, b < d → ∀ c, c < d → ∀ e, e < d →
      sumTo chi (fun x => A.e a c 0 x * B.e b e x 0) = g.ten a b c e)
    (hdist : dist i.qs = k + 2) :
    chainMat d (k + 2) (A :: (List.replicate k (idBond d chi) ++ [B])) = embed2 d (k + 2) 0 (k + 1) (gateMat2 d g.ten) ∧
    GateMpoOK d g i (A :: (List.replicate k (idBond d chi) ++ [B])) := by
  obtain ⟨h1, h2⟩ := gate_chain_embed d chi k A B g.ten hA hB hsplit
  refine ⟨h2, ?_⟩
  unfold GateMpoOK
  rw [hdist]
  exact ⟨h1, h2⟩

/-- **C04.38 (`library_two_qubit_gates_symmetric`)** every two-qubit gate of the library — cx, cz, cp, swap, rxx, ryy, rzz, for every
    value of the parameters and in both orientations (`gate.tensor` as `set_sites` stores it, C18 `G2.tensor`) — is a
    symmetric 4×4 matrix: `tensor[a,b,c,e] = tensor[c,e,a,b]`.  So `conj(G) = Gᴴ` and the conjugated long-range branch
    (C04.21b, C04.35) applies `Gᴴ` for every gate the checker accepts; in particular `SymLR` holds for library circuits. -/
theorem library_two_qubit_gates_symmetric {K : Type} [CommRing K] (g : Gates.G2) (i c s : K) (rev : Bool) :
    (∀ a b c' e : Fin 2, Gates.G2.tensor g i c s rev a b c' e = Gates.G2.tensor g i c s rev c' e a b) ∧
    ∀ ten : T4 K, (∀ a b c' e : Fin 2, ten a b c' e = Gates.G2.tensor g i c s rev a b c' e) →
      (gateMat2 2 ten)ᵀ = gateMat2 2 ten := by
  have key : ∀ a b c' e : Fin 2, Gates.G2.tensor g i c s rev a b c' e = Gates.G2.tensor g i c s rev c' e a b := by
    intro a b c' e
    cases g <;> cases rev <;> fin_cases a <;> fin_cases b <;> fin_cases c' <;> fin_cases e <;>
      simp [Gates.G2.tensor, Gates.G2.matrix, Gates.G2.transposesOnReverse, Gates.tensorOf, Gates.transpose1032, Gates.pair,
        Gates.cx, Gates.cz, Gates.cp, Gates.swap, Gates.rxx, Gates.ryy, Gates.rzz, Gates.m4, Gates.v4]
  refine ⟨key, fun ten hten => ?_⟩
  ext x y
  simp only [Matrix.transpose_apply, gateMat2]
  rw [hten, hten, key]

example : (Gates.G2.tensor Gates.G2.ryy CRat.I (⟨3 / 5, 0⟩ : CRat) ⟨4 / 5, 0⟩ true 0 0 1 1
    = Gates.G2.tensor Gates.G2.ryy CRat.I (⟨3 / 5, 0⟩ : CRat) ⟨4 / 5, 0⟩ true 1 1 0 0) ∧
    Gates.G2.tensor Gates.G2.ryy CRat.I (⟨3 / 5, 0⟩ : CRat) ⟨4 / 5, 0⟩ true 0 0 1 1 = ⟨0, 4 / 5⟩ :=
  ⟨(library_two_qubit_gates_symmetric Gates.G2.ryy CRat.I ⟨3 / 5, 0⟩ ⟨4 / 5, 0⟩ true).1 0 0 1 1, by decide +kernel⟩

/-- **C04.39 (`lr_event_list_is_blocks`)** for circuits of one-qubit gates and two-qubit gates on distinct qubits at ANY distance
    inside the register, the event list of `iterate` is a sequence of blocks — `update_mpo` calls and long-range layers
    `g<c>:<id>` followed by the pair updates at `lrPairs location distance` — which `stepsOfLR` recovers; every pair is inside
    the register and consumes only gates of its own two sites (C04.13: no assertion of `apply_gate` fires), and the gate of a
    layer is a two-qubit gate of the circuit the layer takes it from. -/
theorem lr_event_list_is_blocks {K : Type} [CommSemiring K] (d n : Nat) (gate1 gate2 : Instr → Gate K) (c1 c2 : Dag)
    (fuel : Nat) (evs : List Ev) (h1 : LRCircuit n c1 gate1) (h2 : LRCircuit n c2 gate2) (hs : SymLR d c2 gate2)
    (h : iterate n c1 c2 fuel = .done evs) :
    2 ≤ n ∧ ∃ bs : List Blk, stepsOfLR evs.length evs = some bs ∧ evs = bs.flatMap Blk.evs ∧
      ∀ b ∈ bs, BlkOK d n gate1 gate2 b :=
  iterate_blocks_ok d n gate1 gate2 c1 c2 fuel evs h1 h2 hs h

/-- **C04.40 (`iterate_represents_product_lr`)** C04.28 for circuits **containing long-range two-qubit gates and swaps** (any
    distance, either orientation, in either circuit): with the gate-MPO tensors of every long-range layer representing their
    gate (`GateMposOK`), the long-range gates of the second circuit symmetric (`SymLR`; C04.38: every library gate) and no
    split of the run truncating (`ExactBlocks`), the tensor list `iterate` leaves behind — started from `mpo.identity(n)` — is
    a well-formed chain of `n` tensors with

        to_matrix(final chain) = U₁ · 1 · U₂ᴴ .

    Proof: induction over the blocks (`runStepsLR_represents`: C04.27 per `update_mpo`, C04.36 per long-range layer) gives
    `runEvs sem₁ (star ∘ sem₂) 1 evs`; C04.10 `iterate_result` (all circuits) with C04.25 turns it into the product in program
    order. -/
theorem iterate_represents_product_lr {K : Type} [CommSemiring K] [StarRing K] (d n : Nat) (thr : Rat)
    (gate1 gate2 : Instr → Gate K) (c1 c2 : Dag) (gms : List (List (Site K))) (decs : List (Svd K)) (ts : List (Site K))
    (h1 : LRCircuit n c1 gate1) (h2 : LRCircuit n c2 gate2) (hs : SymLR d c2 gate2)
    (hm : ∀ evs bs, iterate n c1 c2 (c1.length + c2.length) = .done evs → stepsOfLR evs.length evs = some bs →
      GateMposOK d gate1 gate2 bs gms)
    (hx : ∀ evs bs, iterate n c1 c2 (c1.length + c2.length) = .done evs → stepsOfLR evs.length evs = some bs →
      ExactBlocks d thr gate1 gate2 (identityMpo n d) bs gms decs)
    (h : iterateMpoLR star d thr gate1 gate2 n c1 c2 gms decs = some ts) :
    GoodChain d n ts ∧ 2 ≤ n ∧
    chainMat d n ts = U (sem d n gate1) c1 * 1 * star (U (sem d n gate2) c2) ∧
    chainMat d n ts = U (sem d n gate1) c1 * (U (sem d n gate2) c2)ᴴ := by
  obtain ⟨evs, hit, hn, hg, hmat⟩ := iterateMpoLR_runEvs d n thr gate1 gate2 c1 c2 gms decs ts h1 h2 hs hm hx h
  have hr := iterate_result (sem d n gate1) (sem d n gate2) (fun a b hab => sem_commute d n gate1 a b hab)
    (fun a b hab => sem_commute d n gate2 a b hab) n c1 c2 _ evs hit 1
  rw [hr] at hmat
  exact ⟨hg, hn, hmat, by rw [hmat, mul_one, star_eq_conjTranspose]⟩

/-- **C04.41 (`checker_correct_lr`)** hence, for circuits with long-range gates and swaps and untruncated splits,
    `equivalence_checker.run(c1, c2, thr, f)["equivalent"]` is the decision of `check_if_identity` on `tr(U₁ᴴ U₂)`:
    **equivalent ⇔ f ≤ |tr(U₁ᴴ U₂)| / 2ⁿ** (exactly over ℚ(i) in squared form; as `verdict t n f` of Part A whenever the modulus
    is rational) — C04.30 without the nearest-neighbour restriction. -/
theorem checker_correct_lr (thr : Rat) (gate1 gate2 : Instr → Gate CRat) (n : Nat) (c1 c2 : Dag)
    (gms : List (List (Site CRat))) (decs : List (Svd CRat)) (f : Rat) (b : Bool)
    (h1 : LRCircuit n c1 gate1) (h2 : LRCircuit n c2 gate2) (hs : SymLR 2 c2 gate2)
    (hm : ∀ evs bs, iterate n c1 c2 (c1.length + c2.length) = .done evs → stepsOfLR evs.length evs = some bs →
      GateMposOK 2 gate1 gate2 bs gms)
    (hx : ∀ evs bs, iterate n c1 c2 (c1.length + c2.length) = .done evs → stepsOfLR evs.length evs = some bs →
      ExactBlocks 2 thr gate1 gate2 (identityMpo n 2) bs gms decs)
    (h : checkerRunLR thr gate1 gate2 n c1 c2 gms decs f = some b) :
    b = identityDecision (trace ((U (sem 2 n gate1) c1)ᴴ * U (sem 2 n gate2) c2)) n f ∧
    (b = true ↔ ¬ (0 < f ∧ CRat.normSq (trace ((U (sem 2 n gate1) c1)ᴴ * U (sem 2 n gate2) c2))
        < (f * (2 : Rat) ^ n) * (f * (2 : Rat) ^ n))) ∧
    ∀ t : Rat, 0 ≤ t → t * t = CRat.normSq (trace ((U (sem 2 n gate1) c1)ᴴ * U (sem 2 n gate2) c2)) →
      b = verdict t n f ∧ (b = true ↔ f ≤ t / (2 : Rat) ^ n) := by
  obtain ⟨ts, hts, hdec⟩ := checkerRunLR_decision thr gate1 gate2 n c1 c2 gms decs f b h
  obtain ⟨hg, hn, _, hmat⟩ := iterate_represents_product_lr 2 n thr gate1 gate2 c1 c2 gms decs ts h1 h2 hs hm hx hts
  have hb := hdec hg (by omega)
  have htr : star (trace (chainMat 2 n ts)) = trace ((U (sem 2 n gate1) c1)ᴴ * U (sem 2 n gate2) c2) := by
    rw [hmat, ← trace_conjTranspose, conjTranspose_mul, conjTranspose_conjTranspose, trace_mul_comm]
  rw [htr] at hb
  refine ⟨hb, ?_, fun t ht hsq => ?_⟩
  · rw [hb]
    unfold identityDecision
    simp only [Bool.not_eq_true', Bool.and_eq_false_iff, decide_eq_false_iff_not, not_and_or]
  · have := MpoUpdate.check_if_identity_decision _ n f t ht hsq
    rw [← hb] at this
    exact this

/-- **C04.42 (`checker_equal_up_to_phase_lr`)** circuits with long-range gates and swaps whose operators are equal up to a global
    phase (`U₁ = c · U₂`, `|c| = 1`, `U₂` unitary) are reported equivalent for every requested fidelity `f ≤ 1`. -/
theorem checker_equal_up_to_phase_lr (thr : Rat) (gate1 gate2 : Instr → Gate CRat) (n : Nat) (c1 c2 : Dag)
    (gms : List (List (Site CRat))) (decs : List (Svd CRat)) (f : Rat) (b : Bool)
    (h1 : LRCircuit n c1 gate1) (h2 : LRCircuit n c2 gate2) (hs : SymLR 2 c2 gate2)
    (hm : ∀ evs bs, iterate n c1 c2 (c1.length + c2.length) = .done evs → stepsOfLR evs.length evs = some bs →
      GateMposOK 2 gate1 gate2 bs gms)
    (hx : ∀ evs bs, iterate n c1 c2 (c1.length + c2.length) = .done evs → stepsOfLR evs.length evs = some bs →
      ExactBlocks 2 thr gate1 gate2 (identityMpo n 2) bs gms decs)
    (h : checkerRunLR thr gate1 gate2 n c1 c2 gms decs f = some b)
    (c : CRat) (hc : CRat.normSq c = 1) (hU : U (sem 2 n gate1) c1 = c • U (sem 2 n gate2) c2)
    (hunit : (U (sem 2 n gate2) c2)ᴴ * U (sem 2 n gate2) c2 = 1) (hf : f ≤ 1) : b = true := by
  obtain ⟨_, _, hv⟩ := checker_correct_lr thr gate1 gate2 n c1 c2 gms decs f b h1 h2 hs hm hx h
  have htr : trace ((U (sem 2 n gate1) c1)ᴴ * U (sem 2 n gate2) c2) = star c * ((2 ^ n : Nat) : CRat) := by
    rw [hU, conjTranspose_smul, Matrix.smul_mul, hunit, trace_smul, trace_one_cfg, smul_eq_mul]
  have hsq : ((2 : Rat) ^ n) * ((2 : Rat) ^ n)
      = CRat.normSq (trace ((U (sem 2 n gate1) c1)ᴴ * U (sem 2 n gate2) c2)) := by
    rw [htr, CRat.normSq_mul, CRat.normSq_star, hc, one_mul, CRat.normSq_natCast]
    push_cast
    ring
  obtain ⟨hb, _⟩ := hv ((2 : Rat) ^ n) (by positivity) hsq
  rw [hb]
  exact verdict_equal_circuits _ n f rfl hf

/-- **C04.43 (`checker_swap_lr`)** the verdict is the same with the two circuits swapped, long-range gates and swaps included
    (now the long-range gates of BOTH circuits must be symmetric, since each circuit is the second one in one of the runs). -/
theorem checker_swap_lr (thr thr' : Rat) (gate1 gate2 : Instr → Gate CRat) (n : Nat) (c1 c2 : Dag)
    (gms gms' : List (List (Site CRat))) (decs decs' : List (Svd CRat)) (f : Rat) (b b' : Bool)
    (h1 : LRCircuit n c1 gate1) (h2 : LRCircuit n c2 gate2) (hs1 : SymLR 2 c1 gate1) (hs2 : SymLR 2 c2 gate2)
    (hm : ∀ evs bs, iterate n c1 c2 (c1.length + c2.length) = .done evs → stepsOfLR evs.length evs = some bs →
      GateMposOK 2 gate1 gate2 bs gms)
    (hx : ∀ evs bs, iterate n c1 c2 (c1.length + c2.length) = .done evs → stepsOfLR evs.length evs = some bs →
      ExactBlocks 2 thr gate1 gate2 (identityMpo n 2) bs gms decs)
    (hm' : ∀ evs bs, iterate n c2 c1 (c2.length + c1.length) = .done evs → stepsOfLR evs.length evs = some bs →
      GateMposOK 2 gate2 gate1 bs gms')
    (hx' : ∀ evs bs, iterate n c2 c1 (c2.length + c1.length) = .done evs → stepsOfLR evs.length evs = some bs →
      ExactBlocks 2 thr' gate2 gate1 (identityMpo n 2) bs gms' decs')
    (h : checkerRunLR thr gate1 gate2 n c1 c2 gms decs f = some b)
    (h' : checkerRunLR thr' gate2 gate1 n c2 c1 gms' decs' f = some b') : b = b' := by
  obtain ⟨hb, _, _⟩ := checker_correct_lr thr gate1 gate2 n c1 c2 gms decs f b h1 h2 hs2 hm hx h
  obtain ⟨hb', _, _⟩ := checker_correct_lr thr' gate2 gate1 n c2 c1 gms' decs' f b' h2 h1 hs1 hm' hx' h'
  rw [hb, hb', overlap_conj (U (sem 2 n gate1) c1) (U (sem 2 n gate2) c2), identityDecision_star]

/-! ### non-vacuity of C04.35 – C04.43: concrete runs with a long-range gate over ℚ(i), three qubits

  pair A: circuit 1 = CZ on qubits (2, 0) — distance 3, reversed orientation — and a one-qubit gate on qubit 1; circuit 2 = a
  one-qubit gate on qubit 1 (the one-qubit matrix is neither real nor symmetric nor unitary).  Run (A): one long-range layer from
  circuit 1 (pair updates at (0,1) and at the hanging site (1,2)); run (A'), the swapped call: the layer comes from circuit 2
  (conjugated branch).  The gate MPO of CZ is the exact split `P₀ ⊗ 1 + P₁ ⊗ Z` (bond 2) with one identity tensor in between.
  pair C: `i·Z⊗Z` on (2, 0) against `Z⊗Z` on (2, 0) (equal up to the phase `i`; bond-1 gate MPOs): one layer from each circuit.
  The "SVDs" are exact factorisations `1·1·M`, `M·1·1` (all values kept) resp. the rank-one factorisation of pair C. -/
private def czT : T4 CRat := fun a b c e => if a = c ∧ b = e then (if a = 1 ∧ b = 1 then -1 else 1) else 0
private def exM1 : Nat → Nat → CRat := fun i j => ⟨(i : Nat), (2 * j + 1 : Nat)⟩
private def lrGateOf (i : Instr) : Gate CRat := ⟨false, i.qs.length, i.qs, exM1, czT⟩
private def czA : Site CRat := ⟨2, 1, 2, fun a c _ x => if a = c ∧ a = x then 1 else 0⟩
private def czB : Site CRat := ⟨2, 2, 1, fun b e x _ => if b = e then (if x = 1 ∧ b = 1 then -1 else 1) else 0⟩
private def czMpo : List (Site CRat) := czA :: (List.replicate 1 (idBond 2 2) ++ [czB])

private def blockOf (g1 g2 : Instr → Gate CRat) (ts : List (Site CRat)) (s : Step) : T6 CRat :=
  match ts[s.m]?, ts[s.m + 1]? with
  | some A, some B => (updateTheta star 2 s.m A B (s.is1.map g1) (s.is2.map g2)).getD fun _ _ _ _ _ _ => 0
  | _, _ => fun _ _ _ _ _ _ => 0
private def dlOf (ts : List (Site CRat)) (m : Nat) : Nat := match ts[m]? with | some A => A.dl | none => 0
private def drOf (ts : List (Site CRat)) (m : Nat) : Nat := match ts[m]? with | some A => A.dr | none => 0
private def delta : Nat → Nat → CRat := fun i j => if i = j then 1 else 0
private def blockMat (g1 g2 : Instr → Gate CRat) (ts : List (Site CRat)) (s : Step) : Nat → Nat → CRat :=
  thetaMatrix 2 (dlOf ts s.m) (drOf ts (s.m + 1)) (blockOf g1 g2 ts s)
/-- exact "SVD" `1 · 1 · M` of a block with no more rows than columns -/
private def wideDec (g1 g2 : Instr → Gate CRat) (ts : List (Site CRat)) (s : Step) : Svd CRat :=
  ⟨delta, List.replicate (4 * dlOf ts s.m) 1, fun _ => 1, blockMat g1 g2 ts s⟩
/-- exact "SVD" `M · 1 · 1` of a block with no more columns than rows -/
private def tallDec (g1 g2 : Instr → Gate CRat) (ts : List (Site CRat)) (s : Step) : Svd CRat :=
  ⟨blockMat g1 g2 ts s, List.replicate (4 * drOf ts (s.m + 1)) 1, fun _ => 1, delta⟩
/-- exact rank-one factorisation `(M[:,0] / M[0,0]) · 1 · M[0,:]` of a rank-one block whose corner entry has modulus 1 -/
private def rankOneDec (g1 g2 : Instr → Gate CRat) (ts : List (Site CRat)) (s : Step) : Svd CRat :=
  ⟨fun i _ => blockMat g1 g2 ts s i 0 * star (blockMat g1 g2 ts s 0 0), [1], fun _ => 1, fun _ j => blockMat g1 g2 ts s 0 j⟩
private def stepTo (g1 g2 : Instr → Gate CRat) (ts : List (Site CRat)) (s : Step) (dec : Svd CRat) : List (Site CRat) :=
  (updateMpo star 2 (1 / 2) g1 g2 ts s dec).getD []

private theorem czSym : (gateMat2 2 czT)ᵀ = gateMat2 2 czT := by
  ext x y
  simp only [Matrix.transpose_apply, gateMat2]
  revert x y
  decide +kernel
private theorem czSplit : ∀ a, a < 2 → ∀ b, b < 2 → ∀ c, c < 2 → ∀ e, e < 2 →
    sumTo 2 (fun x => czA.e a c 0 x * czB.e b e x 0) = czT a b c e := by decide +kernel
private theorem lrCirc (g : Instr → Gate CRat) (hg : ∀ i, (g i).sites = i.qs ∧ (g i).interaction = i.qs.length ∧ (g i).isId = false)
    (c : Dag) (h : ∀ i ∈ c, (i.qs.length = 1 ∨ i.qs.length = 2) ∧ i.qs.Nodup ∧ (∀ q ∈ i.qs, q < 3)) :
    LRCircuit 3 c g := fun i hi => ⟨(h i hi).1, (h i hi).2.1, (h i hi).2.2, (hg i).1, (hg i).2.1, fun _ => (hg i).2.2⟩
private theorem lrSym (c : Dag) : SymLR 2 c lrGateOf := fun _ _ _ => czSym
private theorem czMpoOK (g : Instr) (h : dist g.qs = 1 + 2) : GateMpoOK 2 (lrGateOf g) g czMpo :=
  (gate_mpo_is_gate_on_ends 2 2 1 czA czB (lrGateOf g) g ⟨rfl, rfl, rfl⟩ ⟨rfl, rfl, rfl⟩ czSplit h).2

-- pair A, run (A): the layer comes from circuit 1
private def cA1 : Dag := mkDag [[2, 0], [1]]
private def cA2 : Dag := mkDag [[1]]
private def gA : Instr := ⟨0, [2, 0]⟩
private def sA1 : Step := ⟨0, [⟨1, [1]⟩], [⟨0, [1]⟩]⟩
private def sA2 : Step := ⟨1, [], []⟩
private def bsA : List Blk := [Blk.lr 1 gA [sA1, sA2]]
private def tsA0 : List (Site CRat) := lrMul false czMpo 0 (identityMpo 3 2)
private def tsA1 : List (Site CRat) := stepTo lrGateOf lrGateOf tsA0 sA1 (wideDec lrGateOf lrGateOf tsA0 sA1)
private def decsA : List (Svd CRat) := [wideDec lrGateOf lrGateOf tsA0 sA1, tallDec lrGateOf lrGateOf tsA1 sA2]
private theorem evA : iterate 3 cA1 cA2 (cA1.length + cA2.length) = .done (bsA.flatMap Blk.evs) := by decide +kernel
private theorem stA : stepsOfLR (bsA.flatMap Blk.evs).length (bsA.flatMap Blk.evs) = some bsA := by decide +kernel
set_option maxRecDepth 4000 in
private theorem exA_exact : exactBlocksBool 2 (1 / 2) lrGateOf lrGateOf (identityMpo 3 2) bsA [czMpo] decsA = true := by decide +kernel
-- run (A'): the swapped call, the layer comes from circuit 2 (conjugated branch)
private def sA1' : Step := ⟨0, [⟨0, [1]⟩], [⟨1, [1]⟩]⟩
private def bsA' : List Blk := [Blk.lr 2 gA [sA1', sA2]]
private def tsA0' : List (Site CRat) := lrMul true (rotateMpo star czMpo) 0 (identityMpo 3 2)
private def tsA1' : List (Site CRat) := stepTo lrGateOf lrGateOf tsA0' sA1' (wideDec lrGateOf lrGateOf tsA0' sA1')
private def decsA' : List (Svd CRat) := [wideDec lrGateOf lrGateOf tsA0' sA1', tallDec lrGateOf lrGateOf tsA1' sA2]
private theorem evA' : iterate 3 cA2 cA1 (cA2.length + cA1.length) = .done (bsA'.flatMap Blk.evs) := by decide +kernel
private theorem stA' : stepsOfLR (bsA'.flatMap Blk.evs).length (bsA'.flatMap Blk.evs) = some bsA' := by decide +kernel
set_option maxRecDepth 4000 in
private theorem exA'_exact : exactBlocksBool 2 (1 / 2) lrGateOf lrGateOf (identityMpo 3 2) bsA' [czMpo] decsA' = true := by decide +kernel

/-- the hypotheses `hm`, `hx` of C04.40 – C04.43 for a three-qubit run -/
private abbrev ExHyp (g1 g2 : Instr → Gate CRat) (c1 c2 : Dag) (gms : List (List (Site CRat))) (decs : List (Svd CRat)) : Prop :=
  (∀ evs bs', iterate 3 c1 c2 (c1.length + c2.length) = .done evs → stepsOfLR evs.length evs = some bs' →
    GateMposOK 2 g1 g2 bs' gms) ∧
  (∀ evs bs', iterate 3 c1 c2 (c1.length + c2.length) = .done evs → stepsOfLR evs.length evs = some bs' →
    ExactBlocks 2 (1 / 2) g1 g2 (identityMpo 3 2) bs' gms decs)

private theorem exHyps (g1 g2 : Instr → Gate CRat) (c1 c2 : Dag) (bs : List Blk) (gms : List (List (Site CRat))) (decs : List (Svd CRat))
    (ev : iterate 3 c1 c2 (c1.length + c2.length) = .done (bs.flatMap Blk.evs))
    (st : stepsOfLR (bs.flatMap Blk.evs).length (bs.flatMap Blk.evs) = some bs)
    (hm : GateMposOK 2 g1 g2 bs gms) (hx : exactBlocksBool 2 (1 / 2) g1 g2 (identityMpo 3 2) bs gms decs = true) :
    ExHyp g1 g2 c1 c2 gms decs := by
  constructor <;> intro evs bs' hit hst <;> rw [ev] at hit <;> cases hit <;> rw [st] at hst <;> cases hst
  · exact hm
  · exact exactBlocks_of_bool 2 (1 / 2) g1 g2 bs gms decs _ hx

private theorem lrGateOf_ok : ∀ i, (lrGateOf i).sites = i.qs ∧ (lrGateOf i).interaction = i.qs.length ∧ (lrGateOf i).isId = false :=
  fun _ => ⟨rfl, rfl, rfl⟩
private theorem hA : ExHyp lrGateOf lrGateOf cA1 cA2 [czMpo] decsA := exHyps lrGateOf lrGateOf cA1 cA2 bsA [czMpo] decsA evA stA ⟨czMpoOK gA rfl, trivial⟩ exA_exact
private theorem hA' : ExHyp lrGateOf lrGateOf cA2 cA1 [czMpo] decsA' := exHyps lrGateOf lrGateOf cA2 cA1 bsA' [czMpo] decsA' evA' stA' ⟨czMpoOK gA rfl, trivial⟩ exA'_exact
private theorem cA1_ok : LRCircuit 3 cA1 lrGateOf := lrCirc _ lrGateOf_ok _ (by decide)
private theorem cA2_ok : LRCircuit 3 cA2 lrGateOf := lrCirc _ lrGateOf_ok _ (by decide)

-- C04.37: the exact split `P₀ ⊗ 1 + P₁ ⊗ Z` of CZ with one identity tensor in between is the gate on the end sites of three sites
example : chainMat 2 3 czMpo = embed2 2 3 0 2 (gateMat2 2 czT) ∧ GateMpoOK 2 (lrGateOf gA) gA czMpo :=
  gate_mpo_is_gate_on_ends 2 2 1 czA czB (lrGateOf gA) gA ⟨rfl, rfl, rfl⟩ ⟨rfl, rfl, rfl⟩ czSplit rfl

-- C04.35: the CZ gate MPO stacked on the identity chain, both branches
example : chainMat 2 3 (lrMul false czMpo 0 (identityMpo 3 2)) = embed2 2 3 0 2 (gateMat2 2 czT) * chainMat 2 3 (identityMpo 3 2) ∧
    chainMat 2 3 (lrMul true (rotateMpo star czMpo) 0 (identityMpo 3 2))
      = chainMat 2 3 (identityMpo 3 2) * (embed2 2 3 0 2 (gateMat2 2 czT))ᴴ := by
  have h := long_range_stack 2 3 czMpo [] (identityMpo 3 2) [] (gateMat2 2 czT) (goodChain_identity 2 3) (by decide)
    (czMpoOK gA rfl).1 (czMpoOK gA rfl).2
  exact ⟨h.1.2, h.2.2 czSym⟩

-- C04.39: the block structure of run (A)
example : ∃ bs : List Blk, stepsOfLR (bsA.flatMap Blk.evs).length (bsA.flatMap Blk.evs) = some bs ∧
    bsA.flatMap Blk.evs = bs.flatMap Blk.evs ∧ ∀ b ∈ bs, BlkOK 2 3 lrGateOf lrGateOf b :=
  (lr_event_list_is_blocks 2 3 lrGateOf lrGateOf cA1 cA2 _ _ cA1_ok cA2_ok (lrSym _) evA).2

-- C04.36: the long-range layer of run (A) — the new chain is (one-qubit gates of the zone) ∘ (CZ₀₂ · 1)
set_option maxRecDepth 4000 in
example : ∃ ts', lrLayer star 2 (1 / 2) lrGateOf lrGateOf (identityMpo 3 2) 1 gA czMpo [sA1, sA2] decsA = some ts' ∧
    chainMat 2 3 ts' = runEvs (sem 2 3 lrGateOf) (fun i => star (sem 2 3 lrGateOf i)) (chainMat 2 3 (identityMpo 3 2))
      (Blk.evs (.lr 1 gA [sA1, sA2])) := by
  obtain ⟨bs, hst, _, hok⟩ := (lr_event_list_is_blocks 2 3 lrGateOf lrGateOf cA1 cA2 _ _ cA1_ok cA2_ok (lrSym _) evA).2
  rw [stA] at hst
  cases hst
  have hx := (hA.2 _ _ evA stA).1
  exact ⟨_, rfl, (long_range_layer_chain 2 3 (1 / 2) lrGateOf lrGateOf (identityMpo 3 2) _ 1 gA czMpo [sA1, sA2] decsA
    (goodChain_identity 2 3) (hok _ (by simp [bsA])) (czMpoOK gA rfl) hx rfl).2.1⟩

-- C04.40: run (A) exists and its chain is U₁ · U₂ᴴ
set_option maxRecDepth 4000 in
example : ∃ ts, iterateMpoLR star 2 (1 / 2) lrGateOf lrGateOf 3 cA1 cA2 [czMpo] decsA = some ts ∧
    chainMat 2 3 ts = U (sem 2 3 lrGateOf) cA1 * (U (sem 2 3 lrGateOf) cA2)ᴴ :=
  ⟨_, rfl, (iterate_represents_product_lr 2 3 (1 / 2) lrGateOf lrGateOf cA1 cA2 [czMpo] decsA _ cA1_ok cA2_ok (lrSym _)
    hA.1 hA.2 rfl).2.2.2⟩

-- C04.41: the verdict of run (A)
set_option maxRecDepth 4000 in
example : ∃ b, checkerRunLR (1 / 2) lrGateOf lrGateOf 3 cA1 cA2 [czMpo] decsA (1 / 2) = some b ∧
    b = identityDecision (trace ((U (sem 2 3 lrGateOf) cA1)ᴴ * U (sem 2 3 lrGateOf) cA2)) 3 (1 / 2) :=
  ⟨_, rfl, (checker_correct_lr (1 / 2) lrGateOf lrGateOf 3 cA1 cA2 [czMpo] decsA (1 / 2) _ cA1_ok cA2_ok (lrSym _)
    hA.1 hA.2 rfl).1⟩

-- C04.43: both argument orders (in the swapped call the long-range gate is applied through the conjugated branch)
set_option maxRecDepth 4000 in
example : ∃ b b', checkerRunLR (1 / 2) lrGateOf lrGateOf 3 cA1 cA2 [czMpo] decsA (1 / 2) = some b ∧
    checkerRunLR (1 / 2) lrGateOf lrGateOf 3 cA2 cA1 [czMpo] decsA' (1 / 2) = some b' ∧ b = b' :=
  ⟨_, _, rfl, rfl, checker_swap_lr (1 / 2) (1 / 2) lrGateOf lrGateOf 3 cA1 cA2 [czMpo] [czMpo] decsA decsA' (1 / 2) _ _
    cA1_ok cA2_ok (lrSym _) (lrSym _) hA.1 hA.2 hA'.1 hA'.2 rfl rfl⟩


-- pair C: `i·Z⊗Z` on (2, 0) against `Z⊗Z` on (2, 0)
private def sgn (x : Nat) : CRat := if x = 1 then -1 else 1
private def zzT (c : CRat) : T4 CRat := fun a b c' e => if a = c' ∧ b = e then c * sgn a * sgn b else 0
private def zzGate (c : CRat) (i : Instr) : Gate CRat := ⟨false, i.qs.length, i.qs, fun _ _ => 0, zzT c⟩
private def zzA (c : CRat) : Site CRat := ⟨2, 1, 1, fun a c' _ _ => if a = c' then c * sgn a else 0⟩
private def zzB : Site CRat := ⟨2, 1, 1, fun b e _ _ => if b = e then sgn b else 0⟩
private def zzMpo (c : CRat) : List (Site CRat) := zzA c :: (List.replicate 1 (idBond 2 1) ++ [zzB])
private def cC : Dag := mkDag [[2, 0]]
private def s0 : Step := ⟨0, [], []⟩
private def s1 : Step := ⟨1, [], []⟩
private def bsC : List Blk := [Blk.lr 1 gA [s0, s1], Blk.lr 2 gA [s0, s1]]
private abbrev gI := zzGate CRat.I
private abbrev g1' := zzGate 1
private def tC0 : List (Site CRat) := lrMul false (zzMpo CRat.I) 0 (identityMpo 3 2)
private def tC1 := stepTo gI g1' tC0 s0 (rankOneDec gI g1' tC0 s0)
private def tC2 := stepTo gI g1' tC1 s1 (rankOneDec gI g1' tC1 s1)
private def tC3 : List (Site CRat) := lrMul true (rotateMpo star (zzMpo 1)) 0 tC2
private def tC4 := stepTo gI g1' tC3 s0 (rankOneDec gI g1' tC3 s0)
private def decsC : List (Svd CRat) :=
  [rankOneDec gI g1' tC0 s0, rankOneDec gI g1' tC1 s1, rankOneDec gI g1' tC3 s0, rankOneDec gI g1' tC4 s1]
private theorem evC : iterate 3 cC cC (cC.length + cC.length) = .done (bsC.flatMap Blk.evs) := by decide +kernel
private theorem stC : stepsOfLR (bsC.flatMap Blk.evs).length (bsC.flatMap Blk.evs) = some bsC := by decide +kernel
set_option maxRecDepth 4000 in
private theorem exC_exact : exactBlocksBool 2 (1 / 2) gI g1' (identityMpo 3 2) bsC [zzMpo CRat.I, zzMpo 1] decsC = true := by
  decide +kernel
private theorem zzSplit (c : CRat) : ∀ a, a < 2 → ∀ b, b < 2 → ∀ c', c' < 2 → ∀ e, e < 2 →
    sumTo 1 (fun x => (zzA c).e a c' 0 x * zzB.e b e x 0) = zzT c a b c' e := by
  intro a ha b hb c' hc e he
  simp only [sumTo, zzA, zzB, zzT, zero_add]
  by_cases h1 : a = c' <;> by_cases h2 : b = e <;> simp [h1, h2]
private theorem zzMpoOK (c : CRat) : GateMpoOK 2 (zzGate c gA) gA (zzMpo c) :=
  (gate_mpo_is_gate_on_ends 2 1 1 (zzA c) zzB (zzGate c gA) gA ⟨rfl, rfl, rfl⟩ ⟨rfl, rfl, rfl⟩ (zzSplit c) rfl).2
private theorem zzSym (c : CRat) : (gateMat2 2 (zzT c))ᵀ = gateMat2 2 (zzT c) := by
  ext x y
  simp only [Matrix.transpose_apply, gateMat2, zzT]
  by_cases h : (x.1 : Nat) = y.1 ∧ (x.2 : Nat) = y.2
  · rw [if_pos h, if_pos ⟨h.1.symm, h.2.symm⟩, h.1, h.2]
  · rw [if_neg h, if_neg (fun h' => h ⟨h'.1.symm, h'.2.symm⟩)]
private theorem hC : ExHyp gI g1' cC cC [zzMpo CRat.I, zzMpo 1] decsC :=
  exHyps gI g1' cC cC bsC _ decsC evC stC ⟨zzMpoOK CRat.I, zzMpoOK 1, trivial⟩ exC_exact
private theorem cC_ok (c : CRat) : LRCircuit 3 cC (zzGate c) := lrCirc _ (fun _ => ⟨rfl, rfl, rfl⟩) _ (by decide)
private theorem zz_sem (c : CRat) : U (sem 2 3 (zzGate c)) cC = c • embed2 2 3 0 2 (gateMat2 2 (zzT 1)) := by
  have h : gateMat2 2 (zzT c) = c • gateMat2 2 (zzT 1) := by
    ext x y
    simp only [gateMat2, zzT, Matrix.smul_apply, smul_eq_mul]
    split_ifs <;> simp [mul_assoc]
  have e : U (sem 2 3 (zzGate c)) cC = embed2 2 3 0 2 (gateMat2 2 (zzT c)) := by
    show (([(⟨0, [2, 0]⟩ : Instr)].map (sem 2 3 (zzGate c))).reverse).prod = _
    simp [sem, gateSem, zzGate]
  rw [e, h, embed2_smul 2 3 0 2 (by decide) (by decide) (by decide)]

set_option maxRecDepth 4000 in
example : ∃ b, checkerRunLR (1 / 2) gI g1' 3 cC cC [zzMpo CRat.I, zzMpo 1] decsC 1 = some b ∧ b = true := by
  refine ⟨_, rfl, checker_equal_up_to_phase_lr (1 / 2) gI g1' 3 cC cC _ decsC 1 _ (cC_ok _) (cC_ok _)
    (fun _ _ _ => zzSym 1) hC.1 hC.2 rfl CRat.I (by decide +kernel) ?_ ?_ (le_refl 1)⟩
  · rw [zz_sem, zz_sem, one_smul]
  · rw [zz_sem, one_smul, embed2_conjTranspose, embed2_mul]
    have : (gateMat2 2 (zzT 1))ᴴ * gateMat2 2 (zzT 1) = 1 := by
      ext x y
      rw [Matrix.mul_apply, Fintype.sum_prod_type]
      simp only [Fin.sum_univ_two, Matrix.conjTranspose_apply, gateMat2, Matrix.one_apply]
      revert x y
      decide +kernel
    rw [this, embed2_one]

end Yaqs.CheckerLR
